(* Properties/C03.v — statements only; every proof is `exact <lemma>`.
   C03 "No event is lost, invented, or released before a confirmed response carried it":
   the event buffer as a data structure (Outstation/EventBuffer.v); then, at the end of the file, the session
   (Outstation/Session.v: release only by the awaited CONFIRM, every abandoned response reset, one response
   outstanding) and the composition of both (Outstation/Full.v: which ids leave the buffer in a step). *)
From Dnp3V Require Import Base.Bytes Outstation.DbTypes Outstation.EventBuffer Outstation.EventBufferProofs.
From Dnp3V Require Import Outstation.Database Outstation.Session Outstation.SessionLemmas_c04 Outstation.SessionLemmas_c03
  Outstation.Full Outstation.FullProofs Outstation.SessionC03Proofs.
From Coq Require Import Sorting.Sorted.
Open Scope N_scope.

Theorem C03_ids_unique_monotone : forall cfg ops,
  created_ids (ebuf_new cfg) ops = nseq 0 (length (created_ids (ebuf_new cfg) ops))
  /\ StronglySorted (fun a b => r_id a < r_id b) (eb_events (ebuf_run cfg ops))
  /\ Forall (fun r => r_id r < eb_next (ebuf_run cfg ops)) (eb_events (ebuf_run cfg ops)).
Proof. exact ids_unique_monotone. Qed.
Print Assumptions C03_ids_unique_monotone.

Theorem C03_insert_overflow_discards_oldest_same_type : forall cfg ops index k t m dv,
  let b := ebuf_run cfg ops in
  let rec := mkRec (eb_next b) index k t m dv dv Unselected in
  let b' := fst (ebuf_insert b index k t m dv) in
  let res := snd (ebuf_insert b index k t m dv) in
  (cfg_max cfg t = 0 -> b' = b /\ res = InsTypeMaxIsZero)
  /\ (cfg_max cfg t <> 0 -> countN (in_type t) (eb_events b) < cfg_max cfg t ->
      res = InsOk (eb_next b) /\ eb_events b' = eb_events b ++ [rec] /\ eb_overflown b' = eb_overflown b)
  /\ (cfg_max cfg t <> 0 -> countN (in_type t) (eb_events b) = cfg_max cfg t ->
      exists old pre post,
        eb_events b = pre ++ old :: post
        /\ Forall (fun r => r_type r <> t) pre /\ r_type old = t
        /\ res = InsOverflow (eb_next b) (r_id old)
        /\ eb_events b' = pre ++ post ++ [rec]
        /\ eb_overflown b' = true).
Proof. exact insert_overflow_discards_oldest_same_type. Qed.
Print Assumptions C03_insert_overflow_discards_oldest_same_type.

Theorem C03_capacity_respected : forall cfg ops t,
  countN (in_type t) (eb_events (ebuf_run cfg ops)) <= cfg_max (eb_cfg (ebuf_run cfg ops)) t.
Proof. exact capacity_respected. Qed.
Print Assumptions C03_capacity_respected.

Theorem C03_select_takes_oldest_up_to_limit : forall sel l lim,
  let l' := fst (select_loop sel lim l) in
  let n := snd (select_loop sel lim l) in
  (forall m, lim = Some m -> n <= m)
  /\ n <= countN (eligible sel) l
  /\ (n < countN (eligible sel) l -> lim = Some n)
  /\ l' = select_mark sel (N.to_nat n) l.
Proof. exact select_takes_oldest_up_to_limit. Qed.
Print Assumptions C03_select_takes_oldest_up_to_limit.

Theorem C03_write_oldest_first : forall b budget,
  let b' := fst (ebuf_write_hdrs b budget) in
  let r := snd (ebuf_write_hdrs b budget) in
  let sel := selected (eb_events b) in
  let k := N.to_nat (wr_count r) in
  (k <= length sel)%nat
  /\ eb_events b' = mark_written k (eb_events b)
  /\ map fst (ehdrs_objs (wr_hdrs r)) = firstn k sel
  /\ (exists w, ew_feed (ew_new budget) (firstn k sel) = Some w
                /\ wr_hdrs r = ew_out w /\ wr_rem r = ew_rem w
                /\ (wr_complete r = false -> exists x, nth_error sel k = Some x /\ ew_try w x = None))
  /\ (wr_complete r = true <-> k = length sel).
Proof. exact write_oldest_first. Qed.
Print Assumptions C03_write_oldest_first.

Theorem C03_write_exact_time : forall b budget,
  Forall (fun h => Forall (obj_time_ok h) (eh_objs h)) (wr_hdrs (snd (ebuf_write_hdrs b budget))).
Proof. exact write_exact_time. Qed.
Print Assumptions C03_write_exact_time.

Theorem C03_clear_written_releases_exactly_written : forall b,
  let b' := fst (ebuf_clear_written b) in
  let ids := snd (ebuf_clear_written b) in
  ids = map r_id (filter is_written (eb_events b))
  /\ eb_events b' = filter (fun r => negb (is_written r)) (eb_events b).
Proof. exact clear_written_releases_exactly_written. Qed.
Print Assumptions C03_clear_written_releases_exactly_written.

Theorem C03_reset_unselects_all : forall b,
  eb_events (ebuf_reset b) = map (fun r => set_state r Unselected) (eb_events b)
  /\ Forall (fun r => r_state r = Unselected) (eb_events (ebuf_reset b))
  /\ map r_id (eb_events (ebuf_reset b)) = map r_id (eb_events b)
  /\ eb_total (ebuf_reset b) = eb_total b /\ eb_overflown (ebuf_reset b) = eb_overflown b.
Proof. exact reset_unselects_all. Qed.
Print Assumptions C03_reset_unselects_all.

(* ---- the hypotheses are satisfiable: a concrete buffer ---- *)

Definition ex_cfg : ebcfg := mkEbCfg 2 0 0 2 0 0 0 0.
Definition ex_bi (v : N) (t : N) : meas := mkMeas v 1 (Some (true, t)) [].
Definition ex_ops : list eop :=
  [OpInsert 7 Class1 TBinary (ex_bi 1 1000) G2V3;
   OpInsert 3 Class2 TCounter (mkMeas 42 1 None []) G22V1;
   OpInsert 7 Class1 TBinary (ex_bi 0 1500) G2V3;
   OpSelClass true true true None;
   OpWrite 30].

(* three events, all selected; a 30-octet budget takes the first (CTO header 10 + header 5 + object 5)
   and refuses the counter event (header 5 + object 7): a proper prefix, oldest first *)
Example C03_ex_three_events :
  map r_id (eb_events (ebuf_run ex_cfg ex_ops)) = [0; 1; 2]
  /\ map r_state (eb_events (ebuf_run ex_cfg ex_ops)) = [Written; Selected; Selected]
  /\ created_ids (ebuf_new ex_cfg) ex_ops = [0; 1; 2].
Proof. vm_compute. repeat split. Qed.

(* a third binary event overflows the type (capacity 2): the oldest binary event (id 0, Written) goes *)
Example C03_ex_overflow :
  snd (ebuf_insert (ebuf_run ex_cfg ex_ops) 9 Class3 TBinary (ex_bi 1 2000) G2V1) = InsOverflow 3 0
  /\ map r_id (eb_events (fst (ebuf_insert (ebuf_run ex_cfg ex_ops) 9 Class3 TBinary (ex_bi 1 2000) G2V1))) = [1; 2; 3].
Proof. vm_compute. split; reflexivity. Qed.

Example C03_ex_bytes :
  fst (fst (snd (ebuf_write (ebuf_run ex_cfg (firstn 4 ex_ops)) 30)))
  = [51; 1; 7; 1; 232; 3; 0; 0; 0; 0;  2; 3; 40; 1; 0;  7; 0; 129; 0; 0].
Proof. vm_compute. reflexivity. Qed.

(* ================================================================================================ *)
(* the session (Outstation/Session.v, lemmas in Outstation/SessionLemmas_c03.v, SessionC03Proofs.v):
   WHEN the database is told to release the written events, to offer them again, to write more.
   Quantifiers: every configuration, every state reachable from start-up (`Reach`), every event,
   every list of answers of the database.
     nc o        : o is not the call clear_written_events      (SessionLemmas_c03.nc)
     nodb / hq   : no call into the database / at most the event-info probe
     waiting s   : a response that may carry events is outstanding (solicited confirm wait, or the
                   confirm wait of an unsolicited response other than the start-up null response)
     same_wait   : the same response is still outstanding;  wq s = nodb (solicited) / hq (unsolicited) *)

Theorem C03_session_boundary_invariant : forall cfg s,
  Reach cfg s -> s_pending s = None /\ (s_deferred s = None \/ is_unsol_wait (s_control s)).
Proof. exact reach_boundary_inv. Qed.
Print Assumptions C03_session_boundary_invariant.

Theorem C03_awaited_confirm_computed : forall cfg s ev i,
  releasing cfg s ev = Some i <->
  exists from bytes ctl obj,
    ev = ERx from None bytes (DOk ctl fn_confirm RvOk obj) /\ (o_any_master cfg = true \/ from = o_master cfg) /\
    ((exists se dl r, s_control s = CSolWait se dl r /\ ctl_uns ctl = false /\ ctl_seq ctl = se_ecsn se /\
                      i = ISolConfirmed (se_ecsn se)) \/
     (exists resp rt dl, s_control s = CUnsolWait resp false rt dl /\ ctl_uns ctl = true /\
                         ctl_seq ctl = ctl_seq (r_ctl resp) /\ i = IUnsolConfirmed (ctl_seq (r_ctl resp)))).
Proof. exact releasing_spec. Qed.
Print Assumptions C03_awaited_confirm_computed.

Theorem C03_release_only_on_awaited_confirm : forall cfg s ev ans s' out,
  Reach cfg s -> ostep cfg s ev ans = (s', out) ->
  (forall i, awaited_confirm cfg s ev i ->
     exists rest, out = OInfo i :: ODb DbClearWritten :: rest /\ Forall nc rest) /\
  ((forall i, ~ awaited_confirm cfg s ev i) -> Forall nc out).
Proof. exact release_only_on_awaited_confirm. Qed.
Print Assumptions C03_release_only_on_awaited_confirm.

Theorem C03_clear_written_position : forall cfg s ev ans s' out pre post,
  Reach cfg s -> ostep cfg s ev ans = (s', out) -> out = pre ++ ODb DbClearWritten :: post ->
  exists i, awaited_confirm cfg s ev i /\ pre = [OInfo i] /\ Forall nc post.
Proof. exact clear_written_position. Qed.
Print Assumptions C03_clear_written_position.

Theorem C03_start_releases_nothing : forall cfg sel op iin a s o,
  ostart cfg sel op iin a = (s, o) -> Forall nc o.
Proof. exact start_releases_nothing. Qed.
Print Assumptions C03_start_releases_nothing.

Theorem C03_abandoned_solicited_wait_resets : forall cfg s ev ans s' pre i post,
  Reach cfg s -> ostep cfg s ev ans = (s', pre ++ OInfo i :: post) ->
  (exists q, i = ISolTimeout q) \/ i = ISolNewRequest ->
  exists post', post = ODb DbReset :: post'.
Proof. exact abandoned_solicited_wait_resets_at. Qed.
Print Assumptions C03_abandoned_solicited_wait_resets.

Theorem C03_disconnect_resets : forall cfg s ans s' out,
  ostep cfg s EDisconnect ans = (s', out) -> exists rest, out = ODb DbReset :: OSessionEnd :: rest.
Proof. exact disconnect_resets. Qed.
Print Assumptions C03_disconnect_resets.

Theorem C03_outstanding_step : forall cfg s ev ans s' out,
  waiting s = true -> ostep cfg s ev ans = (s', out) ->
  (Forall (wq s) out /\ same_wait s s') \/
  (exists pre c post, out = pre ++ ODb c :: post /\ is_end c = true /\ Forall (wq s) pre).
Proof. exact outstanding_step. Qed.
Print Assumptions C03_outstanding_step.

Theorem C03_outstanding_time : forall cfg target f s s' o,
  waiting s = true -> advance f cfg s target = (s', o) ->
  (Forall (wq s) o /\ same_wait s s') \/
  (exists pre c post, o = pre ++ ODb c :: post /\ is_end c = true /\ Forall (wq s) pre).
Proof. exact outstanding_time. Qed.
Print Assumptions C03_outstanding_time.

Theorem C03_one_response_outstanding : forall cfg s ev ans s' pre c post,
  waiting s = true -> ostep cfg s ev ans = (s', pre ++ ODb c :: post) -> is_mark c = true ->
  exists e, is_end e = true /\ In (ODb e) pre.
Proof. exact one_response_outstanding. Qed.
Print Assumptions C03_one_response_outstanding.

Theorem C03_abandoned_response_reset_before_reuse : forall cfg s ev ans s' pre c post,
  Reach cfg s -> waiting s = true -> (forall i, ~ awaited_confirm cfg s ev i) ->
  ostep cfg s ev ans = (s', pre ++ ODb c :: post) -> is_mark c = true -> In (ODb DbReset) pre.
Proof. exact abandoned_response_reset_before_reuse. Qed.
Print Assumptions C03_abandoned_response_reset_before_reuse.

Theorem C03_wait_persists : forall cfg s ev ans s' out,
  waiting s = true -> ostep cfg s ev ans = (s', out) ->
  ~ In (ODb DbClearWritten) out -> ~ In (ODb DbReset) out ->
  same_wait s s' /\ Forall (wq s) out.
Proof. exact wait_persists. Qed.
Print Assumptions C03_wait_persists.

(* ---- composed with the database model (Outstation/Full.v): the ids that leave the buffer ---- *)

Theorem C03_composed_boundary_invariant : forall F st,
  FReach F st -> s_pending (fs_s st) = None /\ (s_deferred (fs_s st) = None \/ is_unsol_wait (s_control (fs_s st))).
Proof. exact freach_boundary_inv. Qed.
Print Assumptions C03_composed_boundary_invariant.

Theorem C03_fstart_release : forall F sel op iin,
  ~ In FReplayError (snd (fstart F sel op iin)) -> ev_ids (fs_db (fst (fstart F sel op iin))) = [].
Proof. exact fstart_release. Qed.
Print Assumptions C03_fstart_release.

Theorem C03_fevent_release : forall F st d ev,
  boundary_inv (fs_s st) ->
  let ro := fevent_out F st d ev in
  ~ In FReplayError (ro_log ro) ->
  (forall i, awaited_confirm (f_o F) (fs_s st) ev i ->
     ev_ids (ro_db ro) = unwritten_ids d /\
     exists rest, ro_out ro = OInfo i :: ODb DbClearWritten :: rest /\ Forall nc rest) /\
  ((forall i, ~ awaited_confirm (f_o F) (fs_s st) ev i) ->
     ev_ids (ro_db ro) = ev_ids d /\ Forall nc (ro_out ro)).
Proof. exact fevent_release. Qed.
Print Assumptions C03_fevent_release.

Theorem C03_fstep_release : forall F st op,
  FReach F st -> ~ In FReplayError (snd (fstep F st op)) ->
  let d1 := fst (fop_event st op) in
  let ev := snd (fop_event st op) in
  let st' := fst (fstep F st op) in
  (db_events d1 = db_events (fs_db st) \/
   exists t i v var k, op = FUpdate t i v /\ db_events d1 = fst (ebuf_insert (db_events (fs_db st)) i k t v var)) /\
  (forall i, awaited_confirm (f_o F) (fs_s st) ev i ->
     d1 = fs_db st /\ ev_ids (fs_db st') = unwritten_ids (fs_db st)) /\
  ((forall i, ~ awaited_confirm (f_o F) (fs_s st) ev i) -> ev_ids (fs_db st') = ev_ids d1).
Proof. exact fstep_release. Qed.
Print Assumptions C03_fstep_release.

(* what clear_written_events reports and leaves, in the vocabulary of the composed theorems *)
Theorem C03_clear_written_ids : forall d,
  ev_ids (fst (db_clear_written d)) = unwritten_ids d /\ fst (snd (db_clear_written d)) = written_ids d /\
  forall x, In x (ev_ids d) <-> In x (unwritten_ids d) \/ In x (written_ids d).
Proof. exact clear_written_ids. Qed.
Print Assumptions C03_clear_written_ids.

(* ---- the hypotheses are satisfiable: concrete reachable states and steps (vm_compute in SessionC03Proofs.v) ---- *)

Example C03_ex_session_states :
  s_control ex_sw = CSolWait {| se_ecsn := 3; se_fin := true |} 5000 RStep2 /\
  s_control ex_sw2 = CSolWait {| se_ecsn := 3; se_fin := false |} 5000 RStep2 /\
  s_control ex_uw = CUnsolWait {| r_ctl := 241; r_fn := 130; r_iin1 := 128; r_iin2 := 0; r_size := 12 |} false (Some 1%nat) 5002 /\
  waiting ex_sw = true /\ waiting ex_sw2 = true /\ waiting ex_uw = true /\ waiting (ex_st0 true) = false /\
  ex_out true (ex_run true (firstn 2 ex_uhist)) EDbChange [AUnsol 1 (ex_body 7); ev0]
  = [ODb (DbWriteUnsol true false false); ODb DbEvinfo; OTx 1 [241; 130; 128; 0; 2; 1; 40; 1; 0; 7; 0; 129];
     OInfo (IEnterUnsolWait 1)].
Proof. exact ex_states. Qed.

Example C03_ex_release_only_on_awaited_confirm :
  Reach (SessionC03Proofs.ex_cfg false) ex_sw /\ Reach (SessionC03Proofs.ex_cfg false) ex_sw2 /\ Reach (SessionC03Proofs.ex_cfg true) ex_uw /\
  awaited_confirm (SessionC03Proofs.ex_cfg false) ex_sw (ex_confirm false 3) (ISolConfirmed 3) /\
  ex_out false ex_sw (ex_confirm false 3) [] = [OInfo (ISolConfirmed 3); ODb DbClearWritten] /\
  ex_out false ex_sw2 (ex_confirm false 3) [AWrite true true (ex_body 8); ev0]
  = [OInfo (ISolConfirmed 3); ODb DbClearWritten; ODb DbWrite; ODb DbEvinfo; OTx 1 [100; 129; 128; 0; 2; 1; 40; 1; 0; 8; 0; 129]] /\
  awaited_confirm (SessionC03Proofs.ex_cfg true) ex_uw (ex_confirm true 1) (IUnsolConfirmed 1) /\
  ex_out true ex_uw (ex_confirm true 1) [] = [OInfo (IUnsolConfirmed 1); ODb DbClearWritten] /\
  (forall i, ~ awaited_confirm (SessionC03Proofs.ex_cfg false) ex_sw (ex_confirm false 4) i) /\
  ex_out false ex_sw (ex_confirm false 4) [] = [OInfo (ISolWrongSeq 3 4)] /\
  ex_out false ex_sw (ex_confirm true 3) [] = [OInfo (IUnexpectedConfirm true 3)] /\
  ex_out true ex_uw (ex_confirm true 2) [] = [] /\ ex_out true ex_uw (ex_confirm false 1) [] = [].
Proof. exact ex_release_only_on_awaited_confirm. Qed.

Example C03_ex_abandoned_responses_are_reset :
  ex_out false ex_sw (ESleep 6000) [] = [OAt 5000; OInfo (ISolTimeout 3); ODb DbReset] /\
  ex_out false ex_sw (ex_req 4) [ev1]
  = [OInfo ISolNewRequest; ODb DbReset; OInfo (IIdleRequest 24 4); ODb DbEvinfo; OTx 1 [196; 129; 130; 0]] /\
  ex_out false ex_sw EDisconnect [] = [ODb DbReset; OSessionEnd] /\
  ex_out true ex_uw (ESleep 10000) []
  = [OAt 5002; OInfo (IUnsolTimeout 1 true); OTx 1 [241; 130; 128; 0; 2; 1; 40; 1; 0; 7; 0; 129];
     OAt 10002; OInfo (IUnsolTimeout 1 false); ODb DbReset] /\
  ex_out true ex_uw (ex_disable 2) [ev1] = [ODb DbEvinfo; OTx 1 [194; 129; 130; 0]; ODb DbReset] /\
  ex_out true ex_uw ex_disable_bc [] = [OInfo (IBroadcast 21 0 0); ODb DbReset] /\
  ex_out true ex_uw EDisconnect [ev0] = [ODb DbReset; OSessionEnd] /\
  ex_out true ex_uw (ex_req 2) [ev1] = [ODb DbEvinfo; OTx 1 [194; 129; 130; 0]] /\
  same_wait ex_uw (fst (ostep (SessionC03Proofs.ex_cfg true) ex_uw (ex_req 2) [ev1])) /\
  same_wait ex_uw (fst (ostep (SessionC03Proofs.ex_cfg true) ex_uw (ESleep 5000) [])) /\
  same_wait ex_sw (fst (ostep (SessionC03Proofs.ex_cfg false) ex_sw (ex_read 3) [])) /\
  abandon_reset (ex_out false ex_sw (ex_req 4) [ev1]).
Proof. exact ex_abandoned_responses_are_reset. Qed.

Example C03_ex_one_response_outstanding :
  wait_shape ex_sw (ex_out false ex_sw (ex_req 4) [ev1]) (fst (ostep (SessionC03Proofs.ex_cfg false) ex_sw (ex_req 4) [ev1])) /\
  (* the read that follows the abandoned series selects and writes after the reset *)
  ex_out false ex_sw (ex_read 4) (ex_read_ans true)
  = [OInfo ISolNewRequest; ODb DbReset; OInfo (IIdleRequest 1 4); ODb DbSelect; ODb DbWrite; ODb DbEvinfo;
     OTx 1 [228; 129; 128; 0; 2; 1; 40; 1; 0; 7; 0; 129]; OInfo (IEnterSolWait 4)] /\
  (* a READ during the unsolicited wait is deferred: nothing is selected or written *)
  ex_out true ex_uw (ex_read 4) (ex_read_ans true) = [] /\
  (* ... until the CONFIRM arrives: clear first, then the deferred READ *)
  ex_out true (fst (ostep (SessionC03Proofs.ex_cfg true) ex_uw (ex_read 4) [])) (ex_confirm true 1) (ex_read_ans true)
  = [OInfo (IUnsolConfirmed 1); ODb DbClearWritten; ODb DbDeferredSelect; ODb DbWrite; ODb DbEvinfo;
     OTx 1 [228; 129; 128; 0; 2; 1; 40; 1; 0; 7; 0; 129]; OInfo (IEnterSolWait 4)].
Proof. exact ex_one_response_outstanding. Qed.

Example C03_ex_fstep_release :
  let F := ex_full_cfg 5 in
  let st := ex_fst 5 in
  FReach F st /\ waiting (fs_s st) = true /\
  ev_ids (fs_db st) = [0; 1] /\ written_ids (fs_db st) = [0; 1] /\ unwritten_ids (fs_db st) = [] /\
  awaited_confirm (f_o F) (fs_s st) (snd (fop_event st (FRx 1 None [193; 0]))) (ISolConfirmed 1) /\
  has_replay_error (snd (fstep F st (FRx 1 None [193; 0]))) = false /\
  ev_ids (fs_db (fst (fstep F st (FRx 1 None [193; 0])))) = [] /\
  In (FCleared [0; 1] 0 0 0) (snd (fstep F st (FRx 1 None [193; 0]))) /\
  (forall i, ~ awaited_confirm (f_o F) (fs_s st) (snd (fop_event st (FRx 1 None [194; 0]))) i) /\
  ev_ids (fs_db (fst (fstep F st (FRx 1 None [194; 0])))) = [0; 1] /\
  has_replay_error (snd (fstep F st (FSleep 6000))) = false /\
  ev_ids (fs_db (fst (fstep F st (FSleep 6000)))) = [0; 1] /\
  written_ids (fs_db (fst (fstep F st (FSleep 6000)))) = [] /\
  ev_ids (fs_db (fst (fstep F st (FUpdate TBinary 0 (SessionC03Proofs.ex_bi 1 3000))))) = [0; 1; 2] /\
  written_ids (fs_db (fst (fstep F st (FUpdate TBinary 0 (SessionC03Proofs.ex_bi 1 3000))))) = [0; 1] /\
  ev_ids (fs_db (ex_fst 1)) = [1] /\
  ev_ids (fst (fop_event (ex_fst 1) (FUpdate TBinary 0 (SessionC03Proofs.ex_bi 1 3000)))) = [2] /\
  ev_ids (fs_db (fst (fstep (ex_full_cfg 1) (ex_fst 1) (FUpdate TBinary 0 (SessionC03Proofs.ex_bi 1 3000))))) = [2].
Proof. exact ex_fstep_release. Qed.
