(* Properties/C03.v — statements only; every proof is `exact <lemma>`.
   C03 "No event is lost, invented, or released before a confirmed response carried it":
   the event buffer as a data structure (Outstation/EventBuffer.v).  The session-level theorems
   (release only by the matching confirm, offered until confirmed) are added by the session layer. *)
From Dnp3V Require Import Base.Bytes Outstation.DbTypes Outstation.EventBuffer Outstation.EventBufferProofs.
From Coq Require Import Sorting.Sorted.
Open Scope N_scope.

Theorem C03_ids_unique_monotone : forall cfg ops,
  created_ids (ebuf_new cfg) ops = nseq 0 (length (created_ids (ebuf_new cfg) ops))
  /\ StronglySorted (fun a b => r_id a < r_id b) (eb_events (ebuf_run cfg ops))
  /\ Forall (fun r => r_id r < eb_next (ebuf_run cfg ops)) (eb_events (ebuf_run cfg ops)).
Proof. exact ids_unique_monotone. Qed.
Print Assumptions C03_ids_unique_monotone.

Theorem C03_insert_overflow_discards_oldest_same_type : forall cfg ops index k t m dv,
  let b := ebuf_run cfg ops in
  let rec := mkRec (eb_next b) index k t m dv dv Unselected in
  let b' := fst (ebuf_insert b index k t m dv) in
  let res := snd (ebuf_insert b index k t m dv) in
  (cfg_max cfg t = 0 -> b' = b /\ res = InsTypeMaxIsZero)
  /\ (cfg_max cfg t <> 0 -> countN (in_type t) (eb_events b) < cfg_max cfg t ->
      res = InsOk (eb_next b) /\ eb_events b' = eb_events b ++ [rec] /\ eb_overflown b' = eb_overflown b)
  /\ (cfg_max cfg t <> 0 -> countN (in_type t) (eb_events b) = cfg_max cfg t ->
      exists old pre post,
        eb_events b = pre ++ old :: post
        /\ Forall (fun r => r_type r <> t) pre /\ r_type old = t
        /\ res = InsOverflow (eb_next b) (r_id old)
        /\ eb_events b' = pre ++ post ++ [rec]
        /\ eb_overflown b' = true).
Proof. exact insert_overflow_discards_oldest_same_type. Qed.
Print Assumptions C03_insert_overflow_discards_oldest_same_type.

Theorem C03_capacity_respected : forall cfg ops t,
  countN (in_type t) (eb_events (ebuf_run cfg ops)) <= cfg_max (eb_cfg (ebuf_run cfg ops)) t.
Proof. exact capacity_respected. Qed.
Print Assumptions C03_capacity_respected.

Theorem C03_select_takes_oldest_up_to_limit : forall sel l lim,
  let l' := fst (select_loop sel lim l) in
  let n := snd (select_loop sel lim l) in
  (forall m, lim = Some m -> n <= m)
  /\ n <= countN (eligible sel) l
  /\ (n < countN (eligible sel) l -> lim = Some n)
  /\ l' = select_mark sel (N.to_nat n) l.
Proof. exact select_takes_oldest_up_to_limit. Qed.
Print Assumptions C03_select_takes_oldest_up_to_limit.

Theorem C03_write_oldest_first : forall b budget,
  let b' := fst (ebuf_write_hdrs b budget) in
  let r := snd (ebuf_write_hdrs b budget) in
  let sel := selected (eb_events b) in
  let k := N.to_nat (wr_count r) in
  (k <= length sel)%nat
  /\ eb_events b' = mark_written k (eb_events b)
  /\ map fst (ehdrs_objs (wr_hdrs r)) = firstn k sel
  /\ (exists w, ew_feed (ew_new budget) (firstn k sel) = Some w
                /\ wr_hdrs r = ew_out w /\ wr_rem r = ew_rem w
                /\ (wr_complete r = false -> exists x, nth_error sel k = Some x /\ ew_try w x = None))
  /\ (wr_complete r = true <-> k = length sel).
Proof. exact write_oldest_first. Qed.
Print Assumptions C03_write_oldest_first.

Theorem C03_write_exact_time : forall b budget,
  Forall (fun h => Forall (obj_time_ok h) (eh_objs h)) (wr_hdrs (snd (ebuf_write_hdrs b budget))).
Proof. exact write_exact_time. Qed.
Print Assumptions C03_write_exact_time.

Theorem C03_clear_written_releases_exactly_written : forall b,
  let b' := fst (ebuf_clear_written b) in
  let ids := snd (ebuf_clear_written b) in
  ids = map r_id (filter is_written (eb_events b))
  /\ eb_events b' = filter (fun r => negb (is_written r)) (eb_events b).
Proof. exact clear_written_releases_exactly_written. Qed.
Print Assumptions C03_clear_written_releases_exactly_written.

Theorem C03_reset_unselects_all : forall b,
  eb_events (ebuf_reset b) = map (fun r => set_state r Unselected) (eb_events b)
  /\ Forall (fun r => r_state r = Unselected) (eb_events (ebuf_reset b))
  /\ map r_id (eb_events (ebuf_reset b)) = map r_id (eb_events b)
  /\ eb_total (ebuf_reset b) = eb_total b /\ eb_overflown (ebuf_reset b) = eb_overflown b.
Proof. exact reset_unselects_all. Qed.
Print Assumptions C03_reset_unselects_all.

(* ---- the hypotheses are satisfiable: a concrete buffer ---- *)

Definition ex_cfg : ebcfg := mkEbCfg 2 0 0 2 0 0 0 0.
Definition ex_bi (v : N) (t : N) : meas := mkMeas v 1 (Some (true, t)) [].
Definition ex_ops : list eop :=
  [OpInsert 7 Class1 TBinary (ex_bi 1 1000) G2V3;
   OpInsert 3 Class2 TCounter (mkMeas 42 1 None []) G22V1;
   OpInsert 7 Class1 TBinary (ex_bi 0 1500) G2V3;
   OpSelClass true true true None;
   OpWrite 30].

(* three events, all selected; a 30-octet budget takes the first (CTO header 10 + header 5 + object 5)
   and refuses the counter event (header 5 + object 7): a proper prefix, oldest first *)
Example C03_ex_three_events :
  map r_id (eb_events (ebuf_run ex_cfg ex_ops)) = [0; 1; 2]
  /\ map r_state (eb_events (ebuf_run ex_cfg ex_ops)) = [Written; Selected; Selected]
  /\ created_ids (ebuf_new ex_cfg) ex_ops = [0; 1; 2].
Proof. vm_compute. repeat split. Qed.

(* a third binary event overflows the type (capacity 2): the oldest binary event (id 0, Written) goes *)
Example C03_ex_overflow :
  snd (ebuf_insert (ebuf_run ex_cfg ex_ops) 9 Class3 TBinary (ex_bi 1 2000) G2V1) = InsOverflow 3 0
  /\ map r_id (eb_events (fst (ebuf_insert (ebuf_run ex_cfg ex_ops) 9 Class3 TBinary (ex_bi 1 2000) G2V1))) = [1; 2; 3].
Proof. vm_compute. split; reflexivity. Qed.

Example C03_ex_bytes :
  fst (fst (snd (ebuf_write (ebuf_run ex_cfg (firstn 4 ex_ops)) 30)))
  = [51; 1; 7; 1; 232; 3; 0; 0; 0; 0;  2; 3; 40; 1; 0;  7; 0; 129; 0; 0].
Proof. vm_compute. reflexivity. Qed.
