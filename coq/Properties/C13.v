(* Properties/C13.v — statements only; every proof is `exact <lemma>`.
   C13 "Internal indication bits tell the truth": the counters the class bits are computed from are
   exact in every reachable buffer state, hence unwritten_classes() is exactly "the buffer holds an
   event of that class that is not Written"; the overflow flag follows discards and confirmations.
   (Model of the code after fix 485ed42; before it `counters_exact` is false: corpus/C13/f3_*.) *)
From Dnp3V Require Import Base.Bytes Outstation.DbTypes Outstation.EventBuffer Outstation.EventBufferProofs.
Open Scope N_scope.

Theorem C13_counters_exact : forall cfg ops,
  let b := ebuf_run cfg ops in
  (forall k, cnt_class (eb_total b) k = countN (in_class k) (eb_events b))
  /\ (forall t, cnt_type (eb_total b) t = countN (in_type t) (eb_events b))
  /\ (forall k, cnt_class (eb_written b) k = countN (fun r => in_class k r && is_written r) (eb_events b))
  /\ (forall t, cnt_type (eb_written b) t = countN (fun r => in_type t r && is_written r) (eb_events b)).
Proof. exact counters_exact. Qed.
Print Assumptions C13_counters_exact.

Theorem C13_class_bits_exact : forall cfg ops,
  let b := ebuf_run cfg ops in
  ebuf_unwritten_classes b =
  (existsb (unwritten_of Class1) (eb_events b),
   existsb (unwritten_of Class2) (eb_events b),
   existsb (unwritten_of Class3) (eb_events b)).
Proof. exact class_bits_exact. Qed.
Print Assumptions C13_class_bits_exact.

Theorem C13_no_underflow : forall cfg ops, ebuf_subtract_ok (ebuf_run cfg ops) = true.
Proof. exact no_underflow. Qed.
Print Assumptions C13_no_underflow.

Theorem C13_overflow_flag_history : forall cfg ops,
  let b := ebuf_run cfg ops in
  (forall c1 c2 c3 lim, eb_overflown (fst (ebuf_select_by_class b c1 c2 c3 lim)) = eb_overflown b)
  /\ (forall t v lim, eb_overflown (fst (ebuf_select_by_type b t v lim)) = eb_overflown b)
  /\ (forall budget, eb_overflown (fst (ebuf_write_hdrs b budget)) = eb_overflown b)
  /\ eb_overflown (ebuf_reset b) = eb_overflown b
  /\ eb_overflown (fst (ebuf_clear_written b))
     = eb_overflown b && existsb (at_capacity cfg (eb_events (fst (ebuf_clear_written b)))) all_ptypes.
Proof. exact overflow_flag_history. Qed.
Print Assumptions C13_overflow_flag_history.

(* ---- the F3 history: a Written event is discarded by an overflow ---- *)

Definition f3_cfg : ebcfg := mkEbCfg 1 1 1 1 1 1 1 1.
Definition f3_ops : list eop :=
  [OpInsert 0 Class1 TBinary (mkMeas 1 1 (Some (true, 1)) []) G2V1;
   OpSelClass true false false None;
   OpWrite 100;                                                      (* event 0 is Written *)
   OpInsert 1 Class2 TBinary (mkMeas 1 1 (Some (true, 2)) []) G2V1]. (* discards it *)

Example C13_ex_f3 :
  map r_id (eb_events (ebuf_run f3_cfg f3_ops)) = [1]
  /\ ebuf_unwritten_classes (ebuf_run f3_cfg f3_ops) = (false, true, false)
  /\ eb_written (ebuf_run f3_cfg f3_ops) = cnt_zero
  /\ ebuf_is_overflown (ebuf_run f3_cfg f3_ops) = true.
Proof. vm_compute. repeat split. Qed.

(* a buffer holding three events of which one is Written: bits for the classes of the other two *)
Example C13_ex_three_events :
  let b := ebuf_run (mkEbCfg 3 0 0 0 0 3 0 0)
    [OpInsert 0 Class1 TBinary (mkMeas 1 1 None []) G2V1;
     OpInsert 5 Class2 TAnalog (mkMeas 0 1 None []) G32V1;
     OpInsert 0 Class3 TBinary (mkMeas 0 1 None []) G2V1;
     OpSelClass true false false None; OpWrite 100] in
  ebuf_unwritten_classes b = (false, true, true) /\ c_c1 (eb_written b) = 1 /\ c_c1 (eb_total b) = 1.
Proof. vm_compute. repeat split. Qed.
