(* Properties/C13.v — statements only; every proof is `exact <lemma>`.
   C13 "Internal indication bits tell the truth": the counters the class bits are computed from are
   exact in every reachable buffer state, hence unwritten_classes() is exactly "the buffer holds an
   event of that class that is not Written"; the overflow flag follows discards and confirmations.
   (Model of the code after fix 485ed42; before it `counters_exact` is false: corpus/C13/f3_*.) *)
From Dnp3V Require Import Base.Bytes Outstation.DbTypes Outstation.EventBuffer Outstation.EventBufferProofs.
From Dnp3V Require Import Outstation.Session Outstation.SessionLemmas_c13 Outstation.SessionC13Proofs.
Import ListNotations.
Open Scope N_scope.

Theorem C13_counters_exact : forall cfg ops,
  let b := ebuf_run cfg ops in
  (forall k, cnt_class (eb_total b) k = countN (in_class k) (eb_events b))
  /\ (forall t, cnt_type (eb_total b) t = countN (in_type t) (eb_events b))
  /\ (forall k, cnt_class (eb_written b) k = countN (fun r => in_class k r && is_written r) (eb_events b))
  /\ (forall t, cnt_type (eb_written b) t = countN (fun r => in_type t r && is_written r) (eb_events b)).
Proof. exact counters_exact. Qed.
Print Assumptions C13_counters_exact.

Theorem C13_class_bits_exact : forall cfg ops,
  let b := ebuf_run cfg ops in
  ebuf_unwritten_classes b =
  (existsb (unwritten_of Class1) (eb_events b),
   existsb (unwritten_of Class2) (eb_events b),
   existsb (unwritten_of Class3) (eb_events b)).
Proof. exact class_bits_exact. Qed.
Print Assumptions C13_class_bits_exact.

Theorem C13_no_underflow : forall cfg ops, ebuf_subtract_ok (ebuf_run cfg ops) = true.
Proof. exact no_underflow. Qed.
Print Assumptions C13_no_underflow.

Theorem C13_overflow_flag_history : forall cfg ops,
  let b := ebuf_run cfg ops in
  (forall c1 c2 c3 lim, eb_overflown (fst (ebuf_select_by_class b c1 c2 c3 lim)) = eb_overflown b)
  /\ (forall t v lim, eb_overflown (fst (ebuf_select_by_type b t v lim)) = eb_overflown b)
  /\ (forall budget, eb_overflown (fst (ebuf_write_hdrs b budget)) = eb_overflown b)
  /\ eb_overflown (ebuf_reset b) = eb_overflown b
  /\ eb_overflown (fst (ebuf_clear_written b))
     = eb_overflown b && existsb (at_capacity cfg (eb_events (fst (ebuf_clear_written b)))) all_ptypes.
Proof. exact overflow_flag_history. Qed.
Print Assumptions C13_overflow_flag_history.

(* ---- the F3 history: a Written event is discarded by an overflow ---- *)

Definition f3_cfg : ebcfg := mkEbCfg 1 1 1 1 1 1 1 1.
Definition f3_ops : list eop :=
  [OpInsert 0 Class1 TBinary (mkMeas 1 1 (Some (true, 1)) []) G2V1;
   OpSelClass true false false None;
   OpWrite 100;                                                      (* event 0 is Written *)
   OpInsert 1 Class2 TBinary (mkMeas 1 1 (Some (true, 2)) []) G2V1]. (* discards it *)

Example C13_ex_f3 :
  map r_id (eb_events (ebuf_run f3_cfg f3_ops)) = [1]
  /\ ebuf_unwritten_classes (ebuf_run f3_cfg f3_ops) = (false, true, false)
  /\ eb_written (ebuf_run f3_cfg f3_ops) = cnt_zero
  /\ ebuf_is_overflown (ebuf_run f3_cfg f3_ops) = true.
Proof. vm_compute. repeat split. Qed.

(* a buffer holding three events of which one is Written: bits for the classes of the other two *)
Example C13_ex_three_events :
  let b := ebuf_run (mkEbCfg 3 0 0 0 0 3 0 0)
    [OpInsert 0 Class1 TBinary (mkMeas 1 1 None []) G2V1;
     OpInsert 5 Class2 TAnalog (mkMeas 0 1 None []) G32V1;
     OpInsert 0 Class3 TBinary (mkMeas 0 1 None []) G2V1;
     OpSelClass true false false None; OpWrite 100] in
  ebuf_unwritten_classes b = (false, true, true) /\ c_c1 (eb_written b) = 1 /\ c_c1 (eb_total b) = 1.
Proof. vm_compute. repeat split. Qed.

(* ================= the bits that live in the session (model Outstation/Session.v) =================
   Quantifiers: every configuration, every state satisfying `boundary_inv` (C13_inv_reachable: every
   state reachable from start-up by any history of events and environment answers), every event, every
   answer list.  Function-level statements (response_iin, write_solicited, ...) hold in EVERY state.
   `bit_of l n` is bit n of the octet whose bits are listed in l least significant first;
   `evinfo_answer s` is the database's answer consumed by get_response_iin (all false if it gives none);
   `bcast_pending s` is "s_last_bcast s is Some _". *)

Theorem C13_inv_reachable : forall cfg s, Reach cfg s -> boundary_inv s.
Proof. exact reach_boundary_inv. Qed.
Print Assumptions C13_inv_reachable.

Theorem C13_inv_step : forall cfg s ev ans, boundary_inv s -> boundary_inv (fst (ostep cfg s ev ans)).
Proof. exact boundary_inv_step. Qed.
Print Assumptions C13_inv_step.

(* every IIN bit of a response: class bits and overflow are exactly the database's answer, IIN1.7 the
   restart flag, IIN1.0 the broadcast indication, IIN1.4-6 and IIN2.5 the application's bits 0-3, and
   no other bit is set *)
Theorem C13_response_iin_bits : forall s s' iin1 iin2 o,
  response_iin s = (s', (iin1, iin2), o) ->
  let '(c1, c2, c3, ovf) := evinfo_answer s in
  let a := s_app_iin s in
  (forall n, N.testbit iin1 n =
     bit_of [bcast_pending s; c1; c2; c3; N.testbit a 0; N.testbit a 1; N.testbit a 2; s_restart_iin s] n) /\
  (forall n, N.testbit iin2 n = bit_of [false; false; false; ovf; false; N.testbit a 3; false; false] n).
Proof. exact response_iin_bits. Qed.
Print Assumptions C13_response_iin_bits.

Theorem C13_app_iin_step : forall cfg s ev ans s' o,
  boundary_inv s -> ostep cfg s ev ans = (s', o) ->
  s_app_iin s' = match ev with EAppIin v => v | _ => s_app_iin s end.
Proof. exact app_iin_step. Qed.
Print Assumptions C13_app_iin_step.

Theorem C13_restart_at_start : forall cfg sel op iin a0, s_restart_iin (fst (ostart cfg sel op iin a0)) = true.
Proof. exact restart_at_start. Qed.
Print Assumptions C13_restart_at_start.

(* restart_clearing_event cfg ev: ev is a received WRITE (digest DOk ctl fn_write RvOk (ObjOk hdrs rh))
   from an accepted master with clears_restart hdrs = true (a g80v1 header writing index 7 := 0) *)
Theorem C13_restart_step : forall cfg s ev ans s' o,
  boundary_inv s -> ostep cfg s ev ans = (s', o) ->
  s_restart_iin s' = s_restart_iin s \/ (s_restart_iin s' = false /\ restart_clearing_event cfg ev).
Proof. exact restart_step. Qed.
Print Assumptions C13_restart_step.

Theorem C13_restart_step_cases : forall cfg s ev ans s' o,
  boundary_inv s -> ostep cfg s ev ans = (s', o) ->
  (s_restart_iin s = false -> s_restart_iin s' = false) /\
  ((forall from bc bytes d, ev <> ERx from bc bytes d) -> s_restart_iin s' = s_restart_iin s).
Proof. exact restart_step_cases. Qed.
Print Assumptions C13_restart_step_cases.

Theorem C13_restart_until_written : forall cfg sel op iin a0 evs,
  Forall (fun ea => ~ restart_clearing_event cfg (fst ea)) evs ->
  s_restart_iin (ofinal cfg (fst (ostart cfg sel op iin a0)) evs) = true.
Proof. exact restart_until_written. Qed.
Print Assumptions C13_restart_until_written.

Theorem C13_write_clears_restart_exact : forall cfg s hdrs s1 v o,
  handle_write_headers cfg s hdrs = (s1, v, o) ->
  s_restart_iin s1 = (if clears_restart hdrs then false else s_restart_iin s) /\
  s_last_bcast s1 = s_last_bcast s /\ s_bcast_rep s1 = s_bcast_rep s.
Proof. exact write_clears_restart_exact. Qed.
Print Assumptions C13_write_clears_restart_exact.

Theorem C13_broadcast_received : forall cfg s m fid ctl fn bytes obj s1 o,
  process_broadcast cfg s m fid ctl fn bytes obj = (s1, o) ->
  s_last_bcast s1 = Some m /\ s_bcast_rep s1 = None.
Proof. exact broadcast_received. Qed.
Print Assumptions C13_broadcast_received.

(* bcast_cause cfg s from bc d: the fragment is a broadcast (bc <> None), or a unicast CONFIRM accepted
   from this master (to_treq cfg from d = TqRequest ctl fn_confirm obj) that either, in the unsolicited
   confirm wait, names the reporter (rep_eqb (s_bcast_rep s) (ctl_uns ctl) (ctl_seq ctl) = true) or, in
   the solicited confirm wait CSolWait se _ _, is the expected one (UNS clear, sequence se_ecsn se) *)
Theorem C13_bcast_step : forall cfg s ev ans s' o,
  boundary_inv s -> ostep cfg s ev ans = (s', o) ->
  s_last_bcast s' = s_last_bcast s \/
  (s_last_bcast s' = None /\ s_last_bcast s <> Some BMandatory) \/
  exists from bc bytes d, ev = ERx from bc bytes d /\ bcast_cause cfg s from bc d.
Proof. exact bcast_step. Qed.
Print Assumptions C13_bcast_step.

Theorem C13_mandatory_step : forall cfg s ev ans s' o,
  boundary_inv s -> ostep cfg s ev ans = (s', o) -> s_last_bcast s = Some BMandatory ->
  s_last_bcast s' = Some BMandatory \/
  exists from bc bytes d, ev = ERx from bc bytes d /\ bcast_cause cfg s from bc d.
Proof. exact mandatory_step. Qed.
Print Assumptions C13_mandatory_step.

Theorem C13_write_solicited_reports : forall s dest r s1 r1 o,
  write_solicited s dest r = (s1, r1, o) ->
  (exists pre, o = pre ++ [OTx dest (response_bytes r1 (s_sol_buf s1))]) /\
  N.testbit (r_iin1 r1) 0 = N.testbit (r_iin1 r) 0 || bcast_pending s /\
  match s_last_bcast s with
  | Some BMandatory =>
      ctl_con (r_ctl r1) = true /\ s_last_bcast s1 = Some BMandatory /\
      s_bcast_rep s1 = Some (ctl_uns (r_ctl r1), ctl_seq (r_ctl r1))
  | _ => s_last_bcast s1 = None /\ s_bcast_rep s1 = s_bcast_rep s
  end.
Proof. exact write_solicited_reports. Qed.
Print Assumptions C13_write_solicited_reports.

Theorem C13_write_unsolicited_reports : forall cfg s r s1 r1 o,
  write_unsolicited cfg s r = (s1, r1, o) ->
  (exists pre, o = pre ++ [OTx (o_master cfg) (response_bytes r1 (s_unsol_buf s1))]) /\
  N.testbit (r_iin1 r1) 0 = N.testbit (r_iin1 r) 0 || bcast_pending s /\
  match s_last_bcast s with
  | Some BMandatory =>
      s_last_bcast s1 = Some BMandatory /\ s_bcast_rep s1 = Some (ctl_uns (r_ctl r1), ctl_seq (r_ctl r1))
  | _ => s_last_bcast s1 = None /\ s_bcast_rep s1 = s_bcast_rep s
  end.
Proof. exact write_unsolicited_reports. Qed.
Print Assumptions C13_write_unsolicited_reports.

Theorem C13_bcast_reported_once : forall s m s' iin1 iin2 o,
  response_iin s = (s', (iin1, iin2), o) -> s_last_bcast s = Some m -> m <> BMandatory ->
  N.testbit iin1 0 = true /\ s_last_bcast s' = None /\ s_bcast_rep s' = s_bcast_rep s /\
  forall s'' iin1' iin2' o', response_iin s' = (s'', (iin1', iin2'), o') -> N.testbit iin1' 0 = false.
Proof. exact bcast_reported_once. Qed.
Print Assumptions C13_bcast_reported_once.

Theorem C13_response_iin_indication : forall s s' iin o,
  response_iin s = (s', iin, o) ->
  s_last_bcast s' = match s_last_bcast s with Some BMandatory => Some BMandatory | _ => None end /\
  s_restart_iin s' = s_restart_iin s /\ s_bcast_rep s' = s_bcast_rep s.
Proof. exact response_iin_indication. Qed.
Print Assumptions C13_response_iin_indication.

Theorem C13_session_reset_bits : forall s,
  s_last_bcast (session_reset s) = s_last_bcast s /\ s_restart_iin (session_reset s) = s_restart_iin s /\
  s_bcast_rep (session_reset s) = None /\ s_app_iin (session_reset s) = s_app_iin s.
Proof. exact session_reset_bits. Qed.
Print Assumptions C13_session_reset_bits.

Theorem C13_disconnect_step : forall cfg s ans s' o,
  boundary_inv s -> ostep cfg s EDisconnect ans = (s', o) ->
  s_restart_iin s' = s_restart_iin s /\ s_app_iin s' = s_app_iin s /\
  (s_last_bcast s' = s_last_bcast s \/ (s_last_bcast s' = None /\ s_last_bcast s <> Some BMandatory)).
Proof. exact disconnect_step. Qed.
Print Assumptions C13_disconnect_step.

(* ---- non-vacuity: concrete reachable states (histories ex_run of Outstation/SessionC13Proofs.v:
   start-up with application bits 9, master 1, RECORD_CURRENT_TIME requests, database answer
   class1+class3+overflow) ---- *)

Example C13_ex_reachable : forall unsol evs, Reach (ex_cfg unsol) (ex_run unsol evs).
Proof. exact ex_run_reach. Qed.

Example C13_ex_inv :
  boundary_inv (ex_run false [(ex_bcast BMandatory, []); (ex_req 2, [ex_evinfo])]) /\
  boundary_inv (ex_run true [(ex_bcast BMandatory, []); (ex_req 5, [ex_evinfo])]).
Proof. exact ex_boundary_inv. Qed.

(* IIN1 = 155 = restart 128 + need-time 16 + class3 8 + class1 2 + broadcast 1; IIN2 = 40 = corrupt 32 + overflow 8 *)
Example C13_ex_response_iin_bits :
  let s := upd_answers (ex_run false [(ex_bcast BMandatory, [])]) [ex_evinfo] in
  evinfo_answer s = (true, false, true, true) /\ s_app_iin s = 9 /\ bcast_pending s = true /\ s_restart_iin s = true /\
  snd (fst (response_iin s)) = (155, 40) /\
  snd (ostep (ex_cfg false) (ex_run false [(ex_bcast BMandatory, [])]) (ex_req 2) [ex_evinfo])
  = [OInfo (IIdleRequest 24 2); ODb DbEvinfo; OTx 1 [226; 129; 155; 40]; OInfo (IEnterSolWait 2)].
Proof. exact ex_response_iin_bits. Qed.

Example C13_ex_app_iin_step :
  s_app_iin (ex_st0 false) = 9 /\
  s_app_iin (fst (ostep (ex_cfg false) (ex_st0 false) (EAppIin 4) [])) = 4 /\
  s_app_iin (fst (ostep (ex_cfg false) (ex_st0 false) (ex_req 2) [ex_evinfo])) = 9.
Proof. exact ex_app_iin_step. Qed.

Example C13_ex_restart_step :
  boundary_inv (ex_st0 false) /\ s_restart_iin (ex_st0 false) = true /\
  s_restart_iin (fst (ostep (ex_cfg false) (ex_st0 false) (ex_write_clear 1) [ex_evinfo])) = false /\
  restart_clearing_event (ex_cfg false) (ex_write_clear 1) /\
  s_restart_iin (fst (ostep (ex_cfg false) (ex_st0 false) (ex_req 1) [ex_evinfo])) = true.
Proof. exact ex_restart_step. Qed.

Example C13_ex_restart_step_cases :
  let s := ex_run false [(ex_write_clear 1, [ex_evinfo])] in
  s_restart_iin s = false /\
  s_restart_iin (fst (ostep (ex_cfg false) s (ex_req 2) [ex_evinfo])) = false /\
  s_restart_iin (fst (ostep (ex_cfg false) (ex_st0 false) EDisconnect [])) = true.
Proof. exact ex_restart_step_cases. Qed.

Example C13_ex_restart_until_written :
  let evs := [(EDisconnect, []); (ESleep 100000, []); (ex_bcast BOptional, []); (ex_req 2, [ex_evinfo])] in
  Forall (fun ea => ~ restart_clearing_event (ex_cfg false) (fst ea)) evs /\
  s_restart_iin (ex_run false evs) = true.
Proof. exact ex_restart_until_written. Qed.

Example C13_ex_write_clears_restart_exact :
  s_restart_iin (fst (fst (handle_write_headers (ex_cfg false) (ex_st0 false) [WIin [(7, false)]]))) = false /\
  s_restart_iin (fst (fst (handle_write_headers (ex_cfg false) (ex_st0 false) [WIin [(7, true)]; WAttr]))) = true /\
  clears_restart [WIin [(4, false); (7, false)]] = true /\ clears_restart [WIin [(7, true)]; WAttr] = false.
Proof. exact ex_write_clears_restart_exact. Qed.

Example C13_ex_broadcast_received :
  ex_view (ex_run false [(ex_bcast BMandatory, [])]) = (CIdle, true, Some BMandatory, None) /\
  ex_view (ex_run false [(ex_bcast BMandatory, []); (ex_req 2, [ex_evinfo]); (ESleep 6000, []); (ex_bcast BOptional, [])])
  = (CIdle, true, Some BOptional, None).
Proof. exact ex_broadcast_received. Qed.

(* solicited: CONFIRM 3 leaves the indication, the expected CONFIRM 2 (= the reporter) clears it *)
Example C13_ex_bcast_step_solicited :
  let s := ex_run false [(ex_bcast BMandatory, []); (ex_req 2, [ex_evinfo])] in
  ex_view s = (CSolWait {| se_ecsn := 2; se_fin := true |} 5001 RStep2, true, Some BMandatory, Some (false, 2)) /\
  s_last_bcast (fst (ostep (ex_cfg false) s (ex_confirm false 3) [])) = Some BMandatory /\
  s_last_bcast (fst (ostep (ex_cfg false) s (ESleep 100) [])) = Some BMandatory /\
  s_last_bcast (fst (ostep (ex_cfg false) s (ex_confirm false 2) [])) = None /\
  bcast_cause (ex_cfg false) s 1 None (DOk 194 0 RvOk (ObjOk [] [])).
Proof. exact ex_bcast_step_solicited. Qed.

(* unsolicited confirm wait: the unsolicited CONFIRM 0 does not clear an indication reported by the
   solicited response 5, the solicited CONFIRM 5 does *)
Example C13_ex_bcast_step_unsolicited :
  let s := ex_run true [(ex_bcast BMandatory, []); (ex_req 5, [ex_evinfo])] in
  (exists resp dl, s_control s = CUnsolWait resp true (Some 0%nat) dl /\ ctl_seq (r_ctl resp) = 0) /\
  s_last_bcast s = Some BMandatory /\ s_bcast_rep s = Some (false, 5) /\
  ex_view (fst (ostep (ex_cfg true) s (ex_confirm true 0) [])) = (CIdle, true, Some BMandatory, Some (false, 5)) /\
  s_last_bcast (fst (ostep (ex_cfg true) s (ex_confirm false 5) [])) = None /\
  bcast_cause (ex_cfg true) s 1 None (DOk 197 0 RvOk (ObjOk [] [])) /\
  s_last_bcast (ex_run true [(ex_bcast BOptional, [])]) = Some BOptional /\
  s_last_bcast (ex_run true [(ex_bcast BOptional, []); (ex_req 5, [ex_evinfo])]) = None.
Proof. exact ex_bcast_step_unsolicited. Qed.

(* the solicited confirm wait entered by REPEATING a stored response has no reporter recorded, and its
   CONFIRM still clears the indication: "CSolWait se -> mandatory pending -> s_bcast_rep = Some (false,
   se_ecsn se)" is not an invariant (hence the third exception in C13_mandatory_step) *)
Example C13_ex_solwait_without_reporter :
  let h := [(ex_bcast BMandatory, []); (ex_req 5, [ex_evinfo]); (ESleep 6000, []); (ex_bcast BMandatory, [])] in
  let s := ex_run false (h ++ [(ex_req 5, [])]) in
  snd (ostep (ex_cfg false) (ex_run false h) (ex_req 5) [])
    = [OInfo (IIdleRequest 24 5); OTx 1 [229; 129; 155; 40]; OInfo (IEnterSolWait 5)] /\
  ex_view s = (CSolWait {| se_ecsn := 5; se_fin := true |} 11003 RStep2, true, Some BMandatory, None) /\
  ex_view (fst (ostep (ex_cfg false) s (ex_confirm false 5) [])) = (CIdle, true, None, None).
Proof. exact ex_solwait_without_reporter. Qed.

Example C13_ex_write_solicited_reports :
  let s := upd_answers (ex_run false [(ex_bcast BMandatory, [])]) [ex_evinfo] in
  let '(s1, r1, o) := write_solicited s 1 (empty_solicited 2 0) in
  s_last_bcast s = Some BMandatory /\
  r1 = {| r_ctl := 226; r_fn := 129; r_iin1 := 155; r_iin2 := 40; r_size := 0 |} /\
  o = [ODb DbEvinfo; OTx 1 [226; 129; 155; 40]] /\
  s_last_bcast s1 = Some BMandatory /\ s_bcast_rep s1 = Some (false, 2) /\ ctl_con 226 = true.
Proof. exact ex_write_solicited_reports. Qed.

Example C13_ex_write_unsolicited_reports :
  let s := upd_answers (ex_run false [(ex_bcast BMandatory, [])]) [ex_evinfo] in
  let '(s1, r1, o) := write_unsolicited (ex_cfg false) s (unsol_header 3 0) in
  r1 = {| r_ctl := 243; r_fn := 130; r_iin1 := 155; r_iin2 := 40; r_size := 0 |} /\
  o = [ODb DbEvinfo; OTx 1 [243; 130; 155; 40]] /\
  s_last_bcast s1 = Some BMandatory /\ s_bcast_rep s1 = Some (true, 3).
Proof. exact ex_write_unsolicited_reports. Qed.

(* reported once: response 2 carries IIN1.0 (155), response 3 does not (154) *)
Example C13_ex_bcast_reported_once :
  let s := ex_run false [(ex_bcast BOptional, [])] in
  s_last_bcast s = Some BOptional /\
  snd (ostep (ex_cfg false) s (ex_req 2) [ex_evinfo])
    = [OInfo (IIdleRequest 24 2); ODb DbEvinfo; OTx 1 [194; 129; 155; 40]] /\
  s_last_bcast (fst (ostep (ex_cfg false) s (ex_req 2) [ex_evinfo])) = None /\
  snd (ostep (ex_cfg false) (fst (ostep (ex_cfg false) s (ex_req 2) [ex_evinfo])) (ex_req 3) [ex_evinfo])
    = [OInfo (IIdleRequest 24 3); ODb DbEvinfo; OTx 1 [195; 129; 154; 40]].
Proof. exact ex_bcast_reported_once. Qed.

Example C13_ex_response_iin_indication :
  s_last_bcast (fst (fst (response_iin (ex_run false [(ex_bcast BMandatory, [])])))) = Some BMandatory /\
  s_last_bcast (fst (fst (response_iin (ex_run false [(ex_bcast BNotRequired, [])])))) = None /\
  s_last_bcast (fst (fst (response_iin (ex_st0 false)))) = None.
Proof. exact ex_response_iin_indication. Qed.

Example C13_ex_session_reset_bits :
  let s := ex_run false [(ex_bcast BMandatory, []); (ex_req 2, [ex_evinfo])] in
  s_bcast_rep s = Some (false, 2) /\
  ex_view (session_reset s)
  = (CSolWait {| se_ecsn := 2; se_fin := true |} 5001 RStep2, true, Some BMandatory, None).
Proof. exact ex_session_reset_bits. Qed.

(* a reconnect while a reported confirm-mandatory indication awaits its CONFIRM: indication and restart
   bit survive, the reporter is forgotten, so a late CONFIRM 2 does not clear it *)
Example C13_ex_disconnect_step :
  let s := ex_run false [(ex_bcast BMandatory, []); (ex_req 2, [ex_evinfo])] in
  let s' := fst (ostep (ex_cfg false) s EDisconnect []) in
  ex_view s' = (CIdle, true, Some BMandatory, None) /\
  s_last_bcast (fst (ostep (ex_cfg false) s' (ex_confirm false 2) [])) = Some BMandatory.
Proof. exact ex_disconnect_step. Qed.

(* ---------------------------------------------------------------------------------------------------
   The COMPOSED outstation model (Outstation/Full.v): parser digest (App/Grammar.v), session
   (Outstation/Session.v) and database (Outstation/Database.v) in one loop - the engine `ofull`, compared
   line by line with the implementation's whole trace by the second pass of every session check.
   The bits of the responses are the database's truth, for whole steps of that model. *)
From Dnp3V Require Import Outstation.Database Outstation.SessionEvinfo Outstation.Full Outstation.FullProofs.

(* session half: one step consumes its environment's answers in order, and every response it builds and
   transmits carries exactly the class bits / overflow bit of the AEvinfo answer consumed for it *)
Theorem C13_step_tracks_answers : forall cfg s ev ans s' o,
  small_pd s -> Forall sm_ans ans -> sm_event ev ->
  ostep cfg s ev ans = (s', o) ->
  tracked ans o (s_answers s') /\ small_pd s'.
Proof. exact ostep_tracked. Qed.
Print Assumptions C13_step_tracks_answers.

(* replay half: the answer given to a DbEvinfo call is that of the database state reached by replaying
   the database calls that precede it in the session's output *)
Theorem C13_evinfo_answer_is_database_state : forall F rest d c n log d' c' log' c1 c2 c3 v k,
  walk F d c n log rest = WAsk d' c' log' (AEvinfo c1 c2 c3 v) k ->
  exists pre post cpre logpre,
    rest = pre ++ ODb DbEvinfo :: OMissingAnswer :: post /\
    walk F d c n log pre = WDone d' cpre logpre /\
    (c1, c2, c3) = db_unwritten_classes d' /\ v = db_is_overflown d' /\
    k = S (n + length pre) /\ log' = FAns (AEvinfo c1 c2 c3 v) :: FObs (ODb DbEvinfo) :: logpre.
Proof. exact walk_evinfo. Qed.
Print Assumptions C13_evinfo_answer_is_database_state.

(* a step without FReplayError is a run of the session model on the computed answers, none missing *)
Theorem C13_composed_event_complete : forall F st d ev,
  let ro := fevent_out F st d ev in
  ~ In FReplayError (ro_log ro) ->
  ostep (f_o F) (fs_s st) ev (ro_answers ro) = (ro_s ro, ro_out ro) /\
  Forall (fun o => o <> OMissingAnswer) (ro_out ro).
Proof. exact fevent_complete. Qed.
Print Assumptions C13_composed_event_complete.

(* composition: every response built and transmitted during one script operation of the composed model
   carries the class bits and the overflow bit of the database state at the moment of its DbEvinfo call *)
Theorem C13_composed_step : forall F st op,
  small_pd (fs_s st) ->
  let ro := fevent_out F st (fst (fop_event st op)) (snd (fop_event st op)) in
  ~ In FReplayError (snd (fstep F st op)) -> iin_truthful (ro_snaps ro) (ro_out ro).
Proof. exact fstep_c13. Qed.
Print Assumptions C13_composed_step.

Theorem C13_composed_start : forall F sel op appiin,
  let ro := fstart_out F sel op appiin in
  ~ In FReplayError (ro_log ro) -> iin_truthful (ro_snaps ro) (ro_out ro).
Proof. exact fstart_c13. Qed.
Print Assumptions C13_composed_start.

(* the hypothesis of C13_composed_step holds along every history of the composed model *)
Theorem C13_composed_invariant : forall F sel op appiin,
  small_pd (fs_s (fst (fstart F sel op appiin))) /\
  forall st o, small_pd (fs_s st) -> small_pd (fs_s (fst (fstep F st o))).
Proof. intros F sel op appiin. split; [apply fstart_small|intros st o; apply fstep_small]. Qed.
Print Assumptions C13_composed_invariant.

(* the hypotheses are satisfiable: a concrete history (null unsolicited response at start-up, one class 1
   point, its CONFIRM, one event, a class 1 poll, its CONFIRM) runs through the composed model without
   FReplayError; two responses are built and transmitted; the poll is answered with the event, and as the
   event is then marked written the class 1 bit of that response is 0, exactly what the database says *)
Definition ex_full_cfg : fcfg :=
  {| f_o := {| o_master := 1; o_any_master := false; o_unsol := true; o_broadcast := true;
               o_confirm_ms := 5000; o_select_ms := 5000; o_retries := None; o_retry_delay_ms := 5000;
               o_max_controls := None; o_sol_tx := 2048; o_delay_ms := 0; o_cold := None; o_warm := None;
               o_wtime := 0; o_freeze := 1 |};
     f_unsol_tx := 2048; f_evbuf := 5 |}.

Definition ex_full_ops : list fop :=
  [FAdd TBinary 0 (Some Class1);
   FRx 1 None [208; 0];                                   (* CONFIRM of the null unsolicited response *)
   FUpdate TBinary 0 (mkMeas 1 1 (Some (true, 1000)) []);
   FRx 1 None [193; 1; 60; 2; 6];                         (* READ class 1 *)
   FRx 1 None [193; 0]].                                  (* CONFIRM *)

Definition is_replay_error (x : fobs) : bool := match x with FReplayError => true | _ => false end.
Definition is_fresh_tx (x : fobs) : bool := match x with FAns (AEvinfo _ _ _ _) => true | _ => false end.

Example C13_ex_composed_run :
  let logs := frun ex_full_cfg 0 0 0 ex_full_ops in
  existsb is_replay_error (concat logs) = false /\
  length (filter is_fresh_tx (concat logs)) = 2%nat /\
  nth 4 logs [] =
    [FDigest (DOk 193 1 RvOk (ObjOk [WCls 1] [true])) 0;
     FObs (OInfo (IIdleRequest 1 1)); FObs (ODb DbSelect); FAns (AIin2 0);
     FObs (ODb DbWrite); FAns (AWrite true true [2; 1; 40; 1; 0; 0; 0; 129]);
     FObs (ODb DbEvinfo); FAns (AEvinfo false false false false);
     FObs (OTx 1 [225; 129; 128; 0; 2; 1; 40; 1; 0; 0; 0; 129]); FTxParse 0;
     FObs (OInfo (IEnterSolWait 1))].
Proof. vm_compute. repeat split. Qed.

(* ---- the IIN masks and the conditions of get_response_iin are the code's (gen/SessionTables.v, regenerated from
   app/header.rs and outstation/session.rs on every run; interpretation: Outstation/TablesAgree.v) ---------------- *)
From Dnp3V Require Import gen.SessionTables Outstation.TablesAgree.

(* response_iin of Session.v: every bit of both IIN bytes is the row of get_response_iin (with `Iin | ApplicationIin`
   inlined) whose condition holds in the state, ORed with the mask of the constant the code names *)
Theorem C13_tables_response_iin : forall s,
  let '(s1, (c1, c2, c3, ovf), _) := ask_evinfo s in
  snd (fst (response_iin s)) = (ta_response_iin (ta_iin_env s1 c1 c2 c3 ovf) 1, ta_response_iin (ta_iin_env s1 c1 c2 c3 ovf) 2).
Proof. exact tables_response_iin. Qed.
Print Assumptions C13_tables_response_iin.

Theorem C13_tables_iin_masks_are_bits :
  tb_iin1_all = map (fun k => 2 ^ k) [0; 1; 2; 3; 4; 5; 6; 7] /\
  tb_iin2_all = map (fun k => 2 ^ k) [0; 1; 2; 3; 4; 5].
Proof. exact tables_iin_masks_are_bits. Qed.
Print Assumptions C13_tables_iin_masks_are_bits.

Theorem C13_tables_iin2_constants :
  iin2_no_func = tb_iin2_no_func_code_support /\ iin2_param = tb_iin2_parameter_error.
Proof. exact tables_iin2_constants. Qed.
Print Assumptions C13_tables_iin2_constants.

(* `impl From<RequestError> for Iin2` through the harness's coding of the application's answers *)
Theorem C13_tables_req_result_iin2 : forall code, code < 256 -> req_result_iin2 code = ta_req_result_iin2 code.
Proof. exact tables_req_result_iin2. Qed.
Print Assumptions C13_tables_req_result_iin2.

Example C13_tables_instances :
  length tb_response_iin = 10%nat /\
  ta_response_iin (fun _ => true) 1 = 255 /\ ta_response_iin (fun _ => true) 2 = 40 /\
  ta_response_iin (fun _ => false) 1 = 0 /\ ta_req_result_iin2 1 = 1 /\ ta_req_result_iin2 7 = 4.
Proof. vm_compute. repeat split. Qed.
