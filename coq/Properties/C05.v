(* Properties/C05.v — statements only.

   C05: a retransmitted request is answered from memory and never executed twice; every fragment the
   outstation re-sends (the answer to a repeat, an echo during a confirm wait, an unsolicited retry)
   is identical to a fragment it has already transmitted, never a mixture of two.

   Vocabulary (Outstation/Session.v is the model; the rest is in Outstation/SessionLemmas_c05.v and
   Outstation/SessionC05Proofs.v):
     Reach cfg h s        s is reachable from start-up (ostart) by steps (ostep), for any events and any
                          answers of the environment; h is everything observed so far, in order
     classify .. = FtRepeatNonRead resp
                          the fragment is the request recorded last: same sequence number, identical
                          bytes, function neither CONFIRM nor READ (C05_repeat_classification)
     echo_of s from resp  [OTx from (response_bytes r (s_sol_buf s))] for resp = Some r, else []
     bg ob                ob is not a callback (OCb), not OInfo IClearRestart, not OInfo (IIdleRequest ..):
                          "the idle loop and the timers going on, nothing taken up, nothing executed"
     quiet ob             ob is neither OCb _ nor OInfo IClearRestart
     ustart ob            ob is a database call, a missing answer, an OTx or OInfo (IEnterUnsolWait _):
                          what check_unsolicited emits when it starts an unsolicited response
     repeat_prefix c fn seq pre
                          what precedes the answer, by the control state c the repeat arrives in:
                          CIdle: [OInfo (IIdleRequest fn seq)];  CUnsolWait: [];
                          CSolWait: [OInfo ISolNewRequest; ODb DbReset] ++ u ++ i with ustart on u and
                          i = [] or [OInfo (IIdleRequest fn seq)]
     opened_by h dest b q h = h1 ++ OTx dest b :: OInfo (IEnterUnsolWait q) :: h2 and h2 contains no
                          IEnterUnsolWait: b opened the unsolicited confirm wait that is the last one *)
From Dnp3V Require Import Outstation.Session Outstation.SessionLemmas_c05 Outstation.SessionC05Proofs.
Open Scope N_scope.

(* ---------- what "repeated" means ------------------------------------------------------------------- *)

Theorem C05_repeat_classification : forall s bytes ctl fn obj resp,
  classify s None bytes ctl fn obj = FtRepeatNonRead resp <->
  fn <> fn_confirm /\ fn <> fn_read /\ (exists hdrs rh, obj = ObjOk hdrs rh) /\
  exists l, s_last s = Some l /\ lr_seq l = ctl_seq ctl /\ lr_bytes l = bytes /\ resp = lr_response l.
Proof. exact classify_repeat_nonread_iff. Qed.
Print Assumptions C05_repeat_classification.

(* ---------- 1. a repeated non-READ request is not executed a second time ------------------------------ *)

Theorem C05_repeat_not_reexecuted : forall cfg h s from bytes d ans ctl fn obj resp s' o,
  Reach cfg h s ->
  to_treq cfg from d = TqRequest ctl fn obj ->
  classify s None bytes ctl fn obj = FtRepeatNonRead resp ->
  ostep cfg s (ERx from None bytes d) ans = (s', o) ->
  (exists pre post,
     o = pre ++ echo_of s from resp ++ post /\ forallb bg post = true /\
     repeat_prefix (s_control s) fn (ctl_seq ctl) pre) /\
  forallb quiet o = true.
Proof. exact repeat_not_reexecuted. Qed.
Print Assumptions C05_repeat_not_reexecuted.

(* ---------- 2. the remembered response is coherent with the transmit buffer ---------------------------- *)

Theorem C05_last_response_coherent : forall cfg h s l r,
  Reach cfg h s -> s_last s = Some l -> lr_response l = Some r ->
  exists dest, In (OTx dest (response_bytes r (s_sol_buf s))) h /\
               (o_any_master cfg = false -> dest = o_master cfg).
Proof. exact last_response_coherent. Qed.
Print Assumptions C05_last_response_coherent.

Theorem C05_sol_wait_remembers_awaited_fragment : forall cfg h s se dl rs,
  Reach cfg h s -> s_control s = CSolWait se dl rs ->
  exists l r, s_last s = Some l /\ lr_response l = Some r /\
              ctl_seq (r_ctl r) = se_ecsn se mod 16 /\
              exists dest, In (OTx dest (response_bytes r (s_sol_buf s))) h /\
                           (o_any_master cfg = false -> dest = o_master cfg).
Proof. exact sol_wait_remembers_awaited_fragment. Qed.
Print Assumptions C05_sol_wait_remembers_awaited_fragment.

(* ---------- 3. the reply to a repeat is a fragment sent before ------------------------------------------- *)

Theorem C05_repeat_reply_identical : forall cfg h s from bytes d ans ctl fn obj r s' o,
  Reach cfg h s ->
  to_treq cfg from d = TqRequest ctl fn obj ->
  classify s None bytes ctl fn obj = FtRepeatNonRead (Some r) ->
  ostep cfg s (ERx from None bytes d) ans = (s', o) ->
  let X := response_bytes r (s_sol_buf s) in
  (exists pre post, o = pre ++ OTx from X :: post /\ forallb bg post = true /\
                    repeat_prefix (s_control s) fn (ctl_seq ctl) pre) /\
  exists dest, In (OTx dest X) h /\ (o_any_master cfg = false -> dest = from).
Proof. exact repeat_reply_identical. Qed.
Print Assumptions C05_repeat_reply_identical.

Theorem C05_repeat_read_echo_identical : forall cfg h s from bytes d ans ctl fn obj resp hdrs rh se dl rs s' o,
  Reach cfg h s ->
  s_control s = CSolWait se dl rs ->
  to_treq cfg from d = TqRequest ctl fn obj ->
  classify s None bytes ctl fn obj = FtRepeatRead resp hdrs rh ->
  ostep cfg s (ERx from None bytes d) ans = (s', o) ->
  exists r post,
    resp = Some r /\ ctl_seq (r_ctl r) = se_ecsn se mod 16 /\
    o = OTx from (response_bytes r (s_sol_buf s)) :: post /\ forallb bg post = true /\
    exists dest, In (OTx dest (response_bytes r (s_sol_buf s))) h /\ (o_any_master cfg = false -> dest = from).
Proof. exact repeat_read_echo_identical. Qed.
Print Assumptions C05_repeat_read_echo_identical.

Theorem C05_resend_is_earlier_fragment : forall cfg h s,
  Reach cfg h s ->
  (forall l r from, s_last s = Some l -> lr_response l = Some r ->
     exists b, repeat_solicited s from r = [OTx from b] /\
               exists dest, In (OTx dest b) h /\ (o_any_master cfg = false -> dest = o_master cfg)) /\
  (forall resp n rt dl, s_control s = CUnsolWait resp n rt dl ->
     exists b, repeat_unsolicited cfg s resp = [OTx (o_master cfg) b] /\ In (OTx (o_master cfg) b) h).
Proof. exact resend_is_earlier_fragment. Qed.
Print Assumptions C05_resend_is_earlier_fragment.

(* ---------- 4. unsolicited retries ------------------------------------------------------------------------ *)

Theorem C05_unsol_wait_coherent : forall cfg h s resp n rt dl,
  Reach cfg h s -> s_control s = CUnsolWait resp n rt dl ->
  opened_by h (o_master cfg) (response_bytes resp (s_unsol_buf s)) (ctl_seq (r_ctl resp)) /\
  r_fn resp = fn_unsol_response.
Proof. exact unsol_wait_coherent. Qed.
Print Assumptions C05_unsol_wait_coherent.

Theorem C05_unsol_retry_identical : forall cfg h s resp n rt dl t s1 o1,
  Reach cfg h s -> s_control s = CUnsolWait resp n rt dl ->
  rt <> Some 0%nat -> s_deferred s = None ->
  fire_deadline cfg (upd_now s t) = (s1, o1) ->
  let Y := response_bytes resp (s_unsol_buf s) in
  o1 = [OInfo (IUnsolTimeout (ctl_seq (r_ctl resp)) true); OTx (o_master cfg) Y] /\
  opened_by h (o_master cfg) Y (ctl_seq (r_ctl resp)) /\
  s_unsol_buf s1 = s_unsol_buf s /\
  exists rt' dl', s_control s1 = CUnsolWait resp n rt' dl'.
Proof. exact unsol_retry_identical. Qed.
Print Assumptions C05_unsol_retry_identical.

Theorem C05_all_retries_identical : forall cfg h s,
  Reach cfg h s ->
  forall h1 q rest, h = h1 ++ OInfo (IUnsolTimeout q true) :: rest ->
    exists dest b h2, rest = OTx dest b :: h2 /\ opened_by h1 dest b q.
Proof. exact all_retries_identical. Qed.
Print Assumptions C05_all_retries_identical.

(* ---------- the hypotheses are satisfiable: concrete histories ----------------------------------------------- *)

Definition ex_cfg (unsol : bool) : ocfg :=
  {| o_master := 1; o_any_master := false; o_unsol := unsol; o_broadcast := true;
     o_confirm_ms := 5000; o_select_ms := 5000; o_retries := Some 2%nat; o_retry_delay_ms := 0;
     o_max_controls := None; o_sol_tx := 2048; o_delay_ms := 0; o_cold := None; o_warm := None;
     o_wtime := 0; o_freeze := 0 |}.

Definition noev : answer := AEvinfo false false false false.

(* a WRITE (clear RESTART, sequence 3); a database change records an event; the same WRITE again:
   it is classified as a repeat, no IClearRestart fires again, the answer is the old `C3 81 00 00`
   although the database would now report class 1 events (AEvinfo true ..) *)
Definition ex_wr_bytes : list N := [195; 2; 80; 1; 0; 7; 7; 0].
Definition ex_wr_obj : objres := ObjOk [WIin [(7, false)]] [true].
Definition ex_wr : oevent := ERx 1 None ex_wr_bytes (DOk 195 2 RvOk ex_wr_obj).

Example C05_ex_write_repeated_from_idle :
  to_treq (ex_cfg false) 1 (DOk 195 2 RvOk ex_wr_obj) = TqRequest 195 2 ex_wr_obj /\
  let '(s, h) := run_from_start (ex_cfg false) 0 0 0 [] [(ex_wr, [noev]); (EDbChange, [])] in
  (h,
   s_control s,
   classify s None ex_wr_bytes 195 2 ex_wr_obj,
   snd (ostep (ex_cfg false) s ex_wr [AEvinfo true false false false]))
  = ([OInfo (IIdleRequest 2 3); OInfo IClearRestart; ODb DbEvinfo; OTx 1 [195; 129; 0; 0]],
     CIdle,
     FtRepeatNonRead (Some {| r_ctl := 195; r_fn := 129; r_iin1 := 0; r_iin2 := 0; r_size := 0 |}),
     [OInfo (IIdleRequest 2 3); OTx 1 [195; 129; 0; 0]]).
Proof. split; vm_compute; reflexivity. Qed.

(* a READ (sequence 5) answered in two fragments; fragment 1 confirmed; the READ repeated while
   fragment 2 (sequence 6, `66 81 80 00 09 09`) awaits its confirm: the echo is fragment 2 *)
Definition ex_rd_bytes : list N := [197; 1; 60; 1; 6].
Definition ex_rd_obj : objres := ObjOk [WOther] [true].
Definition ex_rd : oevent := ERx 1 None ex_rd_bytes (DOk 197 1 RvOk ex_rd_obj).
Definition ex_confirm (seq : N) : oevent := ERx 1 None [192 + seq; 0] (DOk (192 + seq) 0 RvOk (ObjOk [] [])).

Example C05_ex_read_repeated_in_second_fragment :
  let '(s, h) := run_from_start (ex_cfg false) 0 0 0 []
                   [(ex_rd, [AIin2 0; AWrite false false [1; 2; 3]; noev]);
                    (ex_confirm 5, [AWrite true true [9; 9]; noev])] in
  (h,
   s_control s,
   classify s None ex_rd_bytes 197 1 ex_rd_obj,
   snd (ostep (ex_cfg false) s ex_rd []))
  = ([OInfo (IIdleRequest 1 5); ODb DbSelect; ODb DbWrite; ODb DbEvinfo;
      OTx 1 [165; 129; 128; 0; 1; 2; 3]; OInfo (IEnterSolWait 5);
      OInfo (ISolConfirmed 5); ODb DbClearWritten; ODb DbWrite; ODb DbEvinfo;
      OTx 1 [102; 129; 128; 0; 9; 9]],
     CSolWait {| se_ecsn := 6; se_fin := true |} 5001 RStep2,
     FtRepeatRead (Some {| r_ctl := 102; r_fn := 129; r_iin1 := 128; r_iin2 := 0; r_size := 6 |}) [WOther] [true],
     [OTx 1 [102; 129; 128; 0; 9; 9]]).
Proof. vm_compute. reflexivity. Qed.

(* unsolicited: the null response at start-up is confirmed, class 1 is enabled, an event goes out in
   an unsolicited response (sequence 1); nobody confirms: after the confirm timeout the identical
   fragment is transmitted again *)
Definition ex_unsol_confirm (seq : N) : oevent :=
  ERx 1 None [208 + seq; 0] (DOk (208 + seq) 0 RvOk (ObjOk [] [])).
Definition ex_enable : oevent := ERx 1 None [193; 20; 60; 2; 6] (DOk 193 20 RvOk (ObjOk [WCls 1] [true])).

Example C05_ex_unsolicited_retry :
  let '(s, h) := run_from_start (ex_cfg true) 0 0 0 [noev]
                   [(ex_unsol_confirm 0, []);
                    (ex_enable, [noev; AUnsol 1 [2; 2; 40; 1; 0; 0; 0; 129]; AEvinfo true false false false])] in
  (h,
   s_control s,
   s_deferred s,
   snd (fire_deadline (ex_cfg true) (upd_now s 5001)),
   snd (ostep (ex_cfg true) s (ESleep 5000) []))
  = ([ODb DbEvinfo; OTx 1 [240; 130; 128; 0]; OInfo (IEnterUnsolWait 0);
      OInfo (IUnsolConfirmed 0); OInfo (IIdleRequest 20 1); ODb DbEvinfo; OTx 1 [193; 129; 128; 0];
      ODb (DbWriteUnsol true false false); ODb DbEvinfo;
      OTx 1 [241; 130; 130; 0; 2; 2; 40; 1; 0; 0; 0; 129]; OInfo (IEnterUnsolWait 1)],
     CUnsolWait {| r_ctl := 241; r_fn := 130; r_iin1 := 130; r_iin2 := 0; r_size := 12 |} false (Some 2%nat) 5001,
     None,
     [OInfo (IUnsolTimeout 1 true); OTx 1 [241; 130; 130; 0; 2; 2; 40; 1; 0; 0; 0; 129]],
     [OAt 5001; OInfo (IUnsolTimeout 1 true); OTx 1 [241; 130; 130; 0; 2; 2; 40; 1; 0; 0; 0; 129]]).
Proof. vm_compute. reflexivity. Qed.

(* the histories above are reachable in the sense of the theorems *)
Example C05_ex_reachable : forall cfg sel op iin a0 evs s h,
  run_from_start cfg sel op iin a0 evs = (s, h) -> Reach cfg h s.
Proof. exact run_from_start_reach. Qed.

(* ================= composed: nothing but the received octets and the database are inputs =================
   Outstation/Full.v composes the session model with the digest computed from the octets (`frag_digest`) and the
   database model answering the session's calls (`replay`); `fstep F st (FRx from bc bytes)` is one reception,
   `FReach` the reachable states, `fs_db` the database, `ro_out (frx_out ..)` the session's observations of the
   reception (C04_composed_reception_spec), `snd (fstep ..)` its log (`FObs o` = the session observed o).
   Outstation/FullCorollaries.v. *)
From Dnp3V Require Import App.Grammar Outstation.Full.
From Dnp3V Require Outstation.SessionC03Proofs.
From Dnp3V Require Import Outstation.FullCorollaries.

(* wf_request, in terms of the digest *)
Theorem C05_composed_wf_request_spec : forall bytes,
  wf_request bytes <->
  exists hdrs rh, frag_digest bytes = DOk (nth 0 bytes 0) (nth 1 bytes 0) RvOk (ObjOk hdrs rh).
Proof. exact wf_request_digest. Qed.
Print Assumptions C05_composed_wf_request_spec.

(* The octets of the last request accepted (s_last) arrive again, unicast from an accepted master; the request is
   well-formed (a request whose objects did not parse is recorded too, but answered afresh) and not a READ.  In
   every control state: nothing is executed (no callback, no RESTART clearing anywhere in the log), and the
   session's observations are pre ++ echo ++ post with echo = the stored response octets or nothing. *)
Theorem C05_composed_repeat_not_reexecuted : forall F st from bytes l,
  SessionC03Proofs.FReach F st -> accepted_master (f_o F) from ->
  s_last (fs_s st) = Some l -> lr_bytes l = bytes -> nth 1 bytes 0 <> 1 -> wf_request bytes ->
  (forall o, In (FObs o) (snd (fstep F st (FRx from None bytes))) -> SessionLemmas_c05.quiet o = true) /\
  exists pre post,
    ro_out (frx_out F st from None bytes) = pre ++ SessionLemmas_c05.echo_of (fs_s st) from (lr_response l) ++ post /\
    forallb SessionLemmas_c05.bg post = true /\
    SessionC05Proofs.repeat_prefix (s_control (fs_s st)) (nth 1 bytes 0) (nth 0 bytes 0 mod 16) pre.
Proof. exact frx_repeat_not_reexecuted. Qed.
Print Assumptions C05_composed_repeat_not_reexecuted.

(* PARTIAL: the database model is untouched (`fs_db` after = before, no call, no answer computed) and the
   observations are exactly notification + stored octets, where the step consists of the repeat's answer alone:
   in the unsolicited confirm wait with the deadline beyond the settling millisecond; idle with unsolicited
   responses disabled and a stored response that does not ask for a confirmation.  What is missing for the general
   statement is not a proof but truth: in the solicited confirm wait the repeat aborts the series (database
   reset), and in every state the idle loop and the timers go on in the same step (post above: a new unsolicited
   response, a confirm time-out) and call the database for their own reasons. *)
Theorem C05_composed_repeat_database_untouched_partial : forall F st from bytes l,
  SessionC03Proofs.FReach F st -> accepted_master (f_o F) from ->
  s_last (fs_s st) = Some l -> lr_bytes l = bytes -> nth 1 bytes 0 <> 1 -> wf_request bytes ->
  let pre := match s_control (fs_s st) with
             | CIdle => [OInfo (IIdleRequest (nth 1 bytes 0) (nth 0 bytes 0 mod 16))]
             | _ => []
             end in
  match s_control (fs_s st) with
  | CUnsolWait _ _ _ dl => (s_now (fs_s st) + settle_ms < dl)%Z
  | CIdle => o_unsol (f_o F) = false /\ (forall r, lr_response l = Some r -> ctl_con (r_ctl r) = false)
  | CSolWait _ _ _ => False
  end ->
  fs_db (fst (fstep F st (FRx from None bytes))) = fs_db st /\
  ro_answers (frx_out F st from None bytes) = [] /\
  ro_out (frx_out F st from None bytes) = pre ++ SessionLemmas_c05.echo_of (fs_s st) from (lr_response l).
Proof. exact frx_repeat_database_untouched. Qed.
Print Assumptions C05_composed_repeat_database_untouched_partial.

(* non-vacuity (vm_compute in FullCorollaries): the WRITE `C3 02 50 01 00 07 07 00` executed (IClearRestart), then
   repeated from idle; and the same in the unsolicited confirm wait of start-up *)
Example C05_composed_instance_idle :
  SessionC03Proofs.FReach cx_F cx_written /\ accepted_master (f_o cx_F) 1 /\ wf_request cx_wr /\
  (exists l, s_last (fs_s cx_written) = Some l /\ lr_bytes l = cx_wr /\
             lr_response l = Some {| r_ctl := 195; r_fn := 129; r_iin1 := 0; r_iin2 := 0; r_size := 0 |}) /\
  s_control (fs_s cx_written) = CIdle /\
  ro_out (frx_out cx_F cx_st0 1 None cx_wr) =
    [OInfo (IIdleRequest 2 3); OInfo IClearRestart; ODb DbEvinfo; OTx 1 [195; 129; 0; 0]] /\
  ro_out (frx_out cx_F cx_written 1 None cx_wr) = [OInfo (IIdleRequest 2 3); OTx 1 [195; 129; 0; 0]] /\
  fs_db (fst (fstep cx_F cx_written (FRx 1 None cx_wr))) = fs_db cx_written /\
  SessionC03Proofs.has_replay_error (snd (fstep cx_F cx_written (FRx 1 None cx_wr))) = false.
Proof. exact ex_frx_repeat_idle. Qed.

Example C05_composed_instance_unsol_wait :
  SessionC03Proofs.FReach cy_F cy_written /\ wf_request cx_wr /\
  (exists l, s_last (fs_s cy_written) = Some l /\ lr_bytes l = cx_wr) /\
  (exists resp, s_control (fs_s cy_written) = CUnsolWait resp true (Some 0%nat) 5000) /\ s_now (fs_s cy_written) = 3%Z /\
  ro_out (frx_out cy_F cy_waiting 1 None cx_wr) = [OInfo IClearRestart; ODb DbEvinfo; OTx 1 [195; 129; 0; 0]] /\
  ro_out (frx_out cy_F cy_written 1 None cx_wr) = [OTx 1 [195; 129; 0; 0]] /\
  fs_db (fst (fstep cy_F cy_written (FRx 1 None cx_wr))) = fs_db cy_written /\
  SessionC03Proofs.has_replay_error (snd (fstep cy_F cy_written (FRx 1 None cx_wr))) = false.
Proof. exact ex_frx_repeat_unsol_wait. Qed.
