(* Extraction of the executable models to OCaml (one file, model.ml, written to the directory coqc
   is run from).  ExtrOcamlBasic only: bool, option, unit, list, prod, sumbool, sumor are mapped to
   their OCaml namesakes; numbers stay Coq positive/N/Z/nat. *)
Require Extraction.
Require Import ExtrOcamlBasic.
From Dnp3V Require Import Link.Reader.
Extraction Language OCaml.
Extraction "model.ml" run_link concretize_link control_to address_value N.of_nat N.to_nat.
