(* Base/Bytes.v — bytes, little-endian words, pointwise xor.  Definitions and small lemmas only. *)
From Coq Require Export List NArith ZArith Bool Lia ZifyBool ZifyNat ZifyN.
Export ListNotations.
Open Scope N_scope.

Definition is_byte (b : N) : bool := b <? 256.
Definition all_bytes (l : list N) : bool := forallb is_byte l.

(* u16 <-> two bytes, little endian *)
Definition le16 (lo hi : N) : N := lo + 256 * hi.
Definition lo8 (x : N) : N := x mod 256.
Definition hi8 (x : N) : N := (x / 256) mod 256.

Fixpoint xor_bytes (a b : list N) : list N :=
  match a, b with
  | x :: a', y :: b' => N.lxor x y :: xor_bytes a' b'
  | _, _ => a
  end.

Definition zeros (n : nat) : list N := repeat 0 n.

(* the list of the first n naturals as N *)
Definition nrange (n : nat) : list N := map N.of_nat (seq 0 n).

(* split a list into chunks of k (k > 0); fuel = length *)
Fixpoint chunks_fuel (fuel k : nat) (l : list N) : list (list N) :=
  match fuel with
  | O => []
  | S f => match l with
           | [] => []
           | _ => firstn k l :: chunks_fuel f k (skipn k l)
           end
  end.
Definition chunks (k : nat) (l : list N) : list (list N) := chunks_fuel (length l) k l.

Ltac Zify.zify_post_hook ::= Z.div_mod_to_equations.

Lemma le16_lo_hi x : x < 65536 -> le16 (lo8 x) (hi8 x) = x.
Proof. unfold le16, lo8, hi8. lia. Qed.

Lemma lo8_le16 lo hi : lo < 256 -> lo8 (le16 lo hi) = lo.
Proof. unfold lo8, le16. lia. Qed.

Lemma hi8_le16 lo hi : lo < 256 -> hi < 256 -> hi8 (le16 lo hi) = hi.
Proof. unfold hi8, le16. lia. Qed.

Lemma le16_bound lo hi : lo < 256 -> hi < 256 -> le16 lo hi < 65536.
Proof. unfold le16; lia. Qed.

Lemma lo8_bound x : lo8 x < 256.
Proof. unfold lo8. lia. Qed.

Lemma hi8_bound x : hi8 x < 256.
Proof. unfold hi8. lia. Qed.

Lemma xor_bytes_length a b : length (xor_bytes a b) = length a.
Proof. revert b; induction a as [|x a IH]; intros [|y b]; cbn; auto. Qed.

Lemma xor_bytes_app a1 a2 b1 b2 : length a1 = length b1 ->
  xor_bytes (a1 ++ a2) (b1 ++ b2) = xor_bytes a1 b1 ++ xor_bytes a2 b2.
Proof.
  revert b1; induction a1 as [|x a1 IH]; intros [|y b1] H; cbn in *; try discriminate; auto.
  f_equal. apply IH. lia.
Qed.

Lemma xor_bytes_zeros a : xor_bytes a (zeros (length a)) = a.
Proof. induction a as [|x a IH]; cbn [xor_bytes zeros repeat length]; auto.
  fold (zeros (length a)). rewrite N.lxor_0_r, IH. reflexivity. Qed.
