From Dnp3V Require Import Outstation.Session Outstation.SessionLemmas_c14 Outstation.SessionLemmas_c12.
From Dnp3V Require Import scratch_ofull.Ev1 scratch_ofull.Ev2 scratch_ofull.Ev3 scratch_ofull.Ev4 scratch_ofull.Ev5 scratch_ofull.Ev6 scratch_ofull.Ev7.
Import ListNotations.
Open Scope N_scope.
Local Opaque N.lor.

Definition small_pd (s : ostate) : Prop :=
  match s_pending s with Some (_, _, _, d, _) => sm_digest d | None => True end /\
  match s_deferred s with Some d => sm (df_iin2 d) | None => True end.

Definition small (s : ostate) : Prop := Forall sm_ans (s_answers s) /\ small_pd s.

(* the general shape: answers consumed in order, smallness kept *)
Definition R (s : ostate) (o : list oobs) (s' : ostate) : Prop :=
  tracked (s_answers s) o (s_answers s') /\ small s'.

Lemma R_of_T s o s' : small s -> T s o s' -> R s o s'.
Proof.
  intros [Ha [Hp Hd]] (A & B & C). split; [exact A|]. split; [eapply tracked_small; eauto|].
  unfold small_pd. rewrite B, C. split; assumption.
Qed.

Lemma R_trans s o1 s1 o2 s2 : R s o1 s1 -> R s1 o2 s2 -> R s (o1 ++ o2) s2.
Proof. intros [A1 A2] [B1 B2]. split; [eapply tracked_app; eauto|exact B2]. Qed.

Lemma R_refl s : small s -> R s [] s.
Proof. intros H. split; [apply Tr_nil|exact H]. Qed.

Lemma R_small s o s' : R s o s' -> small s'.
Proof. intros [_ H]; exact H. Qed.

(* updates that keep smallness and the answers *)
Definition same_apd (s s' : ostate) : Prop :=
  s_answers s' = s_answers s /\ s_pending s' = s_pending s /\ s_deferred s' = s_deferred s.

Lemma R_same_r s o s1 s2 : R s o s1 -> same_apd s1 s2 -> R s o s2.
Proof.
  intros [A [B [C D]]] (E1 & E2 & E3). split; [rewrite E1; exact A|].
  split; [rewrite E1; exact B|]. unfold small_pd. rewrite E2, E3. split; assumption.
Qed.

Lemma R_same_l s0 s o s1 : same_apd s0 s -> R s o s1 -> R s0 o s1.
Proof. intros (E1 & E2 & E3) [A B]. split; [rewrite <- E1; exact A|exact B]. Qed.

Lemma small_same s s' : small s -> same_apd s s' -> small s'.
Proof.
  intros [B [C D]] (E1 & E2 & E3). split; [rewrite E1; exact B|]. unfold small_pd. rewrite E2, E3. split; assumption.
Qed.

Lemma R_cons s x o s' : is_ev x = false -> R s o s' -> R s (x :: o) s'.
Proof. intros Hx [A B]. split; [apply Tr_obs; assumption|exact B]. Qed.

Lemma R_plain s o : small s -> PL o -> R s o s.
Proof. intros Hs Ho. split; [apply tracked_plain; exact Ho|exact Hs]. Qed.

(* clearing / setting the deferred read keeps smallness *)
Lemma small_upd_deferred_none s : small s -> small (upd_deferred s None).
Proof. intros [A [B C]]. split; [exact A|]. split; prj; auto. Qed.

Lemma small_upd_pending_none s : small s -> small (upd_pending s None).
Proof. intros [A [B C]]. split; [exact A|]. split; prj; auto. Qed.

Lemma small_deferred_set s bytes seq from rh : small s -> small (deferred_set s bytes seq from rh).
Proof.
  intros [A [B C]]. split; [exact A|]. split; [exact B|]. unfold deferred_set. prj.
  cbn [df_iin2]. destruct (forallb (fun b => b) rh); auto with sm.
Qed.

(* ---------- solicited confirm wait ---------------------------------------------------------------- *)

Lemma sol_wait_fragment_PL cfg s se dl from bc bytes d out o :
  sol_wait_fragment cfg s se dl from bc bytes d = (out, o) -> PL o.
Proof.
  unfold sol_wait_fragment. destruct (to_treq cfg from d) as [|sq|ctl fn obj].
  - intros H; inj H. constructor.
  - intros H; inj H. unfold PL; plain_tac.
  - destruct (classify s bc bytes ctl fn obj) as [iin2|hdrs rh|last hdrs rh|hdrs|last|m|q|q];
      try (intros H; inj H; unfold PL; plain_tac; fail).
    + destruct last as [r|]; intros H; inj H; unfold PL, repeat_solicited; plain_tac.
    + destruct (q =? se_ecsn se); intros H; inj H; unfold PL; plain_tac.
Qed.

(* ---------- unsolicited ------------------------------------------------------------------------- *)

Lemma clean_unsol_header seq n : clean (unsol_header seq n).
Proof. split; reflexivity. Qed.

Lemma start_unsol_T cfg s r is_null s' o : clean r -> start_unsol cfg s r is_null = (s', o) -> T s o s'.
Proof.
  intros Hr. unfold start_unsol.
  destruct (write_unsolicited cfg s r) as [[s1 r1] o1] eqn:E. apply write_unsolicited_T in E; [|exact Hr].
  intros H; inj H. apply T_upd_control. apply T_snoc; [reflexivity|exact E].
Qed.

Lemma end_unsol_Hf cfg s is_null res s' ns o : end_unsol cfg s is_null res = (s', ns, o) -> Hf s o s'.
Proof.
  unfold end_unsol. destruct is_null; destruct res; intros H; inj H; repeat split; prj; auto; plain_tac.
Qed.

Lemma check_unsolicited_T cfg s s' ns o : check_unsolicited cfg s = (s', ns, o) -> T s o s'.
Proof.
  unfold check_unsolicited. destruct (negb (o_unsol cfg)); [intros H; inj H; apply T_nil|].
  destruct (s_unsol s) as [|deadline].
  - destruct (start_unsol cfg (upd_unsol_seq s (seq16_next (s_unsol_seq s))) (unsol_header (s_unsol_seq s) 0) true)
      as [s2 o2] eqn:E.
    apply start_unsol_T in E; [|apply clean_unsol_header]. intros H; inj H.
    destruct E as (A & B & C). repeat split; prj; auto.
  - destruct (negb match deadline with Some t => (t <=? s_now s)%Z | None => true end); [intros H; inj H; apply T_nil|].
    destruct (negb (any_enabled s)); [intros H; inj H; apply T_nil|].
    destruct (ask_unsol s) as [s1 [count body]] eqn:E. apply ask_unsol_T in E.
    destruct (s_enabled s) as [[c1 c2] c3].
    destruct (count =? 0); [intros H; inj H; exact E|].
    match goal with |- context [start_unsol cfg ?s2 ?r false] => destruct (start_unsol cfg s2 r false) as [s3 o3] eqn:E3 end.
    apply start_unsol_T in E3; [|apply clean_unsol_header]. intros H; inj H.
    apply T_cons; [reflexivity|].
    destruct E as (A & B & C). destruct E3 as (A3 & B3 & C3). prj.
    repeat split; try congruence.
    change (s_answers s) with (s_answers s) in A. 
    eapply tracked_app with (o1 := []); [exact A|exact A3].
Qed.
