From Dnp3V Require Import Outstation.Session Outstation.SessionLemmas_c14 scratch_ofull.Ev1 scratch_ofull.Ev2 scratch_ofull.Ev3.
Import ListNotations.
Open Scope N_scope.

Local Opaque N.lor.

Ltac inj H := injection H; clear H; intros; subst.

Lemma exob_plain o : exob o -> is_ev o = false.
Proof. destruct o as [| c | | | | | |]; cbn; try reflexivity; try contradiction. Qed.

Lemma Forall_exob_plain o : Forall exob o -> Forall (fun x => is_ev x = false) o.
Proof. apply Forall_impl. exact exob_plain. Qed.

Lemma frame_pd s s' : frame s s' -> s_pending s' = s_pending s /\ s_deferred s' = s_deferred s.
Proof. unfold frame, fview, uview. intros H. inversion H. auto. Qed.

Lemma gview_pd s s' : gview s' = gview s -> s_pending s' = s_pending s /\ s_deferred s' = s_deferred s.
Proof. unfold gview, uview. intros H. inversion H. auto. Qed.

(* ---------- the handlers keep the answers and produce small IIN2 values -------------------------- *)

Lemma write_iin_bits_ans bits : forall s s1 v o,
  write_iin_bits s bits = (s1, v, o) -> s_answers s1 = s_answers s /\ sm v.
Proof.
  induction bits as [|[idx value] rest IH]; intros s s1 v o H; cbn [write_iin_bits] in H.
  - inj H. split; [reflexivity|apply sm_0].
  - destruct (idx =? 7); [destruct value|].
    + destruct (write_iin_bits s rest) as [[s2 v2] o2] eqn:E. inj H.
      apply IH in E. destruct E. split; [assumption|]. apply sm_lor; [apply sm_4|assumption].
    + destruct (write_iin_bits (upd_restart s false) rest) as [[s2 v2] o2] eqn:E. inj H.
      apply IH in E. destruct E as [E1 E2]. prj. split; assumption.
    + destruct (write_iin_bits s rest) as [[s2 v2] o2] eqn:E. inj H.
      apply IH in E. destruct E. split; [assumption|]. apply sm_lor; [apply sm_4|assumption].
Qed.

Lemma write_header_ans cfg s h s1 v o :
  write_header cfg s h = (s1, v, o) -> s_answers s1 = s_answers s /\ sm v.
Proof.
  unfold write_header.
  destruct h as [bits|[t|]|[t|]|c| |a b|x| | |g v0 p items|];
    try (intros H; inj H; split; [reflexivity|auto with sm]; fail).
  - apply write_iin_bits_ans.
  - destruct (s_last_recorded s) as [t0|]; [|intros H; inj H; split; [reflexivity|auto with sm]].
    destruct (max_timestamp - t <? Z.to_N (s_now s - t0)); intros H; inj H; prj;
      split; try reflexivity; auto with sm.
Qed.

Lemma handle_write_headers_ans cfg hdrs : forall s s1 v o,
  handle_write_headers cfg s hdrs = (s1, v, o) -> s_answers s1 = s_answers s /\ sm v.
Proof.
  induction hdrs as [|h rest IH]; intros s s1 v o H; cbn [handle_write_headers] in H.
  - inj H. split; [reflexivity|apply sm_0].
  - destruct (write_header cfg s h) as [[s2 v2] o2] eqn:E1.
    destruct (handle_write_headers cfg s2 rest) as [[s3 v3] o3] eqn:E2.
    inj H. apply write_header_ans in E1. apply IH in E2.
    destruct E1, E2. split; [congruence|]. apply sm_lor; assumption.
Qed.

Lemma freeze_header_sm cfg ft t i h : sm (fst (freeze_header cfg ft t i h)).
Proof. destruct h; cbn; auto with sm. Qed.

Lemma handle_freeze_sm cfg ft hdrs : sm (fst (handle_freeze cfg ft hdrs)).
Proof.
  induction hdrs as [|h rest IH]; cbn [handle_freeze]; [apply sm_0|].
  pose proof (freeze_header_sm cfg ft 0 0 h) as Hh.
  destruct (freeze_header cfg ft 0 0 h) as [v1 o1]. destruct (handle_freeze cfg ft rest) as [v2 o2].
  cbn [fst] in *. apply sm_lor; assumption.
Qed.

Lemma handle_freeze_at_time_sm cfg hdrs : forall timing, sm (fst (handle_freeze_at_time cfg timing hdrs)).
Proof.
  induction hdrs as [|h rest IH]; intros timing; cbn [handle_freeze_at_time]; [apply sm_0|].
  assert (Hdef : forall t0,
             sm (fst (match t0 with
                      | None => let '(v, o) := handle_freeze_at_time cfg t0 rest in (N.lor iin2_param v, o)
                      | Some (t, i) =>
                          let '(v1, o1) := freeze_header cfg 2 t i h in
                          let '(v2, o2) := handle_freeze_at_time cfg t0 rest in (N.lor v1 v2, o1 ++ o2)
                      end))).
  { intros [[t i]|].
    - pose proof (freeze_header_sm cfg 2 t i h) as Hh. specialize (IH (Some (t, i))).
      destruct (freeze_header cfg 2 t i h) as [v1 o1].
      destruct (handle_freeze_at_time cfg (Some (t, i)) rest) as [v2 o2]. cbn [fst] in *. apply sm_lor; assumption.
    - specialize (IH None). destruct (handle_freeze_at_time cfg None rest) as [v o]. cbn [fst] in *.
      apply sm_lor; [apply sm_4|assumption]. }
  destruct h as [bits|x|x|c| |a b|[x|]| | |g v0 p items|]; try apply Hdef.
  - apply IH.
  - specialize (IH timing). destruct (handle_freeze_at_time cfg timing rest) as [v o]. cbn [fst] in *.
    apply sm_lor; [apply sm_4|assumption].
Qed.

Lemma enable_disable_ans cfg s en seq hdrs s1 r :
  enable_disable cfg s en seq hdrs = (s1, r) -> s_answers s1 = s_answers s /\ clean r.
Proof.
  unfold enable_disable. destruct (negb (o_unsol cfg)).
  - intros H; inj H. split; [reflexivity|apply clean_empty; apply sm_1].
  - match goal with |- context [fold_left ?f hdrs ?a0] =>
      assert (Hf : forall l acc, sm (snd acc) -> sm (snd (fold_left f l acc))) end.
    { induction l as [|h l IHl]; intros [[[c1 c2] c3] v] Hv; cbn [fold_left]; [exact Hv|].
      apply IHl. destruct h as [bits|x|x|c| |a b|x| | |g v0 p items|]; cbn [snd] in *; auto with sm.
      repeat (match goal with |- context [match ?x with _ => _ end] => destruct x end); cbn [snd]; auto with sm. }
    match goal with |- context [fold_left ?f hdrs ?a0] => specialize (Hf hdrs a0 sm_0); destruct (fold_left f hdrs a0) as [e v] end.
    intros H; inj H. prj. split; [reflexivity|apply clean_empty; exact Hf].
Qed.

Lemma restart_response_ans seq s d s1 r :
  restart_response seq s d = (s1, r) -> s_answers s1 = s_answers s /\ clean r.
Proof.
  unfold restart_response. destruct d as [[ms v]|]; intros H; inj H; prj.
  - split; [reflexivity|split; reflexivity].
  - split; [reflexivity|apply clean_empty; apply sm_1].
Qed.

Lemma clean_control seq st n : clean (control_response seq st n).
Proof. split; [reflexivity|]. cbn [control_response r_iin2]. destruct (st =? 4); auto with sm. Qed.

Lemma clean_with_iin2 r v : clean r -> sm v -> clean (with_iin2 r v).
Proof. intros [A B] Hv. split; [exact A|]. cbn [with_iin2 r_iin2]. apply sm_lor; assumption. Qed.

Lemma handle_controls_ans cfg s fn seq fid bytes hdrs s1 r o :
  handle_controls cfg s fn seq fid bytes hdrs = (s1, r, o) ->
  s_answers s1 = s_answers s /\ (forall x, r = Some x -> clean x).
Proof.
  unfold handle_controls. destruct (negb (all_controls hdrs)).
  { intros H; inj H. split; [reflexivity|]. intros x Hx.
    destruct (fn =? fn_direct_operate_nr); inversion Hx; subst. apply clean_empty. apply sm_4. }
  destruct (fn =? fn_direct_operate_nr).
  { destruct (noack_headers s cfg 0 false hdrs) as [cbs started]. intros H; inj H.
    split; [reflexivity|discriminate]. }
  destruct (fn =? fn_select).
  { destruct (ctl_headers s cfg (o_sol_tx cfg - 4) CmSelect [] 0 false hdrs) as [[[[echo ok] cbs] st] started].
    intros H; inj H. split.
    - destruct (ok && (st =? 0)); reflexivity.
    - intros x Hx; inversion Hx; subst. apply clean_control. }
  destruct (fn =? fn_direct_operate).
  { destruct (ctl_headers s cfg (o_sol_tx cfg - 4) (CmOperate OpDo) [] 0 false hdrs) as [[[[echo ok] cbs] st] started].
    intros H; inj H. split; [reflexivity|]. intros x Hx; inversion Hx; subst. apply clean_control. }
  match goal with |- context [match ?v with Some _ => _ | None => _ end = _] => destruct v as [status|] end.
  - destruct (ctl_headers s cfg (o_sol_tx cfg - 4) (CmStatus status) [] 0 false hdrs) as [[[[echo ok] cbs] st] started].
    intros H; inj H. split; [reflexivity|]. intros x Hx; inversion Hx; subst. apply clean_control.
  - destruct (ctl_headers s cfg (o_sol_tx cfg - 4) (CmOperate OpSbo) [] 0 false hdrs) as [[[[echo ok] cbs] st] started].
    intros H; inj H. split; [reflexivity|]. intros x Hx; inversion Hx; subst. apply clean_control.
Qed.
