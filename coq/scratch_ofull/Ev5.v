From Dnp3V Require Import Outstation.Session Outstation.SessionLemmas_c14.
From Dnp3V Require Import scratch_ofull.Ev1 scratch_ofull.Ev2 scratch_ofull.Ev3 scratch_ofull.Ev4.
Import ListNotations.
Open Scope N_scope.
Local Opaque N.lor.

Lemma handle_non_read_ans cfg s fn seq fid bytes hdrs s1 r o :
  handle_non_read cfg s fn seq fid bytes hdrs = (s1, r, o) ->
  s_answers s1 = s_answers s /\ (forall x, r = Some x -> clean x).
Proof.
  unfold handle_non_read. cbv beta zeta.
  set (extra := if objects_allowed fn then 0 else match hdrs with [] => 0 | _ => iin2_param end).
  assert (Hex : sm extra).
  { unfold extra. destruct (objects_allowed fn); [apply sm_0|]. destruct hdrs; auto with sm. }
  match goal with |- (let '(_, _) := ?X in _) = _ -> _ => destruct X as [[s2 r2] o2] eqn:E end.
  intros H. inj H.
  assert (Hin : s_answers s1 = s_answers s /\ (forall x, r2 = Some x -> clean x)).
  2:{ destruct Hin as [A B]. split; [exact A|]. intros x Hx. destruct r2 as [r2|]; [|discriminate].
      inj Hx. apply clean_with_iin2; auto. }
  clear Hex. revert E.
  destruct (fn =? fn_write).
  { destruct (handle_write_headers cfg s hdrs) as [[s3 v] o3] eqn:E. apply handle_write_headers_ans in E.
    destruct E as [Ea Eb]. intros H; inj H. split; [assumption|]. intros x Hx; inj Hx. apply clean_empty. assumption. }
  destruct (fn =? fn_delay_measure).
  { intros H; inj H. prj. split; [reflexivity|]. intros x Hx; inj Hx. split; reflexivity. }
  destruct (fn =? fn_record_time).
  { intros H; inj H. prj. split; [reflexivity|]. intros x Hx; inj Hx. apply clean_empty, sm_0. }
  destruct (fn =? fn_cold_restart).
  { destruct (restart_response seq s (o_cold cfg)) as [s3 r3] eqn:E. apply restart_response_ans in E. destruct E as [Ea Eb].
    intros H; inj H. split; [assumption|]. intros x Hx; inj Hx. assumption. }
  destruct (fn =? fn_warm_restart).
  { destruct (restart_response seq s (o_warm cfg)) as [s3 r3] eqn:E. apply restart_response_ans in E. destruct E as [Ea Eb].
    intros H; inj H. split; [assumption|]. intros x Hx; inj Hx. assumption. }
  destruct ((fn =? fn_select) || (fn =? fn_operate) || (fn =? fn_direct_operate) || (fn =? fn_direct_operate_nr)).
  { apply handle_controls_ans. }
  destruct (fn =? fn_immediate_freeze).
  { pose proof (handle_freeze_sm cfg 0 hdrs) as Hs. destruct (handle_freeze cfg 0 hdrs) as [v o3].
    intros H; inj H. split; [reflexivity|]. intros x Hx; inj Hx. apply clean_empty. exact Hs. }
  destruct (fn =? fn_immediate_freeze_nr).
  { destruct (handle_freeze cfg 0 hdrs) as [v o3]. intros H; inj H. split; [reflexivity|discriminate]. }
  destruct (fn =? fn_freeze_clear).
  { pose proof (handle_freeze_sm cfg 1 hdrs) as Hs. destruct (handle_freeze cfg 1 hdrs) as [v o3].
    intros H; inj H. split; [reflexivity|]. intros x Hx; inj Hx. apply clean_empty. exact Hs. }
  destruct (fn =? fn_freeze_clear_nr).
  { destruct (handle_freeze cfg 1 hdrs) as [v o3]. intros H; inj H. split; [reflexivity|discriminate]. }
  destruct (fn =? fn_freeze_at_time).
  { pose proof (handle_freeze_at_time_sm cfg hdrs None) as Hs. destruct (handle_freeze_at_time cfg None hdrs) as [v o3].
    intros H; inj H. split; [reflexivity|]. intros x Hx; inj Hx. apply clean_empty. exact Hs. }
  destruct (fn =? fn_freeze_at_time_nr).
  { destruct (handle_freeze_at_time cfg None hdrs) as [v o3]. intros H; inj H. split; [reflexivity|discriminate]. }
  destruct (fn =? fn_enable_unsol).
  { destruct (enable_disable cfg s true seq hdrs) as [s3 r3] eqn:E. apply enable_disable_ans in E. destruct E as [Ea Eb].
    intros H; inj H. split; [assumption|]. intros x Hx; inj Hx. assumption. }
  destruct (fn =? fn_disable_unsol).
  { destruct (enable_disable cfg s false seq hdrs) as [s3 r3] eqn:E. apply enable_disable_ans in E. destruct E as [Ea Eb].
    intros H; inj H. split; [assumption|]. intros x Hx; inj Hx. assumption. }
  intros H; inj H. split; [reflexivity|]. intros x Hx; inj Hx. apply clean_empty, sm_1.
Qed.

Lemma handle_non_read_Hf cfg s fn seq fid bytes hdrs s1 r o :
  handle_non_read cfg s fn seq fid bytes hdrs = (s1, r, o) ->
  Hf s o s1 /\ (forall x, r = Some x -> clean x).
Proof.
  intros H. pose proof (handle_non_read_ans _ _ _ _ _ _ _ _ _ _ H) as [A B].
  apply handle_non_read_spec in H. destruct H as (G & O & _).
  apply gview_pd in G. destruct G. split; [|exact B].
  repeat split; auto. apply Forall_exob_plain. exact O.
Qed.

(* ---------- READ ---------------------------------------------------------------------------------- *)

Lemma format_read_response_T s fir seq iin2 s2 r se o :
  format_read_response s fir seq iin2 = (s2, r, se, o) -> T s o s2 /\ (sm iin2 -> clean r).
Proof.
  unfold format_read_response.
  destruct (ask_write s) as [[s1 [[complete has_events] body]] o1] eqn:E.
  apply ask_write_T in E. intros H; inj H. split.
  - destruct E as (A & B & C). repeat split; prj; auto.
  - intros Hs. split; [reflexivity|exact Hs].
Qed.

Lemma format_first_read_response_T s seq s2 r se o :
  format_first_read_response s seq = (s2, r, se, o) ->
  T s o s2 /\ (Forall sm_ans (s_answers s) -> clean r).
Proof.
  unfold format_first_read_response.
  destruct (ask_iin2 s DbSelect) as [[s1 iin2] o1] eqn:E1.
  destruct (format_read_response s1 true seq iin2) as [[[s3 r3] se3] o3] eqn:E2.
  apply ask_iin2_T in E1; [|reflexivity]. destruct E1 as [E1 Hv].
  apply format_read_response_T in E2. destruct E2 as [E2 Hc].
  intros H; inj H. split; [eapply T_trans; eauto|]. intros Hs. apply Hc, Hv, Hs.
Qed.
