From Dnp3V Require Import Outstation.Session scratch_ofull.Ev1.
Import ListNotations.
Open Scope N_scope.

(* low-level functions: answers are consumed in order, pending / deferred are left alone *)
Definition T (s : ostate) (o : list oobs) (s' : ostate) : Prop :=
  tracked (s_answers s) o (s_answers s') /\ s_pending s' = s_pending s /\ s_deferred s' = s_deferred s.

Lemma T_nil s : T s [] s.
Proof. repeat split. apply Tr_nil. Qed.

Lemma T_trans s o1 s1 o2 s2 : T s o1 s1 -> T s1 o2 s2 -> T s (o1 ++ o2) s2.
Proof.
  intros (A1 & A2 & A3) (B1 & B2 & B3). repeat split; try congruence.
  eapply tracked_app; eauto.
Qed.

(* functions that do not consult the environment at all *)
Definition Hf (s : ostate) (o : list oobs) (s' : ostate) : Prop :=
  s_answers s' = s_answers s /\ s_pending s' = s_pending s /\ s_deferred s' = s_deferred s /\
  Forall (fun x => is_ev x = false) o.

Lemma Hf_T s o s' : Hf s o s' -> T s o s'.
Proof. intros (A & B & C & D). repeat split; auto. rewrite A. apply tracked_plain. exact D. Qed.

Lemma Hf_refl s : Hf s [] s.
Proof. repeat split. constructor. Qed.

Lemma Hf_trans s o1 s1 o2 s2 : Hf s o1 s1 -> Hf s1 o2 s2 -> Hf s (o1 ++ o2) s2.
Proof.
  intros (A1 & A2 & A3 & A4) (B1 & B2 & B3 & B4). repeat split; try congruence.
  apply Forall_app. split; assumption.
Qed.

Ltac plain_tac :=
  repeat match goal with
         | |- Forall _ [] => apply Forall_nil
         | |- Forall _ (_ :: _) => apply Forall_cons; [reflexivity|]
         | |- Forall _ (_ ++ _) => apply Forall_app; split
         | |- Forall _ (if ?b then _ else _) => destruct b
         end; auto.

(* ---------- asking ---------------------------------------------------------------------------- *)

Lemma ask_iin2_T s call s1 v o :
  ask_iin2 s call = (s1, v, o) -> is_ev (ODb call) = false ->
  T s o s1 /\ (Forall sm_ans (s_answers s) -> sm v).
Proof.
  unfold ask_iin2. intros H Hc.
  destruct (s_answers s) as [|[x|c e b|n b|a b c0 ov] rest] eqn:Ea; inversion H; subst; clear H; prj;
    (split; [repeat split; prj; auto|intros Hs; try apply sm_0]).
  - rewrite Ea. apply Tr_obs; [exact Hc|]. apply Tr_obs; [reflexivity|apply Tr_nil].
  - rewrite Ea. apply Tr_skip; [reflexivity|]. apply Tr_obs; [exact Hc|apply Tr_nil].
  - inversion Hs; subst. assumption.
  - rewrite Ea. apply Tr_obs; [exact Hc|]. apply Tr_obs; [reflexivity|apply Tr_nil].
  - rewrite Ea. apply Tr_obs; [exact Hc|]. apply Tr_obs; [reflexivity|apply Tr_nil].
  - rewrite Ea. apply Tr_obs; [exact Hc|]. apply Tr_obs; [reflexivity|apply Tr_nil].
Qed.

Lemma ask_write_T s s1 x o : ask_write s = (s1, x, o) -> T s o s1.
Proof.
  unfold ask_write. intros H.
  destruct (s_answers s) as [|[x0|c e b|n b|a b c0 ov] rest] eqn:Ea; inversion H; subst; clear H; prj;
    repeat split; prj; auto; rewrite ?Ea;
    try (apply Tr_obs; [reflexivity|]; apply Tr_obs; [reflexivity|apply Tr_nil]).
  apply Tr_skip; [reflexivity|]. apply Tr_obs; [reflexivity|apply Tr_nil].
Qed.

Lemma ask_unsol_T s s1 x : ask_unsol s = (s1, x) -> T s [] s1.
Proof.
  unfold ask_unsol. intros H.
  destruct (s_answers s) as [|[x0|c e b|n b|a b c0 ov] rest] eqn:Ea; inversion H; subst; clear H; prj;
    repeat split; prj; auto; rewrite ?Ea; try apply Tr_nil.
  apply Tr_skip; [reflexivity|apply Tr_nil].
Qed.
