From Dnp3V Require Import Outstation.Session Outstation.SessionLemmas_c14 Outstation.SessionLemmas_c12.
From Dnp3V Require Import scratch_ofull.Ev1 scratch_ofull.Ev2 scratch_ofull.Ev3 scratch_ofull.Ev4 scratch_ofull.Ev5 scratch_ofull.Ev6.
Import ListNotations.
Open Scope N_scope.
Local Opaque N.lor.

Definition sm_digest (d : digest) : Prop := match d with DOk _ _ _ (ObjErr v) => sm v | _ => True end.

Lemma T_cons s x o s' : is_ev x = false -> T s o s' -> T s (x :: o) s'.
Proof. intros Hx (A & B & C). repeat split; auto. apply Tr_obs; assumption. Qed.

Lemma T_snoc s x o s' : is_ev x = false -> T s o s' -> T s (o ++ [x]) s'.
Proof.
  intros Hx H. eapply T_trans; [exact H|]. apply T_cons; [exact Hx|apply T_nil].
Qed.

(* T is insensitive to the fields the bookkeeping after a response touches *)
Lemma T_upd_last s o s' l : T s o s' -> T s o (upd_last s' l).
Proof. intros (A & B & C). repeat split; prj; auto. Qed.
Lemma T_upd_control s o s' c : T s o s' -> T s o (upd_control s' c).
Proof. intros (A & B & C). repeat split; prj; auto. Qed.
Lemma T_upd_select_l s o s' x : T s o s' -> T (upd_select s x) o s'.
Proof. intros (A & B & C). repeat split; prj; auto. Qed.

Lemma classify_malformed s bc bytes ctl fn obj iin2 :
  classify s bc bytes ctl fn obj = FtMalformed iin2 -> obj = ObjErr iin2.
Proof.
  unfold classify. destruct bc; [discriminate|].
  destruct (fn =? fn_confirm); [destruct (ctl_uns ctl); discriminate|].
  destruct obj as [e|hdrs rh]; [intros H; inversion H; reflexivity|].
  destruct (match s_last s with Some l => _ | None => false end); destruct (fn =? fn_read); discriminate.
Qed.

Lemma hfi_finish_T cfg from seq bytes fn s1 resp se rep o1 s' o :
  (rep = false -> forall r, resp = Some r -> clean r) ->
  hfi_finish cfg from seq bytes fn s1 resp se rep o1 = (s', o) ->
  exists o2, o = OInfo (IIdleRequest fn seq) :: o1 ++ o2 /\ T s1 o2 s'.
Proof.
  intros Hc. unfold hfi_finish. destruct resp as [r|].
  - destruct rep.
    + unfold repeat_solicited.
      match goal with |- context [match ?x with Some _ => _ | None => _ end = _] => destruct x as [x0|] end;
        intros H; inj H.
      * eexists. split; [cbn [app]; reflexivity|].
        apply T_upd_control, T_upd_last. apply T_cons; [reflexivity|]. apply T_cons; [reflexivity|apply T_nil].
      * eexists. split; [cbn [app]; reflexivity|].
        apply T_upd_last. apply T_cons; [reflexivity|apply T_nil].
    + destruct (write_solicited s1 from r) as [[s2 r'] o2] eqn:E.
      apply write_solicited_T in E; [|apply Hc; reflexivity].
      match goal with |- context [match ?x with Some _ => _ | None => _ end = _] => destruct x as [x0|] end;
        intros H; inj H.
      * eexists. split; [cbn [app]; reflexivity|].
        apply T_upd_control, T_upd_last. apply T_snoc; [reflexivity|exact E].
      * eexists. split; [cbn [app]; reflexivity|]. apply T_upd_last. exact E.
  - intros H; inj H. exists []. split; [cbn [app]; rewrite app_nil_r; reflexivity|].
    apply T_upd_last, T_nil.
Qed.

Lemma handle_from_idle_T cfg s from bc bytes d fid s' o :
  sm_digest d -> Forall sm_ans (s_answers s) ->
  handle_from_idle cfg s from bc bytes d fid = (s', o) -> T s o s'.
Proof.
  intros Hd Hs. rewrite handle_from_idle_eq.
  destruct (to_treq cfg from d) as [|sq|ctl fn obj] eqn:Et.
  - intros H; inj H. apply T_nil.
  - apply write_error_response_T.
  - apply to_treq_request in Et. subst d. cbn [sm_digest] in Hd. cbv zeta.
    destruct (classify s bc bytes ctl fn obj) as [iin2|hdrs rh|last hdrs rh|hdrs|last|m|q|q] eqn:Ec.
    + apply classify_malformed in Ec. subst obj. intros H.
      apply hfi_finish_T in H.
      * destruct H as (o2 & -> & H). cbn [app]. apply T_cons; [reflexivity|exact H].
      * intros _ r Hr. inj Hr. apply clean_empty. exact Hd.
    + destruct (format_first_read_response s (ctl_seq ctl)) as [[[s1 r] se] o1] eqn:E.
      apply format_first_read_response_T in E. destruct E as [E Hc]. intros H.
      apply hfi_finish_T in H.
      * destruct H as (o2 & -> & H). apply T_cons; [reflexivity|]. eapply T_trans; eauto.
      * intros _ r0 Hr. inj Hr. apply Hc, Hs.
    + destruct (format_first_read_response s (ctl_seq ctl)) as [[[s1 r] se] o1] eqn:E.
      apply format_first_read_response_T in E. destruct E as [E Hc]. intros H.
      apply hfi_finish_T in H.
      * destruct H as (o2 & -> & H). apply T_cons; [reflexivity|]. eapply T_trans; eauto.
      * intros _ r0 Hr. inj Hr. apply Hc, Hs.
    + destruct (handle_non_read cfg s fn (ctl_seq ctl) fid bytes hdrs) as [[s1 r] o1] eqn:E.
      apply handle_non_read_Hf in E. destruct E as [E Hc]. intros H.
      apply hfi_finish_T in H.
      * destruct H as (o2 & -> & H). apply T_cons; [reflexivity|]. eapply T_trans; [apply Hf_T; exact E|exact H].
      * intros _ r0 Hr. apply Hc. exact Hr.
    + intros H. apply hfi_finish_T in H; [|discriminate].
      destruct H as (o2 & -> & H). cbn [app]. apply T_cons; [reflexivity|].
      destruct (s_select s) as [sel|]; [|exact H].
      destruct ((ss_frame_id sel + 1) mod 4294967296 =? fid); [|exact H].
      destruct H as (A & B & C). repeat split; prj; auto.
    + destruct (process_broadcast cfg s m fid ctl fn bytes obj) as [s1 o1] eqn:E.
      apply process_broadcast_Hf in E. intros H; inj H. cbn [app].
      apply T_cons; [reflexivity|]. apply Hf_T. exact E.
    + intros H; inj H. apply T_cons; [reflexivity|apply T_nil].
    + intros H; inj H. apply T_cons; [reflexivity|apply T_nil].
Qed.
