From Dnp3V Require Import Outstation.Session.
Import ListNotations.
Open Scope N_scope.

Ltac prj := cbn [s_now s_control s_restart_iin s_enabled s_last s_select s_unsol s_unsol_seq s_deferred
  s_last_recorded s_last_bcast s_sol_buf s_unsol_buf s_pending s_frame_id s_notify s_sel_status s_op_status
  s_app_iin s_answers s_bcast_rep upd_bcast_rep upd_control upd_now upd_restart upd_enabled upd_last upd_select upd_unsol upd_unsol_seq
  upd_deferred upd_last_recorded upd_last_bcast upd_sol_buf upd_unsol_buf upd_pending
  upd_frame_id upd_notify upd_knobs upd_answers session_reset deferred_set fst snd] in *.

(* ---------- IIN2 values without the EVENT_BUFFER_OVERFLOW bit ------------------------------------ *)
Definition sm (v : N) : Prop := N.testbit v 3 = false.
Lemma sm_lor a b : sm a -> sm b -> sm (N.lor a b).
Proof. unfold sm. intros Ha Hb. rewrite N.lor_spec, Ha, Hb. reflexivity. Qed.
Lemma sm_0 : sm 0. Proof. reflexivity. Qed.
Lemma sm_1 : sm 1. Proof. reflexivity. Qed.
Lemma sm_4 : sm 4. Proof. reflexivity. Qed.
Lemma sm_req_result c : sm (req_result_iin2 c).
Proof. unfold req_result_iin2. destruct (c =? 0); [reflexivity|]. destruct (c =? 1); reflexivity. Qed.
#[global] Hint Resolve sm_lor sm_0 sm_1 sm_4 sm_req_result : sm.

Definition clean (r : response) : Prop := r_iin1 r = 0 /\ sm (r_iin2 r).

Definition class_bits (bytes : list N) : bool * bool * bool :=
  (N.testbit (nth 2 bytes 0) 1, N.testbit (nth 2 bytes 0) 2, N.testbit (nth 2 bytes 0) 3).
Definition overflow_bit (bytes : list N) : bool := N.testbit (nth 3 bytes 0) 3.
Definition iin_ok (c1 c2 c3 v : bool) (bytes : list N) : Prop :=
  class_bits bytes = (c1, c2, c3) /\ overflow_bit bytes = v.

Definition is_ev (o : oobs) : bool := match o with ODb DbEvinfo => true | _ => false end.
Definition is_evans (a : answer) : bool := match a with AEvinfo _ _ _ _ => true | _ => false end.
Definition head_not_ev (a : list answer) : Prop := match a with AEvinfo _ _ _ _ :: _ => False | _ => True end.

Inductive tracked : list answer -> list oobs -> list answer -> Prop :=
| Tr_nil a : tracked a [] a
| Tr_obs a o l a' : is_ev o = false -> tracked a l a' -> tracked a (o :: l) a'
| Tr_skip x a l a' : is_evans x = false -> tracked a l a' -> tracked (x :: a) l a'
| Tr_ev c1 c2 c3 v a dest bytes l a' :
    iin_ok c1 c2 c3 v bytes -> tracked a l a' ->
    tracked (AEvinfo c1 c2 c3 v :: a) (ODb DbEvinfo :: OTx dest bytes :: l) a'
| Tr_miss a dest bytes l a' :
    head_not_ev a -> tracked a l a' ->
    tracked a (ODb DbEvinfo :: OMissingAnswer :: OTx dest bytes :: l) a'.

Lemma tracked_app a o1 a1 : tracked a o1 a1 -> forall o2 a2, tracked a1 o2 a2 -> tracked a (o1 ++ o2) a2.
Proof.
  induction 1; intros o2 a2 H2; cbn [app].
  - exact H2.
  - apply Tr_obs; auto.
  - apply Tr_skip; auto.
  - apply Tr_ev; auto.
  - apply Tr_miss; auto.
Qed.

Lemma tracked_plain a o : Forall (fun x => is_ev x = false) o -> tracked a o a.
Proof. induction 1; [apply Tr_nil|apply Tr_obs; auto]. Qed.

Definition sm_ans (a : answer) : Prop := match a with AIin2 v => sm v | _ => True end.

Lemma tracked_small a o a' : tracked a o a' -> Forall sm_ans a -> Forall sm_ans a'.
Proof.
  induction 1; intros Hs; auto.
  - apply IHtracked. inversion Hs; auto.
  - apply IHtracked. inversion Hs; auto.
Qed.
