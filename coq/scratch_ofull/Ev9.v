From Dnp3V Require Import Outstation.Session Outstation.SessionLemmas_c14 Outstation.SessionLemmas_c12.
From Dnp3V Require Import scratch_ofull.Ev1 scratch_ofull.Ev2 scratch_ofull.Ev3 scratch_ofull.Ev4 scratch_ofull.Ev5 scratch_ofull.Ev6 scratch_ofull.Ev7 scratch_ofull.Ev8.
Import ListNotations.
Open Scope N_scope.
Local Opaque N.lor.

Lemma same_apd_bcast_confirmed s u q : same_apd s (bcast_confirmed s u q).
Proof. unfold bcast_confirmed. destruct (rep_eqb _ _ _); repeat split; prj; auto. Qed.

Lemma unsol_wait_fragment_R cfg s resp from bc bytes d fid s' res o :
  small s -> sm_digest d ->
  unsol_wait_fragment cfg s resp from bc bytes d fid = (s', res, o) -> R s o s'.
Proof.
  intros Hs Hd. unfold unsol_wait_fragment.
  pose proof (small_upd_deferred_none s Hs) as Hs0.
  assert (S0 : forall o1 s1, R (upd_deferred s None) o1 s1 -> R s o1 s1).
  { intros o1 s1 [A B]. split; [exact A|exact B]. }
  destruct (to_treq cfg from d) as [|sq|ctl fn obj] eqn:Et.
  - intros H; inj H. apply R_refl. exact Hs.
  - destruct (write_error_response (upd_deferred s None) from bc sq) as [s1 o1] eqn:E.
    apply write_error_response_T in E. intros H; inj H. apply S0. apply R_of_T; assumption.
  - apply to_treq_request in Et. subst d. cbn [sm_digest] in Hd.
    destruct (classify s bc bytes ctl fn obj) as [iin2|hdrs rh|last hdrs rh|hdrs|last|m|q|q] eqn:Ec.
    + apply classify_malformed in Ec. subst obj.
      destruct (write_solicited (upd_deferred s None) from (empty_solicited (ctl_seq ctl) iin2)) as [[s1 r1] o1] eqn:E.
      apply write_solicited_T in E; [|apply clean_empty; exact Hd].
      intros H; inj H. apply S0. apply R_of_T; assumption.
    + intros H; inj H. split; [apply Tr_nil|]. apply small_deferred_set. exact Hs.
    + intros H; inj H. split; [apply Tr_nil|]. apply small_deferred_set. exact Hs.
    + destruct (handle_non_read cfg (upd_deferred s None) fn (ctl_seq ctl) fid bytes hdrs) as [[s1 r] o1] eqn:E.
      apply handle_non_read_Hf in E. destruct E as [E Hc].
      destruct r as [r0|].
      * destruct (write_solicited s1 from r0) as [[s2 r1] o2] eqn:E2.
        apply write_solicited_T in E2; [|apply Hc; reflexivity].
        intros H; inj H. apply S0. apply R_of_T; [exact Hs0|].
        apply T_upd_last. eapply T_trans; [apply Hf_T; exact E|exact E2].
      * intros H; inj H. apply S0. apply R_of_T; [exact Hs0|].
        apply T_upd_last. rewrite app_nil_r. apply Hf_T. exact E.
    + intros H; inj H. apply S0. apply R_plain; [exact Hs0|].
      destruct last; unfold PL, repeat_solicited; plain_tac.
    + destruct (process_broadcast cfg (upd_deferred s None) m fid ctl fn bytes obj) as [s1 o1] eqn:E.
      apply process_broadcast_Hf in E. intros H; inj H. apply S0. apply R_of_T; [exact Hs0|apply Hf_T; exact E].
    + intros H; inj H. eapply R_same_r; [apply R_refl; exact Hs|apply same_apd_bcast_confirmed].
    + destruct (q =? ctl_seq (r_ctl resp)); intros H; inj H.
      * eapply R_same_r; [apply R_plain; [exact Hs|unfold PL; plain_tac]|apply same_apd_bcast_confirmed].
      * apply R_refl. exact Hs.
Qed.

Lemma handle_deferred_R cfg s ns s' o : small s -> handle_deferred cfg s ns = (s', o) -> R s o s'.
Proof.
  intros Hs. unfold handle_deferred. destruct (s_deferred s) as [d|] eqn:Ed; [|intros H; inj H; apply R_refl; exact Hs].
  assert (Hdf : sm (df_iin2 d)). { destruct Hs as [_ [_ Hx]]. rewrite Ed in Hx. exact Hx. }
  set (s0 := upd_notify (upd_deferred s None) true).
  assert (Hs0 : small s0). { destruct Hs as [A [B C]]. unfold s0. split; [exact A|]. split; prj; auto. }
  destruct (ask_iin2 s0 DbDeferredSelect) as [[s1 iin2] o1] eqn:E1.
  apply ask_iin2_T in E1; [|reflexivity]. destruct E1 as [E1 Hv].
  destruct (format_read_response s1 true (df_seq d) (N.lor (df_iin2 d) iin2)) as [[[s2 r] se] o2] eqn:E2.
  apply format_read_response_T in E2. destruct E2 as [E2 Hc].
  destruct (write_solicited s2 (df_from d) r) as [[s3 r'] o3] eqn:E3.
  apply write_solicited_T in E3; [|apply Hc; apply sm_lor; [exact Hdf|apply Hv; destruct Hs0 as [A _]; exact A]].
  assert (HT : T s0 (o1 ++ o2 ++ o3) s3). { eapply T_trans; [exact E1|]. eapply T_trans; eauto. }
  assert (S0 : forall o0 sx, R s0 o0 sx -> R s o0 sx).
  { intros o0 sx [A B]. split; [exact A|exact B]. }
  match goal with |- context [match ?x with Some _ => _ | None => _ end = _] => destruct x as [x0|] end;
    intros H; inj H.
  - apply S0. apply R_of_T; [exact Hs0|]. apply T_upd_control, T_upd_last.
    replace (o1 ++ o2 ++ o3 ++ [OInfo (IEnterSolWait (se_ecsn x0))])
      with ((o1 ++ o2 ++ o3) ++ [OInfo (IEnterSolWait (se_ecsn x0))]) by (rewrite <- !app_assoc; reflexivity).
    apply T_snoc; [reflexivity|exact HT].
  - apply S0. apply R_of_T; [exact Hs0|]. apply T_upd_last. exact HT.
Qed.
