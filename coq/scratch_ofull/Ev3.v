From Dnp3V Require Import Outstation.Session scratch_ofull.Ev1 scratch_ofull.Ev2.
Import ListNotations.
Open Scope N_scope.

Lemma iin1_class_bits (r c1 c2 c3 bc a0 a1 a2 : bool) :
  let x := b2n r 128 + b2n c1 2 + b2n c2 4 + b2n c3 8 + b2n bc 1 + b2n a0 16 + b2n a1 32 + b2n a2 64 in
  N.testbit x 1 = c1 /\ N.testbit x 2 = c2 /\ N.testbit x 3 = c3.
Proof. destruct r, c1, c2, c3, bc, a0, a1, a2; repeat split; reflexivity. Qed.

Lemma iin2_overflow_bit (v a3 : bool) : N.testbit (b2n v 8 + b2n a3 32) 3 = v.
Proof. destruct v, a3; reflexivity. Qed.

Lemma response_iin_bits s c1 c2 c3 v rest s' iin1 iin2 o :
  s_answers s = AEvinfo c1 c2 c3 v :: rest ->
  response_iin s = (s', (iin1, iin2), o) ->
  o = [ODb DbEvinfo] /\ s_answers s' = rest /\
  N.testbit iin1 1 = c1 /\ N.testbit iin1 2 = c2 /\ N.testbit iin1 3 = c3 /\ N.testbit iin2 3 = v.
Proof.
  unfold response_iin, ask_evinfo. intros Ha. rewrite Ha.
  cbn [s_last_bcast upd_answers s_app_iin s_restart_iin].
  set (a := s_app_iin s).
  intros H.
  assert (Hs : s_answers s' = rest).
  { destruct (s_last_bcast s) as [[]|]; inversion H; subst; reflexivity. }
  assert (Ho : o = [ODb DbEvinfo]).
  { destruct (s_last_bcast s) as [[]|]; inversion H; subst; reflexivity. }
  assert (Hi : iin1 = b2n (s_restart_iin s) 128 + b2n c1 2 + b2n c2 4 + b2n c3 8
                      + b2n (match s_last_bcast s with Some _ => true | None => false end) 1
                      + b2n (N.testbit a 0) 16 + b2n (N.testbit a 1) 32 + b2n (N.testbit a 2) 64
               /\ iin2 = b2n v 8 + b2n (N.testbit a 3) 32).
  { destruct (s_last_bcast s) as [[]|]; inversion H; subst; split; reflexivity. }
  destruct Hi as [-> ->].
  destruct (iin1_class_bits (s_restart_iin s) c1 c2 c3
              (match s_last_bcast s with Some _ => true | None => false end)
              (N.testbit a 0) (N.testbit a 1) (N.testbit a 2)) as (B1 & B2 & B3).
  repeat split; auto. apply iin2_overflow_bit.
Qed.

Lemma or_iin_bits r iin1 iin2 :
  clean r ->
  N.testbit (r_iin1 (or_iin r (iin1, iin2))) 1 = N.testbit iin1 1 /\
  N.testbit (r_iin1 (or_iin r (iin1, iin2))) 2 = N.testbit iin1 2 /\
  N.testbit (r_iin1 (or_iin r (iin1, iin2))) 3 = N.testbit iin1 3 /\
  N.testbit (r_iin2 (or_iin r (iin1, iin2))) 3 = N.testbit iin2 3.
Proof.
  intros [H1 H2]. unfold or_iin. cbn [r_iin1 r_iin2 fst snd]. rewrite H1.
  rewrite N.lor_0_l, N.lor_spec, H2. auto.
Qed.

(* the two fields of a state that response_iin and bcast_reported leave alone *)
Lemma response_iin_pd s s1 iin o : response_iin s = (s1, iin, o) ->
  s_pending s1 = s_pending s /\ s_deferred s1 = s_deferred s.
Proof.
  unfold response_iin, ask_evinfo.
  destruct (s_answers s) as [|[] rest]; prj; destruct (s_last_bcast s) as [[]|]; intros H; inversion H; subst; prj; auto.
Qed.

Lemma bcast_reported_pd s c :
  s_pending (bcast_reported s c) = s_pending s /\ s_deferred (bcast_reported s c) = s_deferred s /\
  s_answers (bcast_reported s c) = s_answers s.
Proof. unfold bcast_reported. destruct (s_last_bcast s) as [[]|]; prj; auto. Qed.

(* response_iin when the head of the answers is not an AEvinfo *)
Lemma response_iin_missing s s1 iin o :
  head_not_ev (s_answers s) -> response_iin s = (s1, iin, o) ->
  o = [ODb DbEvinfo; OMissingAnswer] /\ s_answers s1 = s_answers s.
Proof.
  unfold response_iin, ask_evinfo. intros Hh.
  destruct (s_answers s) as [|[] rest] eqn:Ea; try contradiction;
    prj; destruct (s_last_bcast s) as [[]|]; intros H; inversion H; subst; prj; auto.
Qed.

Lemma head_ev_dec (a : list answer) :
  (exists c1 c2 c3 v rest, a = AEvinfo c1 c2 c3 v :: rest) \/ head_not_ev a.
Proof. destruct a as [|[] rest]; cbn; eauto 10. Qed.

Lemma write_solicited_T s dest r s' r' o :
  clean r -> write_solicited s dest r = (s', r', o) -> T s o s'.
Proof.
  intros Hr. unfold write_solicited.
  destruct (response_iin s) as [[s1 [iin1 iin2]] o1] eqn:E.
  pose proof (response_iin_pd _ _ _ _ E) as [P1 P2].
  intros H. inversion H; subst; clear H.
  match goal with |- T s _ (bcast_reported ?s0 ?c0) => destruct (bcast_reported_pd s0 c0) as (Q1 & Q2 & Q3) end.
  repeat split; try congruence.
  rewrite Q3.
  destruct (head_ev_dec (s_answers s)) as [(c1 & c2 & c3 & v & rest & Ha)|Hh].
  - eapply response_iin_bits in E; [|exact Ha].
    destruct E as (-> & Hs1 & B1 & B2 & B3 & B4).
    destruct (or_iin_bits r iin1 iin2 Hr) as (R1 & R2 & R3 & R4).
    rewrite Ha, Hs1. cbn [app]. apply Tr_ev; [|apply Tr_nil].
    unfold iin_ok, class_bits, overflow_bit, response_bytes. cbn [nth app].
    destruct (s_last_bcast s1) as [[]|]; cbn [with_ctl r_iin1 r_iin2];
      rewrite R1, R2, R3, R4, B1, B2, B3, B4; auto.
  - eapply response_iin_missing in E; [|exact Hh]. destruct E as [-> Hs1].
    rewrite Hs1. cbn [app]. apply Tr_miss; [exact Hh|apply Tr_nil].
Qed.

Lemma write_unsolicited_T cfg s r s' r' o :
  clean r -> write_unsolicited cfg s r = (s', r', o) -> T s o s'.
Proof.
  intros Hr. unfold write_unsolicited.
  destruct (response_iin s) as [[s1 [iin1 iin2]] o1] eqn:E.
  pose proof (response_iin_pd _ _ _ _ E) as [P1 P2].
  intros H. inversion H; subst; clear H.
  match goal with |- T s _ (bcast_reported ?s0 ?c0) => destruct (bcast_reported_pd s0 c0) as (Q1 & Q2 & Q3) end.
  repeat split; try congruence.
  rewrite Q3.
  destruct (head_ev_dec (s_answers s)) as [(c1 & c2 & c3 & v & rest & Ha)|Hh].
  - eapply response_iin_bits in E; [|exact Ha].
    destruct E as (-> & Hs1 & B1 & B2 & B3 & B4).
    destruct (or_iin_bits r iin1 iin2 Hr) as (R1 & R2 & R3 & R4).
    rewrite Ha, Hs1. cbn [app]. apply Tr_ev; [|apply Tr_nil].
    unfold iin_ok, class_bits, overflow_bit, response_bytes. cbn [nth app].
    rewrite R1, R2, R3, R4, B1, B2, B3, B4; auto.
  - eapply response_iin_missing in E; [|exact Hh]. destruct E as [-> Hs1].
    rewrite Hs1. cbn [app]. apply Tr_miss; [exact Hh|apply Tr_nil].
Qed.

Lemma clean_empty seq v : sm v -> clean (empty_solicited seq v).
Proof. intros H. split; [reflexivity|exact H]. Qed.

Lemma write_error_response_T s from bc seq s' o :
  write_error_response s from bc seq = (s', o) -> T s o s'.
Proof.
  unfold write_error_response. destruct bc as [m|]; [intros H; inversion H; subst; apply T_nil|].
  destruct seq as [q|]; [|intros H; inversion H; subst; apply T_nil].
  destruct (write_solicited s from (empty_solicited q iin2_no_func)) as [[s1 r1] o1] eqn:E.
  intros H; inversion H; subst. eapply write_solicited_T; [|exact E]. apply clean_empty. reflexivity.
Qed.
