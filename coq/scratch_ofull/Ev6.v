From Dnp3V Require Import Outstation.Session Outstation.SessionLemmas_c14.
From Dnp3V Require Import scratch_ofull.Ev1 scratch_ofull.Ev2 scratch_ofull.Ev3 scratch_ofull.Ev4 scratch_ofull.Ev5.
Import ListNotations.
Open Scope N_scope.
Local Opaque N.lor.

Definition PL (o : list oobs) : Prop := Forall (fun x => is_ev x = false) o.

Lemma PL_app a b : PL a -> PL b -> PL (a ++ b).
Proof. intros. apply Forall_app. auto. Qed.

Lemma process_broadcast_Hf cfg s m fid ctl fn bytes obj s1 o :
  process_broadcast cfg s m fid ctl fn bytes obj = (s1, o) -> Hf s o s1.
Proof.
  intros H. pose proof (process_broadcast_spec _ _ _ _ _ _ _ _ _ _ H) as (G & _ & _).
  apply gview_pd in G. destruct G as [G1 G2].
  assert (Hx : s_answers s1 = s_answers s /\ PL o).
  2:{ destruct Hx. repeat split; auto. }
  revert H. unfold process_broadcast.
  set (s0 := upd_bcast_rep (upd_last_bcast s (Some m)) None).
  assert (A0 : s_answers s0 = s_answers s) by reflexivity.
  destruct (negb (o_broadcast cfg)).
  { intros H; inj H. split; [exact A0|]. unfold PL. plain_tac. }
  destruct obj as [iin2|hdrs rh].
  { intros H; inj H. split; [exact A0|]. unfold PL. plain_tac. }
  cbv zeta.
  destruct (fn =? fn_write).
  { destruct (handle_write_headers cfg s0 hdrs) as [[s2 v] o2] eqn:E.
    pose proof (handle_write_headers_ans _ _ _ _ _ _ E) as [Ea _].
    apply handle_write_headers_out in E. intros H; inj H.
    split; [congruence|]. apply PL_app; [apply Forall_exob_plain; exact E|unfold PL; plain_tac]. }
  destruct (fn =? fn_direct_operate_nr).
  { destruct (handle_controls cfg s0 fn (ctl_seq ctl) fid bytes hdrs) as [[s2 r2] o2] eqn:E.
    pose proof (handle_controls_ans _ _ _ _ _ _ _ _ _ _ E) as [Ea _].
    apply handle_controls_out in E. destruct E as [E _]. intros H; inj H.
    split; [congruence|]. apply PL_app; [apply Forall_exob_plain; exact E|unfold PL; plain_tac]. }
  destruct (fn =? fn_immediate_freeze_nr).
  { destruct (handle_freeze cfg 0 hdrs) as [v o2] eqn:E. apply handle_freeze_out in E. intros H; inj H.
    split; [exact A0|]. apply PL_app; [apply Forall_exob_plain; exact E|unfold PL; plain_tac]. }
  destruct (fn =? fn_freeze_clear_nr).
  { destruct (handle_freeze cfg 1 hdrs) as [v o2] eqn:E. apply handle_freeze_out in E. intros H; inj H.
    split; [exact A0|]. apply PL_app; [apply Forall_exob_plain; exact E|unfold PL; plain_tac]. }
  destruct (fn =? fn_freeze_at_time_nr).
  { destruct (handle_freeze_at_time cfg None hdrs) as [v o2] eqn:E. apply handle_freeze_at_time_out in E. intros H; inj H.
    split; [exact A0|]. apply PL_app; [apply Forall_exob_plain; exact E|unfold PL; plain_tac]. }
  destruct (fn =? fn_record_time).
  { intros H; inj H. split; [reflexivity|]. unfold PL; plain_tac. }
  destruct (fn =? fn_disable_unsol).
  { destruct (enable_disable cfg s0 false (ctl_seq ctl) hdrs) as [s2 r2] eqn:E. apply enable_disable_ans in E.
    destruct E as [Ea _]. intros H; inj H. split; [congruence|]. unfold PL; plain_tac. }
  destruct (fn =? fn_enable_unsol).
  { destruct (enable_disable cfg s0 true (ctl_seq ctl) hdrs) as [s2 r2] eqn:E. apply enable_disable_ans in E.
    destruct E as [Ea _]. intros H; inj H. split; [congruence|]. unfold PL; plain_tac. }
  intros H; inj H. split; [exact A0|]. unfold PL; plain_tac.
Qed.
