From Dnp3V Require Import Outstation.Session Outstation.SessionLemmas_c14 Outstation.SessionLemmas_c12.
From Dnp3V Require Import scratch_ofull.Ev1 scratch_ofull.Ev2 scratch_ofull.Ev3 scratch_ofull.Ev4 scratch_ofull.Ev5 scratch_ofull.Ev6 scratch_ofull.Ev7 scratch_ofull.Ev8 scratch_ofull.Ev9.
Import ListNotations.
Open Scope N_scope.
Local Opaque N.lor.

Lemma R_upd_l s0 s o s' : s_answers s0 = s_answers s -> R s o s' -> R s0 o s'.
Proof. intros E [A B]. split; [rewrite E; exact A|exact B]. Qed.

Lemma small_pending_digest s from bc bytes d fid :
  small s -> s_pending s = Some (from, bc, bytes, d, fid) -> sm_digest d.
Proof. intros [_ [H _]] E. rewrite E in H. exact H. Qed.

Lemma idle_run_R cfg : forall f st s s' o, small s -> idle_run f cfg st s = (s', o) -> R s o s'.
Proof.
  induction f as [|f IH]; intros st s s' o Hs H; cbn [idle_run] in H.
  - inj H. apply R_plain; [exact Hs|unfold PL; plain_tac].
  - destruct st as [| |ns|ns].
    + (* St1 *)
      assert (H1 : forall s1 o1,
                 match s_pending s with
                 | Some (from, bc, bytes, d, fid) => handle_from_idle cfg (upd_pending s None) from bc bytes d fid
                 | None => (s, [])
                 end = (s1, o1) -> R s o1 s1).
      { intros s1 o1. destruct (s_pending s) as [[[[[from bc] bytes] d] fid]|] eqn:Ep.
        - intros E. apply handle_from_idle_T in E.
          + apply R_upd_l with (s := upd_pending s None); [reflexivity|].
            apply R_of_T; [apply small_upd_pending_none; exact Hs|exact E].
          + eapply small_pending_digest; eauto.
          + destruct Hs as [A _]. exact A.
        - intros E; inj E. apply R_refl. exact Hs. }
      destruct (match s_pending s with Some _ => _ | None => _ end) as [s1 o1] eqn:E1.
      specialize (H1 _ _ eq_refl).
      destruct (s_control s1).
      * destruct (idle_run f cfg St2 s1) as [s2 o2] eqn:E2. inj H.
        apply IH in E2; [|eapply R_small; eauto]. eapply R_trans; eauto.
      * inj H. exact H1.
      * inj H. exact H1.
    + (* St2 *)
      destruct (check_unsolicited cfg s) as [[s2 b] o2] eqn:E2.
      apply check_unsolicited_T in E2. apply (R_of_T _ _ _ Hs) in E2.
      pose proof (R_small _ _ _ E2) as Hs2.
      destruct (s_control s2) as [|se dl r|resp is_null retries dl].
      * destruct (idle_run f cfg (St3 false) s2) as [s3 o3] eqn:E3. inj H.
        apply IH in E3; [|exact Hs2]. eapply R_trans; eauto.
      * inj H. exact E2.
      * destruct (s_pending s2) as [[[[[from bc] bytes] d] fid]|] eqn:Ep; [|inj H; exact E2].
        destruct (unsol_wait_fragment cfg (upd_pending s2 None) resp from bc bytes d fid) as [[s3 res] o3] eqn:E3.
        apply unsol_wait_fragment_R in E3;
          [|apply small_upd_pending_none; exact Hs2|eapply small_pending_digest; eauto].
        apply R_upd_l with (s0 := s2) in E3; [|reflexivity].
        destruct res as [r|].
        -- destruct (end_unsol cfg s3 is_null r) as [[s4 ns] o4] eqn:E4.
           apply end_unsol_Hf in E4. apply Hf_T in E4. apply (R_of_T _ _ _ (R_small _ _ _ E3)) in E4.
           destruct (idle_run f cfg (St3 ns) s4) as [s5 o5] eqn:E5. inj H.
           apply IH in E5; [|eapply R_small; eauto].
           eapply R_trans; [exact E2|]. eapply R_trans; [exact E3|]. eapply R_trans; eauto.
        -- inj H. eapply R_trans; eauto.
    + (* St3 *)
      destruct (handle_deferred cfg s ns) as [s3 o3] eqn:E3. apply handle_deferred_R in E3; [|exact Hs].
      destruct (s_control s3).
      * destruct (idle_run f cfg (St4 ns) s3) as [s4 o4] eqn:E4. inj H.
        apply IH in E4; [|eapply R_small; eauto]. eapply R_trans; eauto.
      * inj H. exact E3.
      * inj H. exact E3.
    + (* St4 *)
      destruct (s_pending s) as [p|] eqn:Ep; [eapply IH; eauto|].
      destruct ns; [eapply IH; eauto|].
      destruct (s_notify s); [|inj H; apply R_refl; exact Hs].
      apply IH in H.
      * apply R_upd_l with (s := upd_notify s false); [reflexivity|exact H].
      * destruct Hs as [A [B C]]. split; [exact A|]. split; prj; auto.
Qed.
