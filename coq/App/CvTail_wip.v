From Dnp3V Require Import Base.Bytes gen.Conversions App.FloatBits App.Convert App.FloatBitsProofs App.ConvertProofs.
Open Scope N_scope.

(* ---- events: every event reaches the handler with its own index, flags, value and absolute time ---- *)
Definition event_time_result (r : recipe) (m : cmeas) : option (tq * N) :=
  match rc_to_time r with
  | None => None
  | Some ToTimeInto => Some (Sync, time_stamp (cm_time m))
  | Some ToTimeCto => Some (event_time m)
  end.

Definition event_result (r : recipe) (m : cmeas) : cmeas :=
  mk_cmeas (narrowed_value r m) (narrowed_flags r m) (event_time_result r m) [].

(* an event of one of the event variations of outstation/database/details/event/traits.rs *)
Definition ev_wf (e : cpoint) : Prop :=
  exists t c, In (t, cp_group e, cp_var e, c) event_vars /\ wf_meas t (cp_meas e).

Definition ev_expect (e : cpoint) : otype * N * cmeas :=
  match find_recipe (cp_group e) (cp_var e) with
  | Some r => (OT (rc_type r), cp_idx e, event_result r (cp_meas e))
  | None => (OOct, cp_idx e, cp_meas e)
  end.

Lemma event_var_facts t g v c : In (t, g, v, c) event_vars ->
  exists r ie hf, find_recipe g v = Some r /\ In r recipes /\ rc_type r = t /\
    find_info prefixed_info g v = Some (t, ie, hf) /\ uses_cto g v = c /\
    (rc_to_time r = Some ToTimeCto <-> c = true) /\ is_octets g = false /\ (g =? 111) = false.
Proof.
  intros Hin. unfold event_vars in Hin. cbn [In] in Hin.
  repeat (destruct Hin as [E|Hin]; [
    injection E as <- <- <- <-;
    match goal with |- exists r ie hf, find_recipe ?g ?v = _ /\ _ =>
      let x := eval vm_compute in (find_recipe g v) in
      match x with Some ?r => exists r end
    end;
    match goal with |- exists ie hf, _ /\ _ /\ _ /\ find_info prefixed_info ?g ?v = _ /\ _ =>
      let x := eval vm_compute in (find_info prefixed_info g v) in
      match x with Some (_, ?ie, ?hf) => exists ie, hf end
    end;
    split; [vm_compute; reflexivity|];
    split; [vm_compute; tauto|];
    split; [reflexivity|];
    split; [vm_compute; reflexivity|];
    split; [vm_compute; reflexivity|];
    split; [cbn [rc_to_time]; split; congruence|];
    split; vm_compute; reflexivity
  |]).
  contradiction.
Qed.
