(* App/FloatBitsFlocq.v — the bit-level f64 -> f32 conversion of App/FloatBits.v against Flocq 4.1
   (IEEE754.Binary / IEEE754.Bits).  This is the only file of property C10 that imports Flocq (and with
   it the axioms of the classical real numbers); nothing in App/ConvertProofs.v depends on it. *)
From Coq Require Import ZArith NArith List Bool.
From Flocq Require Import Core.Core IEEE754.BinarySingleNaN IEEE754.Binary IEEE754.Bits.
From Dnp3V Require Import Base.Bytes App.FloatBits.
Open Scope N_scope.

(* `value as f32` computed by Flocq: decode the binary64 pattern, round its (mantissa, exponent) to
   binary32 in mode round-to-nearest-even with binary_normalize, encode the result *)
Definition flocq_f64_to_f32 (b : N) : N :=
  match b64_of_bits (Z.of_N b) with
  | B754_finite _ _ s m e _ =>
      Z.to_N (bits_of_b32 (binary_normalize 24 128 (eq_refl Lt) (eq_refl Lt) mode_NE (cond_Zopp s (Zpos m)) e s))
  | B754_zero _ _ s => if s then p31 else 0
  | B754_infinity _ _ s => (if s then p31 else 0) + fb32_inf_mag
  | B754_nan _ _ _ _ _ => 0
  end.

(* mantissa patterns at every boundary of the rounding: all zero, lowest bit, just below / at / just above
   the half of the 29 dropped bits (with the kept part even and odd), all ones, the carry into the
   exponent, the largest mantissas (carry into the exponent, ties at the top) and a few arbitrary ones *)
Definition mant_samples : list N :=
  [0; 1; 268435455; 268435456; 268435457; 536870912; 805306367; 805306368; 805306369;
   2251799813685248; 4503599627370495; 4503599090499584; 4503599358935040; 4503599358935039;
   4503599358935041; 3002399751580330; 1501199875790165; 123456789012345].

(* to_f32_is_rounding_partial.  FULL STATEMENT (not proved):
     forall b, b < 2^64 -> fb64_exp b < 2047 -> fb64_to_f32 b = flocq_f64_to_f32 b
   i.e. for every finite binary64 pattern the bit-level function is Flocq's binary_normalize to
   binary32 under mode_NE (overflow to infinity included), hence the IEEE-754 rounding of the real value.
   PROVED: the equality by evaluation (vm_compute of both sides)
     - for every exponent field 840..2046 (everything that rounds to a non-zero binary32, normal or
       subnormal, the binade of f32::MAX and all overflowing binades) x both signs x the 35 mantissa
       patterns above (84 490 patterns),
     - for every exponent field 0..839 (f64 subnormals and values far below the smallest binary32
       subnormal: all round to +-0) x both signs x 3 mantissas.
   MISSING: the symbolic proof for the remaining mantissas (it needs Flocq's shr_fexp_truncate /
   truncate / new_location unfolded against rne_shift). *)
Lemma to_f32_is_rounding_partial :
  forallb (fun e => forallb (fun m => forallb (fun s =>
     fb64_to_f32 (s * p63 + (840 + e) * p52 + m) =? flocq_f64_to_f32 (s * p63 + (840 + e) * p52 + m)) [0; 1])
     mant_samples) (nrange 1207) = true /\
  forallb (fun e => forallb (fun m => forallb (fun s =>
     fb64_to_f32 (s * p63 + e * p52 + m) =? flocq_f64_to_f32 (s * p63 + e * p52 + m)) [0; 1])
     [0; 1; 4503599627370495]) (nrange 840) = true.
Proof. split; vm_compute; reflexivity. Qed.
