(* App/FloatBitsProofs.v — bit-level facts about App/FloatBits.v.  No real numbers and no Flocq in this
   file (App/FloatBitsFlocq.v relates fb64_to_f32 to Flocq's rounding): everything here is axiom free. *)
From Dnp3V Require Import Base.Bytes App.FloatBits.
Open Scope N_scope.

Lemma In_nrange' n i : i < N.of_nat n -> In i (nrange n).
Proof.
  intros H. unfold nrange. apply in_map_iff. exists (N.to_nat i). split; [lia|].
  apply in_seq. lia.
Qed.

Lemma forallb_nrange' (f : N -> bool) n :
  forallb f (nrange n) = true -> forall i, i < N.of_nat n -> f i = true.
Proof. intros H i Hi. rewrite forallb_forall in H. apply H, In_nrange', Hi. Qed.

Lemma lor_lt_pow2 a b n : a < 2 ^ n -> b < 2 ^ n -> N.lor a b < 2 ^ n.
Proof.
  intros Ha Hb.
  destruct (N.eq_dec (N.lor a b) 0) as [E|E].
  - rewrite E. apply N.neq_0_lt_0. apply N.pow_nonzero. lia.
  - apply N.log2_lt_pow2; [lia|].
    rewrite N.log2_lor.
    destruct (N.eq_dec a 0) as [Ea|Ea]; destruct (N.eq_dec b 0) as [Eb|Eb]; subst.
    + cbn in E. congruence.
    + rewrite N.max_r by (cbn; lia). apply N.log2_lt_pow2; lia.
    + rewrite N.max_l by (cbn; lia). apply N.log2_lt_pow2; lia.
    + apply N.max_lub_lt; apply N.log2_lt_pow2; lia.
Qed.

(* ---- decomposition of a pattern --------------------------------------------------------------- *)
Lemma fb64_decompose b : b < p64 ->
  b = fb64_sign b * p63 + fb64_exp b * p52 + fb64_mant b /\ fb64_sign b < 2 /\ fb64_exp b < 2048 /\ fb64_mant b < p52.
Proof. unfold fb64_sign, fb64_exp, fb64_mant, p64, p63, p52. intros H. lia. Qed.

Lemma fb64_fields_of s e m : s < 2 -> e < 2048 -> m < p52 ->
  fb64_sign (s * p63 + e * p52 + m) = s /\ fb64_exp (s * p63 + e * p52 + m) = e /\
  fb64_mant (s * p63 + e * p52 + m) = m /\ fb64_mag (s * p63 + e * p52 + m) = e * p52 + m.
Proof. unfold fb64_sign, fb64_exp, fb64_mant, fb64_mag, p63, p52. intros. lia. Qed.

Lemma fb64_sign_lt2 b : fb64_sign b < 2.
Proof. unfold fb64_sign. lia. Qed.

Lemma fb32_sign_lt2 b : fb32_sign b < 2.
Proof. unfold fb32_sign. lia. Qed.

(* ---- f64 -> f32 stays within 32 bits ------------------------------------------------------------ *)
Lemma fb64_to_f32_bound b : fb64_to_f32 b < p32.
Proof.
  unfold fb64_to_f32.
  pose proof (fb64_sign_lt2 b) as Hs.
  destruct (fb64_is_nan b).
  - assert (H : N.lor fb32_quiet (fb64_mant b / p29) < 2 ^ 23).
    { apply lor_lt_pow2; [vm_compute; reflexivity|]. unfold fb64_mant, p52, p29. change (2 ^ 23) with 8388608. lia. }
    change (2 ^ 23) with 8388608 in H. unfold p31, p32, fb32_inf_mag. lia.
  - destruct (fb64_is_inf b); [unfold p31, p32, fb32_inf_mag; lia|].
    match goal with |- context [if ?c then _ else _] => destruct c eqn:E end.
    + unfold p31, p32, fb32_inf_mag; lia.
    + apply N.leb_gt in E. unfold p31, p32, fb32_inf_mag in *. lia.
Qed.

(* ---- integers as f64 ---------------------------------------------------------------------------- *)
Lemma log2_bounds n : 0 < n -> 2 ^ N.log2 n <= n < 2 ^ N.succ (N.log2 n).
Proof. intros H. apply N.log2_spec. exact H. Qed.

Lemma scaled_sig_bounds n : 0 < n -> n < 2 * p52 ->
  N.log2 n <= 52 /\ p52 <= n * 2 ^ (52 - N.log2 n) < 2 * p52.
Proof.
  intros Hpos Hlt.
  pose proof (log2_bounds n Hpos) as [Hlo Hhi].
  assert (Hk : N.log2 n <= 52).
  { destruct (N.le_gt_cases (N.log2 n) 52) as [H|H]; auto.
    assert (2 ^ 53 <= 2 ^ N.log2 n) by (apply N.pow_le_mono_r; lia).
    change (2 ^ 53) with (2 * p52) in H0. lia. }
  split; [exact Hk|].
  set (k := N.log2 n) in *.
  assert (HP : 2 ^ k * 2 ^ (52 - k) = p52).
  { rewrite <- N.pow_add_r. replace (k + (52 - k)) with 52 by lia. reflexivity. }
  assert (HPpos : 0 < 2 ^ (52 - k)) by (apply N.neq_0_lt_0, N.pow_nonzero; lia).
  rewrite N.pow_succ_r' in Hhi.
  split.
  - rewrite <- HP. apply N.mul_le_mono_r. exact Hlo.
  - replace (2 * p52) with ((2 * 2 ^ k) * 2 ^ (52 - k)) by (rewrite <- HP; lia).
    apply N.mul_lt_mono_pos_r; assumption.
Qed.

Definition magbits (n : N) : N := (1023 + N.log2 n) * p52 + (n * 2 ^ (52 - N.log2 n) - p52).

Lemma fb64_of_Z_shape z : z <> 0%Z -> (Z.abs z < 9007199254740992)%Z ->
  fb64_of_Z z = (if (z <? 0)%Z then 1 else 0) * p63 + magbits (Z.abs_N z).
Proof.
  intros Hz _. unfold fb64_of_Z, magbits. destruct z; try congruence; cbn [Z.ltb Z.compare]; lia.
Qed.

Lemma magbits_fields n s : 0 < n -> n < 2 * p52 -> s < 2 ->
  let b := s * p63 + magbits n in
  fb64_sign b = s /\ fb64_exp b = 1023 + N.log2 n /\ fb64_mant b = n * 2 ^ (52 - N.log2 n) - p52 /\
  fb64_mag b = magbits n /\ b < p64.
Proof.
  intros Hpos Hlt Hs b.
  pose proof (scaled_sig_bounds n Hpos Hlt) as (Hk & Hlo & Hhi).
  set (M := n * 2 ^ (52 - N.log2 n)) in *.
  assert (Hm : M - p52 < p52) by lia.
  assert (He : 1023 + N.log2 n < 2048) by lia.
  pose proof (fb64_fields_of s (1023 + N.log2 n) (M - p52) Hs He Hm) as (H1 & H2 & H3 & H4).
  unfold b, magbits. fold M.
  rewrite N.add_assoc. repeat split; auto.
  unfold p64, p63, p52 in *. lia.
Qed.

Lemma magbits_mono n1 n2 : 0 < n1 -> n1 <= n2 -> n2 < 2 * p52 -> magbits n1 <= magbits n2.
Proof.
  intros Hpos Hle Hlt.
  assert (Hpos2 : 0 < n2) by lia.
  pose proof (scaled_sig_bounds n1 Hpos ltac:(lia)) as (Hk1 & Hlo1 & Hhi1).
  pose proof (scaled_sig_bounds n2 Hpos2 Hlt) as (Hk2 & Hlo2 & Hhi2).
  pose proof (N.log2_le_mono n1 n2 Hle) as Hk.
  unfold magbits.
  destruct (N.eq_dec (N.log2 n1) (N.log2 n2)) as [E|E].
  - rewrite E in *.
    assert (n1 * 2 ^ (52 - N.log2 n2) <= n2 * 2 ^ (52 - N.log2 n2)) by (apply N.mul_le_mono_r; exact Hle).
    lia.
  - assert (N.log2 n1 + 1 <= N.log2 n2) by lia.
    assert ((1023 + N.log2 n1 + 1) * p52 <= (1023 + N.log2 n2) * p52) by (apply N.mul_le_mono_r; lia).
    lia.
Qed.

Lemma magbits_pos n : 0 < n -> n < 2 * p52 -> 0 < magbits n.
Proof. intros H1 H2. unfold magbits, p52. lia. Qed.

Lemma fb64_key_of_Z z : (Z.abs z < 9007199254740992)%Z ->
  fb64_key (fb64_of_Z z) =
  match z with Z0 => 0%Z | Zpos _ => Z.of_N (magbits (Z.abs_N z)) | Zneg _ => (- Z.of_N (magbits (Z.abs_N z)))%Z end.
Proof.
  intros Hb. destruct z as [|p|p].
  - reflexivity.
  - rewrite fb64_of_Z_shape by (auto; discriminate). cbn [Z.ltb Z.compare].
    assert (H0 : 0 < Z.abs_N (Z.pos p)) by (cbn; lia).
    assert (H1 : Z.abs_N (Z.pos p) < 2 * p52) by (unfold p52; lia).
    pose proof (magbits_fields _ 0 H0 H1 ltac:(lia)) as (Hs & _ & _ & Hm & _). cbv zeta in *.
    unfold fb64_key. rewrite Hs, Hm. reflexivity.
  - rewrite fb64_of_Z_shape by (auto; discriminate). cbn [Z.ltb Z.compare].
    assert (H0 : 0 < Z.abs_N (Z.neg p)) by (cbn; lia).
    assert (H1 : Z.abs_N (Z.neg p) < 2 * p52) by (unfold p52; lia).
    pose proof (magbits_fields _ 1 H0 H1 ltac:(lia)) as (Hs & _ & _ & Hm & _). cbv zeta in *.
    unfold fb64_key. rewrite Hs, Hm. reflexivity.
Qed.

Lemma fb64_key_of_Z_mono z1 z2 : (z1 <= z2)%Z ->
  (Z.abs z1 < 9007199254740992)%Z -> (Z.abs z2 < 9007199254740992)%Z ->
  (fb64_key (fb64_of_Z z1) <= fb64_key (fb64_of_Z z2))%Z.
Proof.
  intros Hle H1 H2. rewrite !fb64_key_of_Z by assumption.
  destruct z1 as [|p1|p1]; destruct z2 as [|p2|p2]; try lia.
  - assert (magbits (Z.abs_N (Z.pos p1)) <= magbits (Z.abs_N (Z.pos p2))).
    { apply magbits_mono; cbn [Z.abs_N Z.abs] in *; unfold p52; lia. }
    lia.
  - assert (magbits (Z.abs_N (Z.neg p2)) <= magbits (Z.abs_N (Z.neg p1))).
    { apply magbits_mono; cbn [Z.abs_N Z.abs] in *; unfold p52; lia. }
    lia.
Qed.

Lemma fb64_of_Z_lt_p64 z : (Z.abs z < 9007199254740992)%Z -> fb64_of_Z z < p64.
Proof.
  intros Hb. destruct (Z.eq_dec z 0) as [->|Hz]; [vm_compute; reflexivity|].
  rewrite fb64_of_Z_shape by assumption.
  assert (H0 : 0 < Z.abs_N z) by lia.
  assert (H1 : Z.abs_N z < 2 * p52) by (unfold p52; lia).
  destruct (z <? 0)%Z.
  - pose proof (magbits_fields _ 1 H0 H1 ltac:(lia)) as (_ & _ & _ & _ & H). exact H.
  - pose proof (magbits_fields _ 0 H0 H1 ltac:(lia)) as (_ & _ & _ & _ & H). exact H.
Qed.

(* an integer below 2^52 in magnitude survives the conversion to f64 and the truncation back *)
Lemma fb64_of_Z_finite_trunc z : (Z.abs z < 4503599627370496)%Z ->
  fb64_is_nan (fb64_of_Z z) = false /\ fb64_is_inf (fb64_of_Z z) = false /\ fb64_trunc (fb64_of_Z z) = z.
Proof.
  intros Hb. destruct (Z.eq_dec z 0) as [->|Hz]; [vm_compute; auto|].
  rewrite fb64_of_Z_shape by (auto; lia).
  assert (H0 : 0 < Z.abs_N z) by lia.
  assert (H1 : Z.abs_N z < p52) by (unfold p52; lia).
  set (n := Z.abs_N z) in *.
  set (s := if (z <? 0)%Z then 1 else 0).
  assert (Hs : s < 2) by (unfold s; destruct (z <? 0)%Z; lia).
  pose proof (magbits_fields n s H0 ltac:(lia) Hs) as (Es & Ee & Em & _ & _). cbv zeta in *.
  pose proof (scaled_sig_bounds n H0 ltac:(lia)) as (Hk & Hlo & Hhi).
  assert (Hk51 : N.log2 n <= 51).
  { destruct (N.le_gt_cases (N.log2 n) 51) as [H|H]; auto.
    pose proof (log2_bounds n H0) as [Hl _].
    assert (2 ^ 52 <= 2 ^ N.log2 n) by (apply N.pow_le_mono_r; lia).
    change (2 ^ 52) with p52 in H2. lia. }
  unfold fb64_is_nan, fb64_is_inf, fb64_trunc, fb64_trunc_mag, fb64_sig, fb64_e.
  rewrite Es, Ee, Em.
  replace (1023 + N.log2 n =? 2047) with false by (symmetry; apply N.eqb_neq; lia).
  replace (1023 + N.log2 n =? 0) with false by (symmetry; apply N.eqb_neq; lia).
  cbn [andb]. repeat split.
  rewrite N.max_l by lia.
  replace (1075 <=? 1023 + N.log2 n) with false by (symmetry; apply N.leb_gt; lia).
  replace (p52 + (n * 2 ^ (52 - N.log2 n) - p52)) with (n * 2 ^ (52 - N.log2 n)) by lia.
  replace (1075 - (1023 + N.log2 n)) with (52 - N.log2 n) by lia.
  rewrite N.div_mul by (apply N.pow_nonzero; lia).
  unfold s, n. destruct z; cbn; try congruence; lia.
Qed.

(* ---- a value that passes the range checks is converted without clamping -------------------------- *)
Lemma div_pow2_le x a b : a <= b -> x / 2 ^ b <= x / 2 ^ a.
Proof.
  intros H. apply N.div_le_compat_l. split.
  - apply N.neq_0_lt_0, N.pow_nonzero. lia.
  - apply N.pow_le_mono_r; lia.
Qed.

Lemma fb64_mag_fields b : fb64_mag b = fb64_exp b * p52 + fb64_mant b.
Proof. unfold fb64_mag, fb64_exp, fb64_mant, p63, p52. lia. Qed.

Lemma trunc_mag_bound b E Mmax B :
  2 <= E -> E < 1075 -> Mmax < p52 ->
  fb64_mag b <= E * p52 + Mmax ->
  (p52 + Mmax) / 2 ^ (1075 - E) <= B -> (2 * p52 - 1) / 2 ^ (1075 - E + 1) <= B ->
  fb64_exp b <= E /\ fb64_trunc_mag b <= B.
Proof.
  intros HE2 HE HM Hmag HB1 HB2.
  rewrite fb64_mag_fields in Hmag.
  assert (Hm : fb64_mant b < p52) by (unfold fb64_mant, p52; lia).
  assert (He : fb64_exp b <= E).
  { destruct (N.le_gt_cases (fb64_exp b) E) as [H|H]; auto.
    assert ((E + 1) * p52 <= fb64_exp b * p52) by (apply N.mul_le_mono_r; lia). lia. }
  split; [exact He|].
  unfold fb64_trunc_mag, fb64_sig, fb64_e.
  destruct (N.eq_dec (fb64_exp b) E) as [Ee|Ee].
  - rewrite Ee. replace (E =? 0) with false by (symmetry; apply N.eqb_neq; lia).
    rewrite N.max_l by lia.
    replace (1075 <=? E) with false by (symmetry; apply N.leb_gt; lia).
    rewrite Ee in Hmag.
    etransitivity; [|exact HB1].
    apply N.div_le_mono; [apply N.pow_nonzero; lia|lia].
  - assert (Hlt : N.max (fb64_exp b) 1 <= E - 1) by lia.
    replace (1075 <=? N.max (fb64_exp b) 1) with false by (symmetry; apply N.leb_gt; lia).
    set (sig := if fb64_exp b =? 0 then fb64_mant b else p52 + fb64_mant b).
    assert (Hsig : sig <= 2 * p52 - 1) by (unfold sig; destruct (fb64_exp b =? 0); unfold p52 in *; lia).
    etransitivity; [apply (div_pow2_le sig (1075 - E + 1)); lia|].
    etransitivity; [|exact HB2].
    apply N.div_le_mono; [apply N.pow_nonzero; lia|exact Hsig].
Qed.

Lemma unguarded_in_range v (cmin cmax : N) (lo hi : Z) Emax Mmax Emin :
  fb64_is_nan cmin = false -> fb64_is_nan cmax = false ->
  fb64_key cmax = Z.of_N (Emax * p52 + Mmax) -> fb64_key cmin = (- Z.of_N (Emin * p52))%Z ->
  2 <= Emax -> Emax < 1075 -> Mmax < p52 -> 2 <= Emin -> Emin < 1075 ->
  (p52 + Mmax) / 2 ^ (1075 - Emax) <= Z.to_N hi -> (2 * p52 - 1) / 2 ^ (1075 - Emax + 1) <= Z.to_N hi ->
  p52 / 2 ^ (1075 - Emin) <= Z.to_N (- lo) -> (2 * p52 - 1) / 2 ^ (1075 - Emin + 1) <= Z.to_N (- lo) ->
  (lo <= 0 <= hi)%Z ->
  fb64_is_nan v = false -> fb64_lt v cmin = false -> fb64_gt v cmax = false ->
  fb64_is_inf v = false /\ (lo <= fb64_trunc v <= hi)%Z.
Proof.
  intros Hn1 Hn2 Kmax Kmin HE2 HE HM HF2 HF Hb1 Hb2 Hb3 Hb4 Hlohi Hnan Hlt Hgt.
  unfold fb64_gt, fb64_lt in *. rewrite Hnan, ?Hn1, ?Hn2 in *. cbn [negb andb] in *.
  apply Z.ltb_ge in Hlt. apply Z.ltb_ge in Hgt. rewrite Kmin in Hlt. rewrite Kmax in Hgt.
  unfold fb64_key in Hlt, Hgt. unfold fb64_trunc, fb64_is_inf.
  destruct (fb64_sign v =? 0) eqn:Es.
  - assert (Hmag : fb64_mag v <= Emax * p52 + Mmax) by lia.
    destruct (trunc_mag_bound v Emax Mmax (Z.to_N hi) HE2 HE HM Hmag Hb1 Hb2) as [He Ht].
    replace (fb64_exp v =? 2047) with false by (symmetry; apply N.eqb_neq; lia).
    split; [reflexivity|]. lia.
  - assert (Hmag : fb64_mag v <= Emin * p52 + 0) by lia.
    destruct (trunc_mag_bound v Emin 0 (Z.to_N (- lo)) HF2 HF ltac:(unfold p52; lia) Hmag
                ltac:(rewrite N.add_0_r; exact Hb3) Hb4) as [He Ht].
    replace (fb64_exp v =? 2047) with false by (symmetry; apply N.eqb_neq; lia).
    split; [reflexivity|]. lia.
Qed.

Lemma unguarded_i16 v : fb64_is_nan v = false ->
  fb64_lt v fb64_i16_min = false -> fb64_gt v fb64_i16_max = false ->
  fb64_is_inf v = false /\ (-32768 <= fb64_trunc v <= 32767)%Z.
Proof.
  apply (unguarded_in_range v fb64_i16_min fb64_i16_max (-32768) 32767 1037 4502500115742720 1038);
    try (vm_compute; reflexivity); try (vm_compute; congruence); lia.
Qed.

Lemma unguarded_i32 v : fb64_is_nan v = false ->
  fb64_lt v fb64_i32_min = false -> fb64_gt v fb64_i32_max = false ->
  fb64_is_inf v = false /\ (-2147483648 <= fb64_trunc v <= 2147483647)%Z.
Proof.
  apply (unguarded_in_range v fb64_i32_min fb64_i32_max (-2147483648) 2147483647 1053 4503599623176192 1054);
    try (vm_compute; reflexivity); try (vm_compute; congruence); lia.
Qed.

(* the constants of the range checks are the bounds of the target types *)
Lemma range_constants :
  fb64_i16_min = fb64_of_Z (-32768) /\ fb64_i16_max = fb64_of_Z 32767 /\
  fb64_i32_min = fb64_of_Z (-2147483648) /\ fb64_i32_max = fb64_of_Z 2147483647 /\
  fb64_f32_min = fb32_to_f64 fb32_min_bits /\ fb64_f32_max = fb32_to_f64 fb32_max_bits.
Proof. vm_compute. repeat split; reflexivity. Qed.

(* an integer within the bounds passes the range checks and is converted exactly *)
Lemma int_exact_i16 z : (-32768 <= z <= 32767)%Z ->
  fb64_is_nan (fb64_of_Z z) = false /\ fb64_lt (fb64_of_Z z) fb64_i16_min = false /\
  fb64_gt (fb64_of_Z z) fb64_i16_max = false /\ fb64_to_int (-32768) 32767 (fb64_of_Z z) = z.
Proof.
  intros Hz.
  destruct (fb64_of_Z_finite_trunc z ltac:(lia)) as (Hn & Hi & Ht).
  destruct range_constants as (E1 & E2 & _).
  repeat split; auto.
  - unfold fb64_lt. rewrite Hn. cbn [negb andb]. apply andb_false_iff. right.
    apply Z.ltb_ge. rewrite E1. apply fb64_key_of_Z_mono; lia.
  - unfold fb64_gt, fb64_lt. rewrite Hn. rewrite andb_true_r. apply andb_false_iff. right.
    apply Z.ltb_ge. rewrite E2. apply fb64_key_of_Z_mono; lia.
  - unfold fb64_to_int. rewrite Hn, Hi, Ht. lia.
Qed.

Lemma int_exact_i32 z : (-2147483648 <= z <= 2147483647)%Z ->
  fb64_is_nan (fb64_of_Z z) = false /\ fb64_lt (fb64_of_Z z) fb64_i32_min = false /\
  fb64_gt (fb64_of_Z z) fb64_i32_max = false /\ fb64_to_int (-2147483648) 2147483647 (fb64_of_Z z) = z.
Proof.
  intros Hz.
  destruct (fb64_of_Z_finite_trunc z ltac:(lia)) as (Hn & Hi & Ht).
  destruct range_constants as (_ & _ & E1 & E2 & _).
  repeat split; auto.
  - unfold fb64_lt. rewrite Hn. cbn [negb andb]. apply andb_false_iff. right.
    apply Z.ltb_ge. rewrite E1. apply fb64_key_of_Z_mono; lia.
  - unfold fb64_gt, fb64_lt. rewrite Hn. rewrite andb_true_r. apply andb_false_iff. right.
    apply Z.ltb_ge. rewrite E2. apply fb64_key_of_Z_mono; lia.
  - unfold fb64_to_int. rewrite Hn, Hi, Ht. lia.
Qed.
