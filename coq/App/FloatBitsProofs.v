(* App/FloatBitsProofs.v — bit-level facts about App/FloatBits.v.  No real numbers and no Flocq in this
   file (App/FloatBitsFlocq.v relates fb64_to_f32 to Flocq's rounding): everything here is axiom free. *)
From Dnp3V Require Import Base.Bytes App.FloatBits.
Open Scope N_scope.

Lemma In_nrange' n i : i < N.of_nat n -> In i (nrange n).
Proof.
  intros H. unfold nrange. apply in_map_iff. exists (N.to_nat i). split; [lia|].
  apply in_seq. lia.
Qed.

Lemma forallb_nrange' (f : N -> bool) n :
  forallb f (nrange n) = true -> forall i, i < N.of_nat n -> f i = true.
Proof. intros H i Hi. rewrite forallb_forall in H. apply H, In_nrange', Hi. Qed.

Lemma lor_lt_pow2 a b n : a < 2 ^ n -> b < 2 ^ n -> N.lor a b < 2 ^ n.
Proof.
  intros Ha Hb.
  destruct (N.eq_dec (N.lor a b) 0) as [E|E].
  - rewrite E. apply N.neq_0_lt_0. apply N.pow_nonzero. lia.
  - apply N.log2_lt_pow2; [lia|].
    rewrite N.log2_lor.
    destruct (N.eq_dec a 0) as [Ea|Ea]; destruct (N.eq_dec b 0) as [Eb|Eb]; subst.
    + cbn in E. congruence.
    + rewrite N.max_r by (cbn; lia). apply N.log2_lt_pow2; lia.
    + rewrite N.max_l by (cbn; lia). apply N.log2_lt_pow2; lia.
    + apply N.max_lub_lt; apply N.log2_lt_pow2; lia.
Qed.

(* ---- decomposition of a pattern --------------------------------------------------------------- *)
Lemma fb64_decompose b : b < p64 ->
  b = fb64_sign b * p63 + fb64_exp b * p52 + fb64_mant b /\ fb64_sign b < 2 /\ fb64_exp b < 2048 /\ fb64_mant b < p52.
Proof. unfold fb64_sign, fb64_exp, fb64_mant, p64, p63, p52. intros H. lia. Qed.

Lemma fb64_fields_of s e m : s < 2 -> e < 2048 -> m < p52 ->
  fb64_sign (s * p63 + e * p52 + m) = s /\ fb64_exp (s * p63 + e * p52 + m) = e /\
  fb64_mant (s * p63 + e * p52 + m) = m /\ fb64_mag (s * p63 + e * p52 + m) = e * p52 + m.
Proof. unfold fb64_sign, fb64_exp, fb64_mant, fb64_mag, p63, p52. intros. lia. Qed.

Lemma fb64_sign_lt2 b : fb64_sign b < 2.
Proof. unfold fb64_sign. lia. Qed.

Lemma fb32_sign_lt2 b : fb32_sign b < 2.
Proof. unfold fb32_sign. lia. Qed.

(* ---- f64 -> f32 stays within 32 bits ------------------------------------------------------------ *)
Lemma fb64_to_f32_bound b : fb64_to_f32 b < p32.
Proof.
  unfold fb64_to_f32.
  pose proof (fb64_sign_lt2 b) as Hs.
  destruct (fb64_is_nan b).
  - assert (H : N.lor fb32_quiet (fb64_mant b / p29) < 2 ^ 23).
    { apply lor_lt_pow2; [vm_compute; reflexivity|]. unfold fb64_mant, p52, p29. change (2 ^ 23) with 8388608. lia. }
    change (2 ^ 23) with 8388608 in H. unfold p31, p32, fb32_inf_mag. lia.
  - destruct (fb64_is_inf b); [unfold p31, p32, fb32_inf_mag; lia|].
    match goal with |- context [if ?c then _ else _] => destruct c eqn:E end.
    + unfold p31, p32, fb32_inf_mag; lia.
    + apply N.leb_gt in E. unfold p31, p32, fb32_inf_mag in *. lia.
Qed.

(* ---- integers as f64 ---------------------------------------------------------------------------- *)
Lemma log2_bounds n : 0 < n -> 2 ^ N.log2 n <= n < 2 ^ N.succ (N.log2 n).
Proof. intros H. apply N.log2_spec. exact H. Qed.

Lemma scaled_sig_bounds n : 0 < n -> n < 2 * p52 ->
  N.log2 n <= 52 /\ p52 <= n * 2 ^ (52 - N.log2 n) < 2 * p52.
Proof.
  intros Hpos Hlt.
  pose proof (log2_bounds n Hpos) as [Hlo Hhi].
  assert (Hk : N.log2 n <= 52).
  { destruct (N.le_gt_cases (N.log2 n) 52) as [H|H]; auto.
    assert (2 ^ 53 <= 2 ^ N.log2 n) by (apply N.pow_le_mono_r; lia).
    change (2 ^ 53) with (2 * p52) in H0. lia. }
  split; [exact Hk|].
  set (k := N.log2 n) in *.
  assert (HP : 2 ^ k * 2 ^ (52 - k) = p52).
  { rewrite <- N.pow_add_r. replace (k + (52 - k)) with 52 by lia. reflexivity. }
  assert (HPpos : 0 < 2 ^ (52 - k)) by (apply N.neq_0_lt_0, N.pow_nonzero; lia).
  rewrite N.pow_succ_r' in Hhi.
  split.
  - rewrite <- HP. apply N.mul_le_mono_r. exact Hlo.
  - replace (2 * p52) with ((2 * 2 ^ k) * 2 ^ (52 - k)) by (rewrite <- HP; lia).
    apply N.mul_lt_mono_pos_r; assumption.
Qed.

Definition magbits (n : N) : N := (1023 + N.log2 n) * p52 + (n * 2 ^ (52 - N.log2 n) - p52).

Lemma fb64_of_Z_shape z : z <> 0%Z -> (Z.abs z < 9007199254740992)%Z ->
  fb64_of_Z z = (if (z <? 0)%Z then 1 else 0) * p63 + magbits (Z.abs_N z).
Proof.
  intros Hz _. unfold fb64_of_Z, magbits. destruct z; try congruence; cbn [Z.ltb Z.compare]; lia.
Qed.

Lemma magbits_fields n s : 0 < n -> n < 2 * p52 -> s < 2 ->
  let b := s * p63 + magbits n in
  fb64_sign b = s /\ fb64_exp b = 1023 + N.log2 n /\ fb64_mant b = n * 2 ^ (52 - N.log2 n) - p52 /\
  fb64_mag b = magbits n /\ b < p64.
Proof.
  intros Hpos Hlt Hs b.
  pose proof (scaled_sig_bounds n Hpos Hlt) as (Hk & Hlo & Hhi).
  set (M := n * 2 ^ (52 - N.log2 n)) in *.
  assert (Hm : M - p52 < p52) by lia.
  assert (He : 1023 + N.log2 n < 2048) by lia.
  pose proof (fb64_fields_of s (1023 + N.log2 n) (M - p52) Hs He Hm) as (H1 & H2 & H3 & H4).
  unfold b, magbits. fold M.
  rewrite N.add_assoc. repeat split; auto.
  unfold p64, p63, p52 in *. lia.
Qed.

Lemma magbits_mono n1 n2 : 0 < n1 -> n1 <= n2 -> n2 < 2 * p52 -> magbits n1 <= magbits n2.
Proof.
  intros Hpos Hle Hlt.
  assert (Hpos2 : 0 < n2) by lia.
  pose proof (scaled_sig_bounds n1 Hpos ltac:(lia)) as (Hk1 & Hlo1 & Hhi1).
  pose proof (scaled_sig_bounds n2 Hpos2 Hlt) as (Hk2 & Hlo2 & Hhi2).
  pose proof (N.log2_le_mono n1 n2 Hle) as Hk.
  unfold magbits.
  destruct (N.eq_dec (N.log2 n1) (N.log2 n2)) as [E|E].
  - rewrite E in *.
    assert (n1 * 2 ^ (52 - N.log2 n2) <= n2 * 2 ^ (52 - N.log2 n2)) by (apply N.mul_le_mono_r; exact Hle).
    lia.
  - assert (N.log2 n1 + 1 <= N.log2 n2) by lia.
    assert ((1023 + N.log2 n1 + 1) * p52 <= (1023 + N.log2 n2) * p52) by (apply N.mul_le_mono_r; lia).
    lia.
Qed.

Lemma magbits_pos n : 0 < n -> n < 2 * p52 -> 0 < magbits n.
Proof. intros H1 H2. unfold magbits, p52. lia. Qed.

Lemma fb64_key_of_Z z : (Z.abs z < 9007199254740992)%Z ->
  fb64_key (fb64_of_Z z) =
  match z with Z0 => 0%Z | Zpos _ => Z.of_N (magbits (Z.abs_N z)) | Zneg _ => (- Z.of_N (magbits (Z.abs_N z)))%Z end.
Proof.
  intros Hb. destruct z as [|p|p].
  - reflexivity.
  - rewrite fb64_of_Z_shape by (auto; discriminate). cbn [Z.ltb Z.compare].
    assert (H0 : 0 < Z.abs_N (Z.pos p)) by (cbn; lia).
    assert (H1 : Z.abs_N (Z.pos p) < 2 * p52) by (unfold p52; lia).
    pose proof (magbits_fields _ 0 H0 H1 ltac:(lia)) as (Hs & _ & _ & Hm & _). cbv zeta in *.
    unfold fb64_key. rewrite Hs, Hm. reflexivity.
  - rewrite fb64_of_Z_shape by (auto; discriminate). cbn [Z.ltb Z.compare].
    assert (H0 : 0 < Z.abs_N (Z.neg p)) by (cbn; lia).
    assert (H1 : Z.abs_N (Z.neg p) < 2 * p52) by (unfold p52; lia).
    pose proof (magbits_fields _ 1 H0 H1 ltac:(lia)) as (Hs & _ & _ & Hm & _). cbv zeta in *.
    unfold fb64_key. rewrite Hs, Hm. reflexivity.
Qed.

Lemma fb64_key_of_Z_mono z1 z2 : (z1 <= z2)%Z ->
  (Z.abs z1 < 9007199254740992)%Z -> (Z.abs z2 < 9007199254740992)%Z ->
  (fb64_key (fb64_of_Z z1) <= fb64_key (fb64_of_Z z2))%Z.
Proof.
  intros Hle H1 H2. rewrite !fb64_key_of_Z by assumption.
  destruct z1 as [|p1|p1]; destruct z2 as [|p2|p2]; try lia.
  - assert (magbits (Z.abs_N (Z.pos p1)) <= magbits (Z.abs_N (Z.pos p2))).
    { apply magbits_mono; cbn [Z.abs_N Z.abs] in *; unfold p52; lia. }
    lia.
  - assert (magbits (Z.abs_N (Z.neg p2)) <= magbits (Z.abs_N (Z.neg p1))).
    { apply magbits_mono; cbn [Z.abs_N Z.abs] in *; unfold p52; lia. }
    lia.
Qed.

Lemma fb64_of_Z_lt_p64 z : (Z.abs z < 9007199254740992)%Z -> fb64_of_Z z < p64.
Proof.
  intros Hb. destruct (Z.eq_dec z 0) as [->|Hz]; [vm_compute; reflexivity|].
  rewrite fb64_of_Z_shape by assumption.
  assert (H0 : 0 < Z.abs_N z) by lia.
  assert (H1 : Z.abs_N z < 2 * p52) by (unfold p52; lia).
  destruct (z <? 0)%Z.
  - pose proof (magbits_fields _ 1 H0 H1 ltac:(lia)) as (_ & _ & _ & _ & H). exact H.
  - pose proof (magbits_fields _ 0 H0 H1 ltac:(lia)) as (_ & _ & _ & _ & H). exact H.
Qed.

(* an integer below 2^52 in magnitude survives the conversion to f64 and the truncation back *)
Lemma fb64_of_Z_finite_trunc z : (Z.abs z < 4503599627370496)%Z ->
  fb64_is_nan (fb64_of_Z z) = false /\ fb64_is_inf (fb64_of_Z z) = false /\ fb64_trunc (fb64_of_Z z) = z.
Proof.
  intros Hb. destruct (Z.eq_dec z 0) as [->|Hz]; [vm_compute; auto|].
  rewrite fb64_of_Z_shape by (auto; lia).
  assert (H0 : 0 < Z.abs_N z) by lia.
  assert (H1 : Z.abs_N z < p52) by (unfold p52; lia).
  set (n := Z.abs_N z) in *.
  set (s := if (z <? 0)%Z then 1 else 0).
  assert (Hs : s < 2) by (unfold s; destruct (z <? 0)%Z; lia).
  pose proof (magbits_fields n s H0 ltac:(lia) Hs) as (Es & Ee & Em & _ & _). cbv zeta in *.
  pose proof (scaled_sig_bounds n H0 ltac:(lia)) as (Hk & Hlo & Hhi).
  assert (Hk51 : N.log2 n <= 51).
  { destruct (N.le_gt_cases (N.log2 n) 51) as [H|H]; auto.
    pose proof (log2_bounds n H0) as [Hl _].
    assert (2 ^ 52 <= 2 ^ N.log2 n) by (apply N.pow_le_mono_r; lia).
    change (2 ^ 52) with p52 in H2. lia. }
  unfold fb64_is_nan, fb64_is_inf, fb64_trunc, fb64_trunc_mag, fb64_sig, fb64_e.
  rewrite Es, Ee, Em.
  replace (1023 + N.log2 n =? 2047) with false by (symmetry; apply N.eqb_neq; lia).
  replace (1023 + N.log2 n =? 0) with false by (symmetry; apply N.eqb_neq; lia).
  cbn [andb]. repeat split.
  rewrite N.max_l by lia.
  replace (1075 <=? 1023 + N.log2 n) with false by (symmetry; apply N.leb_gt; lia).
  replace (p52 + (n * 2 ^ (52 - N.log2 n) - p52)) with (n * 2 ^ (52 - N.log2 n)) by lia.
  replace (1075 - (1023 + N.log2 n)) with (52 - N.log2 n) by lia.
  rewrite N.div_mul by (apply N.pow_nonzero; lia).
  unfold s, n. destruct z; cbn; try congruence; lia.
Qed.

(* ---- a value that passes the range checks is converted without clamping -------------------------- *)
Lemma div_pow2_le x a b : a <= b -> x / 2 ^ b <= x / 2 ^ a.
Proof.
  intros H. apply N.div_le_compat_l. split.
  - apply N.neq_0_lt_0, N.pow_nonzero. lia.
  - apply N.pow_le_mono_r; lia.
Qed.

Lemma fb64_mag_fields b : fb64_mag b = fb64_exp b * p52 + fb64_mant b.
Proof. unfold fb64_mag, fb64_exp, fb64_mant, p63, p52. lia. Qed.

Lemma trunc_mag_bound b E Mmax B :
  2 <= E -> E < 1075 -> Mmax < p52 ->
  fb64_mag b <= E * p52 + Mmax ->
  (p52 + Mmax) / 2 ^ (1075 - E) <= B -> (2 * p52 - 1) / 2 ^ (1075 - E + 1) <= B ->
  fb64_exp b <= E /\ fb64_trunc_mag b <= B.
Proof.
  intros HE2 HE HM Hmag HB1 HB2.
  rewrite fb64_mag_fields in Hmag.
  assert (Hm : fb64_mant b < p52) by (unfold fb64_mant, p52; lia).
  assert (He : fb64_exp b <= E).
  { destruct (N.le_gt_cases (fb64_exp b) E) as [H|H]; auto.
    assert ((E + 1) * p52 <= fb64_exp b * p52) by (apply N.mul_le_mono_r; lia). lia. }
  split; [exact He|].
  unfold fb64_trunc_mag, fb64_sig, fb64_e.
  destruct (N.eq_dec (fb64_exp b) E) as [Ee|Ee].
  - rewrite Ee. replace (E =? 0) with false by (symmetry; apply N.eqb_neq; lia).
    rewrite N.max_l by lia.
    replace (1075 <=? E) with false by (symmetry; apply N.leb_gt; lia).
    rewrite Ee in Hmag.
    etransitivity; [|exact HB1].
    apply N.div_le_mono; [apply N.pow_nonzero; lia|lia].
  - assert (Hlt : N.max (fb64_exp b) 1 <= E - 1) by lia.
    replace (1075 <=? N.max (fb64_exp b) 1) with false by (symmetry; apply N.leb_gt; lia).
    set (sig := if fb64_exp b =? 0 then fb64_mant b else p52 + fb64_mant b).
    assert (Hsig : sig <= 2 * p52 - 1) by (unfold sig; destruct (fb64_exp b =? 0); unfold p52 in *; lia).
    etransitivity; [apply (div_pow2_le sig (1075 - E + 1)); lia|].
    etransitivity; [|exact HB2].
    apply N.div_le_mono; [apply N.pow_nonzero; lia|exact Hsig].
Qed.

Lemma unguarded_in_range v (cmin cmax : N) (lo hi : Z) Emax Mmax Emin :
  fb64_is_nan cmin = false -> fb64_is_nan cmax = false ->
  fb64_key cmax = Z.of_N (Emax * p52 + Mmax) -> fb64_key cmin = (- Z.of_N (Emin * p52))%Z ->
  2 <= Emax -> Emax < 1075 -> Mmax < p52 -> 2 <= Emin -> Emin < 1075 ->
  (p52 + Mmax) / 2 ^ (1075 - Emax) <= Z.to_N hi -> (2 * p52 - 1) / 2 ^ (1075 - Emax + 1) <= Z.to_N hi ->
  p52 / 2 ^ (1075 - Emin) <= Z.to_N (- lo) -> (2 * p52 - 1) / 2 ^ (1075 - Emin + 1) <= Z.to_N (- lo) ->
  (lo <= 0 <= hi)%Z ->
  fb64_is_nan v = false -> fb64_lt v cmin = false -> fb64_gt v cmax = false ->
  fb64_is_inf v = false /\ (lo <= fb64_trunc v <= hi)%Z.
Proof.
  intros Hn1 Hn2 Kmax Kmin HE2 HE HM HF2 HF Hb1 Hb2 Hb3 Hb4 Hlohi Hnan Hlt Hgt.
  unfold fb64_gt, fb64_lt in *. rewrite Hnan, ?Hn1, ?Hn2 in *. cbn [negb andb] in *.
  apply Z.ltb_ge in Hlt. apply Z.ltb_ge in Hgt. rewrite Kmin in Hlt. rewrite Kmax in Hgt.
  unfold fb64_key in Hlt, Hgt. unfold fb64_trunc, fb64_is_inf.
  destruct (fb64_sign v =? 0) eqn:Es.
  - assert (Hmag : fb64_mag v <= Emax * p52 + Mmax) by (clear - Hgt Es; lia).
    destruct (trunc_mag_bound v Emax Mmax (Z.to_N hi) HE2 HE HM Hmag Hb1 Hb2) as [He Ht].
    replace (fb64_exp v =? 2047) with false by (symmetry; apply N.eqb_neq; clear - He HE; lia).
    split; [reflexivity|]. clear - Ht Hlohi. lia.
  - assert (Hmag : fb64_mag v <= Emin * p52 + 0) by (clear - Hlt Es; lia).
    destruct (trunc_mag_bound v Emin 0 (Z.to_N (- lo)) HF2 HF ltac:(unfold p52; lia) Hmag
                ltac:(rewrite N.add_0_r; exact Hb3) Hb4) as [He Ht].
    replace (fb64_exp v =? 2047) with false by (symmetry; apply N.eqb_neq; clear - He HF; lia).
    split; [reflexivity|]. clear - Ht Hlohi. lia.
Qed.

Lemma unguarded_i16 v : fb64_is_nan v = false ->
  fb64_lt v fb64_i16_min = false -> fb64_gt v fb64_i16_max = false ->
  fb64_is_inf v = false /\ (-32768 <= fb64_trunc v <= 32767)%Z.
Proof.
  apply (unguarded_in_range v fb64_i16_min fb64_i16_max (-32768) 32767 1037 4503324749463552 1038);
    try (vm_compute; reflexivity); try (vm_compute; congruence); lia.
Qed.

Lemma unguarded_i32 v : fb64_is_nan v = false ->
  fb64_lt v fb64_i32_min = false -> fb64_gt v fb64_i32_max = false ->
  fb64_is_inf v = false /\ (-2147483648 <= fb64_trunc v <= 2147483647)%Z.
Proof.
  apply (unguarded_in_range v fb64_i32_min fb64_i32_max (-2147483648) 2147483647 1053 4503599623176192 1054);
    try (vm_compute; reflexivity); try (vm_compute; congruence); lia.
Qed.

(* the constants of the range checks are the bounds of the target types *)
Lemma range_constants :
  fb64_i16_min = fb64_of_Z (-32768) /\ fb64_i16_max = fb64_of_Z 32767 /\
  fb64_i32_min = fb64_of_Z (-2147483648) /\ fb64_i32_max = fb64_of_Z 2147483647 /\
  fb64_f32_min = fb32_to_f64 fb32_min_bits /\ fb64_f32_max = fb32_to_f64 fb32_max_bits.
Proof. vm_compute. repeat split; reflexivity. Qed.

(* an integer within the bounds passes the range checks and is converted exactly *)
Lemma int_exact_i16 z : (-32768 <= z <= 32767)%Z ->
  fb64_is_nan (fb64_of_Z z) = false /\ fb64_lt (fb64_of_Z z) fb64_i16_min = false /\
  fb64_gt (fb64_of_Z z) fb64_i16_max = false /\ fb64_to_int (-32768) 32767 (fb64_of_Z z) = z.
Proof.
  intros Hz.
  destruct (fb64_of_Z_finite_trunc z ltac:(lia)) as (Hn & Hi & Ht).
  destruct range_constants as (E1 & E2 & _).
  repeat split; auto.
  - unfold fb64_lt. rewrite Hn. cbn [negb andb]. apply andb_false_iff. right.
    apply Z.ltb_ge. rewrite E1. apply fb64_key_of_Z_mono; lia.
  - unfold fb64_gt, fb64_lt. rewrite Hn. rewrite andb_true_r. apply andb_false_iff. right.
    apply Z.ltb_ge. rewrite E2. apply fb64_key_of_Z_mono; lia.
  - unfold fb64_to_int. rewrite Hn, Hi, Ht. lia.
Qed.

Lemma int_exact_i32 z : (-2147483648 <= z <= 2147483647)%Z ->
  fb64_is_nan (fb64_of_Z z) = false /\ fb64_lt (fb64_of_Z z) fb64_i32_min = false /\
  fb64_gt (fb64_of_Z z) fb64_i32_max = false /\ fb64_to_int (-2147483648) 2147483647 (fb64_of_Z z) = z.
Proof.
  intros Hz.
  destruct (fb64_of_Z_finite_trunc z ltac:(lia)) as (Hn & Hi & Ht).
  destruct range_constants as (_ & _ & E1 & E2 & _).
  repeat split; auto.
  - unfold fb64_lt. rewrite Hn. cbn [negb andb]. apply andb_false_iff. right.
    apply Z.ltb_ge. rewrite E1. apply fb64_key_of_Z_mono; lia.
  - unfold fb64_gt, fb64_lt. rewrite Hn. rewrite andb_true_r. apply andb_false_iff. right.
    apply Z.ltb_ge. rewrite E2. apply fb64_key_of_Z_mono; lia.
  - unfold fb64_to_int. rewrite Hn, Hi, Ht. lia.
Qed.

(* ---- binary32 -------------------------------------------------------------------------------------- *)
Lemma fb32_decompose x : x < p32 ->
  x = fb32_sign x * p31 + fb32_exp x * p23 + fb32_mant x /\ fb32_sign x < 2 /\ fb32_exp x < 256 /\ fb32_mant x < p23.
Proof. unfold fb32_sign, fb32_exp, fb32_mant, p32, p31, p23. intros H. lia. Qed.

Lemma rne_exact q s : 0 < s -> rne_shift (q * 2 ^ s) s = q.
Proof.
  intros Hs. unfold rne_shift. destruct s as [|p]; [lia|].
  assert (Hp : 2 ^ N.pos p <> 0) by (apply N.pow_nonzero; lia).
  rewrite N.div_mul, N.mod_mul by exact Hp.
  assert (Hh : 0 < 2 ^ (N.pos p - 1)) by (apply N.neq_0_lt_0, N.pow_nonzero; lia).
  replace (2 ^ (N.pos p - 1) <? 0) with false by (symmetry; apply N.ltb_ge; lia).
  replace (0 =? 2 ^ (N.pos p - 1)) with false by (symmetry; apply N.eqb_neq; lia).
  reflexivity.
Qed.

Lemma rne_le_succ m s : rne_shift m s <= m / 2 ^ s + 1.
Proof.
  unfold rne_shift. destruct s as [|p]; [cbn; rewrite N.div_1_r; lia|].
  match goal with |- context [if ?c then _ else _] => destruct c end; lia.
Qed.

(* widening an f32 and narrowing it again is the identity on every finite pattern; the widened value
   passes the range checks of to_f32 *)
Lemma f32_round_trip x : x < p32 -> fb32_exp x < 255 ->
  fb64_to_f32 (fb32_to_f64 x) = x /\ fb64_is_nan (fb32_to_f64 x) = false /\
  fb64_lt (fb32_to_f64 x) fb64_f32_min = false /\ fb64_gt (fb32_to_f64 x) fb64_f32_max = false.
Proof.
  intros Hx He.
  destruct (fb32_decompose x Hx) as (Hdec & Hs & _ & Hm).
  set (s := fb32_sign x) in *. set (e := fb32_exp x) in *. set (m := fb32_mant x) in *.
  (* the widened pattern as sign/exponent/mantissa *)
  assert (Hw : exists E M, fb32_to_f64 x = s * p63 + E * p52 + M /\ E < 2047 /\ M < p52 /\
            (E * p52 + M <= 1150 * p52 + (p23 - 1) * p29) /\
            fb64_to_f32 (s * p63 + E * p52 + M) = x).
  { unfold fb32_to_f64. fold s e m.
    replace (e =? 255) with false by (symmetry; apply N.eqb_neq; lia).
    destruct (e =? 0) eqn:Ee0.
    - apply N.eqb_eq in Ee0.
      destruct (m =? 0) eqn:Em0.
      + apply N.eqb_eq in Em0. exists 0, 0. rewrite !N.mul_0_l, !N.add_0_r.
        repeat split; try (unfold p52, p23, p29; lia).
        unfold fb64_to_f32.
        destruct (fb64_fields_of s 0 0 Hs ltac:(lia) ltac:(unfold p52; lia)) as (F1 & F2 & F3 & _).
        rewrite !N.mul_0_l, !N.add_0_r in *.
        unfold fb64_is_nan, fb64_is_inf, fb64_sig, fb64_e. rewrite F1, F2, F3. cbn [N.eqb andb negb N.max N.leb N.compare].
        change (1 ?= 897) with Lt. cbv iota.
        replace (rne_shift 0 (29 + (897 - 1))) with 0 by (vm_compute; reflexivity).
        cbn. rewrite Hdec, Ee0, Em0. lia.
      + apply N.eqb_neq in Em0.
        assert (Hm0 : 0 < m) by lia.
        pose proof (scaled_sig_bounds m Hm0 ltac:(unfold p52, p23 in *; lia)) as (Hk & Hlo & Hhi).
        assert (Hk22 : N.log2 m <= 22).
        { destruct (N.le_gt_cases (N.log2 m) 22) as [H|H]; auto.
          pose proof (log2_bounds m Hm0) as [Hl _].
          assert (2 ^ 23 <= 2 ^ N.log2 m) by (apply N.pow_le_mono_r; lia).
          change (2 ^ 23) with p23 in H0. lia. }
        set (k := N.log2 m) in *.
        exists (874 + k), (m * 2 ^ (52 - k) - p52).
        assert (HM : m * 2 ^ (52 - k) - p52 < p52) by lia.
        assert (HE : 874 + k < 2048) by lia.
        split; [lia|]. split; [lia|]. split; [exact HM|]. split.
        { assert ((874 + k) * p52 <= 896 * p52) by (apply N.mul_le_mono_r; lia). unfold p52, p23, p29 in *. lia. }
        unfold fb64_to_f32.
        destruct (fb64_fields_of s (874 + k) _ Hs HE HM) as (F1 & F2 & F3 & _).
        unfold fb64_is_nan, fb64_is_inf, fb64_sig, fb64_e. rewrite F1, F2, F3.
        replace (874 + k =? 2047) with false by (symmetry; apply N.eqb_neq; lia).
        replace (874 + k =? 0) with false by (symmetry; apply N.eqb_neq; lia).
        cbn [andb]. rewrite N.max_l by lia.
        replace (897 <=? 874 + k) with false by (symmetry; apply N.leb_gt; lia).
        replace (p52 + (m * 2 ^ (52 - k) - p52)) with (m * 2 ^ (52 - k)) by lia.
        replace (29 + (897 - (874 + k))) with (52 - k) by lia.
        rewrite rne_exact by lia.
        replace ((1 - 1) * p23 + m) with m by lia.
        replace (fb32_inf_mag <=? m) with false by (symmetry; apply N.leb_gt; unfold fb32_inf_mag, p23 in *; lia).
        rewrite Hdec, Ee0. lia.
    - apply N.eqb_neq in Ee0.
      exists (e + 896), (m * p29).
      assert (HM : m * p29 < p52) by (unfold p29, p52, p23 in *; lia).
      assert (HE : e + 896 < 2048) by lia.
      split; [lia|]. split; [lia|]. split; [exact HM|]. split.
      { assert ((e + 896) * p52 <= 1150 * p52) by (apply N.mul_le_mono_r; lia).
        assert (m * p29 <= (p23 - 1) * p29) by (apply N.mul_le_mono_r; lia). lia. }
      unfold fb64_to_f32.
      destruct (fb64_fields_of s (e + 896) _ Hs HE HM) as (F1 & F2 & F3 & _).
      unfold fb64_is_nan, fb64_is_inf, fb64_sig, fb64_e. rewrite F1, F2, F3.
      replace (e + 896 =? 2047) with false by (symmetry; apply N.eqb_neq; lia).
      replace (e + 896 =? 0) with false by (symmetry; apply N.eqb_neq; lia).
      cbn [andb]. rewrite N.max_l by lia.
      replace (897 <=? e + 896) with true by (symmetry; apply N.leb_le; lia).
      replace (p52 + m * p29) with ((p23 + m) * 2 ^ 29) by (change (2 ^ 29) with p29; unfold p52, p23, p29; lia).
      rewrite rne_exact by lia.
      replace (e + 896 - 896) with e by lia.
      replace ((e - 1) * p23 + (p23 + m)) with (e * p23 + m) by (unfold p23; lia).
      replace (fb32_inf_mag <=? e * p23 + m) with false
        by (symmetry; apply N.leb_gt; unfold fb32_inf_mag, p23 in *; lia).
      lia. }
  destruct Hw as (E & M & Hw & HE & HM & Hmag & Hback).
  rewrite Hw.
  destruct (fb64_fields_of s E M Hs ltac:(lia) HM) as (F1 & F2 & F3 & F4).
  assert (Hnan : fb64_is_nan (s * p63 + E * p52 + M) = false).
  { unfold fb64_is_nan. rewrite F2. replace (E =? 2047) with false by (symmetry; apply N.eqb_neq; lia). reflexivity. }
  split; [exact Hback|]. split; [exact Hnan|].
  assert (Kmax : fb64_key fb64_f32_max = Z.of_N (1150 * p52 + (p23 - 1) * p29)) by (vm_compute; reflexivity).
  assert (Kmin : fb64_key fb64_f32_min = (- Z.of_N (1150 * p52 + (p23 - 1) * p29))%Z) by (vm_compute; reflexivity).
  unfold fb64_gt, fb64_lt. rewrite Hnan. cbn [negb andb].
  replace (fb64_is_nan fb64_f32_min) with false by (vm_compute; reflexivity).
  replace (fb64_is_nan fb64_f32_max) with false by (vm_compute; reflexivity).
  cbn [negb andb]. rewrite Kmax, Kmin. unfold fb64_key. rewrite F1, F4.
  split; apply Z.ltb_ge; destruct (s =? 0); lia.
Qed.

Lemma rne_29_bound sig : sig <= 16777215 * p29 -> rne_shift sig 29 <= 16777215.
Proof.
  intros H. unfold rne_shift.
  change (2 ^ 29) with 536870912. change (2 ^ (29 - 1)) with 268435456. unfold p29 in H.
  match goal with |- context [if ?c then _ else _] => destruct c eqn:E end; [|lia].
  apply orb_true_iff in E. destruct E as [E|E].
  - apply N.ltb_lt in E. lia.
  - apply andb_true_iff in E. destruct E as [E _]. apply N.eqb_eq in E. lia.
Qed.

(* a value that passes the range checks of to_f32 is rounded to a FINITE f32 (it cannot round up to
   infinity), with its sign *)
Lemma unguarded_f32 v : fb64_is_nan v = false ->
  fb64_lt v fb64_f32_min = false -> fb64_gt v fb64_f32_max = false ->
  fb32_exp (fb64_to_f32 v) < 255 /\ fb32_sign (fb64_to_f32 v) = fb64_sign v.
Proof.
  intros Hnan Hlt Hgt.
  assert (Kmax : fb64_key fb64_f32_max = Z.of_N (1150 * p52 + (p23 - 1) * p29)) by (vm_compute; reflexivity).
  assert (Kmin : fb64_key fb64_f32_min = (- Z.of_N (1150 * p52 + (p23 - 1) * p29))%Z) by (vm_compute; reflexivity).
  unfold fb64_gt, fb64_lt in Hlt, Hgt. rewrite Hnan in Hlt, Hgt.
  replace (fb64_is_nan fb64_f32_min) with false in Hlt by (vm_compute; reflexivity).
  replace (fb64_is_nan fb64_f32_max) with false in Hgt by (vm_compute; reflexivity).
  cbn [negb andb] in Hlt, Hgt. apply Z.ltb_ge in Hlt. apply Z.ltb_ge in Hgt.
  rewrite Kmin in Hlt. rewrite Kmax in Hgt. unfold fb64_key in Hlt, Hgt.
  assert (Hmag : fb64_mag v <= 1150 * p52 + (p23 - 1) * p29) by (destruct (fb64_sign v =? 0); lia).
  clear Hlt Hgt Kmax Kmin.
  rewrite fb64_mag_fields in Hmag.
  assert (Hm : fb64_mant v < p52) by (unfold fb64_mant, p52; lia).
  assert (He : fb64_exp v <= 1150).
  { destruct (N.le_gt_cases (fb64_exp v) 1150) as [H|H]; auto.
    assert (1151 * p52 <= fb64_exp v * p52) by (apply N.mul_le_mono_r; lia). unfold p52, p23, p29 in *. lia. }
  pose proof (fb64_sign_lt2 v) as Hs.
  unfold fb64_to_f32. rewrite Hnan.
  unfold fb64_is_inf. replace (fb64_exp v =? 2047) with false by (symmetry; apply N.eqb_neq; lia).
  cbn [andb].
  assert (Hsig : fb64_sig v < 2 * p52) by (unfold fb64_sig; destruct (fb64_exp v =? 0); unfold p52 in *; lia).
  set (mag32 := (_ - 1) * p23 + rne_shift (fb64_sig v) _).
  assert (Hb : mag32 < fb32_inf_mag).
  { unfold mag32, fb64_e.
    destruct (897 <=? N.max (fb64_exp v) 1) eqn:E897.
    - apply N.leb_le in E897.
      assert (Hexp : N.max (fb64_exp v) 1 = fb64_exp v) by lia. rewrite Hexp in *.
      destruct (N.eq_dec (fb64_exp v) 1150) as [E|E].
      + rewrite E in *.
        assert (Hs2 : fb64_sig v <= 16777215 * p29).
        { unfold fb64_sig. rewrite E. cbn [N.eqb]. unfold p52, p23, p29 in *. lia. }
        pose proof (rne_29_bound _ Hs2). unfold fb32_inf_mag, p23. lia.
      + pose proof (rne_le_succ (fb64_sig v) 29) as Hr. change (2 ^ 29) with p29 in Hr.
        assert (fb64_sig v / p29 <= 16777215) by (unfold p29, p52 in *; lia).
        assert ((fb64_exp v - 896 - 1) * p23 <= 252 * p23) by (apply N.mul_le_mono_r; lia).
        unfold fb32_inf_mag, p23 in *. lia.
    - apply N.leb_gt in E897.
      pose proof (rne_le_succ (fb64_sig v) (29 + (897 - N.max (fb64_exp v) 1))) as Hr.
      pose proof (div_pow2_le (fb64_sig v) 30 (29 + (897 - N.max (fb64_exp v) 1)) ltac:(lia)) as Hd.
      change (2 ^ 30) with 1073741824 in Hd.
      assert (fb64_sig v / 1073741824 <= 8388607) by (unfold p52 in *; lia).
      unfold fb32_inf_mag, p23. lia. }
  replace (fb32_inf_mag <=? mag32) with false by (symmetry; apply N.leb_gt; exact Hb).
  clearbody mag32. unfold fb32_exp, fb32_sign, fb32_inf_mag, p31, p23 in *. lia.
Qed.
