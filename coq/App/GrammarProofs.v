(* App/GrammarProofs.v — theorems about App/Grammar.v (under construction) *)
From Dnp3V Require Import App.Grammar.
Open Scope N_scope.

Lemma atake_zero l : atake l 0 = Some ([], l).
Proof. destruct l; reflexivity. Qed.
