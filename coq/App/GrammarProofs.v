(* App/GrammarProofs.v — theorems about App/Grammar.v.
   Part 1: cursor lemmas.  Part 2: the generated tables, by reflection (vm_compute over the finite tables,
   lifted with forallb_forall).  Part 3: a header is accepted iff the bytes present are exactly what it
   implies.  Part 4: fragments.  Part 5: iteration agrees with validation. *)
From Dnp3V Require Import App.Grammar.
Open Scope N_scope.

Definition abytes_ok (l : list N) : Prop := Forall (fun b => b < 256) l.

Lemma abytes_ok_app a b : abytes_ok (a ++ b) <-> abytes_ok a /\ abytes_ok b.
Proof. unfold abytes_ok. apply Forall_app. Qed.

(* ---------------------------------------------------------------------------------------------- *)
(* Part 1: cursor                                                                                  *)

Lemma atake_zero l : atake l 0 = Some ([], l).
Proof. destruct l; reflexivity. Qed.

Lemma atake_sound : forall l n a b, atake l n = Some (a, b) -> l = a ++ b /\ N.of_nat (length a) = n.
Proof.
  induction l as [|x l IH]; intros n a b H; cbn [atake] in H.
  - destruct (n =? 0) eqn:Hn; [|discriminate]. apply N.eqb_eq in Hn. inversion H; subst. split; reflexivity.
  - destruct (n =? 0) eqn:Hn.
    + apply N.eqb_eq in Hn. inversion H; subst. split; reflexivity.
    + apply N.eqb_neq in Hn. destruct (atake l (N.pred n)) as [[a' b']|] eqn:Ht; [|discriminate].
      inversion H; subst. destruct (IH _ _ _ Ht) as [Hl Hlen]. subst l. split; [reflexivity|].
      cbn [length]. lia.
Qed.

Lemma atake_complete : forall a b, atake (a ++ b) (N.of_nat (length a)) = Some (a, b).
Proof.
  induction a as [|x a IH]; intro b.
  - cbn [app length]. apply atake_zero.
  - cbn [app length atake]. destruct (N.of_nat (S (length a)) =? 0) eqn:Hn.
    + apply N.eqb_eq in Hn. lia.
    + replace (N.pred (N.of_nat (S (length a)))) with (N.of_nat (length a)) by lia. rewrite IH. reflexivity.
Qed.

Lemma atake_iff l n a b : atake l n = Some (a, b) <-> l = a ++ b /\ N.of_nat (length a) = n.
Proof.
  split; [apply atake_sound|]. intros [Hl Hn]. subst. apply atake_complete.
Qed.

Lemma atake_none l n : atake l n = None <-> N.of_nat (length l) < n.
Proof.
  revert n. induction l as [|x l IH]; intro n; cbn [atake length].
  - destruct (n =? 0) eqn:Hn; [apply N.eqb_eq in Hn|apply N.eqb_neq in Hn]; split; intro H; try discriminate; try lia; reflexivity.
  - destruct (n =? 0) eqn:Hn; [apply N.eqb_eq in Hn|apply N.eqb_neq in Hn].
    + split; intro H; [discriminate|lia].
    + destruct (atake l (N.pred n)) as [[a b]|] eqn:Ht.
      * split; intro H; [discriminate|]. apply atake_sound in Ht. destruct Ht as [Hl Hlen]. subst l.
        rewrite app_length in H. lia.
      * apply IH in Ht. split; intro H; [lia|reflexivity].
Qed.

(* enough bytes: the read succeeds *)
Lemma atake_enough l n : n <= N.of_nat (length l) -> exists a b, atake l n = Some (a, b).
Proof.
  intro H. destruct (atake l n) as [[a b]|] eqn:Ht; [eauto|]. apply atake_none in Ht. lia.
Qed.

Lemma ale_bytes_length k x : length (ale_bytes k x) = k.
Proof. revert x; induction k as [|k IH]; intro x; cbn [ale_bytes length]; [reflexivity|]. rewrite IH. reflexivity. Qed.

Lemma ale_bytes_ok k x : abytes_ok (ale_bytes k x).
Proof.
  revert x; induction k as [|k IH]; intro x; cbn [ale_bytes]; [constructor|].
  constructor; [|apply IH]. apply N.mod_lt. lia.
Qed.

Lemma ale_val_bytes k : forall x, x < 256 ^ N.of_nat k -> ale_val (ale_bytes k x) = x.
Proof.
  induction k as [|k IH]; intros x Hx.
  - cbn [ale_bytes ale_val]. change (256 ^ N.of_nat 0) with 1 in Hx. lia.
  - cbn [ale_bytes ale_val]. rewrite IH.
    + rewrite (N.div_mod' x 256) at 3. lia.
    + replace (N.of_nat (S k)) with (N.succ (N.of_nat k)) in Hx by lia. rewrite N.pow_succ_r' in Hx.
      apply N.div_lt_upper_bound; lia.
Qed.

Lemma ale_bytes_val : forall bs, abytes_ok bs -> ale_bytes (length bs) (ale_val bs) = bs.
Proof.
  induction bs as [|b bs IH]; intro H; [reflexivity|].
  inversion H as [|? ? Hb Hbs]; subst. cbn [length ale_bytes ale_val]. f_equal.
  - generalize (ale_val bs). intro y. lia.
  - replace ((b + 256 * ale_val bs) / 256) with (ale_val bs) by (generalize (ale_val bs); intro y; lia).
    apply IH; assumption.
Qed.

Lemma ale_val_bound : forall bs, abytes_ok bs -> ale_val bs < 256 ^ N.of_nat (length bs).
Proof.
  induction bs as [|b bs IH]; intro H; cbn [ale_val length].
  - change (256 ^ N.of_nat 0) with 1. lia.
  - inversion H as [|? ? Hb Hbs]; subst. specialize (IH Hbs).
    replace (N.of_nat (S (length bs))) with (N.succ (N.of_nat (length bs))) by lia. rewrite N.pow_succ_r'. lia.
Qed.

Fixpoint asum (ws : list N) : N := match ws with [] => 0 | w :: r => w + asum r end.

(* T::read of T::write *)
Lemma aread_fields_write : forall ws xs rest, Forall2 (fun w x => x < 256 ^ w) ws xs ->
  aread_fields ws (awrite_fields ws xs ++ rest) = Some (xs, rest).
Proof.
  induction ws as [|w ws IH]; intros xs rest H; inversion H as [|? x ? xs' Hx Hxs]; subst; [reflexivity|].
  cbn [awrite_fields aread_fields]. unfold aread_field. rewrite <- app_assoc.
  assert (Ht : atake (ale_bytes (N.to_nat w) x ++ awrite_fields ws xs' ++ rest) w
               = Some (ale_bytes (N.to_nat w) x, awrite_fields ws xs' ++ rest)).
  { apply atake_iff. split; [reflexivity|]. rewrite ale_bytes_length. lia. }
  rewrite Ht. rewrite ale_val_bytes by (rewrite N2Nat.id; assumption).
  rewrite IH by assumption. reflexivity.
Qed.

(* T::write of T::read gives the bytes back, and T::read consumes exactly the sum of the widths *)
Lemma aread_fields_sound : forall ws l xs r, aread_fields ws l = Some (xs, r) -> abytes_ok l ->
  l = awrite_fields ws xs ++ r /\ N.of_nat (length (awrite_fields ws xs)) = asum ws
  /\ Forall2 (fun w x => x < 256 ^ w) ws xs.
Proof.
  induction ws as [|w ws IH]; intros l xs r H Hl; cbn [aread_fields] in H.
  - inversion H; subst. repeat split; constructor.
  - unfold aread_field in H. destruct (atake l w) as [[bs l1]|] eqn:Ht; [|discriminate].
    destruct (aread_fields ws l1) as [[xs' r']|] eqn:Hr; [|discriminate]. inversion H; subst.
    apply atake_sound in Ht. destruct Ht as [Hl1 Hw]. subst l. apply abytes_ok_app in Hl. destruct Hl as [Hbs Hl1].
    destruct (IH _ _ _ Hr Hl1) as [E [Hlen HF]]. subst l1.
    cbn [awrite_fields asum]. replace (N.to_nat w) with (length bs) by lia.
    rewrite ale_bytes_val by assumption. rewrite <- app_assoc. split; [reflexivity|]. split.
    + rewrite app_length. lia.
    + constructor; [|assumption]. rewrite <- Hw. apply ale_val_bound; assumption.
Qed.

Lemma aread_fields_enough : forall ws l, asum ws <= N.of_nat (length l) -> exists xs r, aread_fields ws l = Some (xs, r).
Proof.
  induction ws as [|w ws IH]; intros l H; cbn [aread_fields]; [eauto|].
  cbn [asum] in H. unfold aread_field. destruct (atake_enough l w) as [a [b Ht]]; [lia|]. rewrite Ht.
  apply atake_sound in Ht. destruct Ht as [Hl Hw]. subst l. rewrite app_length in H.
  destruct (IH b) as [xs [r Hr]]; [lia|]. rewrite Hr. eauto.
Qed.

Lemma aread_fields_short : forall ws l, N.of_nat (length l) < asum ws -> aread_fields ws l = None.
Proof.
  induction ws as [|w ws IH]; intros l H; cbn [aread_fields asum] in *; [lia|].
  unfold aread_field. destruct (atake l w) as [[a b]|] eqn:Ht; [|reflexivity].
  apply atake_sound in Ht. destruct Ht as [Hl Hw]. subst l. rewrite app_length in H.
  rewrite IH by lia. reflexivity.
Qed.

(* ---------------------------------------------------------------------------------------------- *)
(* Part 2: the generated tables                                                                    *)

Definition fkind_eqb (a b : fkind) : bool :=
  match a, b with
  | FU8, FU8 | FU16, FU16 | FU32, FU32 | FU48, FU48 | FI16, FI16 | FI32, FI32 | FF32, FF32 | FF64, FF64 => true
  | _, _ => false
  end.

Lemma fkind_eqb_eq a b : fkind_eqb a b = true -> a = b.
Proof. destruct a, b; cbn; intro H; try reflexivity; discriminate. Qed.

Fixpoint afields_eqb (a b : list (N * fkind)) : bool :=
  match a, b with
  | [], [] => true
  | (i, k) :: a', (j, m) :: b' => (i =? j) && fkind_eqb k m && afields_eqb a' b'
  | _, _ => false
  end.

Lemma afields_eqb_eq : forall a b, afields_eqb a b = true -> a = b.
Proof.
  induction a as [|[i k] a IH]; intros [|[j m] b] H; cbn [afields_eqb] in H; try discriminate; [reflexivity|].
  apply andb_prop in H. destruct H as [H H3]. apply andb_prop in H. destruct H as [H1 H2].
  apply N.eqb_eq in H1. apply fkind_eqb_eq in H2. subst. f_equal. apply IH; assumption.
Qed.

(* P1 size_is_sum_of_fields: SIZE of every fixed-size variation is the sum of the widths its `read` consumes *)
Theorem size_is_sum_of_fields : forall fi, In fi fixed_table -> fi_size fi = asum (awidths fi).
Proof.
  assert (H : forallb (fun fi => fi_size fi =? asum (awidths fi)) fixed_table = true) by (vm_compute; reflexivity).
  intros fi Hin. rewrite forallb_forall in H. apply N.eqb_eq. apply H. assumption.
Qed.

(* P1 read_write_same_order: `read` and `write` of every fixed-size variation visit the same fields, with
   the same wire kinds, in the same order *)
Theorem read_write_same_order : forall fi, In fi fixed_table -> fi_read fi = fi_write fi.
Proof.
  assert (H : forallb (fun fi => afields_eqb (fi_read fi) (fi_write fi)) fixed_table = true) by (vm_compute; reflexivity).
  intros fi Hin. rewrite forallb_forall in H. apply afields_eqb_eq. apply H. assumption.
Qed.

Lemma awidths_same fi : In fi fixed_table -> awidths_w fi = awidths fi.
Proof. intro H. unfold awidths_w, awidths. rewrite (read_write_same_order fi H). reflexivity. Qed.

(* every size is positive, every field is read exactly once (field ids are 0 .. n-1 in some order is not
   needed here: the translator checks that `read` sets every declared field exactly once) *)
Lemma fixed_size_positive : forall fi, In fi fixed_table -> 0 < fi_size fi.
Proof.
  assert (H : forallb (fun fi => 0 <? fi_size fi) fixed_table = true) by (vm_compute; reflexivity).
  intros fi Hin. rewrite forallb_forall in H. apply N.ltb_lt. apply H. assumption.
Qed.

Lemma afixed_in g v fi : afixed g v = Some fi -> In fi fixed_table /\ fi_g fi = g /\ fi_v fi = v.
Proof.
  unfold afixed. intro H. apply find_some in H. destruct H as [Hin Hb].
  apply andb_prop in Hb. destruct Hb as [H1 H2]. apply N.eqb_eq in H1. apply N.eqb_eq in H2. auto.
Qed.

(* P1 fixed_codec_round_trip: for every generated fixed-size variation, writing any field values (each
   within the width of its field) and reading them back gives the same values and consumes exactly the
   bytes written; conversely reading any bytes and writing the result gives the bytes back *)
Theorem fixed_codec_round_trip : forall fi xs rest, In fi fixed_table ->
  Forall2 (fun w x => x < 256 ^ w) (awidths_w fi) xs ->
  aread_fields (awidths fi) (awrite_fields (awidths_w fi) xs ++ rest) = Some (xs, rest)
  /\ N.of_nat (length (awrite_fields (awidths_w fi) xs)) = fi_size fi.
Proof.
  intros fi xs rest Hin HF. rewrite (awidths_same fi Hin) in *. split.
  - apply aread_fields_write; assumption.
  - rewrite (size_is_sum_of_fields fi Hin).
    destruct (aread_fields_sound (awidths fi) (awrite_fields (awidths fi) xs ++ []) xs []) as [_ [Hlen _]].
    + apply aread_fields_write; assumption.
    + apply abytes_ok_app. split; [|constructor].
      clear Hin. revert xs HF. generalize (awidths fi). induction l as [|w ws IH]; intros xs HF; inversion HF; subst; cbn [awrite_fields]; [constructor|].
      apply abytes_ok_app. split; [apply ale_bytes_ok|apply IH; assumption].
    + assumption.
Qed.

Theorem fixed_codec_round_trip_bytes : forall fi l xs r, In fi fixed_table -> abytes_ok l ->
  aread_fields (awidths fi) l = Some (xs, r) -> l = awrite_fields (awidths_w fi) xs ++ r.
Proof.
  intros fi l xs r Hin Hl H. rewrite (awidths_same fi Hin).
  destruct (aread_fields_sound _ _ _ _ H Hl) as [E _]. exact E.
Qed.

(* the qualifier tables only name kinds the walker knows how to size: DFixed entries have a SIZE *)
Definition aqt_fixed_ok (t : qtable) : bool :=
  forallb (fun e => match snd e with
                    | DFixed => match snd (fst e) with
                                | PExact v => match afixed (fst (fst e)) v with Some _ => true | None => false end
                                | PAny => false
                                end
                    | _ => true
                    end) t.

Lemma qtables_fixed_ok :
  aqt_fixed_ok qt_count = true /\ aqt_fixed_ok qt_range = true /\ aqt_fixed_ok qt_prefix = true.
Proof. vm_compute. repeat split; reflexivity. Qed.

Lemma aqkind_fixed_has_size t g v : aqt_fixed_ok t = true -> aqkind t g v = Some DFixed -> exists fi, afixed g v = Some fi.
Proof.
  unfold aqt_fixed_ok, aqkind. intros Ht H. destruct (find (apat_matches g v) t) as [e|] eqn:Hf; [|discriminate].
  inversion H as [Hk]. apply find_some in Hf. destruct Hf as [Hin Hm]. rewrite forallb_forall in Ht.
  specialize (Ht e Hin). rewrite Hk in Ht. unfold apat_matches in Hm. apply andb_prop in Hm. destruct Hm as [Hg Hv].
  apply N.eqb_eq in Hg. destruct (snd (fst e)) as [x|]; [|discriminate].
  apply N.eqb_eq in Hv. subst. destruct (afixed (fst (fst e)) x) as [fi|]; [eauto|discriminate].
Qed.

(* ---------------------------------------------------------------------------------------------- *)
(* Part 3: a header is accepted iff the bytes present are exactly what it implies                  *)

(* the bytes of the object data a validated payload stands for *)
Definition apayload_bytes (p : apayload) : list N :=
  match p with
  | PyNone => []
  | PyBits _ _ d | PyDBits _ _ d | PyFixedRange _ _ d | PyFixedCount _ d | PyFixedPrefix _ _ d
  | PyOctetsRange _ _ d | PyOctetsPrefix _ _ d => d
  | PyAttr a => aa_raw a
  | PyFree len raw _ => lo8 len :: hi8 len :: raw
  end.

(* the range / count field (and, for a prefixed attribute, its index) *)
Definition adetail_bytes (d : ahdetails) (p : apayload) : list N :=
  match d with
  | HAll => []
  | HRange8 a b => [a; b]
  | HRange16 a b => [lo8 a; hi8 a; lo8 b; hi8 b]
  | HCount8 c => [c]
  | HCount16 c => [lo8 c; hi8 c]
  | HPrefix8 c => c :: match p with PyAttr a => [aa_set a] | _ => [] end
  | HPrefix16 c => lo8 c :: hi8 c :: match p with PyAttr a => [lo8 (aa_set a); hi8 (aa_set a)] | _ => [] end
  | HFree c => [c]
  end.

(* the unique encoding of a parsed header: group, variation, qualifier, range or count, object data *)
Definition aencode_header (h : aobj_header) : list N :=
  oh_g h :: oh_v h :: aqualifier (oh_details h)
  :: adetail_bytes (oh_details h) (oh_payload h) ++ apayload_bytes (oh_payload h).

(* a device attribute is well-formed when AttrValue::parse accepts exactly its bytes, whatever follows *)
Definition aattr_wf (a : aattribute) : Prop :=
  forall r, aparse_attr_value (aa_raw a ++ r) = AOk (aa_value a, r).

(* what a range header of (g, v) over `c` indices starting at `s` must be followed by *)
Definition aranged_wf (o : aopts) (fc g v s c : N) (p : apayload) : Prop :=
  match aqkind (if fc =? fc_read then qt_range_read else qt_range) g v with
  | Some DNone => p = PyNone
  | Some DBits => exists d, p = PyBits s c d /\ N.of_nat (length d) = aceil_div c 8
  | Some DDoubleBits => exists d, p = PyDBits s c d /\ N.of_nat (length d) = aceil_div c 4
  | Some DFixed => exists sz d, asize g v = Some sz /\ p = PyFixedRange s c d /\ N.of_nat (length d) = sz * c
  | Some DOctets => (v =? 0) && negb (ao_zero_length_strings o) = false
                    /\ exists d, p = PyOctetsRange s c d /\ N.of_nat (length d) = v * c
  | Some DAttr => s <= 255 /\ c = 1 /\ exists a, p = PyAttr a /\ aa_set a = s /\ aa_var a = v /\ aattr_wf a
  | Some DFree | None => False
  end.

Definition acount_wf (g v c : N) (p : apayload) : Prop :=
  match aqkind qt_count g v with
  | Some DNone => p = PyNone
  | Some DFixed => exists sz d, asize g v = Some sz /\ p = PyFixedCount c d /\ N.of_nat (length d) = sz * c
  | _ => False
  end.

Definition aprefixed_wf (o : aopts) (g v psize c : N) (p : apayload) : Prop :=
  match aqkind qt_prefix g v with
  | Some DFixed => exists sz d, asize g v = Some sz /\ p = PyFixedPrefix psize c d /\ N.of_nat (length d) = (psize + sz) * c
  | Some DOctets => (v =? 0) && negb (ao_zero_length_strings o) = false
                    /\ exists d, p = PyOctetsPrefix psize c d /\ N.of_nat (length d) = (v + psize) * c
  | Some DAttr => c = 1 /\ exists a, p = PyAttr a /\ aa_set a <= 255 /\ aa_var a = v /\ aattr_wf a
  | _ => False
  end.

(* the header is one the tables allow and its object data has exactly the length they demand *)
Definition awf_header (o : aopts) (fc : N) (h : aobj_header) : Prop :=
  let g := oh_g h in let v := oh_v h in let p := oh_payload h in
  alookup g v = true /\
  match oh_details h with
  | HAll => aqkind qt_all g v <> None /\ p = PyNone
  | HRange8 a b => a <= b /\ b < 256 /\ aranged_wf o fc g v a (b - a + 1) p
  | HRange16 a b => a <= b /\ b < 65536 /\ aranged_wf o fc g v a (b - a + 1) p
  | HCount8 c => c < 256 /\ acount_wf g v c p
  | HCount16 c => c < 65536 /\ acount_wf g v c p
  | HPrefix8 c => c < 256 /\ aprefixed_wf o g v 1 c p
  | HPrefix16 c => c < 65536 /\ aprefixed_wf o g v 2 c p
  | HFree c => c = 1 /\ aqkind qt_free g v = Some DFree
               /\ exists len raw info, p = PyFree len raw info /\ len < 65536
                  /\ N.of_nat (length raw) = len /\ aparse_free v raw = AOk (info, [])
  end.

(* ---- AttrValue::parse reads a prefix and does not look at what follows ---- *)

Lemma atake_e_stable l n b r : atake_e l n = AOk (b, r) ->
  l = b ++ r /\ forall r', atake_e (b ++ r') n = AOk (b, r').
Proof.
  unfold atake_e. destruct (atake l n) as [[b' r0]|] eqn:Ht; [|discriminate]. intro H; inversion H; subst.
  apply atake_sound in Ht. destruct Ht as [Hl Hn]. split; [assumption|]. intro r'.
  rewrite <- Hn. rewrite atake_complete. reflexivity.
Qed.

Lemma aread_n_stable w l x r : aread_n w l = AOk (x, r) ->
  exists bs, l = bs ++ r /\ forall r', aread_n w (bs ++ r') = AOk (x, r').
Proof.
  unfold aread_n, aread_field. destruct (atake l w) as [[bs r0]|] eqn:Ht; [|discriminate]. intro H; inversion H; subst.
  apply atake_sound in Ht. destruct Ht as [Hl Hn]. exists bs. split; [assumption|]. intro r'.
  rewrite <- Hn. rewrite atake_complete. reflexivity.
Qed.

Lemma aattr_list_stable l len val r : aattr_list l len = AOk (val, r) ->
  exists bs, l = bs ++ r /\ forall r', aattr_list (bs ++ r') len = AOk (val, r').
Proof.
  unfold aattr_list. destruct (negb (len mod 2 =? 0)); [discriminate|].
  destruct (atake_e l len) as [[b r0]|e] eqn:Ht; [|discriminate]. intro H; inversion H; subst.
  apply atake_e_stable in Ht. destruct Ht as [Hl Hs]. exists b. split; [assumption|]. intro r'. rewrite Hs. reflexivity.
Qed.

Ltac astab_take Ht :=
  let Hl := fresh "Hl" in let Hs := fresh "Hs" in
  apply atake_e_stable in Ht; destruct Ht as [Hl Hs];
  eexists; split; [exact Hl|]; intro r'; rewrite Hs.

Ltac astab_read Ht :=
  let bs := fresh "bs" in let Hl := fresh "Hl" in let Hs := fresh "Hs" in
  apply aread_n_stable in Ht; destruct Ht as [bs [Hl Hs]];
  exists bs; split; [exact Hl|]; intro r'; rewrite Hs.

Lemma aattr_payload_stable ty len l val r : aattr_payload ty len l = AOk (val, r) ->
  exists bs, l = bs ++ r /\ forall r', aattr_payload ty len (bs ++ r') = AOk (val, r').
Proof.
  unfold aattr_payload.
  destruct (ty =? attr_visible_string).
  { destruct (atake_e l len) as [[b r0]|e] eqn:Ht; [|discriminate]. destruct (autf8 b) eqn:Hu; [|discriminate].
    intro H; inversion H; subst. astab_take Ht. rewrite Hu. reflexivity. }
  destruct (ty =? attr_unsigned_int).
  { destruct ((len =? 1) || (len =? 2) || (len =? 4)); [|discriminate].
    destruct (aread_n len l) as [[x r0]|e] eqn:Ht; [|discriminate]. intro H; inversion H; subst. astab_read Ht. reflexivity. }
  destruct (ty =? attr_signed_int).
  { destruct (len =? 1).
    - destruct (aread_n 1 l) as [[x r0]|e] eqn:Ht; [|discriminate]. intro H; inversion H; subst. astab_read Ht. reflexivity.
    - destruct (len =? 4).
      + destruct (aread_n 4 l) as [[x r0]|e] eqn:Ht; [|discriminate]. intro H; inversion H; subst. astab_read Ht. reflexivity.
      + destruct (len =? 2); [|discriminate].
        destruct (aread_n 2 l) as [[x r0]|e] eqn:Ht; [|discriminate]. intro H; inversion H; subst. astab_read Ht. reflexivity. }
  destruct (ty =? attr_floating_point).
  { destruct (len =? 4).
    - destruct (aread_n 4 l) as [[x r0]|e] eqn:Ht; [|discriminate]. intro H; inversion H; subst. astab_read Ht. reflexivity.
    - destruct (len =? 8); [|discriminate].
      destruct (aread_n 8 l) as [[x r0]|e] eqn:Ht; [|discriminate]. intro H; inversion H; subst. astab_read Ht. reflexivity. }
  destruct (ty =? attr_octet_string).
  { destruct (atake_e l len) as [[b r0]|e] eqn:Ht; [|discriminate]. intro H; inversion H; subst. astab_take Ht. reflexivity. }
  destruct (ty =? attr_bit_string).
  { destruct (atake_e l len) as [[b r0]|e] eqn:Ht; [|discriminate]. intro H; inversion H; subst. astab_take Ht. reflexivity. }
  destruct (ty =? attr_dnp3_time).
  { destruct (len =? 6); [|discriminate].
    destruct (aread_n 6 l) as [[x r0]|e] eqn:Ht; [|discriminate]. intro H; inversion H; subst. astab_read Ht. reflexivity. }
  destruct (ty =? attr_attr_list); apply aattr_list_stable.
Qed.

Lemma aparse_attr_value_stable l val r : aparse_attr_value l = AOk (val, r) ->
  exists raw, l = raw ++ r /\ forall r', aparse_attr_value (raw ++ r') = AOk (val, r').
Proof.
  unfold aparse_attr_value. destruct l as [|ty l1]; [discriminate|].
  destruct (negb (amem ty aattr_types)) eqn:Hty; [discriminate|]. destruct l1 as [|len l2]; [discriminate|].
  intro H. apply aattr_payload_stable in H. destruct H as [bs [Hl Hs]]. exists (ty :: len :: bs). split.
  - cbn [app]. rewrite Hl. reflexivity.
  - intro r'. cbn [app]. rewrite Hty. apply Hs.
Qed.

(* the raw bytes recorded by the walker are the prefix that was consumed *)
Lemma afirstn_consumed (raw r : list N) : firstn (length (raw ++ r) - length r) (raw ++ r) = raw.
Proof.
  rewrite app_length. replace (length raw + length r - length r)%nat with (length raw) by lia.
  rewrite firstn_app. rewrite Nat.sub_diag. cbn [firstn]. rewrite app_nil_r. apply firstn_all.
Qed.

(* ---- the three families ---- *)

Lemma atake_o_iff l n a b : atake_o l n = AOk (a, b) <-> l = a ++ b /\ N.of_nat (length a) = n.
Proof.
  unfold atake_o. destruct (atake l n) as [[a' b']|] eqn:Ht.
  - split.
    + intro H; inversion H; subst. apply atake_sound; assumption.
    + intros [Hl Hn]. assert (Ht' : atake l n = Some (a, b)) by (apply atake_iff; auto). congruence.
  - split; [discriminate|]. intros [Hl Hn]. assert (Ht' : atake l n = Some (a, b)) by (apply atake_iff; auto). congruence.
Qed.

Ltac atake_fwd Ht := apply atake_o_iff in Ht; destruct Ht as [? ?]; subst.

Lemma aparse_ranged_iff o fc g v q s c l p r :
  aparse_ranged o fc g v q s c l = AOk (p, r) <-> l = apayload_bytes p ++ r /\ aranged_wf o fc g v s c p.
Proof.
  unfold aparse_ranged, aranged_wf.
  destruct (aqkind (if fc =? fc_read then qt_range_read else qt_range) g v) as [[| | | | | |]|].
  - (* DNone *) split.
    + intro H; inversion H; subst. split; reflexivity.
    + intros [Hl Hp]. subst. reflexivity.
  - (* DBits *) split.
    + destruct (atake_o l (aceil_div c 8)) as [[d r0]|e] eqn:Ht; [|discriminate]. intro H; inversion H; subst.
      atake_fwd Ht. split; [reflexivity|]. eauto.
    + intros [Hl [d [Hp Hn]]]. subst. cbn [apayload_bytes].
      assert (Ht : atake_o (d ++ r) (aceil_div c 8) = AOk (d, r)) by (apply atake_o_iff; auto). rewrite Ht. reflexivity.
  - (* DDoubleBits *) split.
    + destruct (atake_o l (aceil_div c 4)) as [[d r0]|e] eqn:Ht; [|discriminate]. intro H; inversion H; subst.
      atake_fwd Ht. split; [reflexivity|]. eauto.
    + intros [Hl [d [Hp Hn]]]. subst. cbn [apayload_bytes].
      assert (Ht : atake_o (d ++ r) (aceil_div c 4) = AOk (d, r)) by (apply atake_o_iff; auto). rewrite Ht. reflexivity.
  - (* DFixed *) destruct (asize g v) as [sz|].
    + split.
      * destruct (atake_o l (sz * c)) as [[d r0]|e] eqn:Ht; [|discriminate]. intro H; inversion H; subst.
        atake_fwd Ht. split; [reflexivity|]. eauto.
      * intros [Hl [sz' [d [Hs [Hp Hn]]]]]. inversion Hs; subst. cbn [apayload_bytes].
        assert (Ht : atake_o (d ++ r) (sz' * c) = AOk (d, r)) by (apply atake_o_iff; auto). rewrite Ht. reflexivity.
    + split; [discriminate|]. intros [_ [sz [d [Hs _]]]]. discriminate.
  - (* DOctets *) destruct ((v =? 0) && negb (ao_zero_length_strings o)).
    + split; [discriminate|]. intros [_ [Hz _]]. discriminate.
    + split.
      * destruct (atake_o l (v * c)) as [[d r0]|e] eqn:Ht; [|discriminate]. intro H; inversion H; subst.
        atake_fwd Ht. split; [reflexivity|]. split; [reflexivity|]. eauto.
      * intros [Hl [_ [d [Hp Hn]]]]. subst. cbn [apayload_bytes].
        assert (Ht : atake_o (d ++ r) (v * c) = AOk (d, r)) by (apply atake_o_iff; auto). rewrite Ht. reflexivity.
  - (* DAttr *) destruct (255 <? s) eqn:Hs.
    + apply N.ltb_lt in Hs. split; [discriminate|]. intros [_ [Hle _]]. lia.
    + apply N.ltb_ge in Hs. destruct (negb (c =? 1)) eqn:Hc.
      * apply negb_true_iff in Hc. apply N.eqb_neq in Hc. split; [discriminate|]. intros [_ [_ [Hc1 _]]]. contradiction.
      * apply negb_false_iff in Hc. apply N.eqb_eq in Hc. split.
        -- destruct (aparse_attr_value l) as [[val r0]|e] eqn:Hp; [|discriminate]. intro H; inversion H; subst.
           apply aparse_attr_value_stable in Hp. destruct Hp as [raw [Hl Hst]]. subst l.
           cbn [apayload_bytes aa_raw]. rewrite afirstn_consumed. split; [reflexivity|].
           split; [assumption|]. split; [reflexivity|]. eexists. split; [reflexivity|].
           cbn [aa_set aa_var]. split; [reflexivity|]. split; [reflexivity|].
           unfold aattr_wf. cbn [aa_raw aa_value]. exact Hst.
        -- intros [Hl [_ [_ [a [Hp [Hset [Hvar Hwf]]]]]]]. subst p. cbn [apayload_bytes] in Hl. subst l.
           rewrite (Hwf r). rewrite afirstn_consumed. destruct a as [st vr vl rw]. cbn in *. subst. reflexivity.
  - (* DFree *) split; [discriminate|]. intros [_ []].
  - split; [discriminate|]. intros [_ []].
Qed.

Lemma aparse_count_iff g v q c l p r :
  aparse_count g v q c l = AOk (p, r) <-> l = apayload_bytes p ++ r /\ acount_wf g v c p.
Proof.
  unfold aparse_count, acount_wf.
  destruct (aqkind qt_count g v) as [[| | | | | |]|]; try (split; [discriminate|intros [_ []]]).
  - split.
    + intro H; inversion H; subst. split; reflexivity.
    + intros [Hl Hp]. subst. reflexivity.
  - destruct (asize g v) as [sz|].
    + split.
      * destruct (atake_o l (sz * c)) as [[d r0]|e] eqn:Ht; [|discriminate]. intro H; inversion H; subst.
        atake_fwd Ht. split; [reflexivity|]. eauto.
      * intros [Hl [sz' [d [Hs [Hp Hn]]]]]. inversion Hs; subst. cbn [apayload_bytes].
        assert (Ht : atake_o (d ++ r) (sz' * c) = AOk (d, r)) by (apply atake_o_iff; auto). rewrite Ht. reflexivity.
    + split; [discriminate|]. intros [_ [sz [d [Hs _]]]]. discriminate.
Qed.

Lemma ale_bytes_1 x : x < 256 -> ale_bytes (N.to_nat 1) x = [x].
Proof. intro H. change (N.to_nat 1) with 1%nat. cbn [ale_bytes]. rewrite N.mod_small by assumption. reflexivity. Qed.

Definition aindex_bytes (psize : N) (p : apayload) : list N :=
  match p with PyAttr a => ale_bytes (N.to_nat psize) (aa_set a) | _ => [] end.

Lemma aparse_prefixed_iff o g v q psize c l p r : psize = 1 \/ psize = 2 -> abytes_ok l ->
  (aparse_prefixed o g v q psize c l = AOk (p, r)
   <-> l = aindex_bytes psize p ++ apayload_bytes p ++ r /\ aprefixed_wf o g v psize c p).
Proof.
  intros Hps Hb. unfold aparse_prefixed, aprefixed_wf.
  destruct (aqkind qt_prefix g v) as [[| | | | | |]|]; try (split; [discriminate|intros [_ []]]).
  - (* DFixed *) destruct (asize g v) as [sz|].
    + split.
      * destruct (atake_o l ((psize + sz) * c)) as [[d r0]|e] eqn:Ht; [|discriminate]. intro H; inversion H; subst.
        atake_fwd Ht. split; [reflexivity|]. eauto.
      * intros [Hl [sz' [d [Hs [Hp Hn]]]]]. inversion Hs; subst. cbn [apayload_bytes aindex_bytes app].
        assert (Ht : atake_o (d ++ r) ((psize + sz') * c) = AOk (d, r)) by (apply atake_o_iff; auto). rewrite Ht. reflexivity.
    + split; [discriminate|]. intros [_ [sz [d [Hs _]]]]. discriminate.
  - (* DOctets *) destruct ((v =? 0) && negb (ao_zero_length_strings o)).
    + split; [discriminate|]. intros [_ [Hz _]]. discriminate.
    + split.
      * destruct (atake_o l ((v + psize) * c)) as [[d r0]|e] eqn:Ht; [|discriminate]. intro H; inversion H; subst.
        atake_fwd Ht. split; [reflexivity|]. split; [reflexivity|]. eauto.
      * intros [Hl [_ [d [Hp Hn]]]]. subst. cbn [apayload_bytes aindex_bytes app].
        assert (Ht : atake_o (d ++ r) ((v + psize) * c) = AOk (d, r)) by (apply atake_o_iff; auto). rewrite Ht. reflexivity.
  - (* DAttr *) destruct (negb (c =? 1)) eqn:Hc.
    + apply negb_true_iff in Hc. apply N.eqb_neq in Hc. split; [discriminate|]. intros [_ [Hc1 _]]. contradiction.
    + apply negb_false_iff in Hc. apply N.eqb_eq in Hc. split.
      * unfold aread_field. destruct (atake l psize) as [[bs l1]|] eqn:Ht; [|discriminate].
        apply atake_sound in Ht. destruct Ht as [Hl Hn]. subst l. apply abytes_ok_app in Hb. destruct Hb as [Hbs Hb1].
        destruct (255 <? ale_val bs) eqn:Hs; [discriminate|]. apply N.ltb_ge in Hs.
        destruct (aparse_attr_value l1) as [[val r0]|e] eqn:Hp; [|discriminate]. intro H; inversion H; subst.
        apply aparse_attr_value_stable in Hp. destruct Hp as [raw [Hl Hst]]. subst l1.
        cbn [apayload_bytes aindex_bytes aa_raw aa_set]. rewrite afirstn_consumed. split.
        -- rewrite Nat2N.id. rewrite ale_bytes_val by assumption. reflexivity.
        -- split; [reflexivity|]. eexists. split; [reflexivity|]. cbn [aa_set aa_var].
           split; [assumption|]. split; [reflexivity|]. unfold aattr_wf. cbn [aa_raw aa_value]. exact Hst.
      * intros [Hl [_ [a [Hp [Hset [Hvar Hwf]]]]]]. subst p. cbn [apayload_bytes aindex_bytes] in Hl. subst l.
        unfold aread_field.
        assert (Ht : atake (ale_bytes (N.to_nat psize) (aa_set a) ++ aa_raw a ++ r) psize
                     = Some (ale_bytes (N.to_nat psize) (aa_set a), aa_raw a ++ r)).
        { apply atake_iff. split; [reflexivity|]. rewrite ale_bytes_length. lia. }
        rewrite Ht. rewrite ale_val_bytes.
        -- assert (Hs : (255 <? aa_set a) = false) by (apply N.ltb_ge; assumption). rewrite Hs.
           rewrite (Hwf r). rewrite afirstn_consumed. destruct a as [st vr vl rw]. cbn in *. subst. reflexivity.
        -- rewrite N2Nat.id. destruct Hps as [E|E]; rewrite E; cbn; lia.
Qed.

(* what parse_one does for each qualifier code (the constants are compared by computation) *)
Lemma aparse_one_lookup_fail o fc g v l0 : alookup g v = false -> aparse_one o fc (g :: v :: l0) = AErr (OEUnknownGV g v).
Proof. intro H. cbn [aparse_one]. rewrite H. reflexivity. Qed.

Definition amk (g v : N) (d : ahdetails) (p : apayload) : aobj_header :=
  {| oh_g := g; oh_v := v; oh_details := d; oh_payload := p |}.

Lemma abytes_ok_cons x l : abytes_ok (x :: l) <-> x < 256 /\ abytes_ok l.
Proof. unfold abytes_ok. split; [intro H; inversion H; auto|intros [? ?]; constructor; auto]. Qed.

Lemma ale16_bytes lo hi : lo < 256 -> hi < 256 -> lo8 (le16 lo hi) = lo /\ hi8 (le16 lo hi) = hi /\ le16 lo hi < 65536.
Proof. intros. split; [apply lo8_le16; assumption|]. split; [apply hi8_le16; assumption|apply le16_bound; assumption]. Qed.

Lemma ard16_some l x r : abytes_ok l -> ard16 l = Some (x, r) -> l = lo8 x :: hi8 x :: r /\ x < 65536 /\ abytes_ok r.
Proof.
  intros Hb H. destruct l as [|lo [|hi l']]; try discriminate. cbn [ard16] in H. inversion H; subst.
  apply abytes_ok_cons in Hb. destruct Hb as [Hlo Hb]. apply abytes_ok_cons in Hb. destruct Hb as [Hhi Hb].
  destruct (ale16_bytes lo hi Hlo Hhi) as [E1 [E2 E3]]. rewrite E1, E2. auto.
Qed.

Lemma ard16_enc x r : x < 65536 -> ard16 (lo8 x :: hi8 x :: r) = Some (x, r).
Proof. intro H. cbn [ard16]. rewrite le16_lo_hi by assumption. reflexivity. Qed.

Lemma amk_range_some a b s c : amk_range a b = Some (s, c) <-> a <= b /\ s = a /\ c = b - a + 1.
Proof.
  unfold amk_range. destruct (b <? a) eqn:H; [apply N.ltb_lt in H|apply N.ltb_ge in H].
  - split; [discriminate|]. intros [? _]. lia.
  - split; [intro E; inversion E; subst; repeat split; lia|]. intros [_ [? ?]]. subst. reflexivity.
Qed.

(* P1 accept_iff_exact_bytes, one header: ObjectParser::parse_one accepts exactly the byte strings that
   begin with the encoding of a header the generated tables allow (known group/variation, a qualifier the
   variation may be used with for this function code, a valid range or count) followed by exactly the
   number of object bytes that variation, qualifier and count or range demand (SIZE*count, ceil(count/8),
   ceil(count/4), (n+prefix)*count, one attribute, the declared free-format length; nothing for READ
   ranges) — and it returns that header and everything after it untouched *)
Theorem accept_iff_exact_bytes_header : forall o fc l h rest, abytes_ok l ->
  (aparse_one o fc l = AOk (h, rest) <-> l = aencode_header h ++ rest /\ awf_header o fc h).
Proof.
  intros o fc l h rest Hb. split.
  - (* soundness *)
    intro H. unfold aparse_one in H. destruct l as [|g [|v l0]]; try discriminate.
    destruct (negb (alookup g v)) eqn:Hlk; [discriminate|]. apply negb_false_iff in Hlk.
    destruct l0 as [|q l1]; [discriminate|].
    apply abytes_ok_cons in Hb. destruct Hb as [_ Hb]. apply abytes_ok_cons in Hb. destruct Hb as [_ Hb].
    apply abytes_ok_cons in Hb. destruct Hb as [_ Hb].
    destruct (q =? q_all_objects) eqn:Q1.
    { apply N.eqb_eq in Q1. subst q. destruct (aqkind qt_all g v) as [k|] eqn:Hk; [|discriminate].
      inversion H; subst. unfold aencode_header, awf_header. cbn. split; [reflexivity|].
      split; [assumption|]. split; [congruence|reflexivity]. }
    destruct (q =? q_range8) eqn:Q2.
    { apply N.eqb_eq in Q2. subst q. destruct l1 as [|a [|b l2]]; try discriminate.
      apply abytes_ok_cons in Hb. destruct Hb as [Ha Hb]. apply abytes_ok_cons in Hb. destruct Hb as [Hb' Hb].
      destruct (amk_range a b) as [[s c]|] eqn:Hr; [|discriminate]. apply amk_range_some in Hr. destruct Hr as [Hab [Hs Hc]]. subst s c.
      destruct (aparse_ranged o fc g v q_range8 a (b - a + 1) l2) as [[p r]|e] eqn:Hp; [|discriminate].
      inversion H; subst. apply aparse_ranged_iff in Hp. destruct Hp as [Hl Hw]. subst l2.
      unfold aencode_header, awf_header. cbn. split; [reflexivity|]. auto. }
    destruct (q =? q_range16) eqn:Q3.
    { apply N.eqb_eq in Q3. subst q. destruct (ard16 l1) as [[a l2]|] eqn:Ha; [|discriminate].
      apply (ard16_some _ _ _ Hb) in Ha. destruct Ha as [E1 [Ha Hb2]]. subst l1.
      destruct (ard16 l2) as [[b l3]|] eqn:Hb3; [|discriminate].
      apply (ard16_some _ _ _ Hb2) in Hb3. destruct Hb3 as [E2 [Hb' Hb4]]. subst l2.
      destruct (amk_range a b) as [[s c]|] eqn:Hr; [|discriminate]. apply amk_range_some in Hr. destruct Hr as [Hab [Hs Hc]]. subst s c.
      destruct (aparse_ranged o fc g v q_range16 a (b - a + 1) l3) as [[p r]|e] eqn:Hp; [|discriminate].
      inversion H; subst. apply aparse_ranged_iff in Hp. destruct Hp as [Hl Hw]. subst l3.
      unfold aencode_header, awf_header. cbn. split; [reflexivity|]. auto. }
    destruct (q =? q_count8) eqn:Q4.
    { apply N.eqb_eq in Q4. subst q. destruct l1 as [|c l2]; [discriminate|].
      apply abytes_ok_cons in Hb. destruct Hb as [Hc Hb].
      destruct (aparse_count g v q_count8 c l2) as [[p r]|e] eqn:Hp; [|discriminate].
      inversion H; subst. apply aparse_count_iff in Hp. destruct Hp as [Hl Hw]. subst l2.
      unfold aencode_header, awf_header. cbn. split; [reflexivity|]. auto. }
    destruct (q =? q_count16) eqn:Q5.
    { apply N.eqb_eq in Q5. subst q. destruct (ard16 l1) as [[c l2]|] eqn:Hc; [|discriminate].
      apply (ard16_some _ _ _ Hb) in Hc. destruct Hc as [E1 [Hc Hb2]]. subst l1.
      destruct (aparse_count g v q_count16 c l2) as [[p r]|e] eqn:Hp; [|discriminate].
      inversion H; subst. apply aparse_count_iff in Hp. destruct Hp as [Hl Hw]. subst l2.
      unfold aencode_header, awf_header. cbn. split; [reflexivity|]. auto. }
    destruct (q =? q_count_and_prefix8) eqn:Q6.
    { apply N.eqb_eq in Q6. subst q. destruct l1 as [|c l2]; [discriminate|].
      apply abytes_ok_cons in Hb. destruct Hb as [Hc Hb].
      destruct (aparse_prefixed o g v q_count_and_prefix8 1 c l2) as [[p r]|e] eqn:Hp; [|discriminate].
      inversion H; subst. apply aparse_prefixed_iff in Hp; [|left; reflexivity|assumption]. destruct Hp as [Hl Hw]. subst l2.
      unfold aencode_header, awf_header. cbn [oh_g oh_v oh_details oh_payload aqualifier adetail_bytes].
      split; [|auto]. unfold aprefixed_wf in Hw. unfold aindex_bytes.
      destruct p; try reflexivity. destruct (aqkind qt_prefix g v) as [[| | | | | |]|]; try contradiction;
        try (destruct Hw as [? [? [? [? _]]]]; discriminate); try (destruct Hw as [_ [? [? _]]]; discriminate).
      destruct Hw as [_ [a' [Ea [Hset _]]]]. inversion Ea; subst a'.
      rewrite ale_bytes_1 by lia. reflexivity. }
    destruct (q =? q_count_and_prefix16) eqn:Q7.
    { apply N.eqb_eq in Q7. subst q. destruct (ard16 l1) as [[c l2]|] eqn:Hc; [|discriminate].
      apply (ard16_some _ _ _ Hb) in Hc. destruct Hc as [E1 [Hc Hb2]]. subst l1.
      destruct (aparse_prefixed o g v q_count_and_prefix16 2 c l2) as [[p r]|e] eqn:Hp; [|discriminate].
      inversion H; subst. apply aparse_prefixed_iff in Hp; [|right; reflexivity|assumption]. destruct Hp as [Hl Hw]. subst l2.
      unfold aencode_header, awf_header. cbn [oh_g oh_v oh_details oh_payload aqualifier adetail_bytes].
      split; [|auto]. unfold aindex_bytes. destruct p; reflexivity. }
    destruct (q =? q_free_format16) eqn:Q8; [|discriminate].
    apply N.eqb_eq in Q8. subst q. destruct l1 as [|c l2]; [discriminate|].
    apply abytes_ok_cons in Hb. destruct Hb as [Hc Hb].
    destruct (negb (c =? 1)) eqn:Hc1; [discriminate|]. apply negb_false_iff in Hc1. apply N.eqb_eq in Hc1.
    destruct (ard16 l2) as [[len l3]|] eqn:Hlen; [|discriminate].
    apply (ard16_some _ _ _ Hb) in Hlen. destruct Hlen as [E1 [Hlen Hb2]]. subst l2.
    destruct (atake_o l3 len) as [[raw r]|e] eqn:Ht; [|discriminate]. atake_fwd Ht.
    destruct (aqkind qt_free g v) as [[| | | | | |]|] eqn:Hk; try discriminate.
    destruct (aparse_free v raw) as [[info [|x xs]]|e] eqn:Hf; try discriminate.
    inversion H; subst. unfold aencode_header, awf_header. cbn. split; [reflexivity|].
    split; [assumption|]. split; [reflexivity|]. split; [assumption|]. do 3 eexists. split; [reflexivity|]. auto.
  - (* completeness *)
    intros [Hl Hw]. subst l. destruct h as [g v d p]. unfold awf_header in Hw. cbn [oh_g oh_v oh_details oh_payload] in Hw.
    destruct Hw as [Hlk Hw]. unfold aencode_header. cbn [oh_g oh_v oh_details oh_payload].
    destruct d as [|a b|a b|c|c|c|c|c]; cbn [aqualifier adetail_bytes].
    + destruct Hw as [Hk Hp]. subst p. cbn. rewrite Hlk. cbn. destruct (aqkind qt_all g v); [reflexivity|contradiction].
    + destruct Hw as [Hab [Hb256 Hw]]. cbn [app]. unfold aparse_one. rewrite Hlk. cbn [negb].
      change (q_range8 =? q_all_objects) with false. change (q_range8 =? q_range8) with true. cbn iota.
      assert (Hr : amk_range a b = Some (a, b - a + 1)) by (apply amk_range_some; auto). rewrite Hr.
      assert (Hp : aparse_ranged o fc g v q_range8 a (b - a + 1) (apayload_bytes p ++ rest) = AOk (p, rest))
        by (apply aparse_ranged_iff; auto). rewrite Hp. reflexivity.
    + destruct Hw as [Hab [Hb65 Hw]]. cbn [app]. unfold aparse_one. rewrite Hlk. cbn [negb].
      change (q_range16 =? q_all_objects) with false. change (q_range16 =? q_range8) with false.
      change (q_range16 =? q_range16) with true. cbn iota.
      rewrite ard16_enc by lia. rewrite ard16_enc by lia.
      assert (Hr : amk_range a b = Some (a, b - a + 1)) by (apply amk_range_some; auto). rewrite Hr.
      assert (Hp : aparse_ranged o fc g v q_range16 a (b - a + 1) (apayload_bytes p ++ rest) = AOk (p, rest))
        by (apply aparse_ranged_iff; auto). rewrite Hp. reflexivity.
    + destruct Hw as [Hc Hw]. cbn [app]. unfold aparse_one. rewrite Hlk. cbn [negb].
      change (q_count8 =? q_all_objects) with false. change (q_count8 =? q_range8) with false.
      change (q_count8 =? q_range16) with false. change (q_count8 =? q_count8) with true. cbn iota.
      assert (Hp : aparse_count g v q_count8 c (apayload_bytes p ++ rest) = AOk (p, rest))
        by (apply aparse_count_iff; auto). rewrite Hp. reflexivity.
    + destruct Hw as [Hc Hw]. cbn [app]. unfold aparse_one. rewrite Hlk. cbn [negb].
      change (q_count16 =? q_all_objects) with false. change (q_count16 =? q_range8) with false.
      change (q_count16 =? q_range16) with false. change (q_count16 =? q_count8) with false.
      change (q_count16 =? q_count16) with true. cbn iota. rewrite ard16_enc by assumption.
      assert (Hp : aparse_count g v q_count16 c (apayload_bytes p ++ rest) = AOk (p, rest))
        by (apply aparse_count_iff; auto). rewrite Hp. reflexivity.
    + destruct Hw as [Hc Hw]. cbn [app]. unfold aparse_one. rewrite Hlk. cbn [negb].
      change (q_count_and_prefix8 =? q_all_objects) with false. change (q_count_and_prefix8 =? q_range8) with false.
      change (q_count_and_prefix8 =? q_range16) with false. change (q_count_and_prefix8 =? q_count8) with false.
      change (q_count_and_prefix8 =? q_count16) with false. change (q_count_and_prefix8 =? q_count_and_prefix8) with true. cbn iota.
      assert (Hp : forall l', abytes_ok [] -> l' = aindex_bytes 1 p ++ apayload_bytes p ++ rest ->
                   aparse_prefixed o g v q_count_and_prefix8 1 c l' = AOk (p, rest)).
      { intros l' _ El. unfold aparse_prefixed. unfold aprefixed_wf in Hw. subst l'.
        destruct (aqkind qt_prefix g v) as [[| | | | | |]|]; try contradiction.
        - destruct Hw as [sz [dd [Hs [Hp Hn]]]]. subst p. rewrite Hs. cbn [aindex_bytes apayload_bytes app].
          assert (Ht : atake_o (dd ++ rest) ((1 + sz) * c) = AOk (dd, rest)) by (apply atake_o_iff; auto). rewrite Ht. reflexivity.
        - destruct Hw as [Hz [dd [Hp Hn]]]. subst p. rewrite Hz. cbn [aindex_bytes apayload_bytes app].
          assert (Ht : atake_o (dd ++ rest) ((v + 1) * c) = AOk (dd, rest)) by (apply atake_o_iff; auto). rewrite Ht. reflexivity.
        - destruct Hw as [Hc1 [a [Hp [Hset [Hvar Hwf]]]]]. subst p c. cbn [N.eqb Pos.eqb negb aindex_bytes apayload_bytes].
          unfold aread_field.
          assert (Ht : atake (ale_bytes (N.to_nat 1) (aa_set a) ++ aa_raw a ++ rest) 1
                       = Some (ale_bytes (N.to_nat 1) (aa_set a), aa_raw a ++ rest)).
          { apply atake_iff. split; [reflexivity|]. rewrite ale_bytes_length. reflexivity. }
          rewrite Ht. rewrite ale_val_bytes by (cbn; lia).
          assert (Hs : (255 <? aa_set a) = false) by (apply N.ltb_ge; assumption). rewrite Hs.
          rewrite (Hwf rest). rewrite afirstn_consumed. destruct a as [st vr vl rw]. cbn in *. subst. reflexivity. }
      assert (Hd : match p with PyAttr a => [aa_set a] | _ => [] end = aindex_bytes 1 p).
      { unfold aindex_bytes. destruct p; try reflexivity. unfold aprefixed_wf in Hw.
        destruct (aqkind qt_prefix g v) as [[| | | | | |]|]; try contradiction;
          try (destruct Hw as [? [? [? [? _]]]]; discriminate); try (destruct Hw as [_ [? [? _]]]; discriminate).
        destruct Hw as [_ [a' [Ea [Hset _]]]]. inversion Ea; subst a'.
        rewrite ale_bytes_1 by lia. reflexivity. }
      rewrite Hd. rewrite <- app_assoc. rewrite (Hp _ (Forall_nil _) eq_refl). reflexivity.
    + destruct Hw as [Hc Hw]. cbn [app]. unfold aparse_one. rewrite Hlk. cbn [negb].
      change (q_count_and_prefix16 =? q_all_objects) with false. change (q_count_and_prefix16 =? q_range8) with false.
      change (q_count_and_prefix16 =? q_range16) with false. change (q_count_and_prefix16 =? q_count8) with false.
      change (q_count_and_prefix16 =? q_count16) with false. change (q_count_and_prefix16 =? q_count_and_prefix8) with false.
      change (q_count_and_prefix16 =? q_count_and_prefix16) with true. cbn iota. rewrite ard16_enc by assumption.
      assert (Hd : match p with PyAttr a => [lo8 (aa_set a); hi8 (aa_set a)] | _ => [] end = aindex_bytes 2 p).
      { unfold aindex_bytes. destruct p; reflexivity. }
      rewrite Hd. rewrite <- app_assoc.
      assert (Hp : aparse_prefixed o g v q_count_and_prefix16 2 c (aindex_bytes 2 p ++ apayload_bytes p ++ rest) = AOk (p, rest)).
      { unfold aparse_prefixed. unfold aprefixed_wf in Hw.
        destruct (aqkind qt_prefix g v) as [[| | | | | |]|]; try contradiction.
        - destruct Hw as [sz [dd [Hs [Hp Hn]]]]. subst p. rewrite Hs. cbn [aindex_bytes apayload_bytes app].
          assert (Ht : atake_o (dd ++ rest) ((2 + sz) * c) = AOk (dd, rest)) by (apply atake_o_iff; auto). rewrite Ht. reflexivity.
        - destruct Hw as [Hz [dd [Hp Hn]]]. subst p. rewrite Hz. cbn [aindex_bytes apayload_bytes app].
          assert (Ht : atake_o (dd ++ rest) ((v + 2) * c) = AOk (dd, rest)) by (apply atake_o_iff; auto). rewrite Ht. reflexivity.
        - destruct Hw as [Hc1 [a [Hp [Hset [Hvar Hwf]]]]]. subst p c. cbn [N.eqb Pos.eqb negb aindex_bytes apayload_bytes].
          unfold aread_field.
          assert (Ht : atake (ale_bytes (N.to_nat 2) (aa_set a) ++ aa_raw a ++ rest) 2
                       = Some (ale_bytes (N.to_nat 2) (aa_set a), aa_raw a ++ rest)).
          { apply atake_iff. split; [reflexivity|]. rewrite ale_bytes_length. reflexivity. }
          rewrite Ht. rewrite ale_val_bytes by (cbn; lia).
          assert (Hs : (255 <? aa_set a) = false) by (apply N.ltb_ge; assumption). rewrite Hs.
          rewrite (Hwf rest). rewrite afirstn_consumed. destruct a as [st vr vl rw]. cbn in *. subst. reflexivity. }
      rewrite Hp. reflexivity.
    + destruct Hw as [Hc [Hk [len [raw [info [Hp [Hlen [Hraw Hf]]]]]]]]. subst p c. cbn [app apayload_bytes].
      unfold aparse_one. rewrite Hlk. cbn [negb].
      change (q_free_format16 =? q_all_objects) with false. change (q_free_format16 =? q_range8) with false.
      change (q_free_format16 =? q_range16) with false. change (q_free_format16 =? q_count8) with false.
      change (q_free_format16 =? q_count16) with false. change (q_free_format16 =? q_count_and_prefix8) with false.
      change (q_free_format16 =? q_count_and_prefix16) with false. change (q_free_format16 =? q_free_format16) with true. cbn iota.
      cbn [N.eqb Pos.eqb negb]. rewrite ard16_enc by assumption.
      assert (Ht : atake_o (raw ++ rest) len = AOk (raw, rest)) by (apply atake_o_iff; auto). rewrite Ht.
      rewrite Hk, Hf. reflexivity.
Qed.

(* ---------------------------------------------------------------------------------------------- *)
(* Part 4: fragments — the validating first pass and the iterating second pass                      *)

Lemma aencode_header_length h : (3 <= length (aencode_header h))%nat.
Proof. unfold aencode_header. cbn [length]. lia. Qed.

Lemma afirst_err_none rs : afirst_err rs = None <-> rs = map AOk (aok_prefix rs).
Proof.
  induction rs as [|[h|e] rs IH]; cbn [afirst_err aok_prefix map].
  - split; reflexivity.
  - rewrite IH. split; [intro H; f_equal; exact H|intro H; inversion H as [H1]; rewrite <- H1; exact H1].
  - split; discriminate.
Qed.

Lemma aok_prefix_map hs : aok_prefix (map AOk hs) = hs.
Proof. induction hs as [|h hs IH]; cbn [map aok_prefix]; [reflexivity|rewrite IH; reflexivity]. Qed.

Section Fragment.
Variable o : aopts.
Variable fc : N.

(* the ObjectParser iterator yields exactly the headers hs, no error, iff the data is the concatenation of
   their encodings and each is well-formed *)
Lemma aone_pass_iff : forall hs fuel l, abytes_ok l -> (length l <= fuel)%nat ->
  (aone_pass fuel o fc l = map AOk hs
   <-> l = concat (map aencode_header hs) /\ Forall (awf_header o fc) hs).
Proof.
  induction hs as [|h hs IH]; intros fuel l Hb Hf.
  - cbn [map concat]. split.
    + intro H. destruct fuel as [|f]; [destruct l; [auto|cbn in Hf; lia]|].
      cbn [aone_pass] in H. destruct l as [|x l']; [auto|].
      destruct (aparse_one o fc (x :: l')) as [[h r]|e]; discriminate.
    + intros [Hl _]. subst l. destruct fuel; reflexivity.
  - cbn [map concat]. split.
    + intro H. destruct fuel as [|f]; [discriminate|]. cbn [aone_pass] in H.
      destruct l as [|x l']; [discriminate|].
      destruct (aparse_one o fc (x :: l')) as [[h' r]|e] eqn:Hp; [|discriminate].
      inversion H as [[Hh Hr]]. subst h'.
      apply (accept_iff_exact_bytes_header o fc _ h r Hb) in Hp. destruct Hp as [Hl Hw].
      assert (Hbr : abytes_ok r) by (rewrite Hl in Hb; apply abytes_ok_app in Hb; tauto).
      assert (Hfr : (length r <= f)%nat).
      { rewrite Hl in Hf. rewrite app_length in Hf. pose proof (aencode_header_length h). lia. }
      destruct (proj1 (IH f r Hbr Hfr) Hr) as [Er Hws]. split.
      * rewrite Hl, Er. reflexivity.
      * constructor; assumption.
    + intros [Hl Hws]. inversion Hws as [|? ? Hw Hws']; subst.
      pose proof (aencode_header_length h) as H3.
      destruct fuel as [|f]; [rewrite app_length in Hf; lia|]. cbn [aone_pass].
      destruct (aencode_header h ++ concat (map aencode_header hs)) as [|x l'] eqn:El;
        [apply (f_equal (@length N)) in El; rewrite app_length in El; cbn in El; lia|].
      rewrite <- El in *.
      assert (Hp : aparse_one o fc (aencode_header h ++ concat (map aencode_header hs)) = AOk (h, concat (map aencode_header hs)))
        by (apply accept_iff_exact_bytes_header; auto).
      rewrite Hp. f_equal. apply IH.
      * apply abytes_ok_app in Hb. tauto.
      * rewrite app_length in Hf. lia.
      * auto.
Qed.

(* P1 accept_iff_exact_bytes, whole fragment: the first pass accepts the object data of a fragment iff it
   is a concatenation of exactly-encoded, well-formed headers with every byte consumed; the second pass
   (HeaderCollection::iter) then yields precisely those headers *)
Theorem accept_iff_exact_bytes_fragment : forall l hs, abytes_ok l ->
  ((exists c, avalidate o fc l = AOk c /\ aiter_headers c = hs)
   <-> l = concat (map aencode_header hs) /\ Forall (awf_header o fc) hs).
Proof.
  intros l hs Hb. unfold avalidate, aiter_headers. split.
  - intros [c [Hv Hi]]. destruct (afirst_err (aone_pass (length l) o fc l)) as [e|] eqn:He; [discriminate|].
    inversion Hv; subst c. cbn [hc_data hc_opts hc_function] in Hi.
    apply afirst_err_none in He. rewrite Hi in He. apply (aone_pass_iff hs (length l) l Hb (le_n _)) in He. exact He.
  - intro H. apply (aone_pass_iff hs (length l) l Hb (le_n _)) in H.
    rewrite H. assert (He : afirst_err (map AOk hs) = None).
    { apply afirst_err_none. rewrite aok_prefix_map. reflexivity. }
    rewrite He. eexists. split; [reflexivity|]. cbn [hc_data hc_opts hc_function]. rewrite H. apply aok_prefix_map.
Qed.

(* the second pass sees what the first pass saw: after a successful validation the iterator never meets
   an error (the `Some(Err(_)) => None` arm of HeaderIterator::next is dead) *)
Theorem second_pass_agrees_with_first : forall l c, avalidate o fc l = AOk c ->
  aone_pass (length l) o fc l = map AOk (aiter_headers c).
Proof.
  intros l c Hv. unfold avalidate in Hv. destruct (afirst_err (aone_pass (length l) o fc l)) as [e|] eqn:He; [discriminate|].
  inversion Hv; subst c. unfold aiter_headers. cbn [hc_data hc_opts hc_function]. apply afirst_err_none. exact He.
Qed.

End Fragment.

(* ---------------------------------------------------------------------------------------------- *)
(* Part 5: iterating an accepted header                                                             *)

Definition aobj_index (ob : aobject) : option N :=
  match ob with ObBit i _ | ObDBit i _ | ObBytes i _ => Some i | ObFixed i _ => i end.

(* start, start+1, ..., start+count-1 *)
Definition arange_indices (s : N) (n : nat) : list (option N) := map (fun k => Some (s + N.of_nat k)) (seq 0 n).

Lemma arange_indices_S s n : arange_indices s (S n) = Some s :: arange_indices (s + 1) n.
Proof.
  unfold arange_indices. cbn [seq map]. f_equal; [f_equal; lia|].
  rewrite <- seq_shift, map_map. apply map_ext. intro k. f_equal. lia.
Qed.

(* the bytes of an object as the harness lists it: T::write of the fields T::read produced *)
Definition afixed_bytes (ws : list N) (ob : aobject) : list N :=
  match ob with ObFixed _ xs => awrite_fields ws xs | _ => [] end.

(* RangeIterator over SIZE * n bytes: n objects, consecutive indices (no saturation below 65536),
   and the objects are the consecutive SIZE-byte chunks of the data *)
Lemma aiter_range_spec ws : 0 < asum ws -> forall n fuel idx d, abytes_ok d ->
  N.of_nat (length d) = asum ws * N.of_nat n -> (length d < fuel)%nat ->
  ((0 < n)%nat -> idx + N.of_nat n <= 65536) ->
  map aobj_index (aiter_range fuel ws idx d) = arange_indices idx n
  /\ concat (map (afixed_bytes ws) (aiter_range fuel ws idx d)) = d.
Proof.
  intros Hpos. induction n as [|n IH]; intros fuel idx d Hb Hlen Hfuel Hidx.
  - assert (d = []) by (destruct d; [reflexivity|cbn [length] in Hlen; lia]). subst d.
    destruct fuel as [|f]; [cbn in Hfuel; lia|]. cbn [aiter_range].
    rewrite aread_fields_short by (cbn [length]; lia). split; reflexivity.
  - destruct fuel as [|f]; [lia|]. cbn [aiter_range].
    destruct (aread_fields_enough ws d) as [xs [r Hr]]; [lia|]. rewrite Hr.
    destruct (aread_fields_sound ws d xs r Hr Hb) as [Hd [Hw _]].
    assert (Hbr : abytes_ok r) by (rewrite Hd in Hb; apply abytes_ok_app in Hb; tauto).
    assert (Hlr : N.of_nat (length r) = asum ws * N.of_nat n).
    { rewrite Hd in Hlen. rewrite app_length in Hlen. lia. }
    assert (Hfr : (length r < f)%nat).
    { rewrite Hd in Hfuel. rewrite app_length in Hfuel. lia. }
    assert (Hidx' : (0 < n)%nat -> asat_inc16 idx + N.of_nat n <= 65536 /\ asat_inc16 idx = idx + 1).
    { intro Hn. unfold asat_inc16. assert (Hi : idx < 65535) by (specialize (Hidx ltac:(lia)); lia).
      apply N.ltb_lt in Hi. rewrite Hi. apply N.ltb_lt in Hi. specialize (Hidx ltac:(lia)). lia. }
    destruct (IH f (asat_inc16 idx) r Hbr Hlr Hfr ltac:(intro Hn; apply Hidx'; exact Hn)) as [IH1 IH2].
    split.
    + cbn [map aobj_index]. rewrite arange_indices_S. f_equal. rewrite IH1.
      destruct n as [|n']; [reflexivity|]. destruct (Hidx' ltac:(lia)) as [_ E]. rewrite E. reflexivity.
    + cbn [map concat afixed_bytes]. rewrite IH2. symmetry. exact Hd.
Qed.

(* CountIterator *)
Lemma aiter_count_spec ws : 0 < asum ws -> forall n fuel d, abytes_ok d ->
  N.of_nat (length d) = asum ws * N.of_nat n -> (length d < fuel)%nat ->
  length (aiter_count fuel ws d) = n
  /\ Forall (fun ob => aobj_index ob = None) (aiter_count fuel ws d)
  /\ concat (map (afixed_bytes ws) (aiter_count fuel ws d)) = d.
Proof.
  intros Hpos. induction n as [|n IH]; intros fuel d Hb Hlen Hfuel.
  - assert (d = []) by (destruct d; [reflexivity|cbn [length] in Hlen; lia]). subst d.
    destruct fuel as [|f]; [cbn in Hfuel; lia|]. cbn [aiter_count].
    rewrite aread_fields_short by (cbn [length]; lia). repeat split; constructor.
  - destruct fuel as [|f]; [lia|]. cbn [aiter_count].
    destruct (aread_fields_enough ws d) as [xs [r Hr]]; [lia|]. rewrite Hr.
    destruct (aread_fields_sound ws d xs r Hr Hb) as [Hd [Hw _]].
    assert (Hbr : abytes_ok r) by (rewrite Hd in Hb; apply abytes_ok_app in Hb; tauto).
    assert (Hlr : N.of_nat (length r) = asum ws * N.of_nat n).
    { rewrite Hd in Hlen. rewrite app_length in Hlen. lia. }
    assert (Hfr : (length r < f)%nat).
    { rewrite Hd in Hfuel. rewrite app_length in Hfuel. lia. }
    destruct (IH f r Hbr Hlr Hfr) as [IH1 [IH2 IH3]]. split; [|split].
    + cbn [length]. rewrite IH1. reflexivity.
    + constructor; [reflexivity|assumption].
    + cbn [map concat afixed_bytes]. rewrite IH3. symmetry. exact Hd.
Qed.

(* the index and the bytes of a prefixed object *)
Definition aprefixed_bytes (psize : N) (ws : list N) (ob : aobject) : list N :=
  match ob with
  | ObFixed (Some i) xs => ale_bytes (N.to_nat psize) i ++ awrite_fields ws xs
  | ObBytes i b => ale_bytes (N.to_nat psize) i ++ b
  | _ => []
  end.

Lemma aread_field_sound w l x r : aread_field w l = Some (x, r) -> abytes_ok l ->
  l = ale_bytes (N.to_nat w) x ++ r /\ N.of_nat (length (ale_bytes (N.to_nat w) x)) = w.
Proof.
  unfold aread_field. destruct (atake l w) as [[bs r0]|] eqn:Ht; [|discriminate]. intros H Hb. inversion H; subst.
  apply atake_sound in Ht. destruct Ht as [Hl Hn]. subst l. apply abytes_ok_app in Hb. destruct Hb as [Hbs _].
  rewrite <- Hn. rewrite Nat2N.id. rewrite ale_bytes_val by assumption. split; reflexivity.
Qed.

(* CountIterator over Prefix<I, T> *)
Lemma aiter_prefix_spec psize ws : 0 < asum ws -> forall n fuel d, abytes_ok d ->
  N.of_nat (length d) = (psize + asum ws) * N.of_nat n -> (length d < fuel)%nat ->
  length (aiter_prefix fuel psize ws d) = n
  /\ concat (map (aprefixed_bytes psize ws) (aiter_prefix fuel psize ws d)) = d.
Proof.
  intros Hpos. induction n as [|n IH]; intros fuel d Hb Hlen Hfuel.
  - assert (d = []) by (destruct d; [reflexivity|cbn [length] in Hlen; lia]). subst d.
    destruct fuel as [|f]; [cbn in Hfuel; lia|]. cbn [aiter_prefix]. unfold aread_field.
    destruct (atake [] psize) as [[a b]|] eqn:Ht; [|split; reflexivity].
    apply atake_sound in Ht. destruct Ht as [E Hn]. destruct a; [|discriminate]. cbn [app] in E. subst b.
    rewrite aread_fields_short by (cbn [length]; lia). split; reflexivity.
  - destruct fuel as [|f]; [lia|]. cbn [aiter_prefix].
    destruct (atake_enough d psize) as [a [b Ht]]; [lia|].
    assert (Hrf : aread_field psize d = Some (ale_val a, b)) by (unfold aread_field; rewrite Ht; reflexivity).
    rewrite Hrf. destruct (aread_field_sound _ _ _ _ Hrf Hb) as [Hd Hw].
    assert (Hbb : abytes_ok b) by (rewrite Hd in Hb; apply abytes_ok_app in Hb; tauto).
    assert (Hlb : N.of_nat (length b) = asum ws + (psize + asum ws) * N.of_nat n).
    { rewrite Hd in Hlen. rewrite app_length in Hlen. lia. }
    destruct (aread_fields_enough ws b) as [xs [r Hr]]; [lia|]. rewrite Hr.
    destruct (aread_fields_sound ws b xs r Hr Hbb) as [Hdb [Hwb _]].
    assert (Hbr : abytes_ok r) by (rewrite Hdb in Hbb; apply abytes_ok_app in Hbb; tauto).
    assert (Hlr : N.of_nat (length r) = (psize + asum ws) * N.of_nat n).
    { rewrite Hdb in Hlb. rewrite app_length in Hlb. lia. }
    assert (Hfr : (length r < f)%nat).
    { rewrite Hd, Hdb in Hfuel. rewrite !app_length in Hfuel. lia. }
    destruct (IH f r Hbr Hlr Hfr) as [IH1 IH2]. split.
    + cbn [length]. rewrite IH1. reflexivity.
    + cbn [map concat aprefixed_bytes]. rewrite IH2. rewrite <- app_assoc. rewrite <- Hdb. symmetry. exact Hd.
Qed.

(* RangedBytesIterator (with the guarded index increment): n strings of `size` bytes, consecutive indices
   start .. start+n-1, never start+n *)
Lemma aiter_rbytes_spec size : forall n fuel idx d,
  N.of_nat (length d) = size * N.of_nat n -> (n <= fuel)%nat ->
  map aobj_index (aiter_rbytes fuel size (N.of_nat n) idx d) = arange_indices idx n
  /\ concat (map (fun ob => match ob with ObBytes _ b => b | _ => [] end) (aiter_rbytes fuel size (N.of_nat n) idx d)) = d
  /\ length (aiter_rbytes fuel size (N.of_nat n) idx d) = n.
Proof.
  induction n as [|n IH]; intros fuel idx d Hlen Hfuel.
  - assert (d = []) by (destruct d; [reflexivity|cbn [length] in Hlen; lia]). subst d.
    destruct fuel; cbn [aiter_rbytes]; repeat split; reflexivity.
  - destruct fuel as [|f]; [lia|]. cbn [aiter_rbytes].
    assert (Hz : (N.of_nat (S n) =? 0) = false) by (apply N.eqb_neq; lia). rewrite Hz.
    destruct (atake_enough d size) as [a [b Ht]]; [lia|]. rewrite Ht.
    apply atake_sound in Ht. destruct Ht as [Hd Ha].
    replace (N.of_nat (S n) - 1) with (N.of_nat n) by lia.
    assert (Hlb : N.of_nat (length b) = size * N.of_nat n).
    { rewrite Hd in Hlen. rewrite app_length in Hlen. lia. }
    destruct (IH f (if 0 <? N.of_nat n then idx + 1 else idx) b Hlb ltac:(lia)) as [IH1 [IH2 IH3]]. split; [|split].
    + cbn [map aobj_index]. rewrite arange_indices_S. f_equal. rewrite IH1.
      destruct n as [|n']; [reflexivity|]. assert (Hp : (0 <? N.of_nat (S n')) = true) by (apply N.ltb_lt; lia).
      rewrite Hp. reflexivity.
    + cbn [map concat]. rewrite IH2. symmetry. exact Hd.
    + cbn [length]. rewrite IH3. reflexivity.
Qed.

(* PrefixedBytesIterator *)
Lemma aiter_pbytes_spec psize size : forall n fuel d, abytes_ok d ->
  N.of_nat (length d) = (size + psize) * N.of_nat n -> (n <= fuel)%nat ->
  length (aiter_pbytes fuel psize size (N.of_nat n) d) = n
  /\ concat (map (aprefixed_bytes psize []) (aiter_pbytes fuel psize size (N.of_nat n) d)) = d.
Proof.
  induction n as [|n IH]; intros fuel d Hb Hlen Hfuel.
  - assert (d = []) by (destruct d; [reflexivity|cbn [length] in Hlen; lia]). subst d.
    destruct fuel; cbn [aiter_pbytes]; split; reflexivity.
  - destruct fuel as [|f]; [lia|]. cbn [aiter_pbytes].
    assert (Hz : (N.of_nat (S n) =? 0) = false) by (apply N.eqb_neq; lia). rewrite Hz.
    destruct (atake_enough d psize) as [a [b Ht]]; [lia|].
    assert (Hrf : aread_field psize d = Some (ale_val a, b)) by (unfold aread_field; rewrite Ht; reflexivity).
    rewrite Hrf. destruct (aread_field_sound _ _ _ _ Hrf Hb) as [Hd Hw].
    assert (Hbb : abytes_ok b) by (rewrite Hd in Hb; apply abytes_ok_app in Hb; tauto).
    assert (Hlb : N.of_nat (length b) = size + (size + psize) * N.of_nat n).
    { rewrite Hd in Hlen. rewrite app_length in Hlen. lia. }
    destruct (atake_enough b size) as [s [r Hts]]; [lia|]. rewrite Hts.
    apply atake_sound in Hts. destruct Hts as [Hdb Hs].
    replace (N.of_nat (S n) - 1) with (N.of_nat n) by lia.
    assert (Hbr : abytes_ok r) by (rewrite Hdb in Hbb; apply abytes_ok_app in Hbb; tauto).
    assert (Hlr : N.of_nat (length r) = (size + psize) * N.of_nat n).
    { rewrite Hdb in Hlb. rewrite app_length in Hlb. lia. }
    destruct (IH f r Hbr Hlr ltac:(lia)) as [IH1 IH2]. split.
    + cbn [length]. rewrite IH1. reflexivity.
    + cbn [map concat aprefixed_bytes]. rewrite IH2. rewrite <- app_assoc. rewrite <- Hdb. symmetry. exact Hd.
Qed.

Lemma aiter_rbytes_spec' size rem fuel idx d :
  N.of_nat (length d) = size * rem -> (N.to_nat rem <= fuel)%nat ->
  map aobj_index (aiter_rbytes fuel size rem idx d) = arange_indices idx (N.to_nat rem)
  /\ concat (map (fun ob => match ob with ObBytes _ b => b | _ => [] end) (aiter_rbytes fuel size rem idx d)) = d
  /\ length (aiter_rbytes fuel size rem idx d) = N.to_nat rem.
Proof.
  intros H1 H2. pose proof (aiter_rbytes_spec size (N.to_nat rem) fuel idx d) as H.
  rewrite N2Nat.id in H. apply H; [assumption|lia].
Qed.

Lemma aiter_pbytes_spec' psize size rem fuel d : abytes_ok d ->
  N.of_nat (length d) = (size + psize) * rem -> (N.to_nat rem <= fuel)%nat ->
  length (aiter_pbytes fuel psize size rem d) = N.to_nat rem
  /\ concat (map (aprefixed_bytes psize []) (aiter_pbytes fuel psize size rem d)) = d.
Proof.
  intros Hb H1 H2. pose proof (aiter_pbytes_spec psize size (N.to_nat rem) fuel d Hb) as H.
  rewrite N2Nat.id in H. apply H; [assumption|lia].
Qed.

Lemma askipn_nth (d : list N) : forall n, (n < length d)%nat -> skipn n d = nth n d 0 :: skipn (S n) d.
Proof.
  induction d as [|x d IH]; intros n H; [cbn in H; lia|].
  destruct n as [|n]; [reflexivity|]. cbn [skipn nth length] in *. apply IH. lia.
Qed.

(* bit k of a packed bit string / double-bit k of a packed double-bit string *)
Definition abit_of (d : list N) (k : N) : bool := N.testbit (nth (N.to_nat (k / 8)) d 0) (k mod 8).
Definition adbit_of (d : list N) (k : N) : N := N.land (N.shiftr (nth (N.to_nat (k / 4)) d 0) (2 * (k mod 4))) 3.

(* BitIterator: bits pos .. count-1 with indices s+pos .. s+count-1; the index is never advanced past
   the last object *)
Lemma aiter_bits_spec s count d : count <= 8 * N.of_nat (length d) ->
  forall m fuel pos idx data, N.to_nat (count - pos) = m -> (m <= fuel)%nat -> pos <= count ->
    data = skipn (N.to_nat (pos / 8)) d -> (pos < count -> idx = s + pos) ->
    aiter_bits fuel pos count idx data
    = map (fun k => ObBit (s + pos + N.of_nat k) (abit_of d (pos + N.of_nat k))) (seq 0 m).
Proof.
  intro Hd. induction m as [|m IH]; intros fuel pos idx data Hm Hf Hp Hdata Hidx.
  - assert (E : (count <=? pos) = true) by (apply N.leb_le; lia).
    destruct fuel; cbn [aiter_bits seq map]; [reflexivity|rewrite E; reflexivity].
  - destruct fuel as [|f]; [lia|]. cbn [aiter_bits].
    assert (Hlt : pos < count) by lia.
    assert (E : (count <=? pos) = false) by (apply N.leb_gt; assumption). rewrite E.
    assert (Hn : (N.to_nat (pos / 8) < length d)%nat) by lia.
    rewrite (askipn_nth d _ Hn) in Hdata. subst data.
    cbn [seq map]. f_equal.
    + rewrite (Hidx Hlt). unfold abit_of. rewrite !N.add_0_r. reflexivity.
    + rewrite <- seq_shift, map_map.
      rewrite (IH f (pos + 1) (if pos + 1 <? count then idx + 1 else idx)
                 (if (pos + 1) mod 8 =? 0 then skipn (S (N.to_nat (pos / 8))) d
                  else nth (N.to_nat (pos / 8)) d 0 :: skipn (S (N.to_nat (pos / 8))) d)).
      * apply map_ext. intro k. f_equal; [lia|f_equal; lia].
      * lia.
      * lia.
      * lia.
      * destruct ((pos + 1) mod 8 =? 0) eqn:Em; [apply N.eqb_eq in Em|apply N.eqb_neq in Em].
        -- replace (N.to_nat ((pos + 1) / 8)) with (S (N.to_nat (pos / 8))) by lia. reflexivity.
        -- replace ((pos + 1) / 8) with (pos / 8) by lia. rewrite (askipn_nth d _ Hn). reflexivity.
      * intro H1. assert (E1 : (pos + 1 <? count) = true) by (apply N.ltb_lt; assumption). rewrite E1.
        rewrite (Hidx Hlt). lia.
Qed.

Lemma aiter_dbits_spec s count d : count <= 4 * N.of_nat (length d) ->
  forall m fuel pos idx data, N.to_nat (count - pos) = m -> (m <= fuel)%nat -> pos <= count ->
    data = skipn (N.to_nat (pos / 4)) d -> (pos < count -> idx = s + pos) ->
    aiter_dbits fuel pos count idx data
    = map (fun k => ObDBit (s + pos + N.of_nat k) (adbit_of d (pos + N.of_nat k))) (seq 0 m).
Proof.
  intro Hd. induction m as [|m IH]; intros fuel pos idx data Hm Hf Hp Hdata Hidx.
  - assert (E : (count <=? pos) = true) by (apply N.leb_le; lia).
    destruct fuel; cbn [aiter_dbits seq map]; [reflexivity|rewrite E; reflexivity].
  - destruct fuel as [|f]; [lia|]. cbn [aiter_dbits].
    assert (Hlt : pos < count) by lia.
    assert (E : (count <=? pos) = false) by (apply N.leb_gt; assumption). rewrite E.
    assert (Hn : (N.to_nat (pos / 4) < length d)%nat) by lia.
    rewrite (askipn_nth d _ Hn) in Hdata. subst data.
    cbn [seq map]. f_equal.
    + rewrite (Hidx Hlt). unfold adbit_of. rewrite !N.add_0_r. reflexivity.
    + rewrite <- seq_shift, map_map.
      rewrite (IH f (pos + 1) (if pos + 1 <? count then idx + 1 else idx)
                 (if (pos + 1) mod 4 =? 0 then skipn (S (N.to_nat (pos / 4))) d
                  else nth (N.to_nat (pos / 4)) d 0 :: skipn (S (N.to_nat (pos / 4))) d)).
      * apply map_ext. intro k. f_equal; [lia|f_equal; lia].
      * lia.
      * lia.
      * lia.
      * destruct ((pos + 1) mod 4 =? 0) eqn:Em; [apply N.eqb_eq in Em|apply N.eqb_neq in Em].
        -- replace (N.to_nat ((pos + 1) / 4)) with (S (N.to_nat (pos / 4))) by lia. reflexivity.
        -- replace ((pos + 1) / 4) with (pos / 4) by lia. rewrite (askipn_nth d _ Hn). reflexivity.
      * intro H1. assert (E1 : (pos + 1 <? count) = true) by (apply N.ltb_lt; assumption). rewrite E1.
        rewrite (Hidx Hlt). lia.
Qed.

(* ---- shape of what each iterator yields ---- *)

Definition ais_fixed (withidx : bool) (ob : aobject) : Prop :=
  match ob with ObFixed (Some _) _ => withidx = true | ObFixed None _ => withidx = false | _ => False end.
Definition ais_bytes (ob : aobject) : Prop := match ob with ObBytes _ _ => True | _ => False end.

Lemma aiter_range_shape ws : forall fuel idx d, Forall (ais_fixed true) (aiter_range fuel ws idx d).
Proof.
  induction fuel as [|f IH]; intros idx d; cbn [aiter_range]; [constructor|].
  destruct (aread_fields ws d) as [[xs r]|]; [|constructor]. constructor; [reflexivity|apply IH].
Qed.

Lemma aiter_count_shape ws : forall fuel d, Forall (ais_fixed false) (aiter_count fuel ws d).
Proof.
  induction fuel as [|f IH]; intros d; cbn [aiter_count]; [constructor|].
  destruct (aread_fields ws d) as [[xs r]|]; [|constructor]. constructor; [reflexivity|apply IH].
Qed.

Lemma aiter_prefix_shape ps ws : forall fuel d, Forall (ais_fixed true) (aiter_prefix fuel ps ws d).
Proof.
  induction fuel as [|f IH]; intros d; cbn [aiter_prefix]; [constructor|].
  destruct (aread_field ps d) as [[i r0]|]; [|constructor].
  destruct (aread_fields ws r0) as [[xs r]|]; [|constructor]. constructor; [reflexivity|apply IH].
Qed.

Lemma aiter_rbytes_shape size : forall fuel rem idx d, Forall ais_bytes (aiter_rbytes fuel size rem idx d).
Proof.
  induction fuel as [|f IH]; intros rem idx d; cbn [aiter_rbytes]; [constructor|].
  destruct (rem =? 0); [constructor|]. destruct (atake d size) as [[b r]|]; [|constructor].
  constructor; [exact I|apply IH].
Qed.

Lemma aiter_pbytes_shape ps size : forall fuel rem d, Forall ais_bytes (aiter_pbytes fuel ps size rem d).
Proof.
  induction fuel as [|f IH]; intros rem d; cbn [aiter_pbytes]; [constructor|].
  destruct (rem =? 0); [constructor|]. destruct (aread_field ps d) as [[i r0]|]; [|constructor].
  destruct (atake r0 size) as [[b r]|]; [|constructor]. constructor; [exact I|apply IH].
Qed.

Lemma amap_ext_Forall {A B} (P : A -> Prop) (f g : A -> B) l :
  Forall P l -> (forall x, P x -> f x = g x) -> map f l = map g l.
Proof. intros HF H. induction HF as [|x l Hx HF IH]; cbn [map]; [reflexivity|]. rewrite (H x Hx), IH. reflexivity. Qed.

(* an entry of the canonical listing together with its index prefix *)
Definition aentry_bytes (psize : N) (x : option N * list N) : list N :=
  match fst x with Some i => ale_bytes (N.to_nat psize) i ++ snd x | None => snd x end.

(* what iterating a header must produce, given only its validated payload *)
Definition aiterate_spec (h : aobj_header) : Prop :=
  match oh_payload h with
  | PyNone | PyAttr _ | PyFree _ _ _ => aiterate h = []
  | PyBits s c d =>
      aiterate h = map (fun k => ObBit (s + N.of_nat k) (abit_of d (N.of_nat k))) (seq 0 (N.to_nat c))
  | PyDBits s c d =>
      aiterate h = map (fun k => ObDBit (s + N.of_nat k) (adbit_of d (N.of_nat k))) (seq 0 (N.to_nat c))
  | PyFixedRange s c d | PyOctetsRange s c d =>
      map fst (alisting h) = arange_indices s (N.to_nat c) /\ concat (map snd (alisting h)) = d
  | PyFixedCount c d =>
      length (alisting h) = N.to_nat c /\ Forall (fun x => fst x = None) (alisting h)
      /\ concat (map snd (alisting h)) = d
  | PyFixedPrefix ps c d | PyOctetsPrefix ps c d =>
      length (alisting h) = N.to_nat c /\ concat (map (aentry_bytes ps) (alisting h)) = d
  end.

(* the index range a payload was validated for *)
Definition apayload_range (p : apayload) : option (N * N) :=
  match p with
  | PyBits s c _ | PyDBits s c _ | PyFixedRange s c _ | PyOctetsRange s c _ => Some (s, c)
  | _ => None
  end.

Definition adetails_range (d : ahdetails) : option (N * N) :=
  match d with HRange8 a b | HRange16 a b => Some (a, b) | _ => None end.

Lemma alisting_fst h : map fst (alisting h) = map aobj_index (aiterate h).
Proof.
  unfold alisting. rewrite map_map. apply map_ext. intros [i b|i v|i xs|i d]; reflexivity.
Qed.

Lemma afixed_sizes g v fi sz : afixed g v = Some fi -> asize g v = Some sz ->
  asum (awidths fi) = sz /\ 0 < asum (awidths fi) /\ awidths_w fi = awidths fi.
Proof.
  intros Hf Hs. unfold asize in Hs. rewrite Hf in Hs. inversion Hs; subst.
  apply afixed_in in Hf. destruct Hf as [Hin _].
  rewrite <- (size_is_sum_of_fields fi Hin). split; [reflexivity|]. split; [apply fixed_size_positive; assumption|].
  apply awidths_same; assumption.
Qed.

Lemma asize_fixed g v sz : asize g v = Some sz -> exists fi, afixed g v = Some fi.
Proof. unfold asize. destruct (afixed g v) as [fi|]; [eauto|discriminate]. Qed.

Lemma aceil_div_bound c k : 0 < k -> c <= k * aceil_div c k.
Proof. intro Hk. unfold aceil_div. nia. Qed.

(* P1 iterate_agrees_with_validate: iterating a header the first pass accepted yields exactly `count`
   objects (none for READ ranges and header-only variations); for ranges their indices are
   start, start+1, ..., stop with stop <= 65535 (the u16 index never wraps or saturates); the objects are,
   in order, the consecutive chunks of the object data the first pass measured (every byte of it, nothing
   else), bit k of a packed string being bit k mod 8 of byte k / 8 *)
Ltac aunf := unfold aiterate_spec, alisting, aiterate; cbn [amk oh_payload oh_g oh_v].

Theorem iterate_agrees_with_validate : forall o fc h, awf_header o fc h -> abytes_ok (apayload_bytes (oh_payload h)) ->
  aiterate_spec h
  /\ (forall a b s c, adetails_range (oh_details h) = Some (a, b) -> apayload_range (oh_payload h) = Some (s, c) ->
        s = a /\ s + c = b + 1 /\ b <= 65535).
Proof.
  intros o fc [g v d p] Hw Hb. unfold awf_header in Hw. cbn [oh_g oh_v oh_details oh_payload] in *.
  destruct Hw as [Hlk Hw].
  assert (Hranged : forall a b, a <= b -> b < 65536 -> aranged_wf o fc g v a (b - a + 1) p ->
            aiterate_spec (amk g v d p)
            /\ (forall s c, apayload_range p = Some (s, c) -> s = a /\ s + c = b + 1 /\ b <= 65535)).
  { intros a b Hab Hb6 Hr. unfold aranged_wf in Hr. 
    destruct (aqkind (if fc =? fc_read then qt_range_read else qt_range) g v) as [[| | | | | |]|]; try contradiction.
    - subst p. aunf. split; [reflexivity|]. intros s c E. discriminate.
    - destruct Hr as [dd [Hp Hn]]. subst p. aunf. split.
      + pose proof (aceil_div_bound (b - a + 1) 8 ltac:(lia)) as Hc.
        rewrite (aiter_bits_spec a (b - a + 1) dd ltac:(lia) (N.to_nat (b - a + 1)) _ 0 a dd); try lia; try reflexivity.
        apply map_ext. intro k. f_equal; try lia; f_equal; lia.
      + intros s c E. inversion E; subst. lia.
    - destruct Hr as [dd [Hp Hn]]. subst p. aunf. split.
      + pose proof (aceil_div_bound (b - a + 1) 4 ltac:(lia)) as Hc.
        rewrite (aiter_dbits_spec a (b - a + 1) dd ltac:(lia) (N.to_nat (b - a + 1)) _ 0 a dd); try lia; try reflexivity.
        apply map_ext. intro k. f_equal; try lia; f_equal; lia.
      + intros s c E. inversion E; subst. lia.
    - destruct Hr as [sz [dd [Hs [Hp Hn]]]]. subst p. aunf. cbn [apayload_bytes] in Hb. split.
      + destruct (asize_fixed _ _ _ Hs) as [fi Hf]. rewrite Hf.
        destruct (afixed_sizes _ _ _ _ Hf Hs) as [Hsum [Hpos Hww]].
        destruct (aiter_range_spec (awidths fi) Hpos (N.to_nat (b - a + 1)) (S (length dd)) a dd Hb) as [S1 S2]; try lia.
        split.
        * rewrite map_map. rewrite <- S1. apply map_ext. intros [i bb|i vv|i xs|i ddd]; reflexivity.
        * rewrite map_map. etransitivity; [|exact S2]. f_equal.
          apply (amap_ext_Forall (ais_fixed true)); [apply aiter_range_shape|].
          intros [i bb|i vv|[i|] xs|i ddd] Hsh; try contradiction; try discriminate.
          unfold amk; cbn [aobject_bytes snd afixed_bytes oh_g oh_v]. rewrite Hf, Hww. reflexivity.
      + intros s c E. inversion E; subst. lia.
    - destruct Hr as [Hz [dd [Hp Hn]]]. subst p. aunf. split.
      + destruct (aiter_rbytes_spec' v (b - a + 1) (N.to_nat (b - a + 1)) a dd) as [S1 [S2 _]]; try lia.
        split.
        * rewrite map_map. rewrite <- S1. apply map_ext. intros [i bb|i vv|i xs|i ddd]; reflexivity.
        * rewrite map_map. etransitivity; [|exact S2]. f_equal.
          apply (amap_ext_Forall ais_bytes); [apply aiter_rbytes_shape|].
          intros [i bb|i vv|i xs|i ddd] Hsh; try contradiction. reflexivity.
      + intros s c E. inversion E; subst. lia.
    - destruct Hr as [_ [_ [aa [Hp _]]]]. subst p. aunf. split; [reflexivity|]. intros s c E. discriminate. }
  assert (Hcount : forall c, acount_wf g v c p -> aiterate_spec (amk g v d p) /\ apayload_range p = None).
  { intros c Hc. unfold acount_wf in Hc. 
    destruct (aqkind qt_count g v) as [[| | | | | |]|]; try contradiction.
    - subst p. aunf. split; reflexivity.
    - destruct Hc as [sz [dd [Hs [Hp Hn]]]]. subst p. aunf. cbn [apayload_bytes] in Hb. split; [|reflexivity].
      destruct (asize_fixed _ _ _ Hs) as [fi Hf]. rewrite Hf.
      destruct (afixed_sizes _ _ _ _ Hf Hs) as [Hsum [Hpos Hww]].
      destruct (aiter_count_spec (awidths fi) Hpos (N.to_nat c) (S (length dd)) dd Hb) as [S1 [S2 S3]]; try lia.
      split; [|split].
      + rewrite map_length. exact S1.
      + apply Forall_forall. intros x Hx. apply in_map_iff in Hx. destruct Hx as [ob [Ex Hin]]. subst x.
        rewrite Forall_forall in S2. specialize (S2 ob Hin). destruct ob; try discriminate; cbn in *; assumption.
      + rewrite map_map. etransitivity; [|exact S3]. f_equal.
        apply (amap_ext_Forall (ais_fixed false)); [apply aiter_count_shape|].
        intros [i bb|i vv|[i|] xs|i ddd] Hsh; try contradiction; try discriminate.
        unfold amk; cbn [aobject_bytes snd afixed_bytes oh_g oh_v]. rewrite Hf, Hww. reflexivity. }
  assert (Hpref : forall ps c, aprefixed_wf o g v ps c p -> aiterate_spec (amk g v d p) /\ apayload_range p = None).
  { intros ps c Hc. unfold aprefixed_wf in Hc. 
    destruct (aqkind qt_prefix g v) as [[| | | | | |]|]; try contradiction.
    - destruct Hc as [sz [dd [Hs [Hp Hn]]]]. subst p. aunf. cbn [apayload_bytes] in Hb. split; [|reflexivity].
      destruct (asize_fixed _ _ _ Hs) as [fi Hf]. rewrite Hf.
      destruct (afixed_sizes _ _ _ _ Hf Hs) as [Hsum [Hpos Hww]].
      destruct (aiter_prefix_spec ps (awidths fi) Hpos (N.to_nat c) (S (length dd)) dd Hb) as [S1 S2]; try lia.
      split.
      + rewrite map_length. exact S1.
      + rewrite map_map. etransitivity; [|exact S2]. f_equal.
        apply (amap_ext_Forall (ais_fixed true)); [apply aiter_prefix_shape|].
        intros [i bb|i vv|[i|] xs|i ddd] Hsh; try contradiction; try discriminate.
        unfold aentry_bytes, amk. cbn [aobject_bytes fst snd aprefixed_bytes oh_g oh_v]. rewrite Hf, Hww. reflexivity.
    - destruct Hc as [Hz [dd [Hp Hn]]]. subst p. aunf. cbn [apayload_bytes] in Hb. split; [|reflexivity].
      destruct (aiter_pbytes_spec' ps v c (N.to_nat c) dd Hb) as [S1 S2]; try lia.
      split.
      + rewrite map_length. exact S1.
      + rewrite map_map. etransitivity; [|exact S2]. f_equal.
        apply (amap_ext_Forall ais_bytes); [apply aiter_pbytes_shape|].
        intros [i bb|i vv|i xs|i ddd] Hsh; try contradiction. reflexivity.
    - destruct Hc as [_ [aa [Hp _]]]. subst p. aunf. split; reflexivity. }
  unfold amk in *.
  destruct d as [|a b|a b|c|c|c|c|c]; cbn [adetails_range].
  - destruct Hw as [_ Hp]. subst p. split; [reflexivity|]. intros; discriminate.
  - destruct Hw as [Hab [Hb2 Hr]]. destruct (Hranged a b Hab ltac:(lia) Hr) as [H1 H2]. split; [exact H1|].
    intros a' b' s c E1 E2. inversion E1; subst. apply H2. exact E2.
  - destruct Hw as [Hab [Hb2 Hr]]. destruct (Hranged a b Hab Hb2 Hr) as [H1 H2]. split; [exact H1|].
    intros a' b' s c E1 E2. inversion E1; subst. apply H2. exact E2.
  - destruct Hw as [_ Hc]. destruct (Hcount c Hc) as [H1 _]. split; [exact H1|]. intros; discriminate.
  - destruct Hw as [_ Hc]. destruct (Hcount c Hc) as [H1 _]. split; [exact H1|]. intros; discriminate.
  - destruct Hw as [_ Hc]. destruct (Hpref 1 c Hc) as [H1 _]. split; [exact H1|]. intros; discriminate.
  - destruct Hw as [_ Hc]. destruct (Hpref 2 c Hc) as [H1 _]. split; [exact H1|]. intros; discriminate.
  - destruct Hw as [_ [_ [len [raw [info [Hp _]]]]]]. subst p. split; [reflexivity|]. intros; discriminate.
Qed.

(* ---------------------------------------------------------------------------------------------- *)
(* Part 6: the application header (control octet, function code, IIN)                               *)

Lemma actl_to_of : forall x, x < 256 -> actl_to (actl_of x) = x.
Proof.
  assert (H : forallb (fun x => actl_to (actl_of x) =? x) (nrange 256) = true) by (vm_compute; reflexivity).
  intros x Hx. rewrite forallb_forall in H. apply N.eqb_eq. apply H.
  unfold nrange. replace x with (N.of_nat (N.to_nat x)) by lia. apply in_map. apply in_seq. lia.
Qed.

Lemma actl_of_to : forall c, ac_seq c < 16 -> actl_of (actl_to c) = c.
Proof.
  intros [fir fin con uns s] Hs. cbn [ac_seq] in Hs.
  assert (H : s = 0 \/ s = 1 \/ s = 2 \/ s = 3 \/ s = 4 \/ s = 5 \/ s = 6 \/ s = 7 \/ s = 8
              \/ s = 9 \/ s = 10 \/ s = 11 \/ s = 12 \/ s = 13 \/ s = 14 \/ s = 15) by lia.
  destruct fir, fin, con, uns;
    repeat (destruct H as [H|H]; [subst s; reflexivity|]); subst s; reflexivity.
Qed.

(* the header a writer emits is parsed back: control bits, sequence, function, IIN, and the objects are
   everything that follows *)
Theorem header_round_trip : forall h objs, ac_seq (ah_control h) < 16 -> afunction_known (ah_function h) = true ->
  (afunction_has_iin (ah_function h) = true <-> ah_iin h <> None) ->
  aparse_header (awrite_header h ++ objs) = AOk (h, objs).
Proof.
  intros [c f iin] objs Hs Hk Hi. cbn [ah_control ah_function ah_iin] in *.
  unfold awrite_header, aparse_header. cbn [ah_control ah_function ah_iin app]. rewrite Hk.
  rewrite (actl_of_to c Hs). destruct (afunction_has_iin f) eqn:Hf.
  - destruct iin as [[i1 i2]|]; [reflexivity|]. exfalso. apply (proj1 Hi); reflexivity.
  - destruct iin as [[i1 i2]|]; [|reflexivity]. exfalso. assert (false = true) by (apply Hi; discriminate). discriminate.
Qed.

(* and the header parser accepts only what such a writer could have written *)
Theorem header_parse_exact : forall l h objs, abytes_ok l -> aparse_header l = AOk (h, objs) ->
  l = awrite_header h ++ objs /\ afunction_known (ah_function h) = true
  /\ ac_seq (ah_control h) < 16 /\ (afunction_has_iin (ah_function h) = true <-> ah_iin h <> None).
Proof.
  intros l h objs Hb H. unfold aparse_header in H. destruct l as [|c [|f r]]; try discriminate.
  apply abytes_ok_cons in Hb. destruct Hb as [Hc _].
  assert (Hseq : ac_seq (actl_of c) < 16).
  { unfold actl_of. cbn [ac_seq]. change ctrl_seq_mask with (N.ones 4). rewrite N.land_ones.
    change (2 ^ 4) with 16. apply N.mod_lt. lia. }
  destruct (afunction_known f) eqn:Hk; [|discriminate]. destruct (afunction_has_iin f) eqn:Hi.
  - destruct r as [|i1 [|i2 r']]; try discriminate. inversion H; subst. unfold awrite_header.
    cbn [ah_control ah_function ah_iin app]. rewrite (actl_to_of c Hc). repeat split; auto; discriminate.
  - inversion H; subst. unfold awrite_header. cbn [ah_control ah_function ah_iin app].
    rewrite (actl_to_of c Hc). split; [reflexivity|]. split; [assumption|]. split; [assumption|].
    split; [intro Hn; congruence|intro Hn; exfalso; apply Hn; reflexivity].
Qed.
