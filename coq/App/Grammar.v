(* App/Grammar.v — model of the object-header grammar: dnp3/src/app/parse/{parser,range,count,prefix,bit,
   bytes,free_format}.rs, the framing of app/attr.rs (AttrValue::parse) and of app/file/g70v*.rs.
   The group/variation lookup, the sizes and field lists of the fixed-size variations, the
   variation -> data-kind table of every qualifier family and the qualifier codes are GENERATED
   (gen/Variations.v, gen/Qualifiers.v); this file is the generic walker over those tables.
   Definitions only.  A cursor is the list of bytes not yet consumed. *)
From Dnp3V Require Export App.AppHeader.
From Dnp3V Require Export gen.Variations gen.Qualifiers.
Open Scope N_scope.

(* ---- cursor primitives (scursor::ReadCursor) ------------------------------------------------ *)

(* read_bytes(n): the first n bytes and the rest, None when fewer than n remain *)
Fixpoint atake (l : list N) (n : N) {struct l} : option (list N * list N) :=
  if n =? 0 then Some ([], l)
  else match l with
       | [] => None
       | x :: r => match atake r (N.pred n) with
                   | Some (a, b) => Some (x :: a, b)
                   | None => None
                   end
       end.

Definition ard8 (l : list N) : option (N * list N) :=
  match l with x :: r => Some (x, r) | [] => None end.

Definition ard16 (l : list N) : option (N * list N) :=
  match l with lo :: hi :: r => Some (le16 lo hi, r) | _ => None end.

(* little-endian value of a byte string / the k low bytes of a number *)
Fixpoint ale_val (bs : list N) : N :=
  match bs with [] => 0 | b :: r => b + 256 * ale_val r end.

Fixpoint ale_bytes (k : nat) (x : N) : list N :=
  match k with O => [] | S k' => x mod 256 :: ale_bytes k' (x / 256) end.

(* one field of w bytes *)
Definition aread_field (w : N) (l : list N) : option (N * list N) :=
  match atake l w with Some (bs, r) => Some (ale_val bs, r) | None => None end.

(* T::read: the fields in order; None = ReadError *)
Fixpoint aread_fields (ws : list N) (l : list N) : option (list N * list N) :=
  match ws with
  | [] => Some ([], l)
  | w :: ws' =>
      match aread_field w l with
      | Some (x, r) => match aread_fields ws' r with
                       | Some (xs, r') => Some (x :: xs, r')
                       | None => None
                       end
      | None => None
      end
  end.

(* T::write *)
Fixpoint awrite_fields (ws : list N) (xs : list N) : list N :=
  match ws, xs with
  | w :: ws', x :: xs' => ale_bytes (N.to_nat w) x ++ awrite_fields ws' xs'
  | _, _ => []
  end.

(* ---- generated tables ------------------------------------------------------------------------ *)

Definition alookup_row (g : N) : option (N * list N * option (list N)) :=
  find (fun e => fst (fst e) =? g) lookup_table.

Definition amem (v : N) (l : list N) : bool := existsb (N.eqb v) l.

(* Variation::lookup(g, v) is Some _ *)
Definition alookup (g v : N) : bool :=
  match alookup_row g with
  | Some (_, named, wild) =>
      amem v named || match wild with Some excluded => negb (amem v excluded) | None => false end
  | None => false
  end.

(* lookup(g, v) is one of the named variants GroupGVarV (as opposed to the wildcard GroupG(v)) *)
Definition anamed (g v : N) : bool :=
  match alookup_row g with Some (_, named, _) => amem v named | None => false end.

Definition apat_matches (g v : N) (e : N * vpat * dkind) : bool :=
  (fst (fst e) =? g) && match snd (fst e) with PExact x => v =? x | PAny => negb (anamed g v) end.

(* the arm of the generated `match v` that fires; None = InvalidQualifierForVariation *)
Definition aqkind (t : qtable) (g v : N) : option dkind :=
  match find (apat_matches g v) t with Some e => Some (snd e) | None => None end.

Definition afixed (g v : N) : option fixed_info :=
  find (fun fi => (fi_g fi =? g) && (fi_v fi =? v)) fixed_table.

Definition awidths (fi : fixed_info) : list N := map (fun f => fwidth (snd f)) (fi_read fi).
Definition awidths_w (fi : fixed_info) : list N := map (fun f => fwidth (snd f)) (fi_write fi).

(* ---- errors ----------------------------------------------------------------------------------- *)

Inductive aattr_err :=
| AARead | AAUnknownType (x : N) | AAIntLength (x : N) | AAFloatLength (x : N) | AATimeLength (x : N)
| AAListLength (x : N) | AAVisibleString | AASetId (x : N) | AACount (x : N).

Inductive aobj_err :=
| OEUnknownGV (g v : N) | OEUnknownQual (q : N) | OEInsufficient | OEInvalidRange (start stop : N)
| OEInvalidQual (g v q : N) | OEFreeCount (c : N) | OEZeroLength | OEBadAttr (e : aattr_err) | OEBadEncoding.

Record aopts := { ao_zero_length_strings : bool }.

(* ---- UTF-8 well-formedness (core::str::from_utf8 accepts exactly the well-formed sequences) ---- *)

Definition ain (lo hi x : N) : bool := (lo <=? x) && (x <=? hi).
Definition acont (x : N) : bool := ain 128 191 x.

Fixpoint autf8 (l : list N) : bool :=
  match l with
  | [] => true
  | b0 :: r =>
      if b0 <? 128 then autf8 r
      else if ain 194 223 b0 then
        match r with b1 :: r1 => acont b1 && autf8 r1 | _ => false end
      else if ain 224 239 b0 then
        match r with
        | b1 :: b2 :: r2 =>
            (if b0 =? 224 then ain 160 191 b1 else if b0 =? 237 then ain 128 159 b1 else acont b1)
            && acont b2 && autf8 r2
        | _ => false
        end
      else if ain 240 244 b0 then
        match r with
        | b1 :: b2 :: b3 :: r3 =>
            (if b0 =? 240 then ain 144 191 b1 else if b0 =? 244 then ain 128 143 b1 else acont b1)
            && acont b2 && acont b3 && autf8 r3
        | _ => false
        end
      else false
  end.

(* ---- device attributes: AttrValue::parse (type code, length, payload) -------------------------- *)

Inductive aattr_value :=
| AvVStr (b : list N) | AvUInt (x : N) | AvInt (x : N) | AvF32 (bits : N) | AvF64 (bits : N)
| AvOStr (b : list N) | AvBStr (b : list N) | AvTime (x : N) | AvList (b : list N).

(* i8 as i32 as u32, i16 as i32 as u32 *)
Definition asext8 (x : N) : N := if x <? 128 then x else x + 4294967040.
Definition asext16 (x : N) : N := if x <? 32768 then x else x + 4294901760.

Definition aread_n (w : N) (l : list N) : ares (N * list N) aattr_err :=
  match aread_field w l with Some p => AOk p | None => AErr AARead end.

Definition atake_e (l : list N) (n : N) : ares (list N * list N) aattr_err :=
  match atake l n with Some p => AOk p | None => AErr AARead end.

Definition aattr_list (l : list N) (len : N) : ares (aattr_value * list N) aattr_err :=
  if negb (len mod 2 =? 0) then AErr (AAListLength len)
  else match atake_e l len with AOk (b, r) => AOk (AvList b, r) | AErr e => AErr e end.

(* the payload that follows the type code `ty` and the length octet `len` *)
Definition aattr_payload (ty len : N) (l2 : list N) : ares (aattr_value * list N) aattr_err :=
  if ty =? attr_visible_string then
    match atake_e l2 len with
    | AOk (b, r) => if autf8 b then AOk (AvVStr b, r) else AErr AAVisibleString
    | AErr e => AErr e
    end
  else if ty =? attr_unsigned_int then
    if (len =? 1) || (len =? 2) || (len =? 4) then
      match aread_n len l2 with AOk (x, r) => AOk (AvUInt x, r) | AErr e => AErr e end
    else AErr (AAIntLength len)
  else if ty =? attr_signed_int then
    if len =? 1 then
      match aread_n 1 l2 with AOk (x, r) => AOk (AvInt (asext8 x), r) | AErr e => AErr e end
    else if len =? 4 then
      match aread_n 4 l2 with AOk (x, r) => AOk (AvInt x, r) | AErr e => AErr e end
    else if len =? 2 then
      match aread_n 2 l2 with AOk (x, r) => AOk (AvInt (asext16 x), r) | AErr e => AErr e end
    else AErr (AAIntLength len)
  else if ty =? attr_floating_point then
    if len =? 4 then match aread_n 4 l2 with AOk (x, r) => AOk (AvF32 x, r) | AErr e => AErr e end
    else if len =? 8 then match aread_n 8 l2 with AOk (x, r) => AOk (AvF64 x, r) | AErr e => AErr e end
    else AErr (AAFloatLength len)
  else if ty =? attr_octet_string then
    match atake_e l2 len with AOk (b, r) => AOk (AvOStr b, r) | AErr e => AErr e end
  else if ty =? attr_bit_string then
    match atake_e l2 len with AOk (b, r) => AOk (AvBStr b, r) | AErr e => AErr e end
  else if ty =? attr_dnp3_time then
    if len =? 6 then match aread_n 6 l2 with AOk (x, r) => AOk (AvTime x, r) | AErr e => AErr e end
    else AErr (AATimeLength len)
  else if ty =? attr_attr_list then aattr_list l2 len
  else aattr_list l2 (len + 256).

Definition aattr_types : list N :=
  [attr_visible_string; attr_unsigned_int; attr_signed_int; attr_floating_point;
   attr_octet_string; attr_bit_string; attr_dnp3_time; attr_attr_list; attr_ext_attr_list].

Definition aparse_attr_value (l : list N) : ares (aattr_value * list N) aattr_err :=
  match l with
  | [] => AErr AARead
  | ty :: l1 =>
      if negb (amem ty aattr_types) then AErr (AAUnknownType ty)
      else match l1 with
           | [] => AErr AARead
           | len :: l2 => aattr_payload ty len l2
           end
  end.

(* VariationListIter: (variation, properties & 1) pairs *)
Fixpoint aattr_items (b : list N) : list N :=
  match b with
  | v :: p :: r => v :: N.land p 1 :: aattr_items r
  | _ => []
  end.

(* aa_raw: the octets AttrValue::parse consumed (type code, length, payload) *)
Record aattribute := { aa_set : N; aa_var : N; aa_value : aattr_value; aa_raw : list N }.

(* ---- free-format objects (g70): lengths, offsets and string well-formedness only ---------------- *)

Definition askip (l : list N) (n : N) : ares (list N) aobj_err :=
  match atake l n with Some (_, r) => AOk r | None => AErr OEInsufficient end.

Definition ard16e (l : list N) : ares (N * list N) aobj_err :=
  match ard16 l with Some p => AOk p | None => AErr OEInsufficient end.

Definition atake_o (l : list N) (n : N) : ares (list N * list N) aobj_err :=
  match atake l n with Some p => AOk p | None => AErr OEInsufficient end.

(* returns the lengths the harness lists and the unread rest (expect_empty is applied by the caller) *)
Definition aparse_free (v : N) (l : list N) : ares (list N * list N) aobj_err :=
  if v =? 2 then
    match ard16e l with AErr e => AErr e | AOk (off, l1) =>
    if negb (off =? g70v2_user_name_offset) then AErr OEBadEncoding else
    match ard16e l1 with AErr e => AErr e | AOk (ulen, l2) =>
    if 65535 <? g70v2_user_name_offset + ulen then AErr OEBadEncoding else
    match ard16e l2 with AErr e => AErr e | AOk (poff, l3) =>
    if negb (poff =? g70v2_user_name_offset + ulen) then AErr OEBadEncoding else
    match ard16e l3 with AErr e => AErr e | AOk (plen, l4) =>
    match askip l4 4 with AErr e => AErr e | AOk l5 =>
    match atake_o l5 ulen with AErr e => AErr e | AOk (user, l6) =>
    match atake_o l6 plen with AErr e => AErr e | AOk (pass, l7) =>
    if autf8 user && autf8 pass then AOk ([ulen; plen], l7) else AErr OEBadEncoding
    end end end end end end end
  else if v =? 3 then
    match ard16e l with AErr e => AErr e | AOk (off, l1) =>
    if negb (off =? g70v3_file_name_offset) then AErr OEBadEncoding else
    match ard16e l1 with AErr e => AErr e | AOk (flen, l2) =>
    match askip l2 22 with AErr e => AErr e | AOk l3 =>
    match atake_o l3 flen with AErr e => AErr e | AOk (name, l4) =>
    if autf8 name then AOk ([flen], l4) else AErr OEBadEncoding
    end end end end
  else if v =? 4 then
    match askip l 13 with AErr e => AErr e | AOk l1 =>
    if autf8 l1 then AOk ([N.of_nat (length l1)], []) else AErr OEBadEncoding end
  else if v =? 5 then
    match askip l 8 with AErr e => AErr e | AOk l1 => AOk ([N.of_nat (length l1)], []) end
  else if v =? 6 then
    match askip l 9 with AErr e => AErr e | AOk l1 =>
    if autf8 l1 then AOk ([N.of_nat (length l1)], []) else AErr OEBadEncoding end
  else if v =? 7 then
    match ard16e l with AErr e => AErr e | AOk (off, l1) =>
    if negb (off =? g70v7_file_name_offset) then AErr OEBadEncoding else
    match ard16e l1 with AErr e => AErr e | AOk (flen, l2) =>
    match askip l2 16 with AErr e => AErr e | AOk l3 =>
    match atake_o l3 flen with AErr e => AErr e | AOk (name, l4) =>
    if autf8 name then AOk ([flen], l4) else AErr OEBadEncoding
    end end end end
  else if v =? 8 then
    if autf8 l then AOk ([N.of_nat (length l)], []) else AErr OEBadEncoding
  else AErr OEBadEncoding.

(* ---- object headers ---------------------------------------------------------------------------- *)

Inductive ahdetails :=
| HAll
| HRange8 (start stop : N) | HRange16 (start stop : N)
| HCount8 (c : N) | HCount16 (c : N)
| HPrefix8 (c : N) | HPrefix16 (c : N)
| HFree (c : N).

(* the validated, not yet iterated object data of one header (BitSequence, RangedSequence<T>, ...) *)
Inductive apayload :=
| PyNone
| PyBits (start count : N) (data : list N)
| PyDBits (start count : N) (data : list N)
| PyFixedRange (start count : N) (data : list N)
| PyFixedCount (count : N) (data : list N)
| PyFixedPrefix (psize count : N) (data : list N)
| PyOctetsRange (start count : N) (data : list N)
| PyOctetsPrefix (psize count : N) (data : list N)
| PyAttr (a : aattribute)
| PyFree (len : N) (raw : list N) (info : list N).

Record aobj_header := { oh_g : N; oh_v : N; oh_details : ahdetails; oh_payload : apayload }.

Definition aqualifier (d : ahdetails) : N :=
  match d with
  | HAll => q_all_objects
  | HRange8 _ _ => q_range8 | HRange16 _ _ => q_range16
  | HCount8 _ => q_count8 | HCount16 _ => q_count16
  | HPrefix8 _ => q_count_and_prefix8 | HPrefix16 _ => q_count_and_prefix16
  | HFree _ => q_free_format16
  end.

Definition aceil_div (a b : N) : N := (a + (b - 1)) / b.

(* Range::from: (start, count) *)
Definition amk_range (start stop : N) : option (N * N) :=
  if stop <? start then None else Some (start, stop - start + 1).

Definition asize (g v : N) : option N :=
  match afixed g v with Some fi => Some (fi_size fi) | None => None end.

(* RangedVariation::parse for a validated range *)
Definition aparse_ranged (o : aopts) (fc g v q start count : N) (l : list N) : ares (apayload * list N) aobj_err :=
  let t := if fc =? fc_read then qt_range_read else qt_range in
  match aqkind t g v with
  | None => AErr (OEInvalidQual g v q)
  | Some DNone => AOk (PyNone, l)
  | Some DBits =>
      match atake_o l (aceil_div count 8) with AOk (d, r) => AOk (PyBits start count d, r) | AErr e => AErr e end
  | Some DDoubleBits =>
      match atake_o l (aceil_div count 4) with AOk (d, r) => AOk (PyDBits start count d, r) | AErr e => AErr e end
  | Some DFixed =>
      match asize g v with
      | Some sz => match atake_o l (sz * count) with AOk (d, r) => AOk (PyFixedRange start count d, r) | AErr e => AErr e end
      | None => AErr (OEInvalidQual g v q)
      end
  | Some DOctets =>
      if (v =? 0) && negb (ao_zero_length_strings o) then AErr OEZeroLength
      else match atake_o l (v * count) with AOk (d, r) => AOk (PyOctetsRange start count d, r) | AErr e => AErr e end
  | Some DAttr =>
      if 255 <? start then AErr (OEBadAttr (AASetId start))
      else if negb (count =? 1) then AErr (OEBadAttr (AACount count))
      else match aparse_attr_value l with
           | AOk (val, r) =>
               AOk (PyAttr {| aa_set := start; aa_var := v; aa_value := val;
                              aa_raw := firstn (length l - length r) l |}, r)
           | AErr e => AErr (OEBadAttr e)
           end
  | Some DFree => AErr (OEInvalidQual g v q)
  end.

(* CountVariation::parse *)
Definition aparse_count (g v q count : N) (l : list N) : ares (apayload * list N) aobj_err :=
  match aqkind qt_count g v with
  | Some DNone => AOk (PyNone, l)
  | Some DFixed =>
      match asize g v with
      | Some sz => match atake_o l (sz * count) with AOk (d, r) => AOk (PyFixedCount count d, r) | AErr e => AErr e end
      | None => AErr (OEInvalidQual g v q)
      end
  | _ => AErr (OEInvalidQual g v q)
  end.

(* PrefixedVariation::<I>::parse, psize = I::SIZE *)
Definition aparse_prefixed (o : aopts) (g v q psize count : N) (l : list N) : ares (apayload * list N) aobj_err :=
  match aqkind qt_prefix g v with
  | Some DFixed =>
      match asize g v with
      | Some sz => match atake_o l ((psize + sz) * count) with
                   | AOk (d, r) => AOk (PyFixedPrefix psize count d, r) | AErr e => AErr e end
      | None => AErr (OEInvalidQual g v q)
      end
  | Some DOctets =>
      if (v =? 0) && negb (ao_zero_length_strings o) then AErr OEZeroLength
      else match atake_o l ((v + psize) * count) with
           | AOk (d, r) => AOk (PyOctetsPrefix psize count d, r) | AErr e => AErr e end
  | Some DAttr =>
      if negb (count =? 1) then AErr (OEBadAttr (AACount count))
      else match aread_field psize l with
           | None => AErr OEInsufficient
           | Some (idx, l1) =>
               if 255 <? idx then AErr (OEBadAttr (AASetId idx))
               else match aparse_attr_value l1 with
                    | AOk (val, r) =>
                        AOk (PyAttr {| aa_set := idx; aa_var := v; aa_value := val;
                                       aa_raw := firstn (length l1 - length r) l1 |}, r)
                    | AErr e => AErr (OEBadAttr e)
                    end
           end
  | _ => AErr (OEInvalidQual g v q)
  end.

(* ObjectParser::parse_one_inner: one object header and its data *)
Definition aparse_one (o : aopts) (fc : N) (l : list N) : ares (aobj_header * list N) aobj_err :=
  match l with
  | g :: v :: l0 =>
      if negb (alookup g v) then AErr (OEUnknownGV g v) else
      match l0 with
      | [] => AErr OEInsufficient
      | q :: l1 =>
          let mk d p := {| oh_g := g; oh_v := v; oh_details := d; oh_payload := p |} in
          if q =? q_all_objects then
            match aqkind qt_all g v with
            | Some _ => AOk (mk HAll PyNone, l1)
            | None => AErr (OEInvalidQual g v q)
            end
          else if q =? q_range8 then
            match l1 with
            | start :: stop :: l2 =>
                match amk_range start stop with
                | None => AErr (OEInvalidRange start stop)
                | Some (s, c) =>
                    match aparse_ranged o fc g v q s c l2 with
                    | AOk (p, r) => AOk (mk (HRange8 start stop) p, r)
                    | AErr e => AErr e
                    end
                end
            | _ => AErr OEInsufficient
            end
          else if q =? q_range16 then
            match ard16 l1 with
            | None => AErr OEInsufficient
            | Some (start, l2) =>
                match ard16 l2 with
                | None => AErr OEInsufficient
                | Some (stop, l3) =>
                    match amk_range start stop with
                    | None => AErr (OEInvalidRange start stop)
                    | Some (s, c) =>
                        match aparse_ranged o fc g v q s c l3 with
                        | AOk (p, r) => AOk (mk (HRange16 start stop) p, r)
                        | AErr e => AErr e
                        end
                    end
                end
            end
          else if q =? q_count8 then
            match l1 with
            | c :: l2 =>
                match aparse_count g v q c l2 with
                | AOk (p, r) => AOk (mk (HCount8 c) p, r)
                | AErr e => AErr e
                end
            | [] => AErr OEInsufficient
            end
          else if q =? q_count16 then
            match ard16 l1 with
            | None => AErr OEInsufficient
            | Some (c, l2) =>
                match aparse_count g v q c l2 with
                | AOk (p, r) => AOk (mk (HCount16 c) p, r)
                | AErr e => AErr e
                end
            end
          else if q =? q_count_and_prefix8 then
            match l1 with
            | c :: l2 =>
                match aparse_prefixed o g v q 1 c l2 with
                | AOk (p, r) => AOk (mk (HPrefix8 c) p, r)
                | AErr e => AErr e
                end
            | [] => AErr OEInsufficient
            end
          else if q =? q_count_and_prefix16 then
            match ard16 l1 with
            | None => AErr OEInsufficient
            | Some (c, l2) =>
                match aparse_prefixed o g v q 2 c l2 with
                | AOk (p, r) => AOk (mk (HPrefix16 c) p, r)
                | AErr e => AErr e
                end
            end
          else if q =? q_free_format16 then
            match l1 with
            | [] => AErr OEInsufficient
            | c :: l2 =>
                if negb (c =? 1) then AErr (OEFreeCount c) else
                match ard16 l2 with
                | None => AErr OEInsufficient
                | Some (len, l3) =>
                    match atake_o l3 len with
                    | AErr e => AErr e
                    | AOk (raw, r) =>
                        match aqkind qt_free g v with
                        | Some DFree =>
                            match aparse_free v raw with
                            | AErr e => AErr e
                            | AOk (info, []) => AOk (mk (HFree c) (PyFree len raw info), r)
                            | AOk (_, _ :: _) => AErr OEBadEncoding
                            end
                        | _ => AErr (OEInvalidQual g v q)
                        end
                    end
                end
            end
          else AErr (OEUnknownQual q)
      end
  | _ => AErr OEInsufficient
  end.

(* ObjectParser as an iterator: headers until the data is exhausted or the first error (inclusive).
   Every header consumes at least its three bytes, so `length l` steps always suffice. *)
Fixpoint aone_pass (fuel : nat) (o : aopts) (fc : N) (l : list N) : list (ares aobj_header aobj_err) :=
  match fuel with
  | O => []
  | S f =>
      match l with
      | [] => []
      | _ => match aparse_one o fc l with
             | AOk (h, r) => AOk h :: aone_pass f o fc r
             | AErr e => [AErr e]
             end
      end
  end.

Fixpoint afirst_err (rs : list (ares aobj_header aobj_err)) : option aobj_err :=
  match rs with
  | [] => None
  | AOk _ :: r => afirst_err r
  | AErr e :: _ => Some e
  end.

(* HeaderIterator: stops silently at an error *)
Fixpoint aok_prefix (rs : list (ares aobj_header aobj_err)) : list aobj_header :=
  match rs with
  | AOk h :: r => h :: aok_prefix r
  | _ => []
  end.

(* HeaderCollection: what ObjectParser::parse keeps after the validating first pass *)
Record acollection := { hc_opts : aopts; hc_function : N; hc_data : list N }.

Definition avalidate (o : aopts) (fc : N) (l : list N) : ares acollection aobj_err :=
  match afirst_err (aone_pass (length l) o fc l) with
  | Some e => AErr e
  | None => AOk {| hc_opts := o; hc_function := fc; hc_data := l |}
  end.

(* HeaderCollection::iter: the second, lazy pass *)
Definition aiter_headers (c : acollection) : list aobj_header :=
  aok_prefix (aone_pass (length (hc_data c)) (hc_opts c) (hc_function c) (hc_data c)).

Record aparsed_fragment := { pf_header : aheader; pf_objects : ares acollection aobj_err; pf_raw_objects : list N }.

(* ParsedFragment::parse *)
Definition parse_fragment (o : aopts) (l : list N) : ares aparsed_fragment ahdr_err :=
  match aparse_header l with
  | AErr e => AErr e
  | AOk (h, objs) =>
      AOk {| pf_header := h; pf_objects := avalidate o (ah_function h) objs; pf_raw_objects := objs |}
  end.

Definition headers_of (pf : aparsed_fragment) : ares (list aobj_header) aobj_err :=
  match pf_objects pf with
  | AOk c => AOk (aiter_headers c)
  | AErr e => AErr e
  end.

(* ---- iteration of the object data ---------------------------------------------------------------- *)

Inductive aobject :=
| ObBit (idx : N) (b : bool)
| ObDBit (idx : N) (v : N)
| ObFixed (idx : option N) (fields : list N)
| ObBytes (idx : N) (data : list N).

Definition asat_inc16 (i : N) : N := if i <? 65535 then i + 1 else 65535.

(* RangeIterator: T::read until the data is exhausted; the index saturates *)
Fixpoint aiter_range (fuel : nat) (ws : list N) (idx : N) (data : list N) : list aobject :=
  match fuel with
  | O => []
  | S f => match aread_fields ws data with
           | Some (xs, r) => ObFixed (Some idx) xs :: aiter_range f ws (asat_inc16 idx) r
           | None => []
           end
  end.

(* CountIterator *)
Fixpoint aiter_count (fuel : nat) (ws : list N) (data : list N) : list aobject :=
  match fuel with
  | O => []
  | S f => match aread_fields ws data with
           | Some (xs, r) => ObFixed None xs :: aiter_count f ws r
           | None => []
           end
  end.

(* CountIterator over Prefix<I, T>: index then object *)
Fixpoint aiter_prefix (fuel : nat) (psize : N) (ws : list N) (data : list N) : list aobject :=
  match fuel with
  | O => []
  | S f => match aread_field psize data with
           | Some (idx, r0) =>
               match aread_fields ws r0 with
               | Some (xs, r) => ObFixed (Some idx) xs :: aiter_prefix f psize ws r
               | None => []
               end
           | None => []
           end
  end.

(* BitIterator: pos counts up to count; `data` is the suffix of the byte string that starts at byte
   pos / 8 (bytes.get(pos / 8) = its head); the index is advanced only while objects remain *)
Fixpoint aiter_bits (fuel : nat) (pos count idx : N) (data : list N) : list aobject :=
  match fuel with
  | O => []
  | S f =>
      if count <=? pos then []
      else match data with
           | byte :: rest =>
               ObBit idx (N.testbit byte (pos mod 8))
               :: aiter_bits f (pos + 1) count (if pos + 1 <? count then idx + 1 else idx)
                    (if (pos + 1) mod 8 =? 0 then rest else data)
           | [] => []
           end
  end.

(* DoubleBitIterator: four objects per byte *)
Fixpoint aiter_dbits (fuel : nat) (pos count idx : N) (data : list N) : list aobject :=
  match fuel with
  | O => []
  | S f =>
      if count <=? pos then []
      else match data with
           | byte :: rest =>
               ObDBit idx (N.land (N.shiftr byte (2 * (pos mod 4))) 3)
               :: aiter_dbits f (pos + 1) count (if pos + 1 <? count then idx + 1 else idx)
                    (if (pos + 1) mod 4 =? 0 then rest else data)
           | [] => []
           end
  end.

(* RangedBytesIterator (after the fix of F2: the index is advanced only while objects remain) *)
Fixpoint aiter_rbytes (fuel : nat) (size remaining idx : N) (data : list N) : list aobject :=
  match fuel with
  | O => []
  | S f =>
      if remaining =? 0 then []
      else match atake data size with
           | Some (b, r) =>
               ObBytes idx b :: aiter_rbytes f size (remaining - 1) (if 0 <? remaining - 1 then idx + 1 else idx) r
           | None => []
           end
  end.

(* PrefixedBytesIterator *)
Fixpoint aiter_pbytes (fuel : nat) (psize size remaining : N) (data : list N) : list aobject :=
  match fuel with
  | O => []
  | S f =>
      if remaining =? 0 then []
      else match aread_field psize data with
           | Some (idx, r0) =>
               match atake r0 size with
               | Some (b, r) => ObBytes idx b :: aiter_pbytes f psize size (remaining - 1) r
               | None => []
               end
           | None => []
           end
  end.

(* the objects of one header, as the iterators of the *Sequence types yield them *)
Definition aiterate (h : aobj_header) : list aobject :=
  let ws := match afixed (oh_g h) (oh_v h) with Some fi => awidths fi | None => [] end in
  match oh_payload h with
  | PyNone => []
  | PyBits start count d => aiter_bits (N.to_nat count) 0 count start d
  | PyDBits start count d => aiter_dbits (N.to_nat count) 0 count start d
  | PyFixedRange start count d => aiter_range (S (length d)) ws start d
  | PyFixedCount count d => aiter_count (S (length d)) ws d
  | PyFixedPrefix psize count d => aiter_prefix (S (length d)) psize ws d
  | PyOctetsRange start count d => aiter_rbytes (N.to_nat count) (oh_v h) count start d
  | PyOctetsPrefix psize count d => aiter_pbytes (N.to_nat count) psize (oh_v h) count d
  | PyAttr _ => []
  | PyFree _ _ _ => []
  end.

(* what the harness prints for an object: its index and T::write of the fields T::read produced *)
Definition aobject_bytes (h : aobj_header) (ob : aobject) : option N * list N :=
  match ob with
  | ObBit i b => (Some i, [if b then 1 else 0])
  | ObDBit i v => (Some i, [v])
  | ObFixed i xs =>
      (i, match afixed (oh_g h) (oh_v h) with Some fi => awrite_fields (awidths_w fi) xs | None => [] end)
  | ObBytes i d => (Some i, d)
  end.

Definition alisting (h : aobj_header) : list (option N * list N) := map (aobject_bytes h) (aiterate h).
