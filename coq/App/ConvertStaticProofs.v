(* App/ConvertStaticProofs.v — the static (range) writer of App/Convert.v end to end: packing of the
   g1v1/g3v1/g10v1 formats, promotion, and the index/flags of every point of a response (property C10).
   Axiom free (no Flocq). *)
From Dnp3V Require Import Base.Bytes gen.Conversions App.FloatBits App.Convert App.FloatBitsProofs App.ConvertProofs.
Open Scope N_scope.

(* ---- packed formats: BitState of range/writer.rs and the master's bit iterators are inverse -------- *)
Lemma unpack_pack_1 : forall (k : nat) vals, (length vals <= 8 * k)%nat -> Forall (fun b => b < 2) vals ->
  unpack 1 (length vals) (pack 1 vals 0 0) 0 = vals.
Proof.
  induction k as [|k IH]; intros vals Hlen Hall.
  - destruct vals; [reflexivity|cbn in Hlen; lia].
  - destruct vals as [|b0 [|b1 [|b2 [|b3 [|b4 [|b5 [|b6 [|b7 rest]]]]]]]];
      repeat match goal with H : Forall _ (_ :: _) |- _ => inversion H; clear H; subst end;
      cbn [pack unpack length N.add N.leb N.compare Pos.compare Pos.compare_cont Pos.add Pos.succ N.eqb Pos.eqb];
      try (cbn; repeat f_equal; lia).
    cbn. rewrite IH; [|cbn in Hlen; lia|assumption].
    repeat f_equal; lia.
Qed.

Lemma unpack_pack_2 : forall (k : nat) vals, (length vals <= 4 * k)%nat -> Forall (fun b => b < 4) vals ->
  unpack 2 (length vals) (pack 2 vals 0 0) 0 = vals.
Proof.
  induction k as [|k IH]; intros vals Hlen Hall.
  - destruct vals; [reflexivity|cbn in Hlen; lia].
  - destruct vals as [|b0 [|b1 [|b2 [|b3 rest]]]];
      repeat match goal with H : Forall _ (_ :: _) |- _ => inversion H; clear H; subst end;
      try (cbn; repeat f_equal; lia).
    cbn. rewrite IH; [|cbn in Hlen; lia|assumption].
    repeat f_equal; lia.
Qed.

Lemma unpack_pack_bits vals : Forall (fun b => b < 2) vals -> unpack 1 (length vals) (pack 1 vals 0 0) 0 = vals.
Proof. apply (unpack_pack_1 (length vals)). lia. Qed.

Lemma unpack_pack_dbits vals : Forall (fun b => b < 4) vals -> unpack 2 (length vals) (pack 2 vals 0 0) 0 = vals.
Proof. apply (unpack_pack_2 (length vals)). lia. Qed.

(* ---- fixed-size objects of a range header ------------------------------------------------------------ *)
Lemma chunks_of_concat (size : nat) (items : list (list N)) :
  Forall (fun bs => length bs = size) items -> chunks_of (length items) size (concat items) = items.
Proof.
  induction 1 as [|bs items Hbs Hall IH]; cbn [length chunks_of concat]; auto.
  rewrite firstn_app_exact by exact Hbs. rewrite skipn_app_exact by exact Hbs. rewrite IH. reflexivity.
Qed.

Lemma number_from_map {A B} (f : A -> B) s (l : list A) :
  number_from s (map f l) = map (fun p => (fst p, f (snd p))) (number_from s l).
Proof. revert s; induction l as [|x l IH]; intros s; cbn [map number_from fst snd]; auto. rewrite IH. reflexivity. Qed.

Lemma number_from_app {A} s (a b : list A) :
  number_from s (a ++ b) = number_from s a ++ number_from (s + N.of_nat (length a)) b.
Proof.
  revert s; induction a as [|x a IH]; intros s; cbn [app number_from length].
  - rewrite N.add_0_r. reflexivity.
  - rewrite IH. do 3 f_equal. lia.
Qed.

(* ---- the static variation tables ------------------------------------------------------------------------ *)
Lemma static_var_facts t g v k pr : In (t, g, v, k, pr) static_vars ->
  find_static g v = Some (t, k, pr) /\ (g =? 110) = false /\ is_octets g = false /\
  (exists ie hf, find_info ranged_info g v = Some (t, ie, hf)) /\
  (k = WkFixed -> exists r, find_recipe g v = Some r /\ In r recipes /\ rc_type r = t) /\
  (forall v2 mask, pr = Some (v2, mask) ->
     (k = WkBits /\ mask = 128 \/ k = WkDoubleBits /\ mask = 192) /\
     exists pr2, In (t, g, v2, WkFixed, pr2) static_vars) /\
  (k <> WkFixed -> pr <> None) /\
  (k = WkBits -> t = BI \/ t = BOS) /\ (k = WkDoubleBits -> t = DBI).
Proof.
  intros Hin. unfold static_vars in Hin. cbn [In] in Hin.
  repeat (destruct Hin as [E|Hin]; [
    injection E as <- <- <- <- <-;
    split; [vm_compute; reflexivity|];
    split; [vm_compute; reflexivity|];
    split; [vm_compute; reflexivity|];
    split; [eexists; eexists; vm_compute; reflexivity|];
    split; [intros Hk; try discriminate Hk;
            match goal with |- exists r, find_recipe ?g ?v = _ /\ _ =>
              let x := eval vm_compute in (find_recipe g v) in
              match x with Some ?r =>
                exists r;
                let Hf := fresh "Hf" in
                assert (Hf : find_recipe g v = Some r) by (vm_compute; reflexivity);
                split; [exact Hf|split; [exact (proj1 (find_some _ _ Hf))|reflexivity]]
              end
            end|];
    split; [intros v2 mask Hp;
            first [discriminate Hp
                  |injection Hp as <- <-; split; [tauto|exists None; vm_compute; tauto]]|];
    split; [intros Hk; try congruence|];
    split; intros Hk; try discriminate Hk; auto
  |]).
  contradiction.
Qed.

(* ---- one range header ------------------------------------------------------------------------------------ *)
Definition item_shape (g v : N) (k : write_kind) (it : witem) : Prop :=
  match k, it with
  | WkBits, WBit b => b < 2
  | WkDoubleBits, WDbit b => b < 4
  | WkFixed, WFixed bs => exists r, find_recipe g v = Some r /\ length bs = layout_size (rc_layout r)
  | _, _ => False
  end.

Definition item_ok (g v : N) (it : witem) : Prop :=
  exists t k pr, In (t, g, v, k, pr) static_vars /\ item_shape g v k it.

Definition item_expect (g v idx : N) (it : witem) : otype * N * cmeas :=
  match find_info ranged_info g v with
  | Some (t, _, _) =>
      (OT t, idx, match it with
                  | WBit b => packed_meas b
                  | WDbit b => packed_meas b
                  | WFixed bs => match find_recipe g v with Some r => decode_obj r None bs | None => packed_meas 0 end
                  end)
  | None => (OOct, idx, packed_meas 0)
  end.

Lemma item_ok_shape g v t k pr it : find_static g v = Some (t, k, pr) -> item_ok g v it -> item_shape g v k it.
Proof.
  intros Hf (t' & k' & pr' & Hin & Hs).
  destruct (static_var_facts _ _ _ _ _ Hin) as (Hf' & _). rewrite Hf in Hf'. injection Hf' as <- <- <-. exact Hs.
Qed.

Lemma meas_of_map_OMeas {A} (f : A -> otype * N * cmeas) l :
  meas_of (map (fun x => OMeas (fst (fst (f x))) (snd (fst (f x))) (snd (f x))) l) = map f l.
Proof. induction l as [|x l IH]; cbn [map meas_of]; auto. rewrite IH. destruct (f x) as [[? ?] ?]. reflexivity. Qed.

Lemma header_extract g v s items : items <> [] -> Forall (item_ok g v) items ->
  meas_of (extract_range g v s (s + N.of_nat (length items) - 1) (payload_of items))
  = map (fun p => item_expect g v (fst p) (snd p)) (number_from s items).
Proof.
  intros Hne Hall.
  destruct items as [|it0 rest]; [congruence|].
  pose proof Hall as Hall0. inversion Hall0 as [|? ? (t & k & pr & Hin & Hs0) _]; subst.
  destruct (static_var_facts _ _ _ _ _ Hin) as (Hfs & Hg & _ & (ie & hf & Hinfo) & Hfix & _).
  assert (Hshape : Forall (item_shape g v k) (it0 :: rest)).
  { apply Forall_forall. intros it Hit. rewrite Forall_forall in Hall. apply (item_ok_shape g v t k pr); auto. }
  set (items := it0 :: rest) in *.
  assert (Hcount : N.to_nat (s + N.of_nat (length items) - 1 - s + 1) = length items).
  { unfold items. cbn [length]. lia. }
  unfold extract_range. rewrite Hg, Hinfo, Hcount. unfold range_kind. rewrite Hfs. cbn [meas_of].
  unfold item_expect. rewrite Hinfo.
  destruct k.
  - (* packed single bits *)
    set (bits := map (fun i => match i with WBit b => b | _ => 0 end) items).
    assert (Hitems : items = map WBit bits /\ Forall (fun b => b < 2) bits).
    { unfold bits. clear - Hshape. induction Hshape as [|it l Hit _ IH]; cbn [map]; [split; [reflexivity|constructor]|].
      destruct IH as [IH1 IH2]. destruct it; cbn [item_shape] in Hit; try contradiction. split; [f_equal; exact IH1|constructor; assumption]. }
    destruct Hitems as [Hitems Hbits].
    assert (Hpay : payload_of items = pack 1 bits 0 0).
    { unfold items at 1. unfold items in Hitems. destruct it0; cbn [item_shape] in Hs0; try contradiction. reflexivity. }
    rewrite Hpay. replace (length items) with (length bits) by (unfold bits; apply map_length).
    rewrite unpack_pack_bits by exact Hbits.
    clearbody bits. rewrite Hitems. rewrite number_from_map, map_map. cbn [fst snd].
    rewrite <- (meas_of_map_OMeas (fun ib : N * N => (OT t, fst ib, packed_meas (snd ib)))). reflexivity.
  - (* packed double bits *)
    set (bits := map (fun i => match i with WDbit b => b | _ => 0 end) items).
    assert (Hitems : items = map WDbit bits /\ Forall (fun b => b < 4) bits).
    { unfold bits. clear - Hshape. induction Hshape as [|it l Hit _ IH]; cbn [map]; [split; [reflexivity|constructor]|].
      destruct IH as [IH1 IH2]. destruct it; cbn [item_shape] in Hit; try contradiction. split; [f_equal; exact IH1|constructor; assumption]. }
    destruct Hitems as [Hitems Hbits].
    assert (Hpay : payload_of items = pack 2 bits 0 0).
    { unfold items at 1. unfold items in Hitems. destruct it0; cbn [item_shape] in Hs0; try contradiction. reflexivity. }
    rewrite Hpay. replace (length items) with (length bits) by (unfold bits; apply map_length).
    rewrite unpack_pack_dbits by exact Hbits.
    clearbody bits. rewrite Hitems. rewrite number_from_map, map_map. cbn [fst snd].
    rewrite <- (meas_of_map_OMeas (fun ib : N * N => (OT t, fst ib, packed_meas (snd ib)))). reflexivity.
  - (* fixed-size objects *)
    destruct (Hfix eq_refl) as (r & Hr & _ & _). rewrite Hr.
    set (bss := map (fun i => match i with WFixed bs => bs | _ => [] end) items).
    assert (Hitems : items = map WFixed bss /\ Forall (fun bs => length bs = layout_size (rc_layout r)) bss).
    { unfold bss. clear - Hshape Hr. induction Hshape as [|it l Hit _ IH]; cbn [map]; [split; [reflexivity|constructor]|].
      destruct IH as [IH1 IH2]. destruct it; cbn [item_shape] in Hit; try contradiction.
      destruct Hit as (r' & Hr' & Hlen). rewrite Hr in Hr'. injection Hr' as <-.
      split; [f_equal; exact IH1|constructor; assumption]. }
    destruct Hitems as [Hitems Hlens].
    assert (Hpay : payload_of items = concat bss).
    { unfold payload_of. unfold items at 1. unfold items in Hitems.
      destruct it0; cbn [item_shape] in Hs0; try contradiction.
      fold items. unfold bss. rewrite flat_map_concat_map. reflexivity. }
    rewrite Hpay. replace (length items) with (length bss) by (unfold bss; apply map_length).
    rewrite chunks_of_concat by exact Hlens.
    clearbody bss. rewrite Hitems. rewrite number_from_map, map_map. cbn [fst snd].
    rewrite <- (meas_of_map_OMeas (fun ib : N * list N => (OT t, fst ib, decode_obj r None (snd ib)))). reflexivity.
Qed.

(* ---- RangeWriter: a sequence of points ------------------------------------------------------------------ *)
Definition entry_ok (en : N * N * N * witem) : Prop :=
  match en with (_, g, v, it) => item_ok g v it end.

Definition entry_expect (en : N * N * N * witem) : otype * N * cmeas :=
  match en with (idx, g, v, it) => item_expect g v idx it end.

Definition whdr_ok (h : whdr) : Prop :=
  wh_items h <> [] /\ Forall (item_ok (wh_g h) (wh_v h)) (wh_items h) /\
  wh_last h + 1 = wh_start h + N.of_nat (length (wh_items h)).

Definition pending_range (cur : option whdr) : list (otype * N * cmeas) :=
  match cur with
  | None => []
  | Some h => map (fun p => item_expect (wh_g h) (wh_v h) (fst p) (snd p)) (number_from (wh_start h) (wh_items h))
  end.

Lemma finish_extract h : whdr_ok h ->
  meas_of (extract_range (wh_g h) (wh_v h) (wh_start h) (wh_last h) (payload_of (wh_items h))) = pending_range (Some h).
Proof.
  intros (Hne & Hall & Hlast).
  replace (wh_last h) with (wh_start h + N.of_nat (length (wh_items h)) - 1) by lia.
  apply header_extract; assumption.
Qed.

Theorem range_write_extract cto ens : Forall entry_ok ens ->
  forall cur, match cur with Some h => whdr_ok h | None => True end ->
  meas_of (extract cto (range_write ens cur)) = pending_range cur ++ map entry_expect ens.
Proof.
  induction 1 as [|[[[idx g] v] it] rest Hen Hrest IH]; intros cur Hcur.
  - destruct cur as [h|]; cbn [range_write extract finish_whdr map]; [|reflexivity].
    rewrite !app_nil_r. apply finish_extract. exact Hcur.
  - cbn [range_write map entry_expect].
    cbn [entry_ok] in Hen.
    assert (Hnew : whdr_ok (mk_whdr g v idx idx [it])).
    { unfold whdr_ok. cbn [wh_items wh_g wh_v wh_last wh_start length]. split; [discriminate|]. split; [constructor; auto|lia]. }
    assert (Hpn : pending_range (Some (mk_whdr g v idx idx [it])) = [item_expect g v idx it]) by reflexivity.
    destruct cur as [h|].
    + destruct ((wh_g h =? g) && (wh_v h =? v) && (idx =? wh_last h + 1)) eqn:Econt.
      * apply andb_true_iff in Econt. destruct Econt as [Egv Eidx]. apply andb_true_iff in Egv. destruct Egv as [Eg Ev].
        apply N.eqb_eq in Eg. apply N.eqb_eq in Ev. apply N.eqb_eq in Eidx.
        destruct Hcur as (Hne & Hall & Hlast).
        rewrite IH.
        -- unfold pending_range. cbn [wh_g wh_v wh_start wh_items].
           rewrite number_from_app, map_app. cbn [number_from map fst snd].
           rewrite <- app_assoc. cbn [app]. rewrite Eg, Ev.
           replace (wh_start h + N.of_nat (length (wh_items h))) with idx by lia. reflexivity.
        -- unfold whdr_ok. cbn [wh_items wh_g wh_v wh_last wh_start].
           split; [destruct (wh_items h); discriminate|].
           split; [apply Forall_app; split; [rewrite <- Eg, <- Ev; exact Hall|constructor; auto]|].
           rewrite app_length. cbn [length]. lia.
      * unfold finish_whdr. cbn [extract]. rewrite meas_of_app, finish_extract by exact Hcur.
        rewrite IH by exact Hnew. rewrite Hpn. reflexivity.
    + rewrite IH by exact Hnew. rewrite Hpn. reflexivity.
Qed.

(* ---- the static trip: database points -> response -> handler -------------------------------------------- *)
Definition st_var (s : selection) (p : cpoint) : N := if sel_var s =? 0 then cp_var p else sel_var s.

(* a point of one of the static variations of outstation/database/details/range/traits.rs *)
Definition st_wf (s : selection) (p : cpoint) : Prop :=
  exists t k pr, In (t, cp_group p, st_var s p, k, pr) static_vars /\ wf_meas t (cp_meas p).

(* what the handler receives for it: through the promoted variation, packed formats as ONLINE values,
   everything else as the narrowed measurement of that variation *)
Definition st_expect (s : selection) (p : cpoint) : otype * N * cmeas :=
  let g := cp_group p in
  let m := cp_meas p in
  let v := promote g (st_var s p) m in
  match find_static g v with
  | Some (t, WkFixed, _) =>
      match find_recipe g v with
      | Some r => (OT t, cp_idx p, narrowed r m None 0)
      | None => (OOct, cp_idx p, m)
      end
  | Some (t, _, _) => (OT t, cp_idx p, mk_cmeas (cm_value m) online_flags None [])
  | None => (OOct, cp_idx p, m)
  end.

(* StaticVariation::promote: the variation that is written belongs to the same type, and a packed format
   (g1v1, g3v1, g10v1) is written only when the flags without the state bits are exactly ONLINE *)
Theorem promote_spec g v0 m t k pr : In (t, g, v0, k, pr) static_vars -> cm_flags m < 256 ->
  exists k' pr', In (t, g, promote g v0 m, k', pr') static_vars /\
    match k' with
    | WkBits => cm_flags m mod 128 = 1
    | WkDoubleBits => cm_flags m mod 64 = 1
    | WkFixed => True
    end.
Proof.
  intros Hin Hf.
  destruct (static_var_facts _ _ _ _ _ Hin) as (Hfs & _ & _ & _ & _ & Hpr & Hnf & _).
  destruct (flag_octet_facts _ Hf) as (_ & _ & H128 & H192).
  unfold promote. rewrite Hfs.
  destruct pr as [[v2 mask]|].
  - destruct (Hpr v2 mask eq_refl) as (Hk & pr2 & Hin2).
    destruct (without (cm_flags m) mask =? online_flags) eqn:E.
    + apply N.eqb_eq in E. exists k, (Some (v2, mask)). split; [exact Hin|].
      destruct Hk as [[-> ->]|[-> ->]]; unfold online_flags in E; congruence.
    + exists WkFixed, pr2. split; [exact Hin2|exact I].
  - exists k, None. split; [exact Hin|].
    destruct k; try exact I; exfalso; apply Hnf; congruence.
Qed.

Lemma Forall_insert_point (P : cpoint -> Prop) p l : P p -> Forall P l -> Forall P (insert_point p l).
Proof.
  intros Hp Hl. induction Hl as [|q l Hq Hl IH]; cbn [insert_point]; [constructor; auto|].
  destruct (cp_idx p <? cp_idx q); repeat (constructor; auto).
Qed.

Lemma Forall_sort_points (P : cpoint -> Prop) l : Forall P l -> Forall P (sort_points l).
Proof.
  induction 1 as [|p l Hp Hl IH]; cbn [sort_points fold_right]; [constructor|].
  apply Forall_insert_point; assumption.
Qed.

Lemma Forall_filter {A} (P : A -> Prop) f (l : list A) : Forall P l -> Forall P (filter f l).
Proof. induction 1 as [|x l Hx Hl IH]; cbn [filter]; [constructor|]. destruct (f x); auto. Qed.

Lemma static_entry_spec s p : st_wf s p ->
  entry_ok (static_entry s p) /\ entry_expect (static_entry s p) = st_expect s p.
Proof.
  intros (t & k & pr & Hin & Hwf).
  pose proof Hwf as (Hv & Hf & Htm & Hb).
  destruct (static_var_facts _ _ _ _ _ Hin) as (_ & _ & Hoct & _).
  destruct (promote_spec _ _ (cp_meas p) _ _ _ Hin Hf) as (k' & pr' & Hin' & _).
  destruct (static_var_facts _ _ _ _ _ Hin') as (Hfs & _ & _ & (ie & hf & Hinfo) & Hfix & _ & _ & Hbi & Hdbi).
  unfold static_entry, st_expect. fold (st_var s p). rewrite Hoct.
  set (v := promote (cp_group p) (st_var s p) (cp_meas p)) in *.
  cbn [entry_ok entry_expect]. unfold item_expect, static_item. rewrite Hoct, Hfs, Hinfo.
  destruct k'.
  - split.
    + exists t, WkBits, pr'. split; [exact Hin'|]. cbn [item_shape]. lia.
    + unfold packed_meas. rewrite N.mod_small; [reflexivity|].
      destruct (Hbi eq_refl) as [-> | ->]; exact Hv.
  - split.
    + exists t, WkDoubleBits, pr'. split; [exact Hin'|]. cbn [item_shape]. lia.
    + unfold packed_meas. rewrite N.mod_small; [reflexivity|].
      rewrite (Hdbi eq_refl) in Hv. exact Hv.
  - destruct (Hfix eq_refl) as (r & Hr & Hrin & Ht). rewrite Hr. split.
    + exists t, WkFixed, pr'. split; [exact Hin'|]. cbn [item_shape]. exists r. split; [exact Hr|apply encode_obj_length].
    + rewrite trip_general; [reflexivity|exact Hrin|rewrite Ht; exact Hwf|lia].
Qed.

(* C10 index_and_flags_not_crossed (static): for every set of points of the static variations (sparse or
   dense indices, any mix of configured variations, a requested variation or the defaults, a range or all
   objects) the i-th measurement handed to the master's handler is the i-th selected point in index
   order, with its own index, and the value/flags of exactly that point as narrowed by the promoted variation *)
Theorem static_exact s pts : Forall (st_wf s) pts ->
  meas_of (extract None (write_static s pts)) = map (st_expect s) (filter (in_sel s) (sort_points pts)).
Proof.
  intros Hall. unfold write_static.
  assert (Hsel : Forall (st_wf s) (filter (in_sel s) (sort_points pts))).
  { apply Forall_filter, Forall_sort_points, Hall. }
  set (sel := filter (in_sel s) (sort_points pts)) in *.
  rewrite (range_write_extract None (map (static_entry s) sel)).
  - cbn [pending_range app]. rewrite map_map. apply map_ext_in.
    intros p Hp. rewrite Forall_forall in Hsel. apply static_entry_spec. auto.
  - apply Forall_forall. intros en Hen. apply in_map_iff in Hen. destruct Hen as (p & <- & Hp).
    rewrite Forall_forall in Hsel. apply static_entry_spec. auto.
  - exact I.
Qed.
