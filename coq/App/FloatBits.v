(* App/FloatBits.v — IEEE-754 binary32 / binary64 values as bit patterns in N.

   Everything the conversion helpers of dnp3/src/app/measurement.rs do with floats, defined on
   the bit patterns (no real numbers here; App/FloatBitsProofs.v relates the functions to Flocq):

     fb64_lt              the `<` / `>` of the range checks (false when either side is NaN, -0 = +0)
     fb64_to_int lo hi    Rust `f64 as iN`: truncation toward zero, saturation, NaN -> 0
     fb64_to_f32          Rust `f64 as f32`: round to nearest even, overflow to infinity, NaN quieted
     fb32_to_f64          Rust `f32 as f64`: exact widening
     fb64_of_Z            Rust `iN as f64` for |z| < 2^53: exact

   Definitions only (model file). *)
From Dnp3V Require Import Base.Bytes.
Open Scope N_scope.

(* ---- binary64 fields ---------------------------------------------------------------------- *)
Definition p52 : N := 4503599627370496.          (* 2^52 *)
Definition p63 : N := 9223372036854775808.       (* 2^63 *)
Definition p64 : N := 18446744073709551616.      (* 2^64 *)

Definition fb64_sign (b : N) : N := (b / p63) mod 2.
Definition fb64_exp (b : N) : N := (b / p52) mod 2048.
Definition fb64_mant (b : N) : N := b mod p52.
Definition fb64_mag (b : N) : N := b mod p63.     (* the pattern without its sign bit *)

Definition fb64_is_nan (b : N) : bool := (fb64_exp b =? 2047) && negb (fb64_mant b =? 0).
Definition fb64_is_inf (b : N) : bool := (fb64_exp b =? 2047) && (fb64_mant b =? 0).
Definition fb64_is_finite (b : N) : bool := fb64_exp b <? 2047.

(* significand and the exponent e such that |value| = fb64_sig b * 2^(fb64_e b - 1075) *)
Definition fb64_sig (b : N) : N := if fb64_exp b =? 0 then fb64_mant b else p52 + fb64_mant b.
Definition fb64_e (b : N) : N := N.max (fb64_exp b) 1.

(* order-preserving key: for non-NaN a, b the IEEE order is the order of the keys *)
Definition fb64_key (b : N) : Z :=
  if fb64_sign b =? 0 then Z.of_N (fb64_mag b) else (- Z.of_N (fb64_mag b))%Z.

Definition fb64_lt (a b : N) : bool :=
  negb (fb64_is_nan a) && negb (fb64_is_nan b) && (fb64_key a <? fb64_key b)%Z.
Definition fb64_gt (a b : N) : bool := fb64_lt b a.

(* |trunc(value)| of a finite pattern *)
Definition fb64_trunc_mag (b : N) : N :=
  if 1075 <=? fb64_e b then fb64_sig b * 2 ^ (fb64_e b - 1075)
  else fb64_sig b / 2 ^ (1075 - fb64_e b).

Definition fb64_trunc (b : N) : Z :=
  if fb64_sign b =? 0 then Z.of_N (fb64_trunc_mag b) else (- Z.of_N (fb64_trunc_mag b))%Z.

(* Rust `value as iN` with the bounds lo..hi of the target type *)
Definition fb64_to_int (lo hi : Z) (b : N) : Z :=
  if fb64_is_nan b then 0%Z
  else if fb64_is_inf b then (if fb64_sign b =? 0 then hi else lo)
  else Z.max lo (Z.min hi (fb64_trunc b)).

(* Rust `z as f64` for an integer of magnitude below 2^53 (exact) *)
Definition fb64_of_Z (z : Z) : N :=
  match z with
  | Z0 => 0
  | _ => let n := Z.abs_N z in
         let k := N.log2 n in
         (if (z <? 0)%Z then p63 else 0) + (1023 + k) * p52 + (n * 2 ^ (52 - k) - p52)
  end.

(* ---- binary32 fields ---------------------------------------------------------------------- *)
Definition p23 : N := 8388608.                   (* 2^23 *)
Definition p31 : N := 2147483648.                (* 2^31 *)
Definition p32 : N := 4294967296.                (* 2^32 *)
Definition p29 : N := 536870912.                 (* 2^29 *)

Definition fb32_sign (b : N) : N := (b / p31) mod 2.
Definition fb32_exp (b : N) : N := (b / p23) mod 256.
Definition fb32_mant (b : N) : N := b mod p23.
Definition fb32_is_nan (b : N) : bool := (fb32_exp b =? 255) && negb (fb32_mant b =? 0).

Definition fb32_inf_mag : N := 2139095040.        (* 0x7F800000 *)
Definition fb32_quiet : N := 4194304.             (* 0x00400000 *)
Definition fb64_quiet : N := 2251799813685248.    (* 2^51 *)

(* round to nearest, ties to even, of m / 2^s *)
Definition rne_shift (m s : N) : N :=
  match s with
  | 0 => m
  | _ => let q := m / 2 ^ s in
         let r := m mod 2 ^ s in
         let half := 2 ^ (s - 1) in
         if (half <? r) || ((r =? half) && N.odd q) then q + 1 else q
  end.

(* Rust `value as f32` *)
Definition fb64_to_f32 (b : N) : N :=
  let s := fb64_sign b * p31 in
  if fb64_is_nan b then s + fb32_inf_mag + N.lor fb32_quiet (fb64_mant b / p29)
  else if fb64_is_inf b then s + fb32_inf_mag
  else
    (* |value| = sig * 2^(e - 1075); binary32 at biased exponent e32 >= 1 has unit 2^(e32 - 150) *)
    let e := fb64_e b in
    let e32 := if 897 <=? e then e - 896 else 1 in          (* candidate biased exponent, >= 1 *)
    let shift := if 897 <=? e then 29 else 29 + (897 - e) in (* sig / 2^shift in units of e32 *)
    let m32 := rne_shift (fb64_sig b) shift in
    let mag := (e32 - 1) * p23 + m32 in                      (* a carry out of m32 bumps the exponent *)
    s + (if fb32_inf_mag <=? mag then fb32_inf_mag else mag).

(* Rust `value as f64` of an f32 *)
Definition fb32_to_f64 (b : N) : N :=
  let s := fb32_sign b * p63 in
  let e := fb32_exp b in
  let m := fb32_mant b in
  if e =? 255 then
    s + 2047 * p52 + (if m =? 0 then 0 else N.lor fb64_quiet (m * p29))
  else if e =? 0 then
    (if m =? 0 then s
     else let k := N.log2 m in s + (874 + k) * p52 + (m * 2 ^ (52 - k) - p52))
  else s + (e + 896) * p52 + m * p29.

(* ---- the constants the range checks compare against (i16::MIN.into() ... f32::MAX.into()) --- *)
Definition fb64_i16_min : N := 13898108450065350656.  (* 0xC0E0000000000000 = -32768.0 *)
Definition fb64_i16_max : N := 4674736138332667904.   (* 0x40DFFFC000000000 =  32767.0 *)
Definition fb64_i32_min : N := 13970166044103278592.  (* 0xC1E0000000000000 = -2147483648.0 *)
Definition fb64_i32_max : N := 4746794007244308480.   (* 0x41DFFFFFFFC00000 =  2147483647.0 *)
Definition fb64_f32_min : N := 14407015207421345792.  (* 0xC7EFFFFFE0000000 = f32::MIN as f64 *)
Definition fb64_f32_max : N := 5183643170566569984.   (* 0x47EFFFFFE0000000 = f32::MAX as f64 *)
Definition fb32_max_bits : N := 2139095039.           (* 0x7F7FFFFF *)
Definition fb32_min_bits : N := 4286578687.           (* 0xFF7FFFFF *)

(* two's complement *)
Definition z_to_u (width : N) (z : Z) : N := Z.to_N (z mod Z.of_N (2 ^ width)).
Definition u_to_z (width : N) (n : N) : Z :=
  if n <? 2 ^ (width - 1) then Z.of_N n else (Z.of_N n - Z.of_N (2 ^ width))%Z.
