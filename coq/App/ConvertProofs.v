(* App/ConvertProofs.v — theorems about App/Convert.v (property C10).  No Flocq here: every theorem of
   this file is axiom free.  Float facts used here are the bit-level lemmas of the first part. *)
From Dnp3V Require Import Base.Bytes gen.Conversions App.FloatBits App.Convert.
Open Scope N_scope.

(* ---- little endian ---------------------------------------------------------------------------- *)
Lemma le_enc_length n x : length (le_enc n x) = n.
Proof. revert x; induction n as [|n IH]; intros x; cbn [le_enc length]; auto. Qed.

Lemma le_dec_enc n x : le_dec (le_enc n x) = x mod 256 ^ N.of_nat n.
Proof.
  revert x; induction n as [|n IH]; intros x.
  - cbn [le_enc le_dec N.of_nat]. rewrite N.pow_0_r, N.mod_1_r. reflexivity.
  - cbn [le_enc le_dec]. rewrite IH.
    replace (N.of_nat (S n)) with (N.succ (N.of_nat n)) by lia.
    rewrite N.pow_succ_r'.
    assert (Hp : 256 ^ N.of_nat n <> 0) by (apply N.pow_nonzero; lia).
    set (p := 256 ^ N.of_nat n) in *.
    rewrite N.mod_mul_r by lia. reflexivity.
Qed.

Lemma firstn_app_exact {A} (a b : list A) n : length a = n -> firstn n (a ++ b) = a.
Proof. intros <-. rewrite firstn_app, Nat.sub_diag, firstn_all. cbn. apply app_nil_r. Qed.

Lemma skipn_app_exact {A} (a b : list A) n : length a = n -> skipn n (a ++ b) = b.
Proof. intros <-. rewrite skipn_app, Nat.sub_diag, skipn_all. reflexivity. Qed.

(* reading the fields of an object back: generic in the layout *)
Lemma read_fields_encode (l : list (fld * wtype)) (g : fld -> N) rest :
  read_fields l (flat_map (fun fw => le_enc (wwidth (snd fw)) (g (fst fw))) l ++ rest)
  = map (fun fw => (fst fw, snd fw, g (fst fw) mod 256 ^ N.of_nat (wwidth (snd fw)))) l.
Proof.
  induction l as [|[f w] l IH]; cbn [read_fields flat_map map fst snd]; auto.
  rewrite <- app_assoc.
  rewrite firstn_app_exact by apply le_enc_length.
  rewrite skipn_app_exact by apply le_enc_length.
  rewrite le_dec_enc, IH. reflexivity.
Qed.

Lemma encode_obj_length r m d : length (encode_obj r m d) = layout_size (rc_layout r).
Proof.
  unfold encode_obj, layout_size.
  induction (rc_layout r) as [|[f w] l IH]; cbn [flat_map fold_right snd fst]; auto.
  rewrite app_length, le_enc_length, IH. reflexivity.
Qed.

From Dnp3V Require Import App.FloatBitsProofs.

(* ---- flag octets -------------------------------------------------------------------------------- *)
Lemma flag_octet_facts_check :
  forallb (fun f => (N.lor f 32 <? 256) && (N.lor f 32 =? (if N.testbit f 5 then f else f + 32)) &&
                    (N.ldiff f 128 =? f mod 128) && (N.ldiff f 192 =? f mod 64)) (nrange 256) = true.
Proof. vm_compute. reflexivity. Qed.

Lemma flag_octet_facts f : f < 256 ->
  with_over_range f < 256 /\ with_over_range f = (if N.testbit f 5 then f else f + 32) /\
  without f 128 = f mod 128 /\ without f 192 = f mod 64.
Proof.
  intros Hf. pose proof (forallb_nrange' _ 256%nat flag_octet_facts_check f Hf) as H. cbv beta in H.
  apply andb_true_iff in H. destruct H as [H H4]. apply andb_true_iff in H. destruct H as [H H3].
  apply andb_true_iff in H. destruct H as [H1 H2].
  apply N.ltb_lt in H1. apply N.eqb_eq in H2. apply N.eqb_eq in H3. apply N.eqb_eq in H4.
  unfold with_over_range, without, over_range_mask. auto.
Qed.

(* ---- AnalogConversions: shape of the results ------------------------------------------------------ *)
Lemma fb64_to_int_range lo hi b : (lo <= hi)%Z -> (lo <= 0 <= hi)%Z -> (lo <= fb64_to_int lo hi b <= hi)%Z.
Proof.
  intros H1 H2. unfold fb64_to_int.
  destruct (fb64_is_nan b); [lia|]. destruct (fb64_is_inf b); [destruct (fb64_sign b =? 0); lia|]. lia.
Qed.

Lemma conv_int_shape gs lo hi lob hib m : (lo <= 0 <= hi)%Z -> cm_flags m < 256 ->
  fst (conv_int gs lo hi lob hib m) < 256 /\ (lo <= snd (conv_int gs lo hi lob hib m) <= hi)%Z.
Proof.
  intros Hr Hf. unfold conv_int.
  destruct (first_guard gs lob hib (cm_value m)) as [s|]; cbn [fst snd].
  - split; [apply flag_octet_facts, Hf|]. destruct s; lia.
  - split; [exact Hf|]. apply fb64_to_int_range; lia.
Qed.

Lemma to_i16_shape m : cm_flags m < 256 -> fst (to_i16 m) < 256 /\ (-32768 <= snd (to_i16 m) <= 32767)%Z.
Proof. intros H. apply (conv_int_shape to_i16_guards i16_min i16_max); [unfold i16_min, i16_max; lia|exact H]. Qed.

Lemma to_i32_shape m : cm_flags m < 256 -> fst (to_i32 m) < 256 /\ (-2147483648 <= snd (to_i32 m) <= 2147483647)%Z.
Proof. intros H. apply (conv_int_shape to_i32_guards i32_min i32_max); [unfold i32_min, i32_max; lia|exact H]. Qed.

Lemma to_f32_shape m : cm_flags m < 256 -> fst (to_f32 m) < 256 /\ snd (to_f32 m) < p32.
Proof.
  intros Hf. unfold to_f32.
  destruct (first_guard to_f32_guards fb64_f32_min fb64_f32_max (cm_value m)) as [s|]; cbn [fst snd].
  - split; [apply flag_octet_facts, Hf|]. destruct s; vm_compute; reflexivity.
  - split; [exact Hf|apply fb64_to_f32_bound].
Qed.

Lemma twos_complement_16 z : (-32768 <= z <= 32767)%Z -> u_to_z 16 (z_to_u 16 z mod 65536) = z.
Proof.
  intros H. unfold u_to_z, z_to_u. change (2 ^ 16) with 65536. change (2 ^ (16 - 1)) with 32768.
  destruct (Z.to_N (z mod Z.of_N 65536) mod 65536 <? 32768) eqn:E; [apply N.ltb_lt in E|apply N.ltb_ge in E]; lia.
Qed.

Lemma twos_complement_32 z : (-2147483648 <= z <= 2147483647)%Z -> u_to_z 32 (z_to_u 32 z mod 4294967296) = z.
Proof.
  intros H. unfold u_to_z, z_to_u. change (2 ^ 32) with 4294967296. change (2 ^ (32 - 1)) with 2147483648.
  destruct (Z.to_N (z mod Z.of_N 4294967296) mod 4294967296 <? 2147483648) eqn:E; [apply N.ltb_lt in E|apply N.ltb_ge in E]; lia.
Qed.

(* ---- one object: encode then decode ------------------------------------------------------------------ *)
Local Arguments N.modulo : simpl never.
Local Arguments N.div : simpl never.
Local Arguments N.add : simpl never.
Local Arguments N.mul : simpl never.
Local Arguments N.sub : simpl never.
Local Arguments N.ltb : simpl never.
Local Arguments N.eqb : simpl never.
Local Arguments N.leb : simpl never.
Local Opaque to_i16 to_i32 to_f32 fb64_of_Z fb32_to_f64 u_to_z z_to_u.
Local Arguments wire_flags : simpl never.
Local Arguments cto_add : simpl never.
Local Arguments time_stamp : simpl never.

Lemma decode_fields_encode r m d :
  read_fields (rc_layout r) (encode_obj r m d)
  = map (fun fw => (fst fw, snd fw, field_value r m d (fst fw) mod 256 ^ N.of_nat (wwidth (snd fw)))) (rc_layout r).
Proof.
  unfold encode_obj. rewrite <- (app_nil_r (flat_map _ _)).
  apply (read_fields_encode (rc_layout r) (field_value r m d) []).
Qed.


Ltac trip_component Hv Hf Ht :=
  first
    [ reflexivity
    | rewrite twos_complement_16 by (apply to_i16_shape; exact Hf); reflexivity
    | rewrite twos_complement_32 by (apply to_i32_shape; exact Hf); reflexivity
    | rewrite N.mod_small by (apply to_f32_shape; exact Hf); reflexivity
    | rewrite (N.mod_small _ 65536) by assumption; reflexivity
    | match goal with
      | |- context [to_i16 ?m] => pose proof (to_i16_shape m Hf)
      | |- context [to_i32 ?m] => pose proof (to_i32_shape m Hf)
      | |- context [to_f32 ?m] => pose proof (to_f32_shape m Hf)
      | _ => idtac
      end;
      unfold wire_flags, time_stamp, timestamp_max, online_flags, wf_time, p64 in *;
      cbn [wire_flags_of] in *;
      repeat match goal with |- Some _ = Some _ => f_equal | |- (_, _) = (_, _) => f_equal end;
      repeat match goal with H : context [match ?x with _ => _ end] |- _ => destruct x as [[? ?]|] end;
      unfold timestamp_max in *;
      try reflexivity; lia ].

Theorem trip_general r m cto d : In r recipes -> wf_meas (rc_type r) m -> d < 65536 ->
  decode_obj r cto (encode_obj r m d) = narrowed r m cto d.
Proof.
  intros Hin Hwf Hd. unfold decode_obj. rewrite decode_fields_encode.
  unfold narrowed, narrowed_value, narrowed_flags, narrowed_time.
  destruct Hwf as (Hv & Hf & Ht & Hb).
  unfold recipes in Hin. cbn [In] in Hin.
  repeat (destruct Hin as [<-|Hin]; [cbn in *; f_equal; trip_component Hv Hf Ht|]).
  contradiction.
Qed.

(* ---- the conversion helpers: what they do to every f64 pattern ------------------------------------ *)
(* to_i16 / to_i32 / to_f32 against the guard lists generated from app/measurement.rs: NaN and values
   outside the target type are flagged OVER_RANGE and replaced by 0 / the bound; everything else keeps
   its flags and is truncated (rounded for f32) WITHOUT clamping *)
Theorem to_i16_spec m :
  let v := cm_value m in
  (fb64_is_nan v = true -> to_i16 m = (with_over_range (cm_flags m), 0%Z)) /\
  (fb64_is_nan v = false -> fb64_lt v fb64_i16_min = true -> to_i16 m = (with_over_range (cm_flags m), i16_min)) /\
  (fb64_is_nan v = false -> fb64_lt v fb64_i16_min = false -> fb64_gt v fb64_i16_max = true ->
     to_i16 m = (with_over_range (cm_flags m), i16_max)) /\
  (fb64_is_nan v = false -> fb64_lt v fb64_i16_min = false -> fb64_gt v fb64_i16_max = false ->
     to_i16 m = (cm_flags m, fb64_trunc v) /\ (i16_min <= fb64_trunc v <= i16_max)%Z).
Proof.
  Local Transparent to_i16.
  cbv zeta. unfold to_i16, conv_int, to_i16_guards. cbn [first_guard guard_fires].
  repeat split; intros; repeat match goal with H : _ = _ |- _ => rewrite H end; try reflexivity.
  - destruct (unguarded_i16 (cm_value m)) as [Hi Hr]; auto.
    unfold fb64_to_int. repeat match goal with H : _ = _ |- _ => rewrite H end.
    f_equal. unfold i16_min, i16_max. lia.
  - destruct (unguarded_i16 (cm_value m)) as [Hi Hr]; auto. unfold i16_min. lia.
  - destruct (unguarded_i16 (cm_value m)) as [Hi Hr]; auto. unfold i16_max. lia.
Qed.

Theorem to_i32_spec m :
  let v := cm_value m in
  (fb64_is_nan v = true -> to_i32 m = (with_over_range (cm_flags m), 0%Z)) /\
  (fb64_is_nan v = false -> fb64_lt v fb64_i32_min = true -> to_i32 m = (with_over_range (cm_flags m), i32_min)) /\
  (fb64_is_nan v = false -> fb64_lt v fb64_i32_min = false -> fb64_gt v fb64_i32_max = true ->
     to_i32 m = (with_over_range (cm_flags m), i32_max)) /\
  (fb64_is_nan v = false -> fb64_lt v fb64_i32_min = false -> fb64_gt v fb64_i32_max = false ->
     to_i32 m = (cm_flags m, fb64_trunc v) /\ (i32_min <= fb64_trunc v <= i32_max)%Z).
Proof.
  Local Transparent to_i32.
  cbv zeta. unfold to_i32, conv_int, to_i32_guards. cbn [first_guard guard_fires].
  repeat split; intros; repeat match goal with H : _ = _ |- _ => rewrite H end; try reflexivity.
  - destruct (unguarded_i32 (cm_value m)) as [Hi Hr]; auto.
    unfold fb64_to_int. repeat match goal with H : _ = _ |- _ => rewrite H end.
    f_equal. unfold i32_min, i32_max. lia.
  - destruct (unguarded_i32 (cm_value m)) as [Hi Hr]; auto. unfold i32_min. lia.
  - destruct (unguarded_i32 (cm_value m)) as [Hi Hr]; auto. unfold i32_max. lia.
Qed.

(* to_f32: NaN stays NaN with its flags (an f32 can carry it); beyond +-f32::MAX (infinities included)
   the value becomes +-f32::MAX and is flagged; otherwise it is rounded to a finite f32 of the same sign *)
Theorem to_f32_spec m :
  let v := cm_value m in
  (fb64_is_nan v = true -> to_f32 m = (cm_flags m, fb64_to_f32 v) /\ fb32_is_nan (fb64_to_f32 v) = true) /\
  (fb64_is_nan v = false -> fb64_lt v fb64_f32_min = true -> to_f32 m = (with_over_range (cm_flags m), fb32_min_bits)) /\
  (fb64_is_nan v = false -> fb64_lt v fb64_f32_min = false -> fb64_gt v fb64_f32_max = true ->
     to_f32 m = (with_over_range (cm_flags m), fb32_max_bits)) /\
  (fb64_is_nan v = false -> fb64_lt v fb64_f32_min = false -> fb64_gt v fb64_f32_max = false ->
     to_f32 m = (cm_flags m, fb64_to_f32 v) /\ fb32_exp (fb64_to_f32 v) < 255 /\
     fb32_sign (fb64_to_f32 v) = fb64_sign v).
Proof.
  Local Transparent to_f32.
  cbv zeta. unfold to_f32, to_f32_guards. cbn [first_guard guard_fires].
  assert (Hnn : forall v, fb64_is_nan v = true -> fb64_lt v fb64_f32_min = false /\ fb64_gt v fb64_f32_max = false).
  { intros v H. unfold fb64_gt, fb64_lt. rewrite H. cbn [negb andb]. rewrite andb_false_r. auto. }
  repeat split; intros; repeat match goal with H : _ = _ |- _ => rewrite H end; try reflexivity.
  - destruct (Hnn _ H) as [H1 H2]. rewrite H1, H2. reflexivity.
  - unfold fb64_to_f32. rewrite H.
    assert (Hl : N.lor fb32_quiet (fb64_mant (cm_value m) / p29) < 2 ^ 23).
    { apply lor_lt_pow2; [vm_compute; reflexivity|]. unfold fb64_mant, p52, p29. change (2 ^ 23) with 8388608. lia. }
    assert (Hq : N.lor fb32_quiet (fb64_mant (cm_value m) / p29) <> 0).
    { intros E. apply N.lor_eq_0_l in E. discriminate E. }
    change (2 ^ 23) with 8388608 in Hl.
    pose proof (fb64_sign_lt2 (cm_value m)).
    unfold fb32_is_nan, fb32_exp, fb32_mant, fb32_inf_mag, p31, p23 in *.
    apply andb_true_iff. split; [apply N.eqb_eq|apply negb_true_iff, N.eqb_neq]; lia.
  - apply unguarded_f32; assumption.
  - apply unguarded_f32; assumption.
Qed.

(* ---- representable measurements arrive unchanged ---------------------------------------------------- *)
Lemma to_i16_exact m z : (i16_min <= z <= i16_max)%Z -> cm_value m = fb64_of_Z z -> to_i16 m = (cm_flags m, z).
Proof.
  intros Hz Hv. unfold i16_min, i16_max in Hz.
  destruct (int_exact_i16 z Hz) as (Hn & Hl & Hg & Hc).
  destruct (to_i16_spec m) as (_ & _ & _ & H). cbv zeta in H. rewrite Hv in H.
  destruct (H Hn Hl Hg) as [E _]. rewrite E. f_equal.
  unfold fb64_to_int in Hc. rewrite Hn in Hc.
  destruct (fb64_of_Z_finite_trunc z ltac:(lia)) as (_ & Hi & Ht). exact Ht.
Qed.

Lemma to_i32_exact m z : (i32_min <= z <= i32_max)%Z -> cm_value m = fb64_of_Z z -> to_i32 m = (cm_flags m, z).
Proof.
  intros Hz Hv. unfold i32_min, i32_max in Hz.
  destruct (int_exact_i32 z Hz) as (Hn & Hl & Hg & Hc).
  destruct (to_i32_spec m) as (_ & _ & _ & H). cbv zeta in H. rewrite Hv in H.
  destruct (H Hn Hl Hg) as [E _]. rewrite E. f_equal.
  destruct (fb64_of_Z_finite_trunc z ltac:(lia)) as (_ & Hi & Ht). exact Ht.
Qed.

Lemma to_f32_exact m x : x < p32 -> fb32_exp x < 255 -> cm_value m = fb32_to_f64 x -> to_f32 m = (cm_flags m, x).
Proof.
  intros Hx He Hv.
  destruct (f32_round_trip x Hx He) as (Hb & Hn & Hl & Hg).
  destruct (to_f32_spec m) as (_ & _ & _ & H). cbv zeta in H. rewrite Hv in H.
  destruct (H Hn Hl Hg) as [E _]. rewrite E, Hb. reflexivity.
Qed.

(* write_cto and Time::checked_add are inverse: the offset written under a common time of occurrence
   gives back the absolute time and its synchronisation *)
Lemma cto_diff_add c tm d : snd tm <= timestamp_max -> cto_diff c tm = Some d ->
  d < 65536 /\ cto_add (Some c) d = Some tm.
Proof.
  destruct c as [cq ct], tm as [q t]. unfold cto_diff, cto_add, cto_max_gap, timestamp_max. cbn [fst snd].
  intros Ht H.
  destruct (tq_eqb q cq) eqn:Eq; cbn [negb] in H; [|discriminate].
  destruct (t <? ct) eqn:E1; [discriminate|]. apply N.ltb_ge in E1.
  destruct (65535 <? t - ct) eqn:E2; [discriminate|]. apply N.ltb_ge in E2.
  injection H as <-.
  rewrite N.mod_small by lia. split; [lia|].
  replace (281474976710655 - ct <? t - ct) with false by (symmetry; apply N.ltb_ge; lia).
  assert (cq = q) by (destruct q, cq; cbn in Eq; congruence). subst cq.
  do 2 f_equal. lia.
Qed.

Theorem trip_exact r m cto d : In r recipes -> wf_meas (rc_type r) m -> representable r m -> d < 65536 ->
  (rc_to_time r = Some ToTimeCto -> exists c, cto = Some c /\ cto_diff c (event_time m) = Some d) ->
  decode_obj r cto (encode_obj r m d) = mk_cmeas (cm_value m) (wire_flags (rc_type r) m) (cm_time m) [].
Proof.
  intros Hin Hwf (Hrv & Hrf & Hrt) Hd Hcto.
  rewrite trip_general by assumption.
  unfold narrowed, narrowed_value, narrowed_flags, narrowed_time.
  unfold value_representable, flags_representable, time_representable in *.
  destruct Hwf as (Hv & Hf & Ht & Hb).
  unfold recipes in Hin. cbn [In] in Hin.
  repeat (destruct Hin as [<-|Hin]; [
    cbn [rc_type rc_to_value rc_to_flags rc_to_time conv_of fst snd] in *;
    repeat match goal with
           | H : exists _, _ |- _ => destruct H as [? H]
           | H : _ /\ _ |- _ => destruct H
           end;
    try match goal with
        | Hc : cm_value m = fb64_of_Z ?z |- context [to_i16 m] => rewrite (to_i16_exact m z) by (try split; assumption)
        | Hc : cm_value m = fb64_of_Z ?z |- context [to_i32 m] => rewrite (to_i32_exact m z) by (try split; assumption)
        | Hc : cm_value m = fb32_to_f64 ?x |- context [to_f32 m] => rewrite (to_f32_exact m x) by assumption
        end;
    cbn [fst snd];
    f_equal;
    try (symmetry; assumption); try assumption; try reflexivity;
    try (rewrite N.mod_small by assumption; reflexivity);
    try (unfold wire_flags; cbn [wire_flags_of]; congruence);
    try (match goal with H : cm_time m = Some (Sync, _) |- _ => rewrite H; reflexivity end);
    try (destruct (Hcto eq_refl) as (c & -> & Hc);
         destruct (cm_time m) as [tm|] eqn:Etm; [|congruence];
         unfold event_time in Hc; rewrite Etm in Hc;
         apply (cto_diff_add c tm d); [destruct tm; exact Ht|exact Hc])
  |]).
  contradiction.
Qed.

(* ---- events: every event reaches the handler with its own index, flags, value and absolute time ---- *)
Definition event_time_result (r : recipe) (m : cmeas) : option (tq * N) :=
  match rc_to_time r with
  | None => None
  | Some ToTimeInto => Some (Sync, time_stamp (cm_time m))
  | Some ToTimeCto => Some (event_time m)
  end.

Definition event_result (r : recipe) (m : cmeas) : cmeas :=
  mk_cmeas (narrowed_value r m) (narrowed_flags r m) (event_time_result r m) [].

(* an event of one of the event variations of outstation/database/details/event/traits.rs *)
Definition ev_wf (e : cpoint) : Prop :=
  exists t c, In (t, cp_group e, cp_var e, c) event_vars /\ wf_meas t (cp_meas e).

Definition ev_expect (e : cpoint) : otype * N * cmeas :=
  match find_recipe (cp_group e) (cp_var e) with
  | Some r => (OT (rc_type r), cp_idx e, event_result r (cp_meas e))
  | None => (OOct, cp_idx e, cp_meas e)
  end.

Lemma event_var_facts t g v c : In (t, g, v, c) event_vars ->
  exists r ie hf, find_recipe g v = Some r /\ In r recipes /\ rc_type r = t /\
    find_info prefixed_info g v = Some (t, ie, hf) /\ uses_cto g v = c /\
    (rc_to_time r = Some ToTimeCto <-> c = true) /\ is_octets g = false /\ (g =? 111) = false.
Proof.
  intros Hin. unfold event_vars in Hin. cbn [In] in Hin.
  repeat (destruct Hin as [E|Hin]; [
    injection E as <- <- <- <-;
    match goal with |- exists r ie hf, find_recipe ?g ?v = _ /\ _ =>
      let x := eval vm_compute in (find_recipe g v) in
      match x with Some ?r => exists r end
    end;
    match goal with |- exists ie hf, _ /\ _ /\ _ /\ find_info prefixed_info ?g ?v = _ /\ _ =>
      let x := eval vm_compute in (find_info prefixed_info g v) in
      match x with Some (_, ?ie, ?hf) => exists ie, hf end
    end;
    match goal with |- find_recipe ?g ?v = Some ?r /\ _ =>
      let Hf := fresh "Hf" in
      assert (Hf : find_recipe g v = Some r) by (vm_compute; reflexivity);
      split; [exact Hf|];
      split; [exact (proj1 (find_some _ _ Hf))|]
    end;
    split; [reflexivity|];
    split; [vm_compute; reflexivity|];
    split; [vm_compute; reflexivity|];
    split; [cbn [rc_to_time]; split; congruence|];
    split; vm_compute; reflexivity
  |]).
  contradiction.
Qed.

Lemma meas_of_app a b : meas_of (a ++ b) = meas_of a ++ meas_of b.
Proof. induction a as [|[|] a IH]; cbn [meas_of app]; auto. rewrite IH. reflexivity. Qed.

Lemma meas_of_map_meas {A} (f : A -> otype * N * cmeas) l :
  meas_of (map (fun x => OMeas (fst (fst (f x))) (snd (fst (f x))) (snd (f x))) l) = map f l.
Proof. induction l as [|x l IH]; cbn [map meas_of]; auto. rewrite IH. destruct (f x) as [[? ?] ?]. reflexivity. Qed.

(* what the master extracts from one count-and-prefix header of an event variation *)
Lemma extract_prefix_meas cto t g v items r ie hf :
  find_recipe g v = Some r -> find_info prefixed_info g v = Some (t, ie, hf) -> (g =? 111) = false ->
  meas_of (extract_prefix cto g v items) = map (fun it => (OT t, fst it, decode_obj r cto (snd it))) items.
Proof.
  intros Hr Hi Hg. unfold extract_prefix. rewrite Hg, Hr, Hi. cbn [meas_of].
  induction items as [|it items IH]; cbn [map meas_of]; auto. rewrite IH. reflexivity.
Qed.

(* the measurement decoded from the bytes written for event e, under the master's running cto *)
Lemma event_obj_trip r m cto d :
  In r recipes -> wf_meas (rc_type r) m -> d < 65536 ->
  (rc_to_time r = Some ToTimeCto -> cto_add cto d = Some (event_time m)) ->
  decode_obj r cto (encode_obj r m d) = event_result r m.
Proof.
  intros Hin Hwf Hd Hc. rewrite trip_general by assumption.
  unfold narrowed, event_result. f_equal.
  unfold narrowed_time, event_time_result.
  destruct (rc_to_time r) as [[|]|]; auto.
Qed.

Lemma cto_add_zero tm : snd tm <= timestamp_max -> cto_add (Some tm) 0 = Some tm.
Proof.
  destruct tm as [q t]. unfold cto_add, timestamp_max. cbn [snd]. intros H.
  replace (281474976710655 - t <? 0) with false by (symmetry; apply N.ltb_ge; lia).
  rewrite N.add_0_r. reflexivity.
Qed.

Lemma event_time_wf t m : wf_meas t m -> snd (event_time m) <= timestamp_max.
Proof.
  intros (_ & _ & Ht & _). unfold event_time, wf_time in *.
  destruct (cm_time m) as [[q x]|]; cbn [snd]; [exact Ht|unfold timestamp_max; lia].
Qed.

Definition state_ok (cur : option cestate) (cto_m : option (tq * N)) : Prop :=
  match cur with
  | None => True
  | Some s => (exists t c, In (t, es_g s, es_v s, c) event_vars) /\
              snd (es_cto s) <= timestamp_max /\
              (uses_cto (es_g s) (es_v s) = true -> cto_m = Some (es_cto s))
  end.

Definition pending (cur : option cestate) (cto_m : option (tq * N)) : list (otype * N * cmeas) :=
  match cur with
  | None => []
  | Some s => meas_of (extract_prefix cto_m (es_g s) (es_v s) (es_items s))
  end.

Lemma extract_cto_hdr cto_m tm X : snd tm <= timestamp_max ->
  extract cto_m (cto_hdr tm :: X) = extract (Some tm) X.
Proof.
  destruct tm as [q t]. unfold cto_hdr. cbn [fst snd extract]. intros H.
  rewrite N.mod_small by (unfold timestamp_max in *; lia).
  destruct q; reflexivity.
Qed.

(* starting a new header for event e and continuing with the rest *)
Lemma fresh_header e rest cto_m :
  ev_wf e ->
  (forall cur cto', state_ok cur cto' ->
     meas_of (extract cto' (event_write rest cur)) = pending cur cto' ++ map ev_expect rest) ->
  meas_of (extract cto_m (fst (start_header (cp_idx e) (cp_group e) (cp_var e) (cp_meas e)) ++
                          event_write rest (Some (snd (start_header (cp_idx e) (cp_group e) (cp_var e) (cp_meas e))))))
  = ev_expect e :: map ev_expect rest.
Proof.
  intros (t & c & Hin & Hwf) IH.
  destruct (event_var_facts _ _ _ _ Hin) as (r & ie & hf & Hr & Hrin & Ht & Hi & Hu & Hc & Ho & Hg).
  subst t.
  pose proof (event_time_wf _ _ Hwf) as Htm.
  unfold start_header. cbn [fst snd]. rewrite Hu.
  set (s' := mk_cestate (cp_group e) (cp_var e) (event_time (cp_meas e))
                        [(cp_idx e, event_bytes (cp_group e) (cp_var e) (cp_meas e) 0)]).
  assert (Hexp : forall cto', (c = true -> cto' = Some (event_time (cp_meas e))) ->
            pending (Some s') cto' = [ev_expect e]).
  { intros cto' Hcto. unfold pending, s'. cbn [es_g es_v es_items].
    rewrite (extract_prefix_meas cto' (rc_type r) _ _ _ r ie hf Hr Hi Hg). cbn [map fst snd].
    unfold ev_expect, event_bytes. rewrite Hr, Ho.
    rewrite event_obj_trip; auto; [lia|].
    intros Hcto'. apply Hc in Hcto'. rewrite (Hcto Hcto'). apply cto_add_zero. exact Htm. }
  destruct c.
  - cbn [app]. rewrite extract_cto_hdr by exact Htm.
    rewrite IH.
    + rewrite Hexp by auto. reflexivity.
    + unfold state_ok, s'. cbn [es_g es_v es_cto]. split; [eauto|]. split; [exact Htm|auto].
  - cbn [app]. rewrite IH.
    + rewrite Hexp by congruence. reflexivity.
    + unfold state_ok, s'. cbn [es_g es_v es_cto]. split; [eauto|]. split; [exact Htm|]. rewrite Hu. congruence.
Qed.

Theorem event_write_extract evs : Forall ev_wf evs -> forall cur cto_m, state_ok cur cto_m ->
  meas_of (extract cto_m (event_write evs cur)) = pending cur cto_m ++ map ev_expect evs.
Proof.
  induction 1 as [|e rest He Hrest IH]; intros cur cto_m Hok.
  - destruct cur as [s|]; cbn [event_write extract finish_estate pending map meas_of]; auto.
    rewrite !app_nil_r. reflexivity.
  - pose proof (fresh_header e rest) as Hfresh.
    cbn [event_write map].
    destruct cur as [s|].
    + (* a header is in progress *)
      assert (Hnew : forall X, X = fst (start_header (cp_idx e) (cp_group e) (cp_var e) (cp_meas e)) ++
                        event_write rest (Some (snd (start_header (cp_idx e) (cp_group e) (cp_var e) (cp_meas e)))) ->
                meas_of (extract cto_m (finish_estate s :: X)) = pending (Some s) cto_m ++ ev_expect e :: map ev_expect rest).
      { intros X ->. unfold finish_estate. cbn [extract]. rewrite meas_of_app.
        rewrite (Hfresh cto_m He IH). reflexivity. }
      destruct (start_header (cp_idx e) (cp_group e) (cp_var e) (cp_meas e)) as [hs s'] eqn:Esh.
      cbn [fst snd] in Hnew.
      destruct ((es_g s =? cp_group e) && (es_v s =? cp_var e)) eqn:Esame; [|cbn [app]; apply Hnew; reflexivity].
      apply andb_true_iff in Esame. destruct Esame as [Eg Ev]. apply N.eqb_eq in Eg. apply N.eqb_eq in Ev.
      destruct (N.of_nat (length (es_items s)) =? 65535); [cbn [app]; apply Hnew; reflexivity|].
      destruct He as (t & c & Hin & Hwf).
      destruct (event_var_facts _ _ _ _ Hin) as (r & ie & hf & Hr & Hrin & Ht & Hi & Hu & Hc & Ho & Hg).
      subst t.
      destruct Hok as (Hsin & Hsmax & Hscto). rewrite Eg, Ev in Hscto.
      (* appending to the header in progress *)
      assert (Happend : forall d, d < 65536 ->
                 (rc_to_time r = Some ToTimeCto -> cto_add cto_m d = Some (event_time (cp_meas e))) ->
                 meas_of (extract cto_m (event_write rest (Some (mk_cestate (cp_group e) (cp_var e) (es_cto s)
                             (es_items s ++ [(cp_idx e, event_bytes (cp_group e) (cp_var e) (cp_meas e) d)])))))
                 = pending (Some s) cto_m ++ ev_expect e :: map ev_expect rest).
      { intros d Hd Hadd. rewrite IH.
        - unfold pending. cbn [es_g es_v es_items]. rewrite Eg, Ev.
          rewrite !(extract_prefix_meas cto_m (rc_type r) _ _ _ r ie hf Hr Hi Hg).
          rewrite map_app. cbn [map fst snd]. rewrite <- app_assoc. cbn [app].
          unfold ev_expect at 2, event_bytes. rewrite Hr, Ho.
          rewrite event_obj_trip; auto.
        - unfold state_ok. cbn [es_g es_v es_cto]. split; [eauto|]. split; [exact Hsmax|exact Hscto]. }
      rewrite Hu.
      destruct c.
      * destruct (cto_diff (es_cto s) (event_time (cp_meas e))) as [d|] eqn:Ed; [|cbn [app]; apply Hnew; reflexivity].
        destruct (cto_diff_add _ _ _ (event_time_wf _ _ Hwf) Ed) as [Hd Hadd].
        apply Happend; [exact Hd|]. intros _. rewrite (Hscto Hu). exact Hadd.
      * apply Happend; [lia|]. intros Hx. apply Hc in Hx. discriminate.
    + (* no header yet *)
      destruct (start_header (cp_idx e) (cp_group e) (cp_var e) (cp_meas e)) as [hs s'] eqn:Esh.
      cbn [app pending]. specialize (Hfresh cto_m He IH). cbn [fst snd] in Hfresh.
      exact Hfresh.
Qed.

(* C10 cto_exact + flags_not_crossed for events: whatever the order, the times, the synchronisation and the
   number of CTO headers needed, the i-th measurement handed to the master's handler carries the i-th
   event's index, its own flags and value (as narrowed by the variation) and, for g2v3/g4v3, exactly
   its absolute time and synchronisation quality *)
Theorem events_exact req evs : Forall ev_wf (map (event_entry req) evs) ->
  meas_of (extract None (write_events req evs)) = map ev_expect (map (event_entry req) evs).
Proof.
  intros H. unfold write_events. rewrite (event_write_extract _ H None None I). reflexivity.
Qed.
