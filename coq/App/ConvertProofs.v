(* App/ConvertProofs.v — theorems about App/Convert.v (property C10).  No Flocq here: every theorem of
   this file is axiom free.  Float facts used here are the bit-level lemmas of the first part. *)
From Dnp3V Require Import Base.Bytes gen.Conversions App.FloatBits App.Convert.
Open Scope N_scope.

(* ---- little endian ---------------------------------------------------------------------------- *)
Lemma le_enc_length n x : length (le_enc n x) = n.
Proof. revert x; induction n as [|n IH]; intros x; cbn [le_enc length]; auto. Qed.

Lemma le_dec_enc n x : le_dec (le_enc n x) = x mod 256 ^ N.of_nat n.
Proof.
  revert x; induction n as [|n IH]; intros x.
  - cbn [le_enc le_dec N.of_nat]. rewrite N.pow_0_r, N.mod_1_r. reflexivity.
  - cbn [le_enc le_dec]. rewrite IH.
    replace (N.of_nat (S n)) with (N.succ (N.of_nat n)) by lia.
    rewrite N.pow_succ_r'.
    assert (Hp : 256 ^ N.of_nat n <> 0) by (apply N.pow_nonzero; lia).
    set (p := 256 ^ N.of_nat n) in *.
    rewrite N.mod_mul_r by lia. reflexivity.
Qed.

Lemma firstn_app_exact {A} (a b : list A) n : length a = n -> firstn n (a ++ b) = a.
Proof. intros <-. rewrite firstn_app, Nat.sub_diag, firstn_all. cbn. apply app_nil_r. Qed.

Lemma skipn_app_exact {A} (a b : list A) n : length a = n -> skipn n (a ++ b) = b.
Proof. intros <-. rewrite skipn_app, Nat.sub_diag, skipn_all. reflexivity. Qed.

(* reading the fields of an object back: generic in the layout *)
Lemma read_fields_encode (l : list (fld * wtype)) (g : fld -> N) rest :
  read_fields l (flat_map (fun fw => le_enc (wwidth (snd fw)) (g (fst fw))) l ++ rest)
  = map (fun fw => (fst fw, snd fw, g (fst fw) mod 256 ^ N.of_nat (wwidth (snd fw)))) l.
Proof.
  induction l as [|[f w] l IH]; cbn [read_fields flat_map map fst snd]; auto.
  rewrite <- app_assoc.
  rewrite firstn_app_exact by apply le_enc_length.
  rewrite skipn_app_exact by apply le_enc_length.
  rewrite le_dec_enc, IH. reflexivity.
Qed.

Lemma encode_obj_length r m d : length (encode_obj r m d) = layout_size (rc_layout r).
Proof.
  unfold encode_obj, layout_size.
  induction (rc_layout r) as [|[f w] l IH]; cbn [flat_map fold_right snd fst]; auto.
  rewrite app_length, le_enc_length, IH. reflexivity.
Qed.
