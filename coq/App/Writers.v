(* App/Writers.v — model of dnp3/src/app/format/write.rs (start_request, HeaderWriter) as the request
   builders of dnp3/src/master/request.rs use it: class / all-objects headers, 8- and 16-bit ranges,
   limited counts, count-of-one, the clear-restart write and prefixed items with an 8- or 16-bit prefix
   whose count is patched after the items have been written.  Definitions only.

   The write cursor (scursor::WriteCursor over a buffer of `cap` bytes) is modelled by the sequence of its
   operations: `write` of some bytes (WriteOverflow when they do not fit) and `skip` (BadSeek when the
   position would pass the end).  Patching with `at_pos` never fails once the skip succeeded. *)
From Dnp3V Require Export App.Grammar.
Open Scope N_scope.

Inductive awerr := WEOverflow | WEBadSeek | WENumeric | WEAttrLength.

Inductive awop := WoBytes (bs : list N) | WoSkip (k : N).

(* the first operation that does not fit decides the error *)
Fixpoint awfits (remaining : N) (ops : list awop) : option awerr :=
  match ops with
  | [] => None
  | WoBytes bs :: r =>
      let k := N.of_nat (length bs) in
      if k <=? remaining then awfits (remaining - k) r else Some WEOverflow
  | WoSkip k :: r =>
      if k <=? remaining then awfits (remaining - k) r else Some WEBadSeek
  end.

(* OwnedAttrValue (integers as u32 bit patterns, floats as bit patterns) *)
Inductive awattr :=
| WaVStr (b : list N) | WaUInt (x : N) | WaInt (x : N) | WaF32 (x : N) | WaF64 (x : N)
| WaOStr (b : list N) | WaBStr (b : list N) | WaTime (x : N).

(* OwnedAttrValue::write: type code, length, payload.  Integers take the shortest of 1, 2, 4 bytes that
   UInt::new / Int::new choose (the upper bounds of Int's ranges are exclusive); None = BadLength *)
Definition aw_attr_value (val : awattr) : option (list N) :=
  let str code b := if N.of_nat (length b) <=? 255 then Some (code :: N.of_nat (length b) :: b) else None in
  match val with
  | WaVStr b => str attr_visible_string b
  | WaOStr b => str attr_octet_string b
  | WaBStr b => str attr_bit_string b
  | WaUInt x =>
      Some (if x <=? 255 then [attr_unsigned_int; 1; x]
            else if x <=? 65535 then attr_unsigned_int :: 2 :: ale_bytes 2 x
            else attr_unsigned_int :: 4 :: ale_bytes 4 x)
  | WaInt x =>
      Some (if (x <? 127) || (4294967168 <=? x) then [attr_signed_int; 1; x mod 256]
            else if (x <? 32767) || (4294934528 <=? x) then attr_signed_int :: 2 :: ale_bytes 2 x
            else attr_signed_int :: 4 :: ale_bytes 4 x)
  | WaF32 x => Some (attr_floating_point :: 4 :: ale_bytes 4 x)
  | WaF64 x => Some (attr_floating_point :: 8 :: ale_bytes 8 x)
  | WaTime x => Some (attr_dnp3_time :: 6 :: ale_bytes 6 x)
  end.

Inductive awheader :=
| WAll (g v : N)
| WRange8 (g v start stop : N)
| WRange16 (g v start stop : N)
| WCount8 (g v c : N)
| WCount16 (g v c : N)
| WClasses (c1 c2 c3 c0 : bool)
| WPrefixed (g v psize : N) (items : list (N * list N))      (* (index, object as T::read accepts it) *)
| WCountOfOne (g v : N) (obj : list N)
| WClearRestart
| WAttr (set var : N) (val : awattr).

(* T::write of T::read of the given bytes (the harness builds the objects with the production `read`) *)
Definition arewrite (g v : N) (obj : list N) : list N :=
  match afixed g v with
  | Some fi => match aread_fields (awidths fi) obj with
               | Some (xs, _) => awrite_fields (awidths_w fi) xs
               | None => obj
               end
  | None => obj
  end.

Definition aw_item (g v psize : N) (it : N * list N) : list N :=
  ale_bytes (N.to_nat psize) (fst it) ++ arewrite g v (snd it).

Definition aw_class (on : bool) (v : N) : list N := if on then [60; v; q_all_objects] else [].

(* largest count a prefix of psize bytes can carry *)
Definition aw_max_count (psize : N) : N := 256 ^ psize - 1.

(* the bytes a header occupies in the finished request *)
Definition aw_bytes (h : awheader) : list N :=
  match h with
  | WAll g v => [g; v; q_all_objects]
  | WRange8 g v a b => [g; v; q_range8; a; b]
  | WRange16 g v a b => [g; v; q_range16; lo8 a; hi8 a; lo8 b; hi8 b]
  | WCount8 g v c => [g; v; q_count8; c]
  | WCount16 g v c => [g; v; q_count16; lo8 c; hi8 c]
  | WClasses c1 c2 c3 c0 => aw_class c1 2 ++ aw_class c2 3 ++ aw_class c3 4 ++ aw_class c0 1
  | WPrefixed g v psize items =>
      [g; v; if psize =? 1 then q_count_and_prefix8 else q_count_and_prefix16]
      ++ ale_bytes (N.to_nat psize) (N.of_nat (length items))
      ++ concat (map (aw_item g v psize) items)
  | WCountOfOne g v obj => [g; v; q_count8; 1] ++ arewrite g v obj
  | WClearRestart => [80; 1; q_range8; 7; 7; 0]
  | WAttr set var val => [0; var; q_range8; set; set] ++ match aw_attr_value val with Some b => b | None => [] end
  end.

(* the cursor operations that produce them, in order *)
(* ... and the error, if any, that is raised once they have all succeeded: a prefixed header refuses the
   item that does not fit its count field (NumericOverflow), an attribute string longer than 255 bytes
   is refused after the header has been written (BadLength) *)
Definition aw_ops (h : awheader) : list awop * option awerr :=
  match h with
  | WPrefixed g v psize items =>
      let fits := N.of_nat (length items) <=? aw_max_count psize in
      let written := if fits then items else firstn (N.to_nat (aw_max_count psize)) items in
      (WoBytes [g; v; 0] :: WoSkip psize :: map (fun it => WoBytes (aw_item g v psize it)) written,
       if fits then None else Some WENumeric)
  | WAttr set var val =>
      match aw_attr_value val with
      | Some b => ([WoBytes [0; var; q_range8; set; set]; WoBytes b], None)
      | None => ([WoBytes [0; var; q_range8; set; set]], Some WEAttrLength)
      end
  | _ => ([WoBytes (aw_bytes h)], None)
  end.

(* the error of the first header that fails *)
Fixpoint aw_run (remaining : N) (hs : list awheader) : option awerr :=
  match hs with
  | [] => None
  | h :: r =>
      match awfits remaining (fst (aw_ops h)) with
      | Some e => Some e
      | None =>
          match snd (aw_ops h) with
          | Some e => Some e
          | None => aw_run (remaining - N.of_nat (length (aw_bytes h))) r
          end
      end
  end.

(* start_request(ControlField::request(seq), function, cursor) followed by the headers *)
Definition awrite_request (cap seq fc : N) (hs : list awheader) : ares (list N) awerr :=
  let hdr := awrite_header {| ah_control := actl_request seq; ah_function := fc; ah_iin := None |} in
  match awfits cap [WoBytes [actl_to (actl_request seq)]; WoBytes [fc]] with
  | Some e => AErr e
  | None =>
      match aw_run (cap - 2) hs with
      | Some e => AErr e
      | None => AOk (hdr ++ concat (map aw_bytes hs))
      end
  end.
