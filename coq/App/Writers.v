(* App/Writers.v — model of dnp3/src/app/format/write.rs (start_request, HeaderWriter) as the request
   builders of dnp3/src/master/request.rs use it: class / all-objects headers, 8- and 16-bit ranges,
   limited counts, count-of-one, the clear-restart write and prefixed items with an 8- or 16-bit prefix
   whose count is patched after the items have been written.  Definitions only.

   The write cursor (scursor::WriteCursor over a buffer of `cap` bytes) is modelled by the sequence of its
   operations: `write` of some bytes (WriteOverflow when they do not fit) and `skip` (BadSeek when the
   position would pass the end).  Patching with `at_pos` never fails once the skip succeeded.

   Also here: the writers of the free-format file objects g70v2 .. g70v8 (dnp3/src/app/file/g70v*.rs `write`,
   the helper `byte_length` of app/file/mod.rs) and HeaderWriter::write_free_format. *)
From Dnp3V Require Export App.Grammar.
Open Scope N_scope.

Inductive awerr := WEOverflow | WEBadSeek | WENumeric | WEAttrLength.

Inductive awop := WoBytes (bs : list N) | WoSkip (k : N).

(* the first operation that does not fit decides the error *)
Fixpoint awfits (remaining : N) (ops : list awop) : option awerr :=
  match ops with
  | [] => None
  | WoBytes bs :: r =>
      let k := N.of_nat (length bs) in
      if k <=? remaining then awfits (remaining - k) r else Some WEOverflow
  | WoSkip k :: r =>
      if k <=? remaining then awfits (remaining - k) r else Some WEBadSeek
  end.

(* OwnedAttrValue (integers as u32 bit patterns, floats as bit patterns) *)
Inductive awattr :=
| WaVStr (b : list N) | WaUInt (x : N) | WaInt (x : N) | WaF32 (x : N) | WaF64 (x : N)
| WaOStr (b : list N) | WaBStr (b : list N) | WaTime (x : N).

(* OwnedAttrValue::write: type code, length, payload.  Integers take the shortest of 1, 2, 4 bytes that
   UInt::new / Int::new choose (the upper bounds of Int's ranges are exclusive); None = BadLength *)
Definition aw_attr_value (val : awattr) : option (list N) :=
  let str code b := if N.of_nat (length b) <=? 255 then Some (code :: N.of_nat (length b) :: b) else None in
  match val with
  | WaVStr b => str attr_visible_string b
  | WaOStr b => str attr_octet_string b
  | WaBStr b => str attr_bit_string b
  | WaUInt x =>
      Some (if x <=? 255 then [attr_unsigned_int; 1; x]
            else if x <=? 65535 then attr_unsigned_int :: 2 :: ale_bytes 2 x
            else attr_unsigned_int :: 4 :: ale_bytes 4 x)
  | WaInt x =>
      Some (if (x <? 127) || (4294967168 <=? x) then [attr_signed_int; 1; x mod 256]
            else if (x <? 32767) || (4294934528 <=? x) then attr_signed_int :: 2 :: ale_bytes 2 x
            else attr_signed_int :: 4 :: ale_bytes 4 x)
  | WaF32 x => Some (attr_floating_point :: 4 :: ale_bytes 4 x)
  | WaF64 x => Some (attr_floating_point :: 8 :: ale_bytes 8 x)
  | WaTime x => Some (attr_dnp3_time :: 6 :: ale_bytes 6 x)
  end.

(* ---- free-format file objects (group 70): dnp3/src/app/file/g70v2.rs .. g70v8.rs -------------------
   Strings (&str) are given as the list of their UTF-8 bytes, so `length` of a string field IS
   str::len() = the number of bytes, which is what `byte_length` must put into the 16-bit size fields.
   Numeric fields are the raw wire values (FileStatus::to_u8, FileType::to_u16, FileMode::to_u16,
   Permissions::value (9 bits), Timestamp::raw_value (48 bits)). *)
Record ag70v2 := { f2_auth_key : N; f2_user_name : list N; f2_password : list N }.
Record ag70v3 := { f3_time : N; f3_permissions : N; f3_auth_key : N; f3_file_size : N; f3_mode : N;
                   f3_max_block_size : N; f3_request_id : N; f3_file_name : list N }.
Record ag70v4 := { f4_file_handle : N; f4_file_size : N; f4_max_block_size : N; f4_request_id : N;
                   f4_status : N; f4_text : list N }.
Record ag70v5 := { f5_file_handle : N; f5_block_number : N; f5_file_data : list N }.
Record ag70v6 := { f6_file_handle : N; f6_block_number : N; f6_status : N; f6_text : list N }.
Record ag70v7 := { f7_file_type : N; f7_file_size : N; f7_time : N; f7_permissions : N; f7_request_id : N;
                   f7_file_name : list N }.
Record ag70v8 := { f8_file_specification : list N }.

Inductive afree :=
| F70v2 (x : ag70v2) | F70v3 (x : ag70v3) | F70v4 (x : ag70v4) | F70v5 (x : ag70v5)
| F70v6 (x : ag70v6) | F70v7 (x : ag70v7) | F70v8 (x : ag70v8).

Definition afree_var (o : afree) : N :=
  match o with
  | F70v2 _ => 2 | F70v3 _ => 3 | F70v4 _ => 4 | F70v5 _ => 5 | F70v6 _ => 6 | F70v7 _ => 7 | F70v8 _ => 8
  end.

(* str::len() / [u8]::len() *)
Definition alen (b : list N) : N := N.of_nat (length b).

(* to_u16(x) / u16::checked_add succeed *)
Definition afits16 (x : N) : bool := x <=? 65535.

(* one step of a `write` function: bytes handed to the cursor, or a numeric check (byte_length's to_u16,
   checked_add) that raises format::WriteError::Overflow when it fails; the order is the order of the
   Rust statements, which decides the error that is reported when several things are wrong *)
Inductive fwstep := FsBytes (bs : list N) | FsCheck (ok : bool).

Definition fw_steps (o : afree) : list fwstep :=
  match o with
  | F70v2 x =>
      let ul := alen (f2_user_name x) in
      let pl := alen (f2_password x) in
      [FsBytes (ale_bytes 2 g70v2_user_name_offset);
       FsCheck (afits16 ul); FsBytes (ale_bytes 2 ul);
       FsCheck (afits16 (g70v2_user_name_offset + ul)); FsBytes (ale_bytes 2 (g70v2_user_name_offset + ul));
       FsCheck (afits16 pl); FsBytes (ale_bytes 2 pl);
       FsBytes (ale_bytes 4 (f2_auth_key x));
       FsBytes (f2_user_name x); FsBytes (f2_password x)]
  | F70v3 x =>
      let nl := alen (f3_file_name x) in
      [FsBytes (ale_bytes 2 g70v3_file_name_offset);
       FsCheck (afits16 nl); FsBytes (ale_bytes 2 nl);
       FsBytes (ale_bytes 6 (f3_time x)); FsBytes (ale_bytes 2 (f3_permissions x));
       FsBytes (ale_bytes 4 (f3_auth_key x)); FsBytes (ale_bytes 4 (f3_file_size x));
       FsBytes (ale_bytes 2 (f3_mode x)); FsBytes (ale_bytes 2 (f3_max_block_size x));
       FsBytes (ale_bytes 2 (f3_request_id x)); FsBytes (f3_file_name x)]
  | F70v4 x =>
      [FsBytes (ale_bytes 4 (f4_file_handle x)); FsBytes (ale_bytes 4 (f4_file_size x));
       FsBytes (ale_bytes 2 (f4_max_block_size x)); FsBytes (ale_bytes 2 (f4_request_id x));
       FsBytes (ale_bytes 1 (f4_status x)); FsBytes (f4_text x)]
  | F70v5 x =>
      [FsBytes (ale_bytes 4 (f5_file_handle x)); FsBytes (ale_bytes 4 (f5_block_number x)); FsBytes (f5_file_data x)]
  | F70v6 x =>
      [FsBytes (ale_bytes 4 (f6_file_handle x)); FsBytes (ale_bytes 4 (f6_block_number x));
       FsBytes (ale_bytes 1 (f6_status x)); FsBytes (f6_text x)]
  | F70v7 x =>
      let nl := alen (f7_file_name x) in
      [FsBytes (ale_bytes 2 g70v7_file_name_offset);
       FsCheck (afits16 nl); FsBytes (ale_bytes 2 nl);
       FsBytes (ale_bytes 2 (f7_file_type x)); FsBytes (ale_bytes 4 (f7_file_size x));
       FsBytes (ale_bytes 6 (f7_time x)); FsBytes (ale_bytes 2 (f7_permissions x));
       FsBytes (ale_bytes 2 (f7_request_id x)); FsBytes (f7_file_name x)]
  | F70v8 x => [FsBytes (f8_file_specification x)]
  end.

(* the cursor operations up to the first failing check, and that check's error *)
Fixpoint fw_cut (steps : list fwstep) : list awop * option awerr :=
  match steps with
  | [] => ([], None)
  | FsBytes bs :: r => (WoBytes bs :: fst (fw_cut r), snd (fw_cut r))
  | FsCheck true :: r => fw_cut r
  | FsCheck false :: _ => ([], Some WENumeric)
  end.

Fixpoint fw_bytes (steps : list fwstep) : list N :=
  match steps with
  | [] => []
  | FsBytes bs :: r => bs ++ fw_bytes r
  | FsCheck _ :: r => fw_bytes r
  end.

(* the object body when every check passes *)
Definition fw_body (o : afree) : list N := fw_bytes (fw_steps o).

(* T::write into a cursor that is large enough: the body, or Overflow *)
Definition awrite_free (o : afree) : ares (list N) awerr :=
  match snd (fw_cut (fw_steps o)) with
  | Some e => AErr e
  | None => AOk (fw_body o)
  end.

(* HeaderWriter::write_free_format: group, variation, qualifier 0x5B, count 1, the 16-bit length of the
   object (patched after the object has been written), the object *)
Definition aw_free_bytes (o : afree) : list N :=
  let body := fw_body o in
  [70; afree_var o; q_free_format16; 1; lo8 (alen body); hi8 (alen body)] ++ body.

Inductive awheader :=
| WAll (g v : N)
| WRange8 (g v start stop : N)
| WRange16 (g v start stop : N)
| WCount8 (g v c : N)
| WCount16 (g v c : N)
| WClasses (c1 c2 c3 c0 : bool)
| WPrefixed (g v psize : N) (items : list (N * list N))      (* (index, object as T::read accepts it) *)
| WCountOfOne (g v : N) (obj : list N)
| WClearRestart
| WAttr (set var : N) (val : awattr)
| WFree (obj : afree).

(* T::write of T::read of the given bytes (the harness builds the objects with the production `read`) *)
Definition arewrite (g v : N) (obj : list N) : list N :=
  match afixed g v with
  | Some fi => match aread_fields (awidths fi) obj with
               | Some (xs, _) => awrite_fields (awidths_w fi) xs
               | None => obj
               end
  | None => obj
  end.

Definition aw_item (g v psize : N) (it : N * list N) : list N :=
  ale_bytes (N.to_nat psize) (fst it) ++ arewrite g v (snd it).

Definition aw_class (on : bool) (v : N) : list N := if on then [60; v; q_all_objects] else [].

(* largest count a prefix of psize bytes can carry *)
Definition aw_max_count (psize : N) : N := 256 ^ psize - 1.

(* the bytes a header occupies in the finished request *)
Definition aw_bytes (h : awheader) : list N :=
  match h with
  | WAll g v => [g; v; q_all_objects]
  | WRange8 g v a b => [g; v; q_range8; a; b]
  | WRange16 g v a b => [g; v; q_range16; lo8 a; hi8 a; lo8 b; hi8 b]
  | WCount8 g v c => [g; v; q_count8; c]
  | WCount16 g v c => [g; v; q_count16; lo8 c; hi8 c]
  | WClasses c1 c2 c3 c0 => aw_class c1 2 ++ aw_class c2 3 ++ aw_class c3 4 ++ aw_class c0 1
  | WPrefixed g v psize items =>
      [g; v; if psize =? 1 then q_count_and_prefix8 else q_count_and_prefix16]
      ++ ale_bytes (N.to_nat psize) (N.of_nat (length items))
      ++ concat (map (aw_item g v psize) items)
  | WCountOfOne g v obj => [g; v; q_count8; 1] ++ arewrite g v obj
  | WClearRestart => [80; 1; q_range8; 7; 7; 0]
  | WAttr set var val => [0; var; q_range8; set; set] ++ match aw_attr_value val with Some b => b | None => [] end
  | WFree obj => aw_free_bytes obj
  end.

(* the cursor operations that produce them, in order *)
(* ... and the error, if any, that is raised once they have all succeeded: a prefixed header refuses the
   item that does not fit its count field (NumericOverflow), an attribute string longer than 255 bytes
   is refused after the header has been written (BadLength); a free-format object stops at its first
   failing numeric check, and once it has been written its length must fit the 16-bit length field *)
Definition aw_ops (h : awheader) : list awop * option awerr :=
  match h with
  | WPrefixed g v psize items =>
      let fits := N.of_nat (length items) <=? aw_max_count psize in
      let written := if fits then items else firstn (N.to_nat (aw_max_count psize)) items in
      (WoBytes [g; v; 0] :: WoSkip psize :: map (fun it => WoBytes (aw_item g v psize it)) written,
       if fits then None else Some WENumeric)
  | WAttr set var val =>
      match aw_attr_value val with
      | Some b => ([WoBytes [0; var; q_range8; set; set]; WoBytes b], None)
      | None => ([WoBytes [0; var; q_range8; set; set]], Some WEAttrLength)
      end
  | WFree obj =>
      (WoBytes [70; afree_var obj; q_free_format16; 1] :: WoSkip 2 :: fst (fw_cut (fw_steps obj)),
       match snd (fw_cut (fw_steps obj)) with
       | Some e => Some e
       | None => if afits16 (alen (fw_body obj)) then None else Some WENumeric
       end)
  | _ => ([WoBytes (aw_bytes h)], None)
  end.

(* the error of the first header that fails *)
Fixpoint aw_run (remaining : N) (hs : list awheader) : option awerr :=
  match hs with
  | [] => None
  | h :: r =>
      match awfits remaining (fst (aw_ops h)) with
      | Some e => Some e
      | None =>
          match snd (aw_ops h) with
          | Some e => Some e
          | None => aw_run (remaining - N.of_nat (length (aw_bytes h))) r
          end
      end
  end.

(* start_request(ControlField::request(seq), function, cursor) followed by the headers *)
Definition awrite_request (cap seq fc : N) (hs : list awheader) : ares (list N) awerr :=
  let hdr := awrite_header {| ah_control := actl_request seq; ah_function := fc; ah_iin := None |} in
  match awfits cap [WoBytes [actl_to (actl_request seq)]; WoBytes [fc]] with
  | Some e => AErr e
  | None =>
      match aw_run (cap - 2) hs with
      | Some e => AErr e
      | None => AOk (hdr ++ concat (map aw_bytes hs))
      end
  end.
