(* App/Writers.v — model of dnp3/src/app/format/write.rs (start_request, HeaderWriter) as the request
   builders of dnp3/src/master/request.rs use it: class / all-objects headers, 8- and 16-bit ranges,
   limited counts, count-of-one, the clear-restart write and prefixed items with an 8- or 16-bit prefix
   whose count is patched after the items have been written.  Definitions only.

   The write cursor (scursor::WriteCursor over a buffer of `cap` bytes) is modelled by the sequence of its
   operations: `write` of some bytes (WriteOverflow when they do not fit) and `skip` (BadSeek when the
   position would pass the end).  Patching with `at_pos` never fails once the skip succeeded. *)
From Dnp3V Require Export App.Grammar.
Open Scope N_scope.

Inductive awerr := WEOverflow | WEBadSeek | WENumeric.

Inductive awop := WoBytes (bs : list N) | WoSkip (k : N).

(* the first operation that does not fit decides the error *)
Fixpoint awfits (remaining : N) (ops : list awop) : option awerr :=
  match ops with
  | [] => None
  | WoBytes bs :: r =>
      let k := N.of_nat (length bs) in
      if k <=? remaining then awfits (remaining - k) r else Some WEOverflow
  | WoSkip k :: r =>
      if k <=? remaining then awfits (remaining - k) r else Some WEBadSeek
  end.

Inductive awheader :=
| WAll (g v : N)
| WRange8 (g v start stop : N)
| WRange16 (g v start stop : N)
| WCount8 (g v c : N)
| WCount16 (g v c : N)
| WClasses (c1 c2 c3 c0 : bool)
| WPrefixed (g v psize : N) (items : list (N * list N))      (* (index, object as T::read accepts it) *)
| WCountOfOne (g v : N) (obj : list N)
| WClearRestart.

(* T::write of T::read of the given bytes (the harness builds the objects with the production `read`) *)
Definition arewrite (g v : N) (obj : list N) : list N :=
  match afixed g v with
  | Some fi => match aread_fields (awidths fi) obj with
               | Some (xs, _) => awrite_fields (awidths_w fi) xs
               | None => obj
               end
  | None => obj
  end.

Definition aw_item (g v psize : N) (it : N * list N) : list N :=
  ale_bytes (N.to_nat psize) (fst it) ++ arewrite g v (snd it).

Definition aw_class (on : bool) (v : N) : list N := if on then [60; v; q_all_objects] else [].

(* largest count a prefix of psize bytes can carry *)
Definition aw_max_count (psize : N) : N := 256 ^ psize - 1.

(* the bytes a header occupies in the finished request *)
Definition aw_bytes (h : awheader) : list N :=
  match h with
  | WAll g v => [g; v; q_all_objects]
  | WRange8 g v a b => [g; v; q_range8; a; b]
  | WRange16 g v a b => [g; v; q_range16; lo8 a; hi8 a; lo8 b; hi8 b]
  | WCount8 g v c => [g; v; q_count8; c]
  | WCount16 g v c => [g; v; q_count16; lo8 c; hi8 c]
  | WClasses c1 c2 c3 c0 => aw_class c1 2 ++ aw_class c2 3 ++ aw_class c3 4 ++ aw_class c0 1
  | WPrefixed g v psize items =>
      [g; v; if psize =? 1 then q_count_and_prefix8 else q_count_and_prefix16]
      ++ ale_bytes (N.to_nat psize) (N.of_nat (length items))
      ++ concat (map (aw_item g v psize) items)
  | WCountOfOne g v obj => [g; v; q_count8; 1] ++ arewrite g v obj
  | WClearRestart => [80; 1; q_range8; 7; 7; 0]
  end.

(* the cursor operations that produce them, in order *)
Definition aw_ops (h : awheader) : list awop :=
  match h with
  | WPrefixed g v psize items =>
      WoBytes [g; v; 0] :: WoSkip psize :: map (fun it => WoBytes (aw_item g v psize it)) items
  | _ => [WoBytes (aw_bytes h)]
  end.

(* items beyond the capacity of the count field cannot be written (NumericOverflow) *)
Definition aw_numeric_ok (h : awheader) : bool :=
  match h with
  | WPrefixed _ _ psize items => N.of_nat (length items) <=? aw_max_count psize
  | _ => true
  end.

(* the error of the first header that fails: its count overflows before the item is written, or an
   operation does not fit *)
Fixpoint aw_run (remaining : N) (hs : list awheader) : option awerr :=
  match hs with
  | [] => None
  | h :: r =>
      let ops := if aw_numeric_ok h
                 then aw_ops h
                 else match h with
                      | WPrefixed g v psize items =>
                          WoBytes [g; v; 0] :: WoSkip psize
                          :: map (fun it => WoBytes (aw_item g v psize it)) (firstn (N.to_nat (aw_max_count psize)) items)
                      | _ => aw_ops h
                      end in
      match awfits remaining ops with
      | Some e => Some e
      | None =>
          if aw_numeric_ok h
          then aw_run (remaining - N.of_nat (length (aw_bytes h))) r
          else Some WENumeric
      end
  end.

(* start_request(ControlField::request(seq), function, cursor) followed by the headers *)
Definition awrite_request (cap seq fc : N) (hs : list awheader) : ares (list N) awerr :=
  let hdr := awrite_header {| ah_control := actl_request seq; ah_function := fc; ah_iin := None |} in
  match awfits cap [WoBytes [actl_to (actl_request seq)]; WoBytes [fc]] with
  | Some e => AErr e
  | None =>
      match aw_run (cap - 2) hs with
      | Some e => AErr e
      | None => AOk (hdr ++ concat (map aw_bytes hs))
      end
  end.
