(* App/WritersProofs.v — P1 encode_parse_round_trip for the modelled writers (App/Writers.v): what
   HeaderWriter writes for a request is parsed by parse_fragment / headers_of into exactly the header,
   the object headers, the indices and the object bytes that were written, every byte consumed. *)
From Dnp3V Require Import App.Writers App.GrammarProofs.
Open Scope N_scope.

(* the object headers a written header must be decoded to *)
Definition aw_headers (h : awheader) : list aobj_header :=
  match h with
  | WAll g v => [amk g v HAll PyNone]
  | WRange8 g v a b => [amk g v (HRange8 a b) PyNone]
  | WRange16 g v a b => [amk g v (HRange16 a b) PyNone]
  | WCount8 g v c => [amk g v (HCount8 c) PyNone]
  | WCount16 g v c => [amk g v (HCount16 c) PyNone]
  | WClasses c1 c2 c3 c0 =>
      (if c1 then [amk 60 2 HAll PyNone] else []) ++ (if c2 then [amk 60 3 HAll PyNone] else [])
      ++ (if c3 then [amk 60 4 HAll PyNone] else []) ++ (if c0 then [amk 60 1 HAll PyNone] else [])
  | WPrefixed g v psize items =>
      let n := N.of_nat (length items) in
      [amk g v (if psize =? 1 then HPrefix8 n else HPrefix16 n)
           (PyFixedPrefix psize n (concat (map (fun it => ale_bytes (N.to_nat psize) (fst it) ++ snd it) items)))]
  | WCountOfOne g v obj => [amk g v (HCount8 1) (PyFixedCount 1 obj)]
  | WClearRestart => [amk 80 1 (HRange8 7 7) (PyBits 7 1 [0])]
  | WAttr _ _ _ => []      (* device attributes: framing only, outside the proved round trip (see aw_ok) *)
  end.

(* side conditions under which the builders produce a decodable request: the variation may be used with
   the qualifier for this function code (range and count scans carry no object data, so the variation
   must be one that takes none), ranges are ordered, numbers fit their fields, objects have their SIZE *)
Definition aw_ok (o : aopts) (fc : N) (h : awheader) : Prop :=
  match h with
  | WAll g v => g < 256 /\ v < 256 /\ alookup g v = true /\ aqkind qt_all g v <> None
  | WRange8 g v a b =>
      g < 256 /\ v < 256 /\ alookup g v = true /\ a <= b /\ b < 256 /\ aranged_wf o fc g v a (b - a + 1) PyNone
  | WRange16 g v a b =>
      g < 256 /\ v < 256 /\ alookup g v = true /\ a <= b /\ b < 65536 /\ aranged_wf o fc g v a (b - a + 1) PyNone
  | WCount8 g v c => g < 256 /\ v < 256 /\ alookup g v = true /\ c < 256 /\ acount_wf g v c PyNone
  | WCount16 g v c => g < 256 /\ v < 256 /\ alookup g v = true /\ c < 65536 /\ acount_wf g v c PyNone
  | WClasses _ _ _ _ => True
  | WPrefixed g v psize items =>
      g < 256 /\ v < 256 /\ alookup g v = true /\ (psize = 1 \/ psize = 2)
      /\ N.of_nat (length items) <= aw_max_count psize
      /\ aqkind qt_prefix g v = Some DFixed
      /\ exists fi, afixed g v = Some fi
         /\ Forall (fun it => fst it < 256 ^ psize /\ abytes_ok (snd it) /\ N.of_nat (length (snd it)) = fi_size fi) items
  | WCountOfOne g v obj =>
      g < 256 /\ v < 256 /\ alookup g v = true /\ aqkind qt_count g v = Some DFixed
      /\ exists fi, afixed g v = Some fi /\ abytes_ok obj /\ N.of_nat (length obj) = fi_size fi
  | WClearRestart => (fc =? fc_read) = false
  | WAttr _ _ _ => False   (* not covered: the inner codec of g0 is modelled for the differential run only *)
  end.

(* T::write of T::read of a well-sized object is the object *)
Lemma arewrite_id g v fi obj : afixed g v = Some fi -> abytes_ok obj -> N.of_nat (length obj) = fi_size fi ->
  arewrite g v obj = obj.
Proof.
  intros Hf Hb Hlen. unfold arewrite. rewrite Hf. destruct (afixed_in _ _ _ Hf) as [Hin _].
  destruct (aread_fields_enough (awidths fi) obj) as [xs [r Hr]].
  { rewrite <- (size_is_sum_of_fields fi Hin). lia. }
  rewrite Hr. destruct (aread_fields_sound _ _ _ _ Hr Hb) as [E [Hw _]].
  rewrite (awidths_same fi Hin).
  assert (Hr0 : r = []).
  { rewrite E in Hlen. rewrite app_length in Hlen. rewrite (size_is_sum_of_fields fi Hin) in Hlen.
    destruct r; [reflexivity|cbn [length] in Hlen; lia]. }
  subst r. rewrite app_nil_r in E. symmetry. exact E.
Qed.

Lemma alo8_lt x : lo8 x < 256. Proof. apply lo8_bound. Qed.
Lemma ahi8_lt x : hi8 x < 256. Proof. apply hi8_bound. Qed.

Ltac abytes := repeat (apply Forall_cons || apply Forall_nil || apply alo8_lt || apply ahi8_lt || lia || assumption).

Lemma aw_items_data g v psize fi items : afixed g v = Some fi -> (psize = 1 \/ psize = 2) ->
  Forall (fun it => fst it < 256 ^ psize /\ abytes_ok (snd it) /\ N.of_nat (length (snd it)) = fi_size fi) items ->
  concat (map (aw_item g v psize) items) = concat (map (fun it => ale_bytes (N.to_nat psize) (fst it) ++ snd it) items)
  /\ N.of_nat (length (concat (map (fun it => ale_bytes (N.to_nat psize) (fst it) ++ snd it) items)))
     = (psize + fi_size fi) * N.of_nat (length items)
  /\ abytes_ok (concat (map (fun it => ale_bytes (N.to_nat psize) (fst it) ++ snd it) items)).
Proof.
  intros Hf Hps HF. induction HF as [|it items [Hi [Hb Hl]] HF IH]; cbn [map concat length].
  - split; [reflexivity|]. split; [lia|constructor].
  - destruct IH as [E1 [E2 E3]]. unfold aw_item at 1. rewrite (arewrite_id g v fi (snd it) Hf Hb Hl). rewrite E1.
    split; [reflexivity|]. split.
    + rewrite !app_length, ale_bytes_length. lia.
    + apply abytes_ok_app. split; [|assumption]. apply abytes_ok_app. split; [apply ale_bytes_ok|assumption].
Qed.

(* every written header is the exact encoding of the headers it stands for, which are well-formed *)
Lemma aw_header_correct o fc h : aw_ok o fc h ->
  aw_bytes h = concat (map aencode_header (aw_headers h))
  /\ Forall (awf_header o fc) (aw_headers h)
  /\ abytes_ok (aw_bytes h).
Proof.
  destruct h as [g v|g v a b|g v a b|g v c|g v c|c1 c2 c3 c0|g v psize items|g v obj| |st vr vl]; cbn [aw_ok aw_headers aw_bytes];
    [| | | | | | | | |intros []].
  - intros [Hg [Hv [Hl Hk]]]. split; [reflexivity|]. split; [|abytes; reflexivity].
    constructor; [|constructor]. unfold awf_header, amk. cbn [oh_g oh_v oh_details oh_payload]. auto.
  - intros [Hg [Hv [Hl [Hab [Hb Hr]]]]]. split; [reflexivity|].
    split; [|abytes; reflexivity]. constructor; [|constructor].
    unfold awf_header, amk. cbn [oh_g oh_v oh_details oh_payload]. auto.
  - intros [Hg [Hv [Hl [Hab [Hb Hr]]]]]. split; [reflexivity|].
    split; [|abytes; reflexivity]. constructor; [|constructor].
    unfold awf_header, amk. cbn [oh_g oh_v oh_details oh_payload]. auto.
  - intros [Hg [Hv [Hl [Hc Hr]]]]. split; [reflexivity|].
    split; [|abytes; reflexivity]. constructor; [|constructor].
    unfold awf_header, amk. cbn [oh_g oh_v oh_details oh_payload]. auto.
  - intros [Hg [Hv [Hl [Hc Hr]]]]. split; [reflexivity|].
    split; [|abytes; reflexivity]. constructor; [|constructor].
    unfold awf_header, amk. cbn [oh_g oh_v oh_details oh_payload]. auto.
  - intros _. split; [destruct c1, c2, c3, c0; reflexivity|]. split.
    + assert (H60 : forall v, v = 1 \/ v = 2 \/ v = 3 \/ v = 4 -> awf_header o fc (amk 60 v HAll PyNone)).
      { intros v [E|[E|[E|E]]]; subst v; (split; [vm_compute; reflexivity|split; [vm_compute; discriminate|reflexivity]]). }
      assert (H1 : forall (c : bool) v, v = 1 \/ v = 2 \/ v = 3 \/ v = 4 ->
                   Forall (awf_header o fc) (if c then [amk 60 v HAll PyNone] else [])).
      { intros c v Hv. destruct c; [constructor; [apply H60; exact Hv|constructor]|constructor]. }
      apply Forall_app; split; [apply H1; auto|].
      apply Forall_app; split; [apply H1; auto|].
      apply Forall_app; split; apply H1; auto.
    + unfold aw_class. destruct c1, c2, c3, c0; cbn [app]; abytes; reflexivity.
  - intros [Hg [Hv [Hl [Hps [Hn [Hk [fi [Hf HF]]]]]]]].
    destruct (aw_items_data g v psize fi items Hf Hps HF) as [E1 [E2 E3]].
    assert (Hcnt : N.of_nat (length items) < 256 ^ psize).
    { unfold aw_max_count in Hn. destruct Hps as [E|E]; rewrite E in *; [change (256 ^ 1) with 256 in *|change (256 ^ 2) with 65536 in *]; lia. }
    split; [|split].
    + rewrite E1. unfold aencode_header, amk. cbn [map concat oh_g oh_v oh_details oh_payload apayload_bytes].
      rewrite app_nil_r. destruct Hps as [E|E]; subst psize; cbn [N.eqb Pos.eqb aqualifier adetail_bytes].
      * rewrite ale_bytes_1 by (change (256 ^ 1) with 256 in Hcnt; lia). reflexivity.
      * reflexivity.
    + constructor; [|constructor]. unfold awf_header, amk. cbn [oh_g oh_v oh_details oh_payload].
      split; [assumption|].
      assert (Hw : aprefixed_wf o g v psize (N.of_nat (length items))
                     (PyFixedPrefix psize (N.of_nat (length items))
                        (concat (map (fun it => ale_bytes (N.to_nat psize) (fst it) ++ snd it) items)))).
      { unfold aprefixed_wf. rewrite Hk. exists (fi_size fi). eexists. unfold asize. rewrite Hf. auto. }
      destruct Hps as [E|E]; subst psize; cbn [N.eqb Pos.eqb];
        [change (256 ^ 1) with 256 in Hcnt|change (256 ^ 2) with 65536 in Hcnt]; (split; [lia|exact Hw]).
    + apply Forall_cons; [assumption|]. apply Forall_cons; [assumption|].
      apply Forall_cons; [destruct Hps; subst psize; vm_compute; reflexivity|].
      apply abytes_ok_app. split; [apply ale_bytes_ok|]. rewrite E1. exact E3.
  - intros [Hg [Hv [Hl [Hk [fi [Hf [Hb Hlen]]]]]]]. rewrite (arewrite_id g v fi obj Hf Hb Hlen).
    split; [unfold aencode_header, amk; cbn [map concat oh_g oh_v oh_details oh_payload aqualifier adetail_bytes apayload_bytes app];
            rewrite app_nil_r; reflexivity|]. split.
    + constructor; [|constructor]. unfold awf_header, amk. cbn [oh_g oh_v oh_details oh_payload].
      split; [assumption|]. split; [lia|]. unfold acount_wf. rewrite Hk. exists (fi_size fi), obj.
      unfold asize. rewrite Hf. repeat split; lia.
    + apply Forall_cons; [assumption|]. apply Forall_cons; [assumption|]. apply Forall_cons; [vm_compute; reflexivity|].
      apply Forall_cons; [lia|assumption].
  - intro Hfc. split; [reflexivity|]. split; [|abytes; reflexivity].
    constructor; [|constructor]. unfold awf_header, amk. cbn [oh_g oh_v oh_details oh_payload].
    split; [vm_compute; reflexivity|]. split; [lia|]. split; [lia|]. unfold aranged_wf. rewrite Hfc.
    replace (aqkind qt_range 80 1) with (Some DBits) by (vm_compute; reflexivity).
    exists [0]. split; [reflexivity|vm_compute; reflexivity].
Qed.

Lemma aw_requests_correct o fc hs : Forall (aw_ok o fc) hs ->
  concat (map aw_bytes hs) = concat (map aencode_header (concat (map aw_headers hs)))
  /\ Forall (awf_header o fc) (concat (map aw_headers hs))
  /\ abytes_ok (concat (map aw_bytes hs)).
Proof.
  intro HF. induction HF as [|h hs Hh HF IH]; cbn [map concat].
  - repeat split; constructor.
  - destruct IH as [E1 [E2 E3]]. destruct (aw_header_correct o fc h Hh) as [H1 [H2 H3]].
    rewrite map_app, concat_app, <- H1, <- E1. split; [reflexivity|]. split.
    + apply Forall_app. split; assumption.
    + apply abytes_ok_app. split; assumption.
Qed.

Lemma actl_request_round_trip seq : seq < 16 -> actl_of (actl_to (actl_request seq)) = actl_request seq.
Proof.
  intro H.
  assert (Hs : seq = 0 \/ seq = 1 \/ seq = 2 \/ seq = 3 \/ seq = 4 \/ seq = 5 \/ seq = 6 \/ seq = 7 \/ seq = 8
               \/ seq = 9 \/ seq = 10 \/ seq = 11 \/ seq = 12 \/ seq = 13 \/ seq = 14 \/ seq = 15) by lia.
  repeat (destruct Hs as [Hs|Hs]; [subst seq; reflexivity|]). subst seq. reflexivity.
Qed.

Lemma awrite_request_bytes cap seq fc hs bytes : awrite_request cap seq fc hs = AOk bytes ->
  bytes = actl_to (actl_request seq) :: fc :: concat (map aw_bytes hs).
Proof.
  unfold awrite_request. destruct (awfits cap _); [discriminate|]. destruct (aw_run (cap - 2) hs); [discriminate|].
  intro H. inversion H. reflexivity.
Qed.

(* P1 encode_parse_round_trip (requests): whenever the master's builders succeed in writing a request of
   class / all-objects headers, 8- and 16-bit ranges, limited counts, a count-of-one object, the
   clear-restart write and prefixed items (8- or 16-bit prefix, count patched afterwards) whose headers
   satisfy the side conditions aw_ok, the library's parser decodes the bytes to the same control field,
   function code, object headers, indices and object bytes, as a valid request, with every byte consumed *)
Theorem encode_parse_round_trip : forall o cap seq fc hs bytes,
  seq < 16 -> fc < 256 -> afunction_known fc = true -> afunction_has_iin fc = false ->
  Forall (aw_ok o fc) hs -> awrite_request cap seq fc hs = AOk bytes ->
  exists pf, parse_fragment o bytes = AOk pf
    /\ pf_header pf = {| ah_control := actl_request seq; ah_function := fc; ah_iin := None |}
    /\ ato_request (pf_header pf) = None
    /\ headers_of pf = AOk (concat (map aw_headers hs))
    /\ pf_raw_objects pf = concat (map aencode_header (concat (map aw_headers hs))).
Proof.
  intros o cap seq fc hs bytes Hseq Hfc Hk Hi HF Hw. apply awrite_request_bytes in Hw. subst bytes.
  destruct (aw_requests_correct o fc hs HF) as [E1 [E2 E3]].
  unfold parse_fragment, aparse_header. rewrite Hk, Hi. rewrite (actl_request_round_trip seq Hseq).
  eexists. split; [reflexivity|]. cbn [pf_header pf_objects pf_raw_objects ah_function].
  split; [reflexivity|]. split.
  - unfold ato_request. cbn [ah_iin ah_control actl_request ac_fir ac_fin ac_uns]. reflexivity.
  - destruct (proj2 (accept_iff_exact_bytes_fragment o fc (concat (map aw_bytes hs)) (concat (map aw_headers hs)) E3)
                (conj E1 E2)) as [c [Hv Hit]].
    split; [|exact E1]. unfold headers_of. cbn [pf_objects]. rewrite Hv. rewrite Hit. reflexivity.
Qed.
