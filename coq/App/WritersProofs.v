(* App/WritersProofs.v — P1 encode_parse_round_trip for the modelled writers (App/Writers.v): what
   HeaderWriter writes for a request is parsed by parse_fragment / headers_of into exactly the header,
   the object headers, the indices and the object bytes that were written, every byte consumed.
   Includes the free-format file objects g70v2 .. g70v8: result of `write`, layout of the body (size
   fields = byte lengths), round trip against aparse_free, and write_free_format inside a request. *)
From Dnp3V Require Import App.Writers App.GrammarProofs.
Open Scope N_scope.

(* ---------------------------------------------------------------------------------------------- *)
(* free-format file objects (g70v2 .. g70v8): the writers against the reader aparse_free            *)

(* the fixed-size fields in front of the strings: widths, the values written (the size fields are the
   BYTE lengths `alen` of the strings), and the strings / data that follow *)
Definition afree_widths (o : afree) : list N :=
  match o with
  | F70v2 _ => [2; 2; 2; 2; 4]
  | F70v3 _ => [2; 2; 6; 2; 4; 4; 2; 2; 2]
  | F70v4 _ => [4; 4; 2; 2; 1]
  | F70v5 _ => [4; 4]
  | F70v6 _ => [4; 4; 1]
  | F70v7 _ => [2; 2; 2; 4; 6; 2; 2]
  | F70v8 _ => []
  end.

Definition afree_values (o : afree) : list N :=
  match o with
  | F70v2 x => [g70v2_user_name_offset; alen (f2_user_name x); g70v2_user_name_offset + alen (f2_user_name x);
                alen (f2_password x); f2_auth_key x]
  | F70v3 x => [g70v3_file_name_offset; alen (f3_file_name x); f3_time x; f3_permissions x; f3_auth_key x;
                f3_file_size x; f3_mode x; f3_max_block_size x; f3_request_id x]
  | F70v4 x => [f4_file_handle x; f4_file_size x; f4_max_block_size x; f4_request_id x; f4_status x]
  | F70v5 x => [f5_file_handle x; f5_block_number x]
  | F70v6 x => [f6_file_handle x; f6_block_number x; f6_status x]
  | F70v7 x => [g70v7_file_name_offset; alen (f7_file_name x); f7_file_type x; f7_file_size x; f7_time x;
                f7_permissions x; f7_request_id x]
  | F70v8 _ => []
  end.

Definition afree_tail (o : afree) : list N :=
  match o with
  | F70v2 x => f2_user_name x ++ f2_password x
  | F70v3 x => f3_file_name x
  | F70v4 x => f4_text x
  | F70v5 x => f5_file_data x
  | F70v6 x => f6_text x
  | F70v7 x => f7_file_name x
  | F70v8 x => f8_file_specification x
  end.

(* what aparse_free reports about an object (and the harness lists): the byte lengths of its strings *)
Definition afree_lengths (o : afree) : list N :=
  match o with
  | F70v2 x => [alen (f2_user_name x); alen (f2_password x)]
  | F70v3 x => [alen (f3_file_name x)]
  | F70v4 x => [alen (f4_text x)]
  | F70v5 x => [alen (f5_file_data x)]
  | F70v6 x => [alen (f6_text x)]
  | F70v7 x => [alen (f7_file_name x)]
  | F70v8 x => [alen (f8_file_specification x)]
  end.

(* the sizes and the one computed offset fit their 16-bit fields *)
Definition afree_sizes_fit (o : afree) : Prop :=
  match o with
  | F70v2 x => g70v2_user_name_offset + alen (f2_user_name x) <= 65535 /\ alen (f2_password x) <= 65535
  | F70v3 x => alen (f3_file_name x) <= 65535
  | F70v7 x => alen (f7_file_name x) <= 65535
  | _ => True
  end.

(* the &str fields hold well-formed UTF-8 (always true of a Rust &str), the data is made of bytes *)
Definition afree_strings_ok (o : afree) : Prop :=
  match o with
  | F70v2 x => autf8 (f2_user_name x) = true /\ autf8 (f2_password x) = true
  | F70v3 x => autf8 (f3_file_name x) = true
  | F70v4 x => autf8 (f4_text x) = true
  | F70v5 x => abytes_ok (f5_file_data x)
  | F70v6 x => autf8 (f6_text x) = true
  | F70v7 x => autf8 (f7_file_name x) = true
  | F70v8 x => autf8 (f8_file_specification x) = true
  end.

(* every numeric field is within the width it is written with *)
Definition afree_fields_ok (o : afree) : Prop :=
  Forall2 (fun w x => x < 256 ^ w) (afree_widths o) (afree_values o).

(* ---- the result of `write`: the body, or Overflow exactly when a size does not fit ---- *)

Lemma afits16_true x : afits16 x = true <-> x <= 65535.
Proof. unfold afits16. apply N.leb_le. Qed.

Lemma afits16_false x : afits16 x = false <-> ~ x <= 65535.
Proof. unfold afits16. rewrite N.leb_gt. lia. Qed.

Theorem free_write_result o :
  (afree_sizes_fit o /\ awrite_free o = AOk (fw_body o))
  \/ (~ afree_sizes_fit o /\ awrite_free o = AErr WENumeric).
Proof.
  unfold awrite_free.
  destruct o as [x|x|x|x|x|x|x]; cbn [fw_steps afree_sizes_fit]; try (left; split; [exact I|reflexivity]).
  - cbn [fw_cut fst snd].
    destruct (afits16 (alen (f2_user_name x))) eqn:H1; cbn [fw_cut fst snd].
    + destruct (afits16 (g70v2_user_name_offset + alen (f2_user_name x))) eqn:H2; cbn [fw_cut fst snd].
      * destruct (afits16 (alen (f2_password x))) eqn:H3; cbn [fw_cut fst snd].
        -- left. apply afits16_true in H2. apply afits16_true in H3. auto.
        -- right. apply afits16_false in H3. split; [intros [_ H]; auto|reflexivity].
      * right. apply afits16_false in H2. split; [intros [H _]; auto|reflexivity].
    + right. apply afits16_false in H1. split; [|reflexivity]. intros [H _]. apply H1.
      unfold g70v2_user_name_offset in H. lia.
  - cbn [fw_cut fst snd]. destruct (afits16 (alen (f3_file_name x))) eqn:H1; cbn [fw_cut fst snd].
    + left. apply afits16_true in H1. auto.
    + right. apply afits16_false in H1. auto.
  - cbn [fw_cut fst snd]. destruct (afits16 (alen (f7_file_name x))) eqn:H1; cbn [fw_cut fst snd].
    + left. apply afits16_true in H1. auto.
    + right. apply afits16_false in H1. auto.
Qed.

Lemma free_write_ok o body : awrite_free o = AOk body -> body = fw_body o /\ afree_sizes_fit o.
Proof.
  intro H. destruct (free_write_result o) as [[Hs E]|[_ E]]; rewrite E in H; [|discriminate].
  inversion H. auto.
Qed.

(* ---- layout: fixed fields (sizes = byte lengths, constant offsets), then the strings ---- *)

Theorem free_body_layout o : fw_body o = awrite_fields (afree_widths o) (afree_values o) ++ afree_tail o.
Proof.
  unfold fw_body.
  destruct o as [x|x|x|x|x|x|x];
    cbn [fw_steps fw_bytes afree_widths afree_values afree_tail awrite_fields N.to_nat Pos.to_nat Pos.iter_op Nat.add];
    rewrite ?app_nil_r, <- ?app_assoc; reflexivity.
Qed.

(* reading the fields back gives the values written: in particular the size fields decode to the byte
   lengths of the strings that follow, and the strings are all that follows *)
Theorem free_fields_round_trip o rest : afree_fields_ok o ->
  aread_fields (afree_widths o) (fw_body o ++ rest) = Some (afree_values o, afree_tail o ++ rest).
Proof.
  intro H. rewrite free_body_layout, <- app_assoc. apply aread_fields_write. exact H.
Qed.

(* ---- cursor lemmas for aparse_free ---- *)

Lemma autf8_bytes_ok_n : forall n l, (length l <= n)%nat -> autf8 l = true -> abytes_ok l.
Proof.
  induction n as [|n IH]; intros l Hl H.
  - destruct l; [constructor|cbn [length] in Hl; lia].
  - destruct l as [|b0 r]; [constructor|]. cbn [length] in Hl. cbn [autf8] in H.
    destruct (b0 <? 128) eqn:H0.
    { apply N.ltb_lt in H0. constructor; [lia|]. apply IH; [lia|exact H]. }
    unfold ain, acont in H.
    destruct ((194 <=? b0) && (b0 <=? 223)) eqn:H1.
    { apply andb_prop in H1. destruct H1 as [_ H1]. apply N.leb_le in H1.
      destruct r as [|b1 r1]; [discriminate|]. apply andb_prop in H. destruct H as [Hc H].
      unfold ain in Hc. apply andb_prop in Hc. destruct Hc as [_ Hc]. apply N.leb_le in Hc. cbn [length] in Hl.
      constructor; [lia|]. constructor; [lia|]. apply IH; [lia|exact H]. }
    destruct ((224 <=? b0) && (b0 <=? 239)) eqn:H2.
    { apply andb_prop in H2. destruct H2 as [_ H2]. apply N.leb_le in H2.
      destruct r as [|b1 [|b2 r2]]; try discriminate. cbn [length] in Hl.
      apply andb_prop in H. destruct H as [H Hr]. apply andb_prop in H. destruct H as [Hb1 Hb2].
      apply andb_prop in Hb2. destruct Hb2 as [_ Hb2]. apply N.leb_le in Hb2.
      assert (Hb1' : b1 <= 191).
      { destruct (b0 =? 224); [|destruct (b0 =? 237)]; apply andb_prop in Hb1; destruct Hb1 as [_ Hb1];
          apply N.leb_le in Hb1; lia. }
      constructor; [lia|]. constructor; [lia|]. constructor; [lia|]. apply IH; [lia|exact Hr]. }
    destruct ((240 <=? b0) && (b0 <=? 244)) eqn:H3; [|discriminate].
    apply andb_prop in H3. destruct H3 as [_ H3]. apply N.leb_le in H3.
    destruct r as [|b1 [|b2 [|b3 r3]]]; try discriminate. cbn [length] in Hl.
    apply andb_prop in H. destruct H as [H Hr]. apply andb_prop in H. destruct H as [H Hb3].
    apply andb_prop in H. destruct H as [Hb1 Hb2].
    apply andb_prop in Hb2. destruct Hb2 as [_ Hb2]. apply N.leb_le in Hb2.
    apply andb_prop in Hb3. destruct Hb3 as [_ Hb3]. apply N.leb_le in Hb3.
    assert (Hb1' : b1 <= 191).
    { destruct (b0 =? 240); [|destruct (b0 =? 244)]; apply andb_prop in Hb1; destruct Hb1 as [_ Hb1];
        apply N.leb_le in Hb1; lia. }
    constructor; [lia|]. constructor; [lia|]. constructor; [lia|]. constructor; [lia|]. apply IH; [lia|exact Hr].
Qed.

Lemma autf8_bytes_ok l : autf8 l = true -> abytes_ok l.
Proof. apply (autf8_bytes_ok_n (length l)). lia. Qed.

Lemma ale_bytes_2 x : ale_bytes 2 x = [lo8 x; hi8 x].
Proof. reflexivity. Qed.

Lemma ard16e_le x r : x <= 65535 -> ard16e (ale_bytes 2 x ++ r) = AOk (x, r).
Proof.
  intro H. rewrite ale_bytes_2. cbn [app]. unfold ard16e. rewrite ard16_enc by lia. reflexivity.
Qed.

Lemma atake_app : forall a r n, alen a <= n ->
  atake (a ++ r) n = match atake r (n - alen a) with Some (b, c) => Some (a ++ b, c) | None => None end.
Proof.
  unfold alen. induction a as [|x a IH]; intros r n H.
  - cbn [app length N.of_nat]. rewrite N.sub_0_r. destruct (atake r n) as [[b c]|]; reflexivity.
  - cbn [app length] in *. cbn [atake]. destruct (n =? 0) eqn:Hn; [apply N.eqb_eq in Hn; lia|].
    rewrite IH by lia. replace (N.pred n - N.of_nat (length a)) with (n - N.of_nat (S (length a))) by lia.
    destruct (atake r (n - N.of_nat (S (length a)))) as [[b c]|]; reflexivity.
Qed.

Lemma askip_chunk k x r n : N.of_nat k <= n -> askip (ale_bytes k x ++ r) n = askip r (n - N.of_nat k).
Proof.
  intro H. unfold askip. rewrite atake_app by (unfold alen; rewrite ale_bytes_length; exact H).
  unfold alen. rewrite ale_bytes_length. destruct (atake r (n - N.of_nat k)) as [[b c]|]; reflexivity.
Qed.

Lemma askip_zero r : askip r 0 = AOk r.
Proof. unfold askip. rewrite atake_zero. reflexivity. Qed.

Lemma atake_o_app a r : atake_o (a ++ r) (alen a) = AOk (a, r).
Proof. unfold atake_o, alen. rewrite atake_complete. reflexivity. Qed.

Lemma atake_o_all a : atake_o a (alen a) = AOk (a, []).
Proof. rewrite <- (app_nil_r a) at 1. apply atake_o_app. Qed.

(* ---- the round trip against the reader ---- *)

(* whatever `write` produces for an object whose strings are UTF-8, `read` (aparse_free: the offsets must be
   the constants / the implied ones, the sizes must be the exact byte counts, the strings must be UTF-8,
   nothing may be left over) accepts, reporting the byte lengths of the strings and consuming every byte *)
Theorem free_parse_round_trip o body : afree_strings_ok o -> awrite_free o = AOk body ->
  aparse_free (afree_var o) body = AOk (afree_lengths o, []).
Proof.
  intros Hs Hw. apply free_write_ok in Hw. destruct Hw as [E Hfit]. subst body. unfold fw_body.
  destruct o as [x|x|x|x|x|x|x]; cbn [afree_var afree_lengths afree_strings_ok afree_sizes_fit fw_steps fw_bytes] in *;
    unfold aparse_free.
  - destruct Hs as [Hu Hp]. destruct Hfit as [Hf1 Hf2].
    change (2 =? 2) with true. cbn iota.
    rewrite ard16e_le by (unfold g70v2_user_name_offset; lia).
    rewrite N.eqb_refl. cbn [negb].
    rewrite ard16e_le by (unfold g70v2_user_name_offset in Hf1; lia).
    replace (65535 <? g70v2_user_name_offset + alen (f2_user_name x)) with false by (symmetry; apply N.ltb_ge; exact Hf1).
    rewrite ard16e_le by exact Hf1. rewrite N.eqb_refl. cbn [negb].
    rewrite ard16e_le by exact Hf2.
    rewrite askip_chunk by (cbn; lia). change (4 - N.of_nat 4) with 0. rewrite askip_zero.
    rewrite atake_o_app. rewrite app_nil_r. rewrite atake_o_all. rewrite Hu, Hp. reflexivity.
  - change (3 =? 2) with false. change (3 =? 3) with true. cbn iota.
    rewrite ard16e_le by (unfold g70v3_file_name_offset; lia). rewrite N.eqb_refl. cbn [negb].
    rewrite ard16e_le by exact Hfit.
    rewrite askip_chunk by (cbn; lia). change (22 - N.of_nat 6) with 16.
    rewrite askip_chunk by (cbn; lia). change (16 - N.of_nat 2) with 14.
    rewrite askip_chunk by (cbn; lia). change (14 - N.of_nat 4) with 10.
    rewrite askip_chunk by (cbn; lia). change (10 - N.of_nat 4) with 6.
    rewrite askip_chunk by (cbn; lia). change (6 - N.of_nat 2) with 4.
    rewrite askip_chunk by (cbn; lia). change (4 - N.of_nat 2) with 2.
    rewrite askip_chunk by (cbn; lia). change (2 - N.of_nat 2) with 0. rewrite askip_zero.
    rewrite app_nil_r. rewrite atake_o_all. rewrite Hs. reflexivity.
  - change (4 =? 2) with false. change (4 =? 3) with false. change (4 =? 4) with true. cbn iota.
    rewrite askip_chunk by (cbn; lia). change (13 - N.of_nat 4) with 9.
    rewrite askip_chunk by (cbn; lia). change (9 - N.of_nat 4) with 5.
    rewrite askip_chunk by (cbn; lia). change (5 - N.of_nat 2) with 3.
    rewrite askip_chunk by (cbn; lia). change (3 - N.of_nat 2) with 1.
    rewrite askip_chunk by (cbn; lia). change (1 - N.of_nat 1) with 0. rewrite askip_zero.
    rewrite app_nil_r. rewrite Hs. reflexivity.
  - change (5 =? 2) with false. change (5 =? 3) with false. change (5 =? 4) with false. change (5 =? 5) with true.
    cbn iota.
    rewrite askip_chunk by (cbn; lia). change (8 - N.of_nat 4) with 4.
    rewrite askip_chunk by (cbn; lia). change (4 - N.of_nat 4) with 0. rewrite askip_zero.
    rewrite app_nil_r. reflexivity.
  - change (6 =? 2) with false. change (6 =? 3) with false. change (6 =? 4) with false. change (6 =? 5) with false.
    change (6 =? 6) with true. cbn iota.
    rewrite askip_chunk by (cbn; lia). change (9 - N.of_nat 4) with 5.
    rewrite askip_chunk by (cbn; lia). change (5 - N.of_nat 4) with 1.
    rewrite askip_chunk by (cbn; lia). change (1 - N.of_nat 1) with 0. rewrite askip_zero.
    rewrite app_nil_r. rewrite Hs. reflexivity.
  - change (7 =? 2) with false. change (7 =? 3) with false. change (7 =? 4) with false. change (7 =? 5) with false.
    change (7 =? 6) with false. change (7 =? 7) with true. cbn iota.
    rewrite ard16e_le by (unfold g70v7_file_name_offset; lia). rewrite N.eqb_refl. cbn [negb].
    rewrite ard16e_le by exact Hfit.
    rewrite askip_chunk by (cbn; lia). change (16 - N.of_nat 2) with 14.
    rewrite askip_chunk by (cbn; lia). change (14 - N.of_nat 4) with 10.
    rewrite askip_chunk by (cbn; lia). change (10 - N.of_nat 6) with 4.
    rewrite askip_chunk by (cbn; lia). change (4 - N.of_nat 2) with 2.
    rewrite askip_chunk by (cbn; lia). change (2 - N.of_nat 2) with 0. rewrite askip_zero.
    rewrite app_nil_r. rewrite atake_o_all. rewrite Hs. reflexivity.
  - change (8 =? 2) with false. change (8 =? 3) with false. change (8 =? 4) with false. change (8 =? 5) with false.
    change (8 =? 6) with false. change (8 =? 7) with false. change (8 =? 8) with true. cbn iota.
    rewrite app_nil_r. rewrite Hs. reflexivity.
Qed.

Lemma awrite_fields_ok : forall ws xs, abytes_ok (awrite_fields ws xs).
Proof.
  induction ws as [|w ws IH]; intros [|x xs]; cbn [awrite_fields]; try constructor.
  apply abytes_ok_app. split; [apply ale_bytes_ok|apply IH].
Qed.

Lemma afree_tail_ok o : afree_strings_ok o -> abytes_ok (afree_tail o).
Proof.
  destruct o as [x|x|x|x|x|x|x]; cbn [afree_strings_ok afree_tail]; intro H; try (apply autf8_bytes_ok; exact H); [|exact H].
  destruct H as [H1 H2]. apply abytes_ok_app. split; apply autf8_bytes_ok; assumption.
Qed.

Lemma fw_body_ok o : afree_strings_ok o -> abytes_ok (fw_body o).
Proof.
  intro H. rewrite free_body_layout. apply abytes_ok_app. split; [apply awrite_fields_ok|apply afree_tail_ok; exact H].
Qed.

(* the header write_free_format puts in front of the object: g70, the variation, qualifier 0x5B, count 1 and
   the number of bytes of the object *)
Theorem free_header_layout o :
  aw_free_bytes o = [70; afree_var o; 91; 1] ++ ale_bytes 2 (alen (fw_body o)) ++ fw_body o.
Proof. reflexivity. Qed.

(* the object headers a written header must be decoded to *)
Definition aw_headers (h : awheader) : list aobj_header :=
  match h with
  | WAll g v => [amk g v HAll PyNone]
  | WRange8 g v a b => [amk g v (HRange8 a b) PyNone]
  | WRange16 g v a b => [amk g v (HRange16 a b) PyNone]
  | WCount8 g v c => [amk g v (HCount8 c) PyNone]
  | WCount16 g v c => [amk g v (HCount16 c) PyNone]
  | WClasses c1 c2 c3 c0 =>
      (if c1 then [amk 60 2 HAll PyNone] else []) ++ (if c2 then [amk 60 3 HAll PyNone] else [])
      ++ (if c3 then [amk 60 4 HAll PyNone] else []) ++ (if c0 then [amk 60 1 HAll PyNone] else [])
  | WPrefixed g v psize items =>
      let n := N.of_nat (length items) in
      [amk g v (if psize =? 1 then HPrefix8 n else HPrefix16 n)
           (PyFixedPrefix psize n (concat (map (fun it => ale_bytes (N.to_nat psize) (fst it) ++ snd it) items)))]
  | WCountOfOne g v obj => [amk g v (HCount8 1) (PyFixedCount 1 obj)]
  | WClearRestart => [amk 80 1 (HRange8 7 7) (PyBits 7 1 [0])]
  | WAttr _ _ _ => []      (* device attributes: framing only, outside the proved round trip (see aw_ok) *)
  | WFree obj => [amk 70 (afree_var obj) (HFree 1) (PyFree (alen (fw_body obj)) (fw_body obj) (afree_lengths obj))]
  end.

(* side conditions under which the builders produce a decodable request: the variation may be used with
   the qualifier for this function code (range and count scans carry no object data, so the variation
   must be one that takes none), ranges are ordered, numbers fit their fields, objects have their SIZE *)
Definition aw_ok (o : aopts) (fc : N) (h : awheader) : Prop :=
  match h with
  | WAll g v => g < 256 /\ v < 256 /\ alookup g v = true /\ aqkind qt_all g v <> None
  | WRange8 g v a b =>
      g < 256 /\ v < 256 /\ alookup g v = true /\ a <= b /\ b < 256 /\ aranged_wf o fc g v a (b - a + 1) PyNone
  | WRange16 g v a b =>
      g < 256 /\ v < 256 /\ alookup g v = true /\ a <= b /\ b < 65536 /\ aranged_wf o fc g v a (b - a + 1) PyNone
  | WCount8 g v c => g < 256 /\ v < 256 /\ alookup g v = true /\ c < 256 /\ acount_wf g v c PyNone
  | WCount16 g v c => g < 256 /\ v < 256 /\ alookup g v = true /\ c < 65536 /\ acount_wf g v c PyNone
  | WClasses _ _ _ _ => True
  | WPrefixed g v psize items =>
      g < 256 /\ v < 256 /\ alookup g v = true /\ (psize = 1 \/ psize = 2)
      /\ N.of_nat (length items) <= aw_max_count psize
      /\ aqkind qt_prefix g v = Some DFixed
      /\ exists fi, afixed g v = Some fi
         /\ Forall (fun it => fst it < 256 ^ psize /\ abytes_ok (snd it) /\ N.of_nat (length (snd it)) = fi_size fi) items
  | WCountOfOne g v obj =>
      g < 256 /\ v < 256 /\ alookup g v = true /\ aqkind qt_count g v = Some DFixed
      /\ exists fi, afixed g v = Some fi /\ abytes_ok obj /\ N.of_nat (length obj) = fi_size fi
  | WClearRestart => (fc =? fc_read) = false
  | WAttr _ _ _ => False   (* not covered: the inner codec of g0 is modelled for the differential run only *)
  | WFree obj => afree_strings_ok obj /\ afree_sizes_fit obj /\ alen (fw_body obj) <= 65535
  end.

(* T::write of T::read of a well-sized object is the object *)
Lemma arewrite_id g v fi obj : afixed g v = Some fi -> abytes_ok obj -> N.of_nat (length obj) = fi_size fi ->
  arewrite g v obj = obj.
Proof.
  intros Hf Hb Hlen. unfold arewrite. rewrite Hf. destruct (afixed_in _ _ _ Hf) as [Hin _].
  destruct (aread_fields_enough (awidths fi) obj) as [xs [r Hr]].
  { rewrite <- (size_is_sum_of_fields fi Hin). lia. }
  rewrite Hr. destruct (aread_fields_sound _ _ _ _ Hr Hb) as [E [Hw _]].
  rewrite (awidths_same fi Hin).
  assert (Hr0 : r = []).
  { rewrite E in Hlen. rewrite app_length in Hlen. rewrite (size_is_sum_of_fields fi Hin) in Hlen.
    destruct r; [reflexivity|cbn [length] in Hlen; lia]. }
  subst r. rewrite app_nil_r in E. symmetry. exact E.
Qed.

Lemma alo8_lt x : lo8 x < 256. Proof. apply lo8_bound. Qed.
Lemma ahi8_lt x : hi8 x < 256. Proof. apply hi8_bound. Qed.

Ltac abytes := repeat (apply Forall_cons || apply Forall_nil || apply alo8_lt || apply ahi8_lt || lia || assumption).

Lemma aw_items_data g v psize fi items : afixed g v = Some fi -> (psize = 1 \/ psize = 2) ->
  Forall (fun it => fst it < 256 ^ psize /\ abytes_ok (snd it) /\ N.of_nat (length (snd it)) = fi_size fi) items ->
  concat (map (aw_item g v psize) items) = concat (map (fun it => ale_bytes (N.to_nat psize) (fst it) ++ snd it) items)
  /\ N.of_nat (length (concat (map (fun it => ale_bytes (N.to_nat psize) (fst it) ++ snd it) items)))
     = (psize + fi_size fi) * N.of_nat (length items)
  /\ abytes_ok (concat (map (fun it => ale_bytes (N.to_nat psize) (fst it) ++ snd it) items)).
Proof.
  intros Hf Hps HF. induction HF as [|it items [Hi [Hb Hl]] HF IH]; cbn [map concat length].
  - split; [reflexivity|]. split; [lia|constructor].
  - destruct IH as [E1 [E2 E3]]. unfold aw_item at 1. rewrite (arewrite_id g v fi (snd it) Hf Hb Hl). rewrite E1.
    split; [reflexivity|]. split.
    + rewrite !app_length, ale_bytes_length. lia.
    + apply abytes_ok_app. split; [|assumption]. apply abytes_ok_app. split; [apply ale_bytes_ok|assumption].
Qed.

(* every written header is the exact encoding of the headers it stands for, which are well-formed *)
Lemma aw_header_correct o fc h : aw_ok o fc h ->
  aw_bytes h = concat (map aencode_header (aw_headers h))
  /\ Forall (awf_header o fc) (aw_headers h)
  /\ abytes_ok (aw_bytes h).
Proof.
  destruct h as [g v|g v a b|g v a b|g v c|g v c|c1 c2 c3 c0|g v psize items|g v obj| |st vr vl|obj]; cbn [aw_ok aw_headers aw_bytes];
    [| | | | | | | | |intros []|].
  - intros [Hg [Hv [Hl Hk]]]. split; [reflexivity|]. split; [|abytes; reflexivity].
    constructor; [|constructor]. unfold awf_header, amk. cbn [oh_g oh_v oh_details oh_payload]. auto.
  - intros [Hg [Hv [Hl [Hab [Hb Hr]]]]]. split; [reflexivity|].
    split; [|abytes; reflexivity]. constructor; [|constructor].
    unfold awf_header, amk. cbn [oh_g oh_v oh_details oh_payload]. auto.
  - intros [Hg [Hv [Hl [Hab [Hb Hr]]]]]. split; [reflexivity|].
    split; [|abytes; reflexivity]. constructor; [|constructor].
    unfold awf_header, amk. cbn [oh_g oh_v oh_details oh_payload]. auto.
  - intros [Hg [Hv [Hl [Hc Hr]]]]. split; [reflexivity|].
    split; [|abytes; reflexivity]. constructor; [|constructor].
    unfold awf_header, amk. cbn [oh_g oh_v oh_details oh_payload]. auto.
  - intros [Hg [Hv [Hl [Hc Hr]]]]. split; [reflexivity|].
    split; [|abytes; reflexivity]. constructor; [|constructor].
    unfold awf_header, amk. cbn [oh_g oh_v oh_details oh_payload]. auto.
  - intros _. split; [destruct c1, c2, c3, c0; reflexivity|]. split.
    + assert (H60 : forall v, v = 1 \/ v = 2 \/ v = 3 \/ v = 4 -> awf_header o fc (amk 60 v HAll PyNone)).
      { intros v [E|[E|[E|E]]]; subst v; (split; [vm_compute; reflexivity|split; [vm_compute; discriminate|reflexivity]]). }
      assert (H1 : forall (c : bool) v, v = 1 \/ v = 2 \/ v = 3 \/ v = 4 ->
                   Forall (awf_header o fc) (if c then [amk 60 v HAll PyNone] else [])).
      { intros c v Hv. destruct c; [constructor; [apply H60; exact Hv|constructor]|constructor]. }
      apply Forall_app; split; [apply H1; auto|].
      apply Forall_app; split; [apply H1; auto|].
      apply Forall_app; split; apply H1; auto.
    + unfold aw_class. destruct c1, c2, c3, c0; cbn [app]; abytes; reflexivity.
  - intros [Hg [Hv [Hl [Hps [Hn [Hk [fi [Hf HF]]]]]]]].
    destruct (aw_items_data g v psize fi items Hf Hps HF) as [E1 [E2 E3]].
    assert (Hcnt : N.of_nat (length items) < 256 ^ psize).
    { unfold aw_max_count in Hn. destruct Hps as [E|E]; rewrite E in *; [change (256 ^ 1) with 256 in *|change (256 ^ 2) with 65536 in *]; lia. }
    split; [|split].
    + rewrite E1. unfold aencode_header, amk. cbn [map concat oh_g oh_v oh_details oh_payload apayload_bytes].
      rewrite app_nil_r. destruct Hps as [E|E]; subst psize; cbn [N.eqb Pos.eqb aqualifier adetail_bytes].
      * rewrite ale_bytes_1 by (change (256 ^ 1) with 256 in Hcnt; lia). reflexivity.
      * reflexivity.
    + constructor; [|constructor]. unfold awf_header, amk. cbn [oh_g oh_v oh_details oh_payload].
      split; [assumption|].
      assert (Hw : aprefixed_wf o g v psize (N.of_nat (length items))
                     (PyFixedPrefix psize (N.of_nat (length items))
                        (concat (map (fun it => ale_bytes (N.to_nat psize) (fst it) ++ snd it) items)))).
      { unfold aprefixed_wf. rewrite Hk. exists (fi_size fi). eexists. unfold asize. rewrite Hf. auto. }
      destruct Hps as [E|E]; subst psize; cbn [N.eqb Pos.eqb];
        [change (256 ^ 1) with 256 in Hcnt|change (256 ^ 2) with 65536 in Hcnt]; (split; [lia|exact Hw]).
    + apply Forall_cons; [assumption|]. apply Forall_cons; [assumption|].
      apply Forall_cons; [destruct Hps; subst psize; vm_compute; reflexivity|].
      apply abytes_ok_app. split; [apply ale_bytes_ok|]. rewrite E1. exact E3.
  - intros [Hg [Hv [Hl [Hk [fi [Hf [Hb Hlen]]]]]]]. rewrite (arewrite_id g v fi obj Hf Hb Hlen).
    split; [unfold aencode_header, amk; cbn [map concat oh_g oh_v oh_details oh_payload aqualifier adetail_bytes apayload_bytes app];
            rewrite app_nil_r; reflexivity|]. split.
    + constructor; [|constructor]. unfold awf_header, amk. cbn [oh_g oh_v oh_details oh_payload].
      split; [assumption|]. split; [lia|]. unfold acount_wf. rewrite Hk. exists (fi_size fi), obj.
      unfold asize. rewrite Hf. repeat split; lia.
    + apply Forall_cons; [assumption|]. apply Forall_cons; [assumption|]. apply Forall_cons; [vm_compute; reflexivity|].
      apply Forall_cons; [lia|assumption].
  - intro Hfc. split; [reflexivity|]. split; [|abytes; reflexivity].
    constructor; [|constructor]. unfold awf_header, amk. cbn [oh_g oh_v oh_details oh_payload].
    split; [vm_compute; reflexivity|]. split; [lia|]. split; [lia|]. unfold aranged_wf. rewrite Hfc.
    replace (aqkind qt_range 80 1) with (Some DBits) by (vm_compute; reflexivity).
    exists [0]. split; [reflexivity|vm_compute; reflexivity].
  - intros [Hs [Hfit Hlen]].
    assert (Hv : afree_var obj < 256 /\ alookup 70 (afree_var obj) = true /\ aqkind qt_free 70 (afree_var obj) = Some DFree).
    { destruct obj; cbn [afree_var]; (split; [lia|split; vm_compute; reflexivity]). }
    destruct Hv as [Hv [Hl Hk]]. split; [|split].
    + unfold aw_free_bytes, aencode_header, amk.
      cbn [map concat oh_g oh_v oh_details oh_payload aqualifier adetail_bytes apayload_bytes app].
      rewrite app_nil_r. reflexivity.
    + constructor; [|constructor]. unfold awf_header, amk. cbn [oh_g oh_v oh_details oh_payload].
      split; [exact Hl|]. split; [reflexivity|]. split; [exact Hk|].
      exists (alen (fw_body obj)), (fw_body obj), (afree_lengths obj). split; [reflexivity|]. split; [lia|].
      split; [reflexivity|]. apply free_parse_round_trip; [exact Hs|].
      destruct (free_write_result obj) as [[_ E]|[Hn _]]; [exact E|contradiction].
    + unfold aw_free_bytes. apply abytes_ok_app. split; [|apply fw_body_ok; exact Hs].
      apply Forall_cons; [lia|]. apply Forall_cons; [exact Hv|]. apply Forall_cons; [vm_compute; reflexivity|].
      apply Forall_cons; [lia|]. apply Forall_cons; [apply alo8_lt|]. apply Forall_cons; [apply ahi8_lt|constructor].
Qed.

Lemma aw_requests_correct o fc hs : Forall (aw_ok o fc) hs ->
  concat (map aw_bytes hs) = concat (map aencode_header (concat (map aw_headers hs)))
  /\ Forall (awf_header o fc) (concat (map aw_headers hs))
  /\ abytes_ok (concat (map aw_bytes hs)).
Proof.
  intro HF. induction HF as [|h hs Hh HF IH]; cbn [map concat].
  - repeat split; constructor.
  - destruct IH as [E1 [E2 E3]]. destruct (aw_header_correct o fc h Hh) as [H1 [H2 H3]].
    rewrite map_app, concat_app, <- H1, <- E1. split; [reflexivity|]. split.
    + apply Forall_app. split; assumption.
    + apply abytes_ok_app. split; assumption.
Qed.

Lemma actl_request_round_trip seq : seq < 16 -> actl_of (actl_to (actl_request seq)) = actl_request seq.
Proof.
  intro H.
  assert (Hs : seq = 0 \/ seq = 1 \/ seq = 2 \/ seq = 3 \/ seq = 4 \/ seq = 5 \/ seq = 6 \/ seq = 7 \/ seq = 8
               \/ seq = 9 \/ seq = 10 \/ seq = 11 \/ seq = 12 \/ seq = 13 \/ seq = 14 \/ seq = 15) by lia.
  repeat (destruct Hs as [Hs|Hs]; [subst seq; reflexivity|]). subst seq. reflexivity.
Qed.

Lemma awrite_request_bytes cap seq fc hs bytes : awrite_request cap seq fc hs = AOk bytes ->
  bytes = actl_to (actl_request seq) :: fc :: concat (map aw_bytes hs).
Proof.
  unfold awrite_request. destruct (awfits cap _); [discriminate|]. destruct (aw_run (cap - 2) hs); [discriminate|].
  intro H. inversion H. reflexivity.
Qed.

(* P1 encode_parse_round_trip (requests): whenever the master's builders succeed in writing a request of
   class / all-objects headers, 8- and 16-bit ranges, limited counts, a count-of-one object, the
   clear-restart write and prefixed items (8- or 16-bit prefix, count patched afterwards) whose headers
   satisfy the side conditions aw_ok, the library's parser decodes the bytes to the same control field,
   function code, object headers, indices and object bytes, as a valid request, with every byte consumed *)
Theorem encode_parse_round_trip : forall o cap seq fc hs bytes,
  seq < 16 -> fc < 256 -> afunction_known fc = true -> afunction_has_iin fc = false ->
  Forall (aw_ok o fc) hs -> awrite_request cap seq fc hs = AOk bytes ->
  exists pf, parse_fragment o bytes = AOk pf
    /\ pf_header pf = {| ah_control := actl_request seq; ah_function := fc; ah_iin := None |}
    /\ ato_request (pf_header pf) = None
    /\ headers_of pf = AOk (concat (map aw_headers hs))
    /\ pf_raw_objects pf = concat (map aencode_header (concat (map aw_headers hs))).
Proof.
  intros o cap seq fc hs bytes Hseq Hfc Hk Hi HF Hw. apply awrite_request_bytes in Hw. subst bytes.
  destruct (aw_requests_correct o fc hs HF) as [E1 [E2 E3]].
  unfold parse_fragment, aparse_header. rewrite Hk, Hi. rewrite (actl_request_round_trip seq Hseq).
  eexists. split; [reflexivity|]. cbn [pf_header pf_objects pf_raw_objects ah_function].
  split; [reflexivity|]. split.
  - unfold ato_request. cbn [ah_iin ah_control actl_request ac_fir ac_fin ac_uns]. reflexivity.
  - destruct (proj2 (accept_iff_exact_bytes_fragment o fc (concat (map aw_bytes hs)) (concat (map aw_headers hs)) E3)
                (conj E1 E2)) as [c [Hv Hit]].
    split; [|exact E1]. unfold headers_of. cbn [pf_objects]. rewrite Hv. rewrite Hit. reflexivity.
Qed.
