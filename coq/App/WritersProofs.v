(* App/WritersProofs.v — theorems about App/Writers.v (under construction) *)
From Dnp3V Require Import App.Writers App.GrammarProofs.
Open Scope N_scope.
