(* App/AppHeader.v — model of dnp3/src/app/header.rs (ControlField, Iin), sequence.rs and of the header
   half of dnp3/src/app/parse/parser.rs (ParsedFragment::parse_no_logging, to_request, to_response).
   Function codes and the control-field masks are GENERATED (gen/FunctionCodes.v).  Definitions only.
   All names carry an `a`/`A` prefix: the extraction is one flat OCaml file shared with the other layers. *)
From Dnp3V Require Export Base.Bytes.
From Dnp3V Require Export gen.FunctionCodes.
Open Scope N_scope.

Inductive ares (A E : Type) : Type := AOk (a : A) | AErr (e : E).
Arguments AOk {A E} a.
Arguments AErr {A E} e.

(* ControlField::from / to_u8 *)
Record actl := { ac_fir : bool; ac_fin : bool; ac_con : bool; ac_uns : bool; ac_seq : N }.

Definition amask_set (x m : N) : bool := negb (N.land x m =? 0).

Definition actl_of (x : N) : actl :=
  {| ac_fir := amask_set x ctrl_fir_mask; ac_fin := amask_set x ctrl_fin_mask;
     ac_con := amask_set x ctrl_con_mask; ac_uns := amask_set x ctrl_uns_mask;
     ac_seq := N.land x ctrl_seq_mask |}.

Definition actl_to (c : actl) : N :=
  N.lor (if ac_fir c then ctrl_fir_mask else 0)
   (N.lor (if ac_fin c then ctrl_fin_mask else 0)
     (N.lor (if ac_con c then ctrl_con_mask else 0)
       (N.lor (if ac_uns c then ctrl_uns_mask else 0) (ac_seq c)))).

(* ControlField::request(seq) and friends *)
Definition actl_request (seq : N) : actl :=
  {| ac_fir := true; ac_fin := true; ac_con := false; ac_uns := false; ac_seq := N.land seq ctrl_seq_mask |}.

(* FunctionCode::from (x) is Some _ *)
Definition afunction_known (x : N) : bool :=
  existsb (fun e => fst e =? x) function_codes.

Definition afunction_has_iin (f : N) : bool := (f =? fc_response) || (f =? fc_unsolicited_response).

Record aheader := { ah_control : actl; ah_function : N; ah_iin : option (N * N) }.

Inductive ahdr_err := AHInsufficient | AHUnknownFunction (seq code : N).

(* control octet, function code, then IIN1 IIN2 after Response / UnsolicitedResponse; the rest are objects *)
Definition aparse_header (l : list N) : ares (aheader * list N) ahdr_err :=
  match l with
  | c :: f :: r =>
      let ctl := actl_of c in
      if afunction_known f then
        if afunction_has_iin f then
          match r with
          | i1 :: i2 :: r' => AOk ({| ah_control := ctl; ah_function := f; ah_iin := Some (i1, i2) |}, r')
          | _ => AErr AHInsufficient
          end
        else AOk ({| ah_control := ctl; ah_function := f; ah_iin := None |}, r)
      else AErr (AHUnknownFunction (ac_seq ctl) f)
  | _ => AErr AHInsufficient
  end.

(* RequestHeader::write / ResponseHeader::write *)
Definition awrite_header (h : aheader) : list N :=
  actl_to (ah_control h) :: ah_function h ::
  match ah_iin h with Some (i1, i2) => [i1; i2] | None => [] end.

Inductive areq_err := ARUnexpectedFunction | ARNonFirFin | ARUnexpectedUns.

Definition ato_request (h : aheader) : option areq_err :=
  match ah_iin h with
  | Some _ => Some ARUnexpectedFunction
  | None =>
      if negb (ac_fir (ah_control h) && ac_fin (ah_control h)) then Some ARNonFirFin
      else if ac_uns (ah_control h) && negb (ah_function h =? fc_confirm) then Some ARUnexpectedUns
      else None
  end.

Inductive aresp_err := APUnexpectedFunction | APSolWithUns | APUnsolWithoutUns | APUnsolWithoutFirFin.

Definition ato_response (h : aheader) : option aresp_err :=
  match ah_iin h with
  | None => Some APUnexpectedFunction
  | Some _ =>
      let unsol := ah_function h =? fc_unsolicited_response in
      let c := ah_control h in
      if negb unsol && ac_uns c then Some APSolWithUns
      else if unsol && negb (ac_uns c) then Some APUnsolWithoutUns
      else if unsol && negb (ac_fir c && ac_fin c) then Some APUnsolWithoutFirFin
      else None
  end.
