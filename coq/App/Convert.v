(* App/Convert.v — measurement <-> wire conversions, driven by the recipes generated from the Rust
   source (coq/gen/Conversions.v).  Model of

     app/gen/conversion.rs (ToVariation / From), app/extensions.rs (WireFlags),
     app/measurement.rs (AnalogConversions, Option<Time> -> Timestamp),
     outstation/database/details/range/{traits,writer}.rs (promotion, 16-bit start/stop headers, packed bits),
     outstation/database/details/event/{traits,write_fn,writer}.rs (count-and-prefix headers, CTO rule),
     master/{extract,convert}.rs + app/gen/{ranged,prefixed}.rs (running CTO, dispatch to the handler).

   Definitions only. *)
From Dnp3V Require Import Base.Bytes gen.Conversions App.FloatBits.
Open Scope N_scope.

(* ---- measurements ------------------------------------------------------------------------- *)
Inductive tq := Sync | Unsync.

(* cm_value: BI/BOS 0|1, DBI 0..3 (DoubleBit::to_byte), CTR/FCTR u32, AI/AOS/FAI the f64 bit pattern;
   cm_bytes: the octets of an octet string (empty for every other type) *)
Record cmeas := mk_cmeas { cm_value : N; cm_flags : N; cm_time : option (tq * N); cm_bytes : list N }.

Definition tq_eqb (a b : tq) : bool :=
  match a, b with Sync, Sync => true | Unsync, Unsync => true | _, _ => false end.

Definition mtype_eqb (a b : mtype) : bool :=
  match a, b with
  | BI, BI | DBI, DBI | BOS, BOS | CTR, CTR | FCTR, FCTR | AI, AI | AOS, AOS | FAI, FAI => true
  | _, _ => false
  end.

Definition find_recipe (g v : N) : option recipe :=
  find (fun r => (rc_group r =? g) && (rc_var r =? v)) recipes.

(* ---- little endian ------------------------------------------------------------------------ *)
Fixpoint le_enc (n : nat) (x : N) : list N :=
  match n with O => [] | S k => x mod 256 :: le_enc k (x / 256) end.

Fixpoint le_dec (l : list N) : N :=
  match l with [] => 0 | b :: r => b + 256 * le_dec r end.

Definition wwidth (w : wtype) : nat :=
  match w with WU8 => 1 | WU16 => 2 | WU32 => 4 | WI16 => 2 | WI32 => 4 | WF32 => 4 | WF64 => 8 | WTime48 => 6 end%nat.

Definition layout_size (l : list (fld * wtype)) : nat :=
  fold_right (fun fw acc => (wwidth (snd fw) + acc)%nat) O l.

(* ---- flags -------------------------------------------------------------------------------- *)
Definition without (flags mask : N) : N := N.ldiff flags mask.
Definition with_over_range (flags : N) : N := N.lor flags over_range_mask.

(* impl WireFlags: the value bits of the binary types are folded into bits 7 (and 6) *)
Definition wire_flags (t : mtype) (m : cmeas) : N :=
  match wire_flags_of t with
  | WfRaw => cm_flags m
  | WfBit7 => cm_flags m mod 128 + 128 * (cm_value m mod 2)
  | WfBits76 => cm_flags m mod 64 + 64 * (cm_value m mod 4)
  end.

(* ---- AnalogConversions -------------------------------------------------------------------- *)
Definition guard_fires (g : conv_guard) (lo hi v : N) : bool :=
  match g with
  | GNan => fb64_is_nan v
  | GBelowMin => fb64_lt v lo
  | GAboveMax => fb64_gt v hi
  end.

Fixpoint first_guard (gs : list (conv_guard * conv_sat)) (lo hi v : N) : option conv_sat :=
  match gs with
  | [] => None
  | (g, s) :: r => if guard_fires g lo hi v then Some s else first_guard r lo hi v
  end.

Definition conv_int (gs : list (conv_guard * conv_sat)) (lo hi : Z) (lob hib : N) (m : cmeas) : N * Z :=
  match first_guard gs lob hib (cm_value m) with
  | Some s => (with_over_range (cm_flags m), match s with SZero => 0%Z | SMin => lo | SMax => hi end)
  | None => (cm_flags m, fb64_to_int lo hi (cm_value m))
  end.

Definition i16_min : Z := (-32768)%Z.
Definition i16_max : Z := 32767%Z.
Definition i32_min : Z := (-2147483648)%Z.
Definition i32_max : Z := 2147483647%Z.

Definition to_i16 (m : cmeas) : N * Z := conv_int to_i16_guards i16_min i16_max fb64_i16_min fb64_i16_max m.
Definition to_i32 (m : cmeas) : N * Z := conv_int to_i32_guards i32_min i32_max fb64_i32_min fb64_i32_max m.

Definition to_f32 (m : cmeas) : N * N :=
  match first_guard to_f32_guards fb64_f32_min fb64_f32_max (cm_value m) with
  | Some s => (with_over_range (cm_flags m), match s with SZero => 0 | SMin => fb32_min_bits | SMax => fb32_max_bits end)
  | None => (cm_flags m, fb64_to_f32 (cm_value m))
  end.

(* the (flags, raw value field) pair of `let (_wire_flags, _wire_value) = self.to_xxx()` *)
Definition conv_of (tv : to_value) (m : cmeas) : N * N :=
  match tv with
  | ToValI16 => (fst (to_i16 m), z_to_u 16 (snd (to_i16 m)))
  | ToValI32 => (fst (to_i32 m), z_to_u 32 (snd (to_i32 m)))
  | ToValF32 => to_f32 m
  | ToValRaw => (cm_flags m, cm_value m)
  | ToValAsU16 => (cm_flags m, cm_value m mod 65536)
  end.

(* ---- one object: measurement -> field bytes ------------------------------------------------ *)
Definition time_stamp (t : option (tq * N)) : N :=
  match t with Some (_, x) => x | None => 0 end.        (* Option<Time> -> Timestamp: None = Unsynchronized(0) *)

Definition field_value (r : recipe) (m : cmeas) (diff : N) (f : fld) : N :=
  match f with
  | FFlags => match rc_to_flags r with
              | Some ToFlagsWire => wire_flags (rc_type r) m
              | Some ToFlagsRaw => cm_flags m
              | Some ToFlagsConv => match rc_to_value r with Some tv => fst (conv_of tv m) | None => cm_flags m end
              | None => 0
              end
  | FValue => match rc_to_value r with Some tv => snd (conv_of tv m) | None => 0 end
  | FTime => match rc_to_time r with
             | Some ToTimeInto => time_stamp (cm_time m)
             | Some ToTimeCto => diff
             | None => 0
             end
  end.

Definition encode_obj (r : recipe) (m : cmeas) (diff : N) : list N :=
  flat_map (fun fw => le_enc (wwidth (snd fw)) (field_value r m diff (fst fw))) (rc_layout r).

(* ---- one object: field bytes -> measurement ------------------------------------------------ *)
Fixpoint read_fields (l : list (fld * wtype)) (bs : list N) : list (fld * wtype * N) :=
  match l with
  | [] => []
  | (f, w) :: r => (f, w, le_dec (firstn (wwidth w) bs)) :: read_fields r (skipn (wwidth w) bs)
  end.

Definition fld_eqb (a b : fld) : bool :=
  match a, b with FFlags, FFlags | FValue, FValue | FTime, FTime => true | _, _ => false end.

Definition get_field (f : fld) (fs : list (fld * wtype * N)) : option (wtype * N) :=
  match find (fun x => fld_eqb (fst (fst x)) f) fs with
  | Some (_, w, v) => Some (w, v)
  | None => None
  end.

Definition raw_of (f : fld) (fs : list (fld * wtype * N)) : N :=
  match get_field f fs with Some (_, v) => v | None => 0 end.

(* Time::checked_add of a 16-bit offset *)
Definition cto_add (cto : option (tq * N)) (off : N) : option (tq * N) :=
  match cto with
  | None => None
  | Some (q, t) => if timestamp_max - t <? off then None else Some (q, t + off)
  end.

Definition decode_obj (r : recipe) (cto : option (tq * N)) (bs : list N) : cmeas :=
  let fs := read_fields (rc_layout r) bs in
  let fraw := raw_of FFlags fs in
  let flags := match rc_from_flags r with FromFlagsNew => fraw | FromFlagsOnline => online_flags end in
  let value :=
    match rc_from_value r with
    | FromState => fraw / 128
    | FromDoubleState => fraw / 64
    | FromValRaw => raw_of FValue fs
    | FromValAsU32 => raw_of FValue fs
    | FromValAsF64 =>
        match get_field FValue fs with
        | Some (WI16, x) => fb64_of_Z (u_to_z 16 x)
        | Some (WI32, x) => fb64_of_Z (u_to_z 32 x)
        | Some (WF32, x) => fb32_to_f64 x
        | Some (_, x) => x
        | None => 0
        end
    end in
  let time :=
    match rc_from_time r with
    | FromTimeNone => None
    | FromTimeSync => Some (Sync, raw_of FTime fs mod (timestamp_max + 1))
    | FromTimeCto => cto_add cto (raw_of FTime fs)
    end in
  mk_cmeas value flags time [].

(* ---- structured object headers -------------------------------------------------------------- *)
Inductive hdr :=
| HCto (v : N) (t : N)                                 (* g51v1 / g51v2, qualifier 0x07, count 1 *)
| HRange (g v start stop : N) (payload : list N)       (* qualifier 0x01 *)
| HPrefix (g v : N) (items : list (N * list N)).       (* qualifier 0x28: (index, object bytes) *)

Definition le16b (x : N) : list N := le_enc 2 x.

Definition serialize_hdr (h : hdr) : list N :=
  match h with
  | HCto v t => [51; v; 7; 1] ++ le_enc 6 t
  | HRange g v s e payload => [g; v; 1] ++ le16b s ++ le16b e ++ payload
  | HPrefix g v items =>
      [g; v; 40] ++ le16b (N.of_nat (length items)) ++ flat_map (fun it => le16b (fst it) ++ snd it) items
  end.

Definition serialize (hs : list hdr) : list N := flat_map serialize_hdr hs.

(* ---- outstation: static (range) writer ------------------------------------------------------ *)
(* a cpoint: index, configured variation (group, var), current value *)
Record cpoint := mk_cpoint { cp_idx : N; cp_group : N; cp_var : N; cp_meas : cmeas }.

Definition find_static (g v : N) : option (mtype * write_kind * option (N * N)) :=
  match find (fun x => match x with (_, g', v', _, _) => (g' =? g) && (v' =? v) end) static_vars with
  | Some (t, _, _, k, p) => Some (t, k, p)
  | None => None
  end.

(* StaticVariation::promote *)
Definition promote (g v : N) (m : cmeas) : N :=
  match find_static g v with
  | Some (_, _, Some (v2, mask)) => if without (cm_flags m) mask =? online_flags then v else v2
  | _ => v
  end.

Definition is_octets (g : N) : bool := (g =? 110) || (g =? 111).

Inductive witem := WFixed (bs : list N) | WBit (b : N) | WDbit (b : N).

(* what get_write_info(...).write_type writes for one cpoint *)
Definition static_item (g v : N) (m : cmeas) : witem :=
  if is_octets g then WFixed (cm_bytes m)
  else match find_static g v with
       | Some (_, WkBits, _) => WBit (cm_value m mod 2)
       | Some (_, WkDoubleBits, _) => WDbit (cm_value m mod 4)
       | _ => match find_recipe g v with
              | Some r => WFixed (encode_obj r m 0)
              | None => WFixed []
              end
       end.

(* BitState: items are packed least significant first, `width` bits each *)
Fixpoint pack (width : N) (vals : list N) (pos acc : N) : list N :=
  match vals with
  | [] => if pos =? 0 then [] else [acc]
  | x :: r => let acc' := acc + x * 2 ^ pos in
              if 8 <=? pos + width then acc' :: pack width r 0 0 else pack width r (pos + width) acc'
  end.

Definition payload_of (items : list witem) : list N :=
  match items with
  | WBit _ :: _ => pack 1 (map (fun i => match i with WBit b => b | _ => 0 end) items) 0 0
  | WDbit _ :: _ => pack 2 (map (fun i => match i with WDbit b => b | _ => 0 end) items) 0 0
  | _ => flat_map (fun i => match i with WFixed bs => bs | _ => [] end) items
  end.

Record whdr := mk_whdr { wh_g : N; wh_v : N; wh_start : N; wh_last : N; wh_items : list witem }.

Definition finish_whdr (h : whdr) : hdr :=
  HRange (wh_g h) (wh_v h) (wh_start h) (wh_last h) (payload_of (wh_items h)).

(* RangeWriter::write: same variation and consecutive index continue the header *)
Fixpoint range_write (pts : list (N * N * N * witem)) (cur : option whdr) : list hdr :=
  match pts with
  | [] => match cur with Some h => [finish_whdr h] | None => [] end
  | (idx, g, v, it) :: rest =>
      match cur with
      | Some h =>
          if (wh_g h =? g) && (wh_v h =? v) && (idx =? wh_last h + 1)
          then range_write rest (Some (mk_whdr g v (wh_start h) idx (wh_items h ++ [it])))
          else finish_whdr h :: range_write rest (Some (mk_whdr g v idx idx [it]))
      | None => range_write rest (Some (mk_whdr g v idx idx [it]))
      end
  end.

(* the BTreeMap of the static database iterates in index order *)
Fixpoint insert_point (p : cpoint) (l : list cpoint) : list cpoint :=
  match l with
  | [] => [p]
  | q :: r => if cp_idx p <? cp_idx q then p :: l else q :: insert_point p r
  end.
Definition sort_points (l : list cpoint) : list cpoint := fold_right insert_point [] l.

(* a READ selection: requested variation (0 = the cpoint's configured one) and optional index range *)
Record selection := mk_sel { sel_var : N; sel_range : option (N * N) }.

Definition in_sel (s : selection) (p : cpoint) : bool :=
  match sel_range s with
  | None => true
  | Some (a, b) => (a <=? cp_idx p) && (cp_idx p <=? b)
  end.

Definition static_entry (s : selection) (p : cpoint) : N * N * N * witem :=
  let v0 := if sel_var s =? 0 then cp_var p else sel_var s in
  let v := if is_octets (cp_group p) then N.of_nat (length (cm_bytes (cp_meas p))) else promote (cp_group p) v0 (cp_meas p) in
  (cp_idx p, cp_group p, v, static_item (cp_group p) v (cp_meas p)).

Definition write_static (s : selection) (pts : list cpoint) : list hdr :=
  range_write (map (static_entry s) (filter (in_sel s) (sort_points pts))) None.

(* ---- outstation: event writer ---------------------------------------------------------------- *)
Definition uses_cto (g v : N) : bool :=
  match find (fun x => match x with (_, g', v', _) => (g' =? g) && (v' =? v) end) event_vars with
  | Some (_, _, _, b) => b
  | None => false
  end.

Definition event_time (m : cmeas) : tq * N :=
  match cm_time m with Some x => x | None => (Unsync, 0) end.

(* write_cto: None = Continue::NewHeader, Some d = the 16-bit offset that is written *)
Definition cto_diff (cto time : tq * N) : option N :=
  if negb (tq_eqb (fst time) (fst cto)) then None
  else if snd time <? snd cto then None
  else if cto_max_gap <? snd time - snd cto then None
  else Some ((snd time - snd cto) mod 65536).

Definition event_bytes (g v : N) (m : cmeas) (diff : N) : list N :=
  if is_octets g then cm_bytes m
  else match find_recipe g v with Some r => encode_obj r m diff | None => [] end.

Record cestate := mk_cestate { es_g : N; es_v : N; es_cto : tq * N; es_items : list (N * list N) }.

Definition finish_estate (s : cestate) : hdr := HPrefix (es_g s) (es_v s) (es_items s).

Definition cto_hdr (time : tq * N) : hdr :=
  HCto (match fst time with Sync => 1 | Unsync => 2 end) (snd time).

(* EventWriter::start_new_header *)
Definition start_header (idx g v : N) (m : cmeas) : list hdr * cestate :=
  let time := event_time m in
  ((if uses_cto g v then [cto_hdr time] else []),
   mk_cestate g v time [(idx, event_bytes g v m 0)]).

(* EventWriter::write, one event after the other *)
Fixpoint event_write (evs : list cpoint) (cur : option cestate) : list hdr :=
  match evs with
  | [] => match cur with Some s => [finish_estate s] | None => [] end
  | e :: rest =>
      let idx := cp_idx e in let g := cp_group e in let v := cp_var e in let m := cp_meas e in
      let fresh := fun (pre : list hdr) =>
                     let '(hs, s') := start_header idx g v m in
                     pre ++ hs ++ event_write rest (Some s') in
      match cur with
      | None => fresh []
      | Some s =>
          if (es_g s =? g) && (es_v s =? v) then
            if N.of_nat (length (es_items s)) =? 65535 then fresh [finish_estate s]
            else if uses_cto g v then
              match cto_diff (es_cto s) (event_time m) with
              | Some d => event_write rest (Some (mk_cestate g v (es_cto s) (es_items s ++ [(idx, event_bytes g v m d)])))
              | None => fresh [finish_estate s]
              end
            else event_write rest (Some (mk_cestate g v (es_cto s) (es_items s ++ [(idx, event_bytes g v m 0)])))
          else fresh [finish_estate s]
      end
  end.

(* a READ of a specific event variation rewrites the variation of every selected event *)
Definition event_entry (req : N) (p : cpoint) : cpoint :=
  if is_octets (cp_group p) then mk_cpoint (cp_idx p) (cp_group p) (N.of_nat (length (cm_bytes (cp_meas p)))) (cp_meas p)
  else if req =? 0 then p else mk_cpoint (cp_idx p) (cp_group p) req (cp_meas p).

Definition write_events (req : N) (evs : list cpoint) : list hdr :=
  event_write (map (event_entry req) evs) None.

(* ---- master: parser of the object headers the two writers produce ---------------------------- *)
Definition obj_size (g v : N) : option nat :=
  if is_octets g then Some (N.to_nat v)
  else match find_recipe g v with Some r => Some (layout_size (rc_layout r)) | None => None end.

Definition range_kind (g v : N) : write_kind :=
  match find_static g v with Some (_, k, _) => k | None => WkFixed end.

Fixpoint take_items (n : nat) (size : nat) (bs : list N) : option (list (N * list N) * list N) :=
  match n with
  | O => Some ([], bs)
  | S k =>
      if (length bs <? 2 + size)%nat then None
      else match take_items k size (skipn (2 + size) bs) with
           | Some (items, rest) => Some ((le_dec (firstn 2 bs), firstn size (skipn 2 bs)) :: items, rest)
           | None => None
           end
  end.

Fixpoint parse_go (fuel : nat) (bs : list N) : option (list hdr) :=
  match fuel with
  | O => None
  | S f =>
      match bs with
      | [] => Some []
      | g :: v :: q :: rest =>
          if q =? 1 then
            if (length rest <? 4)%nat then None else
            let start := le_dec (firstn 2 rest) in
            let stop := le_dec (firstn 2 (skipn 2 rest)) in
            let body := skipn 4 rest in
            if stop <? start then None else
            let count := stop - start + 1 in
            let nbytes :=
              match range_kind g v with
              | WkBits => Some (N.to_nat ((count + 7) / 8))
              | WkDoubleBits => Some (N.to_nat ((count + 3) / 4))
              | WkFixed => match obj_size g v with Some s => Some (N.to_nat count * s)%nat | None => None end
              end in
            match nbytes with
            | None => None
            | Some nb =>
                if (length body <? nb)%nat then None
                else match parse_go f (skipn nb body) with
                     | Some hs => Some (HRange g v start stop (firstn nb body) :: hs)
                     | None => None
                     end
            end
          else if q =? 40 then
            if (length rest <? 2)%nat then None else
            let count := le_dec (firstn 2 rest) in
            match obj_size g v with
            | None => None
            | Some size =>
                match take_items (N.to_nat count) size (skipn 2 rest) with
                | None => None
                | Some (items, rest') =>
                    match parse_go f rest' with
                    | Some hs => Some (HPrefix g v items :: hs)
                    | None => None
                    end
                end
            end
          else if q =? 7 then
            match rest with
            | c :: rest1 =>
                if (g =? 51) && ((v =? 1) || (v =? 2)) && (c =? 1) && (6 <=? length rest1)%nat then
                  match parse_go f (skipn 6 rest1) with
                  | Some hs => Some (HCto v (le_dec (firstn 6 rest1)) :: hs)
                  | None => None
                  end
                else None
            | [] => None
            end
          else None
      | _ => None
      end
  end.

Definition parse_objects (bs : list N) : option (list hdr) := parse_go (S (length bs)) bs.

(* ---- master: extract_measurements ------------------------------------------------------------- *)
Inductive otype := OT (t : mtype) | OOct.

Inductive obs :=
| OHdr (g v q : N) (is_event has_flags : bool)
| OMeas (t : otype) (idx : N) (m : cmeas).

Definition find_info (tbl : list (N * N * mtype * bool * bool)) (g v : N) : option (mtype * bool * bool) :=
  match find (fun x => match x with (g', v', _, _, _) => (g' =? g) && (v' =? v) end) tbl with
  | Some (_, _, t, ie, hf) => Some (t, ie, hf)
  | None => None
  end.

Fixpoint unpack (width : N) (n : nat) (bs : list N) (pos : N) : list N :=
  match n with
  | O => []
  | S k =>
      match bs with
      | [] => []
      | b :: r => (b / 2 ^ pos) mod 2 ^ width ::
                  (if 8 <=? pos + width then unpack width k r 0 else unpack width k bs (pos + width))
      end
  end.

Fixpoint chunks_of (n : nat) (size : nat) (bs : list N) : list (list N) :=
  match n with
  | O => []
  | S k => firstn size bs :: chunks_of k size (skipn size bs)
  end.

Fixpoint number_from (start : N) {A} (l : list A) : list (N * A) :=
  match l with [] => [] | x :: r => (start, x) :: number_from (start + 1) r end.

(* From<bool> / From<DoubleBit>: ONLINE, no time *)
Definition packed_meas (b : N) : cmeas := mk_cmeas b online_flags None [].

Definition extract_range (g v start stop : N) (payload : list N) : list obs :=
  let count := N.to_nat (stop - start + 1) in
  if g =? 110 then
    OHdr g v 1 false false ::
    map (fun ib => OMeas OOct (fst ib) (mk_cmeas 0 0 None (snd ib)))
        (number_from start (chunks_of count (N.to_nat v) payload))
  else
  match find_info ranged_info g v with
  | None => []
  | Some (t, ie, hf) =>
      OHdr g v 1 ie hf ::
      match range_kind g v with
      | WkBits => map (fun ib => OMeas (OT t) (fst ib) (packed_meas (snd ib))) (number_from start (unpack 1 count payload 0))
      | WkDoubleBits => map (fun ib => OMeas (OT t) (fst ib) (packed_meas (snd ib))) (number_from start (unpack 2 count payload 0))
      | WkFixed =>
          match find_recipe g v with
          | None => []
          | Some r => map (fun ib => OMeas (OT t) (fst ib) (decode_obj r None (snd ib)))
                          (number_from start (chunks_of count (layout_size (rc_layout r)) payload))
          end
      end
  end.

Definition extract_prefix (cto : option (tq * N)) (g v : N) (items : list (N * list N)) : list obs :=
  if g =? 111 then
    OHdr g v 40 true false :: map (fun it => OMeas OOct (fst it) (mk_cmeas 0 0 None (snd it))) items
  else
  match find_info prefixed_info g v, find_recipe g v with
  | Some (t, ie, hf), Some r =>
      OHdr g v 40 ie hf :: map (fun it => OMeas (OT t) (fst it) (decode_obj r cto (snd it))) items
  | _, _ => []
  end.

(* extract_measurements_inner: fold with the running common time of occurrence *)
Fixpoint extract (cto : option (tq * N)) (hs : list hdr) : list obs :=
  match hs with
  | [] => []
  | HCto v t :: r => extract (Some (if v =? 1 then Sync else Unsync, t mod (timestamp_max + 1))) r
  | HRange g v s e p :: r => extract_range g v s e p ++ extract cto r
  | HPrefix g v items :: r => extract_prefix cto g v items ++ extract cto r
  end.

(* ---- the two trips of the `conv` engine -------------------------------------------------------- *)
Definition master_side (bytes : list N) : option (list obs) :=
  match parse_objects bytes with
  | Some hs => Some (extract None hs)
  | None => None
  end.

Definition trip_static (s : selection) (pts : list cpoint) : list N * option (list obs) :=
  let bytes := serialize (write_static s pts) in (bytes, master_side bytes).

Definition trip_event (req : N) (evs : list cpoint) : list N * option (list obs) :=
  let bytes := serialize (write_events req evs) in (bytes, master_side bytes).

(* ---- specification vocabulary of property C10 (used by App/ConvertProofs.v) --------------------- *)
Definition wf_value (t : mtype) (v : N) : Prop :=
  match t with
  | BI | BOS => v < 2
  | DBI => v < 4
  | CTR | FCTR => v < 4294967296
  | AI | AOS | FAI => v < p64
  end.

Definition wf_time (t : option (tq * N)) : Prop :=
  match t with Some (_, x) => x <= timestamp_max | None => True end.

Definition wf_meas (t : mtype) (m : cmeas) : Prop :=
  wf_value t (cm_value m) /\ cm_flags m < 256 /\ wf_time (cm_time m) /\ cm_bytes m = [].

(* what a variation is able to represent, read off the recipe *)
Definition value_representable (r : recipe) (m : cmeas) : Prop :=
  match rc_to_value r with
  | None => True
  | Some ToValRaw => True
  | Some ToValAsU16 => cm_value m < 65536
  | Some ToValI16 => exists z, (i16_min <= z <= i16_max)%Z /\ cm_value m = fb64_of_Z z
  | Some ToValI32 => exists z, (i32_min <= z <= i32_max)%Z /\ cm_value m = fb64_of_Z z
  | Some ToValF32 => exists x, x < p32 /\ fb32_exp x < 255 /\ cm_value m = fb32_to_f64 x
  end.

Definition flags_representable (r : recipe) (m : cmeas) : Prop :=
  match rc_to_flags r with None => cm_flags m = online_flags | Some _ => True end.

Definition time_representable (r : recipe) (m : cmeas) : Prop :=
  match rc_to_time r with
  | None => cm_time m = None
  | Some ToTimeInto => exists t, cm_time m = Some (Sync, t)
  | Some ToTimeCto => cm_time m <> None
  end.

Definition representable (r : recipe) (m : cmeas) : Prop :=
  value_representable r m /\ flags_representable r m /\ time_representable r m.

(* what arrives when the variation is narrower than the measurement *)
Definition narrowed_value (r : recipe) (m : cmeas) : N :=
  match rc_to_value r with
  | None => cm_value m
  | Some ToValRaw => cm_value m
  | Some ToValAsU16 => cm_value m mod 65536
  | Some ToValI16 => fb64_of_Z (snd (to_i16 m))
  | Some ToValI32 => fb64_of_Z (snd (to_i32 m))
  | Some ToValF32 => fb32_to_f64 (snd (to_f32 m))
  end.

Definition narrowed_flags (r : recipe) (m : cmeas) : N :=
  match rc_to_flags r with
  | None => online_flags
  | Some ToFlagsWire => wire_flags (rc_type r) m
  | Some ToFlagsRaw => cm_flags m
  | Some ToFlagsConv => match rc_to_value r with Some tv => fst (conv_of tv m) | None => cm_flags m end
  end.

Definition narrowed_time (r : recipe) (m : cmeas) (cto : option (tq * N)) (d : N) : option (tq * N) :=
  match rc_to_time r with
  | None => None
  | Some ToTimeInto => Some (Sync, time_stamp (cm_time m))
  | Some ToTimeCto => cto_add cto d
  end.

Definition narrowed (r : recipe) (m : cmeas) (cto : option (tq * N)) (d : N) : cmeas :=
  mk_cmeas (narrowed_value r m) (narrowed_flags r m) (narrowed_time r m cto d) [].

(* the measurements among the observations *)
Fixpoint meas_of (l : list obs) : list (otype * N * cmeas) :=
  match l with
  | [] => []
  | OMeas t i m :: r => (t, i, m) :: meas_of r
  | _ :: r => meas_of r
  end.
