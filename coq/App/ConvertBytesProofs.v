(* App/ConvertBytesProofs.v — the byte level of property C10: the object headers written by the two
   writers of App/Convert.v are parsed back to exactly the same headers, so that the theorems about
   `extract (write_...)` hold for the bytes on the wire (trip_static / trip_event of the `conv` engine).
   Axiom free (no Flocq). *)
From Dnp3V Require Import Base.Bytes gen.Conversions App.FloatBits App.Convert App.FloatBitsProofs App.ConvertProofs
  App.ConvertStaticProofs.
Open Scope N_scope.

Definition hdr_wf (h : hdr) : Prop :=
  match h with
  | HCto v t => (v = 1 \/ v = 2) /\ t <= timestamp_max
  | HRange g v s e payload =>
      s <= e /\ e < 65536 /\
      match range_kind g v with
      | WkBits => length payload = N.to_nat ((e - s + 1 + 7) / 8)
      | WkDoubleBits => length payload = N.to_nat ((e - s + 1 + 3) / 4)
      | WkFixed => exists sz, obj_size g v = Some sz /\ length payload = (N.to_nat (e - s + 1) * sz)%nat
      end
  | HPrefix g v items =>
      exists sz, obj_size g v = Some sz /\ N.of_nat (length items) < 65536 /\
                 Forall (fun it => fst it < 65536 /\ length (snd it) = sz) items
  end.

Lemma le_dec_2 x : x < 65536 -> le_dec [x mod 256; (x / 256) mod 256] = x.
Proof. intros H. cbn [le_dec]. lia. Qed.

Lemma take_items_serialized sz items tail :
  Forall (fun it => fst it < 65536 /\ length (snd it) = sz) items ->
  take_items (length items) sz (flat_map (fun it => le16b (fst it) ++ snd it) items ++ tail) = Some (items, tail).
Proof.
  induction 1 as [|[i bs] items [Hi Hl] Hall IH]; cbn [length take_items flat_map fst snd]; [reflexivity|].
  cbn [fst snd] in Hi, Hl.
  unfold le16b. cbn [le_enc]. cbn [app].
  rewrite <- !app_assoc.
  match goal with |- context [Nat.ltb ?a ?b] =>
    replace (Nat.ltb a b) with false by (symmetry; apply Nat.ltb_ge; cbn [length]; rewrite app_length; lia)
  end.
  cbn [skipn firstn Nat.add].
  rewrite skipn_app_exact by exact Hl.
  rewrite firstn_app_exact by exact Hl.
  unfold le16b in IH. cbn [le_enc app] in IH.
  rewrite IH. rewrite le_dec_2 by exact Hi. reflexivity.
Qed.

Theorem parse_serialize hs : Forall hdr_wf hs ->
  forall fuel, (length hs < fuel)%nat -> parse_go fuel (serialize hs) = Some hs.
Proof.
  induction 1 as [|h hs Hh Hhs IH]; intros fuel Hfuel.
  - destruct fuel; [lia|]. reflexivity.
  - destruct fuel as [|f]; [lia|]. cbn [length] in Hfuel.
    assert (IHf : parse_go f (serialize hs) = Some hs) by (apply IH; lia).
    unfold serialize. cbn [flat_map]. fold (serialize hs).
    destruct h as [v t|g v s e payload|g v items]; cbn [hdr_wf] in Hh.
    + (* common time of occurrence *)
      destruct Hh as [Hv Ht]. cbn [serialize_hdr app parse_go]. cbn [N.eqb Pos.eqb].
      assert (Hlen : (6 <=? length (le_enc 6 t ++ serialize hs))%nat = true).
      { apply Nat.leb_le. rewrite app_length, le_enc_length. lia. }
      assert (Ht' : le_dec (le_enc 6 t) = t).
      { rewrite le_dec_enc. apply N.mod_small. unfold timestamp_max in Ht.
        change (256 ^ N.of_nat 6) with 281474976710656. lia. }
      destruct Hv as [-> | ->]; cbn [N.eqb Pos.eqb orb andb]; rewrite Hlen;
        rewrite skipn_app_exact by apply le_enc_length;
        rewrite firstn_app_exact by apply le_enc_length;
        rewrite IHf, Ht'; reflexivity.
    + (* 16-bit start/stop *)
      destruct Hh as (Hse & He & Hpay).
      cbn [serialize_hdr app parse_go]. cbn [N.eqb Pos.eqb].
      unfold le16b. cbn [le_enc app].
      match goal with |- context [Nat.ltb ?a 4] =>
        replace (Nat.ltb a 4) with false by (symmetry; apply Nat.ltb_ge; cbn [length]; lia)
      end.
      cbn [firstn skipn].
      rewrite (le_dec_2 e), (le_dec_2 s) by lia.
      replace (e <? s) with false by (symmetry; apply N.ltb_ge; lia).
      assert (Hfin : forall nb, length payload = nb ->
                match (if (length (payload ++ serialize hs) <? nb)%nat then None
                       else match parse_go f (skipn nb (payload ++ serialize hs)) with
                            | Some hs0 => Some (HRange g v s e (firstn nb (payload ++ serialize hs)) :: hs0)
                            | None => None
                            end) with x => x end = Some (HRange g v s e payload :: hs)).
      { intros nb Hnb.
        replace (length (payload ++ serialize hs) <? nb)%nat with false
          by (symmetry; apply Nat.ltb_ge; rewrite app_length; lia).
        rewrite skipn_app_exact, firstn_app_exact by exact Hnb. rewrite IHf. reflexivity. }
      destruct (range_kind g v).
      * apply Hfin. rewrite Hpay. reflexivity.
      * apply Hfin. rewrite Hpay. reflexivity.
      * destruct Hpay as (sz & Hsz & Hpay). rewrite Hsz. apply Hfin. exact Hpay.
    + (* count and 16-bit prefix *)
      destruct Hh as (sz & Hsz & Hcount & Hitems).
      cbn [serialize_hdr].
      change (le16b (N.of_nat (length items)))
        with [N.of_nat (length items) mod 256; (N.of_nat (length items) / 256) mod 256].
      rewrite <- !app_assoc. cbn [app parse_go]. cbn [N.eqb Pos.eqb].
      match goal with |- context [Nat.ltb ?a 2] =>
        replace (Nat.ltb a 2) with false by (symmetry; apply Nat.ltb_ge; cbn [length]; lia)
      end.
      cbn [firstn skipn].
      rewrite le_dec_2 by lia. rewrite Hsz. rewrite Nat2N.id.
      rewrite take_items_serialized by exact Hitems. rewrite IHf. reflexivity.
Qed.

Corollary parse_objects_serialize hs : Forall hdr_wf hs -> parse_objects (serialize hs) = Some hs.
Proof.
  intros H. unfold parse_objects. apply parse_serialize; [exact H|].
  assert (length hs <= length (serialize hs))%nat; [|lia].
  clear H. induction hs as [|h hs IH]; [cbn; lia|].
  unfold serialize in *. cbn [flat_map length]. rewrite app_length.
  assert (1 <= length (serialize_hdr h))%nat by (destruct h; cbn; lia). lia.
Qed.
(* ---- the headers produced by the event writer are well formed ------------------------------------------ *)
Definition ev_wf16 (e : cpoint) : Prop := ev_wf e /\ cp_idx e < 65536.

Definition estate_wf (s : cestate) : Prop :=
  (exists t c, In (t, es_g s, es_v s, c) event_vars) /\
  snd (es_cto s) <= timestamp_max /\
  N.of_nat (length (es_items s)) <= 65535 /\
  exists sz, obj_size (es_g s) (es_v s) = Some sz /\
             Forall (fun it => fst it < 65536 /\ length (snd it) = sz) (es_items s).

Lemma finish_estate_wf s : estate_wf s -> hdr_wf (finish_estate s).
Proof.
  intros (_ & _ & Hn & sz & Hsz & Hall). unfold finish_estate, hdr_wf.
  exists sz. split; [exact Hsz|]. split; [lia|exact Hall].
Qed.

Lemma event_bytes_size e t c d : In (t, cp_group e, cp_var e, c) event_vars ->
  exists sz, obj_size (cp_group e) (cp_var e) = Some sz /\
             length (event_bytes (cp_group e) (cp_var e) (cp_meas e) d) = sz.
Proof.
  intros Hin.
  destruct (event_var_facts _ _ _ _ Hin) as (r & ie & hf & Hr & _ & _ & _ & _ & _ & Ho & _).
  unfold obj_size, event_bytes. rewrite Ho, Hr. eexists. split; [reflexivity|apply encode_obj_length].
Qed.

Lemma start_header_wf e : ev_wf16 e ->
  Forall hdr_wf (fst (start_header (cp_idx e) (cp_group e) (cp_var e) (cp_meas e))) /\
  estate_wf (snd (start_header (cp_idx e) (cp_group e) (cp_var e) (cp_meas e))).
Proof.
  intros ((t & c & Hin & Hwf) & Hidx).
  pose proof (event_time_wf _ _ Hwf) as Htm.
  destruct (event_bytes_size e t c 0 Hin) as (sz & Hsz & Hlen).
  unfold start_header. cbn [fst snd]. split.
  - destruct (uses_cto (cp_group e) (cp_var e)); [|constructor].
    constructor; [|constructor]. unfold cto_hdr, hdr_wf. split; [destruct (fst (event_time (cp_meas e))); auto|exact Htm].
  - unfold estate_wf. cbn [es_g es_v es_cto es_items length].
    split; [eauto|]. split; [exact Htm|]. split; [lia|].
    exists sz. split; [exact Hsz|]. constructor; [|constructor]. cbn [fst snd]. auto.
Qed.

Theorem event_write_wf evs : Forall ev_wf16 evs ->
  forall cur, match cur with Some s => estate_wf s | None => True end -> Forall hdr_wf (event_write evs cur).
Proof.
  induction 1 as [|e rest He Hrest IH]; intros cur Hcur.
  - destruct cur as [s|]; cbn [event_write]; [|constructor].
    constructor; [apply finish_estate_wf; exact Hcur|constructor].
  - cbn [event_write].
    destruct (start_header_wf e He) as [Hhs Hs'].
    destruct (start_header (cp_idx e) (cp_group e) (cp_var e) (cp_meas e)) as [hs s'] eqn:Esh.
    cbn [fst snd] in Hhs, Hs'.
    assert (Hfresh : Forall hdr_wf (hs ++ event_write rest (Some s'))).
    { apply Forall_app. split; [exact Hhs|apply IH; exact Hs']. }
    destruct cur as [s|]; [|cbn [app]; exact Hfresh].
    assert (Hnew : Forall hdr_wf ([finish_estate s] ++ hs ++ event_write rest (Some s'))).
    { cbn [app]. constructor; [apply finish_estate_wf; exact Hcur|exact Hfresh]. }
    destruct ((es_g s =? cp_group e) && (es_v s =? cp_var e)) eqn:Esame; [|exact Hnew].
    apply andb_true_iff in Esame. destruct Esame as [Eg Ev]. apply N.eqb_eq in Eg. apply N.eqb_eq in Ev.
    destruct (N.of_nat (length (es_items s)) =? 65535) eqn:Ecount; [exact Hnew|]. apply N.eqb_neq in Ecount.
    destruct He as ((t & c & Hin & Hwf) & Hidx).
    destruct Hcur as (Hsin & Hsmax & Hn & sz & Hsz & Hall).
    assert (Happend : forall d, Forall hdr_wf (event_write rest (Some (mk_cestate (cp_group e) (cp_var e) (es_cto s)
                        (es_items s ++ [(cp_idx e, event_bytes (cp_group e) (cp_var e) (cp_meas e) d)]))))).
    { intros d. apply IH. unfold estate_wf. cbn [es_g es_v es_cto es_items].
      split; [eauto|]. split; [exact Hsmax|]. split; [rewrite app_length; cbn [length]; lia|].
      destruct (event_bytes_size e t c d Hin) as (sz' & Hsz' & Hlen).
      rewrite Eg, Ev in Hsz. rewrite Hsz in Hsz'. injection Hsz' as <-.
      exists sz. split; [exact Hsz|]. apply Forall_app. split; [exact Hall|].
      constructor; [|constructor]. cbn [fst snd]. auto. }
    destruct (uses_cto (cp_group e) (cp_var e)); [|apply Happend].
    destruct (cto_diff (es_cto s) (event_time (cp_meas e))); [apply Happend|exact Hnew].
Qed.

(* the event trip of the `conv` engine, on the bytes *)
Theorem trip_event_bytes req evs : Forall ev_wf16 (map (event_entry req) evs) ->
  trip_event req evs = (serialize (write_events req evs), Some (extract None (write_events req evs))) /\
  meas_of (extract None (write_events req evs)) = map ev_expect (map (event_entry req) evs).
Proof.
  intros H. split.
  - unfold trip_event, master_side. rewrite parse_objects_serialize; [reflexivity|].
    unfold write_events. apply event_write_wf; [exact H|exact I].
  - apply events_exact. apply Forall_forall. intros e He. rewrite Forall_forall in H. apply H. exact He.
Qed.

(* ---- the headers produced by the range writer are well formed --------------------------------------------- *)
Lemma pack_length_1 : forall (k : nat) vals, (length vals <= 8 * k)%nat ->
  length (pack 1 vals 0 0) = N.to_nat ((N.of_nat (length vals) + 7) / 8).
Proof.
  induction k as [|k IH]; intros vals Hlen.
  - destruct vals; [reflexivity|cbn in Hlen; lia].
  - destruct vals as [|b0 [|b1 [|b2 [|b3 [|b4 [|b5 [|b6 [|b7 rest]]]]]]]]; try reflexivity.
    cbn [pack N.add N.leb N.compare Pos.compare Pos.compare_cont Pos.add Pos.succ N.eqb Pos.eqb].
    cbn. rewrite IH by (cbn in Hlen; lia). lia.
Qed.

Lemma pack_length_2 : forall (k : nat) vals, (length vals <= 4 * k)%nat ->
  length (pack 2 vals 0 0) = N.to_nat ((N.of_nat (length vals) + 3) / 4).
Proof.
  induction k as [|k IH]; intros vals Hlen.
  - destruct vals; [reflexivity|cbn in Hlen; lia].
  - destruct vals as [|b0 [|b1 [|b2 [|b3 rest]]]]; try reflexivity.
    cbn. rewrite IH by (cbn in Hlen; lia). lia.
Qed.

Lemma whdr_wf h : whdr_ok h -> wh_last h < 65536 -> hdr_wf (finish_whdr h).
Proof.
  intros (Hne & Hall & Hlast) Hl.
  unfold finish_whdr, hdr_wf.
  destruct (wh_items h) as [|it0 rest] eqn:Eitems; [congruence|].
  pose proof Hall as Hall0. inversion Hall0 as [|? ? (t & k & pr & Hin & Hs0) _]; subst.
  destruct (static_var_facts _ _ _ _ _ Hin) as (Hfs & _ & Hoct & _ & Hfix & _).
  assert (Hshape : Forall (item_shape (wh_g h) (wh_v h) k) (it0 :: rest)).
  { apply Forall_forall. intros it Hit. rewrite Forall_forall in Hall. apply (item_ok_shape _ _ t k pr); auto. }
  assert (Hn : wh_last h - wh_start h + 1 = N.of_nat (length (it0 :: rest)) /\ wh_start h <= wh_last h)
    by (cbn [length] in *; lia).
  destruct Hn as [Hn Hse].
  set (items := it0 :: rest) in *.
  split; [exact Hse|]. split; [exact Hl|].
  unfold range_kind. rewrite Hfs. rewrite Hn.
  destruct k.
  - assert (Hpay : payload_of items = pack 1 (map (fun i => match i with WBit b => b | _ => 0 end) items) 0 0).
    { unfold items. destruct it0; cbn [item_shape] in Hs0; try contradiction. reflexivity. }
    rewrite Hpay. rewrite (pack_length_1 (length items)) by (rewrite map_length; lia).
    rewrite map_length. reflexivity.
  - assert (Hpay : payload_of items = pack 2 (map (fun i => match i with WDbit b => b | _ => 0 end) items) 0 0).
    { unfold items. destruct it0; cbn [item_shape] in Hs0; try contradiction. reflexivity. }
    rewrite Hpay. rewrite (pack_length_2 (length items)) by (rewrite map_length; lia).
    rewrite map_length. reflexivity.
  - destruct (Hfix eq_refl) as (r & Hr & _ & _).
    exists (layout_size (rc_layout r)). split; [unfold obj_size; rewrite Hoct, Hr; reflexivity|].
    assert (Hpay : payload_of items = flat_map (fun i => match i with WFixed bs => bs | _ => [] end) items).
    { unfold items. destruct it0; cbn [item_shape] in Hs0; try contradiction. reflexivity. }
    rewrite Hpay. rewrite Nat2N.id.
    clear - Hshape Hr. induction Hshape as [|it l Hit _ IH]; [reflexivity|].
    cbn [flat_map length]. rewrite app_length, IH.
    destruct it; cbn [item_shape] in Hit; try contradiction.
    destruct Hit as (r' & Hr' & Hlen). rewrite Hr in Hr'. injection Hr' as <-. lia.
Qed.

Definition entry_ok16 (en : N * N * N * witem) : Prop :=
  entry_ok en /\ match en with (idx, _, _, _) => idx < 65536 end.

Theorem range_write_wf ens : Forall entry_ok16 ens ->
  forall cur, match cur with Some h => whdr_ok h /\ wh_last h < 65536 | None => True end ->
  Forall hdr_wf (range_write ens cur).
Proof.
  induction 1 as [|[[[idx g] v] it] rest [Hen Hidx] Hrest IH]; intros cur Hcur.
  - destruct cur as [h|]; cbn [range_write]; [|constructor].
    constructor; [apply whdr_wf; tauto|constructor].
  - cbn [range_write]. cbn [entry_ok] in Hen.
    assert (Hnew : whdr_ok (mk_whdr g v idx idx [it]) /\ wh_last (mk_whdr g v idx idx [it]) < 65536).
    { unfold whdr_ok. cbn [wh_items wh_g wh_v wh_last wh_start length].
      split; [split; [discriminate|split; [constructor; auto|lia]]|exact Hidx]. }
    destruct cur as [h|]; [|apply IH; exact Hnew].
    destruct ((wh_g h =? g) && (wh_v h =? v) && (idx =? wh_last h + 1)) eqn:Econt.
    + apply andb_true_iff in Econt. destruct Econt as [Egv Eidx]. apply andb_true_iff in Egv. destruct Egv as [Eg Ev].
      apply N.eqb_eq in Eg. apply N.eqb_eq in Ev. apply N.eqb_eq in Eidx.
      destruct Hcur as ((Hne & Hall & Hlast) & Hl).
      apply IH. unfold whdr_ok. cbn [wh_items wh_g wh_v wh_last wh_start].
      split; [|exact Hidx].
      split; [destruct (wh_items h); discriminate|].
      split; [apply Forall_app; split; [rewrite <- Eg, <- Ev; exact Hall|constructor; auto]|].
      rewrite app_length. cbn [length]. lia.
    + constructor; [apply whdr_wf; tauto|apply IH; exact Hnew].
Qed.

Definition st_wf16 (s : selection) (p : cpoint) : Prop := st_wf s p /\ cp_idx p < 65536.

(* the static trip of the `conv` engine, on the bytes *)
Theorem trip_static_bytes s pts : Forall (st_wf16 s) pts ->
  trip_static s pts = (serialize (write_static s pts), Some (extract None (write_static s pts))) /\
  meas_of (extract None (write_static s pts)) = map (st_expect s) (filter (in_sel s) (sort_points pts)).
Proof.
  intros H. split.
  - unfold trip_static, master_side. rewrite parse_objects_serialize; [reflexivity|].
    unfold write_static. apply range_write_wf; [|exact I].
    assert (Hsel : Forall (st_wf16 s) (filter (in_sel s) (sort_points pts))).
    { apply Forall_filter, Forall_sort_points, H. }
    apply Forall_forall. intros en Hen. apply in_map_iff in Hen. destruct Hen as (p & <- & Hp).
    rewrite Forall_forall in Hsel. destruct (Hsel p Hp) as [Hwf Hidx].
    split; [apply static_entry_spec; exact Hwf|]. unfold static_entry. exact Hidx.
  - apply static_exact. apply Forall_forall. intros p Hp. rewrite Forall_forall in H. apply H. exact Hp.
Qed.
