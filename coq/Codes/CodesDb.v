(* Codes/CodesDb.v — numeric serialisation of the results of the database model (Outstation/Database.v,
   engine `db` of ocaml/eng_db.ml) for the extraction cross-check (tools/coqeval.py, DESIGN.md section 8),
   and the script language of /verif/harness/db.rs as a Coq datatype with its interpreter, so that a whole
   script can be evaluated inside Coq.  Conventions: Codes/CodesBase.v.  Definitions only. *)
From Coq Require Import List NArith ZArith.
From Dnp3V Require Import Base.Bytes Outstation.DbTypes Outstation.EventBuffer Outstation.StaticDb Outstation.Database.
From Dnp3V Require Export Codes.CodesBase.
Import ListNotations.
Open Scope N_scope.

(* ---- serialisers of the results, one per operation (these are extracted and applied by the OCaml glue) ---- *)

Definition cx_uinfo (i : update_info) : list N :=
  match i with
  | UNoPoint => [0]
  | UNoEvent => [1]
  | UCreated id => [2; id]
  | UOverflow c d => [3; c; d]
  end.

Definition cx_time (t : option (bool * N)) : list N :=
  match t with None => [0] | Some (s, v) => [1; cx_b s; v] end.

Definition cx_meas (m : meas) : list N :=
  m_val m :: m_flags m :: cx_time (m_time m) ++ cx_bytes (m_oct m).

Definition cx_db_add (ok : bool) : list N := [1; cx_b ok].
Definition cx_db_rm (ok : bool) : list N := [2; cx_b ok].
Definition cx_db_upd (i : update_info) : list N := 3 :: cx_uinfo i.
Definition cx_db_updf (i : update_info) : list N := 4 :: cx_uinfo i.
Definition cx_db_get (r : option meas) : list N :=
  5 :: match r with None => [0] | Some m => 1 :: cx_meas m end.
Definition cx_db_sel (r : option N) : list N := 6 :: cx_optn r.       (* None = ReadHeader::get gave None *)
Definition cx_db_selm (n : N) : list N := [7; n].
Definition cx_db_wr (r : list N * bool * bool) : list N :=
  let '(bytes, has_events, complete) := r in 8 :: cx_bytes bytes ++ [cx_b has_events; cx_b complete].
Definition cx_db_wre (r : list N * N) : list N := 9 :: cx_bytes (fst r) ++ [snd r].
Definition cx_db_clr (r : list N * counters) : list N :=
  let c := snd r in
  10 :: cx_bytes (fst r) ++ [c_c1 c; c_c2 c; c_c3 c; c_bi c; c_dbi c; c_bos c; c_ctr c; c_fctr c; c_ai c; c_aos c; c_oct c].
Definition cx_db_rst : list N := [11].
Definition cx_db_iin (c : bool * bool * bool) (ovf : bool) : list N :=
  let '(c1, c2, c3) := c in [12; cx_b c1; cx_b c2; cx_b c3; cx_b ovf].

(* ---- the operations of a `db` script and what each does (used by the in-Coq evaluation only) ---- *)

Inductive dbop :=
| DAdd (t : ptype) (i : N) (pc : pconfig)
| DRm (t : ptype) (i : N)
| DUpd (t : ptype) (i : N) (m : meas) (update_static : bool) (mode : event_mode)
| DUpdf (t : ptype) (i flags : N) (time : option (bool * N)) (update_static : bool) (mode : event_mode)
| DGet (t : ptype) (i : N)
| DSel (g v : N) (q : qualifier)
| DSelm (c1 c2 c3 : bool)
| DWr (budget : N)
| DWre (budget : N)
| DClr
| DRst
| DIin.

Definition cx_db_step (d : db) (op : dbop) : db * list N :=
  match op with
  | DAdd t i pc => let '(d', ok) := db_add d t i pc in (d', cx_db_add ok)
  | DRm t i => let '(d', ok) := db_remove d t i in (d', cx_db_rm ok)
  | DUpd t i m us mode => let '(d', info) := db_update d t i m us mode in (d', cx_db_upd info)
  | DUpdf t i fl tm us mode => let '(d', info) := db_update_flags d t i fl tm us mode in (d', cx_db_updf info)
  | DGet t i => (d, cx_db_get (db_get d t i))
  | DSel g v q =>
      match read_header_of g v q with
      | None => (d, cx_db_sel None)
      | Some h => let '(d', iin) := db_select d h in (d', cx_db_sel (Some iin))
      end
  | DSelm c1 c2 c3 => let '(d', n) := db_select_event_classes d c1 c2 c3 in (d', cx_db_selm n)
  | DWr b => let '(d', r) := db_write_response d b in (d', cx_db_wr r)
  | DWre b => let '(d', r) := db_write_events_only d b in (d', cx_db_wre r)
  | DClr => let '(d', r) := db_clear_written d in (d', cx_db_clr r)
  | DRst => (db_reset d, cx_db_rst)
  | DIin => (d, cx_db_iin (db_unwritten_classes d) (db_is_overflown d))
  end.

Fixpoint cx_db_from (d : db) (ops : list dbop) : list (list N) :=
  match ops with
  | [] => []
  | op :: rest => let '(d', c) := cx_db_step d op in c :: cx_db_from d' rest
  end.

Definition cx_db_run (maxsel : option N) (c0 : ptype -> bool) (cfg : ebcfg) (ops : list dbop) : list (list N) :=
  cx_db_from (db_new maxsel c0 cfg) ops.
