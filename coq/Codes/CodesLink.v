(* Codes/CodesLink.v — numeric serialisation of the observations of the link and transport models
   (engines `link`, `layer`, `treader`, `twriter` of ocaml/eng_link.ml) for the extraction cross-check
   (tools/coqeval.py, DESIGN.md section 8).  Conventions: Codes/CodesBase.v.  Definitions only. *)
From Coq Require Import List NArith ZArith.
From Dnp3V Require Import Base.Bytes Link.Frame Link.Parser Link.Reader Link.Layer Transport.Assembler Transport.Segment.
From Dnp3V Require Export Codes.CodesBase.
Import ListNotations.
Open Scope N_scope.

Definition cx_perr (e : perr) : list N :=
  match e with
  | EStart1 x => [1; x]
  | EStart2 x => [2; x]
  | ELength x => [3; x]
  | EHeaderCrc => [4]
  | EBodyCrc => [5]
  | ELogicSize => [6]
  end.

Definition cx_rerr (e : rerr) : list N :=
  match e with RParse p => 1 :: cx_perr p | REof => [2] end.

Definition cx_bcast (b : option bcast_mode) : N :=
  match b with None => 0 | Some BOptional => 1 | Some BMandatory => 2 | Some BNotRequired => 3 end.

Definition cx_address (a : any_address) : list N :=
  match a with
  | AReserved x => [1; x]
  | AEndpoint x => [2; x]
  | ABroadcast m => [3; cx_bcast (Some m)]
  | ASelf => [4]
  end.

(* the header in full: function code as on the wire, the three control bits, both addresses with their kind *)
Definition cx_header (h : header) : list N :=
  let c := h_control h in
  [lfunc_to (c_func c); cx_b (c_master c); cx_b (c_fcb c); cx_b (c_fcv c)]
  ++ cx_address (h_dest h) ++ cx_address (h_src h).

Definition cx_robs (o : robs) : list N :=
  match o with
  | OFrame h p => 1 :: cx_header h ++ cx_bytes p
  | OErr e => 2 :: cx_rerr e
  | OOverflow => [3]
  | OStall => [4]
  end.

Definition cx_ftype (t : frame_type) : N :=
  match t with FData => 0 | FLinkStatusRequest => 1 | FLinkStatusResponse => 2 end.

Definition cx_lobs (o : lobs) : list N :=
  match o with
  | LTx b => 1 :: cx_bytes b
  | LInfo i p => 2 :: fi_source i :: cx_bcast (fi_broadcast i) :: cx_ftype (fi_type i) :: cx_bytes p
  | LErr e => 3 :: cx_rerr e
  | LOverflow => [4]
  | LStall => [5]
  end.

Definition cx_tobs (o : tobs) : list N :=
  match o with
  | TTx b => 1 :: cx_bytes b
  | TFrag fi d => 2 :: fg_id fi :: fg_source fi :: cx_bcast (fg_broadcast fi) :: cx_bytes d
  | TLinkMsg src req => [3; src; cx_b req]
  | TErr e => 4 :: cx_rerr e
  | TOverflow => [5]
  | TStall => [6]
  end.

Definition cx_wobs (o : option (list N)) : list N :=
  match o with Some b => 1 :: cx_bytes b | None => [2] end.

(* whole scripts *)
Definition cx_link_run (mode : error_mode) (rm : read_mode) (frag : nat) (cs : list (list N)) : list (list N) :=
  map cx_robs (run_link mode rm frag cs).

Definition cx_layer_run (mode : error_mode) (rm : read_mode) (frag : nat) (cfg : lcfg) (cs : list (list N)) : list (list N) :=
  map cx_lobs (run_layer mode rm frag cfg cs).

Definition cx_treader_run (mode : error_mode) (rm : read_mode) (frag : nat) (cfg : lcfg) (cs : list (list N)) : list (list N) :=
  map cx_tobs (run_treader mode rm frag cfg cs).

Definition cx_twriter_run (cfg : wcfg) (ops : list wop) : list (list N) :=
  map cx_wobs (run_twriter cfg 0 ops).
