(* Codes/CodesOfull.v — canonical NUMERIC serialisation of the observations of the composed outstation
   model (Outstation/Full.v), for the extraction cross-check (tools/coqeval.py, DESIGN.md section 8).

   The same script is evaluated twice: by `Eval vm_compute in (cx_ofull_run ...)` inside Coq, on a term
   that tools/coqeval.py renders directly from the script text, and by the extracted OCaml engine
   (ocaml/eng_ofull.ml, `driver --codes`), which prints `cx_fobs` of every observation it obtains from the
   extracted `fstart` / `fstep`.  Both must give the same lists of numbers.

   One inner list per observation: a constructor tag followed by the fields in declaration order (the
   conventions for bool, Z, option and lists are in Codes/CodesBase.v).  Definitions only; nothing here is
   used by a theorem. *)
From Coq Require Import List NArith ZArith.
From Dnp3V Require Import Base.Bytes Link.Frame Outstation.DbTypes Outstation.Session Outstation.Full.
From Dnp3V Require Export Codes.CodesBase.
Import ListNotations.
Open Scope N_scope.

Definition cx_whdr (h : whdr) : list N :=
  match h with
  | WIin bits => 1 :: cx_len bits :: concat (map (fun p => [fst p; cx_b (snd p)]) bits)
  | WAbsTime t => 2 :: cx_optn t
  | WLastRec t => 3 :: cx_optn t
  | WCls c => [4; c]
  | WFrzAll => [5]
  | WFrzRange a b => [6; a; b]
  | WFt None => [7; 0]
  | WFt (Some (t, i)) => [7; 1; t; i]
  | WAttr => [8]
  | WDb34 => [9]
  | WCtl g v p items => 10 :: g :: v :: p :: cx_len items :: concat (map (fun x => fst x :: cx_bytes (snd x)) items)
  | WOther => [11]
  end.

Definition cx_objres (o : objres) : list N :=
  match o with
  | ObjErr iin2 => [0; iin2]
  | ObjOk hdrs rh => 1 :: cx_len hdrs :: concat (map cx_whdr hdrs) ++ cx_len rh :: map cx_b rh
  end.

Definition cx_digest (d : digest) : list N :=
  match d with
  | DInsuf => [0]
  | DUnknown seq code => [1; seq; code]
  | DOk ctl fn rv obj => 2 :: ctl :: fn :: (match rv with RvOk => 0 | RvBad => 1 end) :: cx_objres obj
  end.

Definition cx_dbcall (c : dbcall) : list N :=
  match c with
  | DbSelect => [1]
  | DbWrite => [2]
  | DbWriteUnsol c1 c2 c3 => [3; cx_b c1; cx_b c2; cx_b c3]
  | DbClearWritten => [4]
  | DbReset => [5]
  | DbEvinfo => [6]
  | DbDeferredSelect => [7]
  end.

Definition cx_callback (c : callback) : list N :=
  match c with
  | CbBeginFragment => [1]
  | CbEndFragment => [2]
  | CbSelect g v i o => 3 :: g :: v :: i :: cx_bytes o
  | CbOperate g v i t o =>
      4 :: g :: v :: i :: (match t with OpSbo => 0 | OpDo => 1 | OpDoNr => 2 end) :: cx_bytes o
  | CbWriteTime t => [5; t]
  | CbColdRestart => [6]
  | CbWarmRestart => [7]
  | CbFreeze ind ft t i =>
      8 :: (match ind with None => [0] | Some (a, b) => [1; a; b] end) ++ [ft; t; i]
  | CbWriteAttr => [9]
  end.

Definition cx_info (i : infocb) : list N :=
  match i with
  | IIdleRequest f s => [1; f; s]
  | IBroadcast f a arg => [2; f; a; arg]
  | IEnterSolWait e => [3; e]
  | ISolTimeout e => [4; e]
  | ISolConfirmed e => [5; e]
  | ISolNewRequest => [6]
  | ISolWrongSeq e s => [7; e; s]
  | IUnexpectedConfirm u s => [8; cx_b u; s]
  | IEnterUnsolWait e => [9; e]
  | IUnsolTimeout e r => [10; e; cx_b r]
  | IUnsolConfirmed e => [11; e]
  | IClearRestart => [12]
  end.

Definition cx_oobs (o : oobs) : list N :=
  match o with
  | OTx dst bytes => 1 :: dst :: cx_bytes bytes
  | ODb c => 2 :: cx_dbcall c
  | OCb c => 3 :: cx_callback c
  | OInfo i => 4 :: cx_info i
  | OSessionEnd => [5]
  | OAt t => 6 :: cx_z t
  | OMissingAnswer => [7]
  | OOutOfFuel => [8]
  end.

Definition cx_answer (a : answer) : list N :=
  match a with
  | AIin2 v => [1; v]
  | AWrite c e body => 2 :: cx_b c :: cx_b e :: cx_bytes body
  | AUnsol k body => 3 :: k :: cx_bytes body
  | AEvinfo a b c o => [4; cx_b a; cx_b b; cx_b c; cx_b o]
  end.

Definition cx_fobs (o : fobs) : list N :=
  match o with
  | FDigest d rv => 1 :: cx_digest d ++ [rv]
  | FUser added ok => [2; cx_b added; cx_b ok]
  | FObs x => 3 :: cx_oobs x
  | FAns a => 4 :: cx_answer a
  | FCleared ids c1 c2 c3 => 5 :: cx_bytes ids ++ [c1; c2; c3]
  | FTxParse v => [6; v]
  | FUnmodelled => [7]
  | FReplayError => [8]
  end.

(* the two lines that are not observations of the model: the clock before an operation (the `op` line
   of the trace is stamped with it) and at the end of the script *)
Definition cx_op_mark (st : fstate) : list N := 100 :: cx_z (fnow st).
Definition cx_end_mark (st : fstate) : list N := 101 :: cx_z (fnow st).

Fixpoint cx_ofull_from (F : fcfg) (st : fstate) (ops : list fop) : list (list N) :=
  match ops with
  | [] => [cx_end_mark st]
  | op :: rest =>
      let '(st1, log) := fstep F st op in
      cx_op_mark st :: map cx_fobs log ++ cx_ofull_from F st1 rest
  end.

(* a whole script: start-up, then per operation the clock and the observations, then the final clock *)
Definition cx_ofull_run (F : fcfg) (sel op appiin : N) (ops : list fop) : list (list N) :=
  let '(st0, log0) := fstart F sel op appiin in
  map cx_fobs log0 ++ cx_ofull_from F st0 ops.
