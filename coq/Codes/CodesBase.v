(* Codes/CodesBase.v — conventions of the numeric serialisation used by the extraction cross-check
   (tools/coqeval.py, DESIGN.md section 8): an observation becomes a `list N`: a constructor tag followed by
   the fields in declaration order; bool = 0/1; Z = sign (0 non-negative, 1 negative) and magnitude;
   option = 0 | 1 x; a byte list or any other list = its length followed by its elements.
   Definitions only; nothing here is used by a theorem. *)
From Coq Require Import List NArith ZArith.
Import ListNotations.
Open Scope N_scope.

Definition cx_b (b : bool) : N := if b then 1 else 0.

Definition cx_z (z : Z) : list N :=
  match z with Z0 => [0; 0] | Zpos p => [0; Npos p] | Zneg p => [1; Npos p] end.

Definition cx_len {A : Type} (l : list A) : N := N.of_nat (length l).

Definition cx_bytes (l : list N) : list N := cx_len l :: l.

Definition cx_optn (o : option N) : list N := match o with None => [0] | Some x => [1; x] end.

(* For the in-Coq evaluation only (not extracted): Coq's printer needs about a millisecond per number
   literal but microseconds per constructor, so the cases files print every number as its binary digits,
   least significant first (0 = the empty list): `Eval vm_compute in (cx_show (cx_<engine>_run ...))`;
   tools/coqeval.py reads the digits back. *)
Fixpoint cx_pos_bits (p : positive) : list bool :=
  match p with
  | xH => [true]
  | xO q => false :: cx_pos_bits q
  | xI q => true :: cx_pos_bits q
  end.

Definition cx_n_bits (x : N) : list bool := match x with N0 => [] | Npos p => cx_pos_bits p end.

Definition cx_show (r : list (list N)) : list (list (list bool)) := map (map cx_n_bits) r.
