(* System/PanicLedger.v - the Coq side of the panic-site ledger of property C01.

   gen/PanicSites.v is regenerated on every run by tools/gen/gen_panic_sites.py: `panic_sites` is
   what the 21 anchored source files contain NOW, `panic_ledger` is the committed hand review
   (tools/gen/panic_ledger.json).  This file
     - proves the one discharging lemma that no layer provided yet (the assembler's tracked length
       never exceeds its buffer),
     - pins every lemma name the ledger may cite to an actual theorem of this development
       (`lemma_refs`: the file stops compiling when one of them disappears),
     - checks, by computation over the two generated lists, that every site has a reviewed entry
       whose class is not OPEN.  (Until repo commit 235518f three sites were OPEN - the u16 control
       counter of outstation/control/collection.rs, finding F18 - and were excepted by name; the
       counter is now saturating and the exception is gone.) *)
From Coq Require Import List NArith Bool String Lia.
From Dnp3V Require Import gen.PanicSites.
From Dnp3V Require Import Base.Bytes Link.Parser Link.Reader Link.ParserIncr Link.ReaderProofs.
From Dnp3V Require Import Transport.Assembler Transport.TransportProofs.
From Dnp3V Require Import Outstation.DbTypes Outstation.EventBuffer Outstation.EventBufferProofs.
From Dnp3V Require Import App.Grammar App.GrammarProofs.
Import ListNotations.
Local Open Scope string_scope.

(* ---------------------------------------------------------------------------------------------- *)
(* Assembler: the length tracked in Running / Complete never exceeds the buffer capacity, so
   `buffer.get(size).expect(..)`, `cursor.skip(acc_length).expect(..)` cannot fire and
   `acc_length + data.len()` stays below cap + 250. *)

Definition asm_len (a : assembler) : nat :=
  match a_state a with
  | AEmpty => 0
  | ARunning _ _ acc => length acc
  | AComplete _ buf => length buf
  end.

Lemma asm_len_with_state_empty a : asm_len (with_state a AEmpty) = 0%nat.
Proof. reflexivity. Qed.

Lemma append_len_le_cap a i h acc d : (asm_len (append a i h acc d) <= a_cap (append a i h acc d))%nat.
Proof.
  rewrite append_cap. unfold append.
  destruct (a_cap a <? length (acc ++ d))%nat eqn:E.
  - rewrite asm_len_with_state_empty. lia.
  - apply Nat.ltb_ge in E. destruct (t_fin h); unfold asm_len; cbn [a_state with_state]; exact E.
Qed.

Theorem assembler_len_le_cap : forall a i h d,
  (asm_len a <= a_cap a)%nat -> (asm_len (assemble a i h d) <= a_cap (assemble a i h d))%nat.
Proof.
  intros a i h d Ha. rewrite assemble_cap. unfold assemble.
  set (a1 := if t_fir h then with_state a AEmpty else a).
  assert (Hc1 : a_cap a1 = a_cap a) by (unfold a1; destruct (t_fir h); reflexivity).
  assert (H1 : (asm_len a1 <= a_cap a)%nat).
  { unfold a1. destruct (t_fir h); [rewrite asm_len_with_state_empty; lia|exact Ha]. }
  destruct (fi_broadcast i).
  - destruct (t_fir h && t_fin h).
    + pose proof (append_len_le_cap a1 i h [] d) as P. rewrite append_cap, Hc1 in P. exact P.
    + exact H1.
  - destruct (a_state a1) as [|pinfo phdr acc|fi buf] eqn:Es.
    + destruct (negb (t_fir h)).
      * exact H1.
      * pose proof (append_len_le_cap a1 i h [] d) as P. rewrite append_cap, Hc1 in P. exact P.
    + destruct (negb (t_seq h =? seq_next (t_seq phdr))%N).
      * rewrite asm_len_with_state_empty. lia.
      * destruct (negb (info_eqb i pinfo)).
        -- rewrite asm_len_with_state_empty. lia.
        -- pose proof (append_len_le_cap a1 i h acc d) as P. rewrite append_cap, Hc1 in P. exact P.
    + pose proof (append_len_le_cap (with_state a1 AEmpty) i h [] d) as P.
      rewrite append_cap in P. cbn [with_state a_cap] in P. rewrite Hc1 in P. exact P.
Qed.

(* every assembler state reachable from `assembler_init cap` by any sequence of segments *)
Definition assemble_all (cap : nat) (segs : list (frame_info * tp_header * list N)) : assembler :=
  fold_left (fun a s => assemble a (fst (fst s)) (snd (fst s)) (snd s)) segs (assembler_init cap).

Theorem assembler_reachable_len_le_cap : forall cap segs,
  (asm_len (assemble_all cap segs) <= cap)%nat /\ a_cap (assemble_all cap segs) = cap.
Proof.
  intros cap segs. unfold assemble_all.
  assert (G : forall a, (asm_len a <= a_cap a)%nat ->
              let a' := fold_left (fun a s => assemble a (fst (fst s)) (snd (fst s)) (snd s)) segs a in
              (asm_len a' <= a_cap a')%nat /\ a_cap a' = a_cap a).
  { induction segs as [|s segs IH]; intros a Ha; cbn [fold_left].
    - split; [exact Ha|reflexivity].
    - destruct (IH (assemble a (fst (fst s)) (snd (fst s)) (snd s)) (assembler_len_le_cap _ _ _ _ Ha)) as [I1 I2].
      split; [exact I1|]. rewrite I2. apply assemble_cap. }
  destruct (G (assembler_init cap)) as [G1 G2]; [cbn; lia|].
  cbn [assembler_init a_cap] in G2. rewrite G2 in G1. split; assumption.
Qed.

(* ---------------------------------------------------------------------------------------------- *)
(* The lemmas a `lemma:<Name>` reason of the ledger may cite.  Each name is tied to the theorem of
   that name: if one is renamed or removed this file no longer compiles. *)

Definition discharging_lemmas : list string :=
  ["readbuffer_inv"; "trailer_le_282"; "assembler_len_le_cap"; "aiter_rbytes_spec"; "aiter_bits_spec";
   "aiter_dbits_spec"; "amk_range_some"; "no_underflow"; "counters_exact"].

Definition lemma_refs :=
  (@ReaderProofs.readbuffer_inv, @ParserIncr.trailer_le_282, @assembler_len_le_cap,
   @GrammarProofs.aiter_rbytes_spec, @GrammarProofs.aiter_bits_spec, @GrammarProofs.aiter_dbits_spec,
   @GrammarProofs.amk_range_some, @EventBufferProofs.no_underflow, @EventBufferProofs.counters_exact).

(* ---------------------------------------------------------------------------------------------- *)
(* The check: every site has an entry, no entry of a site is OPEN, every cited lemma is known. *)

Definition class_open (c : reason_class) : bool := match c with COpen => true | _ => false end.

Definition class_lemma_known (c : reason_class) : bool :=
  match c with CLemma n => existsb (String.eqb n) discharging_lemmas | _ => true end.

(* the finite check, statement written out *)
Lemma ledger_complete_check :
  forallb (fun s =>
    existsb (fun e => (le_key e =? ps_key s)%N
                      && negb (class_open (le_class e))
                      && class_lemma_known (le_class e)) panic_ledger) panic_sites = true.
Proof. vm_compute. reflexivity. Qed.

Theorem ledger_complete : forall s, In s panic_sites ->
  exists e, In e panic_ledger /\ le_key e = ps_key s
            /\ le_class e <> COpen
            /\ (forall n, le_class e = CLemma n -> In n discharging_lemmas).
Proof.
  intros s Hs. pose proof ledger_complete_check as H. rewrite forallb_forall in H.
  specialize (H s Hs). apply existsb_exists in H. destruct H as [e [He Hc]].
  apply andb_true_iff in Hc. destruct Hc as [Hc Hl]. apply andb_true_iff in Hc. destruct Hc as [Hk Ho].
  exists e. split; [exact He|]. split; [apply N.eqb_eq; exact Hk|]. split.
  - intro Hopen. rewrite Hopen in Ho. cbn [class_open negb] in Ho. discriminate Ho.
  - intros n Hn. rewrite Hn in Hl. cbn [class_lemma_known] in Hl. apply existsb_exists in Hl.
    destruct Hl as [m [Hm Heq]]. apply String.eqb_eq in Heq. subst m. exact Hm.
Qed.

(* the number of sites the review covers and the number left open are pinned, so that a changed
   count shows up as a failed proof and not only as a changed evidence file *)
Lemma open_sites_check :
  length (filter (fun s =>
    existsb (fun e => (le_key e =? ps_key s)%N && class_open (le_class e)) panic_ledger) panic_sites) = 0%nat.
Proof. vm_compute. reflexivity. Qed.

(* no two sites share a key (a hash collision or a duplicated statement would let one review entry
   cover two different sites) *)
Lemma site_keys_distinct_check :
  forallb (fun s => Nat.eqb (length (filter (fun t => (ps_key t =? ps_key s)%N) panic_sites)) 1) panic_sites = true.
Proof. vm_compute. reflexivity. Qed.

Theorem site_keys_distinct : forall s, In s panic_sites ->
  length (filter (fun t => (ps_key t =? ps_key s)%N) panic_sites) = 1%nat.
Proof.
  intros s Hs. pose proof site_keys_distinct_check as H. rewrite forallb_forall in H.
  apply Nat.eqb_eq. exact (H s Hs).
Qed.
