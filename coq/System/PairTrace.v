(* System/PairTrace.v — trace abstraction for C02: is a recorded run of the REAL stack a run of System/Pair.v?
   (definitions only; the lemmas are in System/PairTraceProofs.v)

   tools/props/c02abs.py maps a trace recorded by /verif/pairtest to
     * a label list ls        one label per database transaction (Update, + Overflow [d] when UpdateInfo
                              reported an overflow), per response that reached the master's handler
                              (TakeSnapshot/DeliverSnapshot for its static objects, SendEvents or
                              SendSelected / DeliverEvents for its event objects), per confirm that released events (Confirm), per new
                              connection of the master (LoseConnection);
     * an observation list os  one entry per label: what the REAL trace shows at that place;
     * a final observation fin per point what Database::get returned and what the handler saw last.
   `effects` replays ls with `step` and returns what the ABSTRACT system shows at every label.
   "ls explains the trace"  :=  explain cap iv ls os fin = true :
     the abstract run shows, label for label, what the real run showed, and ends in a state whose database
     and master view are what the real run ended with.
   Values are codes: 0 = the initial value of a point, k+1 = the value written by the k-th transaction of
   the run.  The wire does not carry all of a value (a static g1v2 has no time), so an observed handler
   object is (point, the codes whose wire image is what the handler got): the abstract value must be one
   of them.  Nothing here is specific to the Rust code; the trust is in the mapping (see c02abs.py). *)
From Coq Require Import List NArith Bool.
From Dnp3V Require Import System.Pair.
Import ListNotations.
Open Scope N_scope.

(* what the abstract system shows when label l is taken in state s *)
Inductive effect :=
| FUpdate (created : option N) (disc : list N)   (* id of the event created; ids discarded by the capacity rule *)
| FOverflow (disc : list N)                      (* ids dropped and reported by an Overflow label *)
| FSilent                                        (* TakeSnapshot, LoseConnection: nothing to see *)
| FSent (n : nat)                                (* the response carries n events *)
| FHandler (objs : list (point * value))         (* the handler receives these objects, in order *)
| FReleased (ids : list N).                      (* the confirm releases the events with these ids *)

Definition released (s : state) : list event :=
  if eacked s then filter (fun e => existsb (event_eqb e) (eflight s)) (queue s) else [].

Definition effect_of (cap : nat) (s : state) (l : label) : effect :=
  match l with
  | Update p v ev =>
      let e := mkEvent (next_id s) p v in
      let q := if ev then queue s ++ [e] else queue s in
      FUpdate (if ev then Some (next_id s) else None) (map e_id (firstn (length q - cap)%nat q))
  | Overflow ids => FOverflow (map e_id (filter (id_in ids) (queue s)))
  | TakeSnapshot _ | LoseConnection => FSilent
  | SendEvents n => FSent (length (firstn n (queue s)))
  | SendSelected ids => FSent (length (filter (id_in ids) (queue s)))
  | DeliverSnapshot => FHandler (match sflight s with Some l => l | None => [] end)
  | DeliverEvents => FHandler (map ev_pair (eflight s))
  | Confirm => FReleased (map e_id (released s))
  end.

Fixpoint effects (cap : nat) (s : state) (ls : list label) : list effect :=
  match ls with
  | [] => []
  | l :: r => effect_of cap s l :: effects cap (step cap s l) r
  end.

Definition trace_of (cap : nat) (iv : point -> value) (ls : list label) : list effect :=
  effects cap (init iv) ls.

(* what the real trace shows at a label *)
Inductive obs :=
| OUpdate (created : option N) (disc : list N)   (* `updinfo`: UpdateInfo::Created(id) / NoEvent *)
| OOverflow (disc : list N)                      (* `updinfo <created> <discarded>`: UpdateInfo::Overflow *)
| OSilent
| OSent (n : nat)                                (* the response that reached the master carried n event objects *)
| OHandler (objs : list (point * list value))    (* `h` lines: point and the admissible value codes *)
| OReleased (ids : list N).                      (* `cleared` lines: OutstationApplication::event_cleared *)

Fixpoint listN_eqb (a b : list N) : bool :=
  match a, b with
  | [], [] => true
  | x :: a', y :: b' => N.eqb x y && listN_eqb a' b'
  | _, _ => false
  end.

Definition optN_eqb (a b : option N) : bool :=
  match a, b with
  | None, None => true
  | Some x, Some y => N.eqb x y
  | _, _ => false
  end.

Fixpoint all2 {A B} (f : A -> B -> bool) (la : list A) (lb : list B) : bool :=
  match la, lb with
  | [], [] => true
  | a :: la', b :: lb' => f a b && all2 f la' lb'
  | _, _ => false
  end.

(* the abstract object (p, v) is what the handler got: same point, v is an admissible code *)
Definition obj_ok (a : point * value) (o : point * list value) : bool :=
  N.eqb (fst a) (fst o) && existsb (N.eqb (snd a)) (snd o).

Definition matches (f : effect) (o : obs) : bool :=
  match f, o with
  | FUpdate c d, OUpdate c' d' => optN_eqb c c' && listN_eqb d d'
  | FOverflow d, OOverflow d' => listN_eqb d d'
  | FSilent, OSilent => true
  | FSent n, OSent n' => Nat.eqb n n'
  | FHandler l, OHandler l' => all2 obj_ok l l'
  | FReleased d, OReleased d' => listN_eqb d d'
  | _, _ => false
  end.

(* the final observation: per point (codes of the value Database::get returned, codes of the last value
   the handler received) *)
Definition final_obs := list (point * (list value * list value)).

Definition final_ok (s : state) (fin : final_obs) : bool :=
  forallb (fun x =>
    existsb (N.eqb (db s (fst x))) (fst (snd x)) &&
    match view s (fst x) with
    | Some v => existsb (N.eqb v) (snd (snd x))
    | None => false
    end) fin.

(* THE ACCEPTANCE FUNCTION *)
Definition explain (cap : nat) (iv : point -> value) (ls : list label) (os : list obs) (fin : final_obs) : bool :=
  all2 matches (trace_of cap iv ls) os && final_ok (run cap iv ls) fin.

(* diagnosis for a rejected run: the number of labels whose effect matches (the first mismatch is there) *)
Fixpoint agree (fs : list effect) (os : list obs) : nat :=
  match fs, os with
  | f :: fs', o :: os' => if matches f o then S (agree fs' os') else O
  | _, _ => O
  end.

(* ------------------------------------------------------------------------------------------------ *)
(* shapes of a label list under which the theorems of PairProofs conclude something about the end of
   the run; both are decided on the label list (and the observations) alone *)

(* r = ls2 ++ DeliverSnapshot :: ls3 with keeps_snapshot on ls2 and quiet on ls3 *)
Fixpoint delivered_then_quiet (r : list label) : bool :=
  match r with
  | [] => false
  | DeliverSnapshot :: ls3 => forallb quiet ls3
  | l :: r' => keeps_snapshot l && delivered_then_quiet r'
  end.

(* the points for which ls = ls1 ++ TakeSnapshot ps :: ls2 ++ DeliverSnapshot :: ls3 as in
   C02_converged_after_quiescence *)
Fixpoint settled_points (ls : list label) : list point :=
  match ls with
  | [] => []
  | TakeSnapshot ps :: r => (if delivered_then_quiet r then ps else []) ++ settled_points r
  | _ :: r => settled_points r
  end.

Definition all_settled (ls : list label) (fin : final_obs) : bool :=
  forallb (fun x => existsb (N.eqb (fst x)) (settled_points ls)) fin.

(* some response with room for an event came back EMPTY and no transaction followed it *)
Fixpoint drained_after (ls : list label) (os : list obs) : bool :=
  match ls, os with
  | l :: r, o :: ro =>
      match l, o with
      | SendEvents (S _), OSent O => forallb (fun x => negb (is_update x)) r || drained_after r ro
      | _, _ => drained_after r ro
      end
  | _, _ => false
  end.

(* ------------------------------------------------------------------------------------------------ *)
(* projections of the observations used by the statements *)

Definition obs_objs (o : obs) : list (point * list value) :=
  match o with OHandler l => l | _ => [] end.
Definition obs_disc (o : obs) : list N :=
  match o with OUpdate _ d => d | OOverflow d => d | _ => [] end.
Definition obs_released (o : obs) : list N :=
  match o with OReleased d => d | _ => [] end.
