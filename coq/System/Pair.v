(* System/Pair.v — the abstract two-party composition behind property C02 (definitions only).

   This is NOT a model of the Rust code.  It is the small abstract system one obtains when the
   per-layer guarantees proved elsewhere are taken as the step rules of an outstation database with
   an event queue, a channel with at most one response in flight, and a master view:

     Update p v ev      a database transaction sets point p to v; when ev = true an event with a fresh id
                        is appended to the event queue; when the queue then exceeds its capacity the
                        OLDEST events are discarded and their ids reported (UpdateInfo::Overflow).
     TakeSnapshot ps    the outstation answers a READ of static data: the response carries, for every
                        point of ps, its value at this instant                        [C11: a READ is
                        answered with a complete, consistent snapshot of what was selected]
     DeliverSnapshot    the response in flight reaches the master's handler, object for object, with the
                        values it was formed with  [C06/C08: the bytes of a fragment arrive intact or the
                        fragment is dropped; C09/C10: what is decoded is what was encoded; C15: the master
                        hands an accepted fragment to the handler once, in order]
     SendEvents n       the outstation writes the n oldest queued events into a response; they STAY in
                        the queue                                   [C03: oldest first, kept until confirmed]
     DeliverEvents      that response reaches the handler (in order) and the master will confirm it
                                                  [C06/C08/C09/C10 as above; C15: confirms what it accepted,
                        after the handler has run]
     Confirm            the confirm reaches the outstation: exactly the events the confirmed response
                        carried are released                     [C03: released only by a confirmed response]
     LoseConnection     the TCP connection is cut: whatever is in flight (static response, event response,
                        a confirm under way) is lost; unconfirmed events stay queued and are offered again
                        [C03 after repair ff00860; C17: the master runs an integrity poll after every
                        connection — here that is a later TakeSnapshot/SendEvents chosen by the run]
     SendSelected ids   the outstation writes the queued events with these ids (in queue order) into a
                        response; they STAY in the queue.  A master may ask for one event class only (the
                        automatic scan of the classes an IIN bit announced; stepfunc `event_scan_on_events_
                        available`), and the response then carries the oldest events OF THAT CLASS, which
                        is not a prefix of the queue: the rule of `SendEvents` (the n oldest overall) is too
                        strict for it.  This label is the generalisation: any selection of queued events.
     Overflow ids       the event buffer discards the queued events with these ids and REPORTS them
                        (UpdateInfo::Overflow).  The real buffer has one limit per point type and discards
                        the oldest event OF THAT TYPE (event/buffer.rs `insert`: remove_first(T::is_type)),
                        which is not the oldest of the whole queue: the rule of `Update` (one capacity `cap`,
                        the oldest overall) is too strict for it.  This label is the generalisation: ANY
                        queued events may be dropped as long as their ids are reported; only ids that are
                        queued are dropped and reported.  A real transaction that overflows is the two
                        labels Update p v true; Overflow [d] with `cap` = the sum of the per-type limits.

   A run is any list of these labels: all interleavings, any number of cuts, any chunking (chunking is
   below this abstraction: C06/C08).  A label that does not apply (DeliverSnapshot with nothing in
   flight, Confirm without a delivered response) leaves the state unchanged, so `step` is total.

   NOT represented: time, the reconnect back-off, threads, which poll the master chooses when (the
   fairness the theorems need is a hypothesis on the run), the order "events before static data" inside
   one integrity response (see PairProofs.stale_event_after_snapshot_possible).  The fields `created`,
   `discarded`, `delivered`, `received` are history variables: no step reads them. *)
From Coq Require Import List NArith Bool.
Import ListNotations.
Open Scope N_scope.

Definition point := N.     (* stands for (type, index) *)
Definition value := N.     (* stands for (value, flags, time) as the configured variation carries them *)

Record event := mkEvent { e_id : N; e_pt : point; e_val : value }.

Definition event_eqb (a b : event) : bool :=
  N.eqb (e_id a) (e_id b) && N.eqb (e_pt a) (e_pt b) && N.eqb (e_val a) (e_val b).

Record state := mkState {
  db : point -> value;                        (* outstation: current values *)
  queue : list event;                         (* outstation: event buffer, oldest first *)
  next_id : N;
  sflight : option (list (point * value));    (* static response in flight *)
  eflight : list event;                       (* events of the event response in flight / awaiting confirm *)
  eacked : bool;                              (* the master has processed that response and confirms it *)
  view : point -> option value;               (* master: last value the handler received per point *)
  created : list event;                       (* history: events ever created *)
  discarded : list N;                         (* history: ids reported as discarded by overflow *)
  delivered : list event;                     (* history: events handed to the handler *)
  received : list (point * value)             (* history: every (point, value) handed to the handler *)
}.

Inductive label :=
| Update (p : point) (v : value) (ev : bool)
| TakeSnapshot (ps : list point)
| DeliverSnapshot
| SendEvents (n : nat)
| DeliverEvents
| Confirm
| LoseConnection
| Overflow (ids : list N)
| SendSelected (ids : list N).

Definition upd {A} (f : point -> A) (p : point) (a : A) : point -> A :=
  fun q => if N.eqb q p then a else f q.

Definition ev_pair (e : event) : point * value := (e_pt e, e_val e).

(* the handler processes the objects of a fragment in order: the last one for a point wins *)
Definition see (vw : point -> option value) (l : list (point * value)) : point -> option value :=
  fold_left (fun w pv => upd w (fst pv) (Some (snd pv))) l vw.

(* the event's id is one of ids *)
Definition id_in (ids : list N) (e : event) : bool := existsb (N.eqb (e_id e)) ids.

Definition init (iv : point -> value) : state :=
  mkState iv [] 0 None [] false (fun _ => None) [] [] [] [].

Definition step (cap : nat) (s : state) (l : label) : state :=
  match l with
  | Update p v ev =>
      let e := mkEvent (next_id s) p v in
      let q := if ev then queue s ++ [e] else queue s in
      let k := (length q - cap)%nat in          (* how many of the oldest do not fit *)
      mkState (upd (db s) p v) (skipn k q) (if ev then next_id s + 1 else next_id s)
              (sflight s) (eflight s) (eacked s) (view s)
              (if ev then created s ++ [e] else created s)
              (discarded s ++ map e_id (firstn k q)) (delivered s) (received s)
  | TakeSnapshot ps =>
      mkState (db s) (queue s) (next_id s) (Some (map (fun p => (p, db s p)) ps)) (eflight s) (eacked s)
              (view s) (created s) (discarded s) (delivered s) (received s)
  | DeliverSnapshot =>
      match sflight s with
      | None => s
      | Some l =>
          mkState (db s) (queue s) (next_id s) None (eflight s) (eacked s) (see (view s) l)
                  (created s) (discarded s) (delivered s) (received s ++ l)
      end
  | SendEvents n =>
      mkState (db s) (queue s) (next_id s) (sflight s) (firstn n (queue s)) false (view s)
              (created s) (discarded s) (delivered s) (received s)
  | DeliverEvents =>
      mkState (db s) (queue s) (next_id s) (sflight s) (eflight s) true
              (see (view s) (map ev_pair (eflight s)))
              (created s) (discarded s) (delivered s ++ eflight s) (received s ++ map ev_pair (eflight s))
  | Confirm =>
      if eacked s then
        mkState (db s) (filter (fun e => negb (existsb (event_eqb e) (eflight s))) (queue s)) (next_id s)
                (sflight s) [] false (view s) (created s) (discarded s) (delivered s) (received s)
      else s
  | LoseConnection =>
      mkState (db s) (queue s) (next_id s) None [] false (view s)
              (created s) (discarded s) (delivered s) (received s)
  | Overflow ids =>
      mkState (db s) (filter (fun e => negb (id_in ids e)) (queue s)) (next_id s)
              (sflight s) (eflight s) (eacked s) (view s)
              (created s) (discarded s ++ map e_id (filter (id_in ids) (queue s))) (delivered s) (received s)
  | SendSelected ids =>
      mkState (db s) (queue s) (next_id s) (sflight s) (filter (id_in ids) (queue s)) false (view s)
              (created s) (discarded s) (delivered s) (received s)
  end.

Definition run (cap : nat) (iv : point -> value) (ls : list label) : state :=
  fold_left (step cap) ls (init iv).

(* predicates on labels used by the hypotheses of the theorems *)
Definition is_update (l : label) : bool := match l with Update _ _ _ => true | _ => false end.
Definition is_deliver_events (l : label) : bool := match l with DeliverEvents => true | _ => false end.
(* between the forming of the static response and its delivery: nothing that changes the database,
   replaces or loses the response in flight, or delivers it early *)
Definition keeps_snapshot (l : label) : bool :=
  match l with
  | Update _ _ _ | TakeSnapshot _ | DeliverSnapshot | LoseConnection => false
  | _ => true
  end.
(* after quiescence: no update, and the event polls come back empty *)
Definition quiet (l : label) : bool := negb (is_update l) && negb (is_deliver_events l).
