(* System/PairProofs.v — theorems about ALL runs of the abstract composition System/Pair.v (C02). *)
From Coq Require Import List NArith Bool Lia.
From Dnp3V Require Import System.Pair.
Import ListNotations.
Open Scope N_scope.

(* ------------------------------------------------------------------------------------------------ *)
(* lists *)

Lemma in_firstn_in {A} (x : A) : forall n l, In x (firstn n l) -> In x l.
Proof.
  induction n as [|n IH]; intros [|a l] H; cbn [firstn] in H; try contradiction.
  destruct H as [H|H]; [left; exact H | right; apply IH; exact H].
Qed.

Lemma in_skipn_in {A} (x : A) : forall n l, In x (skipn n l) -> In x l.
Proof.
  induction n as [|n IH]; intros [|a l] H; cbn [skipn] in H; try exact H.
  right; apply IH; exact H.
Qed.

Lemma in_split_at {A} (x : A) n l : In x l -> In x (firstn n l) \/ In x (skipn n l).
Proof. intro H. rewrite <- (firstn_skipn n l) in H. apply in_app_or; exact H. Qed.

Lemma event_eqb_eq a b : event_eqb a b = true -> a = b.
Proof.
  destruct a as [i p v], b as [j q w]. unfold event_eqb. cbn [e_id e_pt e_val]. intro H.
  apply andb_prop in H. destruct H as [H Hv]. apply andb_prop in H. destruct H as [Hi Hp].
  apply N.eqb_eq in Hi, Hp, Hv. subst. reflexivity.
Qed.

(* ------------------------------------------------------------------------------------------------ *)
(* the handler's view after a fragment *)

Lemma see_cons vw q w l : see vw ((q, w) :: l) = see (upd vw q (Some w)) l.
Proof. reflexivity. Qed.

Lemma see_same p v : forall l vw,
  (forall v', In (p, v') l -> v' = v) -> (vw p = Some v \/ In (p, v) l) -> see vw l p = Some v.
Proof.
  induction l as [|[q w] l IH]; intros vw Hall Hor.
  - destruct Hor as [H|[]]. exact H.
  - rewrite see_cons. apply IH.
    + intros v' Hin. apply Hall. right; exact Hin.
    + unfold upd. destruct (N.eqb_spec p q) as [E|NE].
      * left. subst q. f_equal. apply Hall. left; reflexivity.
      * destruct Hor as [H|[H|H]].
        -- left; exact H.
        -- inversion H; subst. contradiction.
        -- right; exact H.
Qed.

Lemma see_in p v : forall l vw, see vw l p = Some v -> vw p = Some v \/ In (p, v) l.
Proof.
  induction l as [|[q w] l IH]; intros vw H.
  - left; exact H.
  - rewrite see_cons in H. apply IH in H. destruct H as [H|H].
    + unfold upd in H. destruct (N.eqb_spec p q) as [E|NE].
      * inversion H; subst. right; left; reflexivity.
      * left; exact H.
    + right; right; exact H.
Qed.

(* ------------------------------------------------------------------------------------------------ *)
(* runs *)

Section Runs.
Variable cap : nat.
Variable iv : point -> value.

Lemma run_snoc ls l : run cap iv (ls ++ [l]) = step cap (run cap iv ls) l.
Proof. unfold run. rewrite fold_left_app. reflexivity. Qed.

Lemma run_app a b : run cap iv (a ++ b) = fold_left (step cap) b (run cap iv a).
Proof. unfold run. apply fold_left_app. Qed.

(* "v was the value of p at some moment of the run ls": after some prefix of the run the database
   holds v for p *)
Definition was (ls : list label) (p : point) (v : value) : Prop :=
  exists ls1 ls2, ls = ls1 ++ ls2 /\ db (run cap iv ls1) p = v.

Lemma was_snoc ls l p v : was ls p v -> was (ls ++ [l]) p v.
Proof.
  intros (a & b & E & H). exists a, (b ++ [l]). split; [|exact H].
  rewrite E. rewrite app_assoc. reflexivity.
Qed.

Lemma was_now ls p : was ls p (db (run cap iv ls) p).
Proof. exists ls, []. split; [rewrite app_nil_r; reflexivity | reflexivity]. Qed.

Definition held (ls : list label) (pv : point * value) : Prop := was ls (fst pv) (snd pv).

(* everything the master has received, everything in flight and every queued event carries a value
   the point really had *)
Definition inv1 (ls : list label) : Prop :=
  let s := run cap iv ls in
  (forall pv, In pv (received s) -> held ls pv) /\
  (forall l pv, sflight s = Some l -> In pv l -> held ls pv) /\
  (forall e, In e (queue s) -> held ls (ev_pair e)) /\
  (forall e, In e (eflight s) -> held ls (ev_pair e)).

Lemma inv1_all : forall ls, inv1 ls.
Proof.
  induction ls as [|l ls IH] using rev_ind.
  - unfold inv1. cbn. repeat split; intros; try contradiction; discriminate.
  - unfold inv1 in *. rewrite run_snoc. set (s := run cap iv ls) in *.
    destruct IH as (Hr & Hs & Hq & He).
    assert (M : forall pv, held ls pv -> held (ls ++ [l]) pv)
      by (intros pv H; apply was_snoc; exact H).
    destruct l as [p v ev | ps | | n | | | | ids | ids]; cbn [step].
    + (* Update *)
      cbn [received sflight queue eflight].
      assert (Hnew : held (ls ++ [Update p v ev]) (p, v)).
      { exists (ls ++ [Update p v ev]), []. split; [rewrite app_nil_r; reflexivity|].
        rewrite run_snoc. cbn [step db fst]. unfold upd. rewrite N.eqb_refl. reflexivity. }
      repeat split.
      * intros pv H. apply M, Hr, H.
      * intros l pv H1 H2. apply M. eapply Hs; eassumption.
      * intros e H. apply in_skipn_in in H. destruct ev.
        -- apply in_app_or in H. destruct H as [H|[H|[]]].
           ++ apply M, Hq, H.
           ++ subst e. exact Hnew.
        -- apply M, Hq, H.
      * intros e H. apply M, He, H.
    + (* TakeSnapshot *)
      cbn [received sflight queue eflight]. repeat split.
      * intros pv H. apply M, Hr, H.
      * intros l pv H1 H2. inversion H1; subst l. apply in_map_iff in H2.
        destruct H2 as (q & E & _). subst pv. apply M. apply was_now.
      * intros e H. apply M, Hq, H.
      * intros e H. apply M, He, H.
    + (* DeliverSnapshot *)
      destruct (sflight s) as [l|] eqn:El.
      * cbn [received sflight queue eflight]. repeat split.
        -- intros pv H. apply in_app_or in H. destruct H as [H|H].
           ++ apply M, Hr, H.
           ++ apply M. eapply Hs; [reflexivity | exact H].
        -- intros l0 pv H1. discriminate.
        -- intros e H. apply M, Hq, H.
        -- intros e H. apply M, He, H.
      * repeat split.
        -- intros pv H. apply M, Hr, H.
        -- intros l pv H1 H2. rewrite El in H1. discriminate.
        -- intros e H. apply M, Hq, H.
        -- intros e H. apply M, He, H.
    + (* SendEvents *)
      cbn [received sflight queue eflight]. repeat split.
      * intros pv H. apply M, Hr, H.
      * intros l pv H1 H2. apply M. eapply Hs; eassumption.
      * intros e H. apply M, Hq, H.
      * intros e H. apply M, Hq. eapply in_firstn_in; exact H.
    + (* DeliverEvents *)
      cbn [received sflight queue eflight]. repeat split.
      * intros pv H. apply in_app_or in H. destruct H as [H|H].
        -- apply M, Hr, H.
        -- apply in_map_iff in H. destruct H as (e & E & Hin). subst pv. apply M, He, Hin.
      * intros l pv H1 H2. apply M. eapply Hs; eassumption.
      * intros e H. apply M, Hq, H.
      * intros e H. apply M, He, H.
    + (* Confirm *)
      destruct (eacked s).
      * cbn [received sflight queue eflight]. repeat split.
        -- intros pv H. apply M, Hr, H.
        -- intros l pv H1 H2. apply M. eapply Hs; eassumption.
        -- intros e H. apply filter_In in H. apply M, Hq, H.
        -- intros e [].
      * repeat split.
        -- intros pv H. apply M, Hr, H.
        -- intros l pv H1 H2. apply M. eapply Hs; eassumption.
        -- intros e H. apply M, Hq, H.
        -- intros e H. apply M, He, H.
    + (* LoseConnection *)
      cbn [received sflight queue eflight]. repeat split.
      * intros pv H. apply M, Hr, H.
      * intros l pv H1. discriminate.
      * intros e H. apply M, Hq, H.
      * intros e [].
    + (* Overflow *)
      cbn [received sflight queue eflight]. repeat split.
      * intros pv H. apply M, Hr, H.
      * intros l pv H1 H2. apply M. eapply Hs; eassumption.
      * intros e H. apply filter_In in H. apply M, Hq, H.
      * intros e H. apply M, He, H.
    + (* SendSelected *)
      cbn [received sflight queue eflight]. repeat split.
      * intros pv H. apply M, Hr, H.
      * intros l pv H1 H2. apply M. eapply Hs; eassumption.
      * intros e H. apply M, Hq, H.
      * intros e H. apply filter_In in H. apply M, Hq, H.
Qed.

(* P1: every (point, value) the handler ever received was that point's value at some earlier
   instant of the run: nothing fabricated, nothing cross-wired between points *)
Theorem nothing_fabricated : forall ls p v,
  In (p, v) (received (run cap iv ls)) ->
  exists ls1 ls2, ls = ls1 ++ ls2 /\ db (run cap iv ls1) p = v.
Proof.
  intros ls p v H. destruct (inv1_all ls) as (Hr & _). exact (Hr (p, v) H).
Qed.

(* the master's current picture consists of received values only *)
Lemma view_received_step s l :
  (forall p v, view s p = Some v -> In (p, v) (received s)) ->
  forall p v, view (step cap s l) p = Some v -> In (p, v) (received (step cap s l)).
Proof.
  intros IH p v. destruct l as [q w ev | ps | | n | | | | ids | ids]; cbn [step].
  - cbn [view received]. apply IH.
  - cbn [view received]. apply IH.
  - destruct (sflight s) as [l|]; [|apply IH]. cbn [view received]. intro H.
    apply see_in in H. apply in_or_app. destruct H as [H|H]; [left; apply IH; exact H | right; exact H].
  - cbn [view received]. apply IH.
  - cbn [view received]. intro H. apply see_in in H. apply in_or_app.
    destruct H as [H|H]; [left; apply IH; exact H | right; exact H].
  - destruct (eacked s); [cbn [view received]|]; apply IH.
  - cbn [view received]. apply IH.
  - cbn [view received]. apply IH.
  - cbn [view received]. apply IH.
Qed.

Lemma view_received : forall ls p v,
  view (run cap iv ls) p = Some v -> In (p, v) (received (run cap iv ls)).
Proof.
  induction ls as [|l ls IH] using rev_ind.
  - cbn. intros p v H. discriminate.
  - rewrite run_snoc. apply view_received_step. exact IH.
Qed.

Theorem picture_not_fabricated : forall ls p v,
  view (run cap iv ls) p = Some v ->
  exists ls1 ls2, ls = ls1 ++ ls2 /\ db (run cap iv ls1) p = v.
Proof. intros ls p v H. apply nothing_fabricated. apply view_received. exact H. Qed.

(* ------------------------------------------------------------------------------------------------ *)
(* convergence *)

(* phase 2: the static response formed from database d0 for the points ps is in flight *)
Definition in_flight (d0 : point -> value) (ps : list point) (s : state) : Prop :=
  (forall p, db s p = d0 p) /\ sflight s = Some (map (fun p => (p, d0 p)) ps).

Lemma in_flight_step d0 ps s l :
  keeps_snapshot l = true -> in_flight d0 ps s -> in_flight d0 ps (step cap s l).
Proof.
  intros K (Hd & Hs). destruct l as [q w ev | qs | | n | | | | ids | ids]; try discriminate; cbn [step].
  - split; assumption.
  - split; assumption.
  - destruct (eacked s); split; assumption.
  - split; assumption.
  - split; assumption.
Qed.

Lemma in_flight_steps d0 ps : forall ls s,
  forallb keeps_snapshot ls = true -> in_flight d0 ps s -> in_flight d0 ps (fold_left (step cap) ls s).
Proof.
  induction ls as [|l ls IH]; intros s K H; [exact H|].
  cbn [forallb] in K. apply andb_prop in K. destruct K as [K1 K2].
  cbn [fold_left]. apply IH; [exact K2|]. apply in_flight_step; assumption.
Qed.

(* phase 3: the master has the values of d0 for the points ps, the database still is d0, and
   whatever static response is in flight carries values of d0 *)
Definition settled (d0 : point -> value) (ps : list point) (s : state) : Prop :=
  (forall p, db s p = d0 p) /\
  (forall p, In p ps -> view s p = Some (d0 p)) /\
  (forall l q v, sflight s = Some l -> In (q, v) l -> v = d0 q).

Lemma settled_step d0 ps s l :
  quiet l = true -> settled d0 ps s -> settled d0 ps (step cap s l).
Proof.
  intros Q (Hd & Hv & Hs).
  destruct l as [q w ev | qs | | n | | | | ids | ids]; try discriminate; cbn [step].
  - (* TakeSnapshot *)
    repeat split; cbn [db view sflight]; try assumption.
    intros l q v E Hin. inversion E; subst l. apply in_map_iff in Hin.
    destruct Hin as (r & E2 & _). inversion E2; subst. apply Hd.
  - (* DeliverSnapshot *)
    destruct (sflight s) as [l|] eqn:El; [|repeat split; try assumption; intros; rewrite El in *; discriminate].
    repeat split; cbn [db view sflight]; try assumption.
    + intros p Hp. apply see_same.
      * intros v' Hin. eapply Hs; [reflexivity | exact Hin].
      * left. apply Hv, Hp.
    + intros l0 q v E. discriminate.
  - (* SendEvents *) repeat split; assumption.
  - (* Confirm *) destruct (eacked s); repeat split; assumption.
  - (* LoseConnection *)
    repeat split; cbn [db view sflight]; try assumption. intros l q v E. discriminate.
  - (* Overflow *) repeat split; assumption.
  - (* SendSelected *) repeat split; assumption.
Qed.

Lemma settled_steps d0 ps : forall ls s,
  forallb quiet ls = true -> settled d0 ps s -> settled d0 ps (fold_left (step cap) ls s).
Proof.
  induction ls as [|l ls IH]; intros s K H; [exact H|].
  cbn [forallb] in K. apply andb_prop in K. destruct K as [K1 K2].
  cbn [fold_left]. apply IH; [exact K2|]. apply settled_step; assumption.
Qed.

(* P1: once updates have stopped (everything after ls1 is free of Update), if a static response for
   the points ps is formed, survives until it is delivered, and the event polls after it come back
   empty, then the master's last value of every point of ps is the database's value.
   ls1 is ANY history: updates, overflows, lost connections, half-delivered responses. *)
Theorem converged_after_quiescence : forall ls1 ps ls2 ls3,
  forallb keeps_snapshot ls2 = true ->
  forallb quiet ls3 = true ->
  let s := run cap iv (ls1 ++ TakeSnapshot ps :: ls2 ++ DeliverSnapshot :: ls3) in
  forall p, In p ps -> view s p = Some (db s p).
Proof.
  intros ls1 ps ls2 ls3 K2 K3 s p Hp. subst s.
  rewrite run_app. cbn [fold_left]. rewrite fold_left_app. cbn [fold_left].
  set (s1 := run cap iv ls1). set (d0 := db s1).
  assert (HA : in_flight d0 ps (step cap s1 (TakeSnapshot ps))).
  { cbn [step]. split; [intro q; reflexivity | reflexivity]. }
  pose proof (in_flight_steps d0 ps ls2 _ K2 HA) as HB.
  set (s2 := fold_left (step cap) ls2 (step cap s1 (TakeSnapshot ps))) in *.
  assert (HC : settled d0 ps (step cap s2 DeliverSnapshot)).
  { destruct HB as (Hd & Hs). cbn [step]. rewrite Hs. repeat split; cbn [db view sflight].
    - exact Hd.
    - intros q Hq. apply see_same.
      + intros v' Hin. apply in_map_iff in Hin. destruct Hin as (r & E & _). inversion E; subst. reflexivity.
      + right. apply in_map_iff. exists q. split; [reflexivity | exact Hq].
    - intros l q v E. discriminate. }
  pose proof (settled_steps d0 ps ls3 _ K3 HC) as (Hd & Hv & _).
  rewrite Hv by exact Hp. rewrite Hd. reflexivity.
Qed.

(* ------------------------------------------------------------------------------------------------ *)
(* events *)

Definition inv2 (s : state) : Prop :=
  (forall e, In e (created s) -> In (e_id e) (discarded s) \/ In e (queue s) \/ In e (delivered s)) /\
  (eacked s = true -> forall e, In e (eflight s) -> In e (delivered s)) /\
  (forall e, In e (delivered s) -> In (ev_pair e) (received s)).

Lemma inv2_step s l : inv2 s -> inv2 (step cap s l).
Proof.
  intros (Hc & Ha & Hd). destruct l as [p v ev | ps | | n | | | | ids | ids]; cbn [step].
  - (* Update *)
    set (e0 := mkEvent (next_id s) p v).
    set (q := if ev then queue s ++ [e0] else queue s).
    set (k := (length q - cap)%nat).
    assert (Q : forall e, In e q -> In (e_id e) (discarded s ++ map e_id (firstn k q)) \/ In e (skipn k q)).
    { intros e H. destruct (in_split_at e k q H) as [H1|H1].
      - left. apply in_or_app. right. apply in_map. exact H1.
      - right. exact H1. }
    repeat split; cbn [created discarded queue delivered eacked eflight received].
    + intros e H.
      assert (C : In (e_id e) (discarded s) \/ In e q \/ In e (delivered s)).
      { destruct ev.
        - apply in_app_or in H. destruct H as [H|[H|[]]].
          + destruct (Hc e H) as [X|[X|X]]; [left; exact X | right; left; unfold q; apply in_or_app; left; exact X | right; right; exact X].
          + right; left. unfold q. apply in_or_app. right. left. exact H.
        - destruct (Hc e H) as [X|[X|X]]; [left; exact X | right; left; exact X | right; right; exact X]. }
      destruct C as [X|[X|X]].
      * left. apply in_or_app. left. exact X.
      * destruct (Q e X) as [Y|Y]; [left; exact Y | right; left; exact Y].
      * right; right; exact X.
    + exact Ha.
    + exact Hd.
  - repeat split; assumption.
  - destruct (sflight s) as [l|]; [|repeat split; assumption].
    repeat split; cbn [created discarded queue delivered eacked eflight received]; try assumption.
    intros e H. apply in_or_app. left. apply Hd, H.
  - repeat split; cbn [created discarded queue delivered eacked eflight received]; try assumption.
    intro H; discriminate.
  - (* DeliverEvents *)
    repeat split; cbn [created discarded queue delivered eacked eflight received].
    + intros e H. destruct (Hc e H) as [X|[X|X]];
        [left; exact X | right; left; exact X | right; right; apply in_or_app; left; exact X].
    + intros _ e H. apply in_or_app. right. exact H.
    + intros e H. apply in_or_app. apply in_app_or in H. destruct H as [H|H].
      * left. apply Hd, H.
      * right. apply in_map. exact H.
  - (* Confirm *)
    destruct (eacked s) eqn:Ea; [|repeat split; try assumption; rewrite Ea; intro; discriminate].
    repeat split; cbn [created discarded queue delivered eacked eflight received]; try assumption.
    + intros e H. destruct (Hc e H) as [X|[X|X]]; [left; exact X | | right; right; exact X].
      destruct (existsb (event_eqb e) (eflight s)) eqn:Ex.
      * right; right. apply existsb_exists in Ex. destruct Ex as (y & Hy & E).
        apply event_eqb_eq in E. subst y. apply Ha; [reflexivity | exact Hy].
      * right; left. apply filter_In. split; [exact X | rewrite Ex; reflexivity].
    + intro H; discriminate.
  - repeat split; cbn [created discarded queue delivered eacked eflight received]; try assumption.
    intro H; discriminate.
  - (* Overflow *)
    repeat split; cbn [created discarded queue delivered eacked eflight received]; try assumption.
    intros e H. destruct (Hc e H) as [X|[X|X]]; [left; apply in_or_app; left; exact X | | right; right; exact X].
    destruct (id_in ids e) eqn:G.
    + left. apply in_or_app. right. apply in_map. apply filter_In. split; [exact X | exact G].
    + right; left. apply filter_In. split; [exact X | rewrite G; reflexivity].
  - (* SendSelected *)
    repeat split; cbn [created discarded queue delivered eacked eflight received]; try assumption.
    intro H; discriminate.
Qed.

Lemma inv2_all : forall ls, inv2 (run cap iv ls).
Proof.
  induction ls as [|l ls IH] using rev_ind.
  - cbn. repeat split; intros; try contradiction; discriminate.
  - rewrite run_snoc. apply inv2_step, IH.
Qed.

(* P1: in every run, an event that was created, was not reported as discarded by overflow and is no
   longer queued has reached the handler (with its point and value).  Events leave the queue only by
   overflow (reported) or by the confirm of a response the handler has processed. *)
Theorem undiscarded_events_delivered : forall ls e,
  let s := run cap iv ls in
  In e (created s) -> ~ In (e_id e) (discarded s) -> ~ In e (queue s) ->
  In e (delivered s) /\ In (e_pt e, e_val e) (received s).
Proof.
  intros ls e s Hc Hd Hq. destruct (inv2_all ls) as (A & _ & D). fold s in A, D.
  destruct (A e Hc) as [X|[X|X]]; [contradiction | contradiction |].
  split; [exact X | exact (D e X)].
Qed.

(* fairness as a hypothesis on the run: it ends with the event queue drained *)
Corollary drained_queue_all_delivered : forall ls,
  let s := run cap iv ls in
  queue s = [] ->
  forall e, In e (created s) -> ~ In (e_id e) (discarded s) ->
  In e (delivered s) /\ In (e_pt e, e_val e) (received s).
Proof.
  intros ls s Hq e Hc Hd. apply undiscarded_events_delivered; try assumption.
  fold s. rewrite Hq. intros [].
Qed.

(* an event is released only after it was delivered: whatever left the queue without being reported
   as discarded is in `delivered` — stated for every prefix of every run by the theorem above *)

End Runs.

(* ------------------------------------------------------------------------------------------------ *)
(* witnesses: the hypotheses are satisfiable, and the hypothesis "event polls come back empty" of the
   convergence theorem cannot be dropped in THIS abstraction *)

Definition demo_run : list label :=
  [Update 1 5 true; Update 2 7 true; Update 1 6 true;       (* capacity 2: the first event is discarded *)
   SendEvents 2; DeliverEvents; LoseConnection;             (* confirm lost: offered again *)
   TakeSnapshot [1; 2]; SendEvents 2; DeliverEvents; Confirm; DeliverSnapshot; SendEvents 5].

Example demo_converges :
  let s := run 2 (fun _ => 0) demo_run in
  view s 1 = Some 6 /\ view s 2 = Some 7 /\ db s 1 = 6 /\ queue s = [] /\ discarded s = [0]
  /\ map e_id (delivered s) = [1; 2; 1; 2].
Proof. vm_compute. repeat split. Qed.

(* an event delivered AFTER the static snapshot may carry an older value when the last update of the
   point created no event (dead band, suppressed event): the abstraction does not represent that the
   real integrity response puts the events before the static data *)
Example stale_event_after_snapshot_possible :
  let s := run 5 (fun _ => 0)
             [Update 1 5 true; Update 1 6 false; TakeSnapshot [1]; DeliverSnapshot;
              SendEvents 1; DeliverEvents; Confirm] in
  view s 1 = Some 5 /\ db s 1 = 6 /\ queue s = [].
Proof. vm_compute. repeat split. Qed.
