(* System/PairTraceProofs.v — what "ls explains the trace" (PairTrace.explain = true) gives: the history
   variables of the abstract run ARE what the real trace showed, so the theorems of PairProofs about
   `run cap iv ls` become statements about the observations. *)
From Coq Require Import List NArith PeanoNat Bool Lia.
From Dnp3V Require Import System.Pair System.PairProofs System.PairTrace.
Import ListNotations.
Open Scope N_scope.

(* ------------------------------------------------------------------------------------------------ *)
(* boolean comparisons *)

Lemma listN_eqb_eq : forall a b, listN_eqb a b = true -> a = b.
Proof.
  induction a as [|x a IH]; intros [|y b] H; cbn [listN_eqb] in H; try discriminate; [reflexivity|].
  apply andb_prop in H. destruct H as [H1 H2]. apply N.eqb_eq in H1. subst y. f_equal. apply IH, H2.
Qed.

Lemma optN_eqb_eq a b : optN_eqb a b = true -> a = b.
Proof.
  destruct a as [x|], b as [y|]; cbn [optN_eqb]; intro H; try discriminate; [|reflexivity].
  apply N.eqb_eq in H. subst y. reflexivity.
Qed.

Lemma all2_Forall2 {A B} (f : A -> B -> bool) : forall la lb,
  all2 f la lb = true -> Forall2 (fun a b => f a b = true) la lb.
Proof.
  induction la as [|a la IH]; intros [|b lb] H; cbn [all2] in H; try discriminate; [constructor|].
  apply andb_prop in H. destruct H as [H1 H2]. constructor; [exact H1 | apply IH, H2].
Qed.

Lemma existsb_eqb_in x l : existsb (N.eqb x) l = true -> In x l.
Proof.
  intro H. apply existsb_exists in H. destruct H as (y & Hy & E). apply N.eqb_eq in E. subst y. exact Hy.
Qed.

Lemma Forall2_in_r {A B} (R : A -> B -> Prop) : forall la lb,
  Forall2 R la lb -> forall b, In b lb -> exists a, In a la /\ R a b.
Proof.
  induction 1 as [|a b0 la lb H0 H IH]; intros b Hin; [contradiction|].
  destruct Hin as [E|Hin].
  - subst b0. exists a. split; [left; reflexivity | exact H0].
  - destruct (IH b Hin) as (a' & Ha & Hr). exists a'. split; [right; exact Ha | exact Hr].
Qed.

Lemma Forall2_in_l {A B} (R : A -> B -> Prop) : forall la lb,
  Forall2 R la lb -> forall a, In a la -> exists b, In b lb /\ R a b.
Proof.
  induction 1 as [|a0 b la lb H0 H IH]; intros a Hin; [contradiction|].
  destruct Hin as [E|Hin].
  - subst a0. exists b. split; [left; reflexivity | exact H0].
  - destruct (IH a Hin) as (b' & Hb & Hr). exists b'. split; [right; exact Hb | exact Hr].
Qed.

(* ------------------------------------------------------------------------------------------------ *)
(* what an effect says about the history variables *)

Definition eff_objs (f : effect) : list (point * value) :=
  match f with FHandler l => l | _ => [] end.
Definition eff_disc (f : effect) : list N :=
  match f with FUpdate _ d => d | FOverflow d => d | _ => [] end.
Definition eff_released (f : effect) : list N :=
  match f with FReleased d => d | _ => [] end.

(* the abstract object is what the handler got *)
Definition obj_rel (a : point * value) (o : point * list value) : Prop :=
  fst a = fst o /\ In (snd a) (snd o).

Lemma obj_ok_rel a o : obj_ok a o = true -> obj_rel a o.
Proof.
  unfold obj_ok, obj_rel. intro H. apply andb_prop in H. destruct H as [H1 H2].
  apply N.eqb_eq in H1. split; [exact H1 | apply existsb_eqb_in, H2].
Qed.

Lemma matches_objs f o : matches f o = true -> Forall2 obj_rel (eff_objs f) (obs_objs o).
Proof.
  destruct f, o; cbn [matches eff_objs obs_objs]; intro H; try discriminate; try constructor.
  apply all2_Forall2 in H. induction H as [|a b la lb H0 H IH]; constructor; [apply obj_ok_rel, H0 | exact IH].
Qed.

Lemma matches_disc f o : matches f o = true -> eff_disc f = obs_disc o.
Proof.
  destruct f, o; cbn [matches eff_disc obs_disc]; intro H; try discriminate; try reflexivity.
  - apply andb_prop in H. apply listN_eqb_eq, H.
  - apply listN_eqb_eq, H.
Qed.

Lemma matches_released f o : matches f o = true -> eff_released f = obs_released o.
Proof.
  destruct f, o; cbn [matches eff_released obs_released]; intro H; try discriminate; try reflexivity.
  apply listN_eqb_eq, H.
Qed.

Definition agrees (fs : list effect) (os : list obs) : Prop := Forall2 (fun f o => matches f o = true) fs os.

Lemma agrees_objs fs os : agrees fs os -> Forall2 obj_rel (flat_map eff_objs fs) (flat_map obs_objs os).
Proof.
  induction 1 as [|f o fs os H0 H IH]; cbn [flat_map]; [constructor|].
  apply Forall2_app; [apply matches_objs, H0 | exact IH].
Qed.

Lemma agrees_disc fs os : agrees fs os -> flat_map eff_disc fs = flat_map obs_disc os.
Proof.
  induction 1 as [|f o fs os H0 H IH]; cbn [flat_map]; [reflexivity|].
  rewrite (matches_disc f o H0), IH. reflexivity.
Qed.

Lemma agrees_released fs os : agrees fs os -> flat_map eff_released fs = flat_map obs_released os.
Proof.
  induction 1 as [|f o fs os H0 H IH]; cbn [flat_map]; [reflexivity|].
  rewrite (matches_released f o H0), IH. reflexivity.
Qed.

(* a label with its observation has an effect that matches the observation *)
Lemma agrees_combine : forall fs os, agrees fs os -> forall (ls : list label) l o,
  In (l, o) (combine ls os) -> exists f, In (l, f) (combine ls fs) /\ matches f o = true.
Proof.
  induction 1 as [|f0 o0 fs os H0 H IH]; intros ls l o Hin.
  - destruct ls; contradiction.
  - destruct ls as [|l0 ls]; [contradiction|]. cbn [combine] in Hin. destruct Hin as [E|Hin].
    + inversion E; subst. exists f0. split; [left; reflexivity | exact H0].
    + destruct (IH ls l o Hin) as (f & Hf & Hm). exists f. split; [right; exact Hf | exact Hm].
Qed.

(* ------------------------------------------------------------------------------------------------ *)
(* the history variables of a run are the effects of its labels *)

Section Effects.
Variable cap : nat.

Lemma received_step s l : received (step cap s l) = received s ++ eff_objs (effect_of cap s l).
Proof.
  destruct l as [p v ev | ps | | n | | | | ids | ids]; cbn [step effect_of eff_objs received];
    try (rewrite app_nil_r; reflexivity); try reflexivity.
  - destruct (sflight s); cbn [received]; [reflexivity | rewrite app_nil_r; reflexivity].
  - destruct (eacked s); cbn [received]; rewrite app_nil_r; reflexivity.
Qed.

Lemma received_effects : forall ls s,
  received (fold_left (step cap) ls s) = received s ++ flat_map eff_objs (effects cap s ls).
Proof.
  induction ls as [|l r IH]; intro s; cbn [fold_left effects flat_map]; [rewrite app_nil_r; reflexivity|].
  rewrite IH, received_step, app_assoc. reflexivity.
Qed.

Lemma discarded_step s l : discarded (step cap s l) = discarded s ++ eff_disc (effect_of cap s l).
Proof.
  destruct l as [p v ev | ps | | n | | | | ids | ids]; cbn [step effect_of eff_disc discarded];
    try (rewrite app_nil_r; reflexivity); try reflexivity.
  - destruct (sflight s); cbn [discarded]; rewrite app_nil_r; reflexivity.
  - destruct (eacked s); cbn [discarded]; rewrite app_nil_r; reflexivity.
Qed.

Lemma discarded_effects : forall ls s,
  discarded (fold_left (step cap) ls s) = discarded s ++ flat_map eff_disc (effects cap s ls).
Proof.
  induction ls as [|l r IH]; intro s; cbn [fold_left effects flat_map]; [rewrite app_nil_r; reflexivity|].
  rewrite IH, discarded_step, app_assoc. reflexivity.
Qed.

Lemma created_mono_step s l e : In e (created s) -> In e (created (step cap s l)).
Proof.
  intro H. destruct l as [p v ev | ps | | n | | | | ids | ids]; cbn [step created]; try exact H.
  - destruct ev; [apply in_or_app; left; exact H | exact H].
  - destruct (sflight s); exact H.
  - destruct (eacked s); exact H.
Qed.

Lemma created_mono : forall ls s e, In e (created s) -> In e (created (fold_left (step cap) ls s)).
Proof.
  induction ls as [|l r IH]; intros s e H; cbn [fold_left]; [exact H|]. apply IH, created_mono_step, H.
Qed.

Lemma delivered_mono_step s l e : In e (delivered s) -> In e (delivered (step cap s l)).
Proof.
  intro H. destruct l as [p v ev | ps | | n | | | | ids | ids]; cbn [step delivered]; try exact H.
  - destruct (sflight s); exact H.
  - apply in_or_app; left; exact H.
  - destruct (eacked s); exact H.
Qed.

Lemma delivered_mono : forall ls s e, In e (delivered s) -> In e (delivered (fold_left (step cap) ls s)).
Proof.
  induction ls as [|l r IH]; intros s e H; cbn [fold_left]; [exact H|]. apply IH, delivered_mono_step, H.
Qed.

(* a transaction that shows "created event i" created the event (i, p, v) *)
Lemma created_effects : forall ls s p v i d,
  In (Update p v true, FUpdate (Some i) d) (combine ls (effects cap s ls)) ->
  In (mkEvent i p v) (created (fold_left (step cap) ls s)).
Proof.
  induction ls as [|l r IH]; intros s p v i d H; [contradiction|].
  cbn [effects combine] in H. cbn [fold_left]. destruct H as [E|H].
  - inversion E as [[El Ef]]. subst l. cbn [effect_of] in Ef. inversion Ef as [[Ei Ed]].
    apply created_mono. cbn [step created]. apply in_or_app. right. left. reflexivity.
  - eapply IH; exact H.
Qed.

(* an event a confirm releases was delivered *)
Lemma released_effects : forall ls s, inv2 s -> forall i,
  In i (flat_map eff_released (effects cap s ls)) ->
  exists e, e_id e = i /\ In e (delivered (fold_left (step cap) ls s)).
Proof.
  induction ls as [|l r IH]; intros s I i H; [contradiction|].
  cbn [effects flat_map] in H. cbn [fold_left]. apply in_app_or in H. destruct H as [H|H].
  - destruct l as [p v ev | ps | | n | | | | ids | ids]; cbn [effect_of eff_released] in H; try contradiction.
    apply in_map_iff in H. destruct H as (e & Ee & He). unfold released in He.
    destruct (eacked s) eqn:Ea; [|contradiction].
    apply filter_In in He. destruct He as [_ Hx]. apply existsb_exists in Hx. destruct Hx as (y & Hy & Eq).
    apply event_eqb_eq in Eq. subst y. destruct I as (_ & Ia & _).
    exists e. split; [exact Ee|]. apply delivered_mono, delivered_mono_step. apply Ia; [exact Ea | exact Hy].
  - apply IH; [apply inv2_step, I | exact H].
Qed.

(* no transaction, no new event *)
Lemma empty_queue_step s l : queue s = [] -> is_update l = false -> queue (step cap s l) = [].
Proof.
  intros Q U. destruct l as [p v ev | ps | | n | | | | ids | ids]; cbn [step queue]; try exact Q; try discriminate.
  - destruct (sflight s); exact Q.
  - destruct (eacked s); cbn [queue]; [rewrite Q; reflexivity | exact Q].
  - rewrite Q. reflexivity.
Qed.

Lemma empty_queue_steps : forall ls s,
  queue s = [] -> forallb (fun x => negb (is_update x)) ls = true -> queue (fold_left (step cap) ls s) = [].
Proof.
  induction ls as [|l r IH]; intros s Q U; cbn [fold_left]; [exact Q|].
  cbn [forallb] in U. apply andb_prop in U. destruct U as [U1 U2].
  apply IH; [|exact U2]. apply empty_queue_step; [exact Q|]. destruct (is_update l); [discriminate | reflexivity].
Qed.

(* a response with room for an event that came back empty, and no transaction after it: the queue is
   empty at the end *)
Lemma drained_effects : forall ls s os,
  agrees (effects cap s ls) os -> drained_after ls os = true -> queue (fold_left (step cap) ls s) = [].
Proof.
  induction ls as [|l r IH]; intros s os A D; [discriminate|].
  destruct os as [|o ro]; [destruct l; discriminate|].
  cbn [effects] in A. inversion A as [|f o' fs os' M A' Ef Eo]. subst. cbn [fold_left].
  assert (G : drained_after r ro = true -> queue (fold_left (step cap) r (step cap s l)) = [])
    by (intro D'; eapply IH; eassumption).
  destruct l as [p v ev | ps | | n | | | | ids | ids]; cbn [drained_after] in D; try (apply G; exact D).
  destruct n as [|k]; [apply G; exact D|].
  destruct o as [c d | d | | m | objs | d]; try (apply G; exact D).
  destruct m as [|m]; [|apply G; exact D].
  apply orb_prop in D. destruct D as [D|D]; [|apply G; exact D].
  apply empty_queue_steps; [|exact D]. cbn [step queue].
  cbn [effect_of matches] in M. apply Nat.eqb_eq in M.
  destruct (queue s) as [|e q]; [reflexivity | discriminate].
Qed.

End Effects.

(* ------------------------------------------------------------------------------------------------ *)
(* the quiescent shape *)

Lemma delivered_then_quiet_split : forall r, delivered_then_quiet r = true ->
  exists ls2 ls3, r = ls2 ++ DeliverSnapshot :: ls3 /\ forallb keeps_snapshot ls2 = true /\ forallb quiet ls3 = true.
Proof.
  induction r as [|l r IH]; intro H; [discriminate|].
  assert (G : keeps_snapshot l = true -> delivered_then_quiet r = true ->
              exists ls2 ls3, l :: r = ls2 ++ DeliverSnapshot :: ls3 /\ forallb keeps_snapshot ls2 = true /\ forallb quiet ls3 = true).
  { intros K D. destruct (IH D) as (ls2 & ls3 & E & K2 & Q3). exists (l :: ls2), ls3.
    split; [rewrite E; reflexivity|]. split; [cbn [forallb]; rewrite K, K2; reflexivity | exact Q3]. }
  destruct l as [p v ev | ps | | n | | | | ids | ids]; cbn [delivered_then_quiet keeps_snapshot andb] in H; try discriminate;
    try (apply G; [reflexivity | exact H]).
  exists [], r. split; [reflexivity|]. split; [reflexivity | exact H].
Qed.

Lemma settled_points_split : forall ls p, In p (settled_points ls) ->
  exists ls1 ps ls2 ls3, ls = ls1 ++ TakeSnapshot ps :: ls2 ++ DeliverSnapshot :: ls3 /\
    forallb keeps_snapshot ls2 = true /\ forallb quiet ls3 = true /\ In p ps.
Proof.
  induction ls as [|l r IH]; intros p H; [contradiction|].
  assert (G : In p (settled_points r) ->
              exists ls1 ps ls2 ls3, l :: r = ls1 ++ TakeSnapshot ps :: ls2 ++ DeliverSnapshot :: ls3 /\
                forallb keeps_snapshot ls2 = true /\ forallb quiet ls3 = true /\ In p ps).
  { intro H'. destruct (IH p H') as (ls1 & ps & ls2 & ls3 & E & K & Q & Hp).
    exists (l :: ls1), ps, ls2, ls3. split; [rewrite E; reflexivity|]. repeat split; assumption. }
  destruct l as [q v ev | ps | | n | | | | ids | ids]; cbn [settled_points] in H; try (apply G; exact H).
  apply in_app_or in H. destruct H as [H|H]; [|apply G; exact H].
  destruct (delivered_then_quiet r) eqn:D; [|contradiction].
  destruct (delivered_then_quiet_split r D) as (ls2 & ls3 & E & K & Q).
  exists [], ps, ls2, ls3. split; [rewrite E; reflexivity|]. repeat split; assumption.
Qed.

Theorem settled_converged : forall cap iv ls p,
  In p (settled_points ls) -> view (run cap iv ls) p = Some (db (run cap iv ls) p).
Proof.
  intros cap iv ls p H. destruct (settled_points_split ls p H) as (ls1 & ps & ls2 & ls3 & E & K & Q & Hp).
  subst ls. exact (converged_after_quiescence cap iv ls1 ps ls2 ls3 K Q p Hp).
Qed.

(* ------------------------------------------------------------------------------------------------ *)
(* what "explains" gives *)

Section Explained.
Variable cap : nat.
Variable iv : point -> value.
Variable ls : list label.
Variable os : list obs.
Variable fin : final_obs.
Hypothesis X : explain cap iv ls os fin = true.

Lemma explain_agrees : agrees (trace_of cap iv ls) os.
Proof. unfold explain in X. apply andb_prop in X. apply all2_Forall2, X. Qed.

Lemma explain_final : final_ok (run cap iv ls) fin = true.
Proof. unfold explain in X. apply andb_prop in X. apply X. Qed.

(* the objects the real handler received are, one for one and in order, `received` of the abstract run *)
Theorem explained_received :
  Forall2 obj_rel (received (run cap iv ls)) (flat_map obs_objs os).
Proof.
  unfold run. rewrite received_effects. cbn [init received app]. apply agrees_objs, explain_agrees.
Qed.

(* the ids the real trace reported as discarded are `discarded` of the abstract run *)
Theorem explained_discarded : discarded (run cap iv ls) = flat_map obs_disc os.
Proof.
  unfold run. rewrite discarded_effects. cbn [init discarded app]. apply agrees_disc, explain_agrees.
Qed.

(* nothing fabricated: every object the real handler received carries a value its point had after some
   prefix of the explaining run *)
Theorem explained_nothing_fabricated : forall p adm,
  In (p, adm) (flat_map obs_objs os) ->
  exists v, In v adm /\ exists ls1 ls2, ls = ls1 ++ ls2 /\ db (run cap iv ls1) p = v.
Proof.
  intros p adm H. destruct (Forall2_in_r _ _ _ explained_received _ H) as ([q v] & Hin & Eq & Hv).
  cbn [fst snd] in Eq, Hv. subst q. exists v. split; [exact Hv|].
  exact (nothing_fabricated cap iv ls p v Hin).
Qed.

(* a transaction that reported "created event i" *)
Lemma explained_created : forall p v i d,
  In (Update p v true, OUpdate (Some i) d) (combine ls os) -> In (mkEvent i p v) (created (run cap iv ls)).
Proof.
  intros p v i d H. destruct (agrees_combine _ _ explain_agrees ls _ _ H) as (f & Hf & M).
  destruct f as [c d0 | | | | |]; cbn [matches] in M; try discriminate.
  apply andb_prop in M. destruct M as [M _]. apply optN_eqb_eq in M. subst c.
  unfold run. eapply created_effects. exact Hf.
Qed.

(* events: when some response with room for an event came back empty and no transaction followed, every
   event a transaction reported as created and no transaction reported as discarded reached the real
   handler, with its point and value *)
Theorem explained_events_reach_handler :
  drained_after ls os = true ->
  forall p v i d, In (Update p v true, OUpdate (Some i) d) (combine ls os) ->
  ~ In i (flat_map obs_disc os) ->
  exists adm, In (p, adm) (flat_map obs_objs os) /\ In v adm.
Proof.
  intros D p v i d H ND.
  assert (Q : queue (run cap iv ls) = []) by (unfold run; eapply drained_effects; [apply explain_agrees | exact D]).
  pose proof (explained_created p v i d H) as C.
  rewrite <- explained_discarded in ND.
  destruct (drained_queue_all_delivered cap iv ls Q (mkEvent i p v) C ND) as [_ R].
  cbn [e_pt e_val] in R.
  destruct (Forall2_in_l _ _ _ explained_received _ R) as ([q adm] & Hin & Eq & Hv).
  cbn [fst snd] in Eq, Hv. subst q. exists adm. split; assumption.
Qed.

(* a released event had reached the real handler *)
Theorem explained_released_were_delivered : forall i,
  In i (flat_map obs_released os) ->
  exists e, e_id e = i /\ In e (delivered (run cap iv ls)) /\
    exists adm, In (e_pt e, adm) (flat_map obs_objs os) /\ In (e_val e) adm.
Proof.
  intros i H. rewrite <- (agrees_released _ _ explain_agrees) in H.
  assert (I0 : inv2 (init iv)) by exact (inv2_all cap iv []).
  destruct (released_effects cap ls (init iv) I0 i H) as (e & Ee & He).
  exists e. split; [exact Ee|]. split; [exact He|].
  destruct (inv2_all cap iv ls) as (_ & _ & Dr). pose proof (Dr e He) as R. unfold ev_pair in R.
  destruct (Forall2_in_l _ _ _ explained_received _ R) as ([q adm] & Hin & Eq & Hv).
  cbn [fst snd] in Eq, Hv. subst q. exists adm. split; assumption.
Qed.

(* convergence: for a point the explaining run is quiescent for, what Database::get returned and what
   the handler received last are images of ONE value, the database's *)
Theorem explained_converged : forall p adb aseen,
  In (p, (adb, aseen)) fin -> In p (settled_points ls) ->
  exists v, In v adb /\ In v aseen /\ db (run cap iv ls) p = v /\ view (run cap iv ls) p = Some v.
Proof.
  intros p adb aseen Hin Hs. pose proof explain_final as F. unfold final_ok in F.
  rewrite forallb_forall in F. specialize (F _ Hin). cbn [fst snd] in F.
  apply andb_prop in F. destruct F as [F1 F2].
  pose proof (settled_converged cap iv ls p Hs) as C. rewrite C in F2.
  exists (db (run cap iv ls) p). repeat split; [apply existsb_eqb_in, F1 | apply existsb_eqb_in, F2 | exact C].
Qed.

End Explained.
