(* Master/Command.v — command requests and the comparison of the outstation's echo.

   Mirrors (dnp3/src/master): request.rs `CommandHeader::write` / `CommandHeaders::write`
   (prefixed headers, qualifier 0x17 for 8-bit and 0x28 for 16-bit indices, one header per
   `CommandHeader`), `CommandHeaders::compare`, `CommandHeader::compare`, `compare_items`;
   app/parse/prefix.rs `Prefix::equals`; tasks/command.rs `CommandTask::handle` (MTask.v uses
   [compare] for SELECT, OPERATE and DIRECT_OPERATE alike).

   Objects are the WIRE bytes of g12v1 (11), g41v1 (5), g41v2 (3), g41v3 (5), g41v4 (9); the last
   octet is the status.  The code compares decoded structures with derived `PartialEq`:
   for g12v1/g41v1/g41v2 every field is an integer or an enum with a catch-all variant, decoded
   injectively from the octets, so structure equality = octet equality; for g41v3/g41v4 the value
   is an f32/f64 compared with IEEE `==` ([f_eq]: NaN differs from everything, +0 = -0) and the
   status octet is compared as an integer.

   ABSTRACTED: the echo is parsed here only as far as the comparison looks: a header that is not
   one of the ten command header types ends the comparison with HeaderTypeMismatch before its
   body is read, so no other variation's layout is needed.  Whether the object section as a whole
   is well-formed is the verdict carried by the event (MParse.v). *)
From Dnp3V Require Import Base.Bytes Master.MParse.

Module MCmd.
Import MP.

(* a prefixed header as the master writes it (commands, dead-bands) *)
Record pheader := mk_ph {
  ph_group : N; ph_var : N; ph_wide : bool;
  ph_items : list (N * list byte) (* index, object octets *)
}.

Definition enc_num (wide : bool) (x : N) : list byte :=
  if wide then [lo8 x; hi8 x] else [lo8 x].

Definition enc_item (wide : bool) (it : N * list byte) : list byte :=
  enc_num wide (fst it) ++ snd it.

Definition encode_ph (h : pheader) : list byte :=
  [ph_group h; ph_var h; if ph_wide h then 40 else 23]
  ++ enc_num (ph_wide h) (N.of_nat (length (ph_items h)))
  ++ flat_map (enc_item (ph_wide h)) (ph_items h).

Definition encode_phs (hs : list pheader) : list byte := flat_map encode_ph hs.

(* size of a command object; None = not a command variation *)
Definition cmd_size (g v : N) : option nat :=
  if g =? 12 then (if v =? 1 then Some 11%nat else None)
  else if g =? 41 then
    (if v =? 1 then Some 5%nat else if v =? 2 then Some 3%nat
     else if v =? 3 then Some 5%nat else if v =? 4 then Some 9%nat else None)
  else None.

Inductive cerr := CHeaderCount | CHeaderType | CObjectCount | CObjectValue | CBadStatus (s : N).
Inductive cres := COk | CErr (e : cerr).

Fixpoint le_n (l : list byte) : N :=
  match l with [] => 0 | b :: r => b + 256 * le_n r end.

(* IEEE-754 equality on bit patterns; ebits/mbits = width of exponent / mantissa *)
Definition f_is_nan (ebits mbits x : N) : bool :=
  let e := N.land (N.shiftr x mbits) (2 ^ ebits - 1) in
  let m := N.land x (2 ^ mbits - 1) in
  (e =? 2 ^ ebits - 1) && negb (m =? 0).
Definition f_is_zero (ebits mbits x : N) : bool := N.land x (2 ^ (ebits + mbits) - 1) =? 0.
Definition f_eq (ebits mbits a b : N) : bool :=
  negb (f_is_nan ebits mbits a) && negb (f_is_nan ebits mbits b)
  && ((a =? b) || (f_is_zero ebits mbits a && f_is_zero ebits mbits b)).

Definition list_eqb (a b : list N) : bool :=
  (length a =? length b)%nat && forallb (fun p => fst p =? snd p) (combine a b).

Definition status_of (o : list byte) : N := last o 0.

(* `x.value == item.0` on decoded objects, expressed on the octets *)
Definition value_eq (g v : N) (a b : list byte) : bool :=
  if (g =? 41) && (v =? 3) then
    f_eq 8 23 (le_n (firstn 4 a)) (le_n (firstn 4 b)) && (status_of a =? status_of b)
  else if (g =? 41) && (v =? 4) then
    f_eq 11 52 (le_n (firstn 8 a)) (le_n (firstn 8 b)) && (status_of a =? status_of b)
  else list_eqb a b.

(* request.rs compare_items: status first, then index and value *)
Fixpoint compare_items (g v : N) (recv sent : list (N * list byte)) : cres :=
  match sent with
  | [] => match recv with [] => COk | _ => CErr CObjectCount end
  | s :: sent' =>
    match recv with
    | [] => CErr CObjectCount
    | r :: recv' =>
      if negb (status_of (snd r) =? 0) then CErr (CBadStatus (status_of (snd r)))
      else if (fst r =? fst s) && value_eq g v (snd r) (snd s) then compare_items g v recv' sent'
      else CErr CObjectValue
    end
  end.

(* reading the received header *)
Definition take_num (wide : bool) (l : list byte) : option (N * list byte) :=
  if wide then match l with a :: b :: r => Some (le16 a b, r) | _ => None end
  else match l with a :: r => Some (a, r) | _ => None end.

Fixpoint take_items (n : nat) (wide : bool) (size : nat) (l : list byte)
  : option (list (N * list byte) * list byte) :=
  match n with
  | O => Some ([], l)
  | S n' =>
    match take_num wide l with
    | None => None
    | Some (i, r) =>
      if (length r <? size)%nat then None else
      match take_items n' wide size (skipn size r) with
      | None => None
      | Some (its, rest) => Some ((i, firstn size r) :: its, rest)
      end
    end
  end.

(* one received object header, if it is a command header: the header and the remaining octets *)
Definition parse_cmd_header (l : list byte) : option (pheader * list byte) :=
  match l with
  | g :: v :: q :: r =>
    match cmd_size g v with
    | None => None
    | Some size =>
      if (q =? 23) || (q =? 40) then
        let wide := q =? 40 in
        match take_num wide r with
        | None => None
        | Some (count, r') =>
          match take_items (N.to_nat count) wide size r' with
          | None => None
          | Some (its, rest) => Some (mk_ph g v wide its, rest)
          end
        end
      else None
    end
  | _ => None
  end.

(* request.rs CommandHeaders::compare over the received object octets *)
Fixpoint compare (sent : list pheader) (objs : list byte) : cres :=
  match sent with
  | [] => match objs with [] => COk | _ => CErr CHeaderCount end
  | s :: sent' =>
    match objs with
    | [] => CErr CHeaderCount
    | _ =>
      match parse_cmd_header objs with
      | None => CErr CHeaderType
      | Some (r, rest) =>
        if (ph_group r =? ph_group s) && (ph_var r =? ph_var s) && Bool.eqb (ph_wide r) (ph_wide s) then
          match compare_items (ph_group s) (ph_var s) (ph_items r) (ph_items s) with
          | COk => compare sent' rest
          | e => e
          end
        else CErr CHeaderType
      end
    end
  end.

(* what "the reply echoed every requested object with identical contents and status SUCCESS"
   means, stated independently of the walk above *)
Definition item_faithful (g v : N) (r s : N * list byte) : Prop :=
  fst r = fst s /\ status_of (snd r) = 0 /\ value_eq g v (snd r) (snd s) = true.

Definition header_faithful (r s : pheader) : Prop :=
  ph_group r = ph_group s /\ ph_var r = ph_var s /\ ph_wide r = ph_wide s /\
  Forall2 (item_faithful (ph_group s) (ph_var s)) (ph_items r) (ph_items s).

(* the received octets split into exactly the headers [rs] *)
Fixpoint parses_as (objs : list byte) (rs : list pheader) : Prop :=
  match rs with
  | [] => objs = []
  | r :: rs' => exists rest, parse_cmd_header objs = Some (r, rest) /\ parses_as rest rs'
  end.

Definition faithful_echo (sent : list pheader) (objs : list byte) : Prop :=
  exists rs, parses_as objs rs /\ Forall2 header_faithful rs sent.

End MCmd.
