(* Master/TimeSync.v — model of time synchronisation (property C18).  Definitions only.

   Mirrors  dnp3/src/master/tasks/time.rs            (TimeSyncTask: start and the handle_ functions),
            dnp3/src/master/task.rs                  (run_single_non_read_task, validate_non_read_response,
                                                      handle_unsolicited),
            dnp3/src/outstation/session.rs           (handle_record_current_time, handle_delay_measure,
                                                      handle_write_abs_time, handle_write_at_last_recorded_time,
                                                      duplicate-request detection of `classify`),
            dnp3/src/app/types.rs                    (Timestamp::checked_add),
   and the channel of the `tsync` engine (/verif/harness/tsync.rs).

   Time: virtual instants and durations are whole milliseconds in Z (the engine only ever sleeps
   whole milliseconds and never settles with a tick, so nothing sub-millisecond exists except the
   half millisecond produced by `Duration / 2`, which `as_millis` floors: Z division).
   Timestamp = ms since epoch, 0 .. 2^48-1.  Master clock: clk(t) = c0 + t. *)
From Coq Require Import ZArith NArith List Bool Lia.
From Dnp3V Require Import Base.Bytes.
Import ListNotations.
Open Scope Z_scope.

(* ------------------------------------------------------------------------------------------ *)
(* arithmetic blocks                                                                           *)

Definition ts_max : Z := 281474976710655.  (* Timestamp::MAX_VALUE = 2^48 - 1 *)

(* Timestamp::checked_add(self, x: Duration): millis = x.as_millis(); None if millis > MAX - self *)
Definition checked_add (v d : Z) : option Z :=
  if d >? ts_max - v then None else Some (v + d).

(* AssociationHandler::get_current_time of the engine: c0 + elapsed, None when switched off or when
   the clock no longer fits 48 bits *)
Definition clock (on : bool) (c0 t : Z) : option Z :=
  if on then (if c0 + t <=? ts_max then Some (c0 + t) else None) else None.

Inductive procedure := PLan | PNonLan | PDirect.

(* enum State of time.rs; the Option payloads are filled by `start`, which always runs first *)
Inductive tstate :=
| SMeasure (start : Z)       (* MeasureDelay(Some(Instant)) : instant of `start` *)
| SWriteAbs (ts : Z)         (* WriteAbsoluteTime(Some(ts)) *)
| SRecord (ts : Z)           (* RecordCurrentTime(Some(ts)) : master clock sampled in `start` *)
| SWriteLast (ts : Z).       (* WriteLastRecordedTime(ts) *)

Inductive terr :=
| ETimeout | EIin2 | EHeaders | EMultiFrag | EDelay (d : Z) | EOverflow | ENeedTime | ENoSysTime.

(* TimeSyncTask::start: None = SystemTimeNotAvailable *)
Definition m_start (p : procedure) (clk : option Z) (now : Z) : option tstate :=
  match clk with
  | None => None
  | Some c => Some (match p with
                    | PLan => SRecord c
                    | PNonLan => SMeasure now
                    | PDirect => SWriteAbs c
                    end)
  end.

(* what the task asks for *)
Inductive req := RDelay | RRecord | RWriteAbs (ts : Z) | RWriteLast (ts : Z).

Definition req_of (s : tstate) : req :=
  match s with
  | SMeasure _ => RDelay
  | SWriteAbs ts => RWriteAbs ts
  | SRecord _ => RRecord
  | SWriteLast ts => RWriteLast ts
  end.

(* the object part of a response as the task sees it: nothing / exactly one g52v2 with count one /
   anything else (several headers, other variations, unparsable bytes) *)
Inductive robjs := ONone | ODelay (d : Z) | OOther.

Inductive step := Next (s : tstate) | Done | Fail (e : terr).

(* TimeSyncTask::handle, after validate_non_read_response accepted the fragment.
   `need` = IIN1.4 NEED_TIME of the response, `clk` = get_system_time() at this instant *)
Definition m_handle (s : tstate) (clk : option Z) (now : Z) (need : bool) (o : robjs) : step :=
  match s with
  | SMeasure start =>
      let interval := now - start in
      match o with
      | ODelay d =>
          if interval <? d then Fail (EDelay d)          (* interval.checked_sub(delay) = None *)
          else match clk with
               | None => Fail ENoSysTime
               | Some c =>
                   match checked_add c ((interval - d) / 2) with   (* (x / 2).as_millis() *)
                   | None => Fail EOverflow
                   | Some ts => Next (SWriteAbs ts)
                   end
               end
      | _ => Fail EHeaders
      end
  | SRecord ts =>
      match o with ONone => Next (SWriteLast ts) | _ => Fail EHeaders end
  | SWriteAbs _ | SWriteLast _ =>
      match o with
      | ONone => if need then Fail ENeedTime else Done
      | _ => Fail EHeaders
      end
  end.

(* ---- outstation ---- *)
Inductive need_mode := NAuto | NStuck | NClear.   (* scripted OutstationApplication *)

Record otime := { o_rec : option Z;     (* SessionState::last_recorded_time *)
                  o_need : bool }.      (* ApplicationIin::need_time *)

Definition after_write (m : need_mode) (need : bool) : bool :=
  match m with NAuto => false | NStuck => need | NClear => need end.

Record oresult := { or_st : otime; or_iin2 : Z; or_delay : option Z; or_written : option Z }.

(* handle_delay_measure / handle_record_current_time / handle_write_abs_time /
   handle_write_at_last_recorded_time; iin2 = 4 is PARAMETER_ERROR *)
Definition o_handle (m : need_mode) (reported : Z) (st : otime) (now : Z) (r : req) : oresult :=
  match r with
  | RDelay => {| or_st := st; or_iin2 := 0; or_delay := Some reported; or_written := None |}
  | RRecord => {| or_st := {| o_rec := Some now; o_need := o_need st |};
                  or_iin2 := 0; or_delay := None; or_written := None |}
  | RWriteAbs ts => {| or_st := {| o_rec := o_rec st; o_need := after_write m (o_need st) |};
                       or_iin2 := 0; or_delay := None; or_written := Some ts |}
  | RWriteLast ts =>
      match o_rec st with
      | None => {| or_st := st; or_iin2 := 4; or_delay := None; or_written := None |}
      | Some r0 =>
          match checked_add ts (now - r0) with
          | None => {| or_st := st; or_iin2 := 4; or_delay := None; or_written := None |}
          | Some v => {| or_st := {| o_rec := None; o_need := after_write m (o_need st) |};
                         or_iin2 := 0; or_delay := None; or_written := Some v |}
          end
      end
  end.

Definition objs_of (d : option Z) : robjs := match d with None => ONone | Some x => ODelay x end.

(* ------------------------------------------------------------------------------------------ *)
(* one synchronisation over an undisturbed channel, composed from the blocks above             *)

Record sched := {
  sc_c0 : Z;          (* master clock at instant 0 *)
  sc_on : bool;       (* master clock available *)
  sc_t0 : Z;          (* instant the task starts *)
  sc_f1 : Z;          (* forward delay of the first request *)
  sc_b1 : Z;          (* instant the first response reaches the master minus the instant the
                         request reached the outstation (actual processing + backward delay) *)
  sc_f2 : Z;          (* the same for the second exchange (the WRITE) *)
  sc_b2 : Z;
  sc_tmo : Z;         (* response timeout *)
  sc_rep : Z;         (* processing delay reported in g52v2 *)
  sc_mode : need_mode;
  sc_need0 : bool;    (* NEED_TIME before the procedure *)
  sc_rec0 : option Z  (* a RECORD_CURRENT_TIME instant left over from earlier traffic *)
}.

Inductive outcome :=
| Success (written : Z) (t_written : Z)     (* reported successful; the application was handed
                                               `written` at instant `t_written` *)
| Failure (e : terr).

Definition finish (w : option Z) (t : Z) : outcome :=
  match w with Some v => Success v t | None => Failure EHeaders end.

Definition plain_sync (p : procedure) (P : sched) : outcome :=
  let c0 := sc_c0 P in let on := sc_on P in let t0 := sc_t0 P in
  match m_start p (clock on c0 t0) t0 with
  | None => Failure ENoSysTime
  | Some s1 =>
      let ta1 := t0 + sc_f1 P in
      let r1 := o_handle (sc_mode P) (sc_rep P) {| o_rec := sc_rec0 P; o_need := sc_need0 P |} ta1 (req_of s1) in
      let tr1 := ta1 + sc_b1 P in
      if t0 + sc_tmo P <=? tr1 then Failure ETimeout
      else if negb (or_iin2 r1 =? 0) then Failure EIin2
      else match m_handle s1 (clock on c0 tr1) tr1 (o_need (or_st r1)) (objs_of (or_delay r1)) with
           | Fail e => Failure e
           | Done => finish (or_written r1) ta1
           | Next s2 =>
               let ta2 := tr1 + sc_f2 P in
               let r2 := o_handle (sc_mode P) (sc_rep P) (or_st r1) ta2 (req_of s2) in
               let tr2 := ta2 + sc_b2 P in
               if tr1 + sc_tmo P <=? tr2 then Failure ETimeout
               else if negb (or_iin2 r2 =? 0) then Failure EIin2
               else match m_handle s2 (clock on c0 tr2) tr2 (o_need (or_st r2)) (objs_of (or_delay r2)) with
                    | Done => finish (or_written r2) ta2
                    | Fail e => Failure e
                    | Next _ => Failure EHeaders
                    end
           end
  end.

(* ------------------------------------------------------------------------------------------ *)
(* bytes                                                                                       *)

Definition byte_at (v : Z) (i : Z) : N := Z.to_N ((v / 256 ^ i) mod 256).
Definition le48 (v : Z) : list N := map (byte_at v) [0; 1; 2; 3; 4; 5].
Definition de48 (b0 b1 b2 b3 b4 b5 : N) : Z :=
  Z.of_N b0 + 256 * (Z.of_N b1 + 256 * (Z.of_N b2 + 256 * (Z.of_N b3 + 256 * (Z.of_N b4 + 256 * Z.of_N b5)))).

(* request as the master formats it: control FIR|FIN|seq, function, objects *)
Definition enc_req (seq : N) (r : req) : list N :=
  let c := (192 + seq)%N in
  match r with
  | RDelay => [c; 23%N]
  | RRecord => [c; 24%N]
  | RWriteAbs ts => [c; 2; 50; 1; 7; 1]%N ++ le48 ts
  | RWriteLast ts => [c; 2; 50; 3; 7; 1]%N ++ le48 ts
  end.

Inductive oreq := QConfirm | QReq (r : req) | QUnsupported.

(* what the outstation makes of a fragment (only the shapes the master task produces, CONFIRM, and
   everything else = unsupported by this model) *)
Definition parse_req (l : list N) : oreq :=
  match l with
  | [_; 0%N] => QConfirm
  | [_; 23%N] => QReq RDelay
  | [_; 24%N] => QReq RRecord
  | [_; 2%N; 50%N; 1%N; 7%N; 1%N; b0; b1; b2; b3; b4; b5] => QReq (RWriteAbs (de48 b0 b1 b2 b3 b4 b5))
  | [_; 2%N; 50%N; 3%N; 7%N; 1%N; b0; b1; b2; b3; b4; b5] => QReq (RWriteLast (de48 b0 b1 b2 b3 b4 b5))
  | _ => QUnsupported
  end.

Definition delay_objs (d : Z) : list N :=
  [52; 2; 7; 1; Z.to_N (d mod 256); Z.to_N ((d / 256) mod 256)]%N.

Definition enc_resp (seq iin1 iin2 : N) (objs : list N) : list N :=
  [(192 + seq)%N; 129%N; iin1; iin2] ++ objs.

(* raw_objects of a response as the time task classifies them: get_only_object_header +
   CountVariation::Group52Var2 + single() accept exactly one g52v2 header with count 1 (one byte or
   two byte count qualifier) *)
Definition classify_objs (l : list N) : robjs :=
  match l with
  | [] => ONone
  | [52%N; 2%N; 7%N; 1%N; lo; hi] => ODelay (Z.of_N lo + 256 * Z.of_N hi)
  | [52%N; 2%N; 8%N; 1%N; 0%N; lo; hi] => ODelay (Z.of_N lo + 256 * Z.of_N hi)
  | _ => OOther
  end.

(* ------------------------------------------------------------------------------------------ *)
(* the whole engine: master task, outstation task, channel                                     *)

Inductive tobs :=
| OM2O (t_send : Z) (t_arrive : option Z) (data : list N)     (* None = dropped *)
| OO2M (t_send : Z) (t_arrive : option Z) (data : list N)
| OInj (t : Z) (data : list N)
| OWritten (t ts : Z)
| ORes (token : N) (r : option terr)                           (* None = ok *)
| OClock (t : Z) (c : option Z)
| OAmbiguous          (* two stimuli for one task at the same instant: the implementation's choice
                         is not determined (select! picks at random); scripts avoid it *)
| OUnsupported        (* a fragment this model does not describe *)
| OStall.

Inductive tamper := TObjs (l : list N) | TIin (a b : N) | TCtl (x : N).

Record msg := { mg_arrive : Z; mg_to_master : bool; mg_data : list N }.

Record chan := {
  ch_fwd : Z; ch_back : Z; ch_hold : Z;
  ch_drop_fwd : N; ch_drop_back : N;
  ch_dup_fwd : option Z; ch_dup_back : option Z;
  ch_tamper : list tamper;
  ch_queue : list msg          (* in order of sending *)
}.

Record mtask := { mt_token : N; mt_state : tstate; mt_seq : N; mt_deadline : Z }.

Record mst := { m_seq : N; m_cur : option mtask; m_q : list N }.

Record olast := { ol_req : list N; ol_seq : N; ol_iin1 : N; ol_iin2 : N; ol_objs : list N }.

Record ost := { os_time : otime; os_last : option olast }.

Record tcfg := { tc_c0 : Z; tc_proc : procedure; tc_tmo : Z; tc_mode : need_mode }.

Record sim := {
  s_now : Z; s_on : bool; s_rep : Z;
  s_pend : list N;             (* `sync` requests not yet handed to the master (next `run`) *)
  s_m : mst; s_o : ost; s_c : chan
}.

Definition set_chan (s : sim) (c : chan) : sim :=
  {| s_now := s_now s; s_on := s_on s; s_rep := s_rep s; s_pend := s_pend s; s_m := s_m s; s_o := s_o s; s_c := c |}.
Definition set_m (s : sim) (m : mst) : sim :=
  {| s_now := s_now s; s_on := s_on s; s_rep := s_rep s; s_pend := s_pend s; s_m := m; s_o := s_o s; s_c := s_c s |}.
Definition set_o (s : sim) (o : ost) : sim :=
  {| s_now := s_now s; s_on := s_on s; s_rep := s_rep s; s_pend := s_pend s; s_m := s_m s; s_o := o; s_c := s_c s |}.
Definition set_now (s : sim) (t : Z) : sim :=
  {| s_now := t; s_on := s_on s; s_rep := s_rep s; s_pend := s_pend s; s_m := s_m s; s_o := s_o s; s_c := s_c s |}.
Definition set_pend (s : sim) (p : list N) : sim :=
  {| s_now := s_now s; s_on := s_on s; s_rep := s_rep s; s_pend := p; s_m := s_m s; s_o := s_o s; s_c := s_c s |}.

Definition enqueue (c : chan) (ms : list msg) : chan :=
  {| ch_fwd := ch_fwd c; ch_back := ch_back c; ch_hold := ch_hold c;
     ch_drop_fwd := ch_drop_fwd c; ch_drop_back := ch_drop_back c;
     ch_dup_fwd := ch_dup_fwd c; ch_dup_back := ch_dup_back c;
     ch_tamper := ch_tamper c; ch_queue := ch_queue c ++ ms |}.

(* Channel::master_wrote *)
Definition master_wrote (s : sim) (data : list N) : sim * list tobs :=
  let c := s_c s in let t := s_now s in
  if (0 <? ch_drop_fwd c)%N then
    (set_chan s {| ch_fwd := ch_fwd c; ch_back := ch_back c; ch_hold := ch_hold c;
                   ch_drop_fwd := (ch_drop_fwd c - 1)%N; ch_drop_back := ch_drop_back c;
                   ch_dup_fwd := ch_dup_fwd c; ch_dup_back := ch_dup_back c;
                   ch_tamper := ch_tamper c; ch_queue := ch_queue c |},
     [OM2O t None data])
  else
    let a := t + ch_fwd c in
    let first := {| mg_arrive := a; mg_to_master := false; mg_data := data |} in
    match ch_dup_fwd c with
    | None => (set_chan s (enqueue c [first]), [OM2O t (Some a) data])
    | Some extra =>
        let c' := {| ch_fwd := ch_fwd c; ch_back := ch_back c; ch_hold := ch_hold c;
                     ch_drop_fwd := ch_drop_fwd c; ch_drop_back := ch_drop_back c;
                     ch_dup_fwd := None; ch_dup_back := ch_dup_back c;
                     ch_tamper := ch_tamper c; ch_queue := ch_queue c |} in
        (set_chan s (enqueue c' [first; {| mg_arrive := a + extra; mg_to_master := false; mg_data := data |}]),
         [OM2O t (Some a) data; OM2O t (Some (a + extra)) data])
    end.

Definition apply_tamper (data : list N) (tm : tamper) : list N :=
  match tm with
  | TObjs o => firstn 4 data ++ o
  | TIin a b => match data with
                | c :: f :: i1 :: i2 :: rest => c :: f :: N.lor i1 a :: N.lor i2 b :: rest
                | _ => data
                end
  | TCtl x => match data with c :: rest => N.lxor c x :: rest | [] => [] end
  end.

(* Channel::outstation_wrote *)
Definition outstation_wrote (s : sim) (data0 : list N) : sim * list tobs :=
  let c := s_c s in let t := s_now s in
  let data := fold_left apply_tamper (ch_tamper c) data0 in
  if (0 <? ch_drop_back c)%N then
    (set_chan s {| ch_fwd := ch_fwd c; ch_back := ch_back c; ch_hold := ch_hold c;
                   ch_drop_fwd := ch_drop_fwd c; ch_drop_back := (ch_drop_back c - 1)%N;
                   ch_dup_fwd := ch_dup_fwd c; ch_dup_back := ch_dup_back c;
                   ch_tamper := []; ch_queue := ch_queue c |},
     [OO2M t None data])
  else
    let a := t + ch_hold c + ch_back c in
    let first := {| mg_arrive := a; mg_to_master := true; mg_data := data |} in
    match ch_dup_back c with
    | None =>
        let c' := {| ch_fwd := ch_fwd c; ch_back := ch_back c; ch_hold := ch_hold c;
                     ch_drop_fwd := ch_drop_fwd c; ch_drop_back := ch_drop_back c;
                     ch_dup_fwd := ch_dup_fwd c; ch_dup_back := None;
                     ch_tamper := []; ch_queue := ch_queue c |} in
        (set_chan s (enqueue c' [first]), [OO2M t (Some a) data])
    | Some extra =>
        let c' := {| ch_fwd := ch_fwd c; ch_back := ch_back c; ch_hold := ch_hold c;
                     ch_drop_fwd := ch_drop_fwd c; ch_drop_back := ch_drop_back c;
                     ch_dup_fwd := ch_dup_fwd c; ch_dup_back := None;
                     ch_tamper := []; ch_queue := ch_queue c |} in
        (set_chan s (enqueue c' [first; {| mg_arrive := a + extra; mg_to_master := true; mg_data := data |}]),
         [OO2M t (Some a) data; OO2M t (Some (a + extra)) data])
    end.

(* ---- master task ---- *)

Definition seq_next (x : N) : N := ((x + 1) mod 16)%N.

(* the master is idle: start queued user requests until one really sends a request
   (Association::priority_task: tasks whose `start` fails are completed and dropped) *)
Fixpoint m_try_start (fuel : nat) (cfg : tcfg) (s : sim) : sim * list tobs :=
  match fuel with
  | O => (s, [])
  | S f =>
      match m_cur (s_m s), m_q (s_m s) with
      | None, tok :: rest =>
          match m_start (tc_proc cfg) (clock (s_on s) (tc_c0 cfg) (s_now s)) (s_now s) with
          | None =>
              let s1 := set_m s {| m_seq := m_seq (s_m s); m_cur := None; m_q := rest |} in
              let '(s2, obs) := m_try_start f cfg s1 in
              (s2, ORes tok (Some ENoSysTime) :: obs)
          | Some st =>
              let seq := m_seq (s_m s) in
              let s1 := set_m s {| m_seq := seq_next seq;
                                   m_cur := Some {| mt_token := tok; mt_state := st; mt_seq := seq;
                                                    mt_deadline := s_now s + tc_tmo cfg |};
                                   m_q := rest |} in
              master_wrote s1 (enc_req seq (req_of st))
          end
      | _, _ => (s, [])
      end
  end.

Definition m_finish (cfg : tcfg) (s : sim) (tok : N) (r : option terr) : sim * list tobs :=
  let s1 := set_m s {| m_seq := m_seq (s_m s); m_cur := None; m_q := m_q (s_m s) |} in
  let '(s2, obs) := m_try_start (S (length (m_q (s_m s)))) cfg s1 in
  (s2, ORes tok r :: obs).

(* the master's mock reader returns a fragment *)
Definition m_deliver (cfg : tcfg) (s : sim) (data : list N) : sim * list tobs :=
  match data with
  | ctl :: fn :: iin1 :: iin2 :: objs =>
      let seq := (ctl mod 16)%N in
      let fir := N.testbit ctl 7 in let fin := N.testbit ctl 6 in
      let con := N.testbit ctl 5 in let uns := N.testbit ctl 4 in
      if N.testbit iin1 7 then (s, [OUnsupported])     (* DEVICE_RESTART would start an automatic task *)
      else if (fn =? 130)%N then
        (* handle_unsolicited: accepted (no start-up integrity scan is configured), confirmed when CON *)
        if uns && fir && fin then
          (if con then master_wrote s [(208 + seq)%N; 0%N] else (s, []))
        else (s, [OUnsupported])
      else if (fn =? 129)%N then
        if uns then (s, [OUnsupported]) else
        match m_cur (s_m s) with
        | None => (s, [])                                (* handle_fragment_while_idle: ignored *)
        | Some t =>
            if negb (seq =? mt_seq t)%N then (s, [])     (* validate_non_read_response: ignored *)
            else if negb (fir && fin) then m_finish cfg s (mt_token t) (Some EMultiFrag)
            else if negb (N.land iin2 7 =? 0)%N then m_finish cfg s (mt_token t) (Some EIin2)
            else
              match m_handle (mt_state t) (clock (s_on s) (tc_c0 cfg) (s_now s)) (s_now s)
                             (N.testbit iin1 4) (classify_objs objs) with
              | Fail e => m_finish cfg s (mt_token t) (Some e)
              | Done => m_finish cfg s (mt_token t) None
              | Next st =>
                  let sq := m_seq (s_m s) in
                  let s1 := set_m s {| m_seq := seq_next sq;
                                       m_cur := Some {| mt_token := mt_token t; mt_state := st; mt_seq := sq;
                                                        mt_deadline := s_now s + tc_tmo cfg |};
                                       m_q := m_q (s_m s) |} in
                  master_wrote s1 (enc_req sq (req_of st))
              end
        end
      else (s, [OUnsupported])
  | _ => (s, [OUnsupported])
  end.

(* ---- outstation task ---- *)

Definition need_bit (b : bool) : N := if b then 16%N else 0%N.

Fixpoint bytes_eqb (a b : list N) : bool :=
  match a, b with
  | [], [] => true
  | x :: a', y :: b' => (x =? y)%N && bytes_eqb a' b'
  | _, _ => false
  end.

Definition o_deliver (cfg : tcfg) (s : sim) (data : list N) : sim * list tobs :=
  match parse_req data with
  | QConfirm => (s, [])                   (* CONFIRM from idle: ignored *)
  | QUnsupported => (s, [OUnsupported])
  | QReq r =>
      let o := s_o s in
      let seq := (match data with c :: _ => c mod 16 | [] => 0 end)%N in
      let repeat := match os_last o with
                    | Some l => if bytes_eqb (ol_req l) data then Some l else None
                    | None => None
                    end in
      match repeat with
      | Some l =>
          (* duplicate request: the stored response is sent again, the current indications or-ed in *)
          let iin1 := N.lor (ol_iin1 l) (need_bit (o_need (os_time o))) in
          let o' := {| os_time := os_time o;
                       os_last := Some {| ol_req := data; ol_seq := ol_seq l; ol_iin1 := iin1;
                                          ol_iin2 := ol_iin2 l; ol_objs := ol_objs l |} |} in
          outstation_wrote (set_o s o') (enc_resp (ol_seq l) iin1 (ol_iin2 l) (ol_objs l))
      | None =>
          let res := o_handle (tc_mode cfg) (s_rep s) (os_time o) (s_now s) r in
          let iin1 := need_bit (o_need (or_st res)) in
          let iin2 := Z.to_N (or_iin2 res) in
          let objs := match or_delay res with Some d => delay_objs d | None => [] end in
          let o' := {| os_time := or_st res;
                       os_last := Some {| ol_req := data; ol_seq := seq; ol_iin1 := iin1;
                                          ol_iin2 := iin2; ol_objs := objs |} |} in
          let '(s1, obs) := outstation_wrote (set_o s o') (enc_resp seq iin1 iin2 objs) in
          (s1, match or_written res with
               | Some v => OWritten (s_now s) v :: obs
               | None => obs
               end)
      end
  end.

(* ---- the engine's `run` ---- *)

Fixpoint min_arrival (q : list msg) : option Z :=
  match q with
  | [] => None
  | m :: q' => match min_arrival q' with
               | None => Some (mg_arrive m)
               | Some a => Some (Z.min (mg_arrive m) a)
               end
  end.

(* first message (in order of sending) that arrives at instant a *)
Fixpoint take_at (a : Z) (q : list msg) : option (msg * list msg) :=
  match q with
  | [] => None
  | m :: q' => if mg_arrive m =? a then Some (m, q')
               else match take_at a q' with
                    | Some (x, r) => Some (x, m :: r)
                    | None => None
                    end
  end.

Definition set_queue (c : chan) (q : list msg) : chan :=
  {| ch_fwd := ch_fwd c; ch_back := ch_back c; ch_hold := ch_hold c;
     ch_drop_fwd := ch_drop_fwd c; ch_drop_back := ch_drop_back c;
     ch_dup_fwd := ch_dup_fwd c; ch_dup_back := ch_dup_back c;
     ch_tamper := ch_tamper c; ch_queue := q |}.

Definition deliver_msg (cfg : tcfg) (s : sim) (m : msg) : sim * list tobs :=
  if mg_to_master m then m_deliver cfg s (mg_data m) else o_deliver cfg s (mg_data m).

Definition m_timeout (cfg : tcfg) (s : sim) : sim * list tobs :=
  match m_cur (s_m s) with
  | Some t => m_finish cfg s (mt_token t) (Some ETimeout)
  | None => (s, [])
  end.

Fixpoint run_loop (fuel : nat) (cfg : tcfg) (target : Z) (s : sim) : sim * list tobs :=
  match fuel with
  | O => (s, [OStall])
  | S f =>
      let na := match min_arrival (ch_queue (s_c s)) with
                | Some a => if a <=? target then Some a else None
                | None => None
                end in
      let dl := match m_cur (s_m s) with
                | Some t => if mt_deadline t <=? target then Some (mt_deadline t) else None
                | None => None
                end in
      let do_deadline (d : Z) (amb : bool) : sim * list tobs :=
        let '(s1, o1) := m_timeout cfg (set_now s (Z.max (s_now s) d)) in
        let '(s2, o2) := run_loop f cfg target s1 in
        (s2, (if amb then [OAmbiguous] else []) ++ o1 ++ o2) in
      let do_arrival (a : Z) : sim * list tobs :=
        match take_at a (ch_queue (s_c s)) with
        | None => (s, [OStall])
        | Some (m, q') =>
            let s0 := set_now (set_chan s (set_queue (s_c s) q')) (Z.max (s_now s) a) in
            let '(s1, o1) := deliver_msg cfg s0 m in
            let '(s2, o2) := run_loop f cfg target s1 in
            (s2, o1 ++ o2)
        end in
      match na, dl with
      | None, None => (set_now s target, [])
      | Some a, None => do_arrival a
      | None, Some d => do_deadline d false
      | Some a, Some d => if d <? a then do_deadline d false
                          else if d =? a then do_deadline d true
                          else do_arrival a
      end
  end.

Inductive top :=
| OpSync (tok : N) | OpFwd (d : Z) | OpBack (d : Z) | OpHold (d : Z) | OpProc (d : Z)
| OpDrop (back : bool) | OpDup (back : bool) (extra : Z)
| OpTamper (t : tamper) | OpClock (on : bool) | OpInject (data : list N) | OpRun (ms : Z).

Definition upd_chan (c : chan) (o : top) : chan :=
  match o with
  | OpFwd d => {| ch_fwd := d; ch_back := ch_back c; ch_hold := ch_hold c;
                  ch_drop_fwd := ch_drop_fwd c; ch_drop_back := ch_drop_back c;
                  ch_dup_fwd := ch_dup_fwd c; ch_dup_back := ch_dup_back c;
                  ch_tamper := ch_tamper c; ch_queue := ch_queue c |}
  | OpBack d => {| ch_fwd := ch_fwd c; ch_back := d; ch_hold := ch_hold c;
                   ch_drop_fwd := ch_drop_fwd c; ch_drop_back := ch_drop_back c;
                   ch_dup_fwd := ch_dup_fwd c; ch_dup_back := ch_dup_back c;
                   ch_tamper := ch_tamper c; ch_queue := ch_queue c |}
  | OpHold d => {| ch_fwd := ch_fwd c; ch_back := ch_back c; ch_hold := d;
                   ch_drop_fwd := ch_drop_fwd c; ch_drop_back := ch_drop_back c;
                   ch_dup_fwd := ch_dup_fwd c; ch_dup_back := ch_dup_back c;
                   ch_tamper := ch_tamper c; ch_queue := ch_queue c |}
  | OpDrop false => {| ch_fwd := ch_fwd c; ch_back := ch_back c; ch_hold := ch_hold c;
                       ch_drop_fwd := (ch_drop_fwd c + 1)%N; ch_drop_back := ch_drop_back c;
                       ch_dup_fwd := ch_dup_fwd c; ch_dup_back := ch_dup_back c;
                       ch_tamper := ch_tamper c; ch_queue := ch_queue c |}
  | OpDrop true => {| ch_fwd := ch_fwd c; ch_back := ch_back c; ch_hold := ch_hold c;
                      ch_drop_fwd := ch_drop_fwd c; ch_drop_back := (ch_drop_back c + 1)%N;
                      ch_dup_fwd := ch_dup_fwd c; ch_dup_back := ch_dup_back c;
                      ch_tamper := ch_tamper c; ch_queue := ch_queue c |}
  | OpDup false e => {| ch_fwd := ch_fwd c; ch_back := ch_back c; ch_hold := ch_hold c;
                        ch_drop_fwd := ch_drop_fwd c; ch_drop_back := ch_drop_back c;
                        ch_dup_fwd := Some e; ch_dup_back := ch_dup_back c;
                        ch_tamper := ch_tamper c; ch_queue := ch_queue c |}
  | OpDup true e => {| ch_fwd := ch_fwd c; ch_back := ch_back c; ch_hold := ch_hold c;
                       ch_drop_fwd := ch_drop_fwd c; ch_drop_back := ch_drop_back c;
                       ch_dup_fwd := ch_dup_fwd c; ch_dup_back := Some e;
                       ch_tamper := ch_tamper c; ch_queue := ch_queue c |}
  | OpTamper t => {| ch_fwd := ch_fwd c; ch_back := ch_back c; ch_hold := ch_hold c;
                     ch_drop_fwd := ch_drop_fwd c; ch_drop_back := ch_drop_back c;
                     ch_dup_fwd := ch_dup_fwd c; ch_dup_back := ch_dup_back c;
                     ch_tamper := ch_tamper c ++ [t]; ch_queue := ch_queue c |}
  | _ => c
  end.

(* events one `run` can process: every message delivered or deadline fired consumes one unit;
   a synchronisation sends at most two requests (each possibly duplicated, each answered), an
   injected fragment causes at most one confirm *)
Definition run_fuel (s : sim) : nat :=
  (64 + 16 * (length (s_pend s) + length (m_q (s_m s)) + length (ch_queue (s_c s))))%nat.

Definition do_op (cfg : tcfg) (s : sim) (o : top) : sim * list tobs :=
  match o with
  | OpSync tok => (set_pend s (s_pend s ++ [tok]), [])
  | OpProc d => ({| s_now := s_now s; s_on := s_on s; s_rep := Z.min d 65535; s_pend := s_pend s;
                    s_m := s_m s; s_o := s_o s; s_c := s_c s |}, [])
  | OpClock b => ({| s_now := s_now s; s_on := b; s_rep := s_rep s; s_pend := s_pend s;
                     s_m := s_m s; s_o := s_o s; s_c := s_c s |}, [])
  | OpInject data =>
      let '(s1, obs) := m_deliver cfg s data in (s1, OInj (s_now s) data :: obs)
  | OpRun ms =>
      let fuel := run_fuel s in
      (* the pending synchronize_time calls reach the master now, in order *)
      let s0 := set_pend (set_m s {| m_seq := m_seq (s_m s); m_cur := m_cur (s_m s);
                                     m_q := m_q (s_m s) ++ s_pend s |}) [] in
      let '(s1, o1) := m_try_start (S (length (m_q (s_m s0)))) cfg s0 in
      let '(s2, o2) := run_loop fuel cfg (s_now s + ms) s1 in
      (s2, o1 ++ o2)
  | _ => (set_chan s (upd_chan (s_c s) o), [])
  end.

Fixpoint do_ops (cfg : tcfg) (s : sim) (ops : list top) : sim * list tobs :=
  match ops with
  | [] => (s, [])
  | o :: rest =>
      let '(s1, o1) := do_op cfg s o in
      let '(s2, o2) := do_ops cfg s1 rest in
      (s2, o1 ++ o2)
  end.

Definition init_sim (cfg : tcfg) : sim :=
  {| s_now := 0; s_on := true; s_rep := 0; s_pend := [];
     s_m := {| m_seq := 0%N; m_cur := None; m_q := [] |};
     s_o := {| os_time := {| o_rec := None;
                             o_need := match tc_mode cfg with NClear => false | _ => true end |};
               os_last := None |};
     s_c := {| ch_fwd := 0; ch_back := 0; ch_hold := 0; ch_drop_fwd := 0%N; ch_drop_back := 0%N;
               ch_dup_fwd := None; ch_dup_back := None; ch_tamper := []; ch_queue := [] |} |}.

Definition run_tsync (cfg : tcfg) (ops : list top) : list tobs :=
  let '(s, obs) := do_ops cfg (init_sim cfg) ops in
  obs ++ [OClock (s_now s) (clock (s_on s) (tc_c0 cfg) (s_now s))].
