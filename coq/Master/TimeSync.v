(* Master/TimeSync.v — model of time synchronisation (property C18).  Definitions only.

   Mirrors  dnp3/src/master/tasks/time.rs            (TimeSyncTask: start and the handle_ functions),
            dnp3/src/master/task.rs                  (run_single_non_read_task, validate_non_read_response,
                                                      handle_unsolicited),
            dnp3/src/outstation/session.rs           (handle_record_current_time, handle_delay_measure,
                                                      handle_write_abs_time, handle_write_at_last_recorded_time,
                                                      duplicate-request detection of `classify`),
            dnp3/src/app/types.rs                    (Timestamp::checked_add),
   and the channel of the `tsync` engine (/verif/harness/tsync.rs).

   Time: virtual instants and durations are whole milliseconds in Z (the engine only ever sleeps
   whole milliseconds and never settles with a tick, so nothing sub-millisecond exists except the
   half millisecond produced by `Duration / 2`, which `as_millis` floors: Z division).
   Timestamp = ms since epoch, 0 .. 2^48-1.  Master clock: clk(t) = c0 + t. *)
From Coq Require Import ZArith NArith List Bool Lia.
From Dnp3V Require Import Base.Bytes.
Import ListNotations.
Open Scope Z_scope.

(* ------------------------------------------------------------------------------------------ *)
(* arithmetic blocks                                                                           *)

Definition ts_max : Z := 281474976710655.  (* Timestamp::MAX_VALUE = 2^48 - 1 *)

(* Timestamp::checked_add(self, x: Duration): millis = x.as_millis(); None if millis > MAX - self *)
Definition ts_checked_add (v d : Z) : option Z :=
  if d >? ts_max - v then None else Some (v + d).

(* AssociationHandler::get_current_time of the engine: c0 + elapsed, None when switched off or when
   the clock no longer fits 48 bits *)
Definition ts_clock (on : bool) (c0 t : Z) : option Z :=
  if on then (if c0 + t <=? ts_max then Some (c0 + t) else None) else None.

Inductive ts_procedure := TsLan | TsNonLan | TsDirect.

(* enum State of time.rs; the Option payloads are filled by `start`, which always runs first *)
Inductive ts_state :=
| TsSMeasure (start : Z)       (* MeasureDelay(Some(Instant)) : instant of `start` *)
| TsSWriteAbs (ts : Z)         (* WriteAbsoluteTime(Some(ts)) *)
| TsSRecord (ts : Z)           (* RecordCurrentTime(Some(ts)) : master clock sampled in `start` *)
| TsSWriteLast (ts : Z).       (* WriteLastRecordedTime(ts) *)

Inductive ts_err :=
| TsETimeout | TsEIin2 | TsEHeaders | TsEMultiFrag | TsEDelay (d : Z) | TsEOverflow | TsENeedTime | TsENoSysTime.

(* TimeSyncTask::start: None = SystemTimeNotAvailable *)
Definition m_start (p : ts_procedure) (clk : option Z) (now : Z) : option ts_state :=
  match clk with
  | None => None
  | Some c => Some (match p with
                    | TsLan => TsSRecord c
                    | TsNonLan => TsSMeasure now
                    | TsDirect => TsSWriteAbs c
                    end)
  end.

(* what the task asks for *)
Inductive ts_req := TsRDelay | TsRRecord | TsRWriteAbs (ts : Z) | TsRWriteLast (ts : Z).

Definition ts_req_of (s : ts_state) : ts_req :=
  match s with
  | TsSMeasure _ => TsRDelay
  | TsSWriteAbs ts => TsRWriteAbs ts
  | TsSRecord _ => TsRRecord
  | TsSWriteLast ts => TsRWriteLast ts
  end.

(* the object part of a response as the task sees it: nothing / exactly one g52v2 with count one /
   anything else (several headers, other variations, unparsable bytes) *)
Inductive ts_robjs := TsONone | TsODelay (d : Z) | TsOOther.

Inductive ts_step := TsNext (s : ts_state) | TsDone | TsFail (e : ts_err).

(* TimeSyncTask::handle, after validate_non_read_response accepted the fragment.
   `need` = IIN1.4 NEED_TIME of the response, `clk` = get_system_time() at this instant *)
Definition m_handle (s : ts_state) (clk : option Z) (now : Z) (need : bool) (o : ts_robjs) : ts_step :=
  match s with
  | TsSMeasure start =>
      let interval := now - start in
      match o with
      | TsODelay d =>
          if interval <? d then TsFail (TsEDelay d)          (* interval.checked_sub(delay) = None *)
          else match clk with
               | None => TsFail TsENoSysTime
               | Some c =>
                   match ts_checked_add c ((interval - d) / 2) with   (* (x / 2).as_millis() *)
                   | None => TsFail TsEOverflow
                   | Some ts => TsNext (TsSWriteAbs ts)
                   end
               end
      | _ => TsFail TsEHeaders
      end
  | TsSRecord ts =>
      match o with TsONone => TsNext (TsSWriteLast ts) | _ => TsFail TsEHeaders end
  | TsSWriteAbs _ | TsSWriteLast _ =>
      match o with
      | TsONone => if need then TsFail TsENeedTime else TsDone
      | _ => TsFail TsEHeaders
      end
  end.

(* ---- outstation ---- *)
Inductive ts_need_mode := TsNAuto | TsNStuck | TsNClear.   (* scripted OutstationApplication *)

Record ts_otime := { to_rec : option Z;     (* SessionState::last_recorded_time *)
                  to_need : bool }.      (* ApplicationIin::need_time *)

Definition ts_after_write (m : ts_need_mode) (need : bool) : bool :=
  match m with TsNAuto => false | TsNStuck => need | TsNClear => need end.

Record ts_oresult := { or_st : ts_otime; or_iin2 : Z; or_delay : option Z; or_written : option Z }.

(* handle_delay_measure / handle_record_current_time / handle_write_abs_time /
   handle_write_at_last_recorded_time; iin2 = 4 is PARAMETER_ERROR *)
Definition o_handle (m : ts_need_mode) (reported : Z) (st : ts_otime) (now : Z) (r : ts_req) : ts_oresult :=
  match r with
  | TsRDelay => {| or_st := st; or_iin2 := 0; or_delay := Some reported; or_written := None |}
  | TsRRecord => {| or_st := {| to_rec := Some now; to_need := to_need st |};
                  or_iin2 := 0; or_delay := None; or_written := None |}
  | TsRWriteAbs ts => {| or_st := {| to_rec := to_rec st; to_need := ts_after_write m (to_need st) |};
                       or_iin2 := 0; or_delay := None; or_written := Some ts |}
  | TsRWriteLast ts =>
      match to_rec st with
      | None => {| or_st := st; or_iin2 := 4; or_delay := None; or_written := None |}
      | Some r0 =>
          match ts_checked_add ts (now - r0) with
          | None => {| or_st := st; or_iin2 := 4; or_delay := None; or_written := None |}
          | Some v => {| or_st := {| to_rec := None; to_need := ts_after_write m (to_need st) |};
                         or_iin2 := 0; or_delay := None; or_written := Some v |}
          end
      end
  end.

Definition ts_objs_of (d : option Z) : ts_robjs := match d with None => TsONone | Some x => TsODelay x end.

(* ------------------------------------------------------------------------------------------ *)
(* one synchronisation over an undisturbed channel, composed from the blocks above             *)

Record ts_sched := {
  tsp_c0 : Z;          (* master clock at instant 0 *)
  tsp_on : bool;       (* master clock available *)
  tsp_t0 : Z;          (* instant the task starts *)
  tsp_f1 : Z;          (* forward delay of the first request *)
  tsp_b1 : Z;          (* instant the first response reaches the master minus the instant the
                         request reached the outstation (actual processing + backward delay) *)
  tsp_f2 : Z;          (* the same for the second exchange (the WRITE) *)
  tsp_b2 : Z;
  tsp_tmo : Z;         (* response timeout *)
  tsp_rep : Z;         (* processing delay reported in g52v2 *)
  tsp_mode : ts_need_mode;
  tsp_need0 : bool;    (* NEED_TIME before the procedure *)
  tsp_rec0 : option Z  (* a RECORD_CURRENT_TIME instant left over from earlier traffic *)
}.

Inductive ts_outcome :=
| TsSuccess (written : Z) (t_written : Z)     (* reported successful; the application was handed
                                               `written` at instant `t_written` *)
| TsFailure (e : ts_err).

Definition ts_finish (w : option Z) (t : Z) : ts_outcome :=
  match w with Some v => TsSuccess v t | None => TsFailure TsEHeaders end.

Definition plain_sync (p : ts_procedure) (P : ts_sched) : ts_outcome :=
  let c0 := tsp_c0 P in let on := tsp_on P in let t0 := tsp_t0 P in
  match m_start p (ts_clock on c0 t0) t0 with
  | None => TsFailure TsENoSysTime
  | Some s1 =>
      let ta1 := t0 + tsp_f1 P in
      let r1 := o_handle (tsp_mode P) (tsp_rep P) {| to_rec := tsp_rec0 P; to_need := tsp_need0 P |} ta1 (ts_req_of s1) in
      let tr1 := ta1 + tsp_b1 P in
      if t0 + tsp_tmo P <=? tr1 then TsFailure TsETimeout
      else if negb (or_iin2 r1 =? 0) then TsFailure TsEIin2
      else match m_handle s1 (ts_clock on c0 tr1) tr1 (to_need (or_st r1)) (ts_objs_of (or_delay r1)) with
           | TsFail e => TsFailure e
           | TsDone => ts_finish (or_written r1) ta1
           | TsNext s2 =>
               let ta2 := tr1 + tsp_f2 P in
               let r2 := o_handle (tsp_mode P) (tsp_rep P) (or_st r1) ta2 (ts_req_of s2) in
               let tr2 := ta2 + tsp_b2 P in
               if tr1 + tsp_tmo P <=? tr2 then TsFailure TsETimeout
               else if negb (or_iin2 r2 =? 0) then TsFailure TsEIin2
               else match m_handle s2 (ts_clock on c0 tr2) tr2 (to_need (or_st r2)) (ts_objs_of (or_delay r2)) with
                    | TsDone => ts_finish (or_written r2) ta2
                    | TsFail e => TsFailure e
                    | TsNext _ => TsFailure TsEHeaders
                    end
           end
  end.

(* ------------------------------------------------------------------------------------------ *)
(* bytes                                                                                       *)

Fixpoint ts_le_bytes (n : nat) (v : Z) : list N :=
  match n with
  | O => []
  | S k => Z.to_N (v mod 256) :: ts_le_bytes k (v / 256)
  end.
Definition le48 (v : Z) : list N := ts_le_bytes 6 v.
Definition de48 (b0 b1 b2 b3 b4 b5 : N) : Z :=
  Z.of_N b0 + 256 * (Z.of_N b1 + 256 * (Z.of_N b2 + 256 * (Z.of_N b3 + 256 * (Z.of_N b4 + 256 * Z.of_N b5)))).

(* request as the master formats it: control FIR|FIN|seq, function, objects *)
Definition ts_enc_req (seq : N) (r : ts_req) : list N :=
  let c := (192 + seq)%N in
  match r with
  | TsRDelay => [c; 23%N]
  | TsRRecord => [c; 24%N]
  | TsRWriteAbs ts => [c; 2; 50; 1; 7; 1]%N ++ le48 ts
  | TsRWriteLast ts => [c; 2; 50; 3; 7; 1]%N ++ le48 ts
  end.

Inductive ts_oreq := TsQConfirm | TsQReq (r : ts_req) | TsQUnsupported.

(* what the outstation makes of a fragment (only the shapes the master task produces, CONFIRM, and
   everything else = unsupported by this model) *)
Definition ts_parse_req (l : list N) : ts_oreq :=
  match l with
  | [_; 0%N] => TsQConfirm
  | [_; 23%N] => TsQReq TsRDelay
  | [_; 24%N] => TsQReq TsRRecord
  | [_; 2%N; 50%N; 1%N; 7%N; 1%N; b0; b1; b2; b3; b4; b5] => TsQReq (TsRWriteAbs (de48 b0 b1 b2 b3 b4 b5))
  | [_; 2%N; 50%N; 3%N; 7%N; 1%N; b0; b1; b2; b3; b4; b5] => TsQReq (TsRWriteLast (de48 b0 b1 b2 b3 b4 b5))
  | _ => TsQUnsupported
  end.

Definition ts_delay_objs (d : Z) : list N :=
  [52; 2; 7; 1; Z.to_N (d mod 256); Z.to_N ((d / 256) mod 256)]%N.

Definition ts_enc_resp (seq iin1 iin2 : N) (objs : list N) : list N :=
  [(192 + seq)%N; 129%N; iin1; iin2] ++ objs.

(* raw_objects of a response as the time task classifies them: get_only_object_header +
   CountVariation::Group52Var2 + single() accept exactly one g52v2 header with count 1 (one byte or
   two byte count qualifier) *)
Definition ts_classify_objs (l : list N) : ts_robjs :=
  match l with
  | [] => TsONone
  | [52%N; 2%N; 7%N; 1%N; lo; hi] => TsODelay (Z.of_N lo + 256 * Z.of_N hi)
  | [52%N; 2%N; 8%N; 1%N; 0%N; lo; hi] => TsODelay (Z.of_N lo + 256 * Z.of_N hi)
  | _ => TsOOther
  end.

(* ------------------------------------------------------------------------------------------ *)
(* the whole engine: master task, outstation task, channel                                     *)

Inductive ts_obs :=
| TsM2O (t_send : Z) (t_arrive : option Z) (data : list N)     (* None = dropped *)
| TsO2M (t_send : Z) (t_arrive : option Z) (data : list N)
| TsInj (t : Z) (data : list N)
| TsWritten (t ts : Z)
| TsRes (token : N) (r : option ts_err)                           (* None = ok *)
| TsClock (t : Z) (c : option Z)
| TsAmbiguous          (* two stimuli for one task at the same instant: the implementation's choice
                         is not determined (select! picks at random); scripts avoid it *)
| TsUnsupported        (* a fragment this model does not describe *)
| TsStall.

Inductive ts_tamper := TsTObjs (l : list N) | TsTIin (a b : N) | TsTCtl (x : N).

Record ts_msg := { mg_arrive : Z; mg_to_master : bool; mg_data : list N }.

Record ts_chan := {
  ch_fwd : Z; ch_back : Z; ch_hold : Z;
  ch_drop_fwd : N; ch_drop_back : N;
  ch_dup_fwd : option Z; ch_dup_back : option Z;
  ch_tamper : list ts_tamper;
  ch_queue : list ts_msg          (* in order of sending *)
}.

Record ts_mtask := { mt_token : N; mt_state : ts_state; mt_seq : N; mt_deadline : Z }.

Record ts_mst := { tm_seq : N; tm_cur : option ts_mtask; tm_q : list N }.

Record ts_olast := { ol_req : list N; ol_seq : N; ol_iin1 : N; ol_iin2 : N; ol_objs : list N }.

Record ts_ost := { tos_time : ts_otime; tos_last : option ts_olast }.

Record ts_cfg := { tsc_c0 : Z; tsc_proc : ts_procedure; tsc_tmo : Z; tsc_mode : ts_need_mode }.

Record ts_sim := {
  tss_now : Z; tss_on : bool; tss_rep : Z;
  tss_pend : list N;             (* `sync` requests not yet handed to the master (next `run`) *)
  tss_m : ts_mst; tss_o : ts_ost; tss_c : ts_chan
}.

Definition ts_set_chan (s : ts_sim) (c : ts_chan) : ts_sim :=
  {| tss_now := tss_now s; tss_on := tss_on s; tss_rep := tss_rep s; tss_pend := tss_pend s; tss_m := tss_m s; tss_o := tss_o s; tss_c := c |}.
Definition ts_set_m (s : ts_sim) (m : ts_mst) : ts_sim :=
  {| tss_now := tss_now s; tss_on := tss_on s; tss_rep := tss_rep s; tss_pend := tss_pend s; tss_m := m; tss_o := tss_o s; tss_c := tss_c s |}.
Definition ts_set_o (s : ts_sim) (o : ts_ost) : ts_sim :=
  {| tss_now := tss_now s; tss_on := tss_on s; tss_rep := tss_rep s; tss_pend := tss_pend s; tss_m := tss_m s; tss_o := o; tss_c := tss_c s |}.
Definition ts_set_now (s : ts_sim) (t : Z) : ts_sim :=
  {| tss_now := t; tss_on := tss_on s; tss_rep := tss_rep s; tss_pend := tss_pend s; tss_m := tss_m s; tss_o := tss_o s; tss_c := tss_c s |}.
Definition ts_set_pend (s : ts_sim) (p : list N) : ts_sim :=
  {| tss_now := tss_now s; tss_on := tss_on s; tss_rep := tss_rep s; tss_pend := p; tss_m := tss_m s; tss_o := tss_o s; tss_c := tss_c s |}.

Definition ts_enqueue (c : ts_chan) (ms : list ts_msg) : ts_chan :=
  {| ch_fwd := ch_fwd c; ch_back := ch_back c; ch_hold := ch_hold c;
     ch_drop_fwd := ch_drop_fwd c; ch_drop_back := ch_drop_back c;
     ch_dup_fwd := ch_dup_fwd c; ch_dup_back := ch_dup_back c;
     ch_tamper := ch_tamper c; ch_queue := ch_queue c ++ ms |}.

(* Channel::master_wrote *)
Definition ts_master_wrote (s : ts_sim) (data : list N) : ts_sim * list ts_obs :=
  let c := tss_c s in let t := tss_now s in
  if (0 <? ch_drop_fwd c)%N then
    (ts_set_chan s {| ch_fwd := ch_fwd c; ch_back := ch_back c; ch_hold := ch_hold c;
                   ch_drop_fwd := (ch_drop_fwd c - 1)%N; ch_drop_back := ch_drop_back c;
                   ch_dup_fwd := ch_dup_fwd c; ch_dup_back := ch_dup_back c;
                   ch_tamper := ch_tamper c; ch_queue := ch_queue c |},
     [TsM2O t None data])
  else
    let a := t + ch_fwd c in
    let first := {| mg_arrive := a; mg_to_master := false; mg_data := data |} in
    match ch_dup_fwd c with
    | None => (ts_set_chan s (ts_enqueue c [first]), [TsM2O t (Some a) data])
    | Some extra =>
        let c' := {| ch_fwd := ch_fwd c; ch_back := ch_back c; ch_hold := ch_hold c;
                     ch_drop_fwd := ch_drop_fwd c; ch_drop_back := ch_drop_back c;
                     ch_dup_fwd := None; ch_dup_back := ch_dup_back c;
                     ch_tamper := ch_tamper c; ch_queue := ch_queue c |} in
        (ts_set_chan s (ts_enqueue c' [first; {| mg_arrive := a + extra; mg_to_master := false; mg_data := data |}]),
         [TsM2O t (Some a) data; TsM2O t (Some (a + extra)) data])
    end.

Definition ts_apply_tamper (data : list N) (tm : ts_tamper) : list N :=
  match tm with
  | TsTObjs o => firstn 4 data ++ o
  | TsTIin a b => match data with
                | c :: f :: i1 :: i2 :: rest => c :: f :: N.lor i1 a :: N.lor i2 b :: rest
                | _ => data
                end
  | TsTCtl x => match data with c :: rest => N.lxor c x :: rest | [] => [] end
  end.

(* Channel::outstation_wrote *)
Definition ts_outstation_wrote (s : ts_sim) (data0 : list N) : ts_sim * list ts_obs :=
  let c := tss_c s in let t := tss_now s in
  let data := fold_left ts_apply_tamper (ch_tamper c) data0 in
  if (0 <? ch_drop_back c)%N then
    (ts_set_chan s {| ch_fwd := ch_fwd c; ch_back := ch_back c; ch_hold := ch_hold c;
                   ch_drop_fwd := ch_drop_fwd c; ch_drop_back := (ch_drop_back c - 1)%N;
                   ch_dup_fwd := ch_dup_fwd c; ch_dup_back := ch_dup_back c;
                   ch_tamper := []; ch_queue := ch_queue c |},
     [TsO2M t None data])
  else
    let a := t + ch_hold c + ch_back c in
    let first := {| mg_arrive := a; mg_to_master := true; mg_data := data |} in
    match ch_dup_back c with
    | None =>
        let c' := {| ch_fwd := ch_fwd c; ch_back := ch_back c; ch_hold := ch_hold c;
                     ch_drop_fwd := ch_drop_fwd c; ch_drop_back := ch_drop_back c;
                     ch_dup_fwd := ch_dup_fwd c; ch_dup_back := None;
                     ch_tamper := []; ch_queue := ch_queue c |} in
        (ts_set_chan s (ts_enqueue c' [first]), [TsO2M t (Some a) data])
    | Some extra =>
        let c' := {| ch_fwd := ch_fwd c; ch_back := ch_back c; ch_hold := ch_hold c;
                     ch_drop_fwd := ch_drop_fwd c; ch_drop_back := ch_drop_back c;
                     ch_dup_fwd := ch_dup_fwd c; ch_dup_back := None;
                     ch_tamper := []; ch_queue := ch_queue c |} in
        (ts_set_chan s (ts_enqueue c' [first; {| mg_arrive := a + extra; mg_to_master := true; mg_data := data |}]),
         [TsO2M t (Some a) data; TsO2M t (Some (a + extra)) data])
    end.

(* ---- master task ---- *)

Definition ts_seq_next (x : N) : N := ((x + 1) mod 16)%N.

(* the master is idle: start queued user requests until one really sends a request
   (Association::priority_task: tasks whose `start` fails are completed and dropped) *)
Fixpoint m_try_start (fuel : nat) (cfg : ts_cfg) (s : ts_sim) : ts_sim * list ts_obs :=
  match fuel with
  | O => (s, [])
  | S f =>
      match tm_cur (tss_m s), tm_q (tss_m s) with
      | None, tok :: rest =>
          match m_start (tsc_proc cfg) (ts_clock (tss_on s) (tsc_c0 cfg) (tss_now s)) (tss_now s) with
          | None =>
              let s1 := ts_set_m s {| tm_seq := tm_seq (tss_m s); tm_cur := None; tm_q := rest |} in
              let '(s2, obs) := m_try_start f cfg s1 in
              (s2, TsRes tok (Some TsENoSysTime) :: obs)
          | Some st =>
              let seq := tm_seq (tss_m s) in
              let s1 := ts_set_m s {| tm_seq := ts_seq_next seq;
                                   tm_cur := Some {| mt_token := tok; mt_state := st; mt_seq := seq;
                                                    mt_deadline := tss_now s + tsc_tmo cfg |};
                                   tm_q := rest |} in
              ts_master_wrote s1 (ts_enc_req seq (ts_req_of st))
          end
      | _, _ => (s, [])
      end
  end.

Definition m_finish (cfg : ts_cfg) (s : ts_sim) (tok : N) (r : option ts_err) : ts_sim * list ts_obs :=
  let s1 := ts_set_m s {| tm_seq := tm_seq (tss_m s); tm_cur := None; tm_q := tm_q (tss_m s) |} in
  let '(s2, obs) := m_try_start (S (length (tm_q (tss_m s)))) cfg s1 in
  (s2, TsRes tok r :: obs).

(* the master's mock reader returns a fragment *)
Definition m_deliver (cfg : ts_cfg) (s : ts_sim) (data : list N) : ts_sim * list ts_obs :=
  match data with
  | ctl :: fn :: iin1 :: iin2 :: objs =>
      let seq := (ctl mod 16)%N in
      let fir := N.testbit ctl 7 in let fin := N.testbit ctl 6 in
      let con := N.testbit ctl 5 in let uns := N.testbit ctl 4 in
      if N.testbit iin1 7 then (s, [TsUnsupported])     (* DEVICE_RESTART would start an automatic task *)
      else if (fn =? 130)%N then
        (* handle_unsolicited: accepted (no start-up integrity scan is configured), confirmed when CON *)
        if uns && fir && fin then
          (if con then ts_master_wrote s [(208 + seq)%N; 0%N] else (s, []))
        else (s, [TsUnsupported])
      else if (fn =? 129)%N then
        if uns then (s, [TsUnsupported]) else
        match tm_cur (tss_m s) with
        | None => (s, [])                                (* handle_fragment_while_idle: ignored *)
        | Some t =>
            if negb (seq =? mt_seq t)%N then (s, [])     (* validate_non_read_response: ignored *)
            else if negb (fir && fin) then m_finish cfg s (mt_token t) (Some TsEMultiFrag)
            else if negb (N.land iin2 7 =? 0)%N then m_finish cfg s (mt_token t) (Some TsEIin2)
            else
              match m_handle (mt_state t) (ts_clock (tss_on s) (tsc_c0 cfg) (tss_now s)) (tss_now s)
                             (N.testbit iin1 4) (ts_classify_objs objs) with
              | TsFail e => m_finish cfg s (mt_token t) (Some e)
              | TsDone => m_finish cfg s (mt_token t) None
              | TsNext st =>
                  let sq := tm_seq (tss_m s) in
                  let s1 := ts_set_m s {| tm_seq := ts_seq_next sq;
                                       tm_cur := Some {| mt_token := mt_token t; mt_state := st; mt_seq := sq;
                                                        mt_deadline := tss_now s + tsc_tmo cfg |};
                                       tm_q := tm_q (tss_m s) |} in
                  ts_master_wrote s1 (ts_enc_req sq (ts_req_of st))
              end
        end
      else (s, [TsUnsupported])
  | _ => (s, [TsUnsupported])
  end.

(* ---- outstation task ---- *)

Definition ts_need_bit (b : bool) : N := if b then 16%N else 0%N.

Fixpoint ts_bytes_eqb (a b : list N) : bool :=
  match a, b with
  | [], [] => true
  | x :: a', y :: b' => (x =? y)%N && ts_bytes_eqb a' b'
  | _, _ => false
  end.

Definition o_deliver (cfg : ts_cfg) (s : ts_sim) (data : list N) : ts_sim * list ts_obs :=
  match ts_parse_req data with
  | TsQConfirm => (s, [])                   (* CONFIRM from idle: ignored *)
  | TsQUnsupported => (s, [TsUnsupported])
  | TsQReq r =>
      let o := tss_o s in
      let seq := (match data with c :: _ => c mod 16 | [] => 0 end)%N in
      let repeat := match tos_last o with
                    | Some l => if ts_bytes_eqb (ol_req l) data then Some l else None
                    | None => None
                    end in
      match repeat with
      | Some l =>
          (* duplicate request: the stored response is sent again, the current indications or-ed in *)
          let iin1 := N.lor (ol_iin1 l) (ts_need_bit (to_need (tos_time o))) in
          let o' := {| tos_time := tos_time o;
                       tos_last := Some {| ol_req := data; ol_seq := ol_seq l; ol_iin1 := iin1;
                                          ol_iin2 := ol_iin2 l; ol_objs := ol_objs l |} |} in
          ts_outstation_wrote (ts_set_o s o') (ts_enc_resp (ol_seq l) iin1 (ol_iin2 l) (ol_objs l))
      | None =>
          let res := o_handle (tsc_mode cfg) (tss_rep s) (tos_time o) (tss_now s) r in
          let iin1 := ts_need_bit (to_need (or_st res)) in
          let iin2 := Z.to_N (or_iin2 res) in
          let objs := match or_delay res with Some d => ts_delay_objs d | None => [] end in
          let o' := {| tos_time := or_st res;
                       tos_last := Some {| ol_req := data; ol_seq := seq; ol_iin1 := iin1;
                                          ol_iin2 := iin2; ol_objs := objs |} |} in
          let '(s1, obs) := ts_outstation_wrote (ts_set_o s o') (ts_enc_resp seq iin1 iin2 objs) in
          (s1, match or_written res with
               | Some v => TsWritten (tss_now s) v :: obs
               | None => obs
               end)
      end
  end.

(* ---- the engine's `run` ---- *)

Fixpoint ts_min_arrival (q : list ts_msg) : option Z :=
  match q with
  | [] => None
  | m :: q' => match ts_min_arrival q' with
               | None => Some (mg_arrive m)
               | Some a => Some (Z.min (mg_arrive m) a)
               end
  end.

(* first message (in order of sending) that arrives at instant a *)
Fixpoint ts_take_at (a : Z) (q : list ts_msg) : option (ts_msg * list ts_msg) :=
  match q with
  | [] => None
  | m :: q' => if mg_arrive m =? a then Some (m, q')
               else match ts_take_at a q' with
                    | Some (x, r) => Some (x, m :: r)
                    | None => None
                    end
  end.

Definition ts_set_queue (c : ts_chan) (q : list ts_msg) : ts_chan :=
  {| ch_fwd := ch_fwd c; ch_back := ch_back c; ch_hold := ch_hold c;
     ch_drop_fwd := ch_drop_fwd c; ch_drop_back := ch_drop_back c;
     ch_dup_fwd := ch_dup_fwd c; ch_dup_back := ch_dup_back c;
     ch_tamper := ch_tamper c; ch_queue := q |}.

Definition ts_deliver_msg (cfg : ts_cfg) (s : ts_sim) (m : ts_msg) : ts_sim * list ts_obs :=
  if mg_to_master m then m_deliver cfg s (mg_data m) else o_deliver cfg s (mg_data m).

Definition m_timeout (cfg : ts_cfg) (s : ts_sim) : ts_sim * list ts_obs :=
  match tm_cur (tss_m s) with
  | Some t => m_finish cfg s (mt_token t) (Some TsETimeout)
  | None => (s, [])
  end.

Fixpoint ts_run_loop (fuel : nat) (cfg : ts_cfg) (target : Z) (s : ts_sim) : ts_sim * list ts_obs :=
  match fuel with
  | O => (s, [TsStall])
  | S f =>
      let na := match ts_min_arrival (ch_queue (tss_c s)) with
                | Some a => if a <=? target then Some a else None
                | None => None
                end in
      let dl := match tm_cur (tss_m s) with
                | Some t => if mt_deadline t <=? target then Some (mt_deadline t) else None
                | None => None
                end in
      let do_deadline (d : Z) (amb : bool) : ts_sim * list ts_obs :=
        let '(s1, o1) := m_timeout cfg (ts_set_now s (Z.max (tss_now s) d)) in
        let '(s2, o2) := ts_run_loop f cfg target s1 in
        (s2, (if amb then [TsAmbiguous] else []) ++ o1 ++ o2) in
      let do_arrival (a : Z) : ts_sim * list ts_obs :=
        match ts_take_at a (ch_queue (tss_c s)) with
        | None => (s, [TsStall])
        | Some (m, q') =>
            let s0 := ts_set_now (ts_set_chan s (ts_set_queue (tss_c s) q')) (Z.max (tss_now s) a) in
            let '(s1, o1) := ts_deliver_msg cfg s0 m in
            let '(s2, o2) := ts_run_loop f cfg target s1 in
            (s2, o1 ++ o2)
        end in
      match na, dl with
      | None, None => (ts_set_now s target, [])
      | Some a, None => do_arrival a
      | None, Some d => do_deadline d false
      | Some a, Some d => if d <? a then do_deadline d false
                          else if d =? a then do_deadline d true
                          else do_arrival a
      end
  end.

Inductive ts_op :=
| TsOpSync (tok : N) | TsOpFwd (d : Z) | TsOpBack (d : Z) | TsOpHold (d : Z) | TsOpProc (d : Z)
| TsOpDrop (back : bool) | TsOpDup (back : bool) (extra : Z)
| TsOpTamper (t : ts_tamper) | TsOpClock (on : bool) | TsOpInject (data : list N) | TsOpRun (ms : Z).

Definition ts_upd_chan (c : ts_chan) (o : ts_op) : ts_chan :=
  match o with
  | TsOpFwd d => {| ch_fwd := d; ch_back := ch_back c; ch_hold := ch_hold c;
                  ch_drop_fwd := ch_drop_fwd c; ch_drop_back := ch_drop_back c;
                  ch_dup_fwd := ch_dup_fwd c; ch_dup_back := ch_dup_back c;
                  ch_tamper := ch_tamper c; ch_queue := ch_queue c |}
  | TsOpBack d => {| ch_fwd := ch_fwd c; ch_back := d; ch_hold := ch_hold c;
                   ch_drop_fwd := ch_drop_fwd c; ch_drop_back := ch_drop_back c;
                   ch_dup_fwd := ch_dup_fwd c; ch_dup_back := ch_dup_back c;
                   ch_tamper := ch_tamper c; ch_queue := ch_queue c |}
  | TsOpHold d => {| ch_fwd := ch_fwd c; ch_back := ch_back c; ch_hold := d;
                   ch_drop_fwd := ch_drop_fwd c; ch_drop_back := ch_drop_back c;
                   ch_dup_fwd := ch_dup_fwd c; ch_dup_back := ch_dup_back c;
                   ch_tamper := ch_tamper c; ch_queue := ch_queue c |}
  | TsOpDrop false => {| ch_fwd := ch_fwd c; ch_back := ch_back c; ch_hold := ch_hold c;
                       ch_drop_fwd := (ch_drop_fwd c + 1)%N; ch_drop_back := ch_drop_back c;
                       ch_dup_fwd := ch_dup_fwd c; ch_dup_back := ch_dup_back c;
                       ch_tamper := ch_tamper c; ch_queue := ch_queue c |}
  | TsOpDrop true => {| ch_fwd := ch_fwd c; ch_back := ch_back c; ch_hold := ch_hold c;
                      ch_drop_fwd := ch_drop_fwd c; ch_drop_back := (ch_drop_back c + 1)%N;
                      ch_dup_fwd := ch_dup_fwd c; ch_dup_back := ch_dup_back c;
                      ch_tamper := ch_tamper c; ch_queue := ch_queue c |}
  | TsOpDup false e => {| ch_fwd := ch_fwd c; ch_back := ch_back c; ch_hold := ch_hold c;
                        ch_drop_fwd := ch_drop_fwd c; ch_drop_back := ch_drop_back c;
                        ch_dup_fwd := Some e; ch_dup_back := ch_dup_back c;
                        ch_tamper := ch_tamper c; ch_queue := ch_queue c |}
  | TsOpDup true e => {| ch_fwd := ch_fwd c; ch_back := ch_back c; ch_hold := ch_hold c;
                       ch_drop_fwd := ch_drop_fwd c; ch_drop_back := ch_drop_back c;
                       ch_dup_fwd := ch_dup_fwd c; ch_dup_back := Some e;
                       ch_tamper := ch_tamper c; ch_queue := ch_queue c |}
  | TsOpTamper t => {| ch_fwd := ch_fwd c; ch_back := ch_back c; ch_hold := ch_hold c;
                     ch_drop_fwd := ch_drop_fwd c; ch_drop_back := ch_drop_back c;
                     ch_dup_fwd := ch_dup_fwd c; ch_dup_back := ch_dup_back c;
                     ch_tamper := ch_tamper c ++ [t]; ch_queue := ch_queue c |}
  | _ => c
  end.

(* events one `run` can process: every message delivered or deadline fired consumes one unit;
   a synchronisation sends at most two requests (each possibly duplicated, each answered), an
   injected fragment causes at most one confirm *)
Definition ts_run_fuel (s : ts_sim) : nat :=
  (64 + 16 * (length (tss_pend s) + length (tm_q (tss_m s)) + length (ch_queue (tss_c s))))%nat.

Definition ts_do_op (cfg : ts_cfg) (s : ts_sim) (o : ts_op) : ts_sim * list ts_obs :=
  match o with
  | TsOpSync tok => (ts_set_pend s (tss_pend s ++ [tok]), [])
  | TsOpProc d => ({| tss_now := tss_now s; tss_on := tss_on s; tss_rep := Z.min d 65535; tss_pend := tss_pend s;
                    tss_m := tss_m s; tss_o := tss_o s; tss_c := tss_c s |}, [])
  | TsOpClock b => ({| tss_now := tss_now s; tss_on := b; tss_rep := tss_rep s; tss_pend := tss_pend s;
                     tss_m := tss_m s; tss_o := tss_o s; tss_c := tss_c s |}, [])
  | TsOpInject data =>
      let '(s1, obs) := m_deliver cfg s data in (s1, TsInj (tss_now s) data :: obs)
  | TsOpRun ms =>
      let fuel := ts_run_fuel s in
      (* the pending synchronize_time calls reach the master now, in order *)
      let s0 := ts_set_pend (ts_set_m s {| tm_seq := tm_seq (tss_m s); tm_cur := tm_cur (tss_m s);
                                     tm_q := tm_q (tss_m s) ++ tss_pend s |}) [] in
      let '(s1, o1) := m_try_start (S (length (tm_q (tss_m s0)))) cfg s0 in
      let '(s2, o2) := ts_run_loop fuel cfg (tss_now s + ms) s1 in
      (s2, o1 ++ o2)
  | _ => (ts_set_chan s (ts_upd_chan (tss_c s) o), [])
  end.

Fixpoint ts_do_ops (cfg : ts_cfg) (s : ts_sim) (ops : list ts_op) : ts_sim * list ts_obs :=
  match ops with
  | [] => (s, [])
  | o :: rest =>
      let '(s1, o1) := ts_do_op cfg s o in
      let '(s2, o2) := ts_do_ops cfg s1 rest in
      (s2, o1 ++ o2)
  end.

Definition ts_init_sim (cfg : ts_cfg) : ts_sim :=
  {| tss_now := 0; tss_on := true; tss_rep := 0; tss_pend := [];
     tss_m := {| tm_seq := 0%N; tm_cur := None; tm_q := [] |};
     tss_o := {| tos_time := {| to_rec := None;
                             to_need := match tsc_mode cfg with TsNClear => false | _ => true end |};
               tos_last := None |};
     tss_c := {| ch_fwd := 0; ch_back := 0; ch_hold := 0; ch_drop_fwd := 0%N; ch_drop_back := 0%N;
               ch_dup_fwd := None; ch_dup_back := None; ch_tamper := []; ch_queue := [] |} |}.

Definition run_tsync (cfg : ts_cfg) (ops : list ts_op) : list ts_obs :=
  let '(s, obs) := ts_do_ops cfg (ts_init_sim cfg) ops in
  obs ++ [TsClock (tss_now s) (ts_clock (tss_on s) (tsc_c0 cfg) (tss_now s))].
