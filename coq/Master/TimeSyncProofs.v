(* Master/TimeSyncProofs.v — accuracy and failure theorems of time synchronisation (C18).

   All statements quantify over every value in Z (no sampling); the arithmetic is closed by lia with
   Z.div_mod_to_equations (set in Base/Bytes.v).

   No rounding or settle slack appears in the statements, and this is justified as follows.
   (i) Settle: the tsync engine never settles with a tick.  It is woken at the very virtual instant a
   fragment is written (it awaits the mock's event channel) and advances the paused clock only by
   sleeping until the next scheduled arrival, which is a whole number of milliseconds after the
   start; so every instant the tasks observe is a whole millisecond and `Instant` differences are
   exact.  (ii) Rounding: the only sub-millisecond quantity in the code is `(interval - delay) / 2`
   in the non-LAN procedure, which `Timestamp::checked_add` truncates with `as_millis()`.  That floor
   is part of the model (Z division) and is absorbed by stating the bound as |d_back - d_fwd| / 2
   ROUNDED UP, exactly as the property is worded for whole-millisecond delays. *)
From Coq Require Import ZArith List Bool Lia.
From Dnp3V Require Import Base.Bytes Master.TimeSync.
Import ListNotations.
Open Scope Z_scope.

(* ------------------------------------------------------------------------------------------ *)
(* blocks                                                                                      *)

Lemma ts_checked_add_some v d r : ts_checked_add v d = Some r -> r = v + d /\ v + d <= ts_max.
Proof.
  unfold ts_checked_add. destruct (d >? ts_max - v) eqn:E; intro H; inversion H; subst. lia.
Qed.

Lemma ts_checked_add_none v d : ts_checked_add v d = None -> v + d > ts_max.
Proof. unfold ts_checked_add. destruct (d >? ts_max - v) eqn:E; intro H; [lia|discriminate]. Qed.

Lemma ts_clock_some on c0 t c : ts_clock on c0 t = Some c -> c = c0 + t /\ c0 + t <= ts_max.
Proof.
  unfold ts_clock. destruct on; [|discriminate].
  destruct (c0 + t <=? ts_max) eqn:E; intro H; inversion H; subst. lia.
Qed.

(* the task completes only on a response that carries no objects and does not indicate NEED_TIME,
   and only from one of the two WRITE states *)
Lemma m_handle_done s clk now need o :
  m_handle s clk now need o = TsDone ->
  o = TsONone /\ need = false /\ (exists ts, s = TsSWriteAbs ts \/ s = TsSWriteLast ts).
Proof.
  destruct s as [st|ts|ts|ts]; cbn [m_handle].
  - destruct o as [|d|]; try discriminate.
    destruct (now - st <? d); try discriminate.
    destruct clk as [c|]; try discriminate.
    destruct (ts_checked_add c ((now - st - d) / 2)); discriminate.
  - destruct o; try discriminate. destruct need; try discriminate. intros _. repeat split. exists ts; auto.
  - destruct o; discriminate.
  - destruct o; try discriminate. destruct need; try discriminate. intros _. repeat split. exists ts; auto.
Qed.

(* the task goes on to its second request only on exactly the expected objects *)
Lemma m_handle_next s clk now need o s' :
  m_handle s clk now need o = TsNext s' ->
  (exists st d c, s = TsSMeasure st /\ o = TsODelay d /\ d <= now - st /\ clk = Some c /\
                  s' = TsSWriteAbs (c + (now - st - d) / 2) /\ c + (now - st - d) / 2 <= ts_max)
  \/ (exists ts, s = TsSRecord ts /\ o = TsONone /\ s' = TsSWriteLast ts).
Proof.
  destruct s as [st|ts|ts|ts]; cbn [m_handle].
  - destruct o as [|d|]; try discriminate.
    destruct (now - st <? d) eqn:Elt; try discriminate.
    destruct clk as [c|]; try discriminate.
    destruct (ts_checked_add c ((now - st - d) / 2)) as [r|] eqn:Eadd; try discriminate.
    intro H; inversion H; subst s'. apply ts_checked_add_some in Eadd. destruct Eadd as [-> Hle].
    left. exists st, d, c. repeat split; auto. lia.
  - destruct o; try discriminate. destruct need; discriminate.
  - destruct o; try discriminate. intro H; inversion H. right. exists ts. auto.
  - destruct o; try discriminate. destruct need; discriminate.
Qed.

(* unexpected objects never let the task proceed *)
Lemma m_handle_unexpected_objects s clk now need :
  m_handle s clk now need TsOOther = TsFail TsEHeaders
  /\ (forall d, (forall st, s <> TsSMeasure st) -> m_handle s clk now need (TsODelay d) = TsFail TsEHeaders)
  /\ (forall st, s = TsSMeasure st -> m_handle s clk now need TsONone = TsFail TsEHeaders).
Proof.
  repeat split.
  - destruct s; reflexivity.
  - intros d Hs. destruct s as [st| | |]; try reflexivity. exfalso. apply (Hs st). reflexivity.
  - intros st ->. reflexivity.
Qed.

(* raw objects: only the empty string counts as "no objects", only a single g52v2 with count one
   (either count qualifier) counts as a delay; every other byte string is unexpected *)
Lemma ts_classify_objs_none l : ts_classify_objs l = TsONone <-> l = [].
Proof.
  split; [|intros ->; reflexivity].
  destruct l as [|a l]; [reflexivity|].
  unfold ts_classify_objs.
  repeat match goal with
         | |- context [match ?x with _ => _ end] => destruct x; try discriminate
         end.
Qed.

(* ------------------------------------------------------------------------------------------ *)
(* the procedures over an undisturbed channel                                                  *)

Ltac split_sync H :=
  repeat match type of H with
         | context [match ?x with _ => _ end] =>
             let E := fresh "E" in destruct x eqn:E; try discriminate
         | context [if ?x then _ else _] =>
             let E := fresh "E" in destruct x eqn:E; try discriminate
         end.

(* LAN: RECORD_CURRENT_TIME then WRITE g50v3.  On success the written time lags the master's clock
   by exactly the forward delay of the RECORD_CURRENT_TIME request, and it was written when the WRITE
   arrived. *)
Theorem lan_exact : forall P w tw,
  plain_sync TsLan P = TsSuccess w tw ->
  tw = tsp_t0 P + tsp_f1 P + tsp_b1 P + tsp_f2 P /\
  (tsp_c0 P + tw) - w = tsp_f1 P /\ w <= ts_max.
Proof.
  intros P w tw H.
  unfold plain_sync, m_start in H.
  destruct (ts_clock (tsp_on P) (tsp_c0 P) (tsp_t0 P)) as [c|] eqn:Ec; [|discriminate].
  apply ts_clock_some in Ec. destruct Ec as [-> Hc].
  cbn [ts_req_of o_handle or_st or_iin2 or_delay or_written ts_objs_of to_need to_rec m_handle] in H.
  destruct (tsp_t0 P + tsp_tmo P <=? tsp_t0 P + tsp_f1 P + tsp_b1 P); [discriminate|].
  cbn [negb Z.eqb] in H.
  cbn [ts_req_of o_handle or_st or_iin2 or_delay or_written ts_objs_of to_need to_rec m_handle] in H.
  destruct (ts_checked_add (tsp_c0 P + tsp_t0 P)
              (tsp_t0 P + tsp_f1 P + tsp_b1 P + tsp_f2 P - (tsp_t0 P + tsp_f1 P))) as [v|] eqn:Ea;
    cbn [or_st or_iin2 or_delay or_written ts_objs_of to_need to_rec m_handle] in H.
  - apply ts_checked_add_some in Ea. destruct Ea as [-> Hle].
    split_sync H. unfold ts_finish in H. inversion H; subst. lia.
  - split_sync H.
Qed.

Theorem lan_error : forall P w tw,
  0 <= tsp_f1 P ->
  plain_sync TsLan P = TsSuccess w tw ->
  Z.abs (w - (tsp_c0 P + tw)) <= tsp_f1 P.
Proof.
  intros P w tw Hf H. destruct (lan_exact P w tw H) as [_ [He _]]. lia.
Qed.

(* direct WRITE of g50v1 (third procedure, no delay compensation): the written time lags by the
   forward delay of the WRITE *)
Theorem direct_exact : forall P w tw,
  plain_sync TsDirect P = TsSuccess w tw ->
  tw = tsp_t0 P + tsp_f1 P /\ (tsp_c0 P + tw) - w = tsp_f1 P /\ w <= ts_max.
Proof.
  intros P w tw H.
  unfold plain_sync, m_start in H.
  destruct (ts_clock (tsp_on P) (tsp_c0 P) (tsp_t0 P)) as [c|] eqn:Ec; [|discriminate].
  apply ts_clock_some in Ec. destruct Ec as [-> Hc].
  cbn [ts_req_of o_handle or_st or_iin2 or_delay or_written ts_objs_of to_need to_rec m_handle] in H.
  destruct (tsp_t0 P + tsp_tmo P <=? tsp_t0 P + tsp_f1 P + tsp_b1 P); [discriminate|].
  cbn [negb Z.eqb] in H.
  destruct (ts_after_write (tsp_mode P) (tsp_need0 P)); [discriminate|].
  unfold ts_finish in H. inversion H; subst. lia.
Qed.

Theorem direct_error : forall P w tw,
  0 <= tsp_f1 P ->
  plain_sync TsDirect P = TsSuccess w tw ->
  Z.abs (w - (tsp_c0 P + tw)) <= tsp_f1 P.
Proof.
  intros P w tw Hf H. destruct (direct_exact P w tw H) as [_ [He _]]. lia.
Qed.

(* non-LAN: DELAY_MEASURE then WRITE g50v1.  rtt = f1 + b1 is the measured round trip (b1 = actual
   processing delay + backward delay); the written value is the master clock at the instant the
   response arrived plus half of (rtt - reported delay), truncated to a millisecond *)
Theorem nonlan_exact : forall P w tw,
  plain_sync TsNonLan P = TsSuccess w tw ->
  tw = tsp_t0 P + tsp_f1 P + tsp_b1 P + tsp_f2 P /\
  tsp_rep P <= tsp_f1 P + tsp_b1 P /\
  w = tsp_c0 P + (tsp_t0 P + tsp_f1 P + tsp_b1 P) + (tsp_f1 P + tsp_b1 P - tsp_rep P) / 2 /\
  w <= ts_max.
Proof.
  intros P w tw H.
  unfold plain_sync, m_start in H.
  destruct (ts_clock (tsp_on P) (tsp_c0 P) (tsp_t0 P)) as [c|] eqn:Ec; [|discriminate].
  cbn [ts_req_of o_handle or_st or_iin2 or_delay or_written ts_objs_of to_need to_rec] in H.
  destruct (tsp_t0 P + tsp_tmo P <=? tsp_t0 P + tsp_f1 P + tsp_b1 P); [discriminate|].
  cbn [negb Z.eqb] in H.
  destruct (m_handle (TsSMeasure (tsp_t0 P))
              (ts_clock (tsp_on P) (tsp_c0 P) (tsp_t0 P + tsp_f1 P + tsp_b1 P))
              (tsp_t0 P + tsp_f1 P + tsp_b1 P) (tsp_need0 P) (TsODelay (tsp_rep P))) as [s2| |e] eqn:Eh;
    try discriminate.
  apply m_handle_next in Eh.
    destruct Eh as [[st [d [c1 [Hs [Ho [Hd [Hc [Hs2 Hmax]]]]]]]]|[ts [Hs _]]]; [|discriminate].
    inversion Hs; subst st. inversion Ho; subst d. subst s2.
    apply ts_clock_some in Hc. destruct Hc as [-> Hc1].
    cbn [ts_req_of o_handle or_st or_iin2 or_delay or_written ts_objs_of to_need to_rec m_handle] in H.
    destruct (tsp_t0 P + tsp_f1 P + tsp_b1 P + tsp_tmo P <=?
              tsp_t0 P + tsp_f1 P + tsp_b1 P + tsp_f2 P + tsp_b2 P); [discriminate|].
    cbn [negb Z.eqb] in H.
    destruct (ts_after_write (tsp_mode P) (tsp_need0 P)); [discriminate|].
    unfold ts_finish in H. inversion H; subst.
    replace (tsp_t0 P + tsp_f1 P + tsp_b1 P - tsp_t0 P - tsp_rep P)
      with (tsp_f1 P + tsp_b1 P - tsp_rep P) in * by lia.
    repeat split; try lia.
Qed.

(* honest report: the outstation reports exactly the time it held the response (hold), the rest of
   b1 is the backward transmission delay.  The error is then f2 - floor((f1 + back) / 2). *)
Theorem nonlan_error_general : forall P hold back w tw,
  tsp_b1 P = hold + back -> tsp_rep P = hold ->
  0 <= tsp_f1 P -> 0 <= back ->
  plain_sync TsNonLan P = TsSuccess w tw ->
  (tsp_c0 P + tw) - w = tsp_f2 P - (tsp_f1 P + back) / 2 /\
  Z.abs (w - (tsp_c0 P + tw)) <= (Z.abs (back - tsp_f1 P) + 1) / 2 + Z.abs (tsp_f2 P - tsp_f1 P).
Proof.
  intros P hold back w tw Hb Hrep Hf Hback H.
  destruct (nonlan_exact P w tw H) as [Htw [_ [Hw _]]].
  rewrite Hb, Hrep in Hw.
  replace (tsp_f1 P + (hold + back) - hold) with (tsp_f1 P + back) in Hw by lia.
  split; [lia|]. lia.
Qed.

(* the statement of the property: same forward delay for both requests *)
Theorem nonlan_error : forall P hold back w tw,
  tsp_b1 P = hold + back -> tsp_rep P = hold ->
  tsp_f2 P = tsp_f1 P -> 0 <= tsp_f1 P -> 0 <= back ->
  plain_sync TsNonLan P = TsSuccess w tw ->
  Z.abs (w - (tsp_c0 P + tw)) <= (Z.abs (back - tsp_f1 P) + 1) / 2.
Proof.
  intros P hold back w tw Hb Hrep Hf2 Hf Hback H.
  destruct (nonlan_error_general P hold back w tw Hb Hrep Hf Hback H) as [_ Hle].
  rewrite Hf2 in Hle. replace (tsp_f1 P - tsp_f1 P) with 0 in Hle by lia. cbn [Z.abs] in Hle. lia.
Qed.

Theorem nonlan_equal_delays : forall P hold w tw,
  tsp_b1 P = hold + tsp_f1 P -> tsp_rep P = hold -> tsp_f2 P = tsp_f1 P -> 0 <= tsp_f1 P ->
  plain_sync TsNonLan P = TsSuccess w tw ->
  w = tsp_c0 P + tw.
Proof.
  intros P hold w tw Hb Hrep Hf2 Hf H.
  destruct (nonlan_error_general P hold (tsp_f1 P) w tw Hb Hrep Hf Hf H) as [He _].
  rewrite Hf2 in He. lia.
Qed.

(* The processing delay travels in g52v2, an unsigned 16-bit count of milliseconds
   (OutstationApplication::get_processing_delay_ms returns u16).  An outstation that really holds its
   answer longer than 65535 ms cannot report it; with the saturated report the error grows by half of
   the unreported part, whatever the line looks like: *)
Theorem nonlan_saturated_error : forall P hold back w tw,
  tsp_b1 P = hold + back -> tsp_rep P = 65535 -> 65535 <= hold ->
  plain_sync TsNonLan P = TsSuccess w tw ->
  (tsp_c0 P + tw) - w = tsp_f2 P - (tsp_f1 P + back + (hold - 65535)) / 2.
Proof.
  intros P hold back w tw Hb Hrep Hh H.
  destruct (nonlan_exact P w tw H) as [Htw [_ [Hw _]]].
  rewrite Hb, Hrep in Hw.
  replace (tsp_f1 P + (hold + back) - 65535) with (tsp_f1 P + back + (hold - 65535)) in Hw by lia.
  lia.
Qed.

(* ... so the bound of nonlan_error, read with "the delay the outstation reports as well as the
   protocol lets it" in place of "rep = hold", is FALSE for processing delays beyond 65535 ms:
   symmetric line of 10 ms each way, answer held 70000 ms, report 65535 ms, success, and the written
   time is 2232 ms ahead of the master's clock (bound for a symmetric line: 0).  Witness replayed on
   the implementation: corpus/C18/nonlan_processing_beyond_u16.txt.  This is a limit of the object
   format, not a defect of the arithmetic; C18's hypothesis "honestly reports" excludes it. *)
Lemma nonlan_beyond_u16_refuted :
  exists P hold back w tw,
    tsp_b1 P = hold + back /\ tsp_rep P = Z.min hold 65535 /\ tsp_f2 P = tsp_f1 P /\
    0 <= tsp_f1 P /\ 0 <= back /\
    plain_sync TsNonLan P = TsSuccess w tw /\
    Z.abs (w - (tsp_c0 P + tw)) > (Z.abs (back - tsp_f1 P) + 1) / 2.
Proof.
  exists {| tsp_c0 := 1000000; tsp_on := true; tsp_t0 := 0; tsp_f1 := 10; tsp_b1 := 70010; tsp_f2 := 10;
            tsp_b2 := 70010; tsp_tmo := 400003; tsp_rep := 65535; tsp_mode := TsNAuto; tsp_need0 := true;
            tsp_rec0 := None |}, 70000, 10, 1072262, 70030.
  vm_compute. repeat split; try reflexivity; discriminate.
Qed.

(* ------------------------------------------------------------------------------------------ *)
(* a synchronisation that must fail is never reported successful                               *)

(* which objects a state of the task accepts *)
Definition expected_objs (s : ts_state) (o : ts_robjs) : Prop :=
  match s with
  | TsSMeasure _ => exists d, o = TsODelay d
  | _ => o = TsONone
  end.

Lemma m_handle_proceeds_only_on_expected s clk now need o :
  (m_handle s clk now need o = TsDone \/ exists s', m_handle s clk now need o = TsNext s') ->
  expected_objs s o.
Proof.
  intros [H|[s' H]].
  - apply m_handle_done in H. destruct H as [-> [_ [ts [->| ->]]]]; reflexivity.
  - apply m_handle_next in H.
    destruct H as [[st [d [c [-> [-> _]]]]]|[ts [-> [-> _]]]]; cbn [expected_objs]; eauto.
Qed.

Lemma m_handle_unexpected_fails s clk now need o :
  ~ expected_objs s o -> m_handle s clk now need o = TsFail TsEHeaders.
Proof.
  intro Hn. destruct s as [st|ts|ts|ts]; destruct o as [|d|]; cbn [m_handle expected_objs] in *;
    try reflexivity; exfalso; apply Hn; eauto.
Qed.

Theorem sync_fails_when_it_must : forall p P,
  (* the outstation reports a processing delay exceeding the measured round trip *)
  (p = TsNonLan -> tsp_rep P > tsp_f1 P + tsp_b1 P -> forall w tw, plain_sync p P <> TsSuccess w tw) /\
  (* the outstation still indicates NEED_TIME after the WRITE *)
  (ts_after_write (tsp_mode P) (tsp_need0 P) = true -> forall w tw, plain_sync p P <> TsSuccess w tw) /\
  (* the time to be written does not fit 48 bits: the master's sum (non-LAN), the outstation's sum
     (LAN), or the master's clock itself *)
  (p = TsNonLan ->
   tsp_c0 P + (tsp_t0 P + tsp_f1 P + tsp_b1 P) + (tsp_f1 P + tsp_b1 P - tsp_rep P) / 2 > ts_max ->
   forall w tw, plain_sync p P <> TsSuccess w tw) /\
  (p = TsLan -> tsp_c0 P + tsp_t0 P + (tsp_b1 P + tsp_f2 P) > ts_max ->
   forall w tw, plain_sync p P <> TsSuccess w tw) /\
  (p = TsDirect -> tsp_c0 P + tsp_t0 P > ts_max -> forall w tw, plain_sync p P <> TsSuccess w tw) /\
  (forall w tw, plain_sync p P = TsSuccess w tw -> w <= ts_max) /\
  (* unexpected objects in either response: the task fails on them in every state *)
  (forall s clk now need o, ~ expected_objs s o -> m_handle s clk now need o = TsFail TsEHeaders) /\
  (* and a response that indicates NEED_TIME never completes the task *)
  (forall s clk now o, m_handle s clk now true o <> TsDone).
Proof.
  intros p P. repeat split.
  - intros -> Hrep w tw H. destruct (nonlan_exact P w tw H) as [_ [Hle _]]. lia.
  - intros Hneed w tw H.
    destruct p.
    + unfold plain_sync, m_start in H.
      destruct (ts_clock (tsp_on P) (tsp_c0 P) (tsp_t0 P)) as [c|]; [|discriminate].
      cbn [ts_req_of o_handle or_st or_iin2 or_delay or_written ts_objs_of to_need to_rec m_handle] in H.
      destruct (tsp_t0 P + tsp_tmo P <=? tsp_t0 P + tsp_f1 P + tsp_b1 P); [discriminate|].
      cbn [negb Z.eqb] in H.
      cbn [ts_req_of o_handle or_st or_iin2 or_delay or_written ts_objs_of to_need to_rec m_handle] in H.
      destruct (ts_checked_add c (tsp_t0 P + tsp_f1 P + tsp_b1 P + tsp_f2 P - (tsp_t0 P + tsp_f1 P)));
        cbn [or_st or_iin2 or_delay or_written ts_objs_of to_need to_rec m_handle] in H.
      * rewrite Hneed in H.
        destruct (tsp_t0 P + tsp_f1 P + tsp_b1 P + tsp_tmo P <=?
                  tsp_t0 P + tsp_f1 P + tsp_b1 P + tsp_f2 P + tsp_b2 P); [discriminate|].
        cbn [negb Z.eqb] in H. discriminate.
      * destruct (tsp_t0 P + tsp_f1 P + tsp_b1 P + tsp_tmo P <=?
                  tsp_t0 P + tsp_f1 P + tsp_b1 P + tsp_f2 P + tsp_b2 P); [discriminate|].
        cbn [negb Z.eqb] in H. discriminate.
    + unfold plain_sync, m_start in H.
      destruct (ts_clock (tsp_on P) (tsp_c0 P) (tsp_t0 P)) as [c|]; [|discriminate].
      cbn [ts_req_of o_handle or_st or_iin2 or_delay or_written ts_objs_of to_need to_rec] in H.
      destruct (tsp_t0 P + tsp_tmo P <=? tsp_t0 P + tsp_f1 P + tsp_b1 P); [discriminate|].
      cbn [negb Z.eqb] in H.
      destruct (m_handle (TsSMeasure (tsp_t0 P))
                  (ts_clock (tsp_on P) (tsp_c0 P) (tsp_t0 P + tsp_f1 P + tsp_b1 P))
                  (tsp_t0 P + tsp_f1 P + tsp_b1 P) (tsp_need0 P) (TsODelay (tsp_rep P))) as [s2| |e] eqn:Eh;
        try discriminate.
      apply m_handle_next in Eh.
      destruct Eh as [[st [d [c1 [Hs [Ho [Hd [Hc [Hs2 Hmax]]]]]]]]|[ts [Hs _]]]; [|discriminate].
      subst s2.
      cbn [ts_req_of o_handle or_st or_iin2 or_delay or_written ts_objs_of to_need to_rec m_handle] in H.
      rewrite Hneed in H.
      destruct (tsp_t0 P + tsp_f1 P + tsp_b1 P + tsp_tmo P <=?
                tsp_t0 P + tsp_f1 P + tsp_b1 P + tsp_f2 P + tsp_b2 P); [discriminate|].
      cbn [negb Z.eqb] in H. discriminate.
    + unfold plain_sync, m_start in H.
      destruct (ts_clock (tsp_on P) (tsp_c0 P) (tsp_t0 P)) as [c|]; [|discriminate].
      cbn [ts_req_of o_handle or_st or_iin2 or_delay or_written ts_objs_of to_need to_rec m_handle] in H.
      rewrite Hneed in H.
      destruct (tsp_t0 P + tsp_tmo P <=? tsp_t0 P + tsp_f1 P + tsp_b1 P); [discriminate|].
      cbn [negb Z.eqb] in H. discriminate.
  - intros -> Hov w tw H. destruct (nonlan_exact P w tw H) as [_ [_ [Hw Hmax]]]. lia.
  - intros -> Hov w tw H. destruct (lan_exact P w tw H) as [Htw [He Hmax]]. lia.
  - intros -> Hov w tw H. destruct (direct_exact P w tw H) as [Htw [He Hmax]]. lia.
  - intros w tw H. destruct p.
    + apply (lan_exact P w tw H).
    + apply (nonlan_exact P w tw H).
    + apply (direct_exact P w tw H).
  - intros s clk now need o. apply m_handle_unexpected_fails.
  - intros s clk now o H. apply m_handle_done in H. destruct H as [_ [Hn _]]. discriminate.
Qed.

(* ------------------------------------------------------------------------------------------ *)
(* the closed form against the simulated engine (master task + outstation task + channel, through
   the byte encodings): a finite sweep evaluated by the kernel.  The same comparison is repeated at
   run time by ocaml/eng_tsync.ml on every generated script that declares itself plain. *)

Definition ts_err_eqb (a b : ts_err) : bool :=
  match a, b with
  | TsETimeout, TsETimeout | TsEIin2, TsEIin2 | TsEHeaders, TsEHeaders | TsEMultiFrag, TsEMultiFrag
  | TsEOverflow, TsEOverflow | TsENeedTime, TsENeedTime | TsENoSysTime, TsENoSysTime => true
  | TsEDelay x, TsEDelay y => x =? y
  | _, _ => false
  end.

(* what the trace of the engine says about the synchronisation with token 0: its outcome, and for a
   success the last time handed to the application before it *)
Fixpoint engine_outcome (last : option (Z * Z)) (obs : list ts_obs) : option ts_outcome :=
  match obs with
  | [] => None
  | TsWritten t v :: rest => engine_outcome (Some (v, t)) rest
  | TsRes 0%N None :: _ => match last with Some (v, t) => Some (TsSuccess v t) | None => None end
  | TsRes 0%N (Some e) :: _ => Some (TsFailure e)
  | _ :: rest => engine_outcome last rest
  end.

Definition outcome_agrees (e : option ts_outcome) (c : ts_outcome) : bool :=
  match e, c with
  | Some (TsSuccess v t), TsSuccess v' t' => (v =? v') && (t =? t')
  | Some (TsFailure a), TsFailure b => ts_err_eqb a b
  | _, _ => false
  end.

Definition grid_script (f b h rep : Z) : list ts_op :=
  [TsOpFwd f; TsOpBack b; TsOpHold h; TsOpProc rep; TsOpSync 0%N; TsOpRun 1000000].

Definition grid_sched (c0 f b h rep tmo : Z) (m : ts_need_mode) : ts_sched :=
  {| tsp_c0 := c0; tsp_on := true; tsp_t0 := 0; tsp_f1 := f; tsp_b1 := h + b; tsp_f2 := f; tsp_b2 := h + b;
     tsp_tmo := tmo; tsp_rep := Z.min rep 65535; tsp_mode := m;
     tsp_need0 := match m with TsNClear => false | _ => true end; tsp_rec0 := None |}.

Lemma engine_agrees_with_closed_form_on_grid :
  forallb (fun p =>
  forallb (fun m =>
  forallb (fun tmo =>
  forallb (fun c0 =>
  forallb (fun f =>
  forallb (fun b =>
  forallb (fun h =>
  forallb (fun rep =>
    outcome_agrees
      (engine_outcome None
         (run_tsync {| tsc_c0 := c0; tsc_proc := p; tsc_tmo := tmo; tsc_mode := m |} (grid_script f b h rep)))
      (plain_sync p (grid_sched c0 f b h rep tmo m)))
    [h; h + 1; f + h + b; f + h + b + 1; 65535])
    [0; 7; 65536])
    [0; 1; 3; 65535])
    [0; 1; 2; 500; 70000])
    [0; 140737488355328; ts_max - 70000; ts_max])
    [400003; 1001])
    [TsNAuto; TsNStuck])
    [TsLan; TsNonLan; TsDirect]
  = true.
Proof. vm_compute. reflexivity. Qed.

(* ------------------------------------------------------------------------------------------ *)
(* bytes: what one task encodes the other decodes                                              *)

Lemma de48_le48 v : 0 <= v <= ts_max ->
  match le48 v with
  | [b0; b1; b2; b3; b4; b5] => de48 b0 b1 b2 b3 b4 b5 = v
  | _ => False
  end.
Proof.
  intro Hv. unfold le48, ts_le_bytes, de48, ts_max in *.
  rewrite !Z2N.id by (apply Z.mod_pos_bound; lia).
  lia.
Qed.

Lemma parse_enc_req seq r :
  (seq < 16)%N ->
  match r with TsRWriteAbs ts | TsRWriteLast ts => 0 <= ts <= ts_max | _ => True end ->
  ts_parse_req (ts_enc_req seq r) = TsQReq r.
Proof.
  intros Hs Hr. destruct r as [| |ts|ts]; try reflexivity.
  - pose proof (de48_le48 ts Hr) as H. unfold ts_enc_req. unfold le48, ts_le_bytes in *.
    cbn [app ts_parse_req]. rewrite H. reflexivity.
  - pose proof (de48_le48 ts Hr) as H. unfold ts_enc_req. unfold le48, ts_le_bytes in *.
    cbn [app ts_parse_req]. rewrite H. reflexivity.
Qed.

Lemma classify_delay_objs d : 0 <= d <= 65535 -> ts_classify_objs (ts_delay_objs d) = TsODelay d.
Proof.
  intro Hd. unfold ts_delay_objs, ts_classify_objs.
  rewrite !Z2N.id by (apply Z.mod_pos_bound; lia). f_equal. lia.
Qed.

(* ------------------------------------------------------------------------------------------ *)
(* the simulated tasks apply exactly the blocks of the closed form to what they decode:
   outstation: a request that is not a repetition of the previous one is handled by o_handle and the
   application is handed the time o_handle computes, at the instant of arrival;
   master: a well-formed response with the sequence number of the pending request, FIR|FIN, no IIN2
   rejection, is handed to m_handle with its NEED_TIME bit and its classified objects *)

Lemma seq_cases (seq : N) : (seq < 16)%N ->
  In seq [0; 1; 2; 3; 4; 5; 6; 7; 8; 9; 10; 11; 12; 13; 14; 15]%N.
Proof.
  intro H. 
  assert (Hc : (seq = 0 \/ seq = 1 \/ seq = 2 \/ seq = 3 \/ seq = 4 \/ seq = 5 \/ seq = 6 \/ seq = 7 \/ seq = 8 \/ seq = 9 \/ seq = 10 \/ seq = 11 \/ seq = 12 \/ seq = 13 \/ seq = 14 \/ seq = 15)%N) by lia.
  cbn [In]. intuition congruence.
Qed.

Lemma outstation_wrote_keeps_o s data s' obs :
  ts_outstation_wrote s data = (s', obs) ->
  tss_o s' = tss_o s /\ (forall t v, ~ In (TsWritten t v) obs).
Proof.
  unfold ts_outstation_wrote.
  destruct (0 <? ch_drop_back (tss_c s))%N.
  - intro H; inversion H; subst. split; [reflexivity|]. intros t v [Hin|[]]. discriminate.
  - destruct (ch_dup_back (tss_c s)).
    + intro H; inversion H; subst. split; [reflexivity|]. intros t v [Hin|[Hin|[]]]; discriminate.
    + intro H; inversion H; subst. split; [reflexivity|]. intros t v [Hin|[]]. discriminate.
Qed.

Lemma o_deliver_uses_o_handle cfg s seq r :
  (seq < 16)%N ->
  match r with TsRWriteAbs ts | TsRWriteLast ts => 0 <= ts <= ts_max | _ => True end ->
  tos_last (tss_o s) = None ->
  let res := o_handle (tsc_mode cfg) (tss_rep s) (tos_time (tss_o s)) (tss_now s) r in
  exists s' rest,
    o_deliver cfg s (ts_enc_req seq r) =
      (s', match or_written res with Some v => TsWritten (tss_now s) v :: rest | None => rest end) /\
    tos_time (tss_o s') = or_st res /\
    (forall t v, ~ In (TsWritten t v) rest).
Proof.
  intros Hs Hr Hlast res.
  unfold o_deliver. rewrite (parse_enc_req seq r Hs Hr). rewrite Hlast.
  fold res.
  match goal with |- context [ts_outstation_wrote ?a ?b] => destruct (ts_outstation_wrote a b) as [s1 obs] eqn:Ew end.
  apply outstation_wrote_keeps_o in Ew. destruct Ew as [Ho Hnw].
  exists s1, obs. split; [reflexivity|]. split; [|exact Hnw].
  rewrite Ho. reflexivity.
Qed.

Lemma ctl_bits seq : (seq < 16)%N ->
  ((192 + seq) mod 16 = seq)%N /\ N.testbit (192 + seq) 7 = true /\ N.testbit (192 + seq) 6 = true /\
  N.testbit (192 + seq) 5 = false /\ N.testbit (192 + seq) 4 = false.
Proof.
  intro H. pose proof (seq_cases seq H) as Hc. cbn [In] in Hc.
  repeat (destruct Hc as [Hc|Hc]; [subst seq; vm_compute; auto|]). destruct Hc.
Qed.

Lemma m_deliver_uses_m_handle cfg s t iin1 iin2 objs :
  tm_cur (tss_m s) = Some t -> (mt_seq t < 16)%N ->
  N.testbit iin1 7 = false -> N.land iin2 7 = 0%N ->
  m_deliver cfg s (ts_enc_resp (mt_seq t) iin1 iin2 objs) =
    match m_handle (mt_state t) (ts_clock (tss_on s) (tsc_c0 cfg) (tss_now s)) (tss_now s)
                   (N.testbit iin1 4) (ts_classify_objs objs) with
    | TsFail e => m_finish cfg s (mt_token t) (Some e)
    | TsDone => m_finish cfg s (mt_token t) None
    | TsNext st =>
        let sq := tm_seq (tss_m s) in
        ts_master_wrote
          (ts_set_m s {| tm_seq := ts_seq_next sq;
                         tm_cur := Some {| mt_token := mt_token t; mt_state := st; mt_seq := sq;
                                           mt_deadline := tss_now s + tsc_tmo cfg |};
                         tm_q := tm_q (tss_m s) |})
          (ts_enc_req sq (ts_req_of st))
    end.
Proof.
  intros Hcur Hseq Hr Hi2.
  destruct (ctl_bits (mt_seq t) Hseq) as [Hm [H7 [H6 [H5 H4]]]].
  unfold m_deliver, ts_enc_resp. cbn [app].
  rewrite Hr, Hm, H7, H6, H4, Hcur.
  change (129 =? 130)%N with false. change (129 =? 129)%N with true.
  rewrite N.eqb_refl, Hi2. cbn [negb andb]. rewrite N.eqb_refl. cbn [negb].
  reflexivity.
Qed.
