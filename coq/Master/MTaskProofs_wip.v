From Dnp3V Require Import Base.Bytes Master.MParse Master.Command Master.CommandProofs Master.MTask.
Import MP MCmd MT.

(* ---------------------------------------------------------------------------------------- *)
(* observations that only the handling of a received fragment can produce *)

Definition active (o : mobs) : bool :=
  match o with
  | OInfoSuccess _ _ _ | OCbBegin _ _ | OCbItem _ | OCbEnd _ _ | OTxConfirm _ _ _ | OInfoUnsol _ _ => true
  | ORes _ ROk | ORes _ (ROkMs _) => true
  | _ => false
  end.

Definition passive (l : list tobs) : Prop := Forall (fun p => active (snd p) = false) l.

Lemma passive_nil : passive []. Proof. constructor. Qed.
Lemma passive_app a b : passive a -> passive b -> passive (a ++ b).
Proof. unfold passive. intros. apply Forall_app. auto. Qed.
Lemma passive_emit st o : active o = false -> passive (emit st o).
Proof. intros H. constructor; [exact H|constructor]. Qed.
Lemma passive_flat_map {A} (f : A -> list tobs) l : (forall x, passive (f x)) -> passive (flat_map f l).
Proof. intros H. induction l; cbn [flat_map]; [constructor|apply passive_app; auto]. Qed.

Lemma emit_app_cons st o l : emit st o ++ l = (s_now st, o) :: l.
Proof. reflexivity. Qed.
#[local] Opaque emit.

Ltac pas := repeat first [apply passive_nil | apply passive_app | apply passive_emit; reflexivity].

Lemma nr_error_passive cfg st k e st' o : nr_error cfg st k e = (st', o) -> passive o.
Proof.
  unfold nr_error. destruct k as [tok ph hs|tok|tok fc|tok cold|a]; intros H;
    try (injection H as <- <-; pas).
  destruct (s_assoc st); [destruct e|]; injection H as <- <-; pas.
Qed.

Lemma rd_error_passive cfg st k e st' o : rd_error cfg st k e = (st', o) -> passive o.
Proof.
  unfold rd_error. destruct k as [tok|]; intros H; [injection H as <- <-; pas|].
  destruct (s_assoc st); injection H as <- <-; pas.
Qed.

Lemma notify_fail_passive st ty e : passive (notify_fail st ty e).
Proof. unfold notify_fail. destruct (s_assoc st); pas. Qed.

Lemma fail_running_passive cfg st e st' o : fail_running cfg st e = (st', o) -> passive o.
Proof.
  unfold fail_running. destruct (s_run st) as [|k seq d sd|k seq f d sd|tok d]; intros H.
  - injection H as <- <-; pas.
  - destruct (nr_error cfg st k e) as [st1 o1] eqn:E. injection H as <- <-.
    apply passive_app; [eapply nr_error_passive; eauto|apply notify_fail_passive].
  - destruct (rd_error cfg st k e) as [st1 o1] eqn:E. injection H as <- <-.
    apply passive_app; [eapply rd_error_passive; eauto|apply notify_fail_passive].
  - injection H as <- <-; pas.
Qed.

Lemma send_nonread_passive cfg st k objs sd st' o : send_nonread cfg st k objs sd = (st', o) -> passive o.
Proof.
  unfold send_nonread. destruct (fits cfg objs); intros H.
  - injection H as <- <-; pas.
  - destruct (nr_error _ _ _ _) as [st2 o2] eqn:E. injection H as <- <-.
    apply passive_app; [eapply nr_error_passive; eauto|apply notify_fail_passive].
Qed.

Lemma start_nonread_passive cfg st k objs st' o : start_nonread cfg st k objs = (st', o) -> passive o.
Proof.
  unfold start_nonread. destruct (send_nonread _ _ _ _ _) as [st1 o1] eqn:E. intros H. injection H as <- <-.
  apply passive_app; [pas|eapply send_nonread_passive; eauto].
Qed.

Lemma start_read_passive cfg st k objs st' o : start_read cfg st k objs = (st', o) -> passive o.
Proof.
  unfold start_read. destruct (fits cfg objs); intros H.
  - injection H as <- <-; pas.
  - destruct (rd_error _ _ _ _) as [st2 o2] eqn:E. injection H as <- <-.
    apply passive_app; [pas|]. apply passive_app; [eapply rd_error_passive; eauto|apply notify_fail_passive].
Qed.

Lemma start_user_passive cfg st tok t st' o : start_user cfg st tok t = (st', o) -> passive o.
Proof.
  unfold start_user. destruct t; intros H;
    try (eapply start_read_passive; eassumption); try (eapply start_nonread_passive; eassumption).
  injection H as <- <-; pas.
Qed.

Lemma pump_passive fuel cfg : forall st st' o, pump fuel cfg st = (st', o) -> passive o.
Proof.
  induction fuel as [|f IH]; intros st st' o H; cbn [pump] in H.
  - injection H as <- <-; pas.
  - destruct (negb (s_conn st)); [injection H as <- <-; pas|].
    destruct (s_run st); try (injection H as <- <-; pas).
    destruct (next_task cfg st) as [|t|tok t|a|].
    + injection H as <- <-; pas.
    + injection H as <- <-; pas.
    + destruct (start_user _ _ _ _) as [st1 o1] eqn:E1. destruct (pump f cfg st1) as [st2 o2] eqn:E2.
      injection H as <- <-. apply passive_app; [eapply start_user_passive; eauto|eapply IH; eauto].
    + destruct (start_nonread _ _ _ _) as [st1 o1] eqn:E1. destruct (pump f cfg st1) as [st2 o2] eqn:E2.
      injection H as <- <-. apply passive_app; [eapply start_nonread_passive; eauto|eapply IH; eauto].
    + destruct (start_read _ _ _ _) as [st1 o1] eqn:E1. destruct (pump f cfg st1) as [st2 o2] eqn:E2.
      injection H as <- <-. apply passive_app; [eapply start_read_passive; eauto|eapply IH; eauto].
Qed.

Lemma run_pump_passive cfg st st' o : run_pump cfg st = (st', o) -> passive o.
Proof. apply pump_passive. Qed.

Lemma fire_passive cfg st st' o : fire cfg st = (st', o) -> passive o.
Proof.
  unfold fire, then_pump. destruct (s_run st); intros H; try (eapply run_pump_passive; eassumption);
    destruct (fail_running _ _ _) as [st1 o1] eqn:E1; destruct (run_pump cfg st1) as [st2 o2] eqn:E2;
    injection H as <- <-; (apply passive_app; [eapply fail_running_passive; eauto|eapply run_pump_passive; eauto]).
Qed.

Lemma advance_passive fuel cfg : forall st target st' o, advance fuel cfg st target = (st', o) -> passive o.
Proof.
  induction fuel as [|f IH]; intros st target st' o H; cbn [advance] in H.
  - injection H as <- <-; pas.
  - destruct (wake_time cfg st) as [d|]; [|injection H as <- <-; pas].
    destruct (d <=? target); [|injection H as <- <-; pas].
    destruct (fire _ _) as [st1 o1] eqn:E1. destruct (advance f cfg st1 target) as [st2 o2] eqn:E2.
    injection H as <- <-. apply passive_app; [eapply fire_passive; eauto|eapply IH; eauto].
Qed.

Lemma reset_assoc_passive st e st' o : reset_assoc st e = (st', o) -> passive o.
Proof. unfold reset_assoc. intros H. injection H as <- <-. apply passive_flat_map. intros x. pas. Qed.

Lemma stop_run_passive cfg st why st' o : stop_run cfg st why = (st', o) -> passive o.
Proof.
  unfold stop_run. destruct (fail_running _ _ _) as [st1 o1] eqn:E1.
  destruct (if s_assoc st1 then reset_assoc st1 (stop_err why) else (st1, [])) as [st2 o2] eqn:E2.
  intros H. injection H as <- <-.
  apply passive_app; [eapply fail_running_passive; eauto|]. apply passive_app; [|pas].
  destruct (s_assoc st1); [eapply reset_assoc_passive; eauto|injection E2 as <- <-; pas].
Qed.

Lemma try_connect_passive cfg st st' o : try_connect cfg st = (st', o) -> passive o.
Proof. unfold try_connect. destruct (_ && _); intros H; injection H as <- <-; pas. Qed.

Lemma on_user_passive cfg st tok t st' o : on_user cfg st tok t = (st', o) -> passive o.
Proof.
  unfold on_user. destruct (negb (s_assoc st)); [intros H; injection H as <- <-; pas|].
  destruct (negb (s_conn st)); [intros H; injection H as <- <-; pas|].
  destruct (_ <? _)%nat; intros H; injection H as <- <-; pas.
Qed.

Definition is_rx (ev : mevent) : bool := match ev with ERx _ _ _ _ => true | _ => false end.

Lemma on_event_passive_nonrx cfg st ev st' o :
  is_rx ev = false -> on_event cfg st ev = (st', o) -> passive o.
Proof.
  destruct ev as [src frag v items|ms|tok t| | | | | |]; cbn [is_rx on_event]; intros Hrx H; try discriminate.
  - injection H as <- <-; pas.
  - eapply on_user_passive; eauto.
  - destruct (s_conn st); [eapply stop_run_passive; eauto|injection H as <- <-; pas].
  - destruct (s_conn st); [injection H as <- <-; pas|eapply try_connect_passive; eauto].
  - destruct (s_conn st); [eapply stop_run_passive; eauto|injection H as <- <-; pas].
  - eapply try_connect_passive; eauto.
  - injection H as <- <-. apply passive_flat_map. intros x. pas.
  - destruct (if s_conn st then stop_run cfg st StShutdown else (st, [])) as [st1 o1] eqn:E.
    injection H as <- <-. apply passive_app; [|pas].
    destruct (s_conn st); [eapply stop_run_passive; eauto|injection E as <- <-; pas].
Qed.

(* one step = the stimulus' own effects, then only passive observations (tasks started, timeouts) *)
Lemma mstep_decomp cfg st ev st' o :
  s_stopped st = false -> mstep cfg st ev = (st', o) ->
  exists st1 o1 o2, on_event cfg st ev = (st1, o1) /\ o = (s_now st, OStep) :: o1 ++ o2 /\ passive o2.
Proof.
  unfold mstep, then_pump. intros Hs. rewrite Hs.
  destruct (on_event cfg st ev) as [st1 o1] eqn:E1.
  destruct (run_pump cfg st1) as [st2 o2] eqn:E2.
  destruct (advance _ cfg st2 _) as [st3 o3] eqn:E3.
  intros H. injection H as <- <-.
  exists st1, o1, (o2 ++ o3). split; [reflexivity|]. split.
  - rewrite emit_app_cons, app_assoc. reflexivity.
  - apply passive_app; [eapply run_pump_passive; eauto|eapply advance_passive; eauto].
Qed.

Lemma mstep_stopped cfg st ev : s_stopped st = true ->
  mstep cfg st ev = (st, [(s_now st, OStep); (s_now st, OIgnored)]).
Proof. unfold mstep. intros ->. reflexivity. Qed.

(* ---------------------------------------------------------------------------------------- *)
(* the active observations of a step, computed from the state BEFORE the step and the fragment:
   [rx_act] is the property's reading of "accepts only the answer to its question" *)

Definition act (l : list tobs) : list mobs := filter active (map snd l).

Lemma act_app a b : act (a ++ b) = act a ++ act b.
Proof. unfold act. rewrite map_app, filter_app. reflexivity. Qed.
Lemma act_nil : act [] = []. Proof. reflexivity. Qed.
Lemma act_cons t o l : act ((t, o) :: l) = (if active o then [o] else []) ++ act l.
Proof. unfold act. cbn [map snd filter]. destruct (active o); reflexivity. Qed.
Lemma act_emit st o : act (emit st o) = if active o then [o] else [].
Proof. Transparent emit. unfold emit, act. cbn [map snd filter]. destruct (active o); reflexivity. Qed.
#[local] Opaque emit.
Lemma act_passive l : passive l -> act l = [].
Proof.
  unfold act, passive. induction l as [|[t o] l IH]; intros H; [reflexivity|].
  inversion H as [|? ? Ho Hl]; subst. cbn [map snd filter] in *. rewrite Ho. auto.
Qed.
Lemma act_deliver st rt h items :
  act (deliver st rt h items) = OCbBegin rt (hdr_bytes h) :: map OCbItem items ++ [OCbEnd rt (hdr_bytes h)].
Proof.
  unfold deliver. rewrite !act_app, !act_emit. cbn [active app]. f_equal. f_equal.
  induction items as [|it items IH]; [reflexivity|].
  cbn [flat_map map]. rewrite act_app, act_emit, IH. reflexivity.
Qed.

(* what an unsolicited response does (fix 588059f included) *)
Definition unsol_accepts (cfg : mcfg) (st : mstate) (src : N) (h : rhdr) (objs : list byte) (v : verdict) : bool :=
  (src =? c_addr cfg) && s_assoc st
  && (integrity_complete cfg (process_iin st (h_iin1 h)) || match objs with [] => true | _ => false end)
  && match v with VOk => true | _ => false end.

Definition unsol_dup (st : mstate) (h : rhdr) (objs : list byte) : bool :=
  match s_last_unsol st with Some old => frag_eqb old (hdr_bytes h, objs) | None => false end.

Definition unsol_confirm (cfg : mcfg) (h : rhdr) : list mobs :=
  if c_con (h_ctrl h) then [OTxConfirm (c_addr cfg) true (c_seq (h_ctrl h))] else [].

Definition unsol_act (cfg : mcfg) (st : mstate) (src : N) (h : rhdr) (objs : list byte) (v : verdict)
  (items : list item) : list mobs :=
  if unsol_accepts cfg st src h objs v then
    if unsol_dup st h objs then OInfoUnsol true (c_seq (h_ctrl h)) :: unsol_confirm cfg h
    else (OCbBegin RtUnsol (hdr_bytes h) :: map OCbItem items ++ [OCbEnd RtUnsol (hdr_bytes h)])
         ++ OInfoUnsol false (c_seq (h_ctrl h)) :: unsol_confirm cfg h
  else [].

Lemma process_iin_last_unsol st i : s_last_unsol (process_iin st i) = s_last_unsol st.
Proof. unfold process_iin. destruct (iin1_restart i); [destruct (s_clear st)|]; reflexivity. Qed.

Lemma act_handle_unsol cfg st src h objs v items :
  act (snd (handle_unsol cfg st src h objs v items)) = unsol_act cfg st src h objs v items.
Proof.
  unfold handle_unsol, unsol_act, unsol_accepts, unsol_dup, unsol_confirm.
  destruct ((src =? c_addr cfg) && s_assoc st); cbn [andb snd]; [|reflexivity].
  destruct (integrity_complete cfg (process_iin st (h_iin1 h)) || match objs with [] => true | _ :: _ => false end);
    cbn [andb snd]; [|reflexivity].
  destruct v; cbn [snd]; try reflexivity.
  rewrite process_iin_last_unsol.
  destruct (match s_last_unsol st with Some old => frag_eqb old (hdr_bytes h, objs) | None => false end); cbn [snd].
  - rewrite act_app, act_emit. cbn [active app]. f_equal.
    destruct (c_con (h_ctrl h)); [rewrite act_emit|]; reflexivity.
  - rewrite !act_app, act_deliver, act_emit. cbn [active app]. f_equal. f_equal. f_equal.
    destruct (c_con (h_ctrl h)); [rewrite act_emit|]; reflexivity.
Qed.

(* the fragment is the (next fragment of the) answer to the outstanding request: addressed
   outstation and expected sequence number *)
Definition is_answer (cfg : mcfg) (st : mstate) (src : N) (h : rhdr) : bool :=
  (src =? c_addr cfg) &&
  match s_run st with
  | RNonRead _ seq _ _ => c_seq (h_ctrl h) =? seq
  | RRead _ seq _ _ _ => c_seq (h_ctrl h) =? seq
  | _ => false
  end.

(* FIR and FIN for everything but a READ; for a READ: FIR on the first fragment only, and a
   non-final fragment must request confirmation *)
Definition flags_ok (st : mstate) (h : rhdr) : bool :=
  let c := h_ctrl h in
  match s_run st with
  | RNonRead _ _ _ _ => c_fir c && c_fin c
  | RRead _ _ first _ _ => Bool.eqb (c_fir c) first && (c_fin c || c_con c)
  | _ => false
  end.

Definition accepted_answer (cfg : mcfg) (st : mstate) (src : N) (h : rhdr) : bool :=
  is_answer cfg st src h && flags_ok st h && negb (iin2_bad (h_iin2 h)).

Definition sol_confirm (cfg : mcfg) (h : rhdr) : list mobs :=
  if c_con (h_ctrl h) then [OTxConfirm (c_addr cfg) false (c_seq (h_ctrl h))] else [].

(* outcome of an accepted response to a non-READ request *)
Definition nr_act (k : nr_kind) (seq : N) (objs : list byte) (v : verdict) : list mobs :=
  let ok r := [ORes r ROk; OInfoSuccess (nr_type k) (nr_fc0 k) seq] in
  match k with
  | NRCommand tok ph hs =>
    match v, compare hs objs, ph with
    | VOk, COk, PhSelect => []
    | VOk, COk, _ => ok tok
    | _, _, _ => []
    end
  | NRDeadBand tok | NREmpty tok _ => match objs with [] => ok tok | _ => [] end
  | NRRestart tok _ =>
    match v, restart_delay objs with
    | VOk, Some ms => [ORes tok (ROkMs ms); OInfoSuccess (nr_type k) (nr_fc0 k) seq]
    | _, _ => []
    end
  | NRAuto _ => [OInfoSuccess (nr_type k) (nr_fc0 k) seq]
  end.

Definition rd_act (k : rd_kind) (seq : N) (h : rhdr) (items : list item) (cfg : mcfg) : list mobs :=
  (OCbBegin (rd_read_type k) (hdr_bytes h) :: map OCbItem items ++ [OCbEnd (rd_read_type k) (hdr_bytes h)])
  ++ sol_confirm cfg h
  ++ (if c_fin (h_ctrl h) then
        (match k with RDUser tok => [ORes tok ROk] | RDIntegrity => [] end) ++ [OInfoSuccess (rd_type k) 1 seq]
      else []).

Definition rx_act (cfg : mcfg) (st : mstate) (src : N) (frag : list byte) (v : verdict) (items : list item)
  : list mobs :=
  if negb (s_conn st) then [] else
  match parse_response frag with
  | PError => []
  | PResponse h objs =>
    if h_unsol h then unsol_act cfg st src h objs v items
    else if accepted_answer cfg st src h then
      match s_run st with
      | RNonRead k seq _ _ => sol_confirm cfg h ++ (if s_assoc st then nr_act k seq objs v else [])
      | RRead k seq _ _ _ =>
        if s_assoc st && match v with VOk => true | _ => false end then rd_act k seq h items cfg else []
      | _ => []
      end
    else []
  end.

Lemma act_fail_running cfg st e : act (snd (fail_running cfg st e)) = [].
Proof. apply act_passive. destruct (fail_running cfg st e) eqn:E. eapply fail_running_passive; eauto. Qed.

Lemma act_send_nonread cfg st k objs sd : act (snd (send_nonread cfg st k objs sd)) = [].
Proof. apply act_passive. destruct (send_nonread cfg st k objs sd) eqn:E. eapply send_nonread_passive; eauto. Qed.

Lemma act_nr_error cfg st k e : act (snd (nr_error cfg st k e)) = [].
Proof. apply act_passive. destruct (nr_error cfg st k e) eqn:E. eapply nr_error_passive; eauto. Qed.

Lemma act_handle_nonread_response cfg st k seq sd h objs v :
  act (snd (handle_nonread_response cfg st k seq sd h objs v)) = nr_act k seq objs v.
Proof.
  unfold handle_nonread_response, nr_act, nr_success, nr_failed.
  destruct k as [tok ph hs|tok|tok fc|tok cold|a].
  - destruct v; cbn [snd]; rewrite ?act_app, ?act_emit; try reflexivity.
    destruct (compare hs objs); cbn [snd]; rewrite ?act_app, ?act_emit; try reflexivity.
    destruct ph; cbn [snd]; rewrite ?act_app, ?act_emit, ?act_send_nonread; reflexivity.
  - destruct objs; cbn [snd]; rewrite ?act_app, ?act_emit; reflexivity.
  - destruct objs; cbn [snd]; rewrite ?act_app, ?act_emit; reflexivity.
  - destruct v; cbn [snd]; rewrite ?act_app, ?act_emit; try reflexivity.
    destruct (restart_delay objs); cbn [snd]; rewrite ?act_app, ?act_emit; reflexivity.
  - cbn [snd]. rewrite ?act_app, ?act_emit. reflexivity.
Qed.

Lemma snd_let {A B C} (p : A * B) (f : A -> B -> C * list tobs) :
  snd (let '(a, b) := p in f a b) = snd (f (fst p) (snd p)).
Proof. destruct p; reflexivity. Qed.

Lemma act_on_nonread_rx cfg st k seq d sd src h objs v items :
  s_run st = RNonRead k seq d sd -> h_unsol h = false ->
  act (snd (on_nonread_rx cfg st k seq d sd src h objs v items))
  = if accepted_answer cfg st src h then sol_confirm cfg h ++ (if s_assoc st then nr_act k seq objs v else [])
    else [].
Proof.
  intros Hrun Hu. unfold on_nonread_rx, accepted_answer, is_answer, flags_ok, sol_confirm. rewrite Hrun, Hu.
  destruct (src =? c_addr cfg); cbn [negb andb snd]; [|reflexivity].
  destruct (c_seq (h_ctrl h) =? seq) eqn:Eseq; cbn [negb andb snd]; [|reflexivity].
  destruct (c_fir (h_ctrl h) && c_fin (h_ctrl h)); cbn [negb andb]; [|apply act_fail_running].
  destruct (iin2_bad (h_iin2 h)); cbn [negb]; [apply act_fail_running|].
  apply N.eqb_eq in Eseq. subst seq.
  destruct (s_assoc st).
  - rewrite snd_let. cbn [snd]. rewrite act_app. f_equal.
    + destruct (c_con (h_ctrl h)); [rewrite act_emit|]; reflexivity.
    + apply act_handle_nonread_response.
  - rewrite snd_let. cbn [snd]. rewrite act_app, act_nr_error, app_nil_r.
    destruct (c_con (h_ctrl h)); [rewrite act_emit|]; reflexivity.
Qed.

Lemma process_iin_assoc st i : s_assoc (process_iin st i) = s_assoc st.
Proof. unfold process_iin. destruct (iin1_restart i); [destruct (s_clear st)|]; reflexivity. Qed.

Lemma act_on_read_rx cfg st k seq first d sd src h objs v items :
  s_run st = RRead k seq first d sd -> h_unsol h = false ->
  act (snd (on_read_rx cfg st k seq first d sd src h objs v items))
  = if accepted_answer cfg st src h then
      (if s_assoc st && match v with VOk => true | _ => false end then rd_act k seq h items cfg else [])
    else [].
Proof.
  intros Hrun Hu. unfold on_read_rx, accepted_answer, is_answer, flags_ok, rd_act, sol_confirm. rewrite Hrun, Hu.
  destruct (src =? c_addr cfg); cbn [negb andb snd]; [|reflexivity].
  destruct (c_seq (h_ctrl h) =? seq) eqn:Eseq; cbn [negb andb snd]; [|reflexivity].
  apply N.eqb_eq in Eseq.
  destruct (c_fir (h_ctrl h)) eqn:Efir, first; cbn [negb andb Bool.eqb]; try apply act_fail_running.
  - destruct (c_fin (h_ctrl h)) eqn:Efin; cbn [negb andb orb].
    + destruct (iin2_bad (h_iin2 h)); cbn [negb]; [apply act_fail_running|].
      destruct (s_assoc st); cbn [negb andb]; [|apply act_fail_running].
      destruct v; try apply act_fail_running.
      destruct k as [tok|]; cbn [snd]; rewrite !act_app, act_deliver, ?act_emit, ?act_nil; cbn [active app];
        rewrite <- ?app_assoc; cbn [app]; subst seq;
        (destruct (c_con (h_ctrl h)); [rewrite act_emit|]; reflexivity).
    + destruct (c_con (h_ctrl h)) eqn:Econ; cbn [negb andb]; [|apply act_fail_running].
      destruct (iin2_bad (h_iin2 h)); cbn [negb]; [apply act_fail_running|].
      destruct (s_assoc st); cbn [negb andb]; [|apply act_fail_running].
      destruct v; try apply act_fail_running.
      cbn [snd]. rewrite !act_app, act_deliver, ?act_emit. cbn [active app]. subst seq.
      rewrite ?app_nil_r. reflexivity.
  - destruct (c_fin (h_ctrl h)) eqn:Efin; cbn [negb andb orb].
    + destruct (iin2_bad (h_iin2 h)); cbn [negb]; [apply act_fail_running|].
      destruct (s_assoc st); cbn [negb andb]; [|apply act_fail_running].
      destruct v; try apply act_fail_running.
      destruct k as [tok|]; cbn [snd]; rewrite !act_app, act_deliver, ?act_emit, ?act_nil; cbn [active app];
        rewrite <- ?app_assoc; cbn [app]; subst seq;
        (destruct (c_con (h_ctrl h)); [rewrite act_emit|]; reflexivity).
    + destruct (c_con (h_ctrl h)) eqn:Econ; cbn [negb andb]; [|apply act_fail_running].
      destruct (iin2_bad (h_iin2 h)); cbn [negb]; [apply act_fail_running|].
      destruct (s_assoc st); cbn [negb andb]; [|apply act_fail_running].
      destruct v; try apply act_fail_running.
      cbn [snd]. rewrite !act_app, act_deliver, ?act_emit. cbn [active app]. subst seq.
      rewrite ?app_nil_r. reflexivity.
Qed.

Lemma accepted_answer_idle cfg st src h :
  (s_run st = RNone \/ exists tok d, s_run st = RLink tok d) -> accepted_answer cfg st src h = false.
Proof.
  unfold accepted_answer, is_answer. intros [H|(tok & d & H)]; rewrite H; rewrite Bool.andb_false_r; reflexivity.
Qed.

(* THE characterisation: the active observations of a receive step *)
Theorem act_on_rx cfg st src frag v items :
  act (snd (on_rx cfg st src frag v items)) = rx_act cfg st src frag v items.
Proof.
  unfold on_rx, rx_act. destruct (negb (s_conn st)); [cbn [snd]; rewrite act_emit; reflexivity|].
  destruct (parse_response frag) as [|h objs].
  - destruct (s_run st); cbn [snd]; try reflexivity; apply act_fail_running.
  - destruct (s_run st) as [|k seq d sd|k seq first d sd|tok d] eqn:Hrun.
    + destruct (h_unsol h); [apply act_handle_unsol|]. cbn [snd].
      rewrite accepted_answer_idle; [reflexivity|left; exact Hrun].
    + destruct (h_unsol h) eqn:Hu.
      * unfold on_nonread_rx. rewrite Hu. apply act_handle_unsol.
      * rewrite act_on_nonread_rx by assumption. reflexivity.
    + destruct (h_unsol h) eqn:Hu.
      * unfold on_read_rx. rewrite Hu. apply act_handle_unsol.
      * rewrite act_on_read_rx by assumption. reflexivity.
    + rewrite !snd_let. cbn [snd]. rewrite act_app.
      assert (Hf : forall st1, act (snd (fail_running cfg st1 EBadHeaders)) = []) by (intros; apply act_fail_running).
      rewrite Hf, app_nil_r.
      destruct (h_unsol h); [apply act_handle_unsol|].
      cbn [snd]. rewrite accepted_answer_idle; [reflexivity|right; eauto].
Qed.

(* ... and of any step *)
Theorem act_mstep cfg st ev :
  s_stopped st = false ->
  act (snd (mstep cfg st ev)) =
  match ev with ERx src frag v items => rx_act cfg st src frag v items | _ => [] end.
Proof.
  intros Hs. destruct (mstep cfg st ev) as [st' o] eqn:E.
  destruct (mstep_decomp _ _ _ _ _ Hs E) as (st1 & o1 & o2 & He & -> & Hp).
  cbn [snd]. rewrite act_cons, act_app, (act_passive o2 Hp), app_nil_r. cbn [active app].
  destruct ev as [src frag v items|ms|tok t| | | | | |];
    try (apply act_passive; eapply on_event_passive_nonrx; [|exact He]; reflexivity).
  cbn [on_event] in He. destruct (on_rx cfg st src frag v items) as [st2 o3] eqn:E3.
  injection He as <- <-. rewrite act_app, act_emit. cbn [active app].
  rewrite <- act_on_rx, E3. reflexivity.
Qed.
