(* Master/MTaskProofs.v — theorems about the master task model (C15, C16): what a step can do, along every run. *)
From Dnp3V Require Import Base.Bytes Master.MParse Master.Command Master.CommandProofs Master.MTask.
Import MP MCmd MT.

(* ---------------------------------------------------------------------------------------- *)
(* observations that only the handling of a received fragment can produce *)

Definition active (o : mobs) : bool :=
  match o with
  | OInfoSuccess _ _ _ | OCbBegin _ _ | OCbItem _ | OCbEnd _ _ | OTxConfirm _ _ _ | OInfoUnsol _ _ => true
  | ORes _ ROk | ORes _ (ROkMs _) => true
  | _ => false
  end.

Definition passive (l : list tobs) : Prop := Forall (fun p => active (snd p) = false) l.

Lemma passive_nil : passive []. Proof. constructor. Qed.
Lemma passive_app a b : passive a -> passive b -> passive (a ++ b).
Proof. unfold passive. intros. apply Forall_app. auto. Qed.
Lemma passive_emit st o : active o = false -> passive (emit st o).
Proof. intros H. constructor; [exact H|constructor]. Qed.
Lemma passive_flat_map {A} (f : A -> list tobs) l : (forall x, passive (f x)) -> passive (flat_map f l).
Proof. intros H. induction l; cbn [flat_map]; [constructor|apply passive_app; auto]. Qed.

Lemma emit_app_cons st o l : emit st o ++ l = (s_now st, o) :: l.
Proof. reflexivity. Qed.
#[local] Opaque emit.

Ltac pas := repeat first [apply passive_nil | apply passive_app | apply passive_emit; reflexivity].

Lemma nr_error_passive cfg st k e st' o : nr_error cfg st k e = (st', o) -> passive o.
Proof.
  unfold nr_error. destruct k as [tok ph hs|tok|tok fc|tok cold|a]; intros H;
    try (injection H as <- <-; pas).
  destruct (s_assoc st); [destruct e|]; injection H as <- <-; pas.
Qed.

Lemma rd_error_passive cfg st k e st' o : rd_error cfg st k e = (st', o) -> passive o.
Proof.
  unfold rd_error. destruct k as [tok|]; intros H; [injection H as <- <-; pas|].
  destruct (s_assoc st); injection H as <- <-; pas.
Qed.

Lemma notify_fail_passive st ty e : passive (notify_fail st ty e).
Proof. unfold notify_fail. destruct (s_assoc st); pas. Qed.

Lemma fail_running_passive cfg st e st' o : fail_running cfg st e = (st', o) -> passive o.
Proof.
  unfold fail_running. destruct (s_run st) as [|k seq d sd|k seq f d sd|tok d]; intros H.
  - injection H as <- <-; pas.
  - destruct (nr_error cfg st k e) as [st1 o1] eqn:E. injection H as <- <-.
    apply passive_app; [eapply nr_error_passive; eauto|apply notify_fail_passive].
  - destruct (rd_error cfg st k e) as [st1 o1] eqn:E. injection H as <- <-.
    apply passive_app; [eapply rd_error_passive; eauto|apply notify_fail_passive].
  - injection H as <- <-; pas.
Qed.

Lemma send_nonread_passive cfg st k objs sd st' o : send_nonread cfg st k objs sd = (st', o) -> passive o.
Proof.
  unfold send_nonread. destruct (fits cfg objs); intros H.
  - injection H as <- <-; pas.
  - destruct (nr_error _ _ _ _) as [st2 o2] eqn:E. injection H as <- <-.
    apply passive_app; [eapply nr_error_passive; eauto|apply notify_fail_passive].
Qed.

Lemma start_nonread_passive cfg st k objs st' o : start_nonread cfg st k objs = (st', o) -> passive o.
Proof.
  unfold start_nonread. destruct (send_nonread _ _ _ _ _) as [st1 o1] eqn:E. intros H. injection H as <- <-.
  apply passive_app; [pas|eapply send_nonread_passive; eauto].
Qed.

Lemma start_read_passive cfg st k objs st' o : start_read cfg st k objs = (st', o) -> passive o.
Proof.
  unfold start_read. destruct (fits cfg objs); intros H.
  - injection H as <- <-; pas.
  - destruct (rd_error _ _ _ _) as [st2 o2] eqn:E. injection H as <- <-.
    apply passive_app; [pas|]. apply passive_app; [eapply rd_error_passive; eauto|apply notify_fail_passive].
Qed.

Lemma start_user_passive cfg st tok t st' o : start_user cfg st tok t = (st', o) -> passive o.
Proof.
  unfold start_user. destruct t; intros H;
    try (eapply start_read_passive; eassumption); try (eapply start_nonread_passive; eassumption).
  injection H as <- <-; pas.
Qed.

Lemma pump_passive fuel cfg : forall st st' o, pump fuel cfg st = (st', o) -> passive o.
Proof.
  induction fuel as [|f IH]; intros st st' o H; cbn [pump] in H.
  - injection H as <- <-; pas.
  - destruct (negb (s_conn st)); [injection H as <- <-; pas|].
    destruct (s_run st); try (injection H as <- <-; pas).
    destruct (next_task cfg st) as [|t|tok t|a|].
    + injection H as <- <-; pas.
    + injection H as <- <-; pas.
    + destruct (start_user _ _ _ _) as [st1 o1] eqn:E1. destruct (pump f cfg st1) as [st2 o2] eqn:E2.
      injection H as <- <-. apply passive_app; [eapply start_user_passive; eauto|eapply IH; eauto].
    + destruct (start_nonread _ _ _ _) as [st1 o1] eqn:E1. destruct (pump f cfg st1) as [st2 o2] eqn:E2.
      injection H as <- <-. apply passive_app; [eapply start_nonread_passive; eauto|eapply IH; eauto].
    + destruct (start_read _ _ _ _) as [st1 o1] eqn:E1. destruct (pump f cfg st1) as [st2 o2] eqn:E2.
      injection H as <- <-. apply passive_app; [eapply start_read_passive; eauto|eapply IH; eauto].
Qed.

Lemma run_pump_passive cfg st st' o : run_pump cfg st = (st', o) -> passive o.
Proof. apply pump_passive. Qed.

Lemma fire_passive cfg st st' o : fire cfg st = (st', o) -> passive o.
Proof.
  unfold fire, then_pump. destruct (s_run st); intros H; try (eapply run_pump_passive; eassumption);
    destruct (fail_running _ _ _) as [st1 o1] eqn:E1; destruct (run_pump cfg st1) as [st2 o2] eqn:E2;
    injection H as <- <-; (apply passive_app; [eapply fail_running_passive; eauto|eapply run_pump_passive; eauto]).
Qed.

Lemma advance_passive fuel cfg : forall st target st' o, advance fuel cfg st target = (st', o) -> passive o.
Proof.
  induction fuel as [|f IH]; intros st target st' o H; cbn [advance] in H.
  - injection H as <- <-; pas.
  - destruct (wake_time cfg st) as [d|]; [|injection H as <- <-; pas].
    destruct (d <=? target); [|injection H as <- <-; pas].
    destruct (fire _ _) as [st1 o1] eqn:E1. destruct (advance f cfg st1 target) as [st2 o2] eqn:E2.
    injection H as <- <-. apply passive_app; [eapply fire_passive; eauto|eapply IH; eauto].
Qed.

Lemma reset_assoc_passive st e st' o : reset_assoc st e = (st', o) -> passive o.
Proof. unfold reset_assoc. intros H. injection H as <- <-. apply passive_flat_map. intros x. pas. Qed.

Lemma stop_run_passive cfg st why st' o : stop_run cfg st why = (st', o) -> passive o.
Proof.
  unfold stop_run. destruct (fail_running _ _ _) as [st1 o1] eqn:E1.
  destruct (if s_assoc st1 then reset_assoc st1 (stop_err why) else (st1, [])) as [st2 o2] eqn:E2.
  intros H. injection H as <- <-.
  apply passive_app; [eapply fail_running_passive; eauto|]. apply passive_app; [|pas].
  destruct (s_assoc st1); [eapply reset_assoc_passive; eauto|injection E2 as <- <-; pas].
Qed.

Lemma try_connect_passive cfg st st' o : try_connect cfg st = (st', o) -> passive o.
Proof. unfold try_connect. destruct (_ && _); intros H; injection H as <- <-; pas. Qed.

Lemma on_user_passive cfg st tok t st' o : on_user cfg st tok t = (st', o) -> passive o.
Proof.
  unfold on_user. destruct (negb (s_assoc st)); [intros H; injection H as <- <-; pas|].
  destruct (negb (s_conn st)); [intros H; injection H as <- <-; pas|].
  destruct (_ <? _)%nat; intros H; injection H as <- <-; pas.
Qed.

Definition is_rx (ev : mevent) : bool := match ev with ERx _ _ _ _ => true | _ => false end.

Lemma on_event_passive_nonrx cfg st ev st' o :
  is_rx ev = false -> on_event cfg st ev = (st', o) -> passive o.
Proof.
  destruct ev as [src frag v items|ms|tok t| | | | | |]; cbn [is_rx on_event]; intros Hrx H; try discriminate.
  - injection H as <- <-; pas.
  - eapply on_user_passive; eauto.
  - destruct (s_conn st); [eapply stop_run_passive; eauto|injection H as <- <-; pas].
  - destruct (s_conn st); [injection H as <- <-; pas|eapply try_connect_passive; eauto].
  - destruct (s_conn st); [eapply stop_run_passive; eauto|injection H as <- <-; pas].
  - eapply try_connect_passive; eauto.
  - injection H as <- <-. apply passive_flat_map. intros x. pas.
  - destruct (if s_conn st then stop_run cfg st StShutdown else (st, [])) as [st1 o1] eqn:E.
    injection H as <- <-. apply passive_app; [|pas].
    destruct (s_conn st); [eapply stop_run_passive; eauto|injection E as <- <-; pas].
Qed.

(* one step = the stimulus' own effects, then only passive observations (tasks started, timeouts) *)
Lemma mstep_decomp cfg st ev st' o :
  s_stopped st = false -> mstep cfg st ev = (st', o) ->
  exists st1 o1 o2, on_event cfg st ev = (st1, o1) /\ o = (s_now st, OStep) :: o1 ++ o2 /\ passive o2.
Proof.
  unfold mstep, then_pump. intros Hs. rewrite Hs.
  destruct (on_event cfg st ev) as [st1 o1] eqn:E1.
  destruct (run_pump cfg st1) as [st2 o2] eqn:E2.
  destruct (advance _ cfg st2 _) as [st3 o3] eqn:E3.
  intros H. injection H as <- <-.
  exists st1, o1, (o2 ++ o3). split; [reflexivity|]. split.
  - rewrite emit_app_cons, app_assoc. reflexivity.
  - apply passive_app; [eapply run_pump_passive; eauto|eapply advance_passive; eauto].
Qed.

Lemma mstep_stopped cfg st ev : s_stopped st = true ->
  mstep cfg st ev = (st, [(s_now st, OStep); (s_now st, OIgnored)]).
Proof. unfold mstep. intros ->. reflexivity. Qed.

(* ---------------------------------------------------------------------------------------- *)
(* the active observations of a step, computed from the state BEFORE the step and the fragment:
   [rx_act] is the property's reading of "accepts only the answer to its question" *)

Definition act (l : list tobs) : list mobs := filter active (map snd l).

Lemma act_app a b : act (a ++ b) = act a ++ act b.
Proof. unfold act. rewrite map_app, filter_app. reflexivity. Qed.
Lemma act_nil : act [] = []. Proof. reflexivity. Qed.
Lemma act_cons t o l : act ((t, o) :: l) = (if active o then [o] else []) ++ act l.
Proof. unfold act. cbn [map snd filter]. destruct (active o); reflexivity. Qed.
Lemma act_emit st o : act (emit st o) = if active o then [o] else [].
Proof. Transparent emit. unfold emit, act. cbn [map snd filter]. destruct (active o); reflexivity. Qed.
#[local] Opaque emit.
Lemma act_passive l : passive l -> act l = [].
Proof.
  unfold act, passive. induction l as [|[t o] l IH]; intros H; [reflexivity|].
  inversion H as [|? ? Ho Hl]; subst. cbn [map snd filter] in *. rewrite Ho. auto.
Qed.
Lemma act_deliver st rt h items :
  act (deliver st rt h items) = OCbBegin rt (hdr_bytes h) :: map OCbItem items ++ [OCbEnd rt (hdr_bytes h)].
Proof.
  unfold deliver. rewrite !act_app, !act_emit. cbn [active app]. f_equal. f_equal.
  induction items as [|it items IH]; [reflexivity|].
  cbn [flat_map map]. rewrite act_app, act_emit, IH. reflexivity.
Qed.

(* what an unsolicited response does (fix 588059f included) *)
Definition unsol_accepts (cfg : mcfg) (st : mstate) (src : N) (h : rhdr) (objs : list byte) (v : verdict) : bool :=
  (src =? c_addr cfg) && s_assoc st
  && (integrity_complete cfg (process_iin st (h_iin1 h)) || match objs with [] => true | _ => false end)
  && match v with VOk => true | _ => false end.

Definition unsol_dup (st : mstate) (h : rhdr) (objs : list byte) : bool :=
  match s_last_unsol st with Some old => frag_eqb old (hdr_bytes h, objs) | None => false end.

Definition unsol_confirm (cfg : mcfg) (h : rhdr) : list mobs :=
  if c_con (h_ctrl h) then [OTxConfirm (c_addr cfg) true (c_seq (h_ctrl h))] else [].

Definition unsol_act (cfg : mcfg) (st : mstate) (src : N) (h : rhdr) (objs : list byte) (v : verdict)
  (items : list item) : list mobs :=
  if unsol_accepts cfg st src h objs v then
    if unsol_dup st h objs then OInfoUnsol true (c_seq (h_ctrl h)) :: unsol_confirm cfg h
    else (OCbBegin RtUnsol (hdr_bytes h) :: map OCbItem items ++ [OCbEnd RtUnsol (hdr_bytes h)])
         ++ OInfoUnsol false (c_seq (h_ctrl h)) :: unsol_confirm cfg h
  else [].

Lemma process_iin_last_unsol st i : s_last_unsol (process_iin st i) = s_last_unsol st.
Proof. unfold process_iin. destruct (iin1_restart i); [destruct (s_clear st)|]; reflexivity. Qed.

Lemma act_handle_unsol cfg st src h objs v items :
  act (snd (handle_unsol cfg st src h objs v items)) = unsol_act cfg st src h objs v items.
Proof.
  unfold handle_unsol, unsol_act, unsol_accepts, unsol_dup, unsol_confirm.
  destruct ((src =? c_addr cfg) && s_assoc st); cbn [andb snd]; [|reflexivity].
  destruct (integrity_complete cfg (process_iin st (h_iin1 h)) || match objs with [] => true | _ :: _ => false end);
    cbn [andb snd]; [|reflexivity].
  destruct v; cbn [snd]; try reflexivity.
  rewrite process_iin_last_unsol.
  destruct (match s_last_unsol st with Some old => frag_eqb old (hdr_bytes h, objs) | None => false end); cbn [snd].
  - rewrite act_app, act_emit. cbn [active app]. f_equal.
    destruct (c_con (h_ctrl h)); [rewrite act_emit|]; reflexivity.
  - rewrite !act_app, act_deliver, act_emit. cbn [active app]. f_equal. f_equal. f_equal.
    destruct (c_con (h_ctrl h)); [rewrite act_emit|]; reflexivity.
Qed.

(* the fragment is the (next fragment of the) answer to the outstanding request: addressed
   outstation and expected sequence number *)
Definition is_answer (cfg : mcfg) (st : mstate) (src : N) (h : rhdr) : bool :=
  (src =? c_addr cfg) &&
  match s_run st with
  | RNonRead _ seq _ _ => c_seq (h_ctrl h) =? seq
  | RRead _ seq _ _ _ => c_seq (h_ctrl h) =? seq
  | _ => false
  end.

(* FIR and FIN for everything but a READ; for a READ: FIR on the first fragment only, and a
   non-final fragment must request confirmation *)
Definition flags_ok (st : mstate) (h : rhdr) : bool :=
  let c := h_ctrl h in
  match s_run st with
  | RNonRead _ _ _ _ => c_fir c && c_fin c
  | RRead _ _ first _ _ => Bool.eqb (c_fir c) first && (c_fin c || c_con c)
  | _ => false
  end.

Definition accepted_answer (cfg : mcfg) (st : mstate) (src : N) (h : rhdr) : bool :=
  is_answer cfg st src h && flags_ok st h && negb (iin2_bad (h_iin2 h)).

Definition sol_confirm (cfg : mcfg) (h : rhdr) : list mobs :=
  if c_con (h_ctrl h) then [OTxConfirm (c_addr cfg) false (c_seq (h_ctrl h))] else [].

(* outcome of an accepted response to a non-READ request *)
Definition nr_act (k : nr_kind) (seq : N) (objs : list byte) (v : verdict) : list mobs :=
  let ok r := [ORes r ROk; OInfoSuccess (nr_type k) (nr_fc0 k) seq] in
  match k with
  | NRCommand tok ph hs =>
    match v, compare hs objs, ph with
    | VOk, COk, PhSelect => []
    | VOk, COk, _ => ok tok
    | _, _, _ => []
    end
  | NRDeadBand tok | NREmpty tok _ => match objs with [] => ok tok | _ => [] end
  | NRRestart tok _ =>
    match v, restart_delay objs with
    | VOk, Some ms => [ORes tok (ROkMs ms); OInfoSuccess (nr_type k) (nr_fc0 k) seq]
    | _, _ => []
    end
  | NRAuto _ => [OInfoSuccess (nr_type k) (nr_fc0 k) seq]
  end.

Definition rd_act (k : rd_kind) (seq : N) (h : rhdr) (items : list item) (cfg : mcfg) : list mobs :=
  (OCbBegin (rd_read_type k) (hdr_bytes h) :: map OCbItem items ++ [OCbEnd (rd_read_type k) (hdr_bytes h)])
  ++ sol_confirm cfg h
  ++ (if c_fin (h_ctrl h) then
        (match k with RDUser tok => [ORes tok ROk] | RDIntegrity => [] end) ++ [OInfoSuccess (rd_type k) 1 seq]
      else []).

Definition rx_act (cfg : mcfg) (st : mstate) (src : N) (frag : list byte) (v : verdict) (items : list item)
  : list mobs :=
  if negb (s_conn st) then [] else
  match parse_response frag with
  | PError => []
  | PResponse h objs =>
    if h_unsol h then unsol_act cfg st src h objs v items
    else if accepted_answer cfg st src h then
      match s_run st with
      | RNonRead k seq _ _ => sol_confirm cfg h ++ (if s_assoc st then nr_act k seq objs v else [])
      | RRead k seq _ _ _ =>
        if s_assoc st && match v with VOk => true | _ => false end then rd_act k seq h items cfg else []
      | _ => []
      end
    else []
  end.

Lemma act_fail_running cfg st e : act (snd (fail_running cfg st e)) = [].
Proof. apply act_passive. destruct (fail_running cfg st e) eqn:E. eapply fail_running_passive; eauto. Qed.

Lemma act_send_nonread cfg st k objs sd : act (snd (send_nonread cfg st k objs sd)) = [].
Proof. apply act_passive. destruct (send_nonread cfg st k objs sd) eqn:E. eapply send_nonread_passive; eauto. Qed.

Lemma act_nr_error cfg st k e : act (snd (nr_error cfg st k e)) = [].
Proof. apply act_passive. destruct (nr_error cfg st k e) eqn:E. eapply nr_error_passive; eauto. Qed.

Lemma act_handle_nonread_response cfg st k seq sd h objs v :
  act (snd (handle_nonread_response cfg st k seq sd h objs v)) = nr_act k seq objs v.
Proof.
  unfold handle_nonread_response, nr_act, nr_success, nr_failed.
  destruct k as [tok ph hs|tok|tok fc|tok cold|a].
  - destruct v; cbn [snd]; rewrite ?act_app, ?act_emit; try reflexivity.
    destruct (compare hs objs); cbn [snd]; rewrite ?act_app, ?act_emit; try reflexivity.
    destruct ph; cbn [snd]; rewrite ?act_app, ?act_emit, ?act_send_nonread; reflexivity.
  - destruct objs; cbn [snd]; rewrite ?act_app, ?act_emit; reflexivity.
  - destruct objs; cbn [snd]; rewrite ?act_app, ?act_emit; reflexivity.
  - destruct v; cbn [snd]; rewrite ?act_app, ?act_emit; try reflexivity.
    destruct (restart_delay objs); cbn [snd]; rewrite ?act_app, ?act_emit; reflexivity.
  - cbn [snd]. rewrite ?act_app, ?act_emit. reflexivity.
Qed.

Lemma snd_let {A B C} (p : A * B) (f : A -> B -> C * list tobs) :
  snd (let '(a, b) := p in f a b) = snd (f (fst p) (snd p)).
Proof. destruct p; reflexivity. Qed.

Lemma act_on_nonread_rx cfg st k seq d sd src h objs v items :
  s_run st = RNonRead k seq d sd -> h_unsol h = false ->
  act (snd (on_nonread_rx cfg st k seq d sd src h objs v items))
  = if accepted_answer cfg st src h then sol_confirm cfg h ++ (if s_assoc st then nr_act k seq objs v else [])
    else [].
Proof.
  intros Hrun Hu. unfold on_nonread_rx, accepted_answer, is_answer, flags_ok, sol_confirm. rewrite Hrun, Hu.
  destruct (src =? c_addr cfg); cbn [negb andb snd]; [|reflexivity].
  destruct (c_seq (h_ctrl h) =? seq) eqn:Eseq; cbn [negb andb snd]; [|reflexivity].
  destruct (c_fir (h_ctrl h) && c_fin (h_ctrl h)); cbn [negb andb]; [|apply act_fail_running].
  destruct (iin2_bad (h_iin2 h)); cbn [negb]; [apply act_fail_running|].
  apply N.eqb_eq in Eseq. subst seq.
  destruct (s_assoc st).
  - rewrite snd_let. cbn [snd]. rewrite act_app. f_equal.
    + destruct (c_con (h_ctrl h)); [rewrite act_emit|]; reflexivity.
    + apply act_handle_nonread_response.
  - rewrite snd_let. cbn [snd]. rewrite act_app, act_nr_error, app_nil_r.
    destruct (c_con (h_ctrl h)); [rewrite act_emit|]; reflexivity.
Qed.

Lemma process_iin_assoc st i : s_assoc (process_iin st i) = s_assoc st.
Proof. unfold process_iin. destruct (iin1_restart i); [destruct (s_clear st)|]; reflexivity. Qed.

Lemma act_on_read_rx cfg st k seq first d sd src h objs v items :
  s_run st = RRead k seq first d sd -> h_unsol h = false ->
  act (snd (on_read_rx cfg st k seq first d sd src h objs v items))
  = if accepted_answer cfg st src h then
      (if s_assoc st && match v with VOk => true | _ => false end then rd_act k seq h items cfg else [])
    else [].
Proof.
  intros Hrun Hu. unfold on_read_rx, accepted_answer, is_answer, flags_ok, rd_act, sol_confirm. rewrite Hrun, Hu.
  destruct (src =? c_addr cfg); cbn [negb andb snd]; [|reflexivity].
  destruct (c_seq (h_ctrl h) =? seq) eqn:Eseq; cbn [negb andb snd]; [|reflexivity].
  apply N.eqb_eq in Eseq.
  destruct (c_fir (h_ctrl h)) eqn:Efir, first; cbn [negb andb Bool.eqb]; try apply act_fail_running.
  - destruct (c_fin (h_ctrl h)) eqn:Efin; cbn [negb andb orb].
    + destruct (iin2_bad (h_iin2 h)); cbn [negb]; [apply act_fail_running|].
      destruct (s_assoc st); cbn [negb andb]; [|apply act_fail_running].
      destruct v; try apply act_fail_running.
      destruct k as [tok|]; cbn [snd]; rewrite !act_app, act_deliver, ?act_emit, ?act_nil; cbn [active app];
        rewrite <- ?app_assoc; cbn [app]; subst seq;
        (destruct (c_con (h_ctrl h)); [rewrite act_emit|]; reflexivity).
    + destruct (c_con (h_ctrl h)) eqn:Econ; cbn [negb andb]; [|apply act_fail_running].
      destruct (iin2_bad (h_iin2 h)); cbn [negb]; [apply act_fail_running|].
      destruct (s_assoc st); cbn [negb andb]; [|apply act_fail_running].
      destruct v; try apply act_fail_running.
      cbn [snd]. rewrite !act_app, act_deliver, ?act_emit. cbn [active app]. subst seq.
      rewrite ?app_nil_r. reflexivity.
  - destruct (c_fin (h_ctrl h)) eqn:Efin; cbn [negb andb orb].
    + destruct (iin2_bad (h_iin2 h)); cbn [negb]; [apply act_fail_running|].
      destruct (s_assoc st); cbn [negb andb]; [|apply act_fail_running].
      destruct v; try apply act_fail_running.
      destruct k as [tok|]; cbn [snd]; rewrite !act_app, act_deliver, ?act_emit, ?act_nil; cbn [active app];
        rewrite <- ?app_assoc; cbn [app]; subst seq;
        (destruct (c_con (h_ctrl h)); [rewrite act_emit|]; reflexivity).
    + destruct (c_con (h_ctrl h)) eqn:Econ; cbn [negb andb]; [|apply act_fail_running].
      destruct (iin2_bad (h_iin2 h)); cbn [negb]; [apply act_fail_running|].
      destruct (s_assoc st); cbn [negb andb]; [|apply act_fail_running].
      destruct v; try apply act_fail_running.
      cbn [snd]. rewrite !act_app, act_deliver, ?act_emit. cbn [active app]. subst seq.
      rewrite ?app_nil_r. reflexivity.
Qed.

Lemma accepted_answer_idle cfg st src h :
  (s_run st = RNone \/ exists tok d, s_run st = RLink tok d) -> accepted_answer cfg st src h = false.
Proof.
  unfold accepted_answer, is_answer. intros [H|(tok & d & H)]; rewrite H; rewrite Bool.andb_false_r; reflexivity.
Qed.

(* THE characterisation: the active observations of a receive step *)
Theorem act_on_rx cfg st src frag v items :
  act (snd (on_rx cfg st src frag v items)) = rx_act cfg st src frag v items.
Proof.
  unfold on_rx, rx_act. destruct (negb (s_conn st)); [cbn [snd]; rewrite act_emit; reflexivity|].
  destruct (parse_response frag) as [|h objs].
  - destruct (s_run st); cbn [snd]; try reflexivity; apply act_fail_running.
  - destruct (s_run st) as [|k seq d sd|k seq first d sd|tok d] eqn:Hrun.
    + destruct (h_unsol h); [apply act_handle_unsol|]. cbn [snd].
      rewrite accepted_answer_idle; [reflexivity|left; exact Hrun].
    + destruct (h_unsol h) eqn:Hu.
      * unfold on_nonread_rx. rewrite Hu. apply act_handle_unsol.
      * rewrite act_on_nonread_rx by assumption. reflexivity.
    + destruct (h_unsol h) eqn:Hu.
      * unfold on_read_rx. rewrite Hu. apply act_handle_unsol.
      * rewrite act_on_read_rx by assumption. reflexivity.
    + rewrite !snd_let. cbn [snd]. rewrite act_app.
      assert (Hf : forall st1, act (snd (fail_running cfg st1 EBadHeaders)) = []) by (intros; apply act_fail_running).
      rewrite Hf, app_nil_r.
      destruct (h_unsol h); [apply act_handle_unsol|].
      cbn [snd]. rewrite accepted_answer_idle; [reflexivity|right; eauto].
Qed.

(* ... and of any step *)
Theorem act_mstep cfg st ev :
  s_stopped st = false ->
  act (snd (mstep cfg st ev)) =
  match ev with ERx src frag v items => rx_act cfg st src frag v items | _ => [] end.
Proof.
  intros Hs. destruct (mstep cfg st ev) as [st' o] eqn:E.
  destruct (mstep_decomp _ _ _ _ _ Hs E) as (st1 & o1 & o2 & He & -> & Hp).
  cbn [snd]. rewrite act_cons, act_app, (act_passive o2 Hp), app_nil_r. cbn [active app].
  destruct ev as [src frag v items|ms|tok t| | | | | |];
    try (apply act_passive; eapply on_event_passive_nonrx; [|exact He]; reflexivity).
  cbn [on_event] in He. destruct (on_rx cfg st src frag v items) as [st2 o3] eqn:E3.
  injection He as <- <-. rewrite act_app, act_emit. cbn [active app].
  rewrite <- act_on_rx, E3. reflexivity.
Qed.

(* ---------------------------------------------------------------------------------------- *)
(* C15, state-local forms (any state, not only reachable ones) *)

Lemma in_act l o : active o = true -> (In o (map snd l) <-> In o (act l)).
Proof. intros Ha. unfold act. rewrite filter_In. tauto. Qed.

Definition accepts_solicited (cfg : mcfg) (st : mstate) (src : N) (h : rhdr) (v : verdict) : bool :=
  accepted_answer cfg st src h &&
  match s_run st with
  | RRead _ _ _ _ _ => s_assoc st && match v with VOk => true | _ => false end
  | _ => true
  end.

(* who accepts a fragment *)
Definition accepts (cfg : mcfg) (st : mstate) (ev : mevent) : bool :=
  match ev with
  | ERx src frag v items =>
    negb (s_stopped st) && s_conn st &&
    match parse_response frag with
    | PError => false
    | PResponse h objs =>
      if h_unsol h then unsol_accepts cfg st src h objs v else accepts_solicited cfg st src h v
    end
  | _ => false
  end.

Lemma in_unsol_act_success cfg st src h objs v items ty fc s :
  ~ In (OInfoSuccess ty fc s) (unsol_act cfg st src h objs v items).
Proof.
  unfold unsol_act, unsol_confirm. destruct (unsol_accepts _ _ _ _ _ _); [|intros []].
  destruct (unsol_dup st h objs); destruct (c_con (h_ctrl h)); cbn [In app]; rewrite ?in_app_iff; cbn [In];
    rewrite ?in_map_iff; intros H; repeat (destruct H as [H|H]; try discriminate);
    try (destruct H as (x & H & _); discriminate); try contradiction.
Qed.

Lemma in_cb_items o items : In o (map OCbItem items) -> exists it, o = OCbItem it.
Proof. rewrite in_map_iff. intros (x & <- & _). eauto. Qed.

Ltac brk_in H :=
  repeat (match type of H with
          | _ \/ _ => destruct H as [H|H]
          | In _ (_ ++ _) => apply in_app_or in H
          | In _ (_ :: _) => destruct H as [H|H]
          | In _ [] => contradiction
          | In _ (map OCbItem _) => apply in_cb_items in H; destruct H as [? H]
          | In _ (if ?c then _ else _) => destruct c eqn:?
          | In _ (match ?c with _ => _ end) => destruct c eqn:?
          | False => contradiction
          end); try discriminate.

(* completion_needs_matching_response, local form: a task reports success only in a step that
   receives a solicited response from the addressed outstation carrying the sequence number the
   task expects, FIR/FIN as the task kind demands, FIN set, no IIN2 rejection *)
Theorem success_local cfg st ev ty fc s :
  s_stopped st = false -> In (OInfoSuccess ty fc s) (map snd (snd (mstep cfg st ev))) ->
  exists src frag v items h objs,
    ev = ERx src frag v items /\ s_conn st = true /\ parse_response frag = PResponse h objs /\
    h_unsol h = false /\ accepted_answer cfg st src h = true /\ c_fin (h_ctrl h) = true /\
    c_seq (h_ctrl h) = s.
Proof.
  intros Hs Hin. apply in_act in Hin; [|reflexivity]. rewrite act_mstep in Hin by assumption.
  destruct ev as [src frag v items|ms|tok t| | | | | |]; try contradiction.
  exists src, frag, v, items. unfold rx_act in Hin.
  destruct (s_conn st) eqn:Hc; cbn [negb] in Hin; [|contradiction].
  destruct (parse_response frag) as [|h objs] eqn:Hp; [contradiction|].
  exists h, objs.
  destruct (h_unsol h) eqn:Hu; [exfalso; eapply in_unsol_act_success; eauto|].
  destruct (accepted_answer cfg st src h) eqn:Ha; [|contradiction].
  assert (Hseq : match s_run st with RNonRead _ q _ _ => c_seq (h_ctrl h) = q /\ c_fin (h_ctrl h) = true
                 | RRead _ q _ _ _ => c_seq (h_ctrl h) = q | _ => False end).
  { unfold accepted_answer, is_answer, flags_ok in Ha.
    destruct (s_run st); try (rewrite !Bool.andb_false_r in Ha; discriminate);
      apply Bool.andb_true_iff in Ha; destruct Ha as [Ha _]; apply Bool.andb_true_iff in Ha; destruct Ha as [Ha Hf];
      apply Bool.andb_true_iff in Ha; destruct Ha as [_ Ha]; apply N.eqb_eq in Ha.
    - apply Bool.andb_true_iff in Hf. tauto.
    - exact Ha. }
  repeat split; try reflexivity.
  - destruct (s_run st) as [|k seq d sd|k seq first d sd|tok d]; try contradiction; [tauto|].
    unfold rd_act, sol_confirm in Hin. brk_in Hin. reflexivity.
  - destruct (s_run st) as [|k seq d sd|k seq first d sd|tok d]; try contradiction.
    + destruct Hseq as [Hseq _]. unfold sol_confirm, nr_act in Hin. brk_in Hin;
        injection Hin as _ _ <-; exact Hseq.
    + unfold rd_act, sol_confirm in Hin. brk_in Hin; injection Hin as _ _ <-; exact Hseq.
Qed.

(* the same for the user's promise *)
Theorem res_ok_local cfg st ev tok r :
  s_stopped st = false -> (r = ROk \/ exists ms, r = ROkMs ms) ->
  In (ORes tok r) (map snd (snd (mstep cfg st ev))) ->
  exists src frag v items h objs,
    ev = ERx src frag v items /\ s_conn st = true /\ parse_response frag = PResponse h objs /\
    h_unsol h = false /\ accepted_answer cfg st src h = true /\ c_fin (h_ctrl h) = true.
Proof.
  intros Hs Hr Hin. apply in_act in Hin; [|destruct Hr as [->|[ms ->]]; reflexivity].
  rewrite act_mstep in Hin by assumption.
  destruct ev as [src frag v items|ms|tok' t| | | | | |]; try contradiction.
  exists src, frag, v, items. unfold rx_act in Hin.
  destruct (s_conn st) eqn:Hc; cbn [negb] in Hin; [|contradiction].
  destruct (parse_response frag) as [|h objs] eqn:Hp; [contradiction|].
  exists h, objs.
  destruct (h_unsol h) eqn:Hu.
  { exfalso. unfold unsol_act, unsol_confirm in Hin. brk_in Hin. }
  destruct (accepted_answer cfg st src h) eqn:Ha; [|contradiction].
  repeat split; try reflexivity.
  unfold accepted_answer, flags_ok in Ha.
  destruct (s_run st) as [|k seq d sd|k seq first d sd|tok' d]; try contradiction.
  - apply Bool.andb_true_iff in Ha. destruct Ha as [Ha _]. apply Bool.andb_true_iff in Ha. destruct Ha as [_ Ha].
    apply Bool.andb_true_iff in Ha. tauto.
  - unfold rd_act, sol_confirm in Hin. brk_in Hin; reflexivity.
Qed.

(* reject_is_inert, local forms.  (1) a fragment that is not accepted - unparsable header,
   solicited response that is stale, foreign, mis-flagged or rejected by IIN2, solicited response
   with nothing outstanding, unsolicited response that is gated, foreign or malformed - produces no
   completion, no callback, no confirmation *)
Theorem reject_is_inert_local cfg st ev :
  s_stopped st = false -> accepts cfg st ev = false -> act (snd (mstep cfg st ev)) = [].
Proof.
  intros Hs Ha. rewrite act_mstep by assumption.
  destruct ev as [src frag v items|ms|tok t| | | | | |]; try reflexivity.
  unfold accepts in Ha. rewrite Hs in Ha. unfold rx_act.
  destruct (s_conn st); cbn [negb andb] in *; [|reflexivity].
  destruct (parse_response frag) as [|h objs]; [reflexivity|].
  destruct (h_unsol h).
  - unfold unsol_act. rewrite Ha. reflexivity.
  - unfold accepts_solicited in Ha. destruct (accepted_answer cfg st src h); cbn [andb] in Ha; [|reflexivity].
    destruct (s_run st); try discriminate. rewrite Ha. reflexivity.
Qed.

(* (2) while a request is outstanding, a solicited response from another source or with another
   sequence number is exactly as good as silence: the step is the step of [ESleep 0] plus the
   echo of the parser's verdict *)
Theorem stale_is_silence cfg st src frag v items h objs :
  s_stopped st = false -> s_conn st = true ->
  parse_response frag = PResponse h objs -> h_unsol h = false -> is_answer cfg st src h = false ->
  (exists k q d sd, s_run st = RNonRead k q d sd) \/ (exists k q f d sd, s_run st = RRead k q f d sd) ->
  fst (mstep cfg st (ERx src frag v items)) = fst (mstep cfg st (ESleep 0)) /\
  exists rest, snd (mstep cfg st (ESleep 0)) = (s_now st, OStep) :: rest /\
               snd (mstep cfg st (ERx src frag v items)) = (s_now st, OStep) :: (s_now st, OPv v) :: rest.
Proof.
  intros Hs Hc Hp Hu Hans Hrun.
  assert (Hev : on_event cfg st (ERx src frag v items) = (st, emit st (OPv v))).
  { cbn [on_event]. unfold on_rx. rewrite Hc, Hp. cbn [negb]. unfold is_answer in Hans.
    destruct Hrun as [(k & q & d & sd & Hr)|(k & q & f & d & sd & Hr)]; rewrite Hr in *.
    - unfold on_nonread_rx. rewrite Hu.
      destruct (src =? c_addr cfg); cbn [negb andb] in *; [|rewrite app_nil_r; reflexivity].
      rewrite Hans. cbn [negb]. rewrite app_nil_r. reflexivity.
    - unfold on_read_rx. rewrite Hu.
      destruct (src =? c_addr cfg); cbn [negb andb] in *; [|rewrite app_nil_r; reflexivity].
      rewrite Hans. cbn [negb]. rewrite app_nil_r. reflexivity. }
  unfold mstep. rewrite Hs, Hev. cbn [on_event span_of]. unfold then_pump.
  destruct (run_pump cfg st) as [st1 o1]. replace (0 + 1) with 1 by reflexivity.
  destruct (advance _ cfg st1 _) as [st2 o2]. cbn [fst snd]. split; [reflexivity|].
  exists (o1 ++ o2). rewrite !emit_app_cons. split; reflexivity.
Qed.

Definition is_confirm (o : mobs) : bool := match o with OTxConfirm _ _ _ => true | _ => false end.
Definition confirms (l : list tobs) : list mobs := filter is_confirm (map snd l).

Lemma confirms_act l : confirms l = filter is_confirm (act l).
Proof.
  unfold confirms, act. induction (map snd l) as [|o m IH]; [reflexivity|].
  cbn [filter]. destruct (active o) eqn:Ea.
  - cbn [filter]. rewrite IH. reflexivity.
  - destruct o; try discriminate; cbn [is_confirm]; exact IH.
Qed.

Lemma filter_confirm_items items : filter is_confirm (map OCbItem items) = [].
Proof. induction items; cbn; auto. Qed.

Definition frag_con (ev : mevent) : bool :=
  match ev with
  | ERx _ frag _ _ => match parse_response frag with PResponse h _ => c_con (h_ctrl h) | PError => false end
  | _ => false
  end.

(* confirm_exactly_once, local form: a step writes a CONFIRM iff it accepts a fragment that asks
   for one, then exactly one, to the outstation, with the fragment's sequence number and UNS bit
   iff the fragment is unsolicited *)
Theorem confirm_exactly_once_local cfg st ev :
  s_stopped st = false ->
  confirms (snd (mstep cfg st ev)) =
  if accepts cfg st ev && frag_con ev then
    match ev with
    | ERx _ frag _ _ =>
      match parse_response frag with
      | PResponse h _ => [OTxConfirm (c_addr cfg) (h_unsol h) (c_seq (h_ctrl h))]
      | PError => []
      end
    | _ => []
    end
  else [].
Proof.
  intros Hs. rewrite confirms_act, act_mstep by assumption.
  destruct ev as [src frag v items|ms|tok t| | | | | |]; try reflexivity.
  unfold rx_act, accepts, frag_con. rewrite Hs.
  destruct (s_conn st); cbn [negb andb]; [|reflexivity].
  destruct (parse_response frag) as [|h objs]; [reflexivity|].
  destruct (h_unsol h) eqn:Hu.
  - unfold unsol_act, unsol_confirm. destruct (unsol_accepts cfg st src h objs v); cbn [andb]; [|reflexivity].
    destruct (unsol_dup st h objs); destruct (c_con (h_ctrl h)); cbn [filter is_confirm app];
      rewrite ?filter_app, ?filter_confirm_items; cbn [filter is_confirm app]; reflexivity.
  - unfold accepts_solicited. destruct (accepted_answer cfg st src h) eqn:Ha; cbn [andb]; [|reflexivity].
    destruct (s_run st) as [|k seq d sd|k seq first d sd|tok d] eqn:Hr.
    + unfold accepted_answer, is_answer in Ha. rewrite Hr in Ha. rewrite !Bool.andb_false_r in Ha. discriminate.
    + assert (Hq : c_seq (h_ctrl h) = seq).
      { unfold accepted_answer, is_answer in Ha. rewrite Hr in Ha.
        apply Bool.andb_true_iff in Ha. destruct Ha as [Ha _]. apply Bool.andb_true_iff in Ha. destruct Ha as [Ha _].
        apply Bool.andb_true_iff in Ha. destruct Ha as [_ Ha]. apply N.eqb_eq in Ha. exact Ha. }
      rewrite filter_app. unfold sol_confirm.
      assert (Hn : filter is_confirm (if s_assoc st then nr_act k seq objs v else []) = []).
      { destruct (s_assoc st); [|reflexivity]. unfold nr_act.
        destruct k as [tok ph hs|tok|tok fc0|tok cold|a]; try reflexivity.
        - destruct v; try reflexivity. destruct (compare hs objs); try reflexivity. destruct ph; reflexivity.
        - destruct objs; reflexivity.
        - destruct objs; reflexivity.
        - destruct v; try reflexivity. destruct (restart_delay objs); reflexivity. }
      rewrite Hn, app_nil_r. destruct (c_con (h_ctrl h)); reflexivity.
    + destruct (s_assoc st && _); cbn [andb]; [|reflexivity].
      unfold rd_act, sol_confirm. rewrite !filter_app. cbn [filter is_confirm].
      rewrite filter_app, filter_confirm_items. cbn [filter is_confirm app].
      assert (Hn : filter is_confirm
                 (if c_fin (h_ctrl h)
                  then match k with RDUser tok => [ORes tok ROk] | RDIntegrity => [] end ++ [OInfoSuccess (rd_type k) 1 seq]
                  else []) = []).
      { destruct (c_fin (h_ctrl h)); [|reflexivity]. destruct k; reflexivity. }
      rewrite Hn, app_nil_r. destruct (c_con (h_ctrl h)); reflexivity.
    + unfold accepted_answer, is_answer in Ha. rewrite Hr in Ha. rewrite !Bool.andb_false_r in Ha. discriminate.
Qed.

Lemma frag_eqb_eq a b : frag_eqb a b = true <-> a = b.
Proof.
  unfold frag_eqb. rewrite Bool.andb_true_iff, !list_eqb_eq. destruct a, b; cbn [fst snd].
  split; [intros [-> ->]; reflexivity|intros H; injection H; auto].
Qed.

Lemma unsol_dup_spec st h objs : unsol_dup st h objs = true <-> s_last_unsol st = Some (hdr_bytes h, objs).
Proof.
  unfold unsol_dup. destruct (s_last_unsol st) as [old|]; [|split; discriminate].
  rewrite frag_eqb_eq. split; [intros ->; reflexivity|intros H; injection H; auto].
Qed.

(* duplicate_unsolicited_confirmed_not_delivered, local form: an unsolicited fragment equal
   (header and objects) to the one recorded last is reported as a repeat and confirmed if it asks
   for it; the handler is not called *)
Theorem duplicate_unsolicited_local cfg st src frag v items h objs :
  s_stopped st = false -> s_conn st = true -> parse_response frag = PResponse h objs -> h_unsol h = true ->
  unsol_accepts cfg st src h objs v = true -> s_last_unsol st = Some (hdr_bytes h, objs) ->
  act (snd (mstep cfg st (ERx src frag v items))) =
  OInfoUnsol true (c_seq (h_ctrl h)) ::
  (if c_con (h_ctrl h) then [OTxConfirm (c_addr cfg) true (c_seq (h_ctrl h))] else []).
Proof.
  intros Hs Hc Hp Hu Ha Hl. rewrite act_mstep by assumption. unfold rx_act. rewrite Hc, Hp, Hu. cbn [negb].
  unfold unsol_act. rewrite Ha. apply unsol_dup_spec in Hl. rewrite Hl. reflexivity.
Qed.

Definition is_cb (o : mobs) : bool :=
  match o with OCbBegin _ _ | OCbItem _ | OCbEnd _ _ => true | _ => false end.
Definition cbs (l : list tobs) : list mobs := filter is_cb (map snd l).

Lemma cbs_act l : cbs l = filter is_cb (act l).
Proof.
  unfold cbs, act. induction (map snd l) as [|o m IH]; [reflexivity|].
  cbn [filter]. destruct (active o) eqn:Ea.
  - cbn [filter]. rewrite IH. reflexivity.
  - destruct o; try discriminate; cbn [is_cb]; exact IH.
Qed.

Lemma filter_cb_items items : filter is_cb (map OCbItem items) = map OCbItem items.
Proof. induction items; cbn; [reflexivity|f_equal; auto]. Qed.

(* which fragment is handed to the measurement handler, and as what *)
Definition delivers (cfg : mcfg) (st : mstate) (ev : mevent) : option (read_type * list byte * list item) :=
  match ev with
  | ERx src frag v items =>
    if negb (s_stopped st) && s_conn st then
      match parse_response frag with
      | PError => None
      | PResponse h objs =>
        if h_unsol h then
          if unsol_accepts cfg st src h objs v && negb (unsol_dup st h objs)
          then Some (RtUnsol, hdr_bytes h, items) else None
        else
          match s_run st with
          | RRead k _ _ _ _ =>
            if accepts_solicited cfg st src h v then Some (rd_read_type k, hdr_bytes h, items) else None
          | _ => None
          end
      end
    else None
  | _ => None
  end.

Definition bracket (d : read_type * list byte * list item) : list mobs :=
  let '(rt, hdr, items) := d in OCbBegin rt hdr :: map OCbItem items ++ [OCbEnd rt hdr].

(* delivered_once_in_order, local form: the handler callbacks of a step are exactly one
   begin/items/end bracket for the fragment the step accepts for delivery - the items in the order
   of the fragment - and nothing otherwise *)
Theorem delivered_local cfg st ev :
  s_stopped st = false ->
  cbs (snd (mstep cfg st ev)) = match delivers cfg st ev with Some d => bracket d | None => [] end.
Proof.
  intros Hs. rewrite cbs_act, act_mstep by assumption.
  destruct ev as [src frag v items|ms|tok t| | | | | |]; try reflexivity.
  unfold rx_act, delivers. rewrite Hs. destruct (s_conn st); cbn [negb andb]; [|reflexivity].
  destruct (parse_response frag) as [|h objs]; [reflexivity|].
  destruct (h_unsol h).
  - unfold unsol_act, unsol_confirm. destruct (unsol_accepts cfg st src h objs v); cbn [andb]; [|reflexivity].
    destruct (unsol_dup st h objs); cbn [negb].
    + destruct (c_con (h_ctrl h)); reflexivity.
    + cbn [bracket]. rewrite filter_app. cbn [filter is_cb]. rewrite filter_app, filter_cb_items.
      cbn [filter is_cb]. destruct (c_con (h_ctrl h)); cbn [filter is_cb]; rewrite app_nil_r; reflexivity.
  - unfold accepts_solicited. destruct (accepted_answer cfg st src h); cbn [andb].
    + destruct (s_run st) as [|k seq d sd|k seq first d sd|tok d]; try reflexivity.
      * rewrite filter_app. unfold sol_confirm.
        assert (Hn : filter is_cb (if s_assoc st then nr_act k seq objs v else []) = []).
        { destruct (s_assoc st); [|reflexivity]. unfold nr_act.
          destruct k as [tok ph hs|tok|tok fc0|tok cold|a]; try reflexivity.
          - destruct v; try reflexivity. destruct (compare hs objs); try reflexivity. destruct ph; reflexivity.
          - destruct objs; reflexivity.
          - destruct objs; reflexivity.
          - destruct v; try reflexivity. destruct (restart_delay objs); reflexivity. }
        rewrite Hn. destruct (c_con (h_ctrl h)); reflexivity.
      * destruct (s_assoc st && _); [|reflexivity].
        unfold rd_act, sol_confirm, bracket. rewrite !filter_app. cbn [filter is_cb].
        rewrite filter_app, filter_cb_items. cbn [filter is_cb].
        assert (Hn : filter is_cb
                   (if c_fin (h_ctrl h)
                    then match k with RDUser tok => [ORes tok ROk] | RDIntegrity => [] end ++ [OInfoSuccess (rd_type k) 1 seq]
                    else []) = []).
        { destruct (c_fin (h_ctrl h)); [|reflexivity]. destruct k; reflexivity. }
        rewrite Hn. destruct (c_con (h_ctrl h)); cbn [filter is_cb]; rewrite !app_nil_r; reflexivity.
    + destruct (s_run st); reflexivity.
Qed.

(* ---------------------------------------------------------------------------------------- *)
(* runs *)

Lemma run_from_nth cfg : forall evs st k o,
  nth_error (run_from cfg st evs) k = Some o ->
  exists ev, nth_error evs k = Some ev /\ o = snd (mstep cfg (final_from cfg st (firstn k evs)) ev).
Proof.
  induction evs as [|e evs IH]; intros st k o H; cbn [run_from] in H.
  - destruct k; discriminate.
  - destruct (mstep cfg st e) as [st1 o1] eqn:E. destruct k as [|k]; cbn [nth_error] in *.
    + injection H as <-. exists e. split; [reflexivity|]. cbn [firstn final_from]. rewrite E. reflexivity.
    + destruct (IH st1 k o H) as (ev & Hev & Ho). exists ev. split; [exact Hev|].
      cbn [firstn final_from]. rewrite E. exact Ho.
Qed.

(* the k-th step of a run: its event, the state before it, its observations *)
Lemma run_nth cfg evs k o :
  nth_error (run cfg evs) (S k) = Some o ->
  exists ev, nth_error evs k = Some ev /\ o = snd (mstep cfg (final cfg (firstn k evs)) ev).
Proof.
  unfold run, final. destruct (minit cfg) as [st0 o0]. cbn [nth_error fst]. apply run_from_nth.
Qed.

(* everything observed before step k *)
Definition hist (cfg : mcfg) (evs : list mevent) (k : nat) : list tobs := concat (firstn (S k) (run cfg evs)).

Lemma final_from_app cfg : forall a st b, final_from cfg st (a ++ b) = final_from cfg (final_from cfg st a) b.
Proof. induction a as [|e a IH]; intros; cbn [app final_from]; auto. Qed.

Lemma firstn_S_nth {A} (l : list A) k x : nth_error l k = Some x -> firstn (S k) l = firstn k l ++ [x].
Proof.
  revert k; induction l as [|y l IH]; intros [|k] H; cbn in *; try discriminate.
  - injection H as ->. reflexivity.
  - f_equal. apply IH. exact H.
Qed.

Lemma run_from_length cfg : forall evs st, length (run_from cfg st evs) = length evs.
Proof. induction evs as [|e evs IH]; intros st; cbn [run_from]; [reflexivity|]. destruct (mstep cfg st e). cbn. auto. Qed.

Lemma run_from_nth_some cfg : forall evs st k ev, nth_error evs k = Some ev ->
  nth_error (run_from cfg st evs) k = Some (snd (mstep cfg (final_from cfg st (firstn k evs)) ev)).
Proof.
  induction evs as [|e evs IH]; intros st k ev H; [destruct k; discriminate|].
  cbn [run_from]. destruct (mstep cfg st e) as [st1 o1] eqn:E. destruct k as [|k]; cbn [nth_error firstn final_from] in *.
  - injection H as ->. rewrite E. reflexivity.
  - rewrite E. cbn [fst]. apply IH. exact H.
Qed.

(* an invariant of states and histories holds along every run *)
Lemma run_invariant cfg (Inv : mstate -> list tobs -> Prop) :
  Inv (fst (minit cfg)) (snd (minit cfg)) ->
  (forall st h ev, Inv st h -> Inv (fst (mstep cfg st ev)) (h ++ snd (mstep cfg st ev))) ->
  forall evs k, (k <= length evs)%nat -> Inv (final cfg (firstn k evs)) (hist cfg evs k).
Proof.
  intros H0 Hstep evs k. induction k as [|k IH]; intros Hk.
  - unfold hist, final, run. destruct (minit cfg) as [st0 o0]. cbn [firstn final_from concat fst snd] in *.
    rewrite app_nil_r. exact H0.
  - assert (Hlt : (k < length evs)%nat) by lia.
    destruct (nth_error evs k) as [ev|] eqn:Hev; [|apply nth_error_None in Hev; lia].
    specialize (IH ltac:(lia)). specialize (Hstep _ _ ev IH).
    rewrite (firstn_S_nth _ _ _ Hev). unfold final. rewrite final_from_app. cbn [final_from].
    fold (final cfg (firstn k evs)).
    unfold hist.
    assert (Hn : nth_error (run cfg evs) (S k) = Some (snd (mstep cfg (final cfg (firstn k evs)) ev))).
    { unfold run, final. destruct (minit cfg) as [st0 o0]. cbn [nth_error fst]. apply run_from_nth_some. exact Hev. }
    rewrite (firstn_S_nth _ _ _ Hn), concat_app. cbn [concat]. rewrite app_nil_r. exact Hstep.
Qed.

(* ---------------------------------------------------------------------------------------- *)
(* the outstanding task and the history: which request is on the wire, how many fragments of
   its answer have been accepted *)

Record req := mk_req { rq_seq : N; rq_fc : N; rq_objs : list byte; rq_frags : nat }.

Definition hstep (s : option req) (o : mobs) : option req :=
  match o with
  | OTxReq _ q fc objs => Some (mk_req q fc objs 0)
  | OCbBegin RtUnsol _ => s
  | OCbBegin _ _ =>
    match s with Some r => Some (mk_req (rq_seq r) (rq_fc r) (rq_objs r) (S (rq_frags r))) | None => None end
  | _ => s
  end.

(* the last request written and the number of fragments of its answer delivered since *)
Definition last_request (h : list tobs) : option req := fold_left hstep (map snd h) None.

Fixpoint seq_add (q : N) (n : nat) : N := match n with O => q | S m => seq_next (seq_add q m) end.

Definition nr_objs_ok (k : nr_kind) (objs : list byte) : Prop :=
  match k with NRCommand _ _ hs => objs = encode_phs hs | _ => True end.

Definition tracks (st : mstate) (s : option req) : Prop :=
  match s_run st with
  | RNonRead k q _ _ =>
    (exists objs, s = Some (mk_req q (nr_fc k) objs 0) /\ nr_objs_ok k objs) /\ s_seq st = seq_next q
  | RRead k q first _ _ =>
    (exists r objs n, s = Some (mk_req r 1 objs n) /\ q = seq_add r n /\ first = (n =? 0)%nat)
    /\ s_seq st = seq_next q
  | _ => True
  end.

Definition neutral (o : mobs) : bool :=
  match o with
  | OTxReq _ _ _ _ => false
  | OCbBegin RtUnsol _ => true
  | OCbBegin _ _ => false
  | _ => true
  end.
Definition neutrals (l : list tobs) : Prop := Forall (fun p => neutral (snd p) = true) l.

Definition hfold (l : list tobs) (s : option req) : option req := fold_left hstep (map snd l) s.

Lemma hfold_app a b s : hfold (a ++ b) s = hfold b (hfold a s).
Proof. unfold hfold. rewrite map_app, fold_left_app. reflexivity. Qed.
Lemma hfold_nil s : hfold [] s = s. Proof. reflexivity. Qed.
Lemma hfold_emit st o s : hfold (emit st o) s = hstep s o.
Proof. Transparent emit. reflexivity. Qed.
#[local] Opaque emit.
Lemma hfold_neutrals l s : neutrals l -> hfold l s = s.
Proof.
  unfold hfold, neutrals. revert s; induction l as [|[t o] l IH]; intros s H; [reflexivity|].
  inversion H as [|? ? Ho Hl]; subst. cbn [map snd fold_left] in *.
  rewrite IH by assumption. destruct o; try reflexivity; try discriminate. destruct rt; try discriminate; reflexivity.
Qed.
Lemma neutrals_nil : neutrals []. Proof. constructor. Qed.
Lemma neutrals_app a b : neutrals a -> neutrals b -> neutrals (a ++ b).
Proof. unfold neutrals. intros. apply Forall_app. auto. Qed.
Lemma neutrals_emit st o : neutral o = true -> neutrals (emit st o).
Proof. Transparent emit. intros H. constructor; [exact H|constructor]. Qed.
#[local] Opaque emit.
Lemma neutrals_flat_map {A} (f : A -> list tobs) l : (forall x, neutrals (f x)) -> neutrals (flat_map f l).
Proof. intros H. induction l; cbn [flat_map]; [constructor|apply neutrals_app; auto]. Qed.

Ltac neu := repeat first [apply neutrals_nil | apply neutrals_app | apply neutrals_emit; reflexivity].

(* primitives that leave the outstanding task and the sequence number alone and write nothing
   that counts *)
Definition keeps (st st' : mstate) : Prop := s_run st' = s_run st /\ s_seq st' = s_seq st.

Lemma tracks_keeps st st' o s : keeps st st' -> neutrals o -> tracks st s -> tracks st' (hfold o s).
Proof.
  intros [Hr Hq] Hn Ht. rewrite hfold_neutrals by assumption. unfold tracks in *. rewrite Hr, Hq. exact Ht.
Qed.

Lemma tracks_idle st s : (s_run st = RNone \/ exists tok d, s_run st = RLink tok d) -> tracks st s.
Proof. unfold tracks. intros [->|(tok & d & ->)]; exact I. Qed.

Lemma keeps_refl st : keeps st st. Proof. split; reflexivity. Qed.
Lemma keeps_trans a b c : keeps a b -> keeps b c -> keeps a c.
Proof. unfold keeps. intros [H1 H2] [H3 H4]. split; congruence. Qed.

Lemma failure_any cfg now a : exists l n, failure cfg now a = AFailed l n.
Proof. unfold failure. eauto. Qed.

Lemma nr_error_keeps cfg st k e st' o : nr_error cfg st k e = (st', o) -> keeps st st' /\ neutrals o.
Proof.
  unfold nr_error. destruct k as [tok ph hs|tok|tok fc|tok cold|a]; intros H;
    try (injection H as <- <-; split; [apply keeps_refl|neu]).
  destruct (s_assoc st).
  - destruct e; injection H as <- <-; (split; [|neu]);
      unfold auto_failure, auto_response; destruct a; try destruct (iin1_restart _); split; reflexivity.
  - injection H as <- <-; split; [apply keeps_refl|neu].
Qed.

Lemma rd_error_keeps cfg st k e st' o : rd_error cfg st k e = (st', o) -> keeps st st' /\ neutrals o.
Proof.
  unfold rd_error. destruct k as [tok|]; intros H; [injection H as <- <-; split; [apply keeps_refl|neu]|].
  destruct (s_assoc st); injection H as <- <-; (split; [split; reflexivity|neu]).
Qed.

Lemma notify_fail_neutrals st ty e : neutrals (notify_fail st ty e).
Proof. unfold notify_fail. destruct (s_assoc st); neu. Qed.

(* a task that ends *)
Lemma fail_running_idle cfg st e st' o :
  fail_running cfg st e = (st', o) -> s_run st' = RNone /\ neutrals o.
Proof.
  unfold fail_running. destruct (s_run st) as [|k seq d sd|k seq f d sd|tok d] eqn:Hr; intros H.
  - injection H as <- <-. split; [exact Hr|neu].
  - destruct (nr_error cfg st k e) as [st1 o1] eqn:E. injection H as <- <-.
    split; [reflexivity|]. apply neutrals_app; [eapply nr_error_keeps; eauto|apply notify_fail_neutrals].
  - destruct (rd_error cfg st k e) as [st1 o1] eqn:E. injection H as <- <-.
    split; [reflexivity|]. apply neutrals_app; [eapply rd_error_keeps; eauto|apply notify_fail_neutrals].
  - injection H as <- <-. split; [reflexivity|neu].
Qed.

Lemma send_nonread_tracks cfg st k objs sd st' o s :
  nr_objs_ok k objs -> send_nonread cfg st k objs sd = (st', o) -> tracks st' (hfold o s).
Proof.
  unfold send_nonread. intros Hk. destruct (fits cfg objs); intros H.
  - injection H as <- <-. rewrite hfold_emit. unfold tracks. cbn [s_run set_run set_seq s_seq hstep].
    split; [exists objs; split; [reflexivity|exact Hk]|reflexivity].
  - destruct (nr_error _ _ _ _) as [st2 o2]. injection H as <- <-. apply tracks_idle. left. reflexivity.
Qed.

Lemma start_nonread_tracks cfg st k objs st' o s :
  nr_objs_ok k objs -> start_nonread cfg st k objs = (st', o) -> tracks st' (hfold o s).
Proof.
  unfold start_nonread. intros Hk. destruct (send_nonread _ _ _ _ _) as [st1 o1] eqn:E. intros H.
  injection H as <- <-. rewrite hfold_app, hfold_emit. cbn [hstep]. eapply send_nonread_tracks; eauto.
Qed.

Lemma start_read_tracks cfg st k objs st' o s : start_read cfg st k objs = (st', o) -> tracks st' (hfold o s).
Proof.
  unfold start_read. destruct (fits cfg objs); intros H.
  - injection H as <- <-. rewrite hfold_app, !hfold_emit. unfold tracks. cbn [s_run set_run set_seq s_seq hstep].
    split; [|reflexivity]. exists (s_seq st), objs, 0%nat. repeat split.
  - destruct (rd_error _ _ _ _) as [st2 o2]. injection H as <- <-. apply tracks_idle. left. reflexivity.
Qed.

Lemma start_user_tracks cfg st tok t st' o s : start_user cfg st tok t = (st', o) -> tracks st' (hfold o s).
Proof.
  unfold start_user. destruct t; intros H.
  - eapply start_read_tracks; eauto.
  - eapply start_nonread_tracks; [|eauto]. reflexivity.
  - eapply start_nonread_tracks; [|eauto]. exact I.
  - eapply start_nonread_tracks; [|eauto]. exact I.
  - eapply start_nonread_tracks; [|eauto]. exact I.
  - injection H as <- <-. apply tracks_idle. right. cbn [s_run set_run]. eauto.
Qed.

Lemma pump_tracks fuel cfg : forall st st' o s, tracks st s -> pump fuel cfg st = (st', o) -> tracks st' (hfold o s).
Proof.
  induction fuel as [|f IH]; intros st st' o s Ht H; cbn [pump] in H.
  - injection H as <- <-. exact Ht.
  - destruct (negb (s_conn st)); [injection H as <- <-; exact Ht|].
    destruct (s_run st) eqn:Hr; try (injection H as <- <-; exact Ht).
    destruct (next_task cfg st) as [|t|tok t|a|].
    + injection H as <- <-. exact Ht.
    + injection H as <- <-. exact Ht.
    + destruct (start_user _ _ _ _) as [st1 o1] eqn:E1. destruct (pump f cfg st1) as [st2 o2] eqn:E2.
      injection H as <- <-. rewrite hfold_app. eapply IH; [|exact E2]. eapply start_user_tracks; eauto.
    + destruct (start_nonread _ _ _ _) as [st1 o1] eqn:E1. destruct (pump f cfg st1) as [st2 o2] eqn:E2.
      injection H as <- <-. rewrite hfold_app. eapply IH; [|exact E2]. eapply start_nonread_tracks; [|eauto]. exact I.
    + destruct (start_read _ _ _ _) as [st1 o1] eqn:E1. destruct (pump f cfg st1) as [st2 o2] eqn:E2.
      injection H as <- <-. rewrite hfold_app. eapply IH; [|exact E2]. eapply start_read_tracks; eauto.
Qed.

Lemma then_pump_tracks cfg st1 o1 st' o s :
  tracks st1 (hfold o1 s) -> then_pump cfg (st1, o1) = (st', o) -> tracks st' (hfold o s).
Proof.
  unfold then_pump, run_pump. destruct (pump _ cfg st1) as [st2 o2] eqn:E. intros Ht H. injection H as <- <-.
  rewrite hfold_app. eapply pump_tracks; eauto.
Qed.

Lemma neutrals_deliver_unsol st h items : neutrals (deliver st RtUnsol h items).
Proof. unfold deliver. apply neutrals_app; [neu|]. apply neutrals_app; [|neu]. apply neutrals_flat_map. intros; neu. Qed.

Lemma hfold_deliver st rt h items s : hfold (deliver st rt h items) s = hstep s (OCbBegin rt (hdr_bytes h)).
Proof.
  unfold deliver. rewrite !hfold_app, !hfold_emit. cbn [hstep].
  apply hfold_neutrals. apply neutrals_flat_map. intros; neu.
Qed.

Lemma process_iin_keeps st i : keeps st (process_iin st i).
Proof. unfold process_iin. destruct (iin1_restart i); [destruct (s_clear st)|]; split; reflexivity. Qed.

Lemma handle_unsol_keeps cfg st src h objs v items st' o :
  handle_unsol cfg st src h objs v items = (st', o) -> keeps st st' /\ neutrals o.
Proof.
  unfold handle_unsol. destruct (_ && s_assoc st); [|intros H; injection H as <- <-; split; [apply keeps_refl|neu]].
  destruct (_ || _); [|intros H; injection H as <- <-; split; [apply process_iin_keeps|neu]].
  destruct v; try (intros H; injection H as <- <-; split; [apply process_iin_keeps|neu]).
  destruct (match s_last_unsol _ with Some _ => _ | None => _ end); intros H; injection H as <- <-.
  - split; [eapply keeps_trans; [apply process_iin_keeps|split; reflexivity]|].
    apply neutrals_app; [neu|]. destruct (c_con _); neu.
  - split; [eapply keeps_trans; [apply process_iin_keeps|split; reflexivity]|].
    apply neutrals_app; [apply neutrals_deliver_unsol|]. apply neutrals_app; [neu|]. destruct (c_con _); neu.
Qed.

Lemma handle_nonread_response_tracks cfg st k seq sd h objs v st' o s :
  handle_nonread_response cfg st k seq sd h objs v = (st', o) -> tracks st' (hfold o s).
Proof.
  unfold handle_nonread_response, nr_success, nr_failed.
  destruct k as [tok ph hs|tok|tok fc|tok cold|a].
  - destruct v; try (intros H; injection H as <- <-; apply tracks_idle; left; reflexivity).
    destruct (compare hs objs); [|intros H; injection H as <- <-; apply tracks_idle; left; reflexivity].
    destruct ph; try (intros H; injection H as <- <-; apply tracks_idle; left; reflexivity).
    intros H. eapply send_nonread_tracks; [|eauto]. reflexivity.
  - destruct objs; intros H; injection H as <- <-; apply tracks_idle; left; reflexivity.
  - destruct objs; intros H; injection H as <- <-; apply tracks_idle; left; reflexivity.
  - destruct v; try (intros H; injection H as <- <-; apply tracks_idle; left; reflexivity).
    destruct (restart_delay objs); intros H; injection H as <- <-; apply tracks_idle; left; reflexivity.
  - intros H; injection H as <- <-; apply tracks_idle; left; reflexivity.
Qed.

Lemma fail_running_tracks cfg st e st' o s : fail_running cfg st e = (st', o) -> tracks st' (hfold o s).
Proof. intros H. apply tracks_idle. left. eapply fail_running_idle; eauto. Qed.

Lemma on_nonread_rx_tracks cfg st k seq d sd src h objs v items st' o s :
  tracks st s -> on_nonread_rx cfg st k seq d sd src h objs v items = (st', o) -> tracks st' (hfold o s).
Proof.
  intros Ht. unfold on_nonread_rx.
  destruct (h_unsol h).
  { intros H. destruct (handle_unsol_keeps _ _ _ _ _ _ _ _ _ H). eapply tracks_keeps; eauto. }
  destruct (negb (src =? c_addr cfg)); [intros H; injection H as <- <-; exact Ht|].
  destruct (negb (c_seq (h_ctrl h) =? seq)); [intros H; injection H as <- <-; exact Ht|].
  destruct (negb (c_fir (h_ctrl h) && c_fin (h_ctrl h))); [apply fail_running_tracks|].
  destruct (iin2_bad (h_iin2 h)); [apply fail_running_tracks|].
  destruct (s_assoc st).
  - destruct (handle_nonread_response _ _ _ _ _ _ _ _) as [st1 o1] eqn:E. intros H. injection H as <- <-.
    rewrite hfold_app. eapply handle_nonread_response_tracks; eauto.
  - destruct (nr_error _ _ _ _) as [st1 o1]. intros H. injection H as <- <-. apply tracks_idle. left. reflexivity.
Qed.

Lemma on_read_rx_tracks cfg st k seq first d sd src h objs v items st' o s :
  s_run st = RRead k seq first d sd ->
  tracks st s -> on_read_rx cfg st k seq first d sd src h objs v items = (st', o) -> tracks st' (hfold o s).
Proof.
  intros Hr Ht. unfold on_read_rx.
  destruct (h_unsol h).
  { intros H. destruct (handle_unsol_keeps _ _ _ _ _ _ _ _ _ H). eapply tracks_keeps; eauto. }
  destruct (negb (src =? c_addr cfg)); [intros H; injection H as <- <-; exact Ht|].
  destruct (negb (c_seq (h_ctrl h) =? seq)); [intros H; injection H as <- <-; exact Ht|].
  destruct (c_fir (h_ctrl h) && negb first); [apply fail_running_tracks|].
  destruct (negb (c_fir (h_ctrl h)) && first); [apply fail_running_tracks|].
  destruct (negb (c_fin (h_ctrl h)) && negb (c_con (h_ctrl h))); [apply fail_running_tracks|].
  destruct (iin2_bad (h_iin2 h)); [apply fail_running_tracks|].
  destruct (negb (s_assoc st)); [apply fail_running_tracks|].
  destruct v; try apply fail_running_tracks.
  destruct (c_fin (h_ctrl h)).
  - destruct k as [tok|]; intros H; injection H as <- <-; apply tracks_idle; left; reflexivity.
  - intros H. injection H as <- <-.
    unfold tracks in Ht. rewrite Hr in Ht. destruct Ht as [(r & ro & n & -> & -> & ->) Hq].
    rewrite hfold_app, hfold_deliver.
    assert (Hc : forall x, hfold (if c_con (h_ctrl h) then emit st (OTxConfirm (c_addr cfg) false (seq_add r n)) else []) x = x).
    { intros x. destruct (c_con (h_ctrl h)); [rewrite hfold_emit|]; reflexivity. }
    rewrite Hc. destruct (process_iin_keeps st (h_iin1 h)) as [_ Hs].
    unfold tracks. cbn [s_run set_run set_seq s_seq]. rewrite Hs, Hq.
    split; [|reflexivity]. exists r, ro, (S n).
    destruct k; cbn [rd_read_type hstep rq_seq rq_fc rq_objs rq_frags seq_add]; repeat split.
Qed.

Lemma on_rx_tracks cfg st src frag v items st' o s :
  tracks st s -> on_rx cfg st src frag v items = (st', o) -> tracks st' (hfold o s).
Proof.
  intros Ht. unfold on_rx.
  destruct (negb (s_conn st)); [intros H; injection H as <- <-; rewrite hfold_emit; exact Ht|].
  destruct (parse_response frag) as [|h objs].
  - destruct (s_run st) eqn:Hr; try apply fail_running_tracks. intros H; injection H as <- <-; exact Ht.
  - destruct (s_run st) as [|k seq d sd|k seq first d sd|tok d] eqn:Hr.
    + destruct (h_unsol h); [|intros H; injection H as <- <-; exact Ht].
      intros H. destruct (handle_unsol_keeps _ _ _ _ _ _ _ _ _ H). eapply tracks_keeps; eauto.
    + apply on_nonread_rx_tracks. exact Ht.
    + apply on_read_rx_tracks; assumption.
    + destruct (if h_unsol h then _ else _) as [st1 o1]. destruct (fail_running cfg st1 EBadHeaders) as [st2 o2] eqn:E.
      intros H. injection H as <- <-. apply tracks_idle. left. eapply fail_running_idle; eauto.
Qed.

Lemma stop_run_idle cfg st why st' o : stop_run cfg st why = (st', o) -> s_run st' = RNone.
Proof.
  unfold stop_run. destruct (fail_running _ _ _) as [st1 o1] eqn:E1. apply fail_running_idle in E1. destruct E1 as [E1 _].
  destruct (s_assoc st1).
  - unfold reset_assoc. intros H. injection H as <- _. exact E1.
  - intros H. injection H as <- _. exact E1.
Qed.

Lemma on_event_tracks cfg st ev st' o s : tracks st s -> on_event cfg st ev = (st', o) -> tracks st' (hfold o s).
Proof.
  intros Ht. destruct ev as [src frag v items|ms|tok t| | | | | |]; cbn [on_event].
  - destruct (on_rx _ _ _ _ _ _) as [st1 o1] eqn:E. intros H. injection H as <- <-.
    rewrite hfold_app, hfold_emit. cbn [hstep]. eapply on_rx_tracks; eauto.
  - intros H. injection H as <- <-. exact Ht.
  - unfold on_user. destruct (negb (s_assoc st)); [intros H; injection H as <- <-; rewrite hfold_emit; exact Ht|].
    destruct (negb (s_conn st)); [intros H; injection H as <- <-; rewrite hfold_emit; exact Ht|].
    destruct (_ <? _)%nat; intros H; injection H as <- <-; [exact Ht|rewrite hfold_emit; exact Ht].
  - destruct (s_conn st); [|intros H; injection H as <- <-; exact Ht].
    intros H. apply tracks_idle. left. eapply stop_run_idle; eauto.
  - destruct (s_conn st); [intros H; injection H as <- <-; exact Ht|].
    unfold try_connect. destruct (_ && _); intros H; injection H as <- <-; [rewrite hfold_emit|]; exact Ht.
  - destruct (s_conn st); [|intros H; injection H as <- <-; exact Ht].
    intros H. apply tracks_idle. left. eapply stop_run_idle; eauto.
  - unfold try_connect. destruct (_ && _); intros H; injection H as <- <-; [rewrite hfold_emit|]; exact Ht.
  - intros H. injection H as <- <-. rewrite hfold_neutrals; [exact Ht|]. apply neutrals_flat_map. intros; neu.
  - destruct (s_conn st).
    + destruct (stop_run cfg st StShutdown) as [st1 o1] eqn:E. intros H. injection H as <- <-.
      apply tracks_idle. left. cbn [s_run set_chan]. eapply stop_run_idle; eauto.
    + intros H. injection H as <- <-. rewrite ?hfold_app, ?hfold_nil, hfold_emit. exact Ht.
Qed.

Lemma fire_tracks cfg st st' o s : tracks st s -> fire cfg st = (st', o) -> tracks st' (hfold o s).
Proof.
  intros Ht. unfold fire. destruct (s_run st) eqn:Hr.
  - apply pump_tracks. exact Ht.
  - destruct (fail_running cfg st ETimeout) as [st1 o1] eqn:E. apply then_pump_tracks. eapply fail_running_tracks; eauto.
  - destruct (fail_running cfg st ETimeout) as [st1 o1] eqn:E. apply then_pump_tracks. eapply fail_running_tracks; eauto.
  - destruct (fail_running cfg st ETimeout) as [st1 o1] eqn:E. apply then_pump_tracks. eapply fail_running_tracks; eauto.
Qed.

Lemma tracks_set_now st t s : tracks st s -> tracks (set_now st t) s.
Proof. exact (fun H => H). Qed.

Lemma advance_tracks fuel cfg : forall st target st' o s,
  tracks st s -> advance fuel cfg st target = (st', o) -> tracks st' (hfold o s).
Proof.
  induction fuel as [|f IH]; intros st target st' o s Ht H; cbn [advance] in H.
  - injection H as <- <-. exact Ht.
  - destruct (wake_time cfg st) as [d|]; [|injection H as <- <-; exact Ht].
    destruct (d <=? target); [|injection H as <- <-; exact Ht].
    destruct (fire _ _) as [st1 o1] eqn:E1. destruct (advance f cfg st1 target) as [st2 o2] eqn:E2.
    injection H as <- <-. rewrite hfold_app. eapply IH; [|exact E2]. eapply fire_tracks; [|exact E1].
    apply tracks_set_now. exact Ht.
Qed.

Lemma mstep_tracks cfg st ev s : tracks st s -> tracks (fst (mstep cfg st ev)) (hfold (snd (mstep cfg st ev)) s).
Proof.
  intros Ht. unfold mstep. destruct (s_stopped st); [cbn [fst snd]; rewrite hfold_app, !hfold_emit; exact Ht|].
  destruct (on_event cfg st ev) as [st0 o0] eqn:E0.
  destruct (then_pump cfg (st0, o0)) as [st1 o1] eqn:E1.
  destruct (advance _ cfg st1 _) as [st2 o2] eqn:E2. cbn [fst snd].
  rewrite !hfold_app, hfold_emit. cbn [hstep]. eapply advance_tracks; [|exact E2].
  eapply then_pump_tracks; [|exact E1]. eapply on_event_tracks; eauto.
Qed.

Lemma last_request_app a b : last_request (a ++ b) = hfold b (last_request a).
Proof. unfold last_request, hfold. rewrite map_app, fold_left_app. reflexivity. Qed.

(* along every run the outstanding task is the last request written, advanced by the fragments
   delivered since *)
Theorem run_tracks cfg evs k :
  (k <= length evs)%nat -> tracks (final cfg (firstn k evs)) (last_request (hist cfg evs k)).
Proof.
  apply (run_invariant cfg (fun st h => tracks st (last_request h))).
  - unfold minit. destruct (run_pump cfg _) as [st1 o1] eqn:E1. destruct (advance 2 cfg st1 1) as [st2 o2] eqn:E2.
    cbn [fst snd]. change (last_request ?l) with (hfold l None). rewrite !hfold_app, hfold_emit. cbn [hstep].
    eapply advance_tracks; [|exact E2]. eapply pump_tracks; [|exact E1]. exact I.
  - intros st h ev Ht. rewrite last_request_app. apply mstep_tracks. exact Ht.
Qed.

Lemma nth_error_le {A} (l : list A) k x : nth_error l k = Some x -> (k <= length l)%nat.
Proof. intros H. assert (k < length l)%nat by (apply nth_error_Some; congruence). lia. Qed.

Lemma accepted_answer_inv cfg st src h :
  accepted_answer cfg st src h = true ->
  src = c_addr cfg /\ iin2_bad (h_iin2 h) = false /\
  ((exists k q d sd, s_run st = RNonRead k q d sd /\ c_seq (h_ctrl h) = q /\
                     c_fir (h_ctrl h) = true /\ c_fin (h_ctrl h) = true) \/
   (exists k q f d sd, s_run st = RRead k q f d sd /\ c_seq (h_ctrl h) = q /\ c_fir (h_ctrl h) = f /\
                       (c_fin (h_ctrl h) = true \/ c_con (h_ctrl h) = true))).
Proof.
  unfold accepted_answer, is_answer, flags_ok. intros H.
  apply Bool.andb_true_iff in H. destruct H as [H Hi]. apply Bool.andb_true_iff in H. destruct H as [H Hf].
  apply Bool.andb_true_iff in H. destruct H as [Hs Hq]. apply N.eqb_eq in Hs. apply Bool.negb_true_iff in Hi.
  split; [exact Hs|]. split; [exact Hi|].
  destruct (s_run st) as [|k q d sd|k q f d sd|tok d]; try discriminate; apply N.eqb_eq in Hq.
  - left. apply Bool.andb_true_iff in Hf. exists k, q, d, sd. tauto.
  - right. apply Bool.andb_true_iff in Hf. destruct Hf as [Hf1 Hf2]. apply Bool.eqb_prop in Hf1.
    apply Bool.orb_true_iff in Hf2. exists k, q, f, d, sd. tauto.
Qed.

Lemma stopped_no_obs cfg st ev o : s_stopped st = true -> In o (map snd (snd (mstep cfg st ev))) -> o = OStep \/ o = OIgnored.
Proof.
  intros Hs. rewrite mstep_stopped by assumption. cbn. intros [H|[H|[]]]; auto.
Qed.

(* C15.1 completion_needs_matching_response.  A task reports success only in a step that receives
   a solicited response from the addressed outstation; the response carries the sequence number
   of the LAST REQUEST WRITTEN advanced by the number of fragments of its answer delivered since
   (so the fragments of a multi-fragment answer carry consecutive numbers), has FIR exactly when it
   is the first fragment of the answer, has FIN, carries no IIN2 rejection; for every request but
   a READ it is the only fragment (FIR and FIN). *)
Theorem completion_needs_matching_response : forall cfg evs k o ty fc s,
  nth_error (run cfg evs) (S k) = Some o ->
  In (OInfoSuccess ty fc s) (map snd o) ->
  exists src frag v items h objs r,
    nth_error evs k = Some (ERx src frag v items) /\ parse_response frag = PResponse h objs /\
    h_unsol h = false /\ src = c_addr cfg /\ c_seq (h_ctrl h) = s /\ c_fin (h_ctrl h) = true /\
    iin2_bad (h_iin2 h) = false /\
    last_request (hist cfg evs k) = Some r /\
    s = seq_add (rq_seq r) (rq_frags r) /\ c_fir (h_ctrl h) = (rq_frags r =? 0)%nat /\
    (rq_fc r <> 1 -> rq_frags r = 0%nat).
Proof.
  intros cfg evs k o ty fc s Hn Hin.
  destruct (run_nth _ _ _ _ Hn) as (ev & Hev & ->).
  set (st := final cfg (firstn k evs)) in *.
  destruct (s_stopped st) eqn:Hs.
  { apply stopped_no_obs in Hin; [|exact Hs]. destruct Hin; discriminate. }
  destruct (success_local _ _ _ _ _ _ Hs Hin) as (src & frag & v & items & h & objs & -> & Hc & Hp & Hu & Ha & Hfin & Hq).
  pose proof (run_tracks cfg evs k (nth_error_le _ _ _ Hev)) as Ht. fold st in Ht.
  destruct (accepted_answer_inv _ _ _ _ Ha) as (Hsrc & Hi & Hcase).
  exists src, frag, v, items, h, objs.
  unfold tracks in Ht.
  destruct Hcase as [(kk & q & d & sd & Hr & Hq' & Hfir & _)|(kk & q & f & d & sd & Hr & Hq' & Hfir & _)];
    rewrite Hr in Ht.
  - destruct Ht as [(ro & Hl & _) _]. exists (mk_req q (nr_fc kk) ro 0).
    cbn [rq_seq rq_frags rq_fc seq_add Nat.eqb]. repeat split; try assumption; congruence.
  - destruct Ht as [(r & ro & n & Hl & Hqq & Hff) _]. exists (mk_req r 1 ro n).
    cbn [rq_seq rq_frags rq_fc]. repeat split; try assumption; try congruence.
Qed.

(* ---------------------------------------------------------------------------------------- *)
(* C15 along runs *)

Definition state_at (cfg : mcfg) (evs : list mevent) (k : nat) : mstate := final cfg (firstn k evs).

Lemma act_stopped cfg st ev : s_stopped st = true -> act (snd (mstep cfg st ev)) = [].
Proof. intros Hs. rewrite mstep_stopped by assumption. reflexivity. Qed.

Lemma accepts_stopped cfg st ev : s_stopped st = true -> accepts cfg st ev = false.
Proof. intros Hs. destruct ev; try reflexivity. unfold accepts. rewrite Hs. reflexivity. Qed.

(* what "the answer to its question" means in terms of the history: the last request written
   and the fragments of its answer delivered so far *)
Definition answers (r : req) (h : rhdr) : Prop :=
  c_seq (h_ctrl h) = seq_add (rq_seq r) (rq_frags r) /\
  c_fir (h_ctrl h) = (rq_frags r =? 0)%nat /\
  (c_fin (h_ctrl h) = true \/ c_con (h_ctrl h) = true) /\
  (rq_fc r <> 1 -> rq_frags r = 0%nat /\ c_fin (h_ctrl h) = true).

Lemma accepted_answers cfg evs k src h :
  (k <= length evs)%nat -> accepted_answer cfg (state_at cfg evs k) src h = true ->
  src = c_addr cfg /\ iin2_bad (h_iin2 h) = false /\
  exists r, last_request (hist cfg evs k) = Some r /\ answers r h.
Proof.
  intros Hk Ha. pose proof (run_tracks cfg evs k Hk) as Ht. fold (state_at cfg evs k) in Ht.
  destruct (accepted_answer_inv _ _ _ _ Ha) as (Hsrc & Hi & Hcase). split; [exact Hsrc|]. split; [exact Hi|].
  unfold tracks in Ht.
  destruct Hcase as [(kk & q & d & sd & Hr & Hq & Hfir & Hfin)|(kk & q & f & d & sd & Hr & Hq & Hfir & Hfc)];
    rewrite Hr in Ht.
  - destruct Ht as [(ro & Hl & _) _]. exists (mk_req q (nr_fc kk) ro 0). split; [exact Hl|].
    unfold answers. cbn [rq_seq rq_frags rq_fc seq_add Nat.eqb]. repeat split; auto.
  - destruct Ht as [(r & ro & n & Hl & Hqq & Hff) _]. exists (mk_req r 1 ro n). split; [exact Hl|].
    unfold answers. cbn [rq_seq rq_frags rq_fc]. repeat split; try congruence; try assumption;
      intros Hne; exfalso; apply Hne; reflexivity.
Qed.

(* C15.2 reject_is_inert.  A received fragment that is not an unsolicited response and is not the
   answer to the last request written - unparsable header, foreign source address, sequence
   number other than the one the history determines, FIR/FIN/CON wrong for its position, IIN2
   rejection - completes nothing, reaches no handler and is not confirmed: the step has no active
   observation at all. *)
Theorem reject_is_inert : forall cfg evs k o src frag v items,
  nth_error (run cfg evs) (S k) = Some o -> nth_error evs k = Some (ERx src frag v items) ->
  (parse_response frag = PError \/
   exists h objs, parse_response frag = PResponse h objs /\ h_unsol h = false /\
     ~ (src = c_addr cfg /\ iin2_bad (h_iin2 h) = false /\
        exists r, last_request (hist cfg evs k) = Some r /\ answers r h)) ->
  act o = [].
Proof.
  intros cfg evs k o src frag v items Hn Hev Hbad.
  destruct (run_nth _ _ _ _ Hn) as (ev & Hev' & ->). rewrite Hev in Hev'. injection Hev' as <-.
  fold (state_at cfg evs k).
  destruct (s_stopped (state_at cfg evs k)) eqn:Hs; [apply act_stopped; exact Hs|].
  apply reject_is_inert_local; [exact Hs|].
  unfold accepts. rewrite Hs. cbn [negb andb].
  destruct (s_conn (state_at cfg evs k)); [|reflexivity]. cbn [andb].
  destruct Hbad as [->|(h & objs & -> & Hu & Hnot)]; [reflexivity|]. rewrite Hu.
  unfold accepts_solicited.
  destruct (accepted_answer cfg (state_at cfg evs k) src h) eqn:Ha; [|reflexivity].
  exfalso. apply Hnot. eapply accepted_answers; [eapply nth_error_le; eauto|exact Ha].
Qed.

(* the unsolicited side of "rejected": gated by the start-up sequence, from another address,
   without association or with malformed objects *)
Theorem rejected_unsolicited_is_inert : forall cfg evs k o src frag v items h objs,
  nth_error (run cfg evs) (S k) = Some o -> nth_error evs k = Some (ERx src frag v items) ->
  parse_response frag = PResponse h objs -> h_unsol h = true ->
  unsol_accepts cfg (state_at cfg evs k) src h objs v = false -> act o = [].
Proof.
  intros cfg evs k o src frag v items h objs Hn Hev Hp Hu Hna.
  destruct (run_nth _ _ _ _ Hn) as (ev & Hev' & ->). rewrite Hev in Hev'. injection Hev' as <-.
  fold (state_at cfg evs k).
  destruct (s_stopped (state_at cfg evs k)) eqn:Hs; [apply act_stopped; exact Hs|].
  apply reject_is_inert_local; [exact Hs|]. unfold accepts. rewrite Hp, Hu, Hna, Bool.andb_false_r. reflexivity.
Qed.

Lemma confirms_stopped cfg st ev : s_stopped st = true -> confirms (snd (mstep cfg st ev)) = [].
Proof. intros Hs. rewrite mstep_stopped by assumption. reflexivity. Qed.

(* C15.3 confirm_exactly_once.  In every step of every run the CONFIRMs written are: exactly one
   - to the outstation of the association, carrying the fragment's sequence number and the UNS bit
   iff the fragment is unsolicited - when the step accepts a fragment whose CON bit is set (for
   every kind of task, READ or not, since fix 86bdefd), and none otherwise; before the first step
   none. *)
Theorem confirm_exactly_once : forall cfg evs,
  confirms (nth 0 (run cfg evs) []) = [] /\
  forall k o ev, nth_error (run cfg evs) (S k) = Some o -> nth_error evs k = Some ev ->
    confirms o =
    if accepts cfg (state_at cfg evs k) ev && frag_con ev then
      match ev with
      | ERx _ frag _ _ =>
        match parse_response frag with
        | PResponse h _ => [OTxConfirm (c_addr cfg) (h_unsol h) (c_seq (h_ctrl h))]
        | PError => []
        end
      | _ => []
      end
    else [].
Proof.
  intros cfg evs. split.
  - unfold run, minit. destruct (run_pump cfg _) as [st1 o1] eqn:E1. destruct (advance 2 cfg st1 1) as [st2 o2] eqn:E2.
    cbn [nth]. rewrite confirms_act, act_app, act_emit, act_app. cbn [active app].
    rewrite (act_passive o1), (act_passive o2); [reflexivity| |].
    + eapply advance_passive; eauto.
    + eapply run_pump_passive; eauto.
  - intros k o ev Hn Hev. destruct (run_nth _ _ _ _ Hn) as (ev' & Hev' & ->). rewrite Hev in Hev'. injection Hev' as <-.
    fold (state_at cfg evs k).
    destruct (s_stopped (state_at cfg evs k)) eqn:Hs.
    + rewrite confirms_stopped, accepts_stopped by assumption. reflexivity.
    + apply confirm_exactly_once_local. exact Hs.
Qed.

(* ---------------------------------------------------------------------------------------- *)
(* the record of the last unsolicited fragment changes only when an unsolicited fragment is
   accepted (set) or the session ends (cleared) *)

Lemma nr_error_lu cfg st k e st' o : nr_error cfg st k e = (st', o) -> s_last_unsol st' = s_last_unsol st.
Proof.
  unfold nr_error. destruct k as [tok ph hs|tok|tok fc|tok cold|a]; intros H; try (injection H as <- _; reflexivity).
  destruct (s_assoc st); [|injection H as <- _; reflexivity].
  destruct e; injection H as <- _; unfold auto_failure, auto_response; destruct a; try destruct (iin1_restart _); reflexivity.
Qed.

Lemma rd_error_lu cfg st k e st' o : rd_error cfg st k e = (st', o) -> s_last_unsol st' = s_last_unsol st.
Proof.
  unfold rd_error. destruct k; intros H; [injection H as <- _; reflexivity|].
  destruct (s_assoc st); injection H as <- _; reflexivity.
Qed.

Lemma fail_running_lu cfg st e st' o : fail_running cfg st e = (st', o) -> s_last_unsol st' = s_last_unsol st.
Proof.
  unfold fail_running. destruct (s_run st); intros H.
  - injection H as <- _; reflexivity.
  - destruct (nr_error _ _ _ _) as [st1 o1] eqn:E. injection H as <- _. cbn [s_last_unsol set_run]. eapply nr_error_lu; eauto.
  - destruct (rd_error _ _ _ _) as [st1 o1] eqn:E. injection H as <- _. cbn [s_last_unsol set_run]. eapply rd_error_lu; eauto.
  - injection H as <- _; reflexivity.
Qed.

Lemma send_nonread_lu cfg st k objs sd st' o : send_nonread cfg st k objs sd = (st', o) -> s_last_unsol st' = s_last_unsol st.
Proof.
  unfold send_nonread. destruct (fits cfg objs); intros H; [injection H as <- _; reflexivity|].
  destruct (nr_error _ _ _ _) as [st2 o2] eqn:E. injection H as <- _. cbn [s_last_unsol set_run].
  apply nr_error_lu in E. exact E.
Qed.

Lemma start_nonread_lu cfg st k objs st' o : start_nonread cfg st k objs = (st', o) -> s_last_unsol st' = s_last_unsol st.
Proof.
  unfold start_nonread. destruct (send_nonread _ _ _ _ _) as [st1 o1] eqn:E. intros H. injection H as <- _.
  eapply send_nonread_lu; eauto.
Qed.

Lemma start_read_lu cfg st k objs st' o : start_read cfg st k objs = (st', o) -> s_last_unsol st' = s_last_unsol st.
Proof.
  unfold start_read. destruct (fits cfg objs); intros H; [injection H as <- _; reflexivity|].
  destruct (rd_error _ _ _ _) as [st2 o2] eqn:E. injection H as <- _. cbn [s_last_unsol set_run].
  apply rd_error_lu in E. exact E.
Qed.

Lemma start_user_lu cfg st tok t st' o : start_user cfg st tok t = (st', o) -> s_last_unsol st' = s_last_unsol st.
Proof.
  unfold start_user. destruct t; intros H; try (eapply start_read_lu; eassumption);
    try (eapply start_nonread_lu; eassumption). injection H as <- _; reflexivity.
Qed.

Lemma pump_lu fuel cfg : forall st st' o, pump fuel cfg st = (st', o) -> s_last_unsol st' = s_last_unsol st.
Proof.
  induction fuel as [|f IH]; intros st st' o H; cbn [pump] in H; [injection H as <- _; reflexivity|].
  destruct (negb (s_conn st)); [injection H as <- _; reflexivity|].
  destruct (s_run st); try (injection H as <- _; reflexivity).
  destruct (next_task cfg st) as [|t|tok t|a|]; try (injection H as <- _; reflexivity).
  - destruct (start_user _ _ _ _) as [st1 o1] eqn:E1. destruct (pump f cfg st1) as [st2 o2] eqn:E2.
    injection H as <- _. rewrite (IH _ _ _ E2). apply start_user_lu in E1. exact E1.
  - destruct (start_nonread _ _ _ _) as [st1 o1] eqn:E1. destruct (pump f cfg st1) as [st2 o2] eqn:E2.
    injection H as <- _. rewrite (IH _ _ _ E2). apply start_nonread_lu in E1. exact E1.
  - destruct (start_read _ _ _ _) as [st1 o1] eqn:E1. destruct (pump f cfg st1) as [st2 o2] eqn:E2.
    injection H as <- _. rewrite (IH _ _ _ E2). apply start_read_lu in E1. exact E1.
Qed.

Lemma then_pump_lu cfg st1 o1 st' o : then_pump cfg (st1, o1) = (st', o) -> s_last_unsol st' = s_last_unsol st1.
Proof.
  unfold then_pump, run_pump. destruct (pump _ cfg st1) as [st2 o2] eqn:E. intros H. injection H as <- _.
  eapply pump_lu; eauto.
Qed.

Lemma fire_lu cfg st st' o : fire cfg st = (st', o) -> s_last_unsol st' = s_last_unsol st.
Proof.
  unfold fire. destruct (s_run st); try (apply pump_lu);
    destruct (fail_running cfg st ETimeout) as [st1 o1] eqn:E; intros H; apply then_pump_lu in H; rewrite H;
    eapply fail_running_lu; eauto.
Qed.

Lemma advance_lu fuel cfg : forall st target st' o, advance fuel cfg st target = (st', o) -> s_last_unsol st' = s_last_unsol st.
Proof.
  induction fuel as [|f IH]; intros st target st' o H; cbn [advance] in H; [injection H as <- _; reflexivity|].
  destruct (wake_time cfg st) as [d|]; [|injection H as <- _; reflexivity].
  destruct (d <=? target); [|injection H as <- _; reflexivity].
  destruct (fire _ _) as [st1 o1] eqn:E1. destruct (advance f cfg st1 target) as [st2 o2] eqn:E2.
  injection H as <- _. rewrite (IH _ _ _ _ E2). apply fire_lu in E1. exact E1.
Qed.

Lemma handle_nonread_response_lu cfg st k seq sd h objs v st' o :
  handle_nonread_response cfg st k seq sd h objs v = (st', o) -> s_last_unsol st' = s_last_unsol st.
Proof.
  unfold handle_nonread_response, nr_success, nr_failed. destruct k as [tok ph hs|tok|tok fc|tok cold|a].
  - destruct v; try (intros H; injection H as <- _; reflexivity).
    destruct (compare hs objs); [|intros H; injection H as <- _; reflexivity].
    destruct ph; try (intros H; injection H as <- _; reflexivity). apply send_nonread_lu.
  - destruct objs; intros H; injection H as <- _; reflexivity.
  - destruct objs; intros H; injection H as <- _; reflexivity.
  - destruct v; try (intros H; injection H as <- _; reflexivity).
    destruct (restart_delay objs); intros H; injection H as <- _; reflexivity.
  - intros H; injection H as <- _. unfold auto_response. destruct a; try destruct (iin1_restart _); reflexivity.
Qed.

(* the effect of a receive step on the record *)
Definition unsol_new (cfg : mcfg) (st : mstate) (src : N) (frag : list byte) (v : verdict) : option (list byte * list byte) :=
  if s_conn st then
    match parse_response frag with
    | PResponse h objs => if h_unsol h && unsol_accepts cfg st src h objs v then Some (hdr_bytes h, objs) else None
    | PError => None
    end
  else None.

Lemma handle_unsol_lu cfg st src h objs v items st' o :
  handle_unsol cfg st src h objs v items = (st', o) ->
  s_last_unsol st' = if unsol_accepts cfg st src h objs v then Some (hdr_bytes h, objs) else s_last_unsol st.
Proof.
  unfold handle_unsol, unsol_accepts.
  destruct (_ && s_assoc st); cbn [andb]; [|intros H; injection H as <- _; reflexivity].
  destruct (_ || _); cbn [andb]; [|intros H; injection H as <- _; apply process_iin_last_unsol].
  destruct v; try (intros H; injection H as <- _; apply process_iin_last_unsol).
  destruct (match s_last_unsol _ with Some _ => _ | None => _ end); intros H; injection H as <- _; reflexivity.
Qed.

Lemma on_rx_lu cfg st src frag v items st' o :
  on_rx cfg st src frag v items = (st', o) ->
  s_last_unsol st' = match unsol_new cfg st src frag v with Some x => Some x | None => s_last_unsol st end.
Proof.
  unfold on_rx, unsol_new. destruct (s_conn st); cbn [negb]; [|intros H; injection H as <- _; reflexivity].
  destruct (parse_response frag) as [|h objs].
  - destruct (s_run st); try apply fail_running_lu. intros H; injection H as <- _; reflexivity.
  - destruct (s_run st) as [|k seq d sd|k seq first d sd|tok d] eqn:Hr.
    + destruct (h_unsol h); cbn [andb]; [|intros H; injection H as <- _; reflexivity].
      intros H. rewrite (handle_unsol_lu _ _ _ _ _ _ _ _ _ H). destruct (unsol_accepts _ _ _ _ _ _); reflexivity.
    + unfold on_nonread_rx. destruct (h_unsol h); cbn [andb].
      { intros H. rewrite (handle_unsol_lu _ _ _ _ _ _ _ _ _ H). destruct (unsol_accepts _ _ _ _ _ _); reflexivity. }
      destruct (negb (src =? c_addr cfg)); [intros H; injection H as <- _; reflexivity|].
      destruct (negb (c_seq (h_ctrl h) =? seq)); [intros H; injection H as <- _; reflexivity|].
      destruct (negb (_ && _)); [apply fail_running_lu|].
      destruct (iin2_bad _); [apply fail_running_lu|].
      destruct (s_assoc st).
      * destruct (handle_nonread_response _ _ _ _ _ _ _ _) as [st1 o1] eqn:E. intros H. injection H as <- _.
        rewrite (handle_nonread_response_lu _ _ _ _ _ _ _ _ _ _ E). apply process_iin_last_unsol.
      * destruct (nr_error _ _ _ _) as [st1 o1] eqn:E. intros H. injection H as <- _. cbn [s_last_unsol set_run].
        eapply nr_error_lu; eauto.
    + unfold on_read_rx. destruct (h_unsol h); cbn [andb].
      { intros H. rewrite (handle_unsol_lu _ _ _ _ _ _ _ _ _ H). destruct (unsol_accepts _ _ _ _ _ _); reflexivity. }
      destruct (negb (src =? c_addr cfg)); [intros H; injection H as <- _; reflexivity|].
      destruct (negb (c_seq (h_ctrl h) =? seq)); [intros H; injection H as <- _; reflexivity|].
      destruct (_ && negb first); [apply fail_running_lu|].
      destruct (negb _ && first); [apply fail_running_lu|].
      destruct (negb _ && negb _); [apply fail_running_lu|].
      destruct (iin2_bad _); [apply fail_running_lu|].
      destruct (negb (s_assoc st)); [apply fail_running_lu|].
      destruct v; try (intros H; rewrite (fail_running_lu _ _ _ _ _ H); apply process_iin_last_unsol).
      destruct (c_fin _).
      * destruct k; intros H; injection H as <- _; cbn [s_last_unsol set_run set_integ set_autos]; apply process_iin_last_unsol.
      * intros H; injection H as <- _. cbn [s_last_unsol set_run set_seq]. apply process_iin_last_unsol.
    + destruct (h_unsol h) eqn:Hu; cbn [andb].
      * destruct (handle_unsol _ _ _ _ _ _ _) as [st1 o1] eqn:E. destruct (fail_running cfg st1 EBadHeaders) as [st2 o2] eqn:E2.
        intros H. injection H as <- _. rewrite (fail_running_lu _ _ _ _ _ E2), (handle_unsol_lu _ _ _ _ _ _ _ _ _ E).
        destruct (unsol_accepts _ _ _ _ _ _); reflexivity.
      * destruct (fail_running cfg st EBadHeaders) as [st2 o2] eqn:E2. intros H. injection H as <- _.
        eapply fail_running_lu; eauto.
Qed.

Definition ends_session (st : mstate) (ev : mevent) : bool :=
  s_conn st && match ev with EDisable | EDropIo | EShutdown => true | _ => false end.

Lemma on_event_lu cfg st ev st' o :
  on_event cfg st ev = (st', o) -> ends_session st ev = false ->
  s_last_unsol st' =
  match ev with
  | ERx src frag v _ => match unsol_new cfg st src frag v with Some x => Some x | None => s_last_unsol st end
  | _ => s_last_unsol st
  end.
Proof.
  unfold ends_session. destruct ev as [src frag v items|ms|tok t| | | | | |]; cbn [on_event]; intros H He.
  - destruct (on_rx _ _ _ _ _ _) as [st1 o1] eqn:E. injection H as <- _. eapply on_rx_lu; eauto.
  - injection H as <- _; reflexivity.
  - unfold on_user in H. destruct (negb (s_assoc st)); [injection H as <- _; reflexivity|].
    destruct (negb (s_conn st)); [injection H as <- _; reflexivity|].
    destruct (_ <? _)%nat; injection H as <- _; reflexivity.
  - destruct (s_conn st); [discriminate|]. injection H as <- _; reflexivity.
  - destruct (s_conn st); [injection H as <- _; reflexivity|].
    unfold try_connect in H. destruct (_ && _); injection H as <- _; reflexivity.
  - destruct (s_conn st); [discriminate|]. injection H as <- _; reflexivity.
  - unfold try_connect in H. destruct (_ && _); injection H as <- _; reflexivity.
  - injection H as <- _; reflexivity.
  - destruct (s_conn st); [discriminate|]. injection H as <- _; reflexivity.
Qed.

Lemma mstep_lu cfg st ev :
  ends_session st ev = false ->
  s_last_unsol (fst (mstep cfg st ev)) =
  match ev with
  | ERx src frag v _ =>
    if s_stopped st then s_last_unsol st else
    match unsol_new cfg st src frag v with Some x => Some x | None => s_last_unsol st end
  | _ => s_last_unsol st
  end.
Proof.
  intros He. unfold mstep. destruct (s_stopped st); [destruct ev; reflexivity|].
  destruct (on_event cfg st ev) as [st0 o0] eqn:E0. destruct (then_pump cfg (st0, o0)) as [st1 o1] eqn:E1.
  destruct (advance _ cfg st1 _) as [st2 o2] eqn:E2. cbn [fst].
  rewrite (advance_lu _ _ _ _ _ _ E2), (then_pump_lu _ _ _ _ _ E1). eapply on_event_lu; eauto.
Qed.

Lemma state_at_S cfg evs k ev :
  nth_error evs k = Some ev -> state_at cfg evs (S k) = fst (mstep cfg (state_at cfg evs k) ev).
Proof.
  intros H. unfold state_at, final. rewrite (firstn_S_nth _ _ _ H), final_from_app. reflexivity.
Qed.

(* C15.4 duplicate_unsolicited_confirmed_not_delivered.  If an unsolicited fragment is accepted at
   step j and the very same fragment (header and objects) arrives again at step k, no other
   unsolicited fragment having been accepted and the session not having ended in between, then
   - provided it is still acceptable (source, association, start-up gate) - step k reports it as a
   repeat, confirms it exactly when it asks for confirmation, and does not call the handler. *)
Theorem duplicate_unsolicited_confirmed_not_delivered :
  forall cfg evs j k src frag v items h objs o,
  (j < k)%nat ->
  nth_error evs j = Some (ERx src frag v items) -> nth_error evs k = Some (ERx src frag v items) ->
  parse_response frag = PResponse h objs -> h_unsol h = true ->
  accepts cfg (state_at cfg evs j) (ERx src frag v items) = true ->
  accepts cfg (state_at cfg evs k) (ERx src frag v items) = true ->
  (forall i ev, (j < i < k)%nat -> nth_error evs i = Some ev ->
     ends_session (state_at cfg evs i) ev = false /\
     match ev with ERx s f w _ => unsol_new cfg (state_at cfg evs i) s f w = None | _ => True end) ->
  ends_session (state_at cfg evs j) (ERx src frag v items) = false ->
  nth_error (run cfg evs) (S k) = Some o ->
  act o = OInfoUnsol true (c_seq (h_ctrl h)) ::
          (if c_con (h_ctrl h) then [OTxConfirm (c_addr cfg) true (c_seq (h_ctrl h))] else []).
Proof.
  intros cfg evs j k src frag v items h objs o Hjk Hj Hk Hp Hu Haj Hak Hbetween Hej Hn.
  (* the record after step j, kept until step k *)
  assert (Hrec : forall i, (j < i <= k)%nat -> s_last_unsol (state_at cfg evs i) = Some (hdr_bytes h, objs)).
  { intros i Hi. induction i as [|i IH]; [lia|].
    destruct (Nat.eq_dec i j) as [->|Hne].
    - rewrite (state_at_S _ _ _ _ Hj), mstep_lu by exact Hej.
      unfold accepts in Haj. rewrite Hp, Hu in Haj.
      destruct (s_stopped (state_at cfg evs j)); [discriminate|]. cbn [negb andb] in Haj.
      unfold unsol_new. destruct (s_conn (state_at cfg evs j)); [|discriminate]. cbn [andb] in Haj.
      rewrite Hp, Hu, Haj. reflexivity.
    - assert (Hi' : (j < i <= k)%nat) by lia. specialize (IH Hi').
      destruct (nth_error evs i) as [ev|] eqn:Hev.
      2:{ apply nth_error_None in Hev. apply nth_error_le in Hk. lia. }
      destruct (Hbetween i ev ltac:(lia) Hev) as [He Hnone].
      rewrite (state_at_S _ _ _ _ Hev), mstep_lu by exact He.
      destruct ev; try exact IH. rewrite Hnone. destruct (s_stopped _); exact IH. }
  destruct (run_nth _ _ _ _ Hn) as (ev & Hev & ->). rewrite Hk in Hev. injection Hev as <-.
  fold (state_at cfg evs k).
  unfold accepts in Hak. rewrite Hp, Hu in Hak.
  destruct (s_stopped (state_at cfg evs k)) eqn:Hs; [discriminate|]. cbn [negb andb] in Hak.
  destruct (s_conn (state_at cfg evs k)) eqn:Hc; [|discriminate]. cbn [andb] in Hak.
  eapply duplicate_unsolicited_local; eauto; try (apply Hrec; lia).
Qed.

(* ---------------------------------------------------------------------------------------- *)

Fixpoint steps_from (cfg : mcfg) (st : mstate) (evs : list mevent) : list (mstate * mevent) :=
  match evs with
  | [] => []
  | ev :: r => (st, ev) :: steps_from cfg (fst (mstep cfg st ev)) r
  end.
(* the steps of a run: the state before each stimulus, and the stimulus *)
Definition steps (cfg : mcfg) (evs : list mevent) : list (mstate * mevent) := steps_from cfg (fst (minit cfg)) evs.

Lemma cbs_app a b : cbs (a ++ b) = cbs a ++ cbs b.
Proof. unfold cbs. rewrite map_app, filter_app. reflexivity. Qed.

Lemma delivers_stopped cfg st ev : s_stopped st = true -> delivers cfg st ev = None.
Proof. intros Hs. destruct ev; try reflexivity. unfold delivers. rewrite Hs. reflexivity. Qed.

Lemma delivered_step cfg st ev :
  cbs (snd (mstep cfg st ev)) = match delivers cfg st ev with Some d => bracket d | None => [] end.
Proof.
  destruct (s_stopped st) eqn:Hs.
  - rewrite delivers_stopped, mstep_stopped by assumption. reflexivity.
  - apply delivered_local. exact Hs.
Qed.

(* C15.5 delivered_once_in_order.  Over a whole run the sequence of ReadHandler callbacks is the
   concatenation, in the order of arrival, of one begin / items / end bracket per fragment accepted
   for delivery (an unsolicited fragment that is accepted and not a repeat; a fragment of the
   answer to a READ), each bracket carrying the fragment's header and its items in wire order -
   nothing else, nothing twice, nothing reordered. *)
Theorem delivered_once_in_order : forall cfg evs,
  cbs (concat (run cfg evs)) =
  flat_map (fun p => match delivers cfg (fst p) (snd p) with Some d => bracket d | None => [] end) (steps cfg evs).
Proof.
  intros cfg evs. unfold run, steps. destruct (minit cfg) as [st0 o0] eqn:E0. cbn [fst concat].
  rewrite cbs_app.
  assert (H0 : cbs o0 = []).
  { rewrite cbs_act. unfold minit in E0. destruct (run_pump cfg _) as [st1 o1] eqn:E1.
    destruct (advance 2 cfg st1 1) as [st2 o2] eqn:E2. injection E0 as <- <-.
    rewrite act_app, act_emit, act_app. cbn [active app].
    rewrite (act_passive o1), (act_passive o2); [reflexivity| |].
    - eapply advance_passive; eauto.
    - eapply run_pump_passive; eauto. }
  rewrite H0. cbn [app]. clear E0 H0 o0.
  revert st0. induction evs as [|ev evs IH]; intros st; cbn [run_from steps_from flat_map concat]; [reflexivity|].
  destruct (mstep cfg st ev) as [st1 o1] eqn:E. cbn [concat fst snd]. rewrite cbs_app, IH. f_equal.
  pose proof (delivered_step cfg st ev) as Hd. rewrite E in Hd. exact Hd.
Qed.

(* the rule for every fragment of the answer to a READ that is delivered: from the addressed
   outstation, sequence number = request + fragments delivered before, FIR on the first only, and
   a fragment without FIN requests confirmation *)
Theorem read_fragment_rule : forall cfg evs k o rt hdr,
  nth_error (run cfg evs) (S k) = Some o -> In (OCbBegin rt hdr) (map snd o) -> rt <> RtUnsol ->
  exists src frag v items h objs r,
    nth_error evs k = Some (ERx src frag v items) /\ parse_response frag = PResponse h objs /\
    h_unsol h = false /\ hdr = hdr_bytes h /\ src = c_addr cfg /\ v = VOk /\ iin2_bad (h_iin2 h) = false /\
    last_request (hist cfg evs k) = Some r /\ rq_fc r = 1 /\ answers r h.
Proof.
  intros cfg evs k o rt hdr Hn Hin Hrt.
  destruct (run_nth _ _ _ _ Hn) as (ev & Hev & ->). fold (state_at cfg evs k) in *.
  set (st := state_at cfg evs k) in *.
  destruct (s_stopped st) eqn:Hs.
  { apply stopped_no_obs in Hin; [|exact Hs]. destruct Hin; discriminate. }
  apply in_act in Hin; [|reflexivity]. rewrite act_mstep in Hin by assumption.
  destruct ev as [src frag v items|ms|tok t| | | | | |]; try contradiction.
  unfold rx_act in Hin. destruct (s_conn st); cbn [negb] in Hin; [|contradiction].
  destruct (parse_response frag) as [|h objs] eqn:Hp; [contradiction|].
  destruct (h_unsol h) eqn:Hu.
  { exfalso. unfold unsol_act, unsol_confirm in Hin. brk_in Hin; injection Hin as <- _; apply Hrt; reflexivity. }
  destruct (accepted_answer cfg st src h) eqn:Ha; [|contradiction].
  destruct (accepted_answers cfg evs k src h (nth_error_le _ _ _ Hev) Ha) as (Hsrc & Hi & r & Hl & Hans).
  exists src, frag, v, items, h, objs, r.
  pose proof (run_tracks cfg evs k (nth_error_le _ _ _ Hev)) as Ht. fold (state_at cfg evs k) in Ht. fold st in Ht.
  unfold tracks in Ht.
  destruct (s_run st) as [|kk q d sd|kk q f d sd|tok d] eqn:Hr; try contradiction.
  - exfalso. unfold sol_confirm, nr_act in Hin. brk_in Hin.
  - destruct (s_assoc st && _) eqn:Hv; [|contradiction].
    apply Bool.andb_true_iff in Hv. destruct Hv as [_ Hv]. destruct v; try discriminate.
    destruct Ht as [(r0 & ro & n & Hl' & _) _]. rewrite Hl in Hl'. injection Hl' as ->.
    unfold rd_act, sol_confirm in Hin. brk_in Hin.
    injection Hin as _ <-. split; [exact Hev|]. split; [exact Hp|].
    repeat (split; [reflexivity || assumption|]). exact Hans.
Qed.

(* ---------------------------------------------------------------------------------------- *)
(* C16 *)

(* success of a control operation: the step receives the matching response and the comparison of
   the echo succeeded *)
Theorem command_success_local cfg st ev tok tok' ph hs q d sd :
  s_stopped st = false -> s_run st = RNonRead (NRCommand tok' ph hs) q d sd ->
  In (ORes tok ROk) (map snd (snd (mstep cfg st ev))) ->
  tok = tok' /\ ph <> PhSelect /\
  exists src frag items h objs,
    ev = ERx src frag VOk items /\ parse_response frag = PResponse h objs /\ h_unsol h = false /\
    src = c_addr cfg /\ c_seq (h_ctrl h) = q /\ c_fir (h_ctrl h) = true /\ c_fin (h_ctrl h) = true /\
    iin2_bad (h_iin2 h) = false /\ compare hs objs = COk.
Proof.
  intros Hs Hr Hin. apply in_act in Hin; [|reflexivity]. rewrite act_mstep in Hin by assumption.
  destruct ev as [src frag v items|ms|tk t| | | | | |]; try contradiction.
  unfold rx_act in Hin. destruct (s_conn st); cbn [negb] in Hin; [|contradiction].
  destruct (parse_response frag) as [|h objs] eqn:Hp; [contradiction|].
  destruct (h_unsol h) eqn:Hu.
  { exfalso. unfold unsol_act, unsol_confirm in Hin. brk_in Hin. }
  destruct (accepted_answer cfg st src h) eqn:Ha; [|contradiction].
  destruct (accepted_answer_inv _ _ _ _ Ha) as (Hsrc & Hi & Hcase).
  rewrite Hr in Hin.
  destruct Hcase as [(kk & q0 & d0 & sd0 & Hr' & Hq & Hfir & Hfin)|(kk & q0 & f & d0 & sd0 & Hr' & _)];
    rewrite Hr in Hr'; [|discriminate]. injection Hr' as <- <- <- <-.
  unfold sol_confirm, nr_act in Hin.
  apply in_app_or in Hin. destruct Hin as [Hin|Hin]; [brk_in Hin|].
  destruct (s_assoc st); [|contradiction].
  destruct v; try contradiction. destruct (compare hs objs) eqn:Hcmp; try contradiction.
  destruct ph; try contradiction; cbn [In] in Hin; destruct Hin as [Hin|[Hin|[]]]; try discriminate;
    injection Hin as <-; (split; [reflexivity|]); (split; [discriminate|]);
    exists src, frag, items, h, objs; repeat split; assumption.
Qed.

(* C16.1 success_implies_faithful_echo.  When a control operation reports success, the step
   received, from the addressed outstation and with the sequence number of the request on the
   wire, a response whose object section splits into exactly the requested headers, every object
   with the requested index, status SUCCESS and an equal value ([faithful_echo]); the request on
   the wire is the OPERATE or DIRECT_OPERATE carrying the operation's objects - for
   select-before-operate the OPERATE, which by [operate_only_after_faithful_select] exists only
   after a faithful echo of the SELECT. *)
Theorem success_implies_faithful_echo : forall cfg evs k o tok tok' ph hs q d sd,
  nth_error (run cfg evs) (S k) = Some o -> In (ORes tok ROk) (map snd o) ->
  s_run (state_at cfg evs k) = RNonRead (NRCommand tok' ph hs) q d sd ->
  tok = tok' /\ ph <> PhSelect /\
  exists src frag items h objs,
    nth_error evs k = Some (ERx src frag VOk items) /\ parse_response frag = PResponse h objs /\
    h_unsol h = false /\ src = c_addr cfg /\ c_seq (h_ctrl h) = q /\
    faithful_echo hs objs /\
    last_request (hist cfg evs k) = Some (mk_req q (cphase_fc ph) (encode_phs hs) 0).
Proof.
  intros cfg evs k o tok tok' ph hs q d sd Hn Hin Hr.
  destruct (run_nth _ _ _ _ Hn) as (ev & Hev & ->). fold (state_at cfg evs k) in *.
  destruct (s_stopped (state_at cfg evs k)) eqn:Hs.
  { apply stopped_no_obs in Hin; [|exact Hs]. destruct Hin; discriminate. }
  destruct (command_success_local _ _ _ _ _ _ _ _ _ _ Hs Hr Hin)
    as (-> & Hph & src & frag & items & h & objs & -> & Hp & Hu & Hsrc & Hq & _ & _ & _ & Hcmp).
  split; [reflexivity|]. split; [exact Hph|].
  exists src, frag, items, h, objs. repeat split; try assumption.
  - apply compare_ok_faithful. exact Hcmp.
  - pose proof (run_tracks cfg evs k (nth_error_le _ _ _ Hev)) as Ht. fold (state_at cfg evs k) in Ht.
    unfold tracks in Ht. rewrite Hr in Ht. destruct Ht as [(ro & Hl & Hok) _]. cbn [nr_objs_ok] in Hok. subst ro.
    exact Hl.
Qed.

(* requests written in a step *)
Definition is_req (o : mobs) : bool := match o with OTxReq _ _ _ _ => true | _ => false end.
Definition req_free (l : list tobs) : Prop := Forall (fun p => is_req (snd p) = false) l.

Lemma req_free_nil : req_free []. Proof. constructor. Qed.
Lemma req_free_app a b : req_free a -> req_free b -> req_free (a ++ b).
Proof. unfold req_free. intros. apply Forall_app. auto. Qed.
Lemma req_free_emit st o : is_req o = false -> req_free (emit st o).
Proof. Transparent emit. intros H. constructor; [exact H|constructor]. Qed.
#[local] Opaque emit.
Lemma req_free_flat_map {A} (f : A -> list tobs) l : (forall x, req_free (f x)) -> req_free (flat_map f l).
Proof. intros H. induction l; cbn [flat_map]; [constructor|apply req_free_app; auto]. Qed.
Lemma req_free_not_in l t d q fc objs : req_free l -> ~ In (t, OTxReq d q fc objs) l.
Proof. unfold req_free. rewrite Forall_forall. intros H Hin. specialize (H _ Hin). discriminate. Qed.
Ltac rf := repeat first [apply req_free_nil | apply req_free_app | apply req_free_emit; reflexivity].

Lemma nr_error_rf cfg st k e st' o : nr_error cfg st k e = (st', o) -> req_free o.
Proof.
  unfold nr_error. destruct k as [tok ph hs|tok|tok fc|tok cold|a]; intros H; try (injection H as <- <-; rf).
  destruct (s_assoc st); [destruct e|]; injection H as <- <-; rf.
Qed.
Lemma rd_error_rf cfg st k e st' o : rd_error cfg st k e = (st', o) -> req_free o.
Proof.
  unfold rd_error. destruct k; intros H; [injection H as <- <-; rf|]. destruct (s_assoc st); injection H as <- <-; rf.
Qed.
Lemma notify_fail_rf st ty e : req_free (notify_fail st ty e).
Proof. unfold notify_fail. destruct (s_assoc st); rf. Qed.
Lemma fail_running_rf cfg st e st' o : fail_running cfg st e = (st', o) -> req_free o.
Proof.
  unfold fail_running. destruct (s_run st); intros H.
  - injection H as <- <-; rf.
  - destruct (nr_error _ _ _ _) as [st1 o1] eqn:E. injection H as <- <-.
    apply req_free_app; [eapply nr_error_rf; eauto|apply notify_fail_rf].
  - destruct (rd_error _ _ _ _) as [st1 o1] eqn:E. injection H as <- <-.
    apply req_free_app; [eapply rd_error_rf; eauto|apply notify_fail_rf].
  - injection H as <- <-; rf.
Qed.
Lemma deliver_rf st rt h items : req_free (deliver st rt h items).
Proof. unfold deliver. apply req_free_app; [rf|]. apply req_free_app; [|rf]. apply req_free_flat_map. intros; rf. Qed.
Lemma handle_unsol_rf cfg st src h objs v items st' o : handle_unsol cfg st src h objs v items = (st', o) -> req_free o.
Proof.
  unfold handle_unsol. destruct (_ && s_assoc st); [|intros H; injection H as <- <-; rf].
  destruct (_ || _); [|intros H; injection H as <- <-; rf].
  destruct v; try (intros H; injection H as <- <-; rf).
  destruct (match s_last_unsol _ with Some _ => _ | None => _ end); intros H; injection H as <- <-.
  - apply req_free_app; [rf|]. destruct (c_con _); rf.
  - apply req_free_app; [apply deliver_rf|]. apply req_free_app; [rf|]. destruct (c_con _); rf.
Qed.

(* an OPERATE on the wire is explained either by a generic request the user made with that
   function code (announced by its task_start in the same step) or - see below - by a SELECT *)
Definition explained (l : list tobs) : Prop :=
  forall t d q objs, In (t, OTxReq d q 4 objs) l -> In (t, OInfoStart (TEmpty 4) 4 q) l.

Lemma explained_rf l : req_free l -> explained l.
Proof. intros H t d q objs Hin. exfalso. eapply req_free_not_in; eauto. Qed.
Lemma explained_app a b : explained a -> explained b -> explained (a ++ b).
Proof.
  intros Ha Hb t d q objs Hin. apply in_app_or in Hin. apply in_or_app.
  destruct Hin as [Hin|Hin]; [left; eapply Ha; eauto|right; eapply Hb; eauto].
Qed.

Lemma in_emit st o x : In x (emit st o) <-> x = (s_now st, o).
Proof. Transparent emit. cbn. intuition congruence. Qed.
#[local] Opaque emit.

Lemma send_nonread_explained_start cfg st k objs sd st' o :
  send_nonread cfg st k objs sd = (st', o) ->
  (forall tok ph hs, k <> NRCommand tok ph hs \/ ph <> PhOperate) ->
  explained (emit st (OInfoStart (nr_type k) (nr_fc0 k) (s_seq st)) ++ o).
Proof.
  unfold send_nonread. intros H Hk. destruct (fits cfg objs).
  - injection H as <- <-. intros t d q ob Hin. apply in_app_or in Hin. destruct Hin as [Hin|Hin];
      apply in_emit in Hin; [discriminate|]. injection Hin as Ht Hd Hq Hfc Hob. subst t d q ob.
    apply in_or_app. left. apply in_emit.
    destruct k as [tok ph hs|tok|tok fc|tok cold|a]; cbn [nr_fc nr_type nr_fc0 cphase_fc] in *.
    + destruct ph; try discriminate. exfalso. destruct (Hk tok PhOperate hs) as [Hn|Hn]; apply Hn; reflexivity.
    + discriminate.
    + subst fc. reflexivity.
    + destruct cold; discriminate.
    + destruct a; discriminate.
  - destruct (nr_error _ _ _ _) as [st2 o2] eqn:E. injection H as <- <-. apply explained_rf.
    apply req_free_app; [rf|]. apply req_free_app; [eapply nr_error_rf; eauto|apply notify_fail_rf].
Qed.

Lemma start_nonread_explained cfg st k objs st' o :
  start_nonread cfg st k objs = (st', o) -> (forall tok ph hs, k <> NRCommand tok ph hs \/ ph <> PhOperate) -> explained o.
Proof.
  unfold start_nonread. destruct (send_nonread _ _ _ _ _) as [st1 o1] eqn:E. intros H Hk. injection H as <- <-.
  eapply send_nonread_explained_start; eauto.
Qed.

Lemma start_read_explained cfg st k objs st' o : start_read cfg st k objs = (st', o) -> explained o.
Proof.
  unfold start_read. destruct (fits cfg objs); intros H.
  - injection H as <- <-. intros t d q ob Hin. apply in_app_or in Hin. destruct Hin as [Hin|Hin]; apply in_emit in Hin; discriminate.
  - destruct (rd_error _ _ _ _) as [st2 o2] eqn:E. injection H as <- <-. apply explained_rf.
    apply req_free_app; [rf|]. apply req_free_app; [eapply rd_error_rf; eauto|apply notify_fail_rf].
Qed.

Lemma start_user_explained cfg st tok t st' o : start_user cfg st tok t = (st', o) -> explained o.
Proof.
  unfold start_user. destruct t as [objs|sbo hs|hs|fc objs|cold|]; intros H.
  - eapply start_read_explained; eauto.
  - eapply start_nonread_explained; [eauto|]. intros tk ph hs'.
    destruct ph; [right; discriminate| |right; discriminate].
    left. destruct sbo; intros Heq; injection Heq as _ Heq _; discriminate.
  - eapply start_nonread_explained; [eauto|]. intros; left; discriminate.
  - eapply start_nonread_explained; [eauto|]. intros; left; discriminate.
  - eapply start_nonread_explained; [eauto|]. intros; left; discriminate.
  - injection H as <- <-. apply explained_rf. rf.
Qed.

Lemma pump_explained fuel cfg : forall st st' o, pump fuel cfg st = (st', o) -> explained o.
Proof.
  induction fuel as [|f IH]; intros st st' o H; cbn [pump] in H; [injection H as <- <-; apply explained_rf; rf|].
  destruct (negb (s_conn st)); [injection H as <- <-; apply explained_rf; rf|].
  destruct (s_run st); try (injection H as <- <-; apply explained_rf; rf).
  destruct (next_task cfg st) as [|t|tok t|a|]; try (injection H as <- <-; apply explained_rf; rf).
  - destruct (start_user _ _ _ _) as [st1 o1] eqn:E1. destruct (pump f cfg st1) as [st2 o2] eqn:E2.
    injection H as <- <-. apply explained_app; [eapply start_user_explained; eauto|eapply IH; eauto].
  - destruct (start_nonread _ _ _ _) as [st1 o1] eqn:E1. destruct (pump f cfg st1) as [st2 o2] eqn:E2.
    injection H as <- <-. apply explained_app; [|eapply IH; eauto].
    eapply start_nonread_explained; [eauto|]. intros; left; discriminate.
  - destruct (start_read _ _ _ _) as [st1 o1] eqn:E1. destruct (pump f cfg st1) as [st2 o2] eqn:E2.
    injection H as <- <-. apply explained_app; [eapply start_read_explained; eauto|eapply IH; eauto].
Qed.

Lemma fire_explained cfg st st' o : fire cfg st = (st', o) -> explained o.
Proof.
  unfold fire, then_pump, run_pump. destruct (s_run st); intros H; try (eapply pump_explained; eassumption);
    destruct (fail_running _ _ _) as [st1 o1] eqn:E1; destruct (pump _ cfg st1) as [st2 o2] eqn:E2;
    injection H as <- <-; (apply explained_app; [apply explained_rf; eapply fail_running_rf; eauto|eapply pump_explained; eauto]).
Qed.

Lemma advance_explained fuel cfg : forall st target st' o, advance fuel cfg st target = (st', o) -> explained o.
Proof.
  induction fuel as [|f IH]; intros st target st' o H; cbn [advance] in H; [injection H as <- <-; apply explained_rf; rf|].
  destruct (wake_time cfg st) as [d|]; [|injection H as <- <-; apply explained_rf; rf].
  destruct (d <=? target); [|injection H as <- <-; apply explained_rf; rf].
  destruct (fire _ _) as [st1 o1] eqn:E1. destruct (advance f cfg st1 target) as [st2 o2] eqn:E2.
  injection H as <- <-. apply explained_app; [eapply fire_explained; eauto|eapply IH; eauto].
Qed.

(* the requests a receive step writes by itself: only the OPERATE that follows a SELECT whose
   echo passed the comparison *)
Lemma on_rx_requests cfg st src frag v items st' o t d q' fc objs' :
  on_rx cfg st src frag v items = (st', o) -> In (t, OTxReq d q' fc objs') o ->
  exists tok hs q dd sd h objs,
    s_run st = RNonRead (NRCommand tok PhSelect hs) q dd sd /\ s_conn st = true /\
    parse_response frag = PResponse h objs /\ h_unsol h = false /\ accepted_answer cfg st src h = true /\
    v = VOk /\ compare hs objs = COk /\
    fc = 4 /\ objs' = encode_phs hs /\ q' = s_seq st /\ d = c_addr cfg.
Proof.
  unfold on_rx. destruct (s_conn st) eqn:Hc; cbn [negb].
  2:{ intros H Hin. injection H as <- <-. apply in_emit in Hin. discriminate. }
  destruct (parse_response frag) as [|h objs] eqn:Hp.
  { intros H Hin. exfalso. destruct (s_run st); [injection H as <- <-; destruct Hin| | |];
      (eapply req_free_not_in; [eapply fail_running_rf; exact H|exact Hin]). }
  destruct (s_run st) as [|k seq dd sd|k seq first dd sd|tok dd] eqn:Hr.
  - intros H Hin. exfalso. destruct (h_unsol h); [eapply req_free_not_in; [eapply handle_unsol_rf; eauto|eauto]|].
    injection H as <- <-. destruct Hin.
  - unfold on_nonread_rx. destruct (h_unsol h) eqn:Hu.
    { intros H Hin. exfalso. eapply req_free_not_in; [eapply handle_unsol_rf; eauto|eauto]. }
    destruct (src =? c_addr cfg) eqn:Hsrc; cbn [negb]; [|intros H Hin; injection H as <- <-; destruct Hin].
    destruct (c_seq (h_ctrl h) =? seq) eqn:Hq; cbn [negb]; [|intros H Hin; injection H as <- <-; destruct Hin].
    destruct (c_fir (h_ctrl h) && c_fin (h_ctrl h)) eqn:Hf; cbn [negb];
      [|intros H Hin; exfalso; eapply req_free_not_in; [eapply fail_running_rf; eauto|eauto]].
    destruct (iin2_bad (h_iin2 h)) eqn:Hi;
      [intros H Hin; exfalso; eapply req_free_not_in; [eapply fail_running_rf; eauto|eauto]|].
    assert (Ha : accepted_answer cfg st src h = true).
    { unfold accepted_answer, is_answer, flags_ok. rewrite Hr, Hsrc, Hq, Hf, Hi. reflexivity. }
    destruct (s_assoc st).
    + destruct (handle_nonread_response _ _ _ _ _ _ _ _) as [st1 o1] eqn:E. intros H Hin. injection H as <- <-.
      apply in_app_or in Hin. destruct Hin as [Hin|Hin].
      { exfalso. destruct (c_con (h_ctrl h)); [apply in_emit in Hin; discriminate|destruct Hin]. }
      unfold handle_nonread_response, nr_success, nr_failed in E.
      destruct k as [tok ph hs|tok|tok fc0|tok cold|a].
      * destruct v; try (injection E as <- <-; apply in_app_or in Hin; destruct Hin as [Hin|Hin]; apply in_emit in Hin; discriminate).
        destruct (compare hs objs) eqn:Hcmp;
          [|injection E as <- <-; apply in_app_or in Hin; destruct Hin as [Hin|Hin]; apply in_emit in Hin; discriminate].
        destruct ph; try (injection E as <- <-; apply in_app_or in Hin; destruct Hin as [Hin|Hin]; apply in_emit in Hin; discriminate).
        unfold send_nonread in E. destruct (fits cfg (encode_phs hs)).
        -- injection E as <- <-. apply in_emit in Hin. injection Hin as Ht Hd Hq' Hfc Hob.
           exists tok, hs, seq, dd, sd, h, objs. destruct (process_iin_keeps st (h_iin1 h)) as [_ Hks].
           rewrite Hks in Hq'. cbn [nr_fc cphase_fc] in Hfc. repeat split; auto.
        -- destruct (nr_error _ _ _ _) as [st2 o2] eqn:E2. injection E as <- <-. exfalso.
           eapply req_free_not_in; [|exact Hin]. apply req_free_app; [eapply nr_error_rf; eauto|apply notify_fail_rf].
      * exfalso. destruct objs; injection E as <- <-; apply in_app_or in Hin; destruct Hin as [Hin|Hin]; apply in_emit in Hin; discriminate.
      * exfalso. destruct objs; injection E as <- <-; apply in_app_or in Hin; destruct Hin as [Hin|Hin]; apply in_emit in Hin; discriminate.
      * exfalso. destruct v; try (injection E as <- <-; apply in_app_or in Hin; destruct Hin as [Hin|Hin]; apply in_emit in Hin; discriminate).
        destruct (restart_delay objs); injection E as <- <-; apply in_app_or in Hin; destruct Hin as [Hin|Hin]; apply in_emit in Hin; discriminate.
      * exfalso. injection E as <- <-. cbn [app] in Hin. apply in_emit in Hin. discriminate.
    + destruct (nr_error _ _ _ _) as [st1 o1] eqn:E. intros H Hin. injection H as <- <-. exfalso.
      apply in_app_or in Hin. destruct Hin as [Hin|Hin].
      * destruct (c_con (h_ctrl h)); [apply in_emit in Hin; discriminate|destruct Hin].
      * eapply req_free_not_in; [eapply nr_error_rf; eauto|eauto].
  - intros H Hin. exfalso. unfold on_read_rx in H.
    destruct (h_unsol h); [eapply req_free_not_in; [eapply handle_unsol_rf; eauto|eauto]|].
    destruct (negb (src =? c_addr cfg)); [injection H as <- <-; destruct Hin|].
    destruct (negb (c_seq (h_ctrl h) =? seq)); [injection H as <- <-; destruct Hin|].
    destruct (_ && negb first); [eapply req_free_not_in; [eapply fail_running_rf; eauto|eauto]|].
    destruct (negb _ && first); [eapply req_free_not_in; [eapply fail_running_rf; eauto|eauto]|].
    destruct (negb _ && negb _); [eapply req_free_not_in; [eapply fail_running_rf; eauto|eauto]|].
    destruct (iin2_bad _); [eapply req_free_not_in; [eapply fail_running_rf; eauto|eauto]|].
    destruct (negb (s_assoc st)); [eapply req_free_not_in; [eapply fail_running_rf; eauto|eauto]|].
    destruct v; [|eapply req_free_not_in; [eapply fail_running_rf; eauto|eauto]
                 |eapply req_free_not_in; [eapply fail_running_rf; eauto|eauto]].
    assert (Hrf : req_free (deliver st (rd_read_type k) h items ++
                            (if c_con (h_ctrl h) then emit st (OTxConfirm (c_addr cfg) false seq) else []))).
    { apply req_free_app; [apply deliver_rf|]. destruct (c_con _); rf. }
    destruct (c_fin _).
    + destruct k as [tok|]; injection H as <- <-; (eapply req_free_not_in; [|exact Hin]);
        (apply req_free_app; [exact Hrf|]); rf.
    + injection H as <- <-. eapply req_free_not_in; [exact Hrf|exact Hin].
  - intros H Hin. exfalso.
    destruct (if h_unsol h then _ else _) as [st1 o1] eqn:E1. destruct (fail_running cfg st1 EBadHeaders) as [st2 o2] eqn:E2.
    injection H as <- <-. eapply req_free_not_in; [|exact Hin]. apply req_free_app; [|eapply fail_running_rf; exact E2].
    destruct (h_unsol h); [eapply handle_unsol_rf; exact E1|injection E1 as <- <-; rf].
Qed.

Lemma on_event_requests cfg st ev st' o t d q fc objs :
  on_event cfg st ev = (st', o) -> In (t, OTxReq d q fc objs) o ->
  exists src frag v items, ev = ERx src frag v items /\
    exists st1 o1, on_rx cfg st src frag v items = (st1, o1) /\ In (t, OTxReq d q fc objs) o1.
Proof.
  destruct ev as [src frag v items|ms|tok tk| | | | | |]; cbn [on_event]; intros H Hin.
  - destruct (on_rx _ _ _ _ _ _) as [st1 o1] eqn:E. injection H as <- <-. apply in_app_or in Hin.
    destruct Hin as [Hin|Hin]; [apply in_emit in Hin; discriminate|]. exists src, frag, v, items. split; [reflexivity|]. eauto.
  - injection H as <- <-. destruct Hin.
  - exfalso. unfold on_user in H. destruct (negb (s_assoc st)); [injection H as <- <-; apply in_emit in Hin; discriminate|].
    destruct (negb (s_conn st)); [injection H as <- <-; apply in_emit in Hin; discriminate|].
    destruct (_ <? _)%nat; injection H as <- <-; [destruct Hin|apply in_emit in Hin; discriminate].
  - exfalso. destruct (s_conn st); [|injection H as <- <-; destruct Hin].
    unfold stop_run in H. destruct (fail_running _ _ _) as [st1 o1] eqn:E1.
    destruct (if s_assoc st1 then _ else _) as [st2 o2] eqn:E2. injection H as <- <-.
    eapply req_free_not_in; [|exact Hin]. apply req_free_app; [eapply fail_running_rf; exact E1|].
    apply req_free_app; [|rf]. destruct (s_assoc st1); [|injection E2 as <- <-; rf].
    unfold reset_assoc in E2. injection E2 as <- <-. apply req_free_flat_map. intros; rf.
  - exfalso. destruct (s_conn st); [injection H as <- <-; destruct Hin|].
    unfold try_connect in H. destruct (_ && _); injection H as <- <-; [apply in_emit in Hin; discriminate|destruct Hin].
  - exfalso. destruct (s_conn st); [|injection H as <- <-; destruct Hin].
    unfold stop_run in H. destruct (fail_running _ _ _) as [st1 o1] eqn:E1.
    destruct (if s_assoc st1 then _ else _) as [st2 o2] eqn:E2. injection H as <- <-.
    eapply req_free_not_in; [|exact Hin]. apply req_free_app; [eapply fail_running_rf; exact E1|].
    apply req_free_app; [|rf]. destruct (s_assoc st1); [|injection E2 as <- <-; rf].
    unfold reset_assoc in E2. injection E2 as <- <-. apply req_free_flat_map. intros; rf.
  - exfalso. unfold try_connect in H. destruct (_ && _); injection H as <- <-; [apply in_emit in Hin; discriminate|destruct Hin].
  - exfalso. injection H as <- <-. eapply req_free_not_in; [|exact Hin]. apply req_free_flat_map. intros; rf.
  - exfalso. destruct (if s_conn st then _ else _) as [st1 o1] eqn:E. injection H as <- <-.
    eapply req_free_not_in; [|exact Hin]. apply req_free_app; [|rf].
    destruct (s_conn st); [|injection E as <- <-; rf].
    unfold stop_run in E. destruct (fail_running _ _ _) as [st2 o2] eqn:E1.
    destruct (if s_assoc st2 then _ else _) as [st3 o3] eqn:E2. injection E as <- <-.
    apply req_free_app; [eapply fail_running_rf; exact E1|].
    apply req_free_app; [|rf]. destruct (s_assoc st2); [|injection E2 as <- <-; rf].
    unfold reset_assoc in E2. injection E2 as <- <-. apply req_free_flat_map. intros; rf.
Qed.

(* C16.2 operate_only_after_faithful_select.  Whenever an OPERATE request (function code 4) is
   written, either it is the first request of a generic empty-response task the user submitted with
   that function code (announced by its task_start in the same step), or the step received - from
   the addressed outstation, with the SELECT's sequence number, FIR and FIN, no IIN2 rejection - a
   response whose objects are a faithful echo of the SELECT's objects; the OPERATE carries the
   same object octets as the SELECT on the wire and the next sequence number. *)
Theorem operate_only_after_faithful_select : forall cfg evs k o t d q' objs',
  nth_error (run cfg evs) (S k) = Some o -> In (t, OTxReq d q' 4 objs') o ->
  In (t, OInfoStart (TEmpty 4) 4 q') o \/
  exists src frag items h objs hs q,
    nth_error evs k = Some (ERx src frag VOk items) /\ parse_response frag = PResponse h objs /\
    h_unsol h = false /\ src = c_addr cfg /\ c_seq (h_ctrl h) = q /\
    c_fir (h_ctrl h) = true /\ c_fin (h_ctrl h) = true /\ iin2_bad (h_iin2 h) = false /\
    faithful_echo hs objs /\
    last_request (hist cfg evs k) = Some (mk_req q 3 (encode_phs hs) 0) /\
    objs' = encode_phs hs /\ q' = seq_next q /\ d = c_addr cfg.
Proof.
  intros cfg evs k o t d q' objs' Hn Hin.
  destruct (run_nth _ _ _ _ Hn) as (ev & Hev & ->). fold (state_at cfg evs k) in *.
  set (st := state_at cfg evs k) in *.
  unfold mstep in Hin |- *. destruct (s_stopped st) eqn:Hs.
  { cbn [snd] in Hin. apply in_app_or in Hin. destruct Hin as [Hin|Hin]; apply in_emit in Hin; discriminate. }
  destruct (on_event cfg st ev) as [st0 o0] eqn:E0. unfold then_pump, run_pump in Hin |- *.
  destruct (pump _ cfg st0) as [st1 o1] eqn:E1. destruct (advance _ cfg st1 _) as [st2 o2] eqn:E2.
  cbn [snd] in Hin |- *.
  apply in_app_or in Hin. destruct Hin as [Hin|Hin]; [apply in_emit in Hin; discriminate|].
  rewrite <- app_assoc in Hin. apply in_app_or in Hin. destruct Hin as [Hin|Hin].
  - (* written by the handler of the event itself *)
    right. destruct (on_event_requests _ _ _ _ _ _ _ _ _ _ E0 Hin) as (src & frag & v & items & -> & st3 & o3 & E3 & Hin3).
    destruct (on_rx_requests _ _ _ _ _ _ _ _ _ _ _ _ _ E3 Hin3)
      as (tok & hs & q & dd & sd & h & objs & Hr & Hc & Hp & Hu & Ha & -> & Hcmp & _ & -> & -> & ->).
    destruct (accepted_answer_inv _ _ _ _ Ha) as (Hsrc & Hi & Hcase).
    destruct Hcase as [(kk & q0 & d0 & sd0 & Hr' & Hq & Hfir & Hfin)|(kk & q0 & f & d0 & sd0 & Hr' & _)];
      rewrite Hr in Hr'; [|discriminate]. injection Hr' as <- <- <- <-.
    pose proof (run_tracks cfg evs k (nth_error_le _ _ _ Hev)) as Ht. fold (state_at cfg evs k) in Ht. fold st in Ht.
    unfold tracks in Ht. rewrite Hr in Ht. destruct Ht as [(ro & Hl & Hok) Hseq]. cbn [nr_objs_ok] in Hok. subst ro.
    exists src, frag, items, h, objs, hs, q. repeat split; try assumption.
    apply compare_ok_faithful. exact Hcmp.
  - (* written by a task that was started afterwards *)
    left. assert (Hex : explained (o1 ++ o2)).
    { apply explained_app; [eapply pump_explained; eauto|eapply advance_explained; eauto]. }
    specialize (Hex _ _ _ _ Hin). apply in_or_app. right. rewrite <- app_assoc. apply in_or_app. right. exact Hex.
Qed.

(* what the failure of a task leaves alone *)
Definition frame (st st' : mstate) : Prop :=
  s_now st' = s_now st /\ s_conn st' = s_conn st /\ s_enabled st' = s_enabled st /\ s_linkup st' = s_linkup st /\
  s_stopped st' = s_stopped st /\ s_assoc st' = s_assoc st /\ s_queue st' = s_queue st /\ s_seq st' = s_seq st.

Lemma frame_refl st : frame st st. Proof. repeat split. Qed.
Lemma frame_trans a b c : frame a b -> frame b c -> frame a c.
Proof. unfold frame. intuition congruence. Qed.

Lemma auto_failure_frame cfg st a : frame st (auto_failure cfg st a).
Proof. destruct a; repeat split. Qed.
Lemma auto_response_frame cfg st a i : frame st (auto_response cfg st a i).
Proof. unfold auto_response. destruct a; try destruct (iin1_restart i); repeat split. Qed.

Lemma nr_error_frame cfg st k e st' o : nr_error cfg st k e = (st', o) -> frame st st'.
Proof.
  unfold nr_error. destruct k as [t ph hs|t|t fc|t cold|a]; intros H; try (injection H as <- _; apply frame_refl).
  destruct (s_assoc st); [|injection H as <- _; apply frame_refl].
  destruct e; injection H as <- _; try apply auto_failure_frame. apply auto_response_frame.
Qed.
Lemma rd_error_frame cfg st k e st' o : rd_error cfg st k e = (st', o) -> frame st st'.
Proof.
  unfold rd_error. destruct k; intros H; [injection H as <- _; apply frame_refl|].
  destruct (s_assoc st); injection H as <- _; repeat split.
Qed.
Lemma fail_running_frame cfg st e st' o : fail_running cfg st e = (st', o) -> frame st st'.
Proof.
  unfold fail_running. destruct (s_run st); intros H.
  - injection H as <- _; apply frame_refl.
  - destruct (nr_error _ _ _ _) as [st1 o1] eqn:E. injection H as <- _. apply nr_error_frame in E.
    eapply frame_trans; [exact E|repeat split].
  - destruct (rd_error _ _ _ _) as [st1 o1] eqn:E. injection H as <- _. apply rd_error_frame in E.
    eapply frame_trans; [exact E|repeat split].
  - injection H as <- _; repeat split.
Qed.

(* ---------------------------------------------------------------------------------------- *)
(* C16.3 mismatch_is_error: every way a request can fail yields the corresponding error *)

Definition nr_tok (k : nr_kind) : option N :=
  match k with
  | NRCommand t _ _ | NRDeadBand t | NREmpty t _ | NRRestart t _ => Some t
  | NRAuto _ => None
  end.
(* the user's token of the outstanding task *)
Definition run_tok (r : running) : option N :=
  match r with
  | RNonRead k _ _ _ => nr_tok k
  | RRead (RDUser t) _ _ _ _ => Some t
  | RLink t _ => Some t
  | _ => None
  end.

Lemma fail_running_res cfg st e st' o tok :
  run_tok (s_run st) = Some tok -> fail_running cfg st e = (st', o) ->
  In (s_now st, ORes tok (RErr e)) o /\ s_run st' = RNone.
Proof.
  unfold fail_running, run_tok. destruct (s_run st) as [|k seq d sd|k seq f d sd|tk d]; intros Ht H; try discriminate.
  - destruct (nr_error cfg st k e) as [st1 o1] eqn:E. injection H as <- <-. split; [|reflexivity].
    apply in_or_app. left. unfold nr_error in E.
    destruct k as [t ph hs|t|t fc|t cold|a]; cbn [nr_tok] in Ht; try discriminate; injection Ht as ->;
      injection E as <- <-; apply in_emit; reflexivity.
  - destruct k as [t|]; [|discriminate]. injection Ht as ->. cbn [rd_error] in H. injection H as <- <-.
    split; [|reflexivity]. apply in_or_app. left. apply in_emit. reflexivity.
  - injection Ht as ->. injection H as <- <-. split; [apply in_emit; reflexivity|reflexivity].
Qed.

Lemma mstep_obs_event cfg st ev st0 o0 x :
  s_stopped st = false -> on_event cfg st ev = (st0, o0) -> In x o0 -> In x (snd (mstep cfg st ev)).
Proof.
  intros Hs E Hin. unfold mstep, then_pump. rewrite Hs, E. destruct (run_pump cfg st0) as [st1 o1].
  destruct (advance _ cfg st1 _) as [st2 o2]. cbn [snd]. apply in_or_app. right. apply in_or_app. left.
  apply in_or_app. left. exact Hin.
Qed.

(* (a) the echo differs from the request: the operation fails with the comparison's verdict, it
   does not succeed, and the reply was indeed not a faithful echo *)
Theorem mismatch_is_error cfg st src frag items h objs tok ph hs q d sd e :
  s_stopped st = false -> s_conn st = true -> s_assoc st = true ->
  s_run st = RNonRead (NRCommand tok ph hs) q d sd ->
  parse_response frag = PResponse h objs -> h_unsol h = false -> accepted_answer cfg st src h = true ->
  compare hs objs = CErr e ->
  In (s_now st, ORes tok (RCmdErr e)) (snd (mstep cfg st (ERx src frag VOk items))) /\
  In (s_now st, OInfoFail TCommand EBadHeaders) (snd (mstep cfg st (ERx src frag VOk items))) /\
  ~ In (ORes tok ROk) (map snd (snd (mstep cfg st (ERx src frag VOk items)))) /\
  ~ faithful_echo hs objs.
Proof.
  intros Hs Hc Hassoc Hr Hp Hu Ha Hcmp.
  destruct (accepted_answer_inv _ _ _ _ Ha) as (Hsrc & Hi & Hcase).
  destruct Hcase as [(kk & q0 & d0 & sd0 & Hr' & Hq & Hfir & Hfin)|(kk & q0 & f & d0 & sd0 & Hr' & _)];
    rewrite Hr in Hr'; [|discriminate]. injection Hr' as <- <- <- <-.
  assert (E : exists st0 o0, on_event cfg st (ERx src frag VOk items) = (st0, o0) /\
            In (s_now st, ORes tok (RCmdErr e)) o0 /\ In (s_now st, OInfoFail TCommand EBadHeaders) o0).
  { cbn [on_event]. unfold on_rx. rewrite Hc, Hp, Hr. cbn [negb]. unfold on_nonread_rx.
    rewrite Hu, Hsrc, N.eqb_refl, Hq, N.eqb_refl, Hfir, Hfin, Hi, Hassoc. cbn [negb andb].
    unfold handle_nonread_response. rewrite Hcmp. unfold nr_failed. cbn [nr_type].
    eexists _, _. split; [reflexivity|].
    assert (Hnow : s_now (process_iin st (h_iin1 h)) = s_now st).
    { unfold process_iin. destruct (iin1_restart _); [destruct (s_clear st)|]; reflexivity. }
    split; apply in_or_app; right; apply in_or_app; right; apply in_or_app; [left|right]; apply in_emit;
      rewrite Hnow; reflexivity. }
  destruct E as (st0 & o0 & E & H1 & H2).
  split; [eapply mstep_obs_event; eauto|]. split; [eapply mstep_obs_event; eauto|]. split.
  - intros Hin. destruct (command_success_local _ _ _ _ _ _ _ _ _ _ Hs Hr Hin)
      as (_ & _ & s' & f' & i' & h' & o' & Heq & Hp' & _ & _ & _ & _ & _ & _ & Hok).
    injection Heq as <- <- <-. rewrite Hp in Hp'. injection Hp' as <- <-. rewrite Hcmp in Hok. discriminate.
  - eapply compare_err_not_faithful; eauto.
Qed.

(* (b) IIN2 rejection *)
Theorem iin2_rejection_is_error cfg st src frag v items h objs tok :
  s_stopped st = false -> s_conn st = true -> run_tok (s_run st) = Some tok ->
  parse_response frag = PResponse h objs -> h_unsol h = false ->
  is_answer cfg st src h = true -> flags_ok st h = true -> iin2_bad (h_iin2 h) = true ->
  In (s_now st, ORes tok (RErr (ERejected (h_iin1 h) (h_iin2 h)))) (snd (mstep cfg st (ERx src frag v items))).
Proof.
  intros Hs Hc Ht Hp Hu Hans Hf Hi.
  destruct (fail_running cfg st (ERejected (h_iin1 h) (h_iin2 h))) as [st1 o1] eqn:E.
  destruct (fail_running_res _ _ _ _ _ _ Ht E) as [Hin _].
  assert (E0 : on_event cfg st (ERx src frag v items) = (st1, emit st (OPv v) ++ o1)).
  { cbn [on_event]. unfold on_rx. rewrite Hc, Hp. cbn [negb]. unfold is_answer, flags_ok in *.
    destruct (s_run st) as [|k seq d sd|k seq first d sd|tk d] eqn:Hr; try (rewrite Bool.andb_false_r in Hans; discriminate).
    - apply Bool.andb_true_iff in Hans. destruct Hans as [H1 H2]. unfold on_nonread_rx.
      rewrite Hu, H1, H2, Hf, Hi. cbn [negb]. rewrite E. reflexivity.
    - apply Bool.andb_true_iff in Hans. destruct Hans as [H1 H2]. unfold on_read_rx.
      apply Bool.andb_true_iff in Hf. destruct Hf as [Hf1 Hf2]. apply Bool.eqb_prop in Hf1.
      rewrite Hu, H1, H2, Hi. cbn [negb]. rewrite Hf1.
      destruct first; cbn [negb andb]; rewrite ?Bool.andb_false_r; cbn [andb];
        (destruct (c_fin (h_ctrl h)); cbn [orb negb andb] in *; [|rewrite Hf2; cbn [negb]]); rewrite E; reflexivity. }
  eapply mstep_obs_event; [exact Hs|exact E0|]. apply in_or_app. right. exact Hin.
Qed.

(* (c) disable, connection loss, shutdown: the outstanding request and every queued request fail
   with the corresponding error *)
Theorem stop_is_error cfg st ev why tok :
  s_stopped st = false -> s_conn st = true ->
  (ev = EDisable /\ why = StDisable \/ ev = EDropIo /\ why = StLink \/ ev = EShutdown /\ why = StShutdown) ->
  (run_tok (s_run st) = Some tok \/ (s_assoc st = true /\ In tok (map fst (s_queue st)))) ->
  In (s_now st, ORes tok (RErr (stop_err why))) (snd (mstep cfg st ev)).
Proof.
  intros Hs Hc Hev Htok.
  assert (Hstop : forall st1, s_now st1 = s_now st -> s_run st1 = s_run st -> s_assoc st1 = s_assoc st -> s_queue st1 = s_queue st ->
            forall st2 o, stop_run cfg st1 why = (st2, o) -> In (s_now st, ORes tok (RErr (stop_err why))) o).
  { intros st1 Hnow Hrun Has Hqu st2 o H. unfold stop_run in H.
    destruct (fail_running cfg st1 (stop_err why)) as [st3 o3] eqn:E3.
    destruct (if s_assoc st3 then _ else _) as [st4 o4] eqn:E4. injection H as <- <-.
    destruct Htok as [Ht|[Ha Hq]].
    - rewrite <- Hrun in Ht. destruct (fail_running_res _ _ _ _ _ _ Ht E3) as [Hin _]. rewrite Hnow in Hin.
      apply in_or_app. left. exact Hin.
    - apply in_or_app. right. apply in_or_app. left.
      assert (Hk : s_assoc st3 = true /\ s_queue st3 = s_queue st /\ s_now st3 = s_now st).
      { destruct (fail_running_frame _ _ _ _ _ E3) as (F1 & _ & _ & _ & _ & F6 & F7 & _). repeat split; congruence. }
      destruct Hk as (Hk1 & Hk2 & Hk3). rewrite Hk1 in E4. unfold reset_assoc in E4. injection E4 as _ <-.
      rewrite Hk2. apply in_flat_map. apply in_map_iff in Hq. destruct Hq as ([tk u] & Hfst & Hin). cbn [fst] in Hfst. subst tk.
      exists (tok, u). split; [exact Hin|]. cbn [fst]. apply in_emit. rewrite Hk3. reflexivity. }
  assert (E0 : exists st2 o, on_event cfg st ev = (st2, o) /\ In (s_now st, ORes tok (RErr (stop_err why))) o).
  { destruct Hev as [[-> ->]|[[-> ->]|[-> ->]]]; cbn [on_event]; rewrite Hc.
    - destruct (stop_run cfg _ StDisable) as [st2 o] eqn:E. exists st2, o. split; [reflexivity|].
      eapply Hstop; [..|exact E]; reflexivity.
    - destruct (stop_run cfg st StLink) as [st2 o] eqn:E. exists st2, o. split; [reflexivity|].
      eapply Hstop; [..|exact E]; reflexivity.
    - destruct (stop_run cfg st StShutdown) as [st2 o] eqn:E. eexists _, _. split; [reflexivity|].
      apply in_or_app. left. eapply Hstop; [..|exact E]; reflexivity. }
  destruct E0 as (st2 & o & E0 & Hin). eapply mstep_obs_event; eauto.
Qed.

(* (d) silence: when the response timeout of the outstanding request passes, the request fails
   with ResponseTimeout at that instant *)
Theorem timeout_is_error cfg st ms tok dl :
  s_stopped st = false -> s_conn st = true -> run_tok (s_run st) = Some tok ->
  wake_time cfg st = Some dl -> dl <= s_now st + (ms + 1) ->
  In (N.max (s_now st) dl, ORes tok (RErr ETimeout)) (snd (mstep cfg st (ESleep ms))).
Proof.
  intros Hs Hc Ht Hw Hle. unfold mstep, then_pump. rewrite Hs. cbn [on_event span_of].
  assert (Hp : run_pump cfg st = (st, [])).
  { unfold run_pump, pump_fuel. cbn [pump]. rewrite Hc. cbn [negb]. destruct (s_run st); try reflexivity. discriminate. }
  rewrite Hp. cbn [app]. cbn [advance]. rewrite Hw. apply N.leb_le in Hle. rewrite Hle.
  destruct (fire cfg (set_now st (N.max (s_now st) dl))) as [st1 o1] eqn:E1.
  destruct (advance (N.to_nat (ms + 1)) cfg st1 _) as [st4 o4]. cbn [snd].
  apply in_or_app. right. apply in_or_app. left.
  unfold fire, then_pump in E1. cbn [s_run set_now] in E1.
  destruct (fail_running cfg (set_now st (N.max (s_now st) dl)) ETimeout) as [st2 o2] eqn:E2.
  assert (Ht' : run_tok (s_run (set_now st (N.max (s_now st) dl))) = Some tok) by exact Ht.
  destruct (fail_running_res _ _ _ _ _ _ Ht' E2) as [Hin _]. cbn [s_now set_now] in Hin.
  destruct (s_run st); try discriminate; destruct (run_pump cfg st2) as [st3 o3]; injection E1 as _ <-;
    apply in_or_app; left; exact Hin.
Qed.

(* ---------------------------------------------------------------------------------------- *)
(* C16.4 one_outcome: promises are conserved *)

Definition res_tok (o : mobs) : list N := match o with ORes t _ => [t] | _ => [] end.
(* the tokens completed by a list of observations, with multiplicity *)
Definition res_toks (l : list tobs) : list N := flat_map (fun p => res_tok (snd p)) l.

Definition opt_list (x : option N) : list N := match x with Some t => [t] | None => [] end.
(* the tokens the master still owes an outcome: the outstanding task's and the queued ones *)
Definition pending (st : mstate) : list N := opt_list (run_tok (s_run st)) ++ map fst (s_queue st).

Definition cnt (tok : N) (l : list N) : nat := count_occ N.eq_dec l tok.

Lemma cnt_app tok a b : cnt tok (a ++ b) = (cnt tok a + cnt tok b)%nat.
Proof. apply count_occ_app. Qed.
Lemma res_toks_app a b : res_toks (a ++ b) = res_toks a ++ res_toks b.
Proof. unfold res_toks. apply flat_map_app. Qed.
Lemma res_toks_emit st o : res_toks (emit st o) = res_tok o.
Proof. Transparent emit. unfold res_toks, emit. cbn [flat_map snd]. apply app_nil_r. Qed.
#[local] Opaque emit.
Lemma res_toks_nil : res_toks [] = []. Proof. reflexivity. Qed.

(* observations that complete nothing *)
Definition silent (l : list tobs) : Prop := res_toks l = [].
Lemma silent_deliver st rt h items : silent (deliver st rt h items).
Proof.
  unfold silent, deliver. rewrite !res_toks_app, !res_toks_emit. cbn [res_tok app]. rewrite app_nil_r.
  induction items; cbn [flat_map]; [reflexivity|]. rewrite res_toks_app, res_toks_emit. exact IHitems.
Qed.

Ltac rt := rewrite ?res_toks_app, ?res_toks_emit, ?res_toks_nil; cbn [res_tok app].

Lemma pending_frame st st' : s_run st' = s_run st -> s_queue st' = s_queue st -> pending st' = pending st.
Proof. unfold pending. intros -> ->. reflexivity. Qed.

Lemma notify_fail_silent st ty e : res_toks (notify_fail st ty e) = [].
Proof. unfold notify_fail. destruct (s_assoc st); rt; reflexivity. Qed.

Lemma nr_error_res cfg st k e st' o :
  nr_error cfg st k e = (st', o) -> res_toks o = opt_list (nr_tok k) /\ s_queue st' = s_queue st /\ s_run st' = s_run st.
Proof.
  unfold nr_error. destruct k as [t ph hs|t|t fc|t cold|a]; intros H; try (injection H as <- <-; rt; repeat split).
  destruct (s_assoc st); [|injection H as <- <-; rt; repeat split].
  destruct e; injection H as <- <-; rt; (split; [reflexivity|]);
    unfold auto_failure, auto_response; destruct a; try destruct (iin1_restart _); split; reflexivity.
Qed.

Lemma rd_error_res cfg st k e st' o :
  rd_error cfg st k e = (st', o) ->
  res_toks o = (match k with RDUser t => [t] | RDIntegrity => [] end) /\ s_queue st' = s_queue st /\ s_run st' = s_run st.
Proof.
  unfold rd_error. destruct k; intros H; [injection H as <- <-; rt; repeat split|].
  destruct (s_assoc st); injection H as <- <-; rt; repeat split.
Qed.

Definition qcnt (tok : N) (st : mstate) : nat := cnt tok (map fst (s_queue st)).

Ltac fin :=
  unfold qcnt in *; unfold cnt in *; rewrite ?count_occ_app in *; cbn [count_occ app opt_list map fst] in *;
  repeat (match goal with
          | |- context [N.eq_dec ?a ?b] => destruct (N.eq_dec a b)
          | H : context [N.eq_dec ?a ?b] |- _ => destruct (N.eq_dec a b)
          end); try lia; try congruence.

(* a task that ends completes exactly its own token *)
Lemma fail_running_cons cfg st e st' o tok :
  fail_running cfg st e = (st', o) -> (cnt tok (res_toks o) + cnt tok (pending st') = cnt tok (pending st))%nat.
Proof.
  unfold fail_running, pending. destruct (s_run st) as [|k seq d sd|k seq f d sd|tk d] eqn:Hr; intros H.
  - injection H as <- <-. rewrite Hr. reflexivity.
  - destruct (nr_error _ _ _ _) as [st1 o1] eqn:E. injection H as <- <-. destruct (nr_error_res _ _ _ _ _ _ E) as (H1 & H2 & _).
    rt. rewrite notify_fail_silent, app_nil_r, H1. cbn [s_run set_run run_tok s_queue]. rewrite H2. fin.
  - destruct (rd_error _ _ _ _) as [st1 o1] eqn:E. injection H as <- <-. destruct (rd_error_res _ _ _ _ _ _ E) as (H1 & H2 & _).
    rt. rewrite notify_fail_silent, app_nil_r, H1. cbn [s_run set_run run_tok s_queue]. rewrite H2. destruct k; fin.
  - injection H as <- <-. rt. cbn [s_run set_run run_tok s_queue]. fin.
Qed.

Lemma send_nonread_cons cfg st k objs sd st' o tok :
  send_nonread cfg st k objs sd = (st', o) ->
  (cnt tok (res_toks o) + cnt tok (pending st') = cnt tok (opt_list (nr_tok k)) + qcnt tok st)%nat.
Proof.
  unfold send_nonread, pending, qcnt. destruct (fits cfg objs); intros H.
  - injection H as <- <-. rt. cbn [s_run set_run set_seq run_tok s_queue]. fin.
  - destruct (nr_error _ _ _ _) as [st2 o2] eqn:E. injection H as <- <-. destruct (nr_error_res _ _ _ _ _ _ E) as (H1 & H2 & _).
    rt. rewrite notify_fail_silent, app_nil_r, H1. cbn [s_run set_run run_tok s_queue]. rewrite H2. cbn [s_queue set_seq]. fin.
Qed.

Lemma start_nonread_cons cfg st k objs st' o tok :
  start_nonread cfg st k objs = (st', o) ->
  (cnt tok (res_toks o) + cnt tok (pending st') = cnt tok (opt_list (nr_tok k)) + qcnt tok st)%nat.
Proof.
  unfold start_nonread. destruct (send_nonread _ _ _ _ _) as [st1 o1] eqn:E. intros H. injection H as <- <-.
  rt. eapply send_nonread_cons; eauto.
Qed.

Lemma start_read_cons cfg st k objs st' o tok :
  start_read cfg st k objs = (st', o) ->
  (cnt tok (res_toks o) + cnt tok (pending st') =
   cnt tok (match k with RDUser t => [t] | RDIntegrity => [] end) + qcnt tok st)%nat.
Proof.
  unfold start_read, pending, qcnt. destruct (fits cfg objs); intros H.
  - injection H as <- <-. rt. cbn [s_run set_run set_seq run_tok s_queue]. destruct k; fin.
  - destruct (rd_error _ _ _ _) as [st2 o2] eqn:E. injection H as <- <-. destruct (rd_error_res _ _ _ _ _ _ E) as (H1 & H2 & _).
    rt. rewrite notify_fail_silent, app_nil_r, H1. cbn [s_run set_run run_tok s_queue]. rewrite H2. cbn [s_queue set_seq]. destruct k; fin.
Qed.

Lemma start_user_cons cfg st t u st' o tok :
  start_user cfg st t u = (st', o) -> (cnt tok (res_toks o) + cnt tok (pending st') = cnt tok [t] + qcnt tok st)%nat.
Proof.
  unfold start_user. destruct u; intros H.
  - apply (start_read_cons _ _ _ _ _ _ tok) in H. exact H.
  - apply (start_nonread_cons _ _ _ _ _ _ tok) in H. exact H.
  - apply (start_nonread_cons _ _ _ _ _ _ tok) in H. exact H.
  - apply (start_nonread_cons _ _ _ _ _ _ tok) in H. exact H.
  - apply (start_nonread_cons _ _ _ _ _ _ tok) in H. exact H.
  - injection H as <- <-. rt. unfold pending. cbn [s_run set_run run_tok s_queue]. fin.
Qed.

Lemma auto_next_not_user a now task t u :
  (forall t u, task <> NxUser t u) -> auto_next a now task <> Some (NxUser t u).
Proof.
  intros Ht. unfold auto_next. destruct a as [| |l nx]; try discriminate.
  - intros H. injection H as H. eapply Ht; eauto.
  - destruct (nx <=? now); intros H; injection H as H; [eapply Ht; eauto|discriminate].
Qed.

Lemma next_task_user cfg st t u : next_task cfg st = NxUser t u -> exists r, s_queue st = (t, u) :: r.
Proof.
  unfold next_task. destruct (negb (s_assoc st)); [discriminate|].
  destruct (s_queue st) as [|[t' u'] r]; [|intros H; injection H as -> ->; eauto].
  intros H. exfalso.
  destruct (auto_next (s_clear st) _ _) as [n|] eqn:E0.
  { subst n. eapply auto_next_not_user; [|exact E0]. discriminate. }
  destruct (if c_disable cfg =? 0 then None else _) as [n|] eqn:E1.
  { subst n. destruct (c_disable cfg =? 0); [discriminate|]. eapply auto_next_not_user; [|exact E1]. discriminate. }
  destruct (if c_integrity cfg =? 0 then None else _) as [n|] eqn:E2.
  { subst n. destruct (c_integrity cfg =? 0); [discriminate|]. eapply auto_next_not_user; [|exact E2]. discriminate. }
  destruct (if c_enable cfg =? 0 then None else _) as [n|] eqn:E3; [|discriminate].
  subst n. destruct (c_enable cfg =? 0); [discriminate|]. eapply auto_next_not_user; [|exact E3]. discriminate.
Qed.

Lemma pump_cons fuel cfg tok : forall st st' o,
  pump fuel cfg st = (st', o) -> (cnt tok (res_toks o) + cnt tok (pending st') = cnt tok (pending st))%nat.
Proof.
  induction fuel as [|f IH]; intros st st' o H; cbn [pump] in H; [injection H as <- <-; reflexivity|].
  destruct (negb (s_conn st)); [injection H as <- <-; reflexivity|].
  destruct (s_run st) eqn:Hr; try (injection H as <- <-; reflexivity).
  destruct (next_task cfg st) as [|t|t u|a|] eqn:Hn; try (injection H as <- <-; reflexivity).
  - destruct (next_task_user _ _ _ _ Hn) as (r & Hq).
    destruct (start_user _ _ _ _) as [st1 o1] eqn:E1. destruct (pump f cfg st1) as [st2 o2] eqn:E2.
    injection H as <- <-. rt. rewrite cnt_app. specialize (IH _ _ _ E2).
    apply (start_user_cons _ _ _ _ _ _ tok) in E1. unfold qcnt in E1. cbn [s_queue set_queue] in E1. rewrite Hq in E1. cbn [tl] in E1.
    unfold pending at 2. rewrite Hr, Hq. cbn [run_tok opt_list app map fst]. change (t :: map fst r) with ([t] ++ map fst r).
    rewrite cnt_app. lia.
  - destruct (start_nonread _ _ _ _) as [st1 o1] eqn:E1. destruct (pump f cfg st1) as [st2 o2] eqn:E2.
    injection H as <- <-. rt. rewrite cnt_app. specialize (IH _ _ _ E2).
    apply (start_nonread_cons _ _ _ _ _ _ tok) in E1. cbn [nr_tok opt_list] in E1.
    unfold pending at 2. rewrite Hr. cbn [run_tok opt_list app]. unfold qcnt in E1. cbn [cnt count_occ] in E1. lia.
  - destruct (start_read _ _ _ _) as [st1 o1] eqn:E1. destruct (pump f cfg st1) as [st2 o2] eqn:E2.
    injection H as <- <-. rt. rewrite cnt_app. specialize (IH _ _ _ E2).
    apply (start_read_cons _ _ _ _ _ _ tok) in E1.
    unfold pending at 2. rewrite Hr. cbn [run_tok opt_list app]. unfold qcnt in E1. cbn [cnt count_occ] in E1. lia.
Qed.

Lemma process_iin_queue st i : s_queue (process_iin st i) = s_queue st.
Proof. unfold process_iin. destruct (iin1_restart i); [destruct (s_clear st)|]; reflexivity. Qed.
Lemma process_iin_run st i : s_run (process_iin st i) = s_run st.
Proof. apply process_iin_keeps. Qed.

Lemma handle_unsol_cons cfg st src h objs v items st' o :
  handle_unsol cfg st src h objs v items = (st', o) -> res_toks o = [] /\ pending st' = pending st.
Proof.
  unfold handle_unsol. destruct (_ && s_assoc st); [|intros H; injection H as <- <-; split; reflexivity].
  assert (Hp : pending (process_iin st (h_iin1 h)) = pending st).
  { apply pending_frame; [apply process_iin_run|apply process_iin_queue]. }
  destruct (_ || _); [|intros H; injection H as <- <-; split; [reflexivity|exact Hp]].
  destruct v; try (intros H; injection H as <- <-; split; [reflexivity|exact Hp]).
  destruct (match s_last_unsol _ with Some _ => _ | None => _ end); intros H; injection H as <- <-.
  - split; [|exact Hp]. rt. destruct (c_con _); rt; reflexivity.
  - split; [|exact Hp]. rt. rewrite silent_deliver. destruct (c_con _); rt; reflexivity.
Qed.

Lemma auto_response_queue cfg st a i : s_queue (auto_response cfg st a i) = s_queue st.
Proof. apply auto_response_frame. Qed.

Lemma handle_nonread_response_cons cfg st k seq sd h objs v st' o tok :
  handle_nonread_response cfg st k seq sd h objs v = (st', o) ->
  (cnt tok (res_toks o) + cnt tok (pending st') = cnt tok (opt_list (nr_tok k)) + qcnt tok st)%nat.
Proof.
  unfold handle_nonread_response, nr_success, nr_failed. destruct k as [t ph hs|t|t fc|t cold|a].
  - destruct v; try (intros H; injection H as <- <-; rt; unfold pending; cbn [s_run set_run run_tok s_queue nr_tok]; fin).
    destruct (compare hs objs); [|intros H; injection H as <- <-; rt; unfold pending; cbn [s_run set_run run_tok s_queue nr_tok]; fin].
    destruct ph; try (intros H; injection H as <- <-; rt; unfold pending; cbn [s_run set_run run_tok s_queue nr_tok]; fin).
    intros H. apply (send_nonread_cons _ _ _ _ _ _ _ tok) in H. exact H.
  - destruct objs; intros H; injection H as <- <-; rt; unfold pending; cbn [s_run set_run run_tok s_queue nr_tok]; fin.
  - destruct objs; intros H; injection H as <- <-; rt; unfold pending; cbn [s_run set_run run_tok s_queue nr_tok]; fin.
  - destruct v; try (intros H; injection H as <- <-; rt; unfold pending; cbn [s_run set_run run_tok s_queue nr_tok]; fin).
    destruct (restart_delay objs); intros H; injection H as <- <-; rt; unfold pending; cbn [s_run set_run run_tok s_queue nr_tok]; fin.
  - intros H; injection H as <- <-; rt; unfold pending; cbn [s_run set_run run_tok s_queue nr_tok]. rewrite auto_response_queue. fin.
Qed.

Lemma on_nonread_rx_cons cfg st k seq d sd src h objs v items st' o tok :
  s_run st = RNonRead k seq d sd -> on_nonread_rx cfg st k seq d sd src h objs v items = (st', o) ->
  (cnt tok (res_toks o) + cnt tok (pending st') = cnt tok (pending st))%nat.
Proof.
  intros Hr. unfold on_nonread_rx.
  destruct (h_unsol h). { intros H. destruct (handle_unsol_cons _ _ _ _ _ _ _ _ _ H) as [-> ->]. reflexivity. }
  destruct (negb (src =? c_addr cfg)); [intros H; injection H as <- <-; reflexivity|].
  destruct (negb (c_seq (h_ctrl h) =? seq)); [intros H; injection H as <- <-; reflexivity|].
  destruct (negb (_ && _)); [apply fail_running_cons|].
  destruct (iin2_bad _); [apply fail_running_cons|].
  assert (Hc : forall x, res_toks (if c_con (h_ctrl h) then emit st (OTxConfirm (c_addr cfg) false seq) else []) ++ x = x).
  { intros x. destruct (c_con _); rt; reflexivity. }
  destruct (s_assoc st).
  - destruct (handle_nonread_response _ _ _ _ _ _ _ _) as [st1 o1] eqn:E. intros H. injection H as <- <-.
    rt. rewrite Hc. apply (handle_nonread_response_cons _ _ _ _ _ _ _ _ _ _ tok) in E.
    unfold qcnt in E. rewrite process_iin_queue in E. unfold pending at 2. rewrite Hr. cbn [run_tok]. fin.
  - destruct (nr_error _ _ _ _) as [st1 o1] eqn:E. intros H. injection H as <- <-. destruct (nr_error_res _ _ _ _ _ _ E) as (H1 & H2 & _).
    rt. rewrite Hc, H1. unfold pending. rewrite Hr. cbn [s_run set_run run_tok s_queue]. rewrite H2. fin.
Qed.

Lemma on_read_rx_cons cfg st k seq first d sd src h objs v items st' o tok :
  s_run st = RRead k seq first d sd -> on_read_rx cfg st k seq first d sd src h objs v items = (st', o) ->
  (cnt tok (res_toks o) + cnt tok (pending st') = cnt tok (pending st))%nat.
Proof.
  intros Hr. unfold on_read_rx.
  destruct (h_unsol h). { intros H. destruct (handle_unsol_cons _ _ _ _ _ _ _ _ _ H) as [-> ->]. reflexivity. }
  destruct (negb (src =? c_addr cfg)); [intros H; injection H as <- <-; reflexivity|].
  destruct (negb (c_seq (h_ctrl h) =? seq)); [intros H; injection H as <- <-; reflexivity|].
  destruct (_ && negb first); [apply fail_running_cons|].
  destruct (negb _ && first); [apply fail_running_cons|].
  destruct (negb _ && negb _); [apply fail_running_cons|].
  destruct (iin2_bad _); [apply fail_running_cons|].
  destruct (negb (s_assoc st)); [apply fail_running_cons|].
  assert (Hp : pending (process_iin st (h_iin1 h)) = pending st).
  { apply pending_frame; [apply process_iin_run|apply process_iin_queue]. }
  destruct v; try (intros H; apply (fail_running_cons _ _ _ _ _ tok) in H; rewrite Hp in H; exact H).
  assert (Hc : res_toks (if c_con (h_ctrl h) then emit st (OTxConfirm (c_addr cfg) false seq) else []) = []).
  { destruct (c_con _); rt; reflexivity. }
  assert (Hd : forall r, res_toks (deliver st r h items) = []) by (intros; apply silent_deliver).
  destruct (c_fin _).
  - destruct k as [t|]; intros H; injection H as <- <-; rt; rewrite Hc, Hd; unfold pending; rewrite Hr;
      cbn [s_run set_run run_tok s_queue set_integ set_autos app]; rewrite process_iin_queue; fin.
  - intros H; injection H as <- <-. rt. rewrite Hc, Hd. unfold pending. rewrite Hr.
    cbn [s_run set_run set_seq run_tok s_queue app]. rewrite process_iin_queue. destruct k; fin.
Qed.

Lemma on_rx_cons cfg st src frag v items st' o tok :
  on_rx cfg st src frag v items = (st', o) -> (cnt tok (res_toks o) + cnt tok (pending st') = cnt tok (pending st))%nat.
Proof.
  unfold on_rx. destruct (negb (s_conn st)); [intros H; injection H as <- <-; rt; reflexivity|].
  destruct (parse_response frag) as [|h objs].
  - destruct (s_run st); try apply fail_running_cons. intros H; injection H as <- <-; reflexivity.
  - destruct (s_run st) as [|k seq d sd|k seq first d sd|tk d] eqn:Hr.
    + destruct (h_unsol h); [|intros H; injection H as <- <-; reflexivity].
      intros H. destruct (handle_unsol_cons _ _ _ _ _ _ _ _ _ H) as [-> ->]. reflexivity.
    + apply on_nonread_rx_cons. exact Hr.
    + apply on_read_rx_cons. exact Hr.
    + destruct (if h_unsol h then _ else _) as [st1 o1] eqn:E1. destruct (fail_running cfg st1 EBadHeaders) as [st2 o2] eqn:E2.
      intros H. injection H as <- <-. rt. rewrite cnt_app. apply (fail_running_cons _ _ _ _ _ tok) in E2.
      destruct (h_unsol h).
      * destruct (handle_unsol_cons _ _ _ _ _ _ _ _ _ E1) as [-> Hp]. rewrite Hp in E2. exact E2.
      * injection E1 as <- <-. exact E2.
Qed.

(* the token a stimulus submits *)
Definition submitted (ev : mevent) : list N := match ev with EUser t _ => [t] | _ => [] end.

Lemma res_toks_queue_flat (st : mstate) (f : N -> result) (q : list (N * utask)) :
  res_toks (flat_map (fun p => emit st (ORes (fst p) (f (fst p)))) q) = map fst q.
Proof. induction q as [|[t u] q IH]; cbn [flat_map map fst]; [reflexivity|]. rt. rewrite IH. reflexivity. Qed.

Lemma stop_run_cons cfg st why st' o tok :
  stop_run cfg st why = (st', o) ->
  (cnt tok (res_toks o) + cnt tok (pending st') = cnt tok (pending st))%nat /\ (s_assoc st = false -> s_queue st' = s_queue st).
Proof.
  unfold stop_run. destruct (fail_running _ _ _) as [st1 o1] eqn:E1.
  pose proof (fail_running_cons _ _ _ _ _ tok E1) as H1. pose proof (fail_running_idle _ _ _ _ _ E1) as [Hidle _].
  pose proof (fail_running_frame _ _ _ _ _ E1) as (_ & _ & _ & _ & _ & Fa & Fq & _).
  destruct (s_assoc st1) eqn:Ha.
  - unfold reset_assoc. intros H. injection H as <- <-. split; [|intros Hf; congruence].
    rt. rewrite (res_toks_queue_flat st1 (fun _ => RErr (stop_err why))), app_nil_r.
    unfold pending in *. cbn [s_run set_chan set_last_unsol set_autos set_queue s_queue]. rewrite Hidle in *.
    cbn [run_tok map] in *. fin.
  - intros H. injection H as <- <-. split; [|intros _; exact Fq]. rt. rewrite app_nil_r.
    unfold pending in *. cbn [s_run set_chan s_queue]. exact H1.
Qed.

Lemma on_event_cons cfg st ev st' o tok :
  on_event cfg st ev = (st', o) ->
  (cnt tok (res_toks o) + cnt tok (pending st') = cnt tok (submitted ev) + cnt tok (pending st))%nat.
Proof.
  destruct ev as [src frag v items|ms|t u| | | | | |]; cbn [on_event submitted]; intros H.
  - destruct (on_rx _ _ _ _ _ _) as [st1 o1] eqn:E. injection H as <- <-. rt. apply (on_rx_cons _ _ _ _ _ _ _ _ tok) in E. fin.
  - injection H as <- <-. reflexivity.
  - unfold on_user in H. destruct (negb (s_assoc st)); [injection H as <- <-; rt; fin|].
    destruct (negb (s_conn st)); [injection H as <- <-; rt; fin|].
    destruct (_ <? _)%nat; injection H as <- <-; rt; [|fin].
    unfold pending. cbn [s_run set_queue s_queue]. rewrite map_app. cbn [map fst]. fin.
  - destruct (s_conn st); [|injection H as <- <-; reflexivity].
    apply (stop_run_cons _ _ _ _ _ tok) in H. destruct H as [H _]. exact H.
  - destruct (s_conn st); [injection H as <- <-; reflexivity|].
    unfold try_connect in H. destruct (_ && _); injection H as <- <-; rt; reflexivity.
  - destruct (s_conn st); [|injection H as <- <-; reflexivity].
    apply (stop_run_cons _ _ _ _ _ tok) in H. destruct H as [H _]. exact H.
  - unfold try_connect in H. destruct (_ && _); injection H as <- <-; rt; reflexivity.
  - injection H as <- <-. rewrite (res_toks_queue_flat st (fun _ => RDropped)). unfold pending.
    cbn [s_run set_queue set_assoc s_queue map]. fin.
  - destruct (if s_conn st then _ else _) as [st1 o1] eqn:E. injection H as <- <-. rt. rewrite app_nil_r.
    unfold pending. cbn [s_run set_chan s_queue]. destruct (s_conn st).
    + apply (stop_run_cons _ _ _ _ _ tok) in E. destruct E as [E _]. exact E.
    + injection E as <- <-. reflexivity.
Qed.

Lemma then_pump_cons cfg st1 o1 st' o tok :
  then_pump cfg (st1, o1) = (st', o) ->
  (cnt tok (res_toks o) + cnt tok (pending st') = cnt tok (res_toks o1) + cnt tok (pending st1))%nat.
Proof.
  unfold then_pump, run_pump. destruct (pump _ cfg st1) as [st2 o2] eqn:E. intros H. injection H as <- <-.
  rt. rewrite cnt_app. apply (pump_cons _ _ tok) in E. lia.
Qed.

Lemma fire_cons cfg st st' o tok :
  fire cfg st = (st', o) -> (cnt tok (res_toks o) + cnt tok (pending st') = cnt tok (pending st))%nat.
Proof.
  unfold fire. destruct (s_run st) eqn:Hr; try (apply pump_cons);
    destruct (fail_running cfg st ETimeout) as [st1 o1] eqn:E; intros H; apply (then_pump_cons _ _ _ _ _ tok) in H;
    apply (fail_running_cons _ _ _ _ _ tok) in E; lia.
Qed.

Lemma advance_cons fuel cfg tok : forall st target st' o,
  advance fuel cfg st target = (st', o) -> (cnt tok (res_toks o) + cnt tok (pending st') = cnt tok (pending st))%nat.
Proof.
  induction fuel as [|f IH]; intros st target st' o H; cbn [advance] in H; [injection H as <- <-; reflexivity|].
  destruct (wake_time cfg st) as [d|]; [|injection H as <- <-; reflexivity].
  destruct (d <=? target); [|injection H as <- <-; reflexivity].
  destruct (fire _ _) as [st1 o1] eqn:E1. destruct (advance f cfg st1 target) as [st2 o2] eqn:E2.
  injection H as <- <-. rt. rewrite cnt_app. apply (fire_cons _ _ _ _ tok) in E1. apply IH in E2.
  change (pending (set_now st (N.max (s_now st) d))) with (pending st) in E1. lia.
Qed.

(* one step: completions + what is still owed afterwards = what was owed + what was submitted *)
Theorem mstep_conserves cfg st ev tok :
  s_stopped st = false ->
  (cnt tok (res_toks (snd (mstep cfg st ev))) + cnt tok (pending (fst (mstep cfg st ev)))
   = cnt tok (submitted ev) + cnt tok (pending st))%nat.
Proof.
  intros Hs. unfold mstep. rewrite Hs.
  destruct (on_event cfg st ev) as [st0 o0] eqn:E0. destruct (then_pump cfg (st0, o0)) as [st1 o1] eqn:E1.
  destruct (advance _ cfg st1 _) as [st2 o2] eqn:E2. cbn [fst snd]. rt. rewrite cnt_app.
  apply (on_event_cons _ _ _ _ _ tok) in E0. apply (then_pump_cons _ _ _ _ _ tok) in E1. apply (advance_cons _ _ tok) in E2. lia.
Qed.

Lemma steps_from_run cfg tok : forall evs st,
  (cnt tok (res_toks (concat (run_from cfg st evs))) + cnt tok (pending (final_from cfg st evs))
   = cnt tok (flat_map (fun p => if s_stopped (fst p) then [] else submitted (snd p)) (steps_from cfg st evs))
     + cnt tok (pending st))%nat.
Proof.
  induction evs as [|ev evs IH]; intros st; cbn [run_from final_from steps_from flat_map concat]; [reflexivity|].
  destruct (mstep cfg st ev) as [st1 o1] eqn:E. cbn [fst snd concat]. rt. rewrite !cnt_app. specialize (IH st1).
  destruct (s_stopped st) eqn:Hs.
  - rewrite mstep_stopped in E by assumption. injection E as <- <-.
    cbn [res_toks flat_map res_tok snd app cnt count_occ] in *. lia.
  - pose proof (mstep_conserves cfg st ev tok Hs) as Hc. rewrite E in Hc. cbn [fst snd] in Hc. lia.
Qed.

Lemma minit_silent cfg : res_toks (snd (minit cfg)) = [] /\ pending (fst (minit cfg)) = [].
Proof.
  unfold minit. destruct (run_pump cfg _) as [st1 o1] eqn:E1. destruct (advance 2 cfg st1 1) as [st2 o2] eqn:E2.
  cbn [fst snd]. rt.
  assert (H1 : forall tok, (cnt tok (res_toks o1) + cnt tok (pending st1) = 0)%nat).
  { intros tok. apply (pump_cons _ _ tok) in E1. exact E1. }
  assert (H2 : forall tok, (cnt tok (res_toks o2) + cnt tok (pending st2) = cnt tok (pending st1))%nat).
  { intros tok. apply (advance_cons _ _ tok) in E2. exact E2. }
  assert (Hz : forall l : list N, (forall tok, cnt tok l = 0%nat) -> l = []).
  { intros l Hl. destruct l as [|x l]; [reflexivity|]. specialize (Hl x). unfold cnt in Hl. cbn [count_occ] in Hl.
    destruct (N.eq_dec x x); [discriminate|congruence]. }
  assert (Ha : res_toks o1 = [] /\ pending st1 = []).
  { split; apply Hz; intros tok; specialize (H1 tok); lia. }
  destruct Ha as [Ha1 Ha2]. rewrite Ha1. cbn [app].
  split; apply Hz; intros tok; specialize (H2 tok); rewrite Ha2 in H2; cbn [cnt count_occ] in H2; lia.
Qed.

(* C16.4 one_outcome.  For every token: the number of times it is completed in a run plus the number
   of times it is still owed at the end (outstanding task or request queue) equals the number of
   times it was submitted (while the master had not been shut down).  A token submitted once is
   therefore never completed twice, and it is completed exactly once unless it is still
   outstanding or queued when the run ends. *)
Theorem one_outcome : forall cfg evs tok,
  (cnt tok (res_toks (concat (run cfg evs))) + cnt tok (pending (final cfg evs))
   = cnt tok (flat_map (fun p => if s_stopped (fst p) then [] else submitted (snd p)) (steps cfg evs)))%nat.
Proof.
  intros cfg evs tok. unfold run, final, steps. destruct (minit_silent cfg) as [H1 H2].
  destruct (minit cfg) as [st0 o0]. cbn [fst snd concat] in *. rt. rewrite cnt_app, H1.
  pose proof (steps_from_run cfg tok evs st0) as H. rewrite H2 in H. cbn [cnt count_occ] in *. lia.
Qed.

Corollary at_most_one_outcome : forall cfg evs tok,
  (cnt tok (flat_map (fun p => if s_stopped (fst p) then [] else submitted (snd p)) (steps cfg evs)) <= 1)%nat ->
  (cnt tok (res_toks (concat (run cfg evs))) <= 1)%nat.
Proof. intros cfg evs tok H. pose proof (one_outcome cfg evs tok). lia. Qed.

(* ---------------------------------------------------------------------------------------- *)
(* C16.5 bounded_steps: deadlines *)

Definition nr_steps (k : nr_kind) : N := match k with NRCommand _ PhOperate _ => 2 | _ => 1 end.

(* the outstanding task is waited for only while connected; its deadline lies in the future, at
   most [nr_steps] response timeouts after the task was started (one response timeout after the
   last fragment for a READ) *)
Definition run_ok (cfg : mcfg) (st : mstate) : Prop :=
  match s_run st with
  | RNone => True
  | RNonRead k _ dl sd =>
    s_conn st = true /\ sd <= s_now st /\ s_now st < dl /\ dl <= sd + nr_steps k * c_timeout cfg
  | RRead _ _ _ dl _ => s_conn st = true /\ s_now st < dl /\ dl <= s_now st + c_timeout cfg
  | RLink _ dl => s_conn st = true /\ s_now st < dl /\ dl <= s_now st + c_timeout cfg
  end.

Definition J (cfg : mcfg) (st : mstate) : Prop :=
  run_ok cfg st /\ (s_conn st = false -> s_queue st = []) /\ (s_assoc st = false -> s_queue st = []).

(* channel part of the state *)
Definition cf (st st' : mstate) : Prop :=
  s_now st' = s_now st /\ s_conn st' = s_conn st /\ s_assoc st' = s_assoc st.
Lemma cf_refl st : cf st st. Proof. repeat split. Qed.
Lemma cf_trans a b c : cf a b -> cf b c -> cf a c.
Proof. unfold cf. intuition congruence. Qed.
Lemma frame_cf a b : frame a b -> cf a b.
Proof. unfold frame, cf. intuition. Qed.

Lemma send_nonread_cf cfg st k objs sd st' o :
  send_nonread cfg st k objs sd = (st', o) -> cf st st' /\ s_queue st' = s_queue st.
Proof.
  unfold send_nonread. destruct (fits cfg objs); intros H; [injection H as <- _; repeat split|].
  destruct (nr_error _ _ _ _) as [st2 o2] eqn:E. injection H as <- _. apply nr_error_frame in E.
  destruct E as (F1 & F2 & F3 & F4 & F5 & F6 & F7 & F8). repeat split; assumption.
Qed.

Lemma send_nonread_run cfg st k objs sd st' o :
  send_nonread cfg st k objs sd = (st', o) ->
  s_run st' = RNone \/ s_run st' = RNonRead k (s_seq st) (s_now st + c_timeout cfg) sd.
Proof.
  unfold send_nonread. destruct (fits cfg objs); intros H; [injection H as <- _; right; reflexivity|].
  destruct (nr_error _ _ _ _) as [st2 o2]. injection H as <- _. left. reflexivity.
Qed.

Lemma start_read_cf cfg st k objs st' o :
  start_read cfg st k objs = (st', o) -> cf st st' /\ s_queue st' = s_queue st /\
  (s_run st' = RNone \/ s_run st' = RRead k (s_seq st) true (s_now st + c_timeout cfg) (s_now st)).
Proof.
  unfold start_read. destruct (fits cfg objs); intros H; [injection H as <- _; repeat split; right; reflexivity|].
  destruct (rd_error _ _ _ _) as [st2 o2] eqn:E. injection H as <- _. apply rd_error_frame in E.
  destruct E as (F1 & F2 & F3 & F4 & F5 & F6 & F7 & F8). repeat split; try assumption. left. reflexivity.
Qed.

Section Timing.
Variable cfg : mcfg.
Hypothesis Htimeout : 1 <= c_timeout cfg.

Lemma J_of_parts st : run_ok cfg st -> (s_conn st = false -> s_queue st = []) -> (s_assoc st = false -> s_queue st = []) -> J cfg st.
Proof. intros. repeat split; assumption. Qed.

Lemma send_nonread_J st k objs sd st' o :
  J cfg st -> s_conn st = true -> sd <= s_now st -> s_now st + c_timeout cfg <= sd + nr_steps k * c_timeout cfg ->
  send_nonread cfg st k objs sd = (st', o) -> J cfg st'.
Proof.
  intros (_ & Hq1 & Hq2) Hc Hsd Hb H. destruct (send_nonread_cf _ _ _ _ _ _ _ H) as ((Fn & Fc & Fa) & Fq).
  apply J_of_parts; [|rewrite Fc, Fq; exact Hq1|rewrite Fa, Fq; exact Hq2].
  unfold run_ok. destruct (send_nonread_run _ _ _ _ _ _ _ H) as [->| ->]; [exact I|].
  rewrite Fc, Fn. repeat split; try assumption. lia.
Qed.

Lemma start_nonread_J st k objs st' o :
  J cfg st -> s_conn st = true -> nr_steps k = 1 -> start_nonread cfg st k objs = (st', o) -> J cfg st'.
Proof.
  unfold start_nonread. intros HJ Hc Hk. destruct (send_nonread _ _ _ _ _) as [st1 o1] eqn:E. intros H. injection H as <- _.
  eapply (send_nonread_J st k objs (s_now st)); [exact HJ|exact Hc|lia| |exact E]. rewrite Hk. lia.
Qed.

Lemma start_read_J st k objs st' o : J cfg st -> s_conn st = true -> start_read cfg st k objs = (st', o) -> J cfg st'.
Proof.
  intros (_ & Hq1 & Hq2) Hc H. destruct (start_read_cf _ _ _ _ _ _ H) as ((Fn & Fc & Fa) & Fq & Hr).
  apply J_of_parts; [|rewrite Fc, Fq; exact Hq1|rewrite Fa, Fq; exact Hq2].
  unfold run_ok. destruct Hr as [->| ->]; [exact I|]. rewrite Fc, Fn. repeat split; try assumption; lia.
Qed.

Lemma start_user_J st t u st' o : J cfg st -> s_conn st = true -> start_user cfg st t u = (st', o) -> J cfg st'.
Proof.
  unfold start_user. intros HJ Hc. destruct u as [objs|sbo hs|hs|fc objs|cold|]; intros H.
  - eapply start_read_J; eauto.
  - eapply start_nonread_J; [exact HJ|exact Hc| |exact H]. destruct sbo; reflexivity.
  - eapply start_nonread_J; [exact HJ|exact Hc| |exact H]. reflexivity.
  - eapply start_nonread_J; [exact HJ|exact Hc| |exact H]. reflexivity.
  - eapply start_nonread_J; [exact HJ|exact Hc| |exact H]. reflexivity.
  - injection H as <- _. destruct HJ as (_ & Hq1 & Hq2). apply J_of_parts; [|exact Hq1|exact Hq2].
    unfold run_ok. cbn [s_run set_run s_conn s_now]. repeat split; try assumption; lia.
Qed.

Lemma next_task_assoc st t u : next_task cfg st = NxUser t u -> s_assoc st = true.
Proof. unfold next_task. destruct (s_assoc st); [reflexivity|discriminate]. Qed.

Lemma pump_J fuel : forall st st' o, J cfg st -> pump fuel cfg st = (st', o) -> J cfg st'.
Proof.
  induction fuel as [|f IH]; intros st st' o HJ H; cbn [pump] in H; [injection H as <- _; exact HJ|].
  destruct (s_conn st) eqn:Hc; cbn [negb] in H; [|injection H as <- _; exact HJ].
  destruct (s_run st) eqn:Hr; try (injection H as <- _; exact HJ).
  destruct (next_task cfg st) as [|t|t u|a|] eqn:Hn; try (injection H as <- _; exact HJ).
  - destruct (start_user _ _ _ _) as [st1 o1] eqn:E1. destruct (pump f cfg st1) as [st2 o2] eqn:E2.
    injection H as <- _. eapply IH; [|exact E2].
    eapply (start_user_J (set_queue st (tl (s_queue st)))); [|exact Hc|exact E1].
    destruct HJ as (Hok & Hq1 & Hq2). apply J_of_parts.
    + unfold run_ok in *. cbn [s_run set_queue]. rewrite Hr. exact I.
    + cbn [s_conn set_queue]. rewrite Hc. discriminate.
    + cbn [s_assoc set_queue]. rewrite (next_task_assoc _ _ _ Hn). discriminate.
  - destruct (start_nonread _ _ _ _) as [st1 o1] eqn:E1. destruct (pump f cfg st1) as [st2 o2] eqn:E2.
    injection H as <- _. eapply IH; [|exact E2].
    eapply (start_nonread_J st (NRAuto a)); [exact HJ|exact Hc|reflexivity|exact E1].
  - destruct (start_read _ _ _ _) as [st1 o1] eqn:E1. destruct (pump f cfg st1) as [st2 o2] eqn:E2.
    injection H as <- _. eapply IH; [|exact E2]. eapply start_read_J; [exact HJ|exact Hc|exact E1].
Qed.

Lemma fail_running_J st e st' o : J cfg st -> fail_running cfg st e = (st', o) -> J cfg st'.
Proof.
  intros (_ & Hq1 & Hq2) H. destruct (fail_running_idle _ _ _ _ _ H) as [Hr _].
  destruct (fail_running_frame _ _ _ _ _ H) as (_ & Fc & _ & _ & _ & Fa & Fq & _).
  apply J_of_parts; [unfold run_ok; rewrite Hr; exact I|rewrite Fc, Fq; exact Hq1|rewrite Fa, Fq; exact Hq2].
Qed.

Lemma then_pump_J st1 o1 st' o : J cfg st1 -> then_pump cfg (st1, o1) = (st', o) -> J cfg st'.
Proof.
  unfold then_pump, run_pump. destruct (pump _ cfg st1) as [st2 o2] eqn:E. intros HJ H. injection H as <- _.
  eapply pump_J; eauto.
Qed.


Lemma process_iin_cf st i : cf st (process_iin st i) /\ s_queue (process_iin st i) = s_queue st /\ s_run (process_iin st i) = s_run st.
Proof. unfold process_iin. destruct (iin1_restart i); [destruct (s_clear st)|]; repeat split. Qed.

Lemma J_transfer st st' :
  cf st st' -> s_queue st' = s_queue st -> s_run st' = s_run st -> J cfg st -> J cfg st'.
Proof.
  intros (Fn & Fc & Fa) Fq Fr (Hok & Hq1 & Hq2).
  apply J_of_parts; [|rewrite Fc, Fq; exact Hq1|rewrite Fa, Fq; exact Hq2].
  unfold run_ok in *. rewrite Fr, Fc, Fn. exact Hok.
Qed.

Lemma handle_unsol_J st src h objs v items st' o :
  J cfg st -> handle_unsol cfg st src h objs v items = (st', o) -> J cfg st'.
Proof.
  intros HJ. unfold handle_unsol. destruct (process_iin_cf st (h_iin1 h)) as (F1 & F2 & F3).
  assert (HJ1 : J cfg (process_iin st (h_iin1 h))) by (eapply J_transfer; eauto).
  destruct (_ && s_assoc st); [|intros H; injection H as <- _; exact HJ].
  destruct (_ || _); [|intros H; injection H as <- _; exact HJ1].
  destruct v; try (intros H; injection H as <- _; exact HJ1).
  destruct (match s_last_unsol _ with Some _ => _ | None => _ end); intros H; injection H as <- _;
    (eapply J_transfer; [| | |exact HJ1]; [repeat split; cbn; congruence|reflexivity|reflexivity]).
Qed.

Lemma J_idle st st' :
  cf st st' -> s_queue st' = s_queue st -> s_run st' = RNone -> J cfg st -> J cfg st'.
Proof.
  intros (Fn & Fc & Fa) Fq Fr (_ & Hq1 & Hq2).
  apply J_of_parts; [unfold run_ok; rewrite Fr; exact I|rewrite Fc, Fq; exact Hq1|rewrite Fa, Fq; exact Hq2].
Qed.

Lemma handle_nonread_response_J st k q dl sd h objs v st' o :
  J cfg st -> s_run st = RNonRead k q dl sd -> handle_nonread_response cfg st k q sd h objs v = (st', o) -> J cfg st'.
Proof.
  intros HJ Hr. unfold handle_nonread_response, nr_success, nr_failed.
  assert (Hidle : forall st1, cf st st1 -> s_queue st1 = s_queue st -> J cfg (set_run st1 RNone)).
  { intros st1 Hcf Hq. eapply (J_idle st); [| | |exact HJ]; [exact Hcf|exact Hq|reflexivity]. }
  destruct k as [t ph hs|t|t fc|t cold|a].
  - destruct v; try (intros H; injection H as <- _; apply Hidle; [apply cf_refl|reflexivity]).
    destruct (compare hs objs); [|intros H; injection H as <- _; apply Hidle; [apply cf_refl|reflexivity]].
    destruct ph; try (intros H; injection H as <- _; apply Hidle; [apply cf_refl|reflexivity]).
    intros H. destruct HJ as (Hok & Hq1 & Hq2). pose proof Hok as Hok'. unfold run_ok in Hok'. rewrite Hr in Hok'.
    destruct Hok' as (Hc & Hsd & Hlt & Hdl). cbn [nr_steps] in Hdl.
    eapply (send_nonread_J st (NRCommand t PhOperate hs)); [repeat split; assumption|exact Hc|exact Hsd| |exact H].
    cbn [nr_steps]. lia.
  - destruct objs; intros H; injection H as <- _; apply Hidle; try apply cf_refl; reflexivity.
  - destruct objs; intros H; injection H as <- _; apply Hidle; try apply cf_refl; reflexivity.
  - destruct v; try (intros H; injection H as <- _; apply Hidle; [apply cf_refl|reflexivity]).
    destruct (restart_delay objs); intros H; injection H as <- _; apply Hidle; try apply cf_refl; reflexivity.
  - intros H; injection H as <- _. apply Hidle; [apply frame_cf, auto_response_frame|apply auto_response_frame].
Qed.

Lemma on_nonread_rx_J st k q dl sd src h objs v items st' o :
  J cfg st -> s_run st = RNonRead k q dl sd -> on_nonread_rx cfg st k q dl sd src h objs v items = (st', o) -> J cfg st'.
Proof.
  intros HJ Hr. unfold on_nonread_rx.
  destruct (h_unsol h); [apply handle_unsol_J; exact HJ|].
  destruct (negb (src =? c_addr cfg)); [intros H; injection H as <- _; exact HJ|].
  destruct (negb (c_seq (h_ctrl h) =? q)); [intros H; injection H as <- _; exact HJ|].
  destruct (negb (_ && _)); [apply fail_running_J; exact HJ|].
  destruct (iin2_bad _); [apply fail_running_J; exact HJ|].
  destruct (process_iin_cf st (h_iin1 h)) as (F1 & F2 & F3).
  destruct (s_assoc st).
  - destruct (handle_nonread_response _ _ _ _ _ _ _ _) as [st1 o1] eqn:E. intros H. injection H as <- _.
    eapply handle_nonread_response_J; [|rewrite F3; exact Hr|exact E]. eapply J_transfer; eauto.
  - destruct (nr_error _ _ _ _) as [st1 o1] eqn:E. intros H. injection H as <- _. apply nr_error_frame in E.
    eapply (J_idle st); [| | |exact HJ]; [apply frame_cf in E; exact E
                                          |apply E|reflexivity].
Qed.

Lemma on_read_rx_J st k q first dl sd src h objs v items st' o :
  J cfg st -> s_run st = RRead k q first dl sd -> on_read_rx cfg st k q first dl sd src h objs v items = (st', o) -> J cfg st'.
Proof.
  intros HJ Hr. unfold on_read_rx.
  destruct (h_unsol h); [apply handle_unsol_J; exact HJ|].
  destruct (negb (src =? c_addr cfg)); [intros H; injection H as <- _; exact HJ|].
  destruct (negb (c_seq (h_ctrl h) =? q)); [intros H; injection H as <- _; exact HJ|].
  destruct (_ && negb first); [apply fail_running_J; exact HJ|].
  destruct (negb _ && first); [apply fail_running_J; exact HJ|].
  destruct (negb _ && negb _); [apply fail_running_J; exact HJ|].
  destruct (iin2_bad _); [apply fail_running_J; exact HJ|].
  destruct (negb (s_assoc st)); [apply fail_running_J; exact HJ|].
  destruct (process_iin_cf st (h_iin1 h)) as (F1 & F2 & F3).
  assert (HJ1 : J cfg (process_iin st (h_iin1 h))) by (eapply J_transfer; eauto).
  destruct v; try (apply fail_running_J; exact HJ1).
  destruct (c_fin _).
  - destruct k as [t|]; intros H; injection H as <- _;
      (eapply (J_idle (process_iin st (h_iin1 h))); [| | |exact HJ1]; [repeat split; cbn; congruence|reflexivity|reflexivity]).
  - intros H; injection H as <- _. destruct HJ1 as (Hok & Hq1 & Hq2). apply J_of_parts; [|exact Hq1|exact Hq2].
    unfold run_ok in *. rewrite F3, Hr in Hok. destruct Hok as (Hc & _). cbn [s_run set_run set_seq s_conn s_now].
    destruct F1 as (Fn & _). rewrite Fn in *. repeat split; try assumption; lia.
Qed.

Lemma on_rx_J st src frag v items st' o : J cfg st -> on_rx cfg st src frag v items = (st', o) -> J cfg st'.
Proof.
  intros HJ. unfold on_rx. destruct (negb (s_conn st)); [intros H; injection H as <- _; exact HJ|].
  destruct (parse_response frag) as [|h objs].
  - destruct (s_run st); try (apply fail_running_J; exact HJ). intros H; injection H as <- _; exact HJ.
  - destruct (s_run st) as [|k q dl sd|k q first dl sd|tk dl] eqn:Hr.
    + destruct (h_unsol h); [apply handle_unsol_J; exact HJ|intros H; injection H as <- _; exact HJ].
    + apply on_nonread_rx_J; assumption.
    + apply on_read_rx_J; assumption.
    + destruct (if h_unsol h then _ else _) as [st1 o1] eqn:E1. destruct (fail_running cfg st1 EBadHeaders) as [st2 o2] eqn:E2.
      intros H. injection H as <- _. eapply fail_running_J; [|exact E2].
      destruct (h_unsol h); [eapply handle_unsol_J; eauto|injection E1 as <- _; exact HJ].
Qed.

Lemma stop_run_J st why st' o : J cfg st -> stop_run cfg st why = (st', o) -> J cfg st' /\ s_conn st' = false.
Proof.
  intros HJ. unfold stop_run. destruct (fail_running _ _ _) as [st1 o1] eqn:E1.
  pose proof (fail_running_J _ _ _ _ HJ E1) as (Hok1 & Hq1 & Hq2). pose proof (fail_running_idle _ _ _ _ _ E1) as [Hidle _].
  destruct (s_assoc st1) eqn:Ha.
  - unfold reset_assoc. intros H. injection H as <- _. split; [|reflexivity].
    apply J_of_parts; [unfold run_ok; cbn [s_run set_chan set_last_unsol set_autos set_queue]; rewrite Hidle; exact I| |]; reflexivity.
  - intros H. injection H as <- _. split; [|reflexivity]. specialize (Hq2 eq_refl).
    apply J_of_parts; [unfold run_ok; cbn [s_run set_chan]; rewrite Hidle; exact I| |]; intros _; exact Hq2.
Qed.

Lemma J_not_conn_idle st : J cfg st -> s_conn st = false -> s_run st = RNone.
Proof.
  intros (Hok & _) Hc. unfold run_ok in Hok. destruct (s_run st); try reflexivity; destruct Hok as (Hc' & _); congruence.
Qed.

Lemma on_event_J st ev st' o : J cfg st -> on_event cfg st ev = (st', o) -> J cfg st'.
Proof.
  intros HJ. destruct ev as [src frag v items|ms|t u| | | | | |]; cbn [on_event]; intros H.
  - destruct (on_rx _ _ _ _ _ _) as [st1 o1] eqn:E. injection H as <- _. eapply on_rx_J; eauto.
  - injection H as <- _; exact HJ.
  - unfold on_user in H. destruct (s_assoc st) eqn:Ha; cbn [negb] in H; [|injection H as <- _; exact HJ].
    destruct (s_conn st) eqn:Hc; cbn [negb] in H; [|injection H as <- _; exact HJ].
    destruct (_ <? _)%nat; injection H as <- _; [|exact HJ].
    destruct HJ as (Hok & _ & _). apply J_of_parts; [exact Hok| |]; cbn [s_conn s_assoc set_queue]; congruence.
  - destruct (s_conn st) eqn:Hc.
    + assert (HJ0 : J cfg (set_chan st true false (s_linkup st) (s_stopped st))).
      { eapply J_transfer; [| | |exact HJ]; [repeat split; cbn; congruence|reflexivity|reflexivity]. }
      exact (proj1 (stop_run_J _ _ _ _ HJ0 H)).
    + injection H as <- _. eapply J_transfer; [| | |exact HJ]; [repeat split; cbn; congruence|reflexivity|reflexivity].
  - destruct (s_conn st) eqn:Hc.
    + injection H as <- _. eapply J_transfer; [| | |exact HJ]; [repeat split; cbn; congruence|reflexivity|reflexivity].
    + unfold try_connect in H. destruct (_ && _); injection H as <- _.
      * pose proof (J_not_conn_idle _ HJ Hc) as Hr. destruct HJ as (_ & Hq1 & Hq2).
        apply J_of_parts; [unfold run_ok; cbn [s_run set_chan]; rewrite Hr; exact I|discriminate|exact Hq2].
      * eapply J_transfer; [| | |exact HJ]; [repeat split; cbn; congruence|reflexivity|reflexivity].
  - destruct (s_conn st) eqn:Hc.
    + exact (proj1 (stop_run_J _ _ _ _ HJ H)).
    + injection H as <- _. eapply J_transfer; [| | |exact HJ]; [repeat split; cbn; congruence|reflexivity|reflexivity].
  - unfold try_connect in H. destruct (_ && _) eqn:Hcond; injection H as <- _.
    + cbn [s_conn set_chan] in Hcond. destruct (s_conn st) eqn:Hc; [discriminate|].
      pose proof (J_not_conn_idle _ HJ Hc) as Hr. destruct HJ as (_ & Hq1 & Hq2).
      apply J_of_parts; [unfold run_ok; cbn [s_run set_chan]; rewrite Hr; exact I|discriminate|exact Hq2].
    + eapply J_transfer; [| | |exact HJ]; [repeat split; cbn; congruence|reflexivity|reflexivity].
  - injection H as <- _. destruct HJ as (Hok & _ & _). apply J_of_parts; [exact Hok| |]; reflexivity.
  - destruct (s_conn st) eqn:Hc.
    + destruct (stop_run cfg st StShutdown) as [st1 o1] eqn:E. injection H as <- _.
      destruct (stop_run_J _ _ _ _ HJ E) as [HJ1 Hc1]. eapply J_transfer; [| | |exact HJ1]; [repeat split; cbn; congruence|reflexivity|reflexivity].
    + injection H as <- _. eapply J_transfer; [| | |exact HJ]; [repeat split; cbn; congruence|reflexivity|reflexivity].
Qed.

Lemma start_nonread_cf st k objs st' o : start_nonread cfg st k objs = (st', o) -> cf st st'.
Proof.
  unfold start_nonread. destruct (send_nonread _ _ _ _ _) as [st1 o1] eqn:E. intros H. injection H as <- _.
  eapply send_nonread_cf; eauto.
Qed.
Lemma start_user_cf st t u st' o : start_user cfg st t u = (st', o) -> cf st st'.
Proof.
  unfold start_user. destruct u; intros H; try (eapply start_nonread_cf; eassumption).
  - eapply start_read_cf; eauto.
  - injection H as <- _. repeat split.
Qed.
Lemma pump_cf fuel : forall st st' o, pump fuel cfg st = (st', o) -> cf st st'.
Proof.
  induction fuel as [|f IH]; intros st st' o H; cbn [pump] in H; [injection H as <- _; apply cf_refl|].
  destruct (negb (s_conn st)); [injection H as <- _; apply cf_refl|].
  destruct (s_run st); try (injection H as <- _; apply cf_refl).
  destruct (next_task cfg st) as [|t|t u|a|]; try (injection H as <- _; apply cf_refl).
  - destruct (start_user _ _ _ _) as [st1 o1] eqn:E1. destruct (pump f cfg st1) as [st2 o2] eqn:E2.
    injection H as <- _. eapply cf_trans; [|eapply IH; eauto]. apply start_user_cf in E1. exact E1.
  - destruct (start_nonread _ _ _ _) as [st1 o1] eqn:E1. destruct (pump f cfg st1) as [st2 o2] eqn:E2.
    injection H as <- _. eapply cf_trans; [eapply start_nonread_cf; eauto|eapply IH; eauto].
  - destruct (start_read _ _ _ _) as [st1 o1] eqn:E1. destruct (pump f cfg st1) as [st2 o2] eqn:E2.
    injection H as <- _. eapply cf_trans; [eapply start_read_cf; eauto|eapply IH; eauto].
Qed.

Lemma auto_next_notbefore a now task t : (forall x, task <> NxNotBefore x) -> auto_next a now task = Some (NxNotBefore t) -> now < t.
Proof.
  intros Ht. unfold auto_next. destruct a as [| |l nx]; try discriminate.
  - intros H. injection H as H. exfalso. eapply Ht; eauto.
  - destruct (nx <=? now) eqn:E; intros H; injection H as H; [exfalso; eapply Ht; eauto|].
    subst nx. apply N.leb_gt in E. exact E.
Qed.

Lemma next_task_notbefore st t : next_task cfg st = NxNotBefore t -> s_now st < t.
Proof.
  unfold next_task. destruct (negb (s_assoc st)); [discriminate|].
  destruct (s_queue st) as [|[t' u'] r]; [|discriminate].
  destruct (auto_next (s_clear st) _ _) as [n|] eqn:E0.
  { intros ->. eapply auto_next_notbefore; [|exact E0]. discriminate. }
  destruct (if c_disable cfg =? 0 then None else _) as [n|] eqn:E1.
  { intros ->. destruct (c_disable cfg =? 0); [discriminate|]. eapply auto_next_notbefore; [|exact E1]. discriminate. }
  destruct (if c_integrity cfg =? 0 then None else _) as [n|] eqn:E2.
  { intros ->. destruct (c_integrity cfg =? 0); [discriminate|]. eapply auto_next_notbefore; [|exact E2]. discriminate. }
  destruct (if c_enable cfg =? 0 then None else _) as [n|] eqn:E3; [|discriminate].
  intros ->. destruct (c_enable cfg =? 0); [discriminate|]. eapply auto_next_notbefore; [|exact E3]. discriminate.
Qed.

(* every armed deadline lies strictly in the future *)
Lemma wake_guard st d : J cfg st -> wake_time cfg st = Some d -> s_now st < d.
Proof.
  intros (Hok & _) Hw. unfold wake_time in Hw. destruct (s_conn st); [|discriminate]. unfold run_ok in Hok.
  destruct (s_run st) as [|k q dl sd|k q f dl sd|tk dl].
  - destruct (next_task cfg st) eqn:Hn; try discriminate. injection Hw as <-. apply next_task_notbefore. exact Hn.
  - injection Hw as <-. tauto.
  - injection Hw as <-. tauto.
  - injection Hw as <-. tauto.
Qed.

Lemma fire_J st d st' o :
  J cfg st -> s_now st <= d -> fire cfg (set_now st d) = (st', o) -> J cfg st' /\ s_now st' = d.
Proof.
  intros (Hok & Hq1 & Hq2) Hd. unfold fire. cbn [s_run set_now].
  destruct (s_run st) eqn:Hr.
  - intros H. split; [|apply pump_cf in H; destruct H as (Hn & _); exact Hn].
    eapply pump_J; [|exact H]. apply J_of_parts; [unfold run_ok; cbn [s_run set_now]; rewrite Hr; exact I|exact Hq1|exact Hq2].
  - destruct (fail_running cfg (set_now st d) ETimeout) as [st1 o1] eqn:E. intros H.
    assert (HJ1 : J cfg st1).
    { destruct (fail_running_idle _ _ _ _ _ E) as [Hi _]. destruct (fail_running_frame _ _ _ _ _ E) as (_ & Fc & _ & _ & _ & Fa & Fq & _).
      apply J_of_parts; [unfold run_ok; rewrite Hi; exact I|rewrite Fc, Fq; exact Hq1|rewrite Fa, Fq; exact Hq2]. }
    split; [eapply then_pump_J; eauto|]. unfold then_pump, run_pump in H. destruct (pump _ cfg st1) as [st2 o2] eqn:E2.
    injection H as <- _. apply pump_cf in E2. destruct E2 as (Hn & _). rewrite Hn.
    destruct (fail_running_frame _ _ _ _ _ E) as (Fn & _). exact Fn.
  - destruct (fail_running cfg (set_now st d) ETimeout) as [st1 o1] eqn:E. intros H.
    assert (HJ1 : J cfg st1).
    { destruct (fail_running_idle _ _ _ _ _ E) as [Hi _]. destruct (fail_running_frame _ _ _ _ _ E) as (_ & Fc & _ & _ & _ & Fa & Fq & _).
      apply J_of_parts; [unfold run_ok; rewrite Hi; exact I|rewrite Fc, Fq; exact Hq1|rewrite Fa, Fq; exact Hq2]. }
    split; [eapply then_pump_J; eauto|]. unfold then_pump, run_pump in H. destruct (pump _ cfg st1) as [st2 o2] eqn:E2.
    injection H as <- _. apply pump_cf in E2. destruct E2 as (Hn & _). rewrite Hn.
    destruct (fail_running_frame _ _ _ _ _ E) as (Fn & _). exact Fn.
  - destruct (fail_running cfg (set_now st d) ETimeout) as [st1 o1] eqn:E. intros H.
    assert (HJ1 : J cfg st1).
    { destruct (fail_running_idle _ _ _ _ _ E) as [Hi _]. destruct (fail_running_frame _ _ _ _ _ E) as (_ & Fc & _ & _ & _ & Fa & Fq & _).
      apply J_of_parts; [unfold run_ok; rewrite Hi; exact I|rewrite Fc, Fq; exact Hq1|rewrite Fa, Fq; exact Hq2]. }
    split; [eapply then_pump_J; eauto|]. unfold then_pump, run_pump in H. destruct (pump _ cfg st1) as [st2 o2] eqn:E2.
    injection H as <- _. apply pump_cf in E2. destruct E2 as (Hn & _). rewrite Hn.
    destruct (fail_running_frame _ _ _ _ _ E) as (Fn & _). exact Fn.
Qed.

Lemma set_now_J st t : J cfg st -> s_now st <= t -> (forall d, wake_time cfg st = Some d -> t < d) -> J cfg (set_now st t).
Proof.
  intros (Hok & Hq1 & Hq2) Ht Hw. apply J_of_parts; [|exact Hq1|exact Hq2].
  unfold run_ok in *. cbn [s_run set_now s_conn s_now]. unfold wake_time in Hw.
  destruct (s_run st) as [|k q dl sd|k q f dl sd|tk dl]; [exact I| | |];
    destruct Hok as (Hc & Hrest); rewrite Hc in Hw; specialize (Hw _ eq_refl); repeat split; try tauto; lia.
Qed.

(* with enough fuel the clock reaches the target and every deadline on the way has fired *)
Lemma advance_J fuel : forall st target st' o,
  J cfg st -> (N.to_nat (target - s_now st) < fuel)%nat -> advance fuel cfg st target = (st', o) ->
  J cfg st' /\ s_now st' = N.max (s_now st) target.
Proof.
  induction fuel as [|f IH]; intros st target st' o HJ Hf H; [lia|]. cbn [advance] in H.
  destruct (wake_time cfg st) as [d|] eqn:Hw.
  - pose proof (wake_guard _ _ HJ Hw) as Hg.
    destruct (d <=? target) eqn:Hle.
    + apply N.leb_le in Hle. replace (N.max (s_now st) d) with d in H by lia.
      destruct (fire cfg (set_now st d)) as [st1 o1] eqn:E1. destruct (advance f cfg st1 target) as [st2 o2] eqn:E2.
      injection H as <- _. destruct (fire_J st d st1 o1 HJ (N.lt_le_incl _ _ Hg) E1) as [HJ1 Hn1].
      assert (Hf1 : (N.to_nat (target - s_now st1) < f)%nat) by (rewrite Hn1; lia).
      destruct (IH st1 target st2 o2 HJ1 Hf1 E2) as [HJ2 Hn2]. split; [exact HJ2|]. rewrite Hn2, Hn1. lia.
    + apply N.leb_gt in Hle. injection H as <- _. split; [|reflexivity].
      apply set_now_J; [exact HJ|lia|]. intros d' Hd'. rewrite Hw in Hd'. injection Hd' as <-. lia.
  - injection H as <- _. split; [|reflexivity]. apply set_now_J; [exact HJ|lia|]. intros d' Hd'. rewrite Hw in Hd'. discriminate.
Qed.

Lemma mstep_J st ev : J cfg st -> J cfg (fst (mstep cfg st ev)).
Proof.
  intros HJ. unfold mstep. destruct (s_stopped st); [exact HJ|].
  destruct (on_event cfg st ev) as [st0 o0] eqn:E0. destruct (then_pump cfg (st0, o0)) as [st1 o1] eqn:E1.
  destruct (advance _ cfg st1 _) as [st2 o2] eqn:E2. cbn [fst].
  eapply advance_J; [|
    |exact E2]; [eapply then_pump_J; [|exact E1]; eapply on_event_J; eauto|].
  replace (s_now st1 + span_of ev - s_now st1) with (span_of ev) by lia. lia.
Qed.

Lemma minit_J : J cfg (fst (minit cfg)).
Proof.
  unfold minit. destruct (run_pump cfg _) as [st1 o1] eqn:E1. destruct (advance 2 cfg st1 1) as [st2 o2] eqn:E2. cbn [fst].
  assert (HJ1 : J cfg st1).
  { eapply pump_J; [|exact E1]. apply J_of_parts; [exact I|discriminate|discriminate]. }
  eapply advance_J; [exact HJ1| |exact E2]. apply pump_cf in E1. destruct E1 as (Hn & _). rewrite Hn. cbn. lia.
Qed.

End Timing.

(* C16.5 bounded_steps.  In every state a run can reach (response timeout at least 1 ms): a task is
   waited for only while connected, the deadline of the outstanding task lies strictly in the
   future, and it is at most [nr_steps] response timeouts after the task was started - one for a
   single request/response, two for select-before-operate - and, for a READ and a link status
   check, at most one response timeout after the present (after the last accepted fragment).
   Together with [timeout_is_error] (when the deadline passes the task fails at that instant)
   no request is outstanding for longer than its protocol steps allow. *)
Theorem bounded_steps : forall cfg evs k,
  1 <= c_timeout cfg -> J cfg (state_at cfg evs k).
Proof.
  intros cfg evs k Ht. unfold state_at, final.
  generalize (firstn k evs). intros l. pose proof (minit_J cfg Ht) as H0. revert H0.
  generalize (fst (minit cfg)). induction l as [|ev l IH]; intros st HJ; cbn [final_from]; [exact HJ|].
  apply IH. apply mstep_J; assumption.
Qed.

(* after shutdown (and whenever there is no connection) nothing is owed any more *)
Lemma J_pending cfg st : J cfg st -> s_conn st = false -> pending st = [].
Proof.
  intros HJ Hc. unfold pending. rewrite (J_not_conn_idle cfg st HJ Hc). destruct HJ as (_ & Hq & _). rewrite (Hq Hc). reflexivity.
Qed.

Lemma then_pump_cf cfg st1 o1 st' o : then_pump cfg (st1, o1) = (st', o) -> cf st1 st'.
Proof. unfold then_pump, run_pump. destruct (pump _ cfg st1) as [st2 o2] eqn:E. intros H. injection H as <- _. eapply pump_cf; eauto. Qed.

Lemma fire_conn cfg st st' o : fire cfg st = (st', o) -> s_conn st' = s_conn st.
Proof.
  unfold fire. destruct (s_run st); try (intros H; apply pump_cf in H; apply H);
    destruct (fail_running cfg st ETimeout) as [st1 o1] eqn:E; intros H; apply then_pump_cf in H; destruct H as (_ & H & _);
    rewrite H; apply fail_running_frame in E; apply E.
Qed.

Lemma advance_conn fuel cfg : forall st target st' o, advance fuel cfg st target = (st', o) -> s_conn st' = s_conn st.
Proof.
  induction fuel as [|f IH]; intros st target st' o H; cbn [advance] in H; [injection H as <- _; reflexivity|].
  destruct (wake_time cfg st) as [d|]; [|injection H as <- _; reflexivity].
  destruct (d <=? target); [|injection H as <- _; reflexivity].
  destruct (fire _ _) as [st1 o1] eqn:E1. destruct (advance f cfg st1 target) as [st2 o2] eqn:E2.
  injection H as <- _. rewrite (IH _ _ _ _ E2). apply fire_conn in E1. exact E1.
Qed.

Lemma send_nonread_sp cfg st k objs sd st' o : send_nonread cfg st k objs sd = (st', o) -> s_stopped st' = s_stopped st.
Proof.
  unfold send_nonread. destruct (fits cfg objs); intros H; [injection H as <- _; reflexivity|].
  destruct (nr_error _ _ _ _) as [st2 o2] eqn:E. injection H as <- _. apply nr_error_frame in E. apply E.
Qed.
Lemma start_user_sp cfg st t u st' o : start_user cfg st t u = (st', o) -> s_stopped st' = s_stopped st.
Proof.
  unfold start_user, start_nonread, start_read. destruct u; intros H;
    try (destruct (send_nonread _ _ _ _ _) as [st1 o1] eqn:E; injection H as <- _; eapply send_nonread_sp; eassumption).
  - destruct (fits cfg objs); [injection H as <- _; reflexivity|].
    destruct (rd_error _ _ _ _) as [st2 o2] eqn:E. injection H as <- _. apply rd_error_frame in E. apply E.
  - injection H as <- _; reflexivity.
Qed.
Lemma pump_sp fuel cfg : forall st st' o, pump fuel cfg st = (st', o) -> s_stopped st' = s_stopped st.
Proof.
  induction fuel as [|f IH]; intros st st' o H; cbn [pump] in H; [injection H as <- _; reflexivity|].
  destruct (negb (s_conn st)); [injection H as <- _; reflexivity|].
  destruct (s_run st); try (injection H as <- _; reflexivity).
  destruct (next_task cfg st) as [|t|t u|a|]; try (injection H as <- _; reflexivity).
  - destruct (start_user _ _ _ _) as [st1 o1] eqn:E1. destruct (pump f cfg st1) as [st2 o2] eqn:E2.
    injection H as <- _. rewrite (IH _ _ _ E2). apply start_user_sp in E1. exact E1.
  - unfold start_nonread in H. destruct (send_nonread _ _ _ _ _) as [st1 o1] eqn:E1. destruct (pump f cfg st1) as [st2 o2] eqn:E2.
    injection H as <- _. rewrite (IH _ _ _ E2). eapply send_nonread_sp; eauto.
  - unfold start_read in H. destruct (fits cfg _).
    + destruct (pump f cfg _) as [st2 o2] eqn:E2. injection H as <- _. rewrite (IH _ _ _ E2). reflexivity.
    + destruct (rd_error _ _ _ _) as [st1 o1] eqn:E1. destruct (pump f cfg _) as [st2 o2] eqn:E2. injection H as <- _.
      rewrite (IH _ _ _ E2). apply rd_error_frame in E1. apply E1.
Qed.
Lemma fire_sp cfg st st' o : fire cfg st = (st', o) -> s_stopped st' = s_stopped st.
Proof.
  unfold fire, then_pump, run_pump. destruct (s_run st); try apply pump_sp;
    destruct (fail_running cfg st ETimeout) as [st1 o1] eqn:E; destruct (pump _ cfg st1) as [st2 o2] eqn:E2; intros H;
    injection H as <- _; rewrite (pump_sp _ _ _ _ _ E2); apply fail_running_frame in E; apply E.
Qed.
Lemma advance_sp fuel cfg : forall st target st' o, advance fuel cfg st target = (st', o) -> s_stopped st' = s_stopped st.
Proof.
  induction fuel as [|f IH]; intros st target st' o H; cbn [advance] in H; [injection H as <- _; reflexivity|].
  destruct (wake_time cfg st) as [d|]; [|injection H as <- _; reflexivity].
  destruct (d <=? target); [|injection H as <- _; reflexivity].
  destruct (fire _ _) as [st1 o1] eqn:E1. destruct (advance f cfg st1 target) as [st2 o2] eqn:E2.
  injection H as <- _. rewrite (IH _ _ _ _ E2). apply fire_sp in E1. exact E1.
Qed.

(* a master that has been shut down is not connected *)
Definition stopped_ok (st : mstate) : Prop := s_stopped st = true -> s_conn st = false.

Lemma on_event_stopped cfg st ev st' o :
  s_stopped st = false -> on_event cfg st ev = (st', o) -> s_stopped st' = true -> s_conn st' = false.
Proof.
  intros Hs. destruct ev as [src frag v items|ms|t u| | | | | |]; cbn [on_event]; intros H Hs'.
  9:{ destruct (if s_conn st then _ else _) as [st1 o1]. injection H as <- _. reflexivity. }
  all: exfalso.
  - destruct (on_rx _ _ _ _ _ _) as [st1 o1] eqn:E. injection H as <- _.
    assert (s_stopped st1 = s_stopped st); [|congruence]. clear Hs Hs'.
    unfold on_rx in E. destruct (negb (s_conn st)); [injection E as <- _; reflexivity|].
    assert (Hu : forall sa oa, handle_unsol cfg st src match parse_response frag with PResponse h _ => h | _ => mk_rhdr 0 false 0 0 end
                  match parse_response frag with PResponse _ ob => ob | _ => [] end v items = (sa, oa) -> s_stopped sa = s_stopped st).
    { intros sa oa. unfold handle_unsol. destruct (_ && s_assoc st); [|intros H; injection H as <- _; reflexivity].
      assert (Hp : forall i, s_stopped (process_iin st i) = s_stopped st).
      { intros i. unfold process_iin. destruct (iin1_restart i); [destruct (s_clear st)|]; reflexivity. }
      destruct (_ || _); [|intros H; injection H as <- _; apply Hp].
      destruct v; try (intros H; injection H as <- _; apply Hp).
      destruct (match s_last_unsol _ with Some _ => _ | None => _ end); intros H; injection H as <- _; apply Hp. }
    assert (Hp : forall i, s_stopped (process_iin st i) = s_stopped st).
    { intros i. unfold process_iin. destruct (iin1_restart i); [destruct (s_clear st)|]; reflexivity. }
    destruct (parse_response frag) as [|h objs].
    + destruct (s_run st); try (apply fail_running_frame in E; apply E). injection E as <- _; reflexivity.
    + destruct (s_run st) as [|k q dl sd|k q f dl sd|tk dl].
      * destruct (h_unsol h); [eapply Hu; eauto|injection E as <- _; reflexivity].
      * unfold on_nonread_rx in E. destruct (h_unsol h); [eapply Hu; eauto|].
        destruct (negb (src =? c_addr cfg)); [injection E as <- _; reflexivity|].
        destruct (negb (_ =? q)); [injection E as <- _; reflexivity|].
        destruct (negb (_ && _)); [apply fail_running_frame in E; apply E|].
        destruct (iin2_bad _); [apply fail_running_frame in E; apply E|].
        destruct (s_assoc st).
        -- destruct (handle_nonread_response _ _ _ _ _ _ _ _) as [sa oa] eqn:Ea. injection E as <- _.
           rewrite <- (Hp (h_iin1 h)). unfold handle_nonread_response, nr_success, nr_failed in Ea.
           destruct k as [t ph hs|t|t fc|t cold|a].
           ++ destruct v; try (injection Ea as <- _; reflexivity). destruct (compare hs objs); [|injection Ea as <- _; reflexivity].
              destruct ph; try (injection Ea as <- _; reflexivity). eapply send_nonread_sp; eauto.
           ++ destruct objs; injection Ea as <- _; reflexivity.
           ++ destruct objs; injection Ea as <- _; reflexivity.
           ++ destruct v; try (injection Ea as <- _; reflexivity). destruct (restart_delay objs); injection Ea as <- _; reflexivity.
           ++ injection Ea as <- _. cbn [s_stopped set_run]. apply auto_response_frame.
        -- destruct (nr_error _ _ _ _) as [sa oa] eqn:Ea. injection E as <- _. apply nr_error_frame in Ea. apply Ea.
      * unfold on_read_rx in E. destruct (h_unsol h); [eapply Hu; eauto|].
        destruct (negb (src =? c_addr cfg)); [injection E as <- _; reflexivity|].
        destruct (negb (_ =? q)); [injection E as <- _; reflexivity|].
        destruct (_ && negb f); [apply fail_running_frame in E; apply E|].
        destruct (negb _ && f); [apply fail_running_frame in E; apply E|].
        destruct (negb _ && negb _); [apply fail_running_frame in E; apply E|].
        destruct (iin2_bad _); [apply fail_running_frame in E; apply E|].
        destruct (negb (s_assoc st)); [apply fail_running_frame in E; apply E|].
        destruct v; try (apply fail_running_frame in E; destruct E as (_ & _ & _ & _ & E & _); rewrite E; apply Hp).
        destruct (c_fin _); [destruct k; injection E as <- _; apply Hp|injection E as <- _; apply Hp].
      * destruct (if h_unsol h then _ else _) as [sa oa] eqn:Ea. destruct (fail_running cfg sa EBadHeaders) as [sb ob] eqn:Eb.
        injection E as <- _. apply fail_running_frame in Eb. destruct Eb as (_ & _ & _ & _ & Eb & _). rewrite Eb.
        destruct (h_unsol h); [eapply Hu; eauto|injection Ea as <- _; reflexivity].
  - injection H as <- _. congruence.
  - unfold on_user in H. destruct (negb (s_assoc st)); [injection H as <- _; congruence|].
    destruct (negb (s_conn st)); [injection H as <- _; congruence|].
    destruct (_ <? _)%nat; injection H as <- _; cbn [s_stopped set_queue] in Hs'; congruence.
  - assert (Hst : forall sa sb ob, s_stopped sa = false -> stop_run cfg sa StDisable = (sb, ob) -> s_stopped sb = false).
    { intros sa sb ob Ha Hb. unfold stop_run in Hb. destruct (fail_running _ _ _) as [s1 o1] eqn:E1.
      apply fail_running_frame in E1. destruct E1 as (_ & _ & _ & _ & E1 & _).
      destruct (s_assoc s1); [unfold reset_assoc in Hb|]; injection Hb as <- _; cbn; congruence. }
    destruct (s_conn st); [|injection H as <- _; cbn in Hs'; congruence].
    apply Hst in H; [congruence|exact Hs].
  - destruct (s_conn st); [injection H as <- _; cbn in Hs'; congruence|].
    unfold try_connect in H. destruct (_ && _); injection H as <- _; cbn in Hs'; congruence.
  - destruct (s_conn st); [|injection H as <- _; cbn in Hs'; congruence].
    unfold stop_run in H. destruct (fail_running _ _ _) as [s1 o1] eqn:E1.
    apply fail_running_frame in E1. destruct E1 as (_ & _ & _ & _ & E1 & _).
    destruct (s_assoc s1); [unfold reset_assoc in H|]; injection H as <- _; cbn in Hs'; congruence.
  - unfold try_connect in H. destruct (_ && _); injection H as <- _; cbn in Hs'; congruence.
  - injection H as <- _. cbn in Hs'. congruence.
Qed.

Lemma mstep_stopped_ok cfg st ev : stopped_ok st -> stopped_ok (fst (mstep cfg st ev)).
Proof.
  unfold stopped_ok. intros H0. unfold mstep. destruct (s_stopped st) eqn:Hs; [cbn [fst]; intros _; apply H0; reflexivity|].
  destruct (on_event cfg st ev) as [sa oa] eqn:Ea. destruct (then_pump cfg (sa, oa)) as [sb ob] eqn:Eb.
  destruct (advance _ cfg sb _) as [sc oc] eqn:Ec. cbn [fst]. intros Hsc.
  rewrite (advance_conn _ _ _ _ _ _ Ec). pose proof (then_pump_cf _ _ _ _ _ Eb) as (_ & Hcb & _). rewrite Hcb.
  eapply on_event_stopped; [exact Hs|exact Ea|].
  rewrite (advance_sp _ _ _ _ _ _ Ec) in Hsc. unfold then_pump, run_pump in Eb. destruct (pump _ cfg sa) as [sd od] eqn:Ed.
  injection Eb as <- _. rewrite (pump_sp _ _ _ _ _ Ed) in Hsc. exact Hsc.
Qed.

Lemma final_stopped_ok cfg evs : stopped_ok (final cfg evs).
Proof.
  unfold final.
  assert (H0 : stopped_ok (fst (minit cfg))).
  { unfold minit. destruct (run_pump cfg _) as [st1 o1] eqn:E1. destruct (advance 2 cfg st1 1) as [st2 o2] eqn:E2. cbn [fst].
    unfold stopped_ok. rewrite (advance_sp _ _ _ _ _ _ E2). unfold run_pump in E1. rewrite (pump_sp _ _ _ _ _ E1). discriminate. }
  revert H0. generalize (fst (minit cfg)). induction evs as [|ev l IH]; intros st H; cbn [final_from]; [exact H|].
  apply IH. apply mstep_stopped_ok. exact H.
Qed.

(* ... in particular after a shutdown: every request ever submitted has got its outcome *)
Theorem shutdown_completes_everything : forall cfg evs,
  1 <= c_timeout cfg -> pending (final cfg (evs ++ [EShutdown])) = [].
Proof.
  intros cfg evs Ht.
  pose proof (bounded_steps cfg (evs ++ [EShutdown]) (length (evs ++ [EShutdown])) Ht) as HJ.
  unfold state_at in HJ. rewrite firstn_all in HJ.
  apply (J_pending cfg); [exact HJ|].
  unfold final. rewrite final_from_app. cbn [final_from]. fold (final cfg evs).
  pose proof (final_stopped_ok cfg evs) as Hso. set (st := final cfg evs) in *.
  unfold mstep. destruct (s_stopped st) eqn:Hs; [cbn [fst]; apply Hso; exact Hs|].
  destruct (on_event cfg st EShutdown) as [sa oa] eqn:Ea. destruct (then_pump cfg (sa, oa)) as [sb ob] eqn:Eb.
  destruct (advance _ cfg sb _) as [sc oc] eqn:Ec. cbn [fst].
  rewrite (advance_conn _ _ _ _ _ _ Ec). pose proof (then_pump_cf _ _ _ _ _ Eb) as (_ & Hcb & _). rewrite Hcb.
  cbn [on_event] in Ea. destruct (if s_conn st then _ else _) as [s1 o1]. injection Ea as <- _. reflexivity.
Qed.

(* ---------------------------------------------------------------------------------------- *)
(* the last-unsolicited record holds only fragments that were ACCEPTED *)

(* ignored_fragment_not_recorded: a receive step that does not accept an unsolicited fragment -
   the fragment is solicited, has an unparsable header, is gated by the start-up sequence, comes
   from another address, has malformed objects - leaves the record exactly as it was *)
Theorem ignored_fragment_not_recorded : forall cfg evs k src frag v items,
  nth_error evs k = Some (ERx src frag v items) ->
  unsol_new cfg (state_at cfg evs k) src frag v = None ->
  s_last_unsol (state_at cfg evs (S k)) = s_last_unsol (state_at cfg evs k).
Proof.
  intros cfg evs k src frag v items Hev Hnone.
  rewrite (state_at_S _ _ _ _ Hev), mstep_lu.
  - rewrite Hnone. destruct (s_stopped _); reflexivity.
  - unfold ends_session. apply Bool.andb_false_r.
Qed.

Lemma unsol_new_spec cfg st src frag v x :
  unsol_new cfg st src frag v = Some x ->
  exists h objs, parse_response frag = PResponse h objs /\ h_unsol h = true /\ s_conn st = true /\
                 unsol_accepts cfg st src h objs v = true /\ x = (hdr_bytes h, objs).
Proof.
  unfold unsol_new. destruct (s_conn st); [|discriminate]. destruct (parse_response frag) as [|h objs]; [discriminate|].
  destruct (h_unsol h) eqn:Hu; cbn [andb]; [|discriminate]. destruct (unsol_accepts cfg st src h objs v) eqn:Ha; [|discriminate].
  intros H. injection H as <-. exists h, objs. repeat split; assumption.
Qed.

Lemma stop_run_lu cfg st why st' o :
  stop_run cfg st why = (st', o) -> s_last_unsol st' = None \/ s_last_unsol st' = s_last_unsol st.
Proof.
  unfold stop_run. destruct (fail_running _ _ _) as [st1 o1] eqn:E1. apply fail_running_lu in E1.
  destruct (s_assoc st1); [unfold reset_assoc|]; intros H; injection H as <- _; [left; reflexivity|right; exact E1].
Qed.

(* whatever a step does, the record afterwards is empty, unchanged, or the unsolicited fragment
   this very step accepted *)
Lemma mstep_lu_cases cfg st ev x :
  s_last_unsol (fst (mstep cfg st ev)) = Some x ->
  s_last_unsol st = Some x \/
  exists src frag v items, ev = ERx src frag v items /\ s_stopped st = false /\ unsol_new cfg st src frag v = Some x.
Proof.
  destruct (ends_session st ev) eqn:He.
  - (* the session ends: cleared or unchanged *)
    unfold ends_session in He. apply Bool.andb_true_iff in He. destruct He as [Hc Hev].
    unfold mstep. destruct (s_stopped st) eqn:Hs; [cbn [fst]; auto|].
    destruct (on_event cfg st ev) as [sa oa] eqn:Ea. destruct (then_pump cfg (sa, oa)) as [sb ob] eqn:Eb.
    destruct (advance _ cfg sb _) as [sc oc] eqn:Ec. cbn [fst].
    rewrite (advance_lu _ _ _ _ _ _ Ec), (then_pump_lu _ _ _ _ _ Eb). intros Hx. left.
    destruct ev; try discriminate; cbn [on_event] in Ea; rewrite Hc in Ea.
    + destruct (stop_run_lu _ _ _ _ _ Ea) as [Hn|Hn]; [congruence|]. rewrite Hn in Hx. exact Hx.
    + destruct (stop_run_lu _ _ _ _ _ Ea) as [Hn|Hn]; [congruence|]. rewrite Hn in Hx. exact Hx.
    + destruct (stop_run cfg st StShutdown) as [s1 o1] eqn:E1. injection Ea as <- _. cbn [s_last_unsol set_chan] in Hx.
      destruct (stop_run_lu _ _ _ _ _ E1) as [Hn|Hn]; [congruence|]. rewrite Hn in Hx. exact Hx.
  - rewrite mstep_lu by exact He. destruct ev as [src frag v items|ms|t u| | | | | |]; auto.
    destruct (s_stopped st) eqn:Hs; [auto|].
    destruct (unsol_new cfg st src frag v) as [y|] eqn:Hn; [|auto].
    intros H. injection H as <-. right. exists src, frag, v, items. auto.
Qed.

(* along a run: whatever the record holds was accepted, as an unsolicited fragment with exactly
   that header and those objects, at an earlier step *)
Theorem recorded_was_accepted : forall cfg evs k x,
  (k <= length evs)%nat -> s_last_unsol (state_at cfg evs k) = Some x ->
  exists j src frag v items h objs,
    (j < k)%nat /\ nth_error evs j = Some (ERx src frag v items) /\
    parse_response frag = PResponse h objs /\ h_unsol h = true /\
    unsol_accepts cfg (state_at cfg evs j) src h objs v = true /\ x = (hdr_bytes h, objs).
Proof.
  intros cfg evs k x. induction k as [|k IH]; intros Hk Hx.
  - exfalso. unfold state_at, final in Hx. cbn [firstn final_from] in Hx.
    unfold minit in Hx. destruct (run_pump cfg _) as [st1 o1] eqn:E1. destruct (advance 2 cfg st1 1) as [st2 o2] eqn:E2.
    cbn [fst] in Hx. rewrite (advance_lu _ _ _ _ _ _ E2) in Hx. unfold run_pump in E1. rewrite (pump_lu _ _ _ _ _ E1) in Hx.
    discriminate.
  - destruct (nth_error evs k) as [ev|] eqn:Hev; [|apply nth_error_None in Hev; lia].
    rewrite (state_at_S _ _ _ _ Hev) in Hx.
    destruct (mstep_lu_cases _ _ _ _ Hx) as [Hold|(src & frag & v & items & -> & Hs & Hn)].
    + destruct (IH ltac:(lia) Hold) as (j & src & frag & v & items & h & objs & Hj & Hrest).
      exists j, src, frag, v, items, h, objs. split; [lia|exact Hrest].
    + destruct (unsol_new_spec _ _ _ _ _ _ Hn) as (h & objs & Hp & Hu & _ & Ha & ->).
      exists k, src, frag, v, items, h, objs. repeat split; auto.
Qed.

(* a fragment is reported as a repeat only if the SAME fragment (header and objects) was accepted
   at an earlier step - never because a fragment that was ignored looked the same *)
Theorem duplicate_only_of_accepted : forall cfg evs k o q,
  nth_error (run cfg evs) (S k) = Some o -> In (OInfoUnsol true q) (map snd o) ->
  exists src frag v items h objs,
    nth_error evs k = Some (ERx src frag v items) /\ parse_response frag = PResponse h objs /\ h_unsol h = true /\
    exists j src' frag' v' items',
      (j < k)%nat /\ nth_error evs j = Some (ERx src' frag' v' items') /\
      parse_response frag' = PResponse h objs /\
      unsol_accepts cfg (state_at cfg evs j) src' h objs v' = true.
Proof.
  intros cfg evs k o q Hn Hin.
  destruct (run_nth _ _ _ _ Hn) as (ev & Hev & ->). fold (state_at cfg evs k) in *. set (st := state_at cfg evs k) in *.
  destruct (s_stopped st) eqn:Hs.
  { apply stopped_no_obs in Hin; [|exact Hs]. destruct Hin; discriminate. }
  apply in_act in Hin; [|reflexivity]. rewrite act_mstep in Hin by assumption.
  destruct ev as [src frag v items|ms|tok t| | | | | |]; try contradiction.
  unfold rx_act in Hin. destruct (s_conn st); cbn [negb] in Hin; [|contradiction].
  destruct (parse_response frag) as [|h objs] eqn:Hp; [contradiction|].
  destruct (h_unsol h) eqn:Hu.
  2:{ exfalso. destruct (accepted_answer cfg st src h); [|contradiction].
      destruct (s_run st); try contradiction.
      - unfold sol_confirm, nr_act in Hin. brk_in Hin.
      - unfold rd_act, sol_confirm in Hin. brk_in Hin. }
  exists src, frag, v, items, h, objs. repeat split; try assumption.
  unfold unsol_act, unsol_confirm in Hin. destruct (unsol_accepts cfg st src h objs v); [|contradiction].
  destruct (unsol_dup st h objs) eqn:Hd; [|brk_in Hin].
  apply unsol_dup_spec in Hd.
  destruct (recorded_was_accepted cfg evs k _ (nth_error_le _ _ _ Hev) Hd)
    as (j & src' & frag' & v' & items' & h' & objs' & Hj & Hevj & Hp' & Hu' & Ha' & Heq).
  assert (Hh : hdr_bytes h' = hdr_bytes h /\ objs' = objs) by (split; congruence).
  destruct Hh as [Hh Ho]. subst objs'.
  assert (h' = h).
  { destruct h as [c u i1 i2], h' as [c' u' i1' i2']. unfold hdr_bytes in Hh. cbn [h_ctrl h_unsol h_iin1 h_iin2] in *.
    subst u u'. congruence. }
  subst h'. exists j, src', frag', v', items'. repeat split; assumption.
Qed.
