(* Master/MSFullProofs.v — the received fragment of the scheduling model, computed from the octets
   (Master/MSFull.v): it is rejected exactly when the task model's header parser (= the application-layer
   header parser + to_response, Master/MFullProofs.v) rejects it, its `ok` flag is the Grammar verdict, and
   without a well-formed object section it carries neither values nor a delay. *)
From Dnp3V Require Import Base.Bytes App.Grammar gen.Conversions App.Convert.
From Dnp3V Require Import Master.MParse Master.Command Master.MTask Master.MFull Master.MFullProofs.
From Dnp3V Require Import Master.Backoff Master.Assoc Master.Sched Master.MSFull.
Import ListNotations.
Open Scope N_scope.

Lemma ms_rx_of_bad frag : ms_rx_of frag = MsRxBad <-> MP.parse_response frag = MP.PError.
Proof.
  unfold ms_rx_of. destruct (MP.parse_response frag) as [|h objs]; split; intros H; try reflexivity; discriminate.
Qed.

Lemma ms_rx_of_resp frag h objs :
  MP.parse_response frag = MP.PResponse h objs ->
  exists f, ms_rx_of frag = MsRxResp f /\
    ms_r_objs f = objs /\ ms_r_seq f = MP.c_seq (MP.h_ctrl h) /\ ms_r_uns f = MP.h_unsol h /\
    ms_r_iin1 f = MP.h_iin1 h /\ ms_r_iin2 f = MP.h_iin2 h /\
    (ms_r_ok f = true <-> MF.mverdict frag = MT.VOk) /\
    (ms_r_ok f = false -> ms_r_nvalues f = 0 /\ ms_r_delay f = None).
Proof.
  intros Hp. unfold ms_rx_of. rewrite Hp. eexists. split; [reflexivity|].
  cbn [ms_r_objs ms_r_seq ms_r_uns ms_r_iin1 ms_r_iin2 ms_r_ok ms_r_nvalues ms_r_delay].
  split; [reflexivity|]. split; [reflexivity|]. split.
  { (* the UNS bit of an accepted response is the function code *)
    unfold MP.parse_response in Hp. destruct frag as [|c [|fn [|i1 [|i2 r]]]]; try discriminate.
    destruct (fn =? 129).
    - destruct (MP.c_uns c) eqn:Eu; [discriminate|]. injection Hp as <- _. exact Eu.
    - destruct (fn =? 130); [|discriminate].
      destruct (MP.c_uns c) eqn:Eu; cbn [andb] in Hp; [|discriminate].
      destruct (MP.c_fir c && MP.c_fin c); [|discriminate]. injection Hp as <- _. exact Eu. }
  split; [reflexivity|]. split; [reflexivity|].
  pose proof (fragment_headers_ok frag) as Hk.
  destruct (MF.fragment_headers frag) as [hs|].
  - split; [split; intros _; [apply Hk; eauto|reflexivity]|discriminate].
  - split; [split; [discriminate|]|intros _; split; reflexivity].
    intros Hv. apply Hk in Hv. destruct Hv as [hs Hv]. discriminate.
Qed.

(* a lone g52v2 with a 16-bit count carries a delay too (master/tasks/time.rs: details.count()) *)
Example ms_rx_of_delay16 :
  match ms_rx_of [192; 129; 0; 0; 52; 2; 8; 1; 0; 44; 1] with
  | MsRxResp f => ms_r_ok f = true /\ ms_r_delay f = Some 300%Z /\ ms_r_nvalues f = 0
  | MsRxBad => False
  end.
Proof. vm_compute. repeat split. Qed.

(* frozen analog inputs and octet strings reach callbacks the handler of harness/msched.rs does not override *)
Example ms_rx_of_counts :
  match ms_rx_of [192; 129; 0; 0; 1; 1; 0; 0; 9; 255; 3; 31; 5; 0; 7; 7; 1; 0; 0; 0; 110; 2; 0; 1; 1; 65; 66] with
  | MsRxResp f => ms_r_ok f = true /\ ms_r_nvalues f = 10
  | MsRxBad => False
  end.
Proof. vm_compute. repeat split. Qed.
