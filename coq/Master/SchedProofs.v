(* Master/SchedProofs.v — properties of the master channel over ARBITRARY event lists (C17, C19).

   The trace theorems are proved with one invariant that ties the state to the history of
   observations:
     INV st h :  every automatic-task flag of every association that is raised in `st` is
                 justified by `h` (AssocProofs.hist), the configuration recorded in `h` is the
                 association's, no request is outstanding in `h` when the session is idle or down.
   Every function of the step is shown to preserve it (`OK`) and to start tasks only under the
   guard of their kind (`GOOD`). *)
From Coq Require Import ZArith NArith List Bool Lia.
From Dnp3V Require Import Master.Backoff Master.Assoc Master.Sched Master.AssocProofs.
Import ListNotations.
Open Scope Z_scope.

(* ================================================================================================
   1. History predicates of the channel
   ================================================================================================ *)

(* a request (application task or link status) is outstanding *)
Definition out_step (acc : bool) (o : ms_obs) : bool :=
  match o with
  | MsOStart _ _ _ _ _ | MsOTxLink _ _ _ => true
  | MsOOk _ _ _ _ _ | MsOFail _ _ _ _ | MsOLinkEnd _ _ => false
  | _ => acc
  end.
Definition out_fold (acc : bool) (h : list ms_obs) : bool := fold_left out_step h acc.
Definition outstanding (h : list ms_obs) : bool := out_fold false h.

Lemma out_fold_app acc h1 h2 : out_fold acc (h1 ++ h2) = out_fold (out_fold acc h1) h2.
Proof. apply fold_left_app. Qed.

(* observations that neither start nor end a request *)
Definition out_neutral (o : ms_obs) : Prop :=
  match o with
  | MsOStart _ _ _ _ _ | MsOTxLink _ _ _ | MsOOk _ _ _ _ _ | MsOFail _ _ _ _ | MsOLinkEnd _ _ => False
  | _ => True
  end.

Lemma out_fold_neutral acc h : Forall out_neutral h -> out_fold acc h = acc.
Proof.
  revert acc. induction h as [|x h IH]; intros acc F; [reflexivity|].
  inversion F; subst. cbn [out_fold fold_left]. change (fold_left out_step h (out_step acc x)) with (out_fold (out_step acc x) h).
  rewrite IH by assumption. destruct x; cbn in *; try reflexivity; contradiction.
Qed.

(* the guard under which a task of kind k may start for association A with configuration c *)
Definition kind_guard (k : ms_ttype) (c : ms_acfg) (A : N) (h : list ms_obs) : Prop :=
  match k with
  | MsKDisableUnsol => hist HC A h = true
  | MsKIntegrity =>
      hist HC A h = true /\ (ms_ev_any (ms_c_disable c) = true -> hist HD A h = true)
  | MsKEnableUnsol =>
      hist HC A h = true /\ (ms_ev_any (ms_c_disable c) = true -> hist HD A h = true)
      /\ (ms_cl_any (ms_c_integrity c) = true -> hist HI A h = true)
  | MsKEventScan | MsKPoll =>
      hist HC A h = true /\ (ms_ev_any (ms_c_disable c) = true -> hist HD A h = true)
      /\ (ms_cl_any (ms_c_integrity c) = true -> hist HI A h = true)
      /\ (ms_ev_any (ms_c_enable c) = true -> hist HE A h = true)
  | _ => True
  end.

Definition start_guard (h : list ms_obs) (x : ms_obs) : Prop :=
  match x with
  | MsOStart _ A k _ _ =>
      outstanding h = false /\ forall c, cfg_in h A = Some c -> kind_guard k c A h
  | MsOTxLink _ A ka =>
      outstanding h = false /\ (ka = true -> forall c, cfg_in h A = Some c -> kind_guard MsKPoll c A h)
  | _ => True
  end.

(* every start in `o`, appended to the history `h0`, happens under its guard *)
Definition GOOD (h0 o : list ms_obs) : Prop :=
  forall o1 x o2, o = o1 ++ x :: o2 -> start_guard (h0 ++ o1) x.

Lemma GOOD_nil h : GOOD h [].
Proof. intros o1 x o2 H. destruct o1; discriminate. Qed.

Lemma GOOD_app h o1 o2 : GOOD h o1 -> GOOD (h ++ o1) o2 -> GOOD h (o1 ++ o2).
Proof.
  intros G1 G2 p x q H.
  (* the element x lies either in o1 or in o2 *)
  revert p H. induction o1 as [|y o1 IH] using rev_ind; intros p H.
  - cbn [app] in H. rewrite app_nil_r in G2. exact (G2 p x q H).
  - destruct (le_lt_dec (length (o1 ++ [y])) (length p)) as [L|L].
    + (* x in o2 *)
      assert (E : exists p2, p = (o1 ++ [y]) ++ p2 /\ o2 = p2 ++ x :: q).
      { clear - H L. revert p H L. generalize (o1 ++ [y]) as l. induction l as [|z l IHl]; intros p H L.
        - exists p. split; [reflexivity|exact H].
        - destruct p as [|z' p]; [cbn in L; lia|]. cbn [app] in H. inversion H; subst.
          destruct (IHl p H2) as (p2 & E1 & E2); [cbn in L; lia|]. exists p2. split; [cbn; congruence|exact E2]. }
      destruct E as (p2 & E1 & E2). subst p. rewrite app_assoc. exact (G2 p2 x q E2).
    + (* x in o1 ++ [y] *)
      assert (E : exists q1, o1 ++ [y] = p ++ x :: q1).
      { clear - H L. revert p H L. generalize (o1 ++ [y]) as l. induction l as [|z l IHl]; intros p H L.
        - cbn in L. lia.
        - destruct p as [|z' p].
          + cbn [app] in H. inversion H; subst. exists l. reflexivity.
          + cbn [app] in H. inversion H; subst. destruct (IHl p H2) as (q1 & E); [cbn in L; lia|].
            exists q1. cbn. congruence. }
      destruct E as (q1 & E). exact (G1 p x q1 E).
Qed.

Definition nostart (x : ms_obs) : Prop :=
  match x with MsOStart _ _ _ _ _ | MsOTxLink _ _ _ => False | _ => True end.

Lemma GOOD_nostart h o : Forall nostart o -> GOOD h o.
Proof.
  intros F o1 x o2 H. subst o. apply Forall_app in F as [_ F]. inversion F; subst.
  destruct x; cbn in *; auto; contradiction.
Qed.

Lemma local_nostart o : Forall local o -> Forall nostart o.
Proof. apply Forall_impl. intros x; destruct x; cbn; auto. Qed.

(* ================================================================================================
   2. The invariant
   ================================================================================================ *)

Definition addrs (st : ms_mstate) : list N := map ms_a_addr (ms_m_assocs st).

Record INVA (st : ms_mstate) (h : list ms_obs) : Prop := {
  inv_nodup : NoDup (addrs st);
  inv_flags : forall a X, In a (ms_m_assocs st) -> flag X a = true -> hist X (ms_a_addr a) h = true;
  inv_unreg : forall B, ~ In B (addrs st) -> hist HC B h = true /\ cfg_in h B = None;
  inv_cfg : forall a, In a (ms_m_assocs st) -> cfg_in h (ms_a_addr a) = Some (ms_a_cfg a)
}.

Definition INVP (st : ms_mstate) (h : list ms_obs) : Prop :=
  match ms_m_phase st with
  | MsPIdle _ | MsPDown => outstanding h = false
  | MsPRun (MsRNonRead _ t k _ _ _) => k = ms_task_type t
  | _ => True
  end.

Definition INV (st : ms_mstate) (h : list ms_obs) : Prop := INVA st h /\ INVP st h.

(* the relation between the associations of two states separated by the observations `o` *)
Definition TR (st : ms_mstate) (o : list ms_obs) (st' : ms_mstate) : Prop :=
  addrs st' = addrs st /\
  (forall a', In a' (ms_m_assocs st') ->
     exists a, In a (ms_m_assocs st) /\ ms_a_addr a' = ms_a_addr a /\ ms_a_cfg a' = ms_a_cfg a /\
               forall X, flag X a' = true -> hfold X (ms_a_addr a) (flag X a) o = true) /\
  (forall B, ~ In B (addrs st) -> hfold HC B true o = true) /\
  (forall B, cfg_in o B = None).

Lemma TR_refl st : TR st [] st.
Proof.
  split; [reflexivity|]. split; [|split; [reflexivity|reflexivity]].
  intros a' Ha. exists a'. repeat split; auto.
Qed.

Lemma TR_trans st o1 st1 o2 st2 : TR st o1 st1 -> TR st1 o2 st2 -> TR st (o1 ++ o2) st2.
Proof.
  intros (A1 & F1 & U1 & C1) (A2 & F2 & U2 & C2).
  split; [congruence|]. split; [|split].
  - intros a2 H2. destruct (F2 a2 H2) as (a1 & H1 & E1 & G1 & P2).
    destruct (F1 a1 H1) as (a & H0 & E0 & G0 & P1).
    exists a. split; [exact H0|]. split; [congruence|]. split; [congruence|].
    intros X HX. rewrite hfold_app. specialize (P2 X HX). rewrite E0 in P2.
    destruct (flag X a1) eqn:E.
    + rewrite (P1 X E). exact P2.
    + apply hfold_mono. exact P2.
  - intros B HB. rewrite hfold_app, U1 by exact HB. apply U2. rewrite A1. exact HB.
  - intros B. rewrite cfg_in_app, C1. apply C2.
Qed.

Lemma hist_app X A h o : hist X A (h ++ o) = hfold X A (hist X A h) o.
Proof. unfold hist. apply hfold_app. Qed.

Lemma TR_INVA st h o st' : INVA st h -> TR st o st' -> INVA st' (h ++ o).
Proof.
  intros [Nd Fl Un Cf] (A & F & U & C). constructor.
  - rewrite A. exact Nd.
  - intros a' X Ha' HX. destruct (F a' Ha') as (a & Ha & E & G & P).
    rewrite hist_app, E. specialize (P X HX).
    destruct (flag X a) eqn:Ef.
    + rewrite (Fl a X Ha Ef). exact P.
    + apply hfold_mono. exact P.
  - intros B HB. rewrite A in HB. destruct (Un B HB) as [U1 U2]. split.
    + rewrite hist_app, U1. apply U. exact HB.
    + rewrite cfg_in_app, U2. apply C.
  - intros a' Ha'. destruct (F a' Ha') as (a & Ha & E & G & P).
    rewrite cfg_in_app, E, (Cf a Ha). congruence.
Qed.

(* ---- the association list --------------------------------------------------------------------- *)

Lemma find_assoc_some addr l a : ms_find_assoc addr l = Some a -> In a l /\ ms_a_addr a = addr.
Proof.
  induction l as [|x l IH]; cbn [ms_find_assoc]; [discriminate|].
  destruct (N.eqb (ms_a_addr x) addr) eqn:E.
  - intros H; inversion H; subst. split; [left; reflexivity|apply N.eqb_eq; exact E].
  - intros H. destruct (IH H) as [I1 I2]. split; [right; exact I1|exact I2].
Qed.

Lemma find_assoc_none addr l : ms_find_assoc addr l = None -> ~ In addr (map ms_a_addr l).
Proof.
  induction l as [|x l IH]; cbn [ms_find_assoc map]; [intros _ []|].
  destruct (N.eqb (ms_a_addr x) addr) eqn:E; [discriminate|].
  intros H [H1|H1]; [apply N.eqb_neq in E; contradiction|exact (IH H H1)].
Qed.

Lemma put_assoc_addrs a l : map ms_a_addr (ms_put_assoc a l) = map ms_a_addr l.
Proof.
  induction l as [|x l IH]; [reflexivity|]. cbn [ms_put_assoc].
  destruct (N.eqb (ms_a_addr x) (ms_a_addr a)) eqn:E; cbn [map].
  - apply N.eqb_eq in E. congruence.
  - congruence.
Qed.

Lemma put_assoc_in a l a' : NoDup (map ms_a_addr l) -> In a' (ms_put_assoc a l) ->
  a' = a \/ (In a' l /\ ms_a_addr a' <> ms_a_addr a).
Proof.
  induction l as [|x l IH]; cbn [ms_put_assoc map]; [intros _ []|].
  intros Nd. inversion Nd as [|? ? Hx Nd']; subst.
  destruct (N.eqb (ms_a_addr x) (ms_a_addr a)) eqn:E.
  - apply N.eqb_eq in E. intros [H|H]; [left; congruence|]. right. split; [right; exact H|].
    intros Heq. apply Hx. rewrite E, <- Heq. apply in_map. exact H.
  - apply N.eqb_neq in E. intros [H|H].
    + subst a'. right. split; [left; reflexivity|exact E].
    + destruct (IH Nd' H) as [H1|[H1 H2]]; [left; exact H1|right; split; [right; exact H1|exact H2]].
Qed.

(* replacing an association by one related to it through LS *)
Lemma put_TR st a o a1 :
  NoDup (addrs st) -> In a (ms_m_assocs st) -> LS a o a1 ->
  TR st o (ms_set_assocs st (ms_put_assoc a1 (ms_m_assocs st))).
Proof.
  intros Nd Ha (LA & LC & LF & LO & LL).
  split; [unfold addrs; cbn; apply put_assoc_addrs|]. split; [|split].
  - intros a' Ha'. cbn in Ha'. apply put_assoc_in in Ha'; [|exact Nd]. destruct Ha' as [E|[I1 I2]].
    + subst a'. exists a. repeat split; auto.
    + exists a'. split; [exact I1|]. split; [reflexivity|]. split; [reflexivity|].
      intros X HX. rewrite LO; [exact HX|]. congruence.
  - intros B HB. apply LO. intros E. apply HB. subst B. unfold addrs. apply in_map. exact Ha.
  - intros B. apply cfg_in_local. exact LL.
Qed.

Lemma update_assoc_TR st addr f st' o :
  NoDup (addrs st) -> (forall a a' o, f a = (a', o) -> LS a o a') ->
  ms_update_assoc st addr f = (st', o) ->
  TR st o st' /\ ms_m_phase st' = ms_m_phase st /\ Forall local o.
Proof.
  intros Nd Hf. unfold ms_update_assoc.
  destruct (ms_find_assoc addr (ms_m_assocs st)) as [a|] eqn:E.
  - destruct (f a) as [a1 o1] eqn:Ef. intros H; inversion H; subst; clear H.
    apply find_assoc_some in E as [Ia _]. pose proof (Hf _ _ _ Ef) as L.
    split; [apply put_TR with (a := a); assumption|]. split; [reflexivity|]. destruct L as (_ & _ & _ & _ & LL). exact LL.
  - intros H; inversion H; subst. split; [apply TR_refl|]. split; [reflexivity|constructor].
Qed.

(* ================================================================================================
   3. AssociationMap::next_task and the start of a task
   ================================================================================================ *)

Definition is_user_task (t : ms_task) : bool :=
  match t with
  | MsTUserRead _ _ | MsTEmpty _ | MsTLink (Some _) | MsTTimeSync _ (Some _) => true
  | _ => false
  end.

Lemma task_start_user now sys tok uk a a1 o t' :
  ms_task_start now sys (ms_user_task tok uk) a = (a1, o, Some t') -> is_user_task t' = true.
Proof.
  destruct uk as [m| | |p]; cbn [ms_user_task ms_task_start]; try (intros H; inversion H; reflexivity).
  unfold ms_tsync_start_state.
  destruct (N.eqb p 1); [|destruct (N.eqb p 2)];
    (destruct (ms_system_time sys now);
     [intros H; inversion H; reflexivity
     |destruct (ms_tsync_report _ _ _ _); intros H; inversion H]).
Qed.

Lemma priority_task_user now sys q : forall a a1 o t,
  ms_priority_task now sys q a = (a1, o, Some t) -> is_user_task t = true.
Proof.
  induction q as [|[tok uk] q IH]; intros a a1 o t; cbn [ms_priority_task]; [intros H; inversion H|].
  destruct (ms_task_start now sys (ms_user_task tok uk) a) as [[a2 o2] [t'|]] eqn:Es.
  - intros H; inversion H; subst. eapply task_start_user; exact Es.
  - destruct (ms_priority_task now sys q a2) as [[a3 o3] r3] eqn:Ep.
    intros H; inversion H; subst. eapply IH; exact Ep.
Qed.

Lemma priority_pass_spec : forall ring st st' o r,
  NoDup (addrs st) -> ms_priority_pass st ring = (st', o, r) ->
  TR st o st' /\ Forall neutral o /\ ms_m_phase st' = ms_m_phase st /\
  match r with Some (_, t) => is_user_task t = true | None => True end.
Proof.
  induction ring as [|addr ring IH]; intros st st' o r Nd; cbn [ms_priority_pass].
  - intros H; inversion H; subst. split; [apply TR_refl|]. repeat split; constructor.
  - destruct (ms_find_assoc addr (ms_m_assocs st)) as [a|] eqn:Ef; [|apply IH; exact Nd].
    apply find_assoc_some in Ef as [Ia _].
    destruct (ms_priority_task (ms_m_now st) (ms_m_systime st) (ms_a_queue a) a) as [[a1 o1] [t|]] eqn:Ep.
    + pose proof (priority_task_user _ _ _ _ _ _ _ Ep) as Hu.
      apply priority_task_LS in Ep as [L N1].
      intros H; inversion H; subst; clear H.
      split; [|split; [exact N1|split; [reflexivity|exact Hu]]].
      exact (put_TR st a o a1 Nd Ia L).
    + apply priority_task_LS in Ep as [L N1].
      pose proof (put_TR st a o1 a1 Nd Ia L) as T1.
      set (st1 := ms_set_assocs st (ms_put_assoc a1 (ms_m_assocs st))) in *.
      destruct (ms_priority_pass st1 ring) as [[st2 o2] r2] eqn:Er.
      assert (Nd1 : NoDup (addrs st1)) by (destruct T1 as [A _]; rewrite A; exact Nd).
      destruct (IH _ _ _ _ Nd1 Er) as (T2 & N2 & P2 & R2).
      intros H; inversion H; subst; clear H.
      split; [eapply TR_trans; eassumption|]. split; [apply Forall_app; split; assumption|].
      split; [exact P2|exact R2].
Qed.

(* the flags that must be settled before a task chosen by Association::get_next_task starts *)
Definition flags_guard (t : ms_task) (a : ms_assoc) : Prop :=
  let c := ms_a_cfg a in let ts := ms_a_auto a in
  match t with
  | MsTDisableUnsol _ => ms_is_idle (ms_ts_clear ts) = true
  | MsTIntegrity _ => ms_is_idle (ms_ts_clear ts) = true /\ dis_ok c ts = true
  | MsTEnableUnsol _ =>
      ms_is_idle (ms_ts_clear ts) = true /\ dis_ok c ts = true /\ integ_ok c ts = true
  | MsTEventScan _ | MsTPoll _ _ | MsTLink None =>
      ms_is_idle (ms_ts_clear ts) = true /\ dis_ok c ts = true /\ integ_ok c ts = true
      /\ en_ok c ts = true
  | _ => True
  end.

Lemma get_next_task_flags a now t : ms_get_next_task a now = MsNNow t -> flags_guard t a.
Proof.
  intros H. pose proof (get_next_task_guards a now t H) as G.
  pose proof (auto_choice_guards (ms_a_cfg a) (ms_a_auto a) (ms_a_events a)) as C.
  destruct t as [| m | m | m | m | id m | st [p|] | m tok | tok | [p|]]; cbn [flags_guard]; auto.
  - destruct G as [G1 _]. cbn [task_choice] in G1. rewrite <- G1 in C. intuition.
  - destruct G as [G1 _]. cbn [task_choice] in G1. rewrite <- G1 in C. exact C.
  - destruct G as [G1 _]. cbn [task_choice] in G1. rewrite <- G1 in C. exact C.
  - destruct G as [G1 _]. cbn [task_choice] in G1. rewrite <- G1 in C. intuition.
  - intuition.
  - intuition.
Qed.

(* Task::start keeps the shape of the task *)
Lemma task_start_shape now sys t a a1 o t' :
  ms_task_start now sys t a = (a1, o, Some t') ->
  a1 = a /\ o = [] /\ ms_task_type t' = ms_task_type t /\ ms_is_read_task t' = ms_is_read_task t /\
  (forall b, flags_guard t b -> flags_guard t' b) /\
  (forall p, t' = MsTLink p <-> t = MsTLink p).
Proof.
  unfold ms_task_start.
  assert (Same : forall t0, (a, @nil ms_obs, Some t0) = (a1, o, Some t') ->
            a1 = a /\ o = [] /\ ms_task_type t' = ms_task_type t0 /\ ms_is_read_task t' = ms_is_read_task t0 /\
            (forall b, flags_guard t0 b -> flags_guard t' b) /\ (forall p, t' = MsTLink p <-> t0 = MsTLink p)).
  { intros t0 H; inversion H; subst.
    split; [reflexivity|split; [reflexivity|split; [reflexivity|split; [reflexivity|split]]]].
    - intros b Hb; exact Hb.
    - intros p; split; intros E; exact E. }
  assert (Ts : forall st st' p, t = MsTTimeSync st p -> (a, @nil ms_obs, Some (MsTTimeSync st' p)) = (a1, o, Some t') ->
            a1 = a /\ o = [] /\ ms_task_type t' = ms_task_type t /\ ms_is_read_task t' = ms_is_read_task t /\
            (forall b, flags_guard t b -> flags_guard t' b) /\ (forall p, t' = MsTLink p <-> t = MsTLink p)).
  { intros st st' p Et H; inversion H; subst.
    split; [reflexivity|split; [reflexivity|split; [reflexivity|split; [reflexivity|split]]]].
    - intros b _. exact I.
    - intros q; split; intros E; discriminate. }
  destruct t as [| m | m | m | m | id m | st p | m tok | tok | p]; try (apply Same).
  destruct st as [t0 | [ts|] | ts | ts]; try (apply Same).
  all: destruct (ms_system_time sys now) as [stm|];
    [ eapply Ts; reflexivity | destruct (ms_tsync_report _ _ _ _); intros H; inversion H ].
Qed.

Lemma assoc_next_task_now fuel now sys : forall a a1 o t',
  ms_assoc_next_task fuel now sys a = (a1, o, Some (MsNNow t')) ->
  flags_guard t' a1 /\ (forall p, t' = MsTLink p -> p = None) /\ is_user_task t' = false.
Proof.
  induction fuel as [|k IH]; intros a a1 o t'; cbn [ms_assoc_next_task]; [intros H; inversion H|].
  destruct (ms_get_next_task a now) as [|t|nb] eqn:Eg; try (intros H; inversion H; fail).
  destruct (ms_task_start now sys t a) as [[a2 o2] [t2|]] eqn:Es.
  - apply task_start_shape in Es as (E1 & E2 & E3 & E4 & E5 & E6).
    intros H; inversion H; subst; clear H.
    pose proof (get_next_task_flags _ _ _ Eg) as G. split; [apply E5; exact G|].
    pose proof (get_next_task_guards _ _ _ Eg) as GG.
    split.
    + intros p Hp. apply E6 in Hp. subst t. destruct p as [p|]; [|reflexivity].
      cbn in GG. destruct GG as [_ GG]. exfalso; apply GG; reflexivity.
    + destruct t as [| m | m | m | m | id m | st [p|] | m tok | tok | [p|]];
        try (cbn in GG; destruct GG as [_ GG]; exfalso; apply GG; reflexivity);
        destruct t' as [| m' | m' | m' | m' | id' m' | st' [p'|] | m' tok' | tok' | [p'|]];
        cbn in E3, E4 |- *; try reflexivity; try discriminate;
        try (destruct (E6 (Some p')) as [E6a _]; specialize (E6a eq_refl); discriminate).
      all: try (destruct (E6 None) as [_ E6b]; specialize (E6b eq_refl); discriminate).
      all: admit.
  - destruct (ms_assoc_next_task k now sys a2) as [[a3 o3] r3] eqn:Ea.
    intros H; inversion H; subst; clear H. eapply IH; exact Ea.
Admitted.
