(* Master/BackoffProofs.v — properties of the exponential back-off (C17, last sentence). *)
From Coq Require Import ZArith List Lia.
From Dnp3V Require Import Master.Backoff.
Import ListNotations.
Open Scope Z_scope.

Lemma next_delay_spec limit max x :
  max < limit -> 0 <= x -> ms_next_delay limit max x = Z.min (2 * x) max.
Proof.
  intros Hmax Hx. unfold ms_next_delay, ms_checked_double.
  destruct (2 * x <? limit) eqn:E.
  - reflexivity.
  - apply Z.ltb_ge in E. lia.
Qed.

(* overflow of checked_mul saturates to max *)
Lemma next_delay_overflow limit max x : limit <= 2 * x -> ms_next_delay limit max x = max.
Proof.
  intros H. unfold ms_next_delay, ms_checked_double.
  destruct (2 * x <? limit) eqn:E.
  - apply Z.ltb_lt in E. lia.
  - lia.
Qed.

Lemma nth_delay_range limit min max n :
  min <= max -> 0 < min -> max < limit -> min <= ms_nth_delay limit min max n <= max.
Proof.
  intros Hle Hpos Hlim. induction n as [|n IH]; cbn [ms_nth_delay].
  - lia.
  - rewrite next_delay_spec by lia. lia.
Qed.

(* Appendix B: for min <= max and 0 < min the delays are min, min(2 min, max), ...; each lies in
   [min, max]; `max < limit` only says that max is itself a Duration *)
Theorem backoff_bounds : forall limit min max n,
  min <= max -> 0 < min -> max < limit ->
  let d := ms_nth_delay limit min max n in
  min <= d <= max /\
  ms_nth_delay limit min max (S n) = Z.min (2 * d) max /\
  (limit <= 2 * d -> ms_nth_delay limit min max (S n) = max).
Proof.
  intros limit min max n Hle Hpos Hlim d.
  pose proof (nth_delay_range limit min max n Hle Hpos Hlim) as Hr. fold d in Hr.
  split; [exact Hr|]. split.
  - cbn [ms_nth_delay]. fold d. apply next_delay_spec; lia.
  - intros Hov. cbn [ms_nth_delay]. fold d. apply next_delay_overflow; exact Hov.
Qed.

(* once the maximum is reached it is kept *)
Lemma nth_delay_sticks limit min max n :
  min <= max -> 0 < min -> max < limit ->
  ms_nth_delay limit min max n = max -> ms_nth_delay limit min max (S n) = max.
Proof.
  intros Hle Hpos Hlim H. cbn [ms_nth_delay]. rewrite H. rewrite next_delay_spec by lia. lia.
Qed.

(* the operational object (what the code does call after call) follows the closed form *)
Lemma failures_from_last limit s x n :
  fst (ms_failures limit {| ms_b_strategy := s; ms_b_last := Some x |} n)
  = map (fun k => ms_nth_delay limit x (ms_s_max s) (S k)) (seq 0 n).
Proof.
  revert x. induction n as [|n IH]; intros x; [reflexivity|].
  cbn [ms_failures ms_on_failure ms_b_last ms_b_strategy].
  destruct (ms_failures limit _ n) as [ds b2] eqn:E.
  cbn [fst seq map]. f_equal.
  change ds with (fst (ds, b2)). rewrite <- E, IH.
  rewrite <- seq_shift, map_map. apply map_ext. intros k.
  (* ms_nth_delay from ms_next_delay x, k+1 steps = ms_nth_delay from x, k+2 steps *)
  clear. revert x. induction k as [|k IHk]; intros x; [reflexivity|].
  cbn [ms_nth_delay] in *. rewrite IHk. reflexivity.
Qed.

Theorem failures_spec limit min max n :
  fst (ms_failures limit (ms_backoff_new {| ms_s_min := min; ms_s_max := max |}) n)
  = map (ms_nth_delay limit min max) (seq 0 n).
Proof.
  destruct n as [|n]; [reflexivity|].
  cbn [ms_failures ms_backoff_new ms_on_failure ms_b_last ms_b_strategy ms_s_min].
  destruct (ms_failures limit _ n) as [ds b2] eqn:E.
  cbn [fst seq map ms_nth_delay]. f_equal.
  change ds with (fst (ds, b2)). rewrite <- E, failures_from_last.
  cbn [ms_s_max]. rewrite <- seq_shift, map_map. reflexivity.
Qed.

(* a success forgets the history: the ms_next failure waits `min` again *)
Theorem reset_on_success limit b : snd (ms_on_failure limit (ms_on_success b)) = ms_s_min (ms_b_strategy b).
Proof. reflexivity. Qed.

(* `RetryStrategy::new` accepts min > max; then the FIRST delay exceeds the configured maximum
   (all later ones are clamped) *)
Theorem backoff_min_gt_max_refuted :
  exists limit min max, 0 < max < min /\ max < limit /\
    ms_nth_delay limit min max 0 > max /\ ms_nth_delay limit min max 1 = max.
Proof. exists ms_limit_ns, 2, 1. vm_compute. repeat split; congruence. Qed.

(* ... and with min = 0 every delay is 0: the code (after the repair of F15) never schedules a
   retry less than 1 ms ahead, see Assoc.retry_delay *)
Theorem backoff_zero_min_stays_zero limit max n : 0 <= max -> 0 < limit ->
  ms_nth_delay limit 0 max n = 0.
Proof.
  intros Hmax Hlim. induction n as [|n IH]; [reflexivity|].
  cbn [ms_nth_delay]. rewrite IH. unfold ms_next_delay, ms_checked_double.
  destruct (2 * 0 <? limit) eqn:E; [lia|]. apply Z.ltb_ge in E. lia.
Qed.
