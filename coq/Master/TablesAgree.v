(* Master/TablesAgree.v — the hand-written master models agree with the tables that
   tools/gen/gen_master_tables.py re-extracts from the Rust source on every run (coq/gen/MasterTables.v).

   Two kinds of statements:
   * "the model IS the table-driven dispatcher": for every input, the model's function equals an
     interpreter (defined here, a few lines each) run over the GENERATED table.  The interpreter fixes
     only the vocabulary: which model expression a Rust name stands for (`slot_of_name`, `cfg_any`,
     `mt_check`, ...).  Order, guards, constants and error names come from the table.
   * observations over enumerated cases, with the enumeration written in the statement: the order in
     which the model's `next` serves the automatic tasks is OBSERVED (run it on states where exactly
     the tasks of a set are pending and see which one wins) and compared with the generated order for
     every subset / every pair.
   A disagreement makes this file fail to compile: either the model or the code changed. *)
From Coq Require Import ZArith NArith List Bool Lia String.
From Dnp3V Require Import Base.Bytes Master.Backoff Master.Assoc Master.Sched Master.MParse Master.Command
  Master.MTask Master.TimeSync.
From Dnp3V Require Import gen.MasterTables.
Import ListNotations.

Module MTab.

Local Open Scope string_scope.
Local Open Scope list_scope.
Local Open Scope N_scope.

(* ---------------------------------------------------------------------------------------------- *)
(* vocabulary                                                                                      *)

Fixpoint assoc_str {A} (k : string) (l : list (string * A)) : option A :=
  match l with
  | [] => None
  | (k', v) :: r => if String.eqb k k' then Some v else assoc_str k r
  end.

Fixpoint index_str (k : string) (l : list string) : option nat :=
  match l with
  | [] => None
  | k' :: r => if String.eqb k k' then Some O else option_map S (index_str k r)
  end.

Definition str_in (k : string) (l : list string) : bool := existsb (String.eqb k) l.

(* the six automatic task states of struct TaskStates *)
Inductive slot := SDisable | SIntegrity | SEnable | SClear | STime | SEvscan.
Definition all_slots : list slot := [SDisable; SIntegrity; SEnable; SClear; STime; SEvscan].

Definition slot_name (s : slot) : string :=
  match s with
  | SDisable => "disable_unsolicited" | SIntegrity => "integrity_scan" | SEnable => "enabled_unsolicited"
  | SClear => "clear_restart_iin" | STime => "time_sync" | SEvscan => "event_scan"
  end.

Definition slot_of_name (n : string) : option slot :=
  if String.eqb n "disable_unsolicited" then Some SDisable
  else if String.eqb n "integrity_scan" then Some SIntegrity
  else if String.eqb n "enabled_unsolicited" then Some SEnable
  else if String.eqb n "clear_restart_iin" then Some SClear
  else if String.eqb n "time_sync" then Some STime
  else if String.eqb n "event_scan" then Some SEvscan
  else None.

Definition slot_eqb (a b : slot) : bool :=
  match a, b with
  | SDisable, SDisable | SIntegrity, SIntegrity | SEnable, SEnable | SClear, SClear | STime, STime
  | SEvscan, SEvscan => true
  | _, _ => false
  end.

Definition slot_get (s : slot) (ts : ms_task_states) : ms_auto_state :=
  match s with
  | SDisable => ms_ts_disable ts | SIntegrity => ms_ts_integrity ts | SEnable => ms_ts_enable ts
  | SClear => ms_ts_clear ts | STime => ms_ts_time ts | SEvscan => ms_ts_evscan ts
  end.

Definition slot_set (s : slot) (ts : ms_task_states) (v : ms_auto_state) : ms_task_states :=
  match s with
  | SDisable => ms_with_disable ts v | SIntegrity => ms_with_integrity ts v | SEnable => ms_with_enable ts v
  | SClear => ms_with_clear ts v | STime => ms_with_time ts v | SEvscan => ms_with_evscan ts v
  end.

(* the fields of the model's record are the fields of struct TaskStates, in the same order *)
Theorem slots_are_the_fields : map slot_name all_slots = gm_task_states_fields.
Proof. reflexivity. Qed.

Theorem slot_names_roundtrip : forallb (fun s => match slot_of_name (slot_name s) with
                                                 | Some s' => slot_eqb s s' | None => false end) all_slots = true.
Proof. reflexivity. Qed.

(* fields of AssociationConfig as the association model stores them *)
Definition cfg_any (n : string) (c : ms_acfg) : option bool :=
  if String.eqb n "disable_unsol_classes" then Some (ms_ev_any (ms_c_disable c))
  else if String.eqb n "startup_integrity_classes" then Some (ms_cl_any (ms_c_integrity c))
  else if String.eqb n "enable_unsol_classes" then Some (ms_ev_any (ms_c_enable c))
  else None.

Definition cfg_some (n : string) (c : ms_acfg) : option bool :=
  if String.eqb n "auto_time_sync" then Some (negb (N.eqb (ms_c_tsync c) 0)) else None.

Definition cfg_mask (n : string) (c : ms_acfg) : option N :=
  if String.eqb n "event_scan_on_events_available" then Some (ms_c_evscan c) else None.

Definition cfg_flag (n : string) (c : ms_acfg) : option bool :=
  if String.eqb n "auto_integrity_scan_on_buffer_overflow" then Some (ms_c_ovf c) else None.

(* every field of struct AssociationConfig has a place in the model's configuration record *)
Definition cfg_field_modelled (n : string) : bool :=
  str_in n ["response_timeout"; "disable_unsol_classes"; "enable_unsol_classes"; "startup_integrity_classes";
            "auto_time_sync"; "auto_tasks_retry_strategy"; "keep_alive_timeout";
            "auto_integrity_scan_on_buffer_overflow"; "event_scan_on_events_available";
            "max_queued_user_requests"].

Theorem config_fields_modelled :
  forallb cfg_field_modelled gm_config_fields = true /\ length gm_config_fields = 10%nat.
Proof. split; reflexivity. Qed.

(* ---------------------------------------------------------------------------------------------- *)
(* (a) TaskStates::next                                                                            *)

(* the task a row of gm_auto_order builds, in the association model *)
Definition auto_task (built : string) (c : ms_acfg) (events : N) : option ms_task :=
  if String.eqb built "AutoTask::ClearRestartBit" then Some MsTClearRestart
  else if String.eqb built "AutoTask::DisableUnsolicited" then Some (MsTDisableUnsol (ms_ev_mask (ms_c_disable c)))
  else if String.eqb built "ReadTask::StartupIntegrity" then Some (MsTIntegrity (N.land (ms_c_integrity c) 15))
  else if String.eqb built "TimeSyncTask::get_procedure"
       then Some (MsTTimeSync (ms_tsync_start_state (ms_c_tsync c)) None)
  else if String.eqb built "AutoTask::EnableUnsolicited" then Some (MsTEnableUnsol (ms_ev_mask (ms_c_enable c)))
  else if String.eqb built "ReadTask::EventScan"
       then Some (MsTEventScan (N.land (N.land events (ms_c_evscan c)) 7))
  else None.

(* the guard of a row *)
Definition auto_guard (g : gm_cond) (st : ms_auto_state) (c : ms_acfg) (events : N) : option bool :=
  match g with
  | GmPending => Some (ms_is_pending st)
  | GmCfgAnyAndPending f => option_map (fun b => b && ms_is_pending st) (cfg_any f c)
  | GmPendingAndCfgSome f => option_map (fun b => ms_is_pending st && b) (cfg_some f c)
  | GmEventsAndCfg f => option_map (fun m => ms_ev_any (N.land (N.land events m) 7)) (cfg_mask f c)
  end.

(* the interpreter: rows in order, the first whose guard holds returns create_next_task of its state *)
Fixpoint auto_dispatch (tbl : list (string * gm_cond * string)) (c : ms_acfg) (ts : ms_task_states)
  (events : N) (now : ms_time) : option (ms_next ms_task) :=
  match tbl with
  | [] => Some MsNNone
  | (sn, g, built) :: rest =>
      match slot_of_name sn with
      | None => None
      | Some s =>
          match auto_guard g (slot_get s ts) c events, auto_task built c events, auto_dispatch rest c ts events now with
          | Some b, Some t, Some r => Some (if b then ms_create_next (slot_get s ts) now t else r)
          | _, _, _ => None
          end
      end
  end.

(* the model's TaskStates::next is the interpreter run over the generated table: same order, same
   guards, same tasks *)
Theorem auto_next_is_table : forall c ts events now,
  auto_dispatch gm_auto_order c ts events now = Some (ms_auto_next c ts events now).
Proof. intros c ts events now. reflexivity. Qed.

(* ---- the same, observed -------------------------------------------------------------------------- *)

Definition ts_of (p : list slot) : ms_task_states :=
  let st s := if existsb (slot_eqb s) p then MsAPending else MsAIdle in
  {| ms_ts_disable := st SDisable; ms_ts_integrity := st SIntegrity; ms_ts_enable := st SEnable;
     ms_ts_clear := st SClear; ms_ts_time := st STime; ms_ts_evscan := st SEvscan |}.

Definition task_slot (t : ms_task) : option slot :=
  match t with
  | MsTClearRestart => Some SClear | MsTEnableUnsol _ => Some SEnable | MsTDisableUnsol _ => Some SDisable
  | MsTIntegrity _ => Some SIntegrity | MsTEventScan _ => Some SEvscan | MsTTimeSync _ None => Some STime
  | _ => None
  end.

(* which automatic task the MODEL serves when exactly the tasks in p are pending *)
Definition winner (c : ms_acfg) (events : N) (p : list slot) : option slot :=
  match ms_auto_next c (ts_of p) events 0%Z with MsNNow t => task_slot t | _ => None end.

(* every automatic task enabled: all classes, LAN time synchronisation, event scan of all classes *)
Definition cfg_all : ms_acfg :=
  {| ms_c_disable := 7; ms_c_integrity := 15; ms_c_enable := 7; ms_c_tsync := 1; ms_c_ovf := true;
     ms_c_evscan := 7; ms_c_rmin := 1000; ms_c_rmax := 10000; ms_c_keepalive := None; ms_c_rto := 5000;
     ms_c_maxq := 16 |}.

(* serve the winner, remove it, repeat: the order of the model *)
Fixpoint observe_order (fuel : nat) (p : list slot) : list slot :=
  match fuel with
  | O => []
  | S k => match winner cfg_all 7 p with
           | Some w => w :: observe_order k (filter (fun s => negb (slot_eqb s w)) p)
           | None => []
           end
  end.

Definition generated_auto_order : list string := map (fun r => fst (fst r)) gm_auto_order.

Theorem auto_order_observed : map slot_name (observe_order 6 all_slots) = generated_auto_order.
Proof. vm_compute. reflexivity. Qed.

(* all pairs: with exactly i and j pending the model serves the one the source considers first *)
Definition earlier (i j : slot) : bool :=
  match index_str (slot_name i) generated_auto_order, index_str (slot_name j) generated_auto_order with
  | Some a, Some b => Nat.ltb a b
  | _, _ => false
  end.

Definition opt_slot_eqb (a b : option slot) : bool :=
  match a, b with Some x, Some y => slot_eqb x y | None, None => true | _, _ => false end.

Theorem auto_order_all_pairs :
  forallb (fun i => forallb (fun j =>
     slot_eqb i j || opt_slot_eqb (winner cfg_all 7 [i; j]) (Some (if earlier i j then i else j)))
     [SDisable; SIntegrity; SEnable; SClear; STime; SEvscan])
     [SDisable; SIntegrity; SEnable; SClear; STime; SEvscan] = true.
Proof. vm_compute. reflexivity. Qed.

(* all subsets of pending tasks x every combination of the five configuration guards x three IIN
   class-event patterns: the model serves the first row of the generated table whose guard holds *)
Fixpoint subsets {A} (l : list A) : list (list A) :=
  match l with [] => [[]] | x :: r => let s := subsets r in s ++ map (cons x) s end.

Definition cfg_of (d i e t v : N) : ms_acfg :=
  {| ms_c_disable := d; ms_c_integrity := i; ms_c_enable := e; ms_c_tsync := t; ms_c_ovf := false;
     ms_c_evscan := v; ms_c_rmin := 1000; ms_c_rmax := 10000; ms_c_keepalive := None; ms_c_rto := 5000;
     ms_c_maxq := 16 |}.

(* an independent reading of the table: rows in order; a row fires when its configuration guard is on
   and its task is pending (the event-scan row returns whatever its state gives once its guard is on) *)
Definition gate_on (g : gm_cond) (c : ms_acfg) (events : N) : bool :=
  match g with
  | GmPending => true
  | GmCfgAnyAndPending f => match cfg_any f c with Some b => b | None => false end
  | GmPendingAndCfgSome f => match cfg_some f c with Some b => b | None => false end
  | GmEventsAndCfg f => match cfg_mask f c with Some m => negb (N.eqb (N.land (N.land events m) 7) 0) | None => false end
  end.

Fixpoint table_winner (tbl : list (string * gm_cond * string)) (c : ms_acfg) (events : N) (p : list slot)
  : option slot :=
  match tbl with
  | [] => None
  | (sn, g, _) :: rest =>
      match slot_of_name sn with
      | None => None
      | Some s =>
          let pending := existsb (slot_eqb s) p in
          match g with
          | GmEventsAndCfg _ => if gate_on g c events then (if pending then Some s else None)
                                else table_winner rest c events p
          | _ => if gate_on g c events && pending then Some s else table_winner rest c events p
          end
      end
  end.

Theorem auto_order_all_subsets :
  forallb (fun p => forallb (fun d => forallb (fun i => forallb (fun e => forallb (fun t => forallb (fun v =>
    forallb (fun ev => opt_slot_eqb (winner (cfg_of d i e t v) ev p) (table_winner gm_auto_order (cfg_of d i e t v) ev p))
    [0; 1; 6]) [0; 3]) [0; 2]) [0; 4]) [0; 8]) [0; 2])
    (subsets [SDisable; SIntegrity; SEnable; SClear; STime; SEvscan]) = true.
Proof. vm_compute. reflexivity. Qed.

(* ---- the task model of C15/C16 (MTask.v): its next_task serves the same automatic tasks in the same
   order; it has no automatic time synchronisation and no event scan (auto_time_sync = None,
   event_scan_on_events_available = none in every configuration it describes), so those rows never
   fire ------------------------------------------------------------------------------------------- *)

Definition mt_slot (n : string) (st : MT.mstate) : option MT.astate :=
  if String.eqb n "clear_restart_iin" then Some (MT.s_clear st)
  else if String.eqb n "disable_unsolicited" then Some (MT.s_disable st)
  else if String.eqb n "integrity_scan" then Some (MT.s_integ st)
  else if String.eqb n "enabled_unsolicited" then Some (MT.s_enable st)
  else None.

Definition mt_task (built : string) : option MT.next :=
  if String.eqb built "AutoTask::ClearRestartBit" then Some (MT.NxAuto MT.AClear)
  else if String.eqb built "AutoTask::DisableUnsolicited" then Some (MT.NxAuto MT.ADisable)
  else if String.eqb built "ReadTask::StartupIntegrity" then Some MT.NxIntegrity
  else if String.eqb built "AutoTask::EnableUnsolicited" then Some (MT.NxAuto MT.AEnable)
  else None.

Definition mt_cfg (f : string) (cfg : MT.mcfg) : option N :=
  if String.eqb f "disable_unsol_classes" then Some (MT.c_disable cfg)
  else if String.eqb f "startup_integrity_classes" then Some (MT.c_integrity cfg)
  else if String.eqb f "enable_unsol_classes" then Some (MT.c_enable cfg)
  else None.

Fixpoint mt_dispatch (tbl : list (string * gm_cond * string)) (cfg : MT.mcfg) (st : MT.mstate) : option MT.next :=
  match tbl with
  | [] => Some MT.NxNone
  | (sn, g, built) :: rest =>
      match g with
      | GmPending =>
          match mt_slot sn st, mt_task built, mt_dispatch rest cfg st with
          | Some a, Some t, Some r =>
              Some (match MT.auto_next a (MT.s_now st) t with Some n => n | None => r end)
          | _, _, _ => None
          end
      | GmCfgAnyAndPending f =>
          match mt_slot sn st, mt_task built, mt_cfg f cfg, mt_dispatch rest cfg st with
          | Some a, Some t, Some v, Some r =>
              Some (match (if v =? 0 then None else MT.auto_next a (MT.s_now st) t) with Some n => n | None => r end)
          | _, _, _, _ => None
          end
      | GmPendingAndCfgSome _ | GmEventsAndCfg _ => mt_dispatch rest cfg st
      end
  end.

Theorem mt_next_task_is_table : forall cfg st,
  MT.s_assoc st = true -> MT.s_queue st = [] ->
  mt_dispatch gm_auto_order cfg st = Some (MT.next_task cfg st).
Proof. intros cfg st Ha Hq. unfold MT.next_task. rewrite Ha, Hq. reflexivity. Qed.

(* observed: exactly the tasks of p pending, everything configured *)
Inductive mt_auto := MtClear | MtDisable | MtIntegrity | MtEnable.
Definition mt_auto_eqb (a b : mt_auto) : bool :=
  match a, b with
  | MtClear, MtClear | MtDisable, MtDisable | MtIntegrity, MtIntegrity | MtEnable, MtEnable => true
  | _, _ => false
  end.
Definition mt_auto_name (a : mt_auto) : string :=
  match a with
  | MtClear => "clear_restart_iin" | MtDisable => "disable_unsolicited" | MtIntegrity => "integrity_scan"
  | MtEnable => "enabled_unsolicited"
  end.

Definition mt_cfg_all : MT.mcfg := MT.mk_mcfg 1024 1000 7 7 15 1000 10000 16 249.

Definition mt_state_of (p : list mt_auto) : MT.mstate :=
  let st a := if existsb (mt_auto_eqb a) p then MT.APending else MT.AIdle in
  MT.mk_mstate 0 true true true false true 0 None [] (st MtClear) (st MtDisable) (st MtIntegrity) (st MtEnable)
               false MT.RNone.

Definition mt_winner (p : list mt_auto) : option mt_auto :=
  match MT.next_task mt_cfg_all (mt_state_of p) with
  | MT.NxAuto MT.AClear => Some MtClear
  | MT.NxAuto MT.ADisable => Some MtDisable
  | MT.NxAuto MT.AEnable => Some MtEnable
  | MT.NxIntegrity => Some MtIntegrity
  | _ => None
  end.

Fixpoint mt_observe_order (fuel : nat) (p : list mt_auto) : list mt_auto :=
  match fuel with
  | O => []
  | S k => match mt_winner p with
           | Some w => w :: mt_observe_order k (filter (fun s => negb (mt_auto_eqb s w)) p)
           | None => []
           end
  end.

(* the order observed in the task model = the generated order without the two tasks it does not have *)
Theorem mt_auto_order_observed :
  map mt_auto_name (mt_observe_order 4 [MtClear; MtDisable; MtIntegrity; MtEnable])
  = filter (fun n => negb (str_in n ["time_sync"; "event_scan"])) generated_auto_order.
Proof. vm_compute. reflexivity. Qed.

(* ---------------------------------------------------------------------------------------------- *)
(* (b) start-up, restart, reset                                                                    *)

Definition astate_of (g : gm_astate) : ms_auto_state :=
  match g with GmSIdle => MsAIdle | GmSPending => MsAPending end.

Fixpoint ts_from_table (l : list (string * gm_astate)) (ts : ms_task_states) : option ms_task_states :=
  match l with
  | [] => Some ts
  | (n, v) :: r => match slot_of_name n with
                   | Some s => ts_from_table r (slot_set s ts (astate_of v))
                   | None => None
                   end
  end.

(* TaskStates::new *)
Theorem task_states_new_agrees : forall ts0, ts_from_table gm_task_states_new ts0 = Some ms_ts_new.
Proof. intros ts0. reflexivity. Qed.

Fixpoint apply_demands (l : list string) (ts : ms_task_states) : option ms_task_states :=
  match l with
  | [] => Some ts
  | n :: r => match slot_of_name n with
              | Some s => apply_demands r (slot_set s ts (ms_demand (slot_get s ts)))
              | None => None
              end
  end.

(* TaskStates::on_restart_iin *)
Theorem on_restart_iin_agrees : forall ts, apply_demands gm_on_restart_iin_demands ts = Some (ms_ts_on_restart ts).
Proof. intros [d i e c t v]. reflexivity. Qed.

Definition set_slot (s : slot) (f : ms_auto_state -> ms_auto_state) (a : ms_assoc) : ms_assoc :=
  ms_set_auto a (slot_set s (ms_a_auto a) (f (slot_get s (ms_a_auto a)))).

Definition act (now : ms_time) (g : gm_action) (a : ms_assoc) : option ms_assoc :=
  match g with
  | GmDemand n => option_map (fun s => set_slot s ms_demand a) (slot_of_name n)
  | GmDone n => option_map (fun s => set_slot s (fun _ => MsAIdle) a) (slot_of_name n)
  | GmFailure n => option_map (fun s => set_slot s (ms_auto_failure (ms_a_cfg a) now) a) (slot_of_name n)
  | GmAssign f v =>
      if String.eqb f "startup_integrity_done" then
        (if String.eqb v "false" then Some (ms_set_integrity_done a false)
         else if String.eqb v "true" then Some (ms_set_integrity_done a true) else None)
      else if String.eqb f "last_unsol_frag" then
        (if String.eqb v "None" then Some (ms_set_last_unsol a None) else None)
      else None
  | GmResetAutoTasks => option_map (ms_set_auto a) (ts_from_table gm_task_states_new (ms_a_auto a))
  | GmOnRestartIin => option_map (ms_set_auto a) (apply_demands gm_on_restart_iin_demands (ms_a_auto a))
  | GmFailQueuedRequests => Some (ms_set_queue a [])
  end.

Fixpoint run_actions (now : ms_time) (l : list gm_action) (a : ms_assoc) : option ms_assoc :=
  match l with
  | [] => Some a
  | g :: r => match act now g a with Some a1 => run_actions now r a1 | None => None end
  end.

(* Association::reset *)
Theorem association_reset_agrees : forall now a, run_actions now gm_association_reset a = Some (ms_assoc_reset a).
Proof. intros now [addr cfg seq lu q au ps pid ld idone ev]. reflexivity. Qed.

Definition guard_holds (g : gm_guard) (bits : N -> N -> bool) (a : ms_assoc) : option bool :=
  match g with
  | GmAlways => Some true
  | GmWhenSlotIdle n => option_map (fun s => ms_is_idle (slot_get s (ms_a_auto a))) (slot_of_name n)
  | GmWhenCfg n => cfg_flag n (ms_a_cfg a)
  | GmWhenIin byte bit => Some (bits byte bit)
  end.

Fixpoint handler_lookup (name : string) (l : list (string * gm_guard * list gm_action * list gm_action))
  : option (gm_guard * list gm_action * list gm_action) :=
  match l with
  | [] => None
  | (n, g, t, e) :: r => if String.eqb name n then Some (g, t, e) else handler_lookup name r
  end.

(* one of the on_* functions of Association, by name; bits = the IIN of the response at hand *)
Definition run_handler (name : string) (now : ms_time) (bits : N -> N -> bool) (a : ms_assoc) : option ms_assoc :=
  match handler_lookup name gm_handlers with
  | Some (g, t, e) =>
      match guard_holds g bits a with
      | Some true => run_actions now t a
      | Some false => run_actions now e a
      | None => None
      end
  | None => None
  end.

Definition iin_of (f : ms_rxfrag) (byte bit : N) : bool :=
  N.testbit (if N.eqb byte 1 then ms_r_iin1 f else ms_r_iin2 f) bit.

(* the model's counterparts of the on_* functions *)
Theorem on_restart_iin_observed_agrees : forall now bits a,
  run_handler "on_restart_iin_observed" now bits a = Some (fst (ms_on_restart now a)).
Proof.
  intros now bits a. unfold run_handler, ms_on_restart. cbn [handler_lookup gm_handlers String.eqb Ascii.eqb Bool.eqb guard_holds slot_of_name option_map slot_get].
  destruct (ms_is_idle (ms_ts_clear (ms_a_auto a))); reflexivity.
Qed.

Theorem handlers_agree : forall now bits a m id tok,
  run_handler "on_integrity_scan_complete" now bits a = Some (fst (ms_read_complete now (MsTIntegrity m) a)) /\
  run_handler "on_event_scan_complete" now bits a = Some (fst (ms_read_complete now (MsTEventScan m) a)) /\
  run_handler "on_integrity_scan_failure" now bits a = Some (fst (ms_task_error now (MsTIntegrity m) MsETimeout false a)) /\
  run_handler "on_event_scan_failure" now bits a = Some (fst (ms_task_error now (MsTEventScan m) MsETimeout false a)) /\
  run_handler "on_clear_restart_iin_failure" now bits a = Some (fst (ms_task_error now MsTClearRestart MsETimeout false a)) /\
  run_handler "on_enable_unsolicited_failure" now bits a = Some (fst (ms_task_error now (MsTEnableUnsol m) MsETimeout false a)) /\
  run_handler "on_disable_unsolicited_failure" now bits a = Some (fst (ms_task_error now (MsTDisableUnsol m) MsETimeout false a)) /\
  run_handler "on_enable_unsolicited_response" now bits a = Some (fst (ms_task_error now (MsTEnableUnsol m) MsEIin2 false a)) /\
  run_handler "on_disable_unsolicited_response" now bits a = Some (fst (ms_task_error now (MsTDisableUnsol m) MsEIin2 false a)) /\
  run_handler "on_time_sync_failure" now bits a = Some (fst (ms_tsync_report now None (Some MsETimeout) a)) /\
  run_handler "on_time_sync_success" now bits a = Some (fst (ms_tsync_report now None None a)) /\
  (* polls and user requests touch no automatic task *)
  ms_a_auto (fst (ms_task_error now (MsTPoll id m) MsETimeout false a)) = ms_a_auto a /\
  ms_a_auto (fst (ms_task_error now (MsTUserRead m tok) MsETimeout false a)) = ms_a_auto a.
Proof. intros now bits [addr cfg seq lu q au ps pid ld idone ev] m id tok. repeat split. Qed.

(* on_clear_restart_iin_response: by the response itself, or by the IIN of a RejectedByIin2 error *)
Theorem on_clear_restart_iin_response_agrees : forall now a f sys restart,
  run_handler "on_clear_restart_iin_response" now (iin_of f) a
    = Some (fst (fst (ms_nonread_handle now sys MsTClearRestart f a))) /\
  run_handler "on_clear_restart_iin_response" now (fun _ _ => restart) a
    = Some (fst (ms_task_error now MsTClearRestart MsEIin2 restart a)).
Proof.
  intros now a f sys restart. split.
  - assert (H : iin_of f 1 7 = N.testbit (ms_r_iin1 f) 7) by reflexivity.
    unfold run_handler, ms_nonread_handle, ms_iin_restart.
    cbn [handler_lookup gm_handlers String.eqb Ascii.eqb Bool.eqb guard_holds]. rewrite H.
    destruct (N.testbit (ms_r_iin1 f) 7); reflexivity.
  - destruct restart; reflexivity.
Qed.

(* the response handlers of the automatic tasks *)
Theorem auto_response_handlers_agree : forall now a f sys m,
  run_handler "on_disable_unsolicited_response" now (iin_of f) a
    = Some (fst (fst (ms_nonread_handle now sys (MsTDisableUnsol m) f a))) /\
  run_handler "on_enable_unsolicited_response" now (iin_of f) a
    = Some (fst (fst (ms_nonread_handle now sys (MsTEnableUnsol m) f a))).
Proof. intros. split; reflexivity. Qed.

(* ---- the same functions in the task model of C15/C16 -------------------------------------------- *)

Definition mt_astate_of (g : gm_astate) : MT.astate :=
  match g with GmSIdle => MT.AIdle | GmSPending => MT.APending end.

Definition mt_set_slot (n : string) (f : MT.astate -> MT.astate) (st : MT.mstate) : option MT.mstate :=
  if String.eqb n "clear_restart_iin" then Some (MT.set_clear st (f (MT.s_clear st)))
  else if String.eqb n "disable_unsolicited" then Some (MT.set_disable st (f (MT.s_disable st)))
  else if String.eqb n "integrity_scan" then Some (MT.set_integ st (f (MT.s_integ st)) (MT.s_integ_done st))
  else if String.eqb n "enabled_unsolicited" then Some (MT.set_enable st (f (MT.s_enable st)))
  else if String.eqb n "time_sync" then Some st          (* not in this model *)
  else if String.eqb n "event_scan" then Some st         (* not in this model *)
  else None.

Fixpoint mt_new (l : list (string * gm_astate)) (st : MT.mstate) : option MT.mstate :=
  match l with
  | [] => Some st
  | (n, v) :: r => match mt_set_slot n (fun _ => mt_astate_of v) st with
                   | Some st1 => mt_new r st1
                   | None => None
                   end
  end.

Fixpoint mt_demands (l : list string) (st : MT.mstate) : option MT.mstate :=
  match l with
  | [] => Some st
  | n :: r => match mt_set_slot n MT.demand st with Some st1 => mt_demands r st1 | None => None end
  end.

Definition mt_act (g : gm_action) (st : MT.mstate) : option MT.mstate :=
  match g with
  | GmDemand n => mt_set_slot n MT.demand st
  | GmDone n => mt_set_slot n (fun _ => MT.AIdle) st
  | GmAssign f v =>
      if String.eqb f "startup_integrity_done" then
        (if String.eqb v "false" then Some (MT.set_integ st (MT.s_integ st) false)
         else if String.eqb v "true" then Some (MT.set_integ st (MT.s_integ st) true) else None)
      else if String.eqb f "last_unsol_frag" then
        (if String.eqb v "None" then Some (MT.set_last_unsol st None) else None)
      else None
  | GmResetAutoTasks => mt_new gm_task_states_new st
  | GmOnRestartIin => mt_demands gm_on_restart_iin_demands st
  | GmFailQueuedRequests => Some (MT.set_queue st [])
  | GmFailure _ => None
  end.

Fixpoint mt_run_actions (l : list gm_action) (st : MT.mstate) : option MT.mstate :=
  match l with
  | [] => Some st
  | g :: r => match mt_act g st with Some st1 => mt_run_actions r st1 | None => None end
  end.

Theorem mt_reset_agrees : forall st e, mt_run_actions gm_association_reset st = Some (fst (MT.reset_assoc st e)).
Proof. intros [now conn en up stp asc seq lu q c d i e' done run] e. reflexivity. Qed.

Definition mt_is_idle (a : MT.astate) : bool := match a with MT.AIdle => true | _ => false end.

(* process_iin of the task model = `if DEVICE_RESTART { on_restart_iin_observed() }` with the generated
   handler (the only IIN bit with an effect in the configurations it describes) *)
Theorem mt_process_iin_agrees : forall st i1,
  (match handler_lookup "on_restart_iin_observed" gm_handlers with
   | Some (GmWhenSlotIdle n, t, _) =>
       match mt_slot n st with
       | Some a => if MP.iin1_restart i1 && mt_is_idle a then mt_run_actions t st else Some st
       | None => None
       end
   | _ => None
   end) = Some (MT.process_iin st i1) /\
  existsb (fun r => match r with (1, 7, h) => String.eqb h "on_restart_iin_observed" | _ => false end)
          gm_process_iin_triggers = true.
Proof.
  intros [now conn en up stp asc seq lu q c d i e' done run] i1. split; [|reflexivity].
  unfold MT.process_iin. cbn [handler_lookup gm_handlers String.eqb Ascii.eqb Bool.eqb mt_slot MT.s_clear].
  destruct (MP.iin1_restart i1); [|reflexivity].
  destruct c; reflexivity.
Qed.

(* ---------------------------------------------------------------------------------------------- *)
(* (c) Association::process_iin                                                                    *)

Fixpoint run_triggers (now : ms_time) (l : list (N * N * string)) (f : ms_rxfrag) (a : ms_assoc) : option ms_assoc :=
  match l with
  | [] => Some a
  | (byte, bit, h) :: r =>
      match (if iin_of f byte bit then run_handler h now (iin_of f) a else Some a) with
      | Some a1 => run_triggers now r f a1
      | None => None
      end
  end.

Definition class_bit (n : string) : option N :=
  if String.eqb n "class1" then Some 1 else if String.eqb n "class2" then Some 2
  else if String.eqb n "class3" then Some 4 else None.

(* events_available as a mask (bit0 = class 1 ...), from the IIN octets by the generated table *)
Fixpoint events_from_table (l : list (string * N * N)) (iin1 iin2 : N) : option N :=
  match l with
  | [] => Some 0
  | (cls, byte, bit) :: r =>
      match class_bit cls, events_from_table r iin1 iin2 with
      | Some b, Some m => Some ((if N.testbit (if N.eqb byte 1 then iin1 else iin2) bit then b else 0) + m)
      | _, _ => None
      end
  end.

Definition ref_process_iin (now : ms_time) (f : ms_rxfrag) (a : ms_assoc) : option ms_assoc :=
  match run_triggers now gm_process_iin_triggers f a with
  | Some a1 =>
      let a2 := ms_set_events a1 (ms_iin_events f) in
      match cfg_mask (fst gm_process_iin_scan) (ms_a_cfg a2), slot_of_name (snd gm_process_iin_scan) with
      | Some m, Some s => Some (if ms_ev_any (N.land (ms_a_events a2) m) then set_slot s ms_demand a2 else a2)
      | _, _ => None
      end
  | None => None
  end.

(* the model's process_iin is: the generated triggers in order, each calling its generated handler; the
   class bits; the event scan demand *)
Theorem process_iin_is_table : forall now f a,
  ref_process_iin now f a = Some (fst (ms_process_iin now f a)).
Proof.
  intros now f a.
  assert (H1 : iin_of f 1 7 = N.testbit (ms_r_iin1 f) 7) by reflexivity.
  assert (H2 : iin_of f 1 4 = N.testbit (ms_r_iin1 f) 4) by reflexivity.
  assert (H3 : iin_of f 2 3 = N.testbit (ms_r_iin2 f) 3) by reflexivity.
  unfold ref_process_iin, ms_process_iin, ms_iin_restart, ms_iin_need_time, ms_iin_overflow.
  cbn [run_triggers gm_process_iin_triggers]. rewrite H1, H2, H3.
  destruct a as [addr cfg seq lu q au ps pid ld idone ev].
  destruct au as [d i e c t v]. destruct cfg as [cd ci ce ct covf cev rmin rmax ka rto mq].
  destruct (N.testbit (ms_r_iin1 f) 7); destruct (N.testbit (ms_r_iin1 f) 4);
    destruct (N.testbit (ms_r_iin2 f) 3); destruct c; destruct covf; reflexivity.
Qed.

Theorem iin_event_bits_agree :
  forallb (fun i1 => match events_from_table gm_process_iin_events i1 0 with
                     | Some m => N.eqb (N.land (N.shiftr i1 1) 7) m
                     | None => false
                     end) (nrange 256) = true.
Proof. vm_compute. reflexivity. Qed.

(* which IIN bit reaches which handler, observed on the model: one bit at a time, from a state where
   every effect is visible (nothing pending, integrity done, overflow scan and event scan configured) *)
Definition probe_cfg : ms_acfg :=
  {| ms_c_disable := 7; ms_c_integrity := 15; ms_c_enable := 7; ms_c_tsync := 1; ms_c_ovf := true;
     ms_c_evscan := 7; ms_c_rmin := 1000; ms_c_rmax := 10000; ms_c_keepalive := None; ms_c_rto := 5000;
     ms_c_maxq := 16 |}.
Definition probe_assoc : ms_assoc :=
  ms_set_integrity_done (ms_set_auto (ms_assoc_new 1024 probe_cfg 0%Z) (ts_of [])) true.
Definition probe_frag (iin1 iin2 : N) : ms_rxfrag :=
  {| ms_r_uns := false; ms_r_fir := true; ms_r_fin := true; ms_r_con := false; ms_r_seq := 0;
     ms_r_iin1 := iin1; ms_r_iin2 := iin2; ms_r_objs := []; ms_r_ok := true; ms_r_nvalues := 0;
     ms_r_delay := None |}.

(* the effect of a fragment on the probe: which task states became pending, integrity_done, events *)
Definition effect_of (a : ms_assoc) : list string * bool * N :=
  (map slot_name (filter (fun s => ms_is_pending (slot_get s (ms_a_auto a))) all_slots),
   ms_a_integrity_done a, ms_a_events a).

Definition observed_effect (byte bit : N) : list string * bool * N :=
  effect_of (fst (ms_process_iin 0%Z (if N.eqb byte 1 then probe_frag (2 ^ bit) 0 else probe_frag 0 (2 ^ bit))
                                 probe_assoc)).

(* what the generated tables say the bit does: its handler's demands (through on_restart_iin for the
   restart handler), the integrity_done assignment, the class bit and the event scan *)
Definition handler_effect (h : string) : list string * bool :=
  match handler_lookup h gm_handlers with
  | Some (_, t, _) =>
      (flat_map (fun g => match g with
                          | GmDemand n => [n]
                          | GmOnRestartIin => gm_on_restart_iin_demands
                          | _ => [] end) t,
       negb (existsb (fun g => match g with
                               | GmAssign f v => String.eqb f "startup_integrity_done" && String.eqb v "false"
                               | _ => false end) t))
  | None => ([], true)
  end.

Definition sort_slots (l : list string) : list string := filter (fun n => str_in n l) (map slot_name all_slots).

Definition table_effect (byte bit : N) : list string * bool * N :=
  let hs := flat_map (fun r => match r with (b, k, h) => if N.eqb b byte && N.eqb k bit then [h] else [] end)
                     gm_process_iin_triggers in
  let cls := flat_map (fun r => match r with (c, b, k) =>
                         if N.eqb b byte && N.eqb k bit then match class_bit c with Some m => [m] | None => [] end else [] end)
                      gm_process_iin_events in
  let ev := fold_right N.add 0 cls in
  (sort_slots (flat_map (fun h => fst (handler_effect h)) hs ++ (if N.eqb ev 0 then [] else [snd gm_process_iin_scan])),
   forallb (fun h => snd (handler_effect h)) hs, ev).

Theorem iin_bit_effects_observed :
  map (fun bb => observed_effect (fst bb) (snd bb))
      [(1,0); (1,1); (1,2); (1,3); (1,4); (1,5); (1,6); (1,7); (2,0); (2,1); (2,2); (2,3); (2,4); (2,5); (2,6); (2,7)]
  = map (fun bb => table_effect (fst bb) (snd bb))
      [(1,0); (1,1); (1,2); (1,3); (1,4); (1,5); (1,6); (1,7); (2,0); (2,1); (2,2); (2,3); (2,4); (2,5); (2,6); (2,7)].
Proof. vm_compute. reflexivity. Qed.

(* ---------------------------------------------------------------------------------------------- *)
(* (d) defaults                                                                                    *)

Definition classes_val (all : N) (d : gm_default) (param : N) : option N :=
  match d with GmParam => Some param | GmAllClasses => Some all | GmNoClasses => Some 0 | _ => None end.

(* an AssociationConfig constructor as a configuration of the association model; the four arguments
   are the parameters of AssociationConfig::new (ignored by the constructors without parameters) *)
Definition acfg_of_table (tbl : list (string * gm_default)) (pd pe pi ps : N) : option ms_acfg :=
  match assoc_str "disable_unsol_classes" tbl, assoc_str "enable_unsol_classes" tbl,
        assoc_str "startup_integrity_classes" tbl, assoc_str "event_scan_on_events_available" tbl with
  | Some d, Some e, Some i, Some sc =>
      match classes_val 7 d pd, classes_val 7 e pe, classes_val 15 i pi, classes_val 7 sc ps,
            assoc_str "auto_time_sync" tbl, assoc_str "auto_tasks_retry_strategy" tbl,
            assoc_str "keep_alive_timeout" tbl, assoc_str "auto_integrity_scan_on_buffer_overflow" tbl,
            assoc_str "max_queued_user_requests" tbl, assoc_str "response_timeout" tbl with
      | Some dv, Some ev, Some iv, Some sv, Some GmNone, Some GmRetryDefault, Some GmNone, Some (GmBool ovf),
        Some (GmNat mq), Some GmTimeoutDefault =>
          Some {| ms_c_disable := dv; ms_c_integrity := iv; ms_c_enable := ev; ms_c_tsync := 0; ms_c_ovf := ovf;
                  ms_c_evscan := sv; ms_c_rmin := gm_retry_default_min_ms; ms_c_rmax := gm_retry_default_max_ms;
                  ms_c_keepalive := None; ms_c_rto := gm_timeout_default_ms; ms_c_maxq := mq |}
      | _, _, _, _, _, _, _, _, _, _ => None
      end
  | _, _, _, _ => None
  end.

(* what the modeller takes the three constructors to be (milliseconds) *)
Definition ms_acfg_quiet : ms_acfg :=
  {| ms_c_disable := 0; ms_c_integrity := 0; ms_c_enable := 0; ms_c_tsync := 0; ms_c_ovf := false;
     ms_c_evscan := 0; ms_c_rmin := 1000; ms_c_rmax := 10000; ms_c_keepalive := None; ms_c_rto := 5000;
     ms_c_maxq := 16 |}.
Definition ms_acfg_default : ms_acfg :=
  {| ms_c_disable := 7; ms_c_integrity := 15; ms_c_enable := 7; ms_c_tsync := 0; ms_c_ovf := true;
     ms_c_evscan := 0; ms_c_rmin := 1000; ms_c_rmax := 10000; ms_c_keepalive := None; ms_c_rto := 5000;
     ms_c_maxq := 16 |}.
Definition ms_acfg_new (disable enable integrity scan : N) : ms_acfg :=
  {| ms_c_disable := disable; ms_c_integrity := integrity; ms_c_enable := enable; ms_c_tsync := 0;
     ms_c_ovf := false; ms_c_evscan := scan; ms_c_rmin := 1000; ms_c_rmax := 10000; ms_c_keepalive := None;
     ms_c_rto := 5000; ms_c_maxq := 16 |}.

Theorem config_defaults_agree : forall pd pe pi ps,
  acfg_of_table gm_config_quiet pd pe pi ps = Some ms_acfg_quiet /\
  acfg_of_table gm_config_default pd pe pi ps = Some ms_acfg_default /\
  acfg_of_table gm_config_new pd pe pi ps = Some (ms_acfg_new pd pe pi ps) /\
  gm_max_queued_user_requests = ms_c_maxq ms_acfg_default /\
  (gm_retry_default_min_ms, gm_retry_default_max_ms, gm_timeout_default_ms) = (1000, 10000, 5000)%Z.
Proof. intros. repeat split. Qed.

(* the quiet configuration (the starting point of every harness) has no automatic task and no gate on
   unsolicited responses *)
Theorem quiet_config_has_no_auto_tasks : forall ts events now a,
  (ms_ts_clear ts = MsAIdle -> ms_auto_next ms_acfg_quiet ts events now = MsNNone) /\
  (ms_a_cfg a = ms_acfg_quiet -> ms_integrity_complete a = true).
Proof.
  intros [d i e c t v] events now a. split.
  - cbn [ms_ts_clear]. intros ->. destruct t; destruct events; reflexivity.
  - intros H. unfold ms_integrity_complete. rewrite H. reflexivity.
Qed.

(* the floor of the retry delay (repair of F15) *)
Theorem min_retry_delay_agrees : forall d cfg now a,
  ms_retry_delay d = Z.max d gm_min_retry_delay_ms /\
  (exists x, MT.failure cfg now a = MT.AFailed x (now + N.max x (Z.to_N gm_min_retry_delay_ms))).
Proof. intros d cfg now a. split; [reflexivity|]. unfold MT.failure. eexists. reflexivity. Qed.

(* ---------------------------------------------------------------------------------------------- *)
(* (e) ExponentialBackOff::on_failure                                                              *)

Definition bo_field (n : string) (s : ms_strategy) : option Z :=
  if String.eqb n "min_delay" then Some (ms_s_min s) else if String.eqb n "max_delay" then Some (ms_s_max s) else None.

(* a Duration expression under evaluation: a value, or the Option produced by checked_mul *)
Inductive bo_val := BoV (z : Z) | BoO (o : option Z).

Definition bo_step (limit : Z) (s : ms_strategy) (st : gm_backoff_step) (v : bo_val) : option bo_val :=
  match st, v with
  | GmCheckedMul k, BoV x => Some (BoO (if (k * x <? limit)%Z then Some (k * x)%Z else None))
  | GmUnwrapOr f, BoO o => option_map (fun d => BoV (match o with Some y => y | None => d end)) (bo_field f s)
  | GmMin f, BoV x => option_map (fun d => BoV (Z.min x d)) (bo_field f s)
  | GmMax f, BoV x => option_map (fun d => BoV (Z.max x d)) (bo_field f s)
  | _, _ => None
  end.

Fixpoint bo_run (limit : Z) (s : ms_strategy) (l : list gm_backoff_step) (v : bo_val) : option bo_val :=
  match l with
  | [] => Some v
  | st :: r => match bo_step limit s st v with Some v1 => bo_run limit s r v1 | None => None end
  end.

(* the next delay of the model is the generated chain of Duration operations *)
Theorem backoff_next_is_table : forall limit s x,
  bo_run limit s gm_backoff_next (BoV x) = Some (BoV (ms_next_delay limit (ms_s_max s) x)).
Proof. intros limit s x. reflexivity. Qed.

Theorem backoff_first_is_table : forall limit s,
  Some (snd (ms_on_failure limit (ms_backoff_new s))) = bo_field gm_backoff_first s.
Proof. intros limit s. reflexivity. Qed.

(* the doubling rule with the generated constants: factor, clamp to max, overflow saturates to max *)
Theorem backoff_step_algebraic : forall limit max x, (0 <= x)%Z ->
  ((max < limit)%Z -> ms_next_delay limit max x = Z.min (gm_backoff_factor * x) max) /\
  ((limit <= gm_backoff_factor * x)%Z -> ms_next_delay limit max x = max).
Proof.
  intros limit max x Hx. unfold ms_next_delay, ms_checked_double, gm_backoff_factor.
  destruct (2 * x <? limit)%Z eqn:E; [apply Z.ltb_lt in E|apply Z.ltb_ge in E]; split; intros H; lia.
Qed.

(* the task model of C15/C16 (milliseconds in N, no Duration overflow) *)
Theorem mt_backoff_agrees : forall cfg now last nx,
  MT.failure cfg now (MT.AFailed last nx)
  = MT.AFailed (N.min (Z.to_N gm_backoff_factor * last) (MT.c_retry_max cfg))
               (now + N.max (N.min (Z.to_N gm_backoff_factor * last) (MT.c_retry_max cfg)) (Z.to_N gm_min_retry_delay_ms)) /\
  MT.failure cfg now MT.AIdle = MT.AFailed (MT.c_retry_min cfg) (now + N.max (MT.c_retry_min cfg) (Z.to_N gm_min_retry_delay_ms)).
Proof. intros. split; reflexivity. Qed.

(* ---------------------------------------------------------------------------------------------- *)
(* (f) function codes                                                                              *)

(* task model of C15/C16 *)
Definition nr_name (k : MT.nr_kind) : string :=
  match k with
  | MT.NRCommand _ MT.PhSelect _ => "Command::Select"
  | MT.NRCommand _ MT.PhOperate _ => "Command::Operate"
  | MT.NRCommand _ MT.PhDirect _ => "Command::DirectOperate"
  | MT.NRDeadBand _ => "DeadBands"
  | MT.NREmpty _ _ => "EmptyResponseTask"
  | MT.NRRestart _ true => "Restart::ColdRestart"
  | MT.NRRestart _ false => "Restart::WarmRestart"
  | MT.NRAuto MT.AClear => "Auto::ClearRestartBit"
  | MT.NRAuto MT.AEnable => "Auto::EnableUnsolicited"
  | MT.NRAuto MT.ADisable => "Auto::DisableUnsolicited"
  end.

(* every non-READ task of the task model sends the generated function code; the function code of an
   EmptyResponseTask is the parameter of the request *)
Theorem mt_function_codes_agree : forall k,
  match k with
  | MT.NREmpty _ fc => str_in (nr_name k) gm_task_function_param = true /\ MT.nr_fc k = fc
  | _ => assoc_str (nr_name k) gm_task_function = Some (MT.nr_fc k)
  end.
Proof. intros [tok [| |] hs|tok|tok fc|tok [|]|[| |]]; try reflexivity. split; reflexivity. Qed.

(* a READ of the task model: the function code in the request it writes *)
Definition mt_read_fc : option N :=
  match snd (MT.start_read mt_cfg_all (mt_state_of []) (MT.RDUser 0) []) with
  | [_; (_, MT.OTxReq _ _ fc _)] => Some fc
  | _ => None
  end.
Theorem mt_read_function_code_agrees : mt_read_fc = assoc_str "Read" gm_task_function.
Proof. reflexivity. Qed.

(* association model of C17/C19 *)
Definition ts_state_name (st : ms_tsync_state) : string :=
  match st with
  | MsTsMeasure _ => "MeasureDelay" | MsTsWriteAbs _ => "WriteAbsoluteTime"
  | MsTsRecord _ => "RecordCurrentTime" | MsTsWriteLast _ => "WriteLastRecordedTime"
  end.

Definition ms_task_name (t : ms_task) : option string :=
  match t with
  | MsTClearRestart => Some "Auto::ClearRestartBit"
  | MsTEnableUnsol _ => Some "Auto::EnableUnsolicited"
  | MsTDisableUnsol _ => Some "Auto::DisableUnsolicited"
  | MsTIntegrity _ | MsTEventScan _ | MsTPoll _ _ | MsTUserRead _ _ => Some "Read"
  | MsTTimeSync st _ => Some (String.append "TimeSync::" (ts_state_name st))
  | MsTEmpty _ => None      (* EmptyResponseTask: the function code is a parameter (the engine uses 7) *)
  | MsTLink _ => None       (* not an application request *)
  end.

Theorem ms_function_codes_agree : forall t,
  match ms_task_name t with
  | Some n => assoc_str n gm_task_function = Some (ms_task_fc t)
  | None => True
  end.
Proof. intros [| | | | | |[t0|ts|ts|ts] p| | |]; try reflexivity; exact I. Qed.

(* the objects of the automatic requests: clear restart = write_clear_restart *)
Theorem clear_restart_object_agrees :
  ms_task_objects MsTClearRestart = gm_clear_restart_object /\
  MT.auto_objs mt_cfg_all MT.AClear = gm_clear_restart_object.
Proof. split; reflexivity. Qed.

(* Iin::has_bad_request_error *)
Theorem iin2_bad_request_bits_agree :
  forallb (fun i2 => Bool.eqb (MP.iin2_bad i2) (existsb (N.testbit i2) gm_iin2_bad_request_bits)
                     && Bool.eqb (ms_iin_bad_request (probe_frag 0 i2)) (existsb (N.testbit i2) gm_iin2_bad_request_bits))
          (nrange 256) = true.
Proof. vm_compute. reflexivity. Qed.

(* ---------------------------------------------------------------------------------------------- *)
(* (f) response validation                                                                         *)

(* checks in the generated order; the first one that fails decides *)
Fixpoint validate_dispatch {R : Type} (tbl : list (string * gm_outcome)) (chk : string -> option bool)
  (k_unsol k_ignore : R) (k_err : string -> option R) (k_accept : R) : option R :=
  match tbl with
  | [] => Some k_accept
  | (n, o) :: r =>
      match chk n,
            match o with GmHandleUnsolicited => Some k_unsol | GmIgnore => Some k_ignore | GmErr e => k_err e end,
            validate_dispatch r chk k_unsol k_ignore k_err k_accept with
      | Some b, Some k, Some rest => Some (if b then k else rest)
      | _, _, _ => None
      end
  end.

(* ---- task model of C15/C16 ---- *)
Definition mt_check (cfg : MT.mcfg) (seq : N) (first : bool) (src : N) (h : MP.rhdr) (n : string) : option bool :=
  let c := MP.h_ctrl h in
  if String.eqb n "unsolicited" then Some (MP.h_unsol h)
  else if String.eqb n "source" then Some (negb (src =? MT.c_addr cfg))
  else if String.eqb n "sequence" then Some (negb (MP.c_seq c =? seq))
  else if String.eqb n "fir_and_fin" then Some (negb (MP.c_fir c && MP.c_fin c))
  else if String.eqb n "iin2" then Some (MP.iin2_bad (MP.h_iin2 h))
  else if String.eqb n "unexpected_fir" then Some (MP.c_fir c && negb first)
  else if String.eqb n "never_fir" then Some (negb (MP.c_fir c) && first)
  else if String.eqb n "non_fin_without_con" then Some (negb (MP.c_fin c) && negb (MP.c_con c))
  else None.

Definition mt_err (h : MP.rhdr) (e : string) : option MT.terr :=
  if String.eqb e "MultiFragmentResponse" then Some MT.EMultiFragment
  else if String.eqb e "RejectedByIin2" then Some (MT.ERejected (MP.h_iin1 h) (MP.h_iin2 h))
  else if String.eqb e "UnexpectedFir" then Some MT.EUnexpectedFir
  else if String.eqb e "NeverReceivedFir" then Some MT.ENeverFir
  else if String.eqb e "NonFinWithoutCon" then Some MT.ENonFinWithoutCon
  else None.

(* what the task model does with a response that passed every check *)
Definition mt_nonread_accept (cfg : MT.mcfg) (st : MT.mstate) (k : MT.nr_kind) (seq started : N)
  (h : MP.rhdr) (objs : list MP.byte) (v : MT.verdict) : MT.mstate * list MT.tobs :=
  let confirm := if MP.c_con (MP.h_ctrl h) then MT.emit st (MT.OTxConfirm (MT.c_addr cfg) false seq) else [] in
  if MT.s_assoc st then
    let '(st1, o) := MT.handle_nonread_response cfg (MT.process_iin st (MP.h_iin1 h)) k seq started h objs v in
    (st1, confirm ++ o)
  else
    let '(st1, o) := MT.nr_error cfg st k MT.ENoAssociation in
    (MT.set_run st1 MT.RNone, confirm ++ o).

Theorem mt_nonread_validation_is_table : forall cfg st k seq d started src h objs v items,
  validate_dispatch gm_validate_non_read_response (mt_check cfg seq true src h)
    (MT.handle_unsol cfg st src h objs v items) (st, [])
    (fun e => option_map (MT.fail_running cfg st) (mt_err h e))
    (mt_nonread_accept cfg st k seq started h objs v)
  = Some (MT.on_nonread_rx cfg st k seq d started src h objs v items).
Proof. intros. reflexivity. Qed.

Definition mt_read_accept (cfg : MT.mcfg) (st : MT.mstate) (k : MT.rd_kind) (seq : N) (started : N)
  (h : MP.rhdr) (v : MT.verdict) (items : list MT.item) : MT.mstate * list MT.tobs :=
  let c := MP.h_ctrl h in
  if negb (MT.s_assoc st) then MT.fail_running cfg st MT.ENoAssociation
  else
    let st1 := MT.process_iin st (MP.h_iin1 h) in
    match v with
    | MT.VOk =>
      let o := MT.deliver st (MT.rd_read_type k) h items
               ++ (if MP.c_con c then MT.emit st (MT.OTxConfirm (MT.c_addr cfg) false seq) else []) in
      if MP.c_fin c then
        let '(st2, o2) :=
          match k with
          | MT.RDUser tok => (st1, MT.emit st (MT.ORes tok MT.ROk))
          | MT.RDIntegrity => (MT.set_integ st1 MT.AIdle true, [])
          end in
        (MT.set_run st2 MT.RNone, o ++ o2 ++ MT.emit st (MT.OInfoSuccess (MT.rd_type k) 1 seq))
      else
        (MT.set_run (MT.set_seq st1 (MP.seq_next (MT.s_seq st1)))
                    (MT.RRead k (MT.s_seq st1) false (MT.s_now st + MT.c_timeout cfg) started), o)
    | _ => MT.fail_running cfg st1 MT.EMalformed
    end.

Theorem mt_read_validation_is_table : forall cfg st k seq first d started src h objs v items,
  validate_dispatch gm_process_read_response (mt_check cfg seq first src h)
    (MT.handle_unsol cfg st src h objs v items) (st, [])
    (fun e => option_map (MT.fail_running cfg st) (mt_err h e))
    (mt_read_accept cfg st k seq started h v items)
  = Some (MT.on_read_rx cfg st k seq first d started src h objs v items).
Proof. intros. reflexivity. Qed.

(* ---- channel model of C17/C19 ---- *)
Definition ms_check (dest seq : N) (first : bool) (src : N) (f : ms_rxfrag) (n : string) : option bool :=
  if String.eqb n "unsolicited" then Some (ms_r_uns f)
  else if String.eqb n "source" then Some (negb (N.eqb src dest))
  else if String.eqb n "sequence" then Some (negb (N.eqb (ms_r_seq f) seq))
  else if String.eqb n "fir_and_fin" then Some (negb (ms_r_fir f && ms_r_fin f))
  else if String.eqb n "iin2" then Some (ms_iin_bad_request f)
  else if String.eqb n "unexpected_fir" then Some (ms_r_fir f && negb first)
  else if String.eqb n "never_fir" then Some (negb (ms_r_fir f) && first)
  else if String.eqb n "non_fin_without_con" then Some (negb (ms_r_fin f) && negb (ms_r_con f))
  else None.

Definition ms_err_of (e : string) : option ms_err :=
  if String.eqb e "MultiFragmentResponse" then Some MsEMultiFragment
  else if String.eqb e "RejectedByIin2" then Some MsEIin2
  else if String.eqb e "UnexpectedFir" then Some MsEUnexpectedFir
  else if String.eqb e "NeverReceivedFir" then Some MsENeverFir
  else if String.eqb e "NonFinWithoutCon" then Some MsENonFinWithoutCon
  else if String.eqb e "TooManyRequests" then Some MsETooManyRequests
  else None.

Definition ms_nonread_accept (now : ms_time) (st : ms_mstate) (dest : N) (t : ms_task) (k : ms_ttype) (fc0 seq : N)
  (f : ms_rxfrag) : ms_mstate * list ms_obs :=
  match ms_find_assoc dest (ms_m_assocs st) with
  | None => (st, [])
  | Some a =>
      let confirm := if ms_r_con f then [MsOTx now (ms_confirm_sol_bytes seq)] else [] in
      let '(a1, seen) := ms_process_iin now f a in
      let confirm := confirm ++ seen in
      let '(a2, o, h) := ms_nonread_handle now (ms_m_systime st) t f a1 in
      let st1 := ms_set_assocs st (ms_put_assoc a2 (ms_m_assocs st)) in
      match h with
      | MsHComplete =>
          let '(st2, o2) := ms_task_done st1 in
          (st2, confirm ++ o ++ [MsOOk now dest k fc0 seq] ++ o2)
      | MsHError e =>
          let '(st2, o2) := ms_task_done st1 in
          (st2, confirm ++ o ++ [MsOFail now dest k e] ++ o2)
      | MsHContinue t' =>
          let '(st2, o2, s) := ms_send_request st1 dest t' in
          (ms_set_phase st2 (MsPRun (MsRNonRead dest t' k fc0 s (now + ms_rto_of st2 dest)%Z)),
           confirm ++ o ++ o2)
      end
  end.

(* the IIN of a RejectedByIin2 error reaches Task::on_task_error (restart bit for the clear-restart task) *)
Definition ms_nonread_fail (st : ms_mstate) (dest : N) (t : ms_task) (k : ms_ttype) (f : ms_rxfrag) (e : string)
  : option (ms_mstate * list ms_obs) :=
  option_map (fun x => ms_fail_task st dest t k x
                         (match x with MsEIin2 => ms_iin_restart f | _ => false end)) (ms_err_of e).

Theorem ms_nonread_validation_is_table : forall st0 dest t k fc0 seq dl src f,
  let st := ms_touch st0 src in
  validate_dispatch gm_validate_non_read_response (ms_check dest seq true src f)
    (ms_unsolicited st src f) (st, [])
    (ms_nonread_fail st dest t k f)
    (ms_nonread_accept (ms_m_now st0) st dest t k fc0 seq f)
  = Some (ms_rx_nonread st0 dest t k fc0 seq dl src (MsRxResp f)).
Proof. intros. reflexivity. Qed.

Definition ms_read_accept (now : ms_time) (st : ms_mstate) (dest : N) (t : ms_task) (seq : N) (f : ms_rxfrag)
  : ms_mstate * list ms_obs :=
  let k := ms_task_type t in
  match ms_find_assoc dest (ms_m_assocs st) with
  | None => (st, [])
  | Some a =>
      let '(a1, seen) := ms_process_iin now f a in
      let st1 := ms_set_assocs st (ms_put_assoc a1 (ms_m_assocs st)) in
      if negb (ms_r_ok f) then
        let '(st3, o) := ms_fail_task st1 dest t k MsEMalformed false in (st3, seen ++ o)
      else
        let delivered := seen ++ [MsOCb now dest (ms_read_type t) (ms_r_nvalues f)] in
        let confirm := if ms_r_con f then [MsOTx now (ms_confirm_sol_bytes seq)] else [] in
        if ms_r_fin f then
          let '(st2, o) := ms_update_assoc st1 dest (ms_read_complete now t) in
          let '(st3, o2) := ms_task_done st2 in
          (st3, delivered ++ confirm ++ o ++ [MsOOk now dest k 1%N seq] ++ o2)
        else
          let s := ms_a_seq a1 in
          let st2 := ms_set_assocs st1 (ms_put_assoc (ms_set_seq a1 (ms_seq_next s)) (ms_m_assocs st1)) in
          (ms_set_phase st2 (MsPRun (MsRRead dest t s false (now + ms_rto_of st2 dest)%Z)),
           delivered ++ confirm)
  end.

Theorem ms_read_validation_is_table : forall st0 dest t seq first dl src f,
  let st := ms_touch st0 src in
  validate_dispatch gm_process_read_response (ms_check dest seq first src f)
    (ms_unsolicited st src f) (st, [])
    (fun e => option_map (fun x => ms_fail_task st dest t (ms_task_type t) x false) (ms_err_of e))
    (ms_read_accept (ms_m_now st0) st dest t seq f)
  = Some (ms_rx_read st0 dest t seq first dl src (MsRxResp f)).
Proof. intros. reflexivity. Qed.

(* ---- what follows acceptance, observed on the channel model ------------------------------------------ *)
(* an accepted response with CON and DEVICE_RESTART: the CONFIRM, the restart detection of process_iin,
   the handler's completion / the delivery to the ReadHandler, the end of the task *)
Definition probe_state (r : ms_running) : ms_mstate :=
  {| ms_m_now := 5%Z; ms_m_enabled := true; ms_m_assocs := [probe_assoc]; ms_m_ring := [1024];
     ms_m_phase := MsPRun r; ms_m_systime := None |}.
Definition probe_accept_frag (fin : bool) : ms_rxfrag :=
  {| ms_r_uns := false; ms_r_fir := true; ms_r_fin := fin; ms_r_con := true; ms_r_seq := 3;
     ms_r_iin1 := 128; ms_r_iin2 := 0; ms_r_objs := []; ms_r_ok := true; ms_r_nvalues := 0; ms_r_delay := None |}.

Definition step_of_obs (read : bool) (o : ms_obs) : list string :=
  match o with
  | MsOTx _ [_; 0] => ["confirm_if_con"]
  | MsORestartSeen _ _ => ["process_iin"]
  | MsORes _ _ _ => if read then ["done"] (* ReadTask::complete *) else ["handle_response"]
  | MsOCb _ _ _ _ => ["process_response"]
  | MsOOk _ _ _ _ _ => ["done"]
  | _ => []
  end.

Fixpoint until_done (l : list string) : list string :=
  match l with
  | [] => []
  | x :: r => if String.eqb x "done" then [] else x :: until_done r
  end.

Definition observed_nonread_after_accept : list string :=
  until_done (flat_map (step_of_obs false)
    (snd (ms_rx_nonread (probe_state (MsRNonRead 1024 (MsTEmpty 9) MsKEmpty 7 3 100%Z))
                        1024 (MsTEmpty 9) MsKEmpty 7 3 100%Z 1024 (MsRxResp (probe_accept_frag true))))).

Definition observed_read_after_accept : list string :=
  until_done (flat_map (step_of_obs true)
    (snd (ms_rx_read (probe_state (MsRRead 1024 (MsTUserRead 15 9) 3 true 100%Z))
                     1024 (MsTUserRead 15 9) 3 true 100%Z 1024 (MsRxResp (probe_accept_frag true))))).

Theorem after_accept_order_observed :
  observed_nonread_after_accept = gm_non_read_after_accept /\
  observed_read_after_accept
  = filter (fun n => negb (str_in n ["get_association"; "fin_complete_else_read_next"])) gm_read_after_accept.
Proof. vm_compute. split; reflexivity. Qed.

(* ---------------------------------------------------------------------------------------------- *)
(* (f) scheduling: the sources of Association::get_next_task, the two passes of AssociationMap        *)

(* an association in which the chosen sources have something ready at instant 10 *)
Definition sched_assoc (auto poll link : bool) : ms_assoc :=
  let a := ms_set_integrity_done (ms_set_auto (ms_assoc_new 1024 probe_cfg 0%Z) (ts_of (if auto then [SEnable] else []))) true in
  let a := if poll then ms_set_polls a [{| ms_p_id := 0; ms_p_mask := 15; ms_p_period := 5%Z; ms_p_next := 5%Z |}] 1 else a in
  {| ms_a_addr := ms_a_addr a; ms_a_cfg := ms_a_cfg a; ms_a_seq := ms_a_seq a; ms_a_last_unsol := ms_a_last_unsol a;
     ms_a_queue := ms_a_queue a; ms_a_auto := ms_a_auto a; ms_a_polls := ms_a_polls a; ms_a_poll_id := ms_a_poll_id a;
     ms_a_link_deadline := if link then Some 7%Z else None;
     ms_a_integrity_done := ms_a_integrity_done a; ms_a_events := ms_a_events a |}.

Definition source_of_task (t : ms_task) : string :=
  match t with MsTPoll _ _ => "polls" | MsTLink _ => "link_status" | _ => "auto_tasks" end.

Definition observed_source (auto poll link : bool) : option string :=
  match ms_get_next_task (sched_assoc auto poll link) 10%Z with
  | MsNNow t => Some (source_of_task t)
  | _ => None
  end.

Definition table_source (auto poll link : bool) : option string :=
  hd_error (filter (fun n => (String.eqb n "auto_tasks" && auto) || (String.eqb n "polls" && poll)
                             || (String.eqb n "link_status" && link)) gm_next_task_sources).

(* every combination of ready sources: the model serves the first one in the generated order *)
Theorem next_task_sources_observed :
  map (fun x => match x with (a, p, l) => observed_source a p l end)
      [(false,false,false); (false,false,true); (false,true,false); (false,true,true);
       (true,false,false); (true,false,true); (true,true,false); (true,true,true)]
  = map (fun x => match x with (a, p, l) => table_source a p l end)
      [(false,false,false); (false,false,true); (false,true,false); (false,true,true);
       (true,false,false); (true,false,true); (true,true,false); (true,true,true)].
Proof. vm_compute. reflexivity. Qed.

(* two associations in ring order [1024; 1025]: the first has an automatic task ready, the second a
   queued user request: the pass that serves first names the winner *)
Definition two_assocs (user_request : bool) : ms_mstate :=
  let a := sched_assoc true false false in
  let b0 := ms_set_integrity_done (ms_set_auto (ms_assoc_new 1025 probe_cfg 0%Z) (ts_of [])) true in
  let b := if user_request then ms_set_queue b0 [(9, MsUKRead 15)] else b0 in
  {| ms_m_now := 10%Z; ms_m_enabled := true; ms_m_assocs := [a; b]; ms_m_ring := [1024; 1025];
     ms_m_phase := MsPIdle None; ms_m_systime := None |}.

Definition observed_pass (user_request : bool) : option string :=
  match ms_map_next_task (two_assocs user_request) with
  | (_, _, MsSNow _ (MsTUserRead _ _)) => Some "priority_task"
  | (_, _, MsSNow _ _) => Some "next_task"
  | _ => None
  end.

Theorem map_next_task_passes_observed :
  observed_pass true = hd_error gm_map_next_task_passes /\
  observed_pass false = hd_error (tl gm_map_next_task_passes).
Proof. vm_compute. split; reflexivity. Qed.

(* admission to the queue of user requests *)
Definition cmp_nat (c : gm_cmp) (a b : nat) : bool := match c with GmLt => Nat.ltb a b | GmLe => Nat.leb a b end.

Theorem queue_admission_agrees : forall now tok k a cfg st t,
  (match ms_err_of (snd gm_queue_admit) with
   | Some e => Some (if cmp_nat (fst gm_queue_admit) (length (ms_a_queue a)) (ms_c_maxq (ms_a_cfg a))
                     then (ms_set_queue a (ms_a_queue a ++ [(tok, k)]), [])
                     else ms_task_error now (ms_user_task tok k) e false a)
   | None => None
   end) = Some (ms_queue_task now true tok k a) /\
  (MT.s_assoc st = true -> MT.s_conn st = true ->
   MT.on_user cfg st tok t
   = if cmp_nat (fst gm_queue_admit) (length (MT.s_queue st)) (MT.c_maxq cfg)
     then (MT.set_queue st (MT.s_queue st ++ [(tok, t)]), [])
     else (st, MT.emit st (MT.ORes tok (MT.RErr MT.ETooMany)))) /\
  snd gm_queue_admit = "TooManyRequests".
Proof.
  intros now tok k a cfg st t. split; [reflexivity|]. split; [|reflexivity].
  intros Ha Hc. unfold MT.on_user. rewrite Ha, Hc. reflexivity.
Qed.

(* ---------------------------------------------------------------------------------------------- *)
(* (g) time synchronisation (TimeSync.v, and the time task of the association model)              *)

Definition proc_name (p : ts_procedure) : string :=
  match p with TsLan => "Lan" | TsNonLan => "NonLan" | TsDirect => "DirectWriteAbsTime" end.

Definition tstate_name (s : ts_state) : string :=
  match s with
  | TsSMeasure _ => "MeasureDelay" | TsSWriteAbs _ => "WriteAbsoluteTime"
  | TsSRecord _ => "RecordCurrentTime" | TsSWriteLast _ => "WriteLastRecordedTime"
  end.

Definition tstate_time (s : ts_state) : Z :=
  match s with TsSMeasure _ => 0%Z | TsSWriteAbs ts | TsSRecord ts | TsSWriteLast ts => ts end.

Theorem timesync_states_agree :
  map tstate_name [TsSMeasure 0; TsSWriteAbs 0; TsSRecord 0; TsSWriteLast 0] = gm_timesync_states /\
  map proc_name [TsLan; TsNonLan; TsDirect] = map fst gm_timesync_start.
Proof. split; reflexivity. Qed.

(* TimeSyncProcedure::get_start_state + TimeSyncTask::start: the first state, and every first state
   samples the master's clock (no clock: the task does not start) *)
Theorem timesync_start_agrees : forall p c now,
  option_map tstate_name (m_start p (Some c) now) = assoc_str (proc_name p) gm_timesync_start /\
  m_start p None now = None /\
  match assoc_str (proc_name p) gm_timesync_start with
  | Some s0 => match assoc_str s0 gm_timesync_clock with
               | Some GmClockRequired | Some GmClockIfUnset => True
               | _ => False
               end
  | None => False
  end.
Proof. intros [| |] c now; repeat split. Qed.

(* the request of a state, octet by octet, from the generated function code and object *)
Definition request_from_table (seq : N) (state : string) (ts : Z) : option (list N) :=
  match assoc_str state gm_timesync_function, assoc_str state gm_timesync_object with
  | Some fc, Some None => Some [192 + seq; fc]
  | Some fc, Some (Some (g, v)) =>
      Some ([192 + seq; fc; g; v; gm_count_of_one_qualifier; gm_count_of_one_count] ++ le48 ts)
  | _, _ => None
  end.

Theorem timesync_request_agrees : forall seq s,
  request_from_table seq (tstate_name s) (tstate_time s) = Some (ts_enc_req seq (ts_req_of s)).
Proof. intros seq [x|x|x|x]; reflexivity. Qed.

(* TimeSyncTask::handle: the state after an accepted response *)
Theorem timesync_next_agrees : forall s clk now need o,
  match m_handle s clk now need o with
  | TsNext s' => assoc_str (tstate_name s) gm_timesync_next = Some (Some (tstate_name s'))
  | TsDone => assoc_str (tstate_name s) gm_timesync_next = Some None
  | TsFail _ => True
  end.
Proof.
  intros [x|x|x|x] clk now need o; cbn [m_handle].
  - destruct o; try exact I. destruct (now - x <? d)%Z; [exact I|]. destruct clk; [|exact I].
    destruct (ts_checked_add _ _); [reflexivity|exact I].
  - destruct o; try exact I. destruct need; [exact I|reflexivity].
  - destruct o; try exact I. reflexivity.
  - destruct o; try exact I. destruct need; [exact I|reflexivity].
Qed.

(* the whole procedure: function code and object header of every request of an undisturbed run *)
Definition good_objs (s : ts_state) : ts_robjs := match s with TsSMeasure _ => TsODelay 0 | _ => TsONone end.

Fixpoint model_steps (fuel : nat) (s : ts_state) : list (N * list N) :=
  match fuel with
  | O => []
  | S k =>
      let req := match ts_enc_req 0 (ts_req_of s) with _ :: fc :: objs => (fc, firstn 4 objs) | _ => (0, []) end in
      req :: match m_handle s (Some 1000%Z) 10%Z false (good_objs s) with
             | TsNext s' => model_steps k s'
             | _ => []
             end
  end.

Definition model_procedure (p : ts_procedure) : list (N * list N) :=
  match m_start p (Some 1000%Z) 0%Z with Some s => model_steps 4 s | None => [] end.

Fixpoint table_steps (fuel : nat) (state : string) : list (N * list N) :=
  match fuel with
  | O => []
  | S k =>
      match assoc_str state gm_timesync_function, assoc_str state gm_timesync_object, assoc_str state gm_timesync_next with
      | Some fc, Some ob, Some nx =>
          (fc, match ob with Some (g, v) => [g; v; gm_count_of_one_qualifier; gm_count_of_one_count] | None => [] end)
          :: match nx with Some s' => table_steps k s' | None => [] end
      | _, _, _ => []
      end
  end.

Definition table_procedure (p : string) : list (N * list N) :=
  match assoc_str p gm_timesync_start with Some s => table_steps 4 s | None => [] end.

Theorem timesync_procedures_agree :
  map model_procedure [TsLan; TsNonLan; TsDirect] = map table_procedure ["Lan"; "NonLan"; "DirectWriteAbsTime"].
Proof. vm_compute. reflexivity. Qed.

(* the failure reported when several conditions hold at once: the first one in the generated order *)
Definition terr_name (e : ts_err) : string :=
  match e with
  | TsETimeout => "ResponseTimeout" | TsEIin2 => "RejectedByIin2" | TsEHeaders => "UnexpectedResponseHeaders"
  | TsEMultiFrag => "MultiFragmentResponse" | TsEDelay _ => "BadOutstationTimeDelay" | TsEOverflow => "Overflow"
  | TsENeedTime => "StillNeedsTime" | TsENoSysTime => "SystemTimeNotAvailable"
  end.

(* when does a named check fail; `ObjectHeader` (get_only_object_header) and the Group52Var2 test are both
   "the objects are not exactly one g52v2 with count one", reported alike by the model *)
Definition tcheck_fails (s : ts_state) (clk : option Z) (now : Z) (need : bool) (o : ts_robjs) (n : string)
  : option (bool * string) :=
  let not_delay := match o with TsODelay _ => false | _ => true end in
  let not_none := match o with TsONone => false | _ => true end in
  let measuring := match s with TsSMeasure _ => true | _ => false end in
  if String.eqb n "ClockRollback" then Some (false, n)       (* tokio's Instant is monotonic *)
  else if String.eqb n "ObjectHeader" then Some (not_delay, "UnexpectedResponseHeaders")
  else if String.eqb n "UnexpectedResponseHeaders" then Some (if measuring then not_delay else not_none, n)
  else if String.eqb n "BadOutstationTimeDelay"
       then Some (match s, o with TsSMeasure st, TsODelay d => (now - st <? d)%Z | _, _ => false end, n)
  else if String.eqb n "SystemTimeNotAvailable" then Some (match clk with None => true | Some _ => false end, n)
  else if String.eqb n "Overflow"
       then Some (match s, o, clk with
                  | TsSMeasure st, TsODelay d, Some c => (gm_timestamp_max - c <? (now - st - d) / gm_propagation_divisor)%Z
                  | _, _, _ => false end, n)
  else if String.eqb n "StillNeedsTime" then Some (need, n)
  else None.

Fixpoint first_failure (l : list string) (chk : string -> option (bool * string)) : option (option string) :=
  match l with
  | [] => Some None
  | n :: r => match chk n, first_failure r chk with
              | Some (b, name), Some rest => Some (if b then Some name else rest)
              | _, _ => None
              end
  end.

Definition model_failure (s : ts_state) (clk : option Z) (now : Z) (need : bool) (o : ts_robjs) : option string :=
  match m_handle s clk now need o with TsFail e => Some (terr_name e) | _ => None end.

Definition table_failure (s : ts_state) (clk : option Z) (now : Z) (need : bool) (o : ts_robjs) : option (option string) :=
  match assoc_str (tstate_name s) gm_timesync_checks with
  | Some l => first_failure l (tcheck_fails s clk now need o)
  | None => None
  end.

Theorem timesync_checks_agree :
  forallb (fun s => forallb (fun clk => forallb (fun now => forallb (fun need => forallb (fun o =>
     match table_failure s clk now need o, model_failure s clk now need o with
     | Some (Some a), Some b => String.eqb a b
     | Some None, None => true
     | _, _ => false
     end)
     [TsONone; TsODelay 5; TsOOther]) [false; true]) [3%Z; 100%Z]) [None; Some 100%Z; Some 281474976710655%Z])
     [TsSMeasure 0; TsSWriteAbs 7; TsSRecord 7; TsSWriteLast 7] = true.
Proof. vm_compute. reflexivity. Qed.

(* the constants: Timestamp::MAX_VALUE, the halving of the round trip *)
Theorem timesync_constants_agree : forall v d start c now need dl,
  ts_max = gm_timestamp_max /\ ms_ts_max = gm_timestamp_max /\ (gm_timestamp_max = 2 ^ 48 - 1)%Z /\
  ts_checked_add v d = (if (d >? gm_timestamp_max - v)%Z then None else Some (v + d)%Z) /\
  ((dl <= now - start)%Z ->
   m_handle (TsSMeasure start) (Some c) now need (TsODelay dl)
   = match ts_checked_add c ((now - start - dl) / gm_propagation_divisor) with
     | Some ts => TsNext (TsSWriteAbs ts)
     | None => TsFail TsEOverflow
     end).
Proof.
  intros v d start c now need dl. repeat split.
  intros H. cbn [m_handle]. destruct (now - start <? dl)%Z eqn:E; [apply Z.ltb_lt in E; lia|reflexivity].
Qed.

(* the response validation of the time task is validate_non_read_response (one outstation: no foreign
   source; the response function is tested before) *)
Definition ts_check (ctl iin2 : N) (t : ts_mtask) (n : string) : option bool :=
  if String.eqb n "unsolicited" then Some false
  else if String.eqb n "source" then Some false
  else if String.eqb n "sequence" then Some (negb (ctl mod 16 =? mt_seq t))
  else if String.eqb n "fir_and_fin" then Some (negb (N.testbit ctl 7 && N.testbit ctl 6))
  else if String.eqb n "iin2" then Some (negb (N.land iin2 7 =? 0))
  else None.

Definition ts_err_of (e : string) : option ts_err :=
  if String.eqb e "MultiFragmentResponse" then Some TsEMultiFrag
  else if String.eqb e "RejectedByIin2" then Some TsEIin2
  else None.

Definition ts_accept (cfg : ts_cfg) (s : ts_sim) (t : ts_mtask) (iin1 : N) (objs : list N) : ts_sim * list ts_obs :=
  match m_handle (mt_state t) (ts_clock (tss_on s) (tsc_c0 cfg) (tss_now s)) (tss_now s)
                 (N.testbit iin1 4) (ts_classify_objs objs) with
  | TsFail e => m_finish cfg s (mt_token t) (Some e)
  | TsDone => m_finish cfg s (mt_token t) None
  | TsNext st =>
      let sq := tm_seq (tss_m s) in
      let s1 := ts_set_m s {| tm_seq := ts_seq_next sq;
                              tm_cur := Some {| mt_token := mt_token t; mt_state := st; mt_seq := sq;
                                               mt_deadline := (tss_now s + tsc_tmo cfg)%Z |};
                              tm_q := tm_q (tss_m s) |} in
      ts_master_wrote s1 (ts_enc_req sq (ts_req_of st))
  end.

Theorem timesync_validation_is_table : forall cfg s t ctl iin1 iin2 objs,
  tm_cur (tss_m s) = Some t -> N.testbit iin1 7 = false -> N.testbit ctl 4 = false ->
  validate_dispatch gm_validate_non_read_response (ts_check ctl iin2 t) (s, []) (s, [])
    (fun e => option_map (fun x => m_finish cfg s (mt_token t) (Some x)) (ts_err_of e))
    (ts_accept cfg s t iin1 objs)
  = Some (m_deliver cfg s (ctl :: 129 :: iin1 :: iin2 :: objs)).
Proof.
  intros cfg s t ctl iin1 iin2 objs Hc Hr Hu. unfold m_deliver. cbv zeta. rewrite Hr, Hu, Hc. reflexivity.
Qed.

(* ---- the time task of the association model (C17: automatic time synchronisation) ---- *)
Definition tsync_code (p : string) : option N :=
  if String.eqb p "Lan" then Some 1 else if String.eqb p "NonLan" then Some 2
  else if String.eqb p "DirectWriteAbsTime" then Some 3 else None.

Definition ms_state_time (st : ms_tsync_state) : Z :=
  match st with MsTsWriteAbs ts => ms_ts_or_zero ts | MsTsWriteLast ts => ts | _ => 0%Z end.

Theorem ms_timesync_agrees : forall st promise seq,
  forallb (fun r => match tsync_code (fst r) with
                    | Some p => String.eqb (ts_state_name (ms_tsync_start_state p)) (snd r)
                    | None => false end) gm_timesync_start = true /\
  (match assoc_str (ts_state_name st) gm_timesync_function, assoc_str (ts_state_name st) gm_timesync_object with
   | Some fc, Some None => Some [192 + seq; fc]
   | Some fc, Some (Some (g, v)) =>
       Some ([192 + seq; fc; g; v; gm_count_of_one_qualifier; gm_count_of_one_count] ++ ms_le48 (ms_state_time st))
   | _, _ => None
   end) = Some (ms_request_bytes seq (MsTTimeSync st promise)).
Proof. intros [x|x|x|x] promise seq; split; reflexivity. Qed.

(* the continuation of the time task in the association model follows gm_timesync_next *)
Theorem ms_timesync_next_agrees : forall now sys st p f a,
  match snd (ms_nonread_handle now sys (MsTTimeSync st p) f a) with
  | MsHContinue (MsTTimeSync st' _) => assoc_str (ts_state_name st) gm_timesync_next = Some (Some (ts_state_name st'))
  | MsHContinue _ => False
  | MsHComplete => assoc_str (ts_state_name st) gm_timesync_next = Some None
  | MsHError _ => True
  end.
Proof.
  intros now sys [t0|ts|ts|ts] p f a; cbn [ms_nonread_handle].
  - destruct (if ms_r_ok f then ms_r_delay f else None) as [d|].
    + destruct (_ <? d)%Z.
      * destruct (ms_tsync_report _ _ _ _); exact I.
      * destruct (ms_system_time sys now).
        -- destruct (_ <? _)%Z; [destruct (ms_tsync_report _ _ _ _); exact I|reflexivity].
        -- destruct (ms_tsync_report _ _ _ _); exact I.
    + destruct (ms_tsync_report _ _ _ _); exact I.
  - destruct (ms_has_objects f); [destruct (ms_tsync_report _ _ _ _); exact I|].
    destruct (ms_iin_need_time f); destruct (ms_tsync_report _ _ _ _); [exact I|reflexivity].
  - destruct (ms_has_objects f); [destruct (ms_tsync_report _ _ _ _); exact I|reflexivity].
  - destruct (ms_has_objects f); [destruct (ms_tsync_report _ _ _ _); exact I|].
    destruct (ms_iin_need_time f); destruct (ms_tsync_report _ _ _ _); [exact I|reflexivity].
Qed.

End MTab.
