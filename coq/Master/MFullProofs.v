(* Master/MFullProofs.v — theorems about the composed master model (Master/MFull.v).

   1. the header half of MParse.parse_response IS the header parser of App/AppHeader.v followed by
      `to_response` ([parse_response_header], [header_parse_response]);
   2. [mverdict] decided by the Grammar: none iff the application header does not parse, otherwise ok / bad
      as the validating pass over the object headers says ([mverdict_spec], [mverdict_response]); bad whenever
      the first object header is malformed ([mverdict_first_header_malformed]);
   3. theorems of Master/MTaskProofs.v transported to octets: the verdict hypothesis `v = VOk` becomes the
      Grammar fact `avalidate .. objs = AOk _`, the items of the event become [MF.mitems frag]
      ([composed_read_fragment_rule], [composed_handler_items]). *)
From Dnp3V Require Import Base.Bytes App.Grammar gen.Conversions App.Convert.
From Dnp3V Require Import Master.MParse Master.Command Master.MTask Master.MTaskProofs Master.MFull.
Import ListNotations.
Import MP MCmd MT.
Open Scope N_scope.

(* ---------------------------------------------------------------------------------------- *)
(* bits and masks *)

Lemma testbit_mask c n : N.testbit c n = negb (N.land c (2 ^ n) =? 0).
Proof.
  destruct (N.testbit c n) eqn:E.
  - destruct (N.land c (2 ^ n) =? 0) eqn:Z; [|reflexivity].
    apply N.eqb_eq in Z.
    assert (H : N.testbit (N.land c (2 ^ n)) n = true).
    { rewrite N.land_spec, E, N.pow2_bits_true. reflexivity. }
    rewrite Z, N.bits_0 in H. discriminate.
  - assert (Z : N.land c (2 ^ n) = 0).
    { apply N.bits_inj. intros m. rewrite N.land_spec, N.bits_0, N.pow2_bits_eqb.
      destruct (n =? m) eqn:Em.
      - apply N.eqb_eq in Em. subst m. rewrite E. reflexivity.
      - apply Bool.andb_false_r. }
    rewrite Z. reflexivity.
Qed.

Lemma c_uns_mask c : c_uns c = ac_uns (actl_of c).
Proof. unfold c_uns, actl_of, ac_uns, amask_set, ctrl_uns_mask. change 16 with (2 ^ 4). apply testbit_mask. Qed.
Lemma c_fir_mask c : c_fir c = ac_fir (actl_of c).
Proof. unfold c_fir, actl_of, ac_fir, amask_set, ctrl_fir_mask. change 128 with (2 ^ 7). apply testbit_mask. Qed.
Lemma c_fin_mask c : c_fin c = ac_fin (actl_of c).
Proof. unfold c_fin, actl_of, ac_fin, amask_set, ctrl_fin_mask. change 64 with (2 ^ 6). apply testbit_mask. Qed.

(* ---------------------------------------------------------------------------------------- *)
(* 1. MParse.parse_response = AppHeader.aparse_header ; ato_response *)

Definition resp_function (h : rhdr) : N := if h_unsol h then fc_unsolicited_response else fc_response.

Lemma parse_response_header frag h objs :
  parse_response frag = PResponse h objs ->
  exists ah, aparse_header frag = AOk (ah, objs) /\ ato_response ah = None /\
    ah_control ah = actl_of (h_ctrl h) /\ ah_function ah = resp_function h /\
    ah_iin ah = Some (h_iin1 h, h_iin2 h).
Proof.
  unfold parse_response. destruct frag as [|c [|f [|i1 [|i2 r]]]]; try discriminate.
  destruct (f =? 129) eqn:E1.
  - apply N.eqb_eq in E1. subst f. destruct (c_uns c) eqn:Eu; [discriminate|].
    intros H. injection H as <- <-.
    eexists. split; [reflexivity|]. cbn [ah_control ah_function ah_iin h_ctrl h_unsol h_iin1 h_iin2 resp_function].
    split; [|repeat split].
    unfold ato_response. cbn [ah_iin ah_function ah_control].
    rewrite <- (c_uns_mask c), Eu. reflexivity.
  - destruct (f =? 130) eqn:E2; [|discriminate].
    apply N.eqb_eq in E2. subst f.
    destruct (c_uns c && c_fir c && c_fin c) eqn:Eb; [|discriminate].
    apply Bool.andb_true_iff in Eb. destruct Eb as [Eb Efin]. apply Bool.andb_true_iff in Eb. destruct Eb as [Eu Efir].
    intros H. injection H as <- <-.
    eexists. split; [reflexivity|]. cbn [ah_control ah_function ah_iin h_ctrl h_unsol h_iin1 h_iin2 resp_function].
    split; [|repeat split].
    unfold ato_response. cbn [ah_iin ah_function ah_control].
    rewrite <- (c_uns_mask c), <- (c_fir_mask c), <- (c_fin_mask c), Eu, Efir, Efin. reflexivity.
Qed.

Lemma header_parse_response frag ah objs :
  aparse_header frag = AOk (ah, objs) -> ato_response ah = None ->
  exists h, parse_response frag = PResponse h objs.
Proof.
  unfold aparse_header. destruct frag as [|c [|f r]]; try discriminate.
  destruct (afunction_known f); [|discriminate].
  destruct (afunction_has_iin f) eqn:Ei.
  - destruct r as [|i1 [|i2 r']]; try discriminate.
    intros H. injection H as <- <-.
    unfold ato_response. cbn [ah_iin ah_function ah_control].
    unfold afunction_has_iin, fc_response, fc_unsolicited_response in Ei.
    unfold parse_response, fc_unsolicited_response.
    rewrite <- (c_uns_mask c), <- (c_fir_mask c), <- (c_fin_mask c).
    destruct (f =? 129) eqn:E1.
    + apply N.eqb_eq in E1. subst f. cbn [N.eqb Pos.eqb negb andb].
      destruct (c_uns c); [discriminate|]. intros _. eexists. reflexivity.
    + cbn [orb] in Ei. rewrite Ei. cbn [negb andb].
      destruct (c_uns c); cbn [negb andb]; [|discriminate].
      destruct (c_fir c && c_fin c) eqn:Eb; cbn [negb]; [|discriminate].
      intros _. eexists. reflexivity.
  - intros H. injection H as <- <-. unfold ato_response. cbn [ah_iin]. discriminate.
Qed.

(* the two header parsers reject the same fragments *)
Theorem parse_response_error_iff frag :
  parse_response frag = PError <->
  match aparse_header frag with
  | AOk (ah, _) => ato_response ah <> None
  | AErr _ => True
  end.
Proof.
  split.
  - intros He. destruct (aparse_header frag) as [[ah objs]|e] eqn:Ea; [|exact I].
    intros Hn. destruct (header_parse_response _ _ _ Ea Hn) as (h & Hp). rewrite Hp in He. discriminate.
  - intros H. destruct (parse_response frag) as [|h objs] eqn:Hp; [reflexivity|].
    destruct (parse_response_header _ _ _ Hp) as (ah & Ea & Hn & _). rewrite Ea in H. contradiction.
Qed.

(* ---------------------------------------------------------------------------------------- *)
(* 2. the verdict *)

(* [mverdict] is a total function of the octets, decided by the two passes of the Grammar *)
Theorem mverdict_spec frag :
  match aparse_header frag with
  | AErr _ => MF.mverdict frag = VNone
  | AOk (ah, objs) =>
      match avalidate MF.mopts (ah_function ah) objs with
      | AOk _ => MF.mverdict frag = VOk
      | AErr _ => MF.mverdict frag = VBad
      end
  end.
Proof.
  unfold MF.mverdict, parse_fragment. destruct (aparse_header frag) as [[ah objs]|e]; [|reflexivity].
  cbn [pf_objects]. destruct (avalidate MF.mopts (ah_function ah) objs); reflexivity.
Qed.

Lemma mverdict_response frag h objs :
  parse_response frag = PResponse h objs ->
  MF.mverdict frag = match avalidate MF.mopts (resp_function h) objs with AOk _ => VOk | AErr _ => VBad end.
Proof.
  intros Hp. destruct (parse_response_header _ _ _ Hp) as (ah & Ea & _ & _ & Hf & _).
  pose proof (mverdict_spec frag) as Hs. rewrite Ea, Hf in Hs.
  destruct (avalidate MF.mopts (resp_function h) objs); exact Hs.
Qed.

(* a fragment the task model looks at is never without a verdict *)
Corollary mverdict_response_not_none frag h objs :
  parse_response frag = PResponse h objs -> MF.mverdict frag <> VNone.
Proof.
  intros Hp. rewrite (mverdict_response _ _ _ Hp).
  destruct (avalidate MF.mopts (resp_function h) objs); discriminate.
Qed.

Lemma avalidate_first_error o fc objs e :
  objs <> [] -> aparse_one o fc objs = AErr e -> avalidate o fc objs = AErr e.
Proof.
  intros Hne He. unfold avalidate. destruct objs as [|x l]; [contradiction|].
  cbn [length aone_pass]. rewrite He. reflexivity.
Qed.

(* a malformed FIRST object header makes the whole object section bad (the validating pass of
   ObjectParser::parse stops at the first error) *)
Theorem mverdict_first_header_malformed frag h objs e :
  parse_response frag = PResponse h objs -> objs <> [] ->
  aparse_one MF.mopts (resp_function h) objs = AErr e ->
  MF.mverdict frag = VBad.
Proof.
  intros Hp Hne He. rewrite (mverdict_response _ _ _ Hp), (avalidate_first_error _ _ _ _ Hne He). reflexivity.
Qed.

(* an empty object section is well-formed *)
Lemma mverdict_null_response frag h :
  parse_response frag = PResponse h [] -> MF.mverdict frag = VOk.
Proof. intros Hp. rewrite (mverdict_response _ _ _ Hp). reflexivity. Qed.

(* ---------------------------------------------------------------------------------------- *)
(* 3. transport of the task theorems to octets *)

Lemma compute_event_rx ev src frag v items :
  MF.compute_event ev = ERx src frag v items ->
  exists v0 items0, ev = ERx src frag v0 items0 /\ v = MF.mverdict frag /\ items = MF.mitems frag.
Proof.
  destruct ev as [s f w its|ms|tok t| | | | | |]; cbn [MF.compute_event]; try discriminate.
  intros H. injection H as <- <- <- <-. eauto.
Qed.

Lemma nth_error_map_inv {A B} (f : A -> B) l k y :
  nth_error (map f l) k = Some y -> exists x, nth_error l k = Some x /\ f x = y.
Proof.
  revert k. induction l as [|a l IH]; intros [|k] H; cbn in H; try discriminate.
  - injection H as <-. exists a. split; reflexivity.
  - apply IH. exact H.
Qed.

(* the history of a composed run *)
Definition fhist (cfg : mcfg) (evs : list mevent) (k : nat) : list tobs := concat (firstn (S k) (MF.run cfg evs)).

(* C15 read_fragment_rule over octets: a fragment is handed to the handler as part of the answer to a READ
   only if its octets parse as a solicited response of the addressed outstation whose OBJECT HEADERS ALL
   PARSE (Grammar), which is not an IIN2 rejection and which is the next fragment of the answer to the last
   request - whatever verdict and items the script attached to the event *)
Theorem composed_read_fragment_rule : forall cfg evs k o rt hdr,
  nth_error (MF.run cfg evs) (S k) = Some o -> In (OCbBegin rt hdr) (map snd o) -> rt <> RtUnsol ->
  exists src frag v0 items0 h objs r c,
    nth_error evs k = Some (ERx src frag v0 items0) /\ parse_response frag = PResponse h objs /\
    h_unsol h = false /\ hdr = hdr_bytes h /\ src = c_addr cfg /\
    avalidate MF.mopts fc_response objs = AOk c /\ iin2_bad (h_iin2 h) = false /\
    last_request (fhist cfg evs k) = Some r /\ rq_fc r = 1 /\ answers r h.
Proof.
  intros cfg evs k o rt hdr Hn Hin Hrt. unfold MF.run in Hn.
  destruct (read_fragment_rule _ _ _ _ _ _ Hn Hin Hrt)
    as (src & frag & v & items & h & objs & r & Hev & Hp & Hu & Hh & Hs & Hv & Hi & Hl & Hfc & Hans).
  destruct (nth_error_map_inv _ _ _ _ Hev) as (ev0 & Hev0 & Hc).
  destruct (compute_event_rx _ _ _ _ _ Hc) as (v0 & items0 & -> & Hv' & _).
  rewrite Hv in Hv'. symmetry in Hv'. rewrite (mverdict_response _ _ _ Hp) in Hv'.
  unfold resp_function in Hv'. rewrite Hu in Hv'.
  destruct (avalidate MF.mopts fc_response objs) as [c|e] eqn:Ev; [|discriminate].
  exists src, frag, v0, items0, h, objs, r, c.
  split; [exact Hev0|]. split; [exact Hp|]. split; [exact Hu|]. split; [exact Hh|]. split; [exact Hs|].
  split; [exact Ev|]. split; [exact Hi|]. split; [exact Hl|]. split; [exact Hfc|exact Hans].
Qed.

(* every measurement the handler receives in a step was computed from the octets of the fragment received in
   that step (Grammar headers + conversion model), and that fragment's object section is well-formed *)
Theorem composed_handler_items : forall cfg evs k o it,
  nth_error (MF.run cfg evs) (S k) = Some o -> In (OCbItem it) (map snd o) ->
  exists src frag v0 items0,
    nth_error evs k = Some (ERx src frag v0 items0) /\ In it (MF.mitems frag).
Proof.
  intros cfg evs k o it Hn Hin. unfold MF.run in Hn.
  destruct (run_nth _ _ _ _ Hn) as (ev & Hev & ->).
  assert (Hc : In (OCbItem it) (cbs (snd (mstep cfg (final cfg (firstn k (map MF.compute_event evs))) ev)))).
  { unfold cbs. apply filter_In. split; [exact Hin|reflexivity]. }
  rewrite delivered_step in Hc.
  destruct (nth_error_map_inv _ _ _ _ Hev) as (ev0 & Hev0 & Hce).
  destruct (delivers cfg _ ev) as [[[rt hdr] items]|] eqn:Hd; [|contradiction].
  destruct ev as [src frag v its|ms|tok t| | | | | |]; try discriminate.
  destruct (compute_event_rx _ _ _ _ _ Hce) as (v0 & items0 & -> & _ & Hits).
  exists src, frag, v0, items0. split; [exact Hev0|].
  assert (items = its).
  { unfold delivers in Hd. destruct (negb _ && _); [|discriminate].
    destruct (parse_response frag) as [|h objs]; [discriminate|].
    destruct (h_unsol h).
    - destruct (_ && _); [|discriminate]. injection Hd as _ _ <-. reflexivity.
    - destruct (s_run _); try discriminate. destruct (accepts_solicited _ _ _ _ _); [|discriminate].
      injection Hd as _ _ <-. reflexivity. }
  subst items. rewrite <- Hits.
  cbn [bracket] in Hc. destruct Hc as [Hc|Hc]; [discriminate|].
  apply in_app_or in Hc. destruct Hc as [Hc|Hc].
  - apply in_map_iff in Hc. destruct Hc as (x & Hx & Hi). injection Hx as ->. exact Hi.
  - destruct Hc as [Hc|[]]. discriminate.
Qed.

(* the oracle inputs of a script do not matter to the composed model *)
Theorem composed_ignores_oracle_inputs : forall cfg evs evs',
  map MF.compute_event evs = map MF.compute_event evs' -> MF.run cfg evs = MF.run cfg evs'.
Proof. intros cfg evs evs' H. unfold MF.run. rewrite H. reflexivity. Qed.

Lemma compute_event_idem ev : MF.compute_event (MF.compute_event ev) = MF.compute_event ev.
Proof. destruct ev; reflexivity. Qed.

(* ... and when they are what the composed model computes, the task model of C15 / C16 and the composed model
   are the same function *)
Theorem composed_agrees_with_honest_oracle : forall cfg evs,
  Forall (fun ev => MF.compute_event ev = ev) evs -> MF.run cfg evs = MT.run cfg evs.
Proof.
  intros cfg evs H. unfold MF.run. f_equal. induction H as [|ev l He _ IH]; [reflexivity|].
  cbn [map]. rewrite He, IH. reflexivity.
Qed.

(* the common time of occurrence of the composed model is the one of the conversion model *)
Lemma cto_of_is_extract cto v t r : extract cto (HCto v t :: r) = extract (MF.cto_of v t) r.
Proof. reflexivity. Qed.

(* the second pass over the headers happens exactly when the verdict is ok *)
Lemma fragment_headers_ok frag :
  (exists hs, MF.fragment_headers frag = Some hs) <-> MF.mverdict frag = VOk.
Proof.
  unfold MF.fragment_headers, MF.mverdict, headers_of.
  destruct (parse_fragment MF.mopts frag) as [pf|e].
  - destruct (pf_objects pf) as [c|e].
    + split; [reflexivity|]. intros _. eexists. reflexivity.
    + split; [intros [hs H]; discriminate|discriminate].
  - split; [intros [hs H]; discriminate|discriminate].
Qed.

(* without a well-formed object section nothing is delivered and nothing is outside the model *)
Lemma not_ok_no_items frag : MF.mverdict frag <> VOk -> MF.mitems frag = [] /\ MF.mcovered frag = true.
Proof.
  intros H. unfold MF.mitems, MF.mcovered, MF.fragment_items.
  destruct (MF.fragment_headers frag) as [hs|] eqn:E; [|split; reflexivity].
  exfalso. apply H. apply fragment_headers_ok. eauto.
Qed.
