(* Master/MFull.v — the COMPOSED master model: nothing but the script is an input.

   Master/MTask.v takes as ORACLE INPUTS of every receive event (a) the verdict of the real parser on
   the fragment ([MT.verdict]: ok / bad / none) and (b) the measurement items `extract_measurements`
   hands to the ReadHandler (opaque tokens).  Here both are COMPUTED from the received octets:

     1. [mverdict]  : the verdict, computed with App/Grammar.v exactly as /verif/harness/master.rs
                      `parser_verdict` computes it from the crate's parser: ParsedFragment::parse fails
                      (too short, unknown function code, response without IIN) -> none; the object
                      section (HeaderCollection::parse = ObjectParser::parse, validating first pass)
                      has an error -> bad; otherwise ok.
     2. [mitems]    : the items, computed from the parsed object headers (Grammar.v, second pass =
                      [aiter_headers]) with the conversion model of property C10 (App/Convert.v
                      [extract_range] / [extract_prefix] / the running common time of occurrence of
                      [extract]), in the order master/extract.rs `extract_measurements_inner` walks the
                      headers, and printed as the character codes of the token
                      /verif/harness/master.rs prints for each measurement:
                         <kind>/g<G>v<V>/<qualifier %02x>/e<is_event>f<has_flags>/<index>=<value>,<flags %02x>,<time>
                      (octet strings: ...=<hex>; absolute time g50v1: abs/g50v1/<q>/e0f0/0=<ms>).
     3. [mcovered]  : false when a well-formed object section contains a header whose callbacks are not
                      described here (device attributes g0, command events g13 / g43): the engine then
                      marks the script `model-unmodelled` and it is not compared.  Analog dead-bands (g34
                      with a range) and g102 are not in the conversion model either but are printed
                      directly ([raw_range_items]).
     4. [run]       : MT.run after every receive event was given the computed verdict and items
                      (whatever verdict / items the event carried are dropped).

   Headers that reach no handler in the implementation (all-objects headers, count headers other than
   g50v1 / g51, free-format headers, variation 0, g80, command and dead-band echoes g12 / g41 / g34 with
   a prefix) are MODELLED as delivering nothing (`_ => false` arms of extract.rs and of
   app/gen/{ranged,prefixed}.rs).

   Definitions only (theorems: Master/MFullProofs.v).  MTask.v, MParse.v, Grammar.v and Convert.v are
   used as they are. *)
From Dnp3V Require Import Base.Bytes App.Grammar gen.Conversions App.Convert.
From Dnp3V Require Import Master.MParse Master.Command Master.MTask.
Import ListNotations.
Open Scope N_scope.

Module MF.

(* ================================================================================================ *)
(* 1. the verdict                                                                                    *)

(* ParseOptions::default(): zero-length octet strings are rejected (harness/master.rs creates the
   MasterTask and calls the parser with ParseOptions::default()) *)
Definition mopts : aopts := {| ao_zero_length_strings := false |}.

Definition mverdict (frag : list N) : MT.verdict :=
  match parse_fragment mopts frag with
  | AErr _ => MT.VNone
  | AOk pf => match pf_objects pf with AOk _ => MT.VOk | AErr _ => MT.VBad end
  end.

(* ================================================================================================ *)
(* 2. text: the character codes of what format!() prints                                             *)

Definition ch_digit (d : N) : N := if d <? 10 then 48 + d else 87 + d.      (* '0'.. , 'a'.. *)

Fixpoint dec_go (fuel : nat) (x : N) (acc : list N) : list N :=
  match fuel with
  | O => acc
  | S f => let acc' := ch_digit (x mod 10) :: acc in
           if x / 10 =? 0 then acc' else dec_go f (x / 10) acc'
  end.

(* "{}" of an unsigned integer: a number has at most log2 x + 1 decimal digits *)
Definition dec_chars (x : N) : list N := dec_go (S (N.to_nat (N.log2 x))) x [].

Fixpoint hex_go (w : nat) (x : N) (acc : list N) : list N :=
  match w with O => acc | S k => hex_go k (x / 16) (ch_digit (x mod 16) :: acc) end.

(* "{:0wx}" of a number below 16^w *)
Definition hex_chars (w : nat) (x : N) : list N := hex_go w x [].

(* harness `hex`: two digits per octet, "-" for the empty string *)
Definition hex_bytes (l : list N) : list N :=
  match l with [] => [45] | _ => flat_map (hex_chars 2) l end.

Definition bit_char (b : bool) : list N := [if b then 49 else 48].

Definition kind_chars (t : otype) : list N :=
  match t with
  | OT BI => [98; 105]                      (* bi *)
  | OT DBI => [100; 98; 105]                (* dbi *)
  | OT BOS => [98; 111; 115]                (* bos *)
  | OT CTR => [99; 116; 114]                (* ctr *)
  | OT FCTR => [102; 99; 116; 114]          (* fctr *)
  | OT AI => [97; 105]                      (* ai *)
  | OT FAI => [102; 97; 105]                (* fai *)
  | OT AOS => [97; 111; 115]                (* aos *)
  | OOct => [111; 99; 116; 101; 116]        (* octet *)
  end.

(* harness `info_text`: <kind>/g<G>v<V>/<qualifier>/e<is_event>f<has_flags> *)
Definition info_chars (kind : list N) (g v q : N) (ie hf : bool) : list N :=
  kind ++ [47; 103] ++ dec_chars g ++ [118] ++ dec_chars v ++ [47] ++ hex_chars 2 q
       ++ [47; 101] ++ bit_char ie ++ [102] ++ bit_char hf.

(* harness `time_text` *)
Definition time_chars (t : option (tq * N)) : list N :=
  match t with
  | None => [110]
  | Some (Sync, x) => 115 :: dec_chars x
  | Some (Unsync, x) => 117 :: dec_chars x
  end.

Definition analog_type (t : mtype) : bool :=
  match t with AI | AOS | FAI => true | _ => false end.

(* one measurement line of the ReadHandler of harness/master.rs (without the leading `cb `) *)
Definition meas_chars (g v q : N) (ie hf : bool) (t : otype) (idx : N) (m : cmeas) : list N :=
  info_chars (kind_chars t) g v q ie hf ++ [47] ++ dec_chars idx ++ [61] ++
  match t with
  | OOct => hex_bytes (cm_bytes m)
  | OT ty =>
      (if analog_type ty then hex_chars 16 (cm_value m) else dec_chars (cm_value m))
      ++ [44] ++ hex_chars 2 (cm_flags m) ++ [44] ++ time_chars (cm_time m)
  end.

(* what the ReadHandler is given: a measurement with the HeaderInfo of its header, or an absolute time *)
Inductive mitem :=
| MiMeas (g v q : N) (ie hf : bool) (t : otype) (idx : N) (m : cmeas)
| MiAbs (q t : N)
| MiText (chars : list N).      (* analog dead-bands g34 and unsigned integers g102 with a range: printed at once *)

(* handle_abs_time: HeaderInfo::new(variation, qualifier, false, false), item.time *)
Definition abs_chars (q t : N) : list N :=
  info_chars [97; 98; 115] 50 1 q false false ++ [47; 48; 61] ++ dec_chars t.

Definition item_chars (it : mitem) : list N :=
  match it with
  | MiMeas g v q ie hf t idx m => meas_chars g v q ie hf t idx m
  | MiAbs q t => abs_chars q t
  | MiText c => c
  end.

(* the observations of ONE header of the conversion model (an [OHdr] followed by its [OMeas]) as
   items; the qualifier is the one of the received header (Convert.v knows 0x01 and 0x28 only) *)
Fixpoint obs_items (q : N) (cur : option (N * N * bool * bool)) (l : list obs) : list mitem :=
  match l with
  | [] => []
  | OHdr g v _ ie hf :: r => obs_items q (Some (g, v, ie, hf)) r
  | OMeas t idx m :: r =>
      match cur with
      | Some (g, v, ie, hf) => MiMeas g v q ie hf t idx m :: obs_items q cur r
      | None => obs_items q cur r
      end
  end.

(* ================================================================================================ *)
(* 3. from the headers of Grammar.v to the headers of Convert.v                                      *)

(* the (index, object octets) pairs of a count-and-prefix header: `data` is exactly
   (psize + size) * count octets long (Grammar.v [aparse_prefixed]) *)
Fixpoint split_items (fuel : nat) (psize size : nat) (d : list N) : list (N * list N) :=
  match fuel with
  | O => []
  | S f =>
      match d with
      | [] => []
      | _ => (le_dec (firstn psize d), firstn size (skipn psize d))
             :: split_items f psize size (skipn (psize + size) d)
      end
  end.

(* extract_cto_g51v1 / extract_cto_g51v2 = the HCto clause of Convert.v [extract] *)
Definition cto_of (v t : N) : option (tq * N) :=
  Some (if v =? 1 then Sync else Unsync, t mod (timestamp_max + 1)).

(* what one header does: new common time of occurrence, the tokens it delivers, and whether the
   conversion model describes its callbacks *)
Record hres := mk_hres { hr_cto : option (tq * N); hr_items : list mitem; hr_modelled : bool }.

Definition quiet (cto : option (tq * N)) : hres := mk_hres cto [] true.
Definition unmodelled (cto : option (tq * N)) : hres := mk_hres cto [] false.

(* the two ranged kinds outside the conversion model that are simple enough to print directly:
   handle_analog_input_dead_band (g34v1 u16 -> `a<n>`, g34v2 u32 -> `b<n>`, g34v3 f32 -> `c<bits %08x>`) and
   handle_unsigned_integer (g102v1 -> `<n>`); HeaderInfo::new(var, qualifier, false, false) *)
Definition deadband_chars (v x : N) : list N :=
  if v =? 1 then 97 :: dec_chars x else if v =? 2 then 98 :: dec_chars x else 99 :: hex_chars 8 x.

Definition raw_range_items (kind : list N) (g v q start count : N) (size : nat) (value : N -> list N)
  (d : list N) : list mitem :=
  map (fun ib => MiText (info_chars kind g v q false false ++ [47] ++ dec_chars (fst ib) ++ [61]
                         ++ value (le_dec (snd ib))))
      (number_from start (chunks_of (N.to_nat count) size d)).

Definition ranged_items (cto : option (tq * N)) (g v q start stop : N) (p : apayload) : hres :=
  let generic d :=
    if (g =? 110) || match find_info ranged_info g v with Some _ => true | None => false end then
      mk_hres cto (obs_items q None (extract_range g v start stop d)) true
    else if g =? 80 then quiet cto                           (* internal indications *)
    else unmodelled cto in
  match p with
  | PyNone => quiet cto                                        (* variation 0, g0v254: extraction not supported *)
  | PyFixedRange _ count d =>
      if g =? 34 then
        mk_hres cto (raw_range_items [97; 105; 100; 98] g v q start count (if v =? 1 then 2 else 4)
                                     (deadband_chars v) d) true
      else if (g =? 102) && (v =? 1) then
        mk_hres cto (raw_range_items [117; 105; 110; 116] g v q start count 1 dec_chars d) true
      else generic d
  | PyBits _ _ d | PyDBits _ _ d | PyOctetsRange _ _ d => generic d
  | _ => unmodelled cto                                        (* device attributes *)
  end.

Definition prefixed_items (cto : option (tq * N)) (g v q : N) (p : apayload) : hres :=
  match p with
  | PyFixedPrefix psize _ d =>
      match find_info prefixed_info g v, obj_size g v with
      | Some _, Some size =>
          mk_hres cto (obs_items q None
                         (extract_prefix cto g v (split_items (length d) (N.to_nat psize) size d))) true
      | _, _ =>
          if amem g [12; 34; 41] then quiet cto                (* command echoes, dead-bands: `false` *)
          else unmodelled cto                                  (* command events g13 / g43 *)
      end
  | PyOctetsPrefix psize _ d =>
      if g =? 111 then
        mk_hres cto (obs_items q None
                       (extract_prefix cto g v (split_items (length d) (N.to_nat psize) (N.to_nat v) d))) true
      else unmodelled cto
  | _ => unmodelled cto                                        (* device attributes *)
  end.

Definition count_items (cto : option (tq * N)) (g v q c : N) (p : apayload) : hres :=
  match p with
  | PyFixedCount _ d =>
      if (g =? 51) && ((v =? 1) || (v =? 2)) && (c =? 1) then mk_hres (cto_of v (le_dec d)) [] true
      else if (g =? 50) && (v =? 1) && (c =? 1) then mk_hres cto [MiAbs q (le_dec d)] true
      else quiet cto
  | _ => quiet cto
  end.

(* `handle` of extract_measurements_inner *)
Definition header_items (cto : option (tq * N)) (h : aobj_header) : hres :=
  let g := oh_g h in
  let v := oh_v h in
  let q := aqualifier (oh_details h) in
  match oh_details h with
  | HRange8 a b | HRange16 a b => ranged_items cto g v q a b (oh_payload h)
  | HPrefix8 _ | HPrefix16 _ => prefixed_items cto g v q (oh_payload h)
  | HCount8 c | HCount16 c => count_items cto g v q c (oh_payload h)
  | HAll | HFree _ => quiet cto
  end.

(* objects.iter().fold(None, handle) *)
Fixpoint headers_items (cto : option (tq * N)) (hs : list aobj_header) : list mitem * bool :=
  match hs with
  | [] => ([], true)
  | h :: r =>
      let x := header_items cto h in
      let '(items, ok) := headers_items (hr_cto x) r in
      (hr_items x ++ items, hr_modelled x && ok)
  end.

(* the headers of a fragment whose application header and object section are both well-formed *)
Definition fragment_headers (frag : list N) : option (list aobj_header) :=
  match parse_fragment mopts frag with
  | AOk pf => match headers_of pf with AOk hs => Some hs | AErr _ => None end
  | AErr _ => None
  end.

Definition fragment_items (frag : list N) : list mitem * bool :=
  match fragment_headers frag with Some hs => headers_items None hs | None => ([], true) end.

Definition mitems (frag : list N) : list MT.item := map item_chars (fst (fragment_items frag)).
Definition mcovered (frag : list N) : bool := snd (fragment_items frag).

(* ================================================================================================ *)
(* 4. the composed run                                                                               *)

Definition compute_event (ev : MT.mevent) : MT.mevent :=
  match ev with
  | MT.ERx src frag _ _ => MT.ERx src frag (mverdict frag) (mitems frag)
  | _ => ev
  end.

Definition event_covered (ev : MT.mevent) : bool :=
  match ev with MT.ERx _ frag _ _ => mcovered frag | _ => true end.

Definition covered (evs : list MT.mevent) : bool := forallb event_covered evs.

Definition run (cfg : MT.mcfg) (evs : list MT.mevent) : list (list MT.tobs) :=
  MT.run cfg (map compute_event evs).

End MF.
